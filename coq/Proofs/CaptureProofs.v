(* C17 — proofs about Model/Capture.v: both writers store exactly the capped prefix of what was written,
   for EVERY chunking; append ranges tile the stored log; previews are byte prefixes. *)
From RipV Require Import Base.Prelude Model.TaskLifecycle Model.Capture.

(* ================= take / drop / nlen ================= *)
Lemma nlen_nil {A} : nlen (@nil A) = 0.
Proof. reflexivity. Qed.

Lemma nlen_app {A} (a b : list A) : nlen (a ++ b) = nlen a + nlen b.
Proof. unfold nlen. rewrite app_length. lia. Qed.

Lemma nlen_take n (l : bytes) : nlen (take n l) = N.min n (nlen l).
Proof. unfold nlen, take. rewrite firstn_length. lia. Qed.

Lemma nlen_drop n (l : bytes) : nlen (drop n l) = nlen l - n.
Proof. unfold nlen, drop. rewrite skipn_length. lia. Qed.

Lemma take_0 (l : bytes) : take 0 l = [].
Proof. reflexivity. Qed.

Lemma take_nil n : take n [] = [].
Proof. unfold take. apply firstn_nil. Qed.

Lemma take_all n (l : bytes) : nlen l <= n -> take n l = l.
Proof. unfold take, nlen. intros H. apply firstn_all2. lia. Qed.

Lemma take_min n (l : bytes) : take (N.min n (nlen l)) l = take n l.
Proof.
  destruct (N.leb_spec n (nlen l)) as [H|H].
  - rewrite N.min_l by assumption. reflexivity.
  - rewrite N.min_r by lia. rewrite !take_all by lia. reflexivity.
Qed.

Lemma take_app n (a b : bytes) : take n (a ++ b) = take n a ++ take (n - nlen a) b.
Proof.
  unfold take, nlen. rewrite firstn_app. f_equal. f_equal. lia.
Qed.

Lemma take_take n m (l : bytes) : take n (take m l) = take (N.min n m) l.
Proof.
  unfold take. rewrite firstn_firstn. f_equal. lia.
Qed.

Lemma take_drop (n : N) (l : bytes) : take n l ++ drop n l = l.
Proof. unfold take, drop. apply firstn_skipn. Qed.

Lemma drop_app_exact (a b : bytes) : drop (nlen a) (a ++ b) = b.
Proof.
  unfold drop, nlen. rewrite Nat2N.id. rewrite skipn_app, skipn_all, Nat.sub_diag. reflexivity.
Qed.

Lemma drop_0 (l : bytes) : drop 0 l = l.
Proof. reflexivity. Qed.

(* the capped prefix grows chunk by chunk exactly as both writers grow their file *)
Lemma take_snoc_chunk cap (content c : bytes) :
  take cap (content ++ c)
  = take cap content ++ take (N.min (cap - nlen (take cap content)) (nlen c)) c.
Proof.
  rewrite take_app, take_min, nlen_take. f_equal.
  destruct (N.leb_spec (nlen content) cap) as [H|H].
  - rewrite N.min_r by assumption. reflexivity.
  - rewrite N.min_l by lia. replace (cap - nlen content) with 0 by lia.
    replace (cap - cap) with 0 by lia. reflexivity.
Qed.

(* ================= TaskLogWriter ================= *)
(* the state of a writer that has been fed `content` in any chunking *)
Definition lw_inv (cap : N) (content : bytes) (w : lw) : Prop :=
  lw_cap w = cap /\ lw_file w = take cap content /\ lw_nstored w = nlen (lw_file w)
  /\ lw_total w = nlen content /\ lw_trunc w = (cap <? nlen content).

Lemma lw_inv_new cap : lw_inv cap [] (lw_new cap).
Proof.
  unfold lw_inv, lw_new; cbn [lw_cap lw_file lw_nstored lw_total lw_trunc].
  rewrite take_nil. repeat split. symmetry. apply N.ltb_ge. cbn. lia.
Qed.

Lemma lw_inv_append cap content w c :
  lw_inv cap content w -> lw_inv cap (content ++ c) (fst (lw_append w c)).
Proof.
  intros (Hc & Hf & Hn & Ht & Htr).
  unfold lw_inv, lw_append; cbn [fst lw_cap lw_file lw_nstored lw_total lw_trunc].
  rewrite Hc. rewrite Hn. rewrite Hf. rewrite Ht. rewrite Htr.
  split; [reflexivity|]. split; [symmetry; apply take_snoc_chunk|].
  split.
  { rewrite nlen_app, !nlen_take. lia. }
  split; [rewrite nlen_app; reflexivity|].
  rewrite nlen_app, nlen_take.
  destruct (N.ltb_spec cap (nlen content)) as [H1|H1];
  destruct (N.ltb_spec cap (nlen content + nlen c)) as [H2|H2];
  destruct (N.ltb_spec (N.min (cap - N.min cap (nlen content)) (nlen c)) (nlen c)) as [H3|H3];
  cbn [orb]; try reflexivity; lia.
Qed.

Lemma lw_run_fst_app w a b :
  fst (lw_run w (a ++ b)) = fst (lw_run (fst (lw_run w a)) b).
Proof.
  revert w; induction a as [|c a IH]; intros w; cbn [lw_run app fst]; [reflexivity|].
  destruct (lw_append w c) as [w1 i] eqn:E1.
  specialize (IH w1).
  destruct (lw_run w1 (a ++ b)) as [w2 is2] eqn:E2.
  destruct (lw_run w1 a) as [w3 is3] eqn:E3. cbn [fst] in *. exact IH.
Qed.

Lemma lw_inv_run cap chunks : forall content w,
  lw_inv cap content w -> lw_inv cap (content ++ concat chunks) (fst (lw_run w chunks)).
Proof.
  induction chunks as [|c r IH]; intros content w Hw; cbn [lw_run concat fst].
  - rewrite app_nil_r. exact Hw.
  - destruct (lw_append w c) as [w1 i] eqn:E1.
    destruct (lw_run w1 r) as [w2 is2] eqn:E2. cbn [fst].
    rewrite app_assoc.
    replace w2 with (fst (lw_run w1 r)) by (rewrite E2; reflexivity).
    apply IH. replace w1 with (fst (lw_append w c)) by (rewrite E1; reflexivity).
    apply lw_inv_append. exact Hw.
Qed.

Theorem log_stored_is_prefix : forall (cap : N) (chunks : list bytes),
  let w := fst (lw_run (lw_new cap) chunks) in
  lw_file w = take cap (concat chunks)
  /\ lw_nstored w = nlen (lw_file w)
  /\ lw_total w = nlen (concat chunks)
  /\ lw_trunc w = (cap <? nlen (concat chunks)).
Proof.
  intros cap chunks w.
  destruct (lw_inv_run cap chunks [] (lw_new cap) (lw_inv_new cap)) as (_ & Hf & Hn & Ht & Htr).
  cbn [app] in *. subst w. auto.
Qed.

(* ---- append ranges: consecutive, non-overlapping, cover [0, stored), and name the chunk's bytes ---- *)
Fixpoint tiles (at_ : N) (rs : list (N * N)) : N :=    (* end of the tiling, or a hole is an inequality *)
  match rs with [] => at_ | (o, n) :: r => tiles (at_ + n) r end.

Fixpoint consecutive (at_ : N) (rs : list (N * N)) : Prop :=
  match rs with [] => True | (o, n) :: r => o = at_ /\ consecutive (at_ + n) r end.

Definition range_of (i : apinfo) : N * N := (ap_off i, ap_bytes i).

(* each append's range holds, in the final file, exactly the stored part of its chunk *)
Fixpoint ranges_hold (file : bytes) (is_ : list apinfo) (chunks : list bytes) : Prop :=
  match is_, chunks with
  | [], [] => True
  | i :: ir, c :: cr =>
    take (ap_bytes i) (drop (ap_off i) file) = take (ap_bytes i) c /\ ranges_hold file ir cr
  | _, _ => False
  end.

Lemma lw_append_info w c :
  let '(w1, i) := lw_append w c in
  ap_off i = lw_nstored w /\ ap_bytes i = lw_nstored w1 - lw_nstored w
  /\ lw_nstored w <= lw_nstored w1 /\ ap_stored i = lw_nstored w1 /\ ap_total i = lw_total w1
  /\ ap_trunc i = lw_trunc w1
  /\ lw_file w1 = lw_file w ++ take (ap_bytes i) c.
Proof.
  unfold lw_append; cbn [ap_off ap_bytes ap_stored ap_total ap_trunc lw_nstored lw_total lw_trunc lw_file].
  repeat split; lia.
Qed.

Lemma lw_run_consecutive chunks : forall w,
  let '(w2, is_) := lw_run w chunks in
  consecutive (lw_nstored w) (map range_of is_)
  /\ tiles (lw_nstored w) (map range_of is_) = lw_nstored w2
  /\ length is_ = length chunks
  /\ exists tail, lw_file w2 = lw_file w ++ tail.
Proof.
  induction chunks as [|c r IH]; intros w; cbn [lw_run].
  - cbn [map consecutive tiles length]. repeat split. exists []. rewrite app_nil_r. reflexivity.
  - pose proof (lw_append_info w c) as HA.
    destruct (lw_append w c) as [w1 i] eqn:E1.
    specialize (IH w1). destruct (lw_run w1 r) as [w2 is2] eqn:E2.
    destruct HA as (Ho & Hb & Hle & _ & _ & _ & Hfile).
    destruct IH as (Hc & Ht & Hl & tail & Htail).
    cbn [map consecutive tiles length range_of].
    replace (lw_nstored w + ap_bytes i) with (lw_nstored w1) by lia.
    repeat split; auto.
    exists (take (ap_bytes i) c ++ tail). rewrite Htail, Hfile, app_assoc. reflexivity.
Qed.

Lemma lw_run_ranges_hold chunks : forall w,
  lw_nstored w = nlen (lw_file w) ->
  let '(w2, is_) := lw_run w chunks in
  lw_nstored w2 = nlen (lw_file w2) /\ forall tail, ranges_hold (lw_file w2 ++ tail) is_ chunks.
Proof.
  induction chunks as [|c r IH]; intros w Hn; cbn [lw_run].
  - cbn [ranges_hold]. auto.
  - pose proof (lw_append_info w c) as HA.
    pose proof (lw_run_consecutive r) as HC.
    destruct (lw_append w c) as [w1 i] eqn:E1.
    specialize (IH w1). specialize (HC w1). destruct (lw_run w1 r) as [w2 is2] eqn:E2.
    destruct HA as (Ho & Hb & Hle & _ & _ & _ & Hfile).
    assert (Hn1 : lw_nstored w1 = nlen (lw_file w1)).
    { rewrite Hfile, nlen_app, nlen_take, <- Hn.
      assert (ap_bytes i <= nlen c).
      { unfold lw_append in E1. inversion E1; subst; cbn [ap_bytes]. lia. }
      lia. }
    destruct (IH Hn1) as (Hn2 & Hr).
    split; [exact Hn2|]. intros tail. cbn [ranges_hold]. split; [|apply Hr].
    destruct HC as (_ & _ & _ & tl & Htl).
    rewrite Htl, Hfile, Ho, Hn, <- !app_assoc, drop_app_exact.
    rewrite take_app, take_take, N.min_id, nlen_take.
    assert (Hab : ap_bytes i <= nlen c).
    { unfold lw_append in E1. inversion E1; subst; cbn [ap_bytes]. lia. }
    rewrite N.min_l by exact Hab. rewrite N.sub_diag, take_0, app_nil_r. reflexivity.
Qed.

Theorem log_ranges_tile : forall (cap : N) (chunks : list bytes),
  let '(w, is_) := lw_run (lw_new cap) chunks in
  consecutive 0 (map range_of is_)
  /\ tiles 0 (map range_of is_) = nlen (lw_file w)
  /\ ranges_hold (lw_file w) is_ chunks.
Proof.
  intros cap chunks.
  pose proof (lw_run_consecutive chunks (lw_new cap)) as HC.
  pose proof (lw_run_ranges_hold chunks (lw_new cap) eq_refl) as HR.
  destruct (lw_run (lw_new cap) chunks) as [w is_].
  destruct HC as (Hc & Ht & _ & _). destruct HR as (Hn & Hr).
  cbn [lw_new lw_nstored] in Hc, Ht.
  split; [exact Hc|]. split; [rewrite Ht; exact Hn|].
  specialize (Hr []). rewrite app_nil_r in Hr. exact Hr.
Qed.

(* ================= UTF-8 automaton ================= *)
(* on valid input the lossy decoding is the identity (so "text" = the bytes) *)
Definition pend_acc (st : ust) : bytes := match st with UIdle => [] | UPend acc _ _ _ => acc end.

Lemma ustart_ok b o st : ustart b = (o, true, st) -> o ++ pend_acc st = [b].
Proof.
  unfold ustart. repeat (match goal with |- context [if ?c then _ else _] => destruct c end);
  intros E; inversion E; subst; reflexivity.
Qed.

Lemma urun_valid_id bs : forall st,
  snd (urun st bs) = true -> fst (urun st bs) = pend_acc st ++ bs.
Proof.
  induction bs as [|b r IH]; intros st; cbn [urun].
  - destruct st; cbn [snd fst]; [intros _|discriminate]. reflexivity.
  - destruct (ustep st b) as [[o ok] st'] eqn:E.
    specialize (IH st'). destruct (urun st' r) as [o2 ok2] eqn:E2. cbn [snd fst] in *.
    intros Hok. apply andb_true_iff in Hok as [Hok1 Hok2]. subst ok ok2. specialize (IH eq_refl).
    subst o2. rewrite app_assoc.
    change (b :: r) with ([b] ++ r). rewrite (app_assoc (pend_acc st)). f_equal.
    destruct st as [|acc need lo hi]; cbn [ustep] in E.
    + apply ustart_ok in E. exact E.
    + cbn [pend_acc]. destruct (inr lo hi b).
      * destruct (need =? 1); inversion E; subst; cbn [pend_acc app]; [rewrite app_nil_r|]; reflexivity.
      * destruct (ustart b) as [[o' ok'] st'']. inversion E.
Qed.

Lemma lossy_valid bs : utf8_ok bs = true -> lossy bs = bs.
Proof. unfold utf8_ok, lossy. intros H. apply (urun_valid_id bs UIdle H). Qed.

Lemma utf8_ok_nil : utf8_ok [] = true.
Proof. reflexivity. Qed.

Lemma trim_valid_spec bs : forall e,
  (trim_valid e bs <= e)%nat /\ utf8_ok (firstn (trim_valid e bs) bs) = true.
Proof.
  induction e as [|e IH]; cbn [trim_valid].
  - split; [lia|reflexivity].
  - destruct (utf8_ok (firstn (S e) bs)) eqn:E.
    + split; [lia|exact E].
    + destruct IH as [IH1 IH2]. split; [lia|exact IH2].
Qed.

(* truncate_utf8: the text is the decoding of a byte prefix within the limit; whenever something was
   cut, or the input is valid UTF-8 that fits, the text IS that byte prefix *)
Lemma truncate_utf8_spec bs m :
  let '(t, tr, used) := truncate_utf8 bs m in
  tr = (m <? nlen bs) /\ used <= nlen bs /\ (tr = true -> used <= m) /\ (tr = false -> used = nlen bs)
  /\ t = lossy (take used bs)
  /\ (tr = true -> t = take used bs)
  /\ (utf8_ok (take used bs) = true -> t = take used bs).
Proof.
  unfold truncate_utf8.
  destruct (N.leb_spec (nlen bs) m) as [H|H].
  - assert (E : take (nlen bs) bs = bs) by (apply take_all; lia).
    rewrite E.
    split; [symmetry; apply N.ltb_ge; exact H|].
    split; [lia|]. split; [discriminate|]. split; [reflexivity|]. split; [reflexivity|].
    split; [discriminate|]. intros Hv. apply lossy_valid. exact Hv.
  - destruct (trim_valid_spec bs (N.to_nat m)) as [H1 H2].
    unfold take. rewrite Nat2N.id.
    split; [symmetry; apply N.ltb_lt; exact H|].
    split; [unfold nlen in *; lia|]. split; [lia|]. split; [discriminate|]. split; [reflexivity|].
    split; intros _; apply lossy_valid; exact H2.
Qed.

(* ================= capture_stream ================= *)
Lemma take_min' n (l : bytes) : take (N.min (nlen l) n) l = take n l.
Proof. rewrite N.min_comm. apply take_min. Qed.

Lemma tail_write_spec amax (P R : bytes) :
  amax <> 0 ->
  tail_write amax (take amax P) (nlen (take amax P)) R
  = (take amax (P ++ R), nlen (take amax (P ++ R))).
Proof.
  intros Ha. unfold tail_write.
  destruct (N.eqb_spec amax 0) as [E0|_]; [contradiction|].
  rewrite (take_snoc_chunk amax P R).
  set (n := nlen (take amax P)).
  destruct (N.eqb_spec (amax - n) 0) as [E1|E1].
  - rewrite E1. rewrite N.min_0_l, take_0, app_nil_r. reflexivity.
  - destruct (N.eqb_spec (N.min (amax - n) (nlen R)) 0) as [E2|E2].
    + rewrite E2, take_0, app_nil_r. reflexivity.
    + f_equal. rewrite nlen_app. fold n. rewrite (nlen_take (N.min (amax - n) (nlen R)) R). lia.
Qed.

Definition cs_inv (pmax amax : N) (content : bytes) (s : cs) : Prop :=
  cs_total s = nlen content
  /\ cs_prev s = take pmax content /\ cs_nprev s = nlen (cs_prev s)
  /\ (cs_full s = false -> nlen content <= pmax /\ cs_file s = None)
  /\ (cs_full s = true -> pmax <= nlen content)
  /\ match cs_file s with
     | Some f => amax <> 0 /\ f = take amax content /\ cs_nfile s = nlen f
     | None => cs_full s = false \/ amax = 0
     end.

Lemma cs_inv0 pmax amax : cs_inv pmax amax [] cs0.
Proof.
  unfold cs_inv, cs0; cbn [cs_total cs_prev cs_nprev cs_full cs_file cs_nfile].
  rewrite take_nil. repeat split; auto; try discriminate. cbn. lia.
Qed.

Lemma cs_inv_step pmax amax content s c :
  cs_inv pmax amax content s -> cs_inv pmax amax (content ++ c) (cs_step pmax amax s c).
Proof.
  intros (Ht & Hp & Hnp & Hnf & Hfl & Hfile).
  unfold cs_step.
  (* the preview part *)
  set (tk := N.min (pmax - cs_nprev s) (nlen c)).
  assert (Hprev :
    let '(prev, nprev, full) :=
      if cs_full s then (cs_prev s, cs_nprev s, true)
      else (cs_prev s ++ take tk c, cs_nprev s + tk, pmax <=? cs_nprev s + tk) in
    prev = take pmax (content ++ c) /\ nprev = nlen prev
    /\ (full = false -> nlen (content ++ c) <= pmax /\ cs_full s = false)
    /\ (full = true -> pmax <= nlen (content ++ c))
    /\ (cs_full s = true -> full = true)
    /\ (cs_full s = false -> nprev - cs_nprev s = tk)).
  { destruct (cs_full s) eqn:Ef.
    - specialize (Hfl eq_refl).
      split. { rewrite take_app, Hp. replace (pmax - nlen content) with 0 by lia.
               rewrite take_0, app_nil_r. reflexivity. }
      split; [exact Hnp|]. split; [discriminate|].
      split; [intros _; rewrite nlen_app; lia|]. split; [reflexivity|discriminate].
    - destruct (Hnf eq_refl) as [Hle _].
      assert (Hpc : cs_prev s = content) by (rewrite Hp; apply take_all; exact Hle).
      assert (Hn : cs_nprev s = nlen content) by (rewrite Hnp, Hpc; reflexivity).
      split. { rewrite take_app, (take_all pmax content Hle), Hpc. f_equal.
               subst tk. rewrite Hn. apply take_min. }
      split. { rewrite nlen_app, nlen_take, <- Hnp. subst tk. lia. }
      split. { intros Hf. apply N.leb_gt in Hf. split; [|reflexivity]. rewrite nlen_app. subst tk. lia. }
      split. { intros Hf. apply N.leb_le in Hf. rewrite nlen_app. subst tk. lia. }
      split; [discriminate|]. intros _. lia. }
  destruct (if cs_full s then (cs_prev s, cs_nprev s, true)
            else (cs_prev s ++ take tk c, cs_nprev s + tk, pmax <=? cs_nprev s + tk))
    as [[prev nprev] full] eqn:Eprev.
  destruct Hprev as (Hp' & Hnp' & Hnf' & Hfl' & Hmono & Hdelta).
  destruct (cs_file s) as [f|] eqn:Efile.
  - (* spill file already open *)
    destruct Hfile as (Ha & Hf & Hnfile).
    assert (Hfull : cs_full s = true).
    { destruct (cs_full s) eqn:Ef; [reflexivity|]. destruct (Hnf eq_refl) as [_ Hn]. discriminate. }
    rewrite Hnfile, Hf, (tail_write_spec amax content c Ha).
    unfold cs_inv; cbn [cs_total cs_prev cs_nprev cs_full cs_file cs_nfile].
    split; [rewrite Ht, nlen_app; reflexivity|]. split; [exact Hp'|]. split; [exact Hnp'|].
    split; [intros Hff; rewrite (Hmono Hfull) in Hff; discriminate|]. split; [exact Hfl'|].
    auto.
  - destruct full eqn:Efull; cbn [negb].
    + destruct (N.eqb_spec amax 0) as [Ea|Ea].
      * unfold cs_inv; cbn [cs_total cs_prev cs_nprev cs_full cs_file cs_nfile].
        split; [rewrite Ht, nlen_app; reflexivity|]. split; [exact Hp'|]. split; [exact Hnp'|].
        split; [discriminate|]. split; [exact Hfl'|]. right. exact Ea.
      * (* hand-over: the preview becomes the head of the spill file *)
        destruct Hfile as [Hff|Hz]; [|contradiction].
        destruct (Hnf Hff) as [Hle _].
        assert (Hpc : cs_prev s = content) by (rewrite Hp; apply take_all; exact Hle).
        assert (Hn : cs_nprev s = nlen content) by (rewrite Hnp, Hpc; reflexivity).
        specialize (Hdelta Hff).
        assert (Htk : tk <= nlen c) by (subst tk; lia).
        rewrite Hdelta. rewrite (N.min_l tk (nlen c) Htk).
        assert (Hsplit : content ++ c = prev ++ drop tk c).
        { rewrite Hff in Eprev. inversion Eprev; subst prev. rewrite Hpc, <- app_assoc, take_drop. reflexivity. }
        assert (Hf0 : take (N.min nprev amax) prev = take amax prev).
        { rewrite Hnp'. apply take_min'. }
        rewrite Hf0.
        assert (Hn0 : N.min nprev amax = nlen (take amax prev)).
        { rewrite nlen_take, Hnp'. lia. }
        rewrite Hn0, (tail_write_spec amax prev (drop tk c) Ea), <- Hsplit.
        unfold cs_inv; cbn [cs_total cs_prev cs_nprev cs_full cs_file cs_nfile].
        split; [rewrite Ht, nlen_app; reflexivity|]. split; [exact Hp'|]. split; [exact Hnp'|].
        split; [discriminate|]. split; [exact Hfl'|]. auto.
    + unfold cs_inv; cbn [cs_total cs_prev cs_nprev cs_full cs_file cs_nfile].
      destruct (Hnf' eq_refl) as [Hle Hff].
      split; [rewrite Ht, nlen_app; reflexivity|]. split; [exact Hp'|]. split; [exact Hnp'|].
      split; [intros _; split; [exact Hle|reflexivity]|]. split; [discriminate|]. left. reflexivity.
Qed.

Lemma cs_inv_fold pmax amax chunks : forall content s,
  cs_inv pmax amax content s ->
  cs_inv pmax amax (content ++ concat chunks) (fold_left (cs_step pmax amax) chunks s).
Proof.
  induction chunks as [|c r IH]; intros content s Hs; cbn [fold_left concat].
  - rewrite app_nil_r. exact Hs.
  - rewrite app_assoc. apply IH. apply cs_inv_step. exact Hs.
Qed.

Theorem capture_stored_is_prefix : forall (H : bytes -> N) (pmax amax : N) (chunks : list bytes),
  let c := capture_stream H pmax amax chunks in
  let out := concat chunks in
  cp_bytes_total c = nlen out
  /\ cp_truncated c = (pmax <? nlen out)
  /\ (let pv := shell_preview (take pmax out) (pmax <? nlen out) in
      cp_bytes_preview c = nlen pv /\ cp_lines c = lines (lossy pv) /\ nlen pv <= pmax)
  /\ match cp_artifact c with
     | Some a => pmax < nlen out /\ amax <> 0
                 /\ cp_blob c = take amax out /\ a_id a = H (take amax out)
                 /\ a_bytes a = nlen (take amax out) /\ a_trunc a = (amax <? nlen out)
     | None => nlen out <= pmax \/ amax = 0
     end.
Proof.
  intros H pmax amax chunks c out. subst c. unfold capture_stream.
  pose proof (cs_inv_fold pmax amax chunks [] cs0 (cs_inv0 pmax amax)) as Hinv.
  cbn [app] in Hinv. fold out in Hinv.
  set (s := fold_left (cs_step pmax amax) chunks cs0) in *.
  destruct Hinv as (Ht & Hp & Hnp & Hnf & Hfl & Hfile).
  unfold cs_finish.
  set (pv := shell_preview (cs_prev s) (pmax <? cs_total s)).
  assert (Hpv : nlen pv <= pmax).
  { subst pv. unfold shell_preview. destruct (pmax <? cs_total s).
    - rewrite nlen_take, Hp, nlen_take. lia.
    - rewrite Hp, nlen_take. lia. }
  assert (Htr : truncate_utf8 pv pmax = (lossy pv, false, nlen pv)).
  { unfold truncate_utf8.
    destruct (N.leb_spec (nlen pv) pmax) as [_|Hc]; [reflexivity|lia]. }
  rewrite Htr. cbn [cp_bytes_total cp_truncated cp_bytes_preview cp_lines cp_artifact cp_blob].
  subst pv. rewrite Ht, Hp in *.
  split; [reflexivity|]. split; [reflexivity|].
  split; [split; [reflexivity|split; [reflexivity|exact Hpv]]|].
  destruct (N.ltb_spec pmax (nlen out)) as [Hlt|Hge]; cbn [negb].
  - destruct (cs_file s) as [f|] eqn:Ef.
    + destruct Hfile as (Ha & Hf & Hn). cbn [a_id a_bytes a_trunc]. subst f.
      rewrite Hn, nlen_take.
      repeat split; auto.
      destruct (N.ltb_spec (N.min amax (nlen out)) (nlen out)) as [H1|H1];
      destruct (N.ltb_spec amax (nlen out)) as [H2|H2]; try reflexivity; lia.
    + destruct Hfile as [Hff|Hz]; [|right; exact Hz].
      destruct (Hnf Hff) as [Hle _]. lia.
  - left. exact Hge.
Qed.

(* ================= pump_output_stream ================= *)
Lemma pump_step_proj plimit st c :
  ps_w (pump_step plimit st c) = fst (lw_append (ps_w st) c)
  /\ map df_info (ps_frames (pump_step plimit st c))
     = map df_info (ps_frames st) ++ [snd (lw_append (ps_w st) c)].
Proof.
  unfold pump_step. destruct (lw_append (ps_w st) c) as [w1 i].
  destruct (pump_text (ps_carry st) c) as [text carry'].
  destruct (truncate_utf8 text (N.min plimit OUTPUT_EVENT_MAX_BYTES)) as [[pv tr] used].
  cbn [ps_w ps_frames fst snd]. rewrite map_app. split; reflexivity.
Qed.

Lemma pump_fold plimit chunks : forall st,
  ps_w (fold_left (pump_step plimit) chunks st) = fst (lw_run (ps_w st) chunks)
  /\ map df_info (ps_frames (fold_left (pump_step plimit) chunks st))
     = map df_info (ps_frames st) ++ snd (lw_run (ps_w st) chunks).
Proof.
  induction chunks as [|c r IH]; intros st; cbn [fold_left lw_run].
  - cbn [fst snd]. rewrite app_nil_r. split; reflexivity.
  - destruct (IH (pump_step plimit st c)) as [IH1 IH2].
    destruct (pump_step_proj plimit st c) as [P1 P2].
    rewrite IH1, IH2, P1, P2.
    destruct (lw_append (ps_w st) c) as [w1 i]. cbn [fst snd].
    destruct (lw_run w1 r) as [w2 is2]. cbn [fst snd].
    rewrite <- app_assoc. split; reflexivity.
Qed.

(* the pump stores what the log writer stores, and its frames carry exactly the append ranges, one per
   chunk, in order: so the ranges named by the output frames tile the stored log *)
Theorem pump_frames_tile : forall (cap plimit : N) (chunks : list bytes),
  let '(w, fs) := pump cap plimit chunks in
  w = fst (lw_run (lw_new cap) chunks)
  /\ map df_info fs = snd (lw_run (lw_new cap) chunks)
  /\ consecutive 0 (map range_of (map df_info fs))
  /\ tiles 0 (map range_of (map df_info fs)) = nlen (lw_file w)
  /\ ranges_hold (lw_file w) (map df_info fs) chunks.
Proof.
  intros cap plimit chunks. unfold pump, pump_run.
  destruct (pump_fold plimit chunks {| ps_w := lw_new cap; ps_carry := []; ps_frames := [] |}) as [H1 H2].
  cbn [ps_w ps_frames map app] in H1, H2. rewrite H1, H2.
  pose proof (log_ranges_tile cap chunks) as HT.
  destruct (lw_run (lw_new cap) chunks) as [w is_]. cbn [fst snd].
  destruct HT as (T1 & T2 & T3). repeat split; assumption.
Qed.

(* S17, the code before the repair: with preview limit 0 no frame references the stored bytes *)
Definition s17_chunks : list bytes := [[104; 101]; [108; 108; 111]].
Lemma pump_unfixed_ranges_refuted :
  exists cap plimit chunks,
    let '(w, fs) := pump_unfixed cap plimit chunks in
    tiles 0 (map range_of (map df_info fs)) <> nlen (lw_file w).
Proof. exists 100, 0, s17_chunks. vm_compute. discriminate. Qed.

(* S12, the code before the repair: "aééé" read in pages of 4 bytes *)
Definition s12_file : bytes := [97; 195; 169; 195; 169; 195; 169].
Lemma pages_unfixed_refuted :
  exists file maxb fuel,
    utf8_ok file = true /\ 4 <= maxb
    /\ concat (map pg_content (page_walk read_range_unfixed fuel file 0 maxb)) <> file.
Proof. exists s12_file, 4, 20%nat. vm_compute. repeat split; discriminate. Qed.

Example pages_fixed_s12 :
  concat (map pg_content (page_walk read_range 20 s12_file 0 4)) = s12_file.
Proof. vm_compute. reflexivity. Qed.

(* ================= UTF-8: prefixes of valid text, character boundaries ================= *)
Fixpoint steps_ok (st : ust) (bs : bytes) : bool :=
  match bs with
  | [] => true
  | b :: r => let '(_, ok, st') := ustep st b in ok && steps_ok st' r
  end.

Definition is_idle (st : ust) : bool := match st with UIdle => true | _ => false end.

Lemma urun_ok bs : forall st, snd (urun st bs) = steps_ok st bs && is_idle (ufinal st bs).
Proof.
  induction bs as [|b r IH]; intros st; cbn [urun steps_ok ufinal].
  - destruct st; reflexivity.
  - destruct (ustep st b) as [[o ok] st'] eqn:E. specialize (IH st').
    destruct (urun st' r) as [o2 ok2]. cbn [snd] in *. rewrite IH. apply andb_assoc.
Qed.

Lemma ufinal_app a : forall st b, ufinal st (a ++ b) = ufinal (ufinal st a) b.
Proof.
  induction a as [|x a IH]; intros st b; cbn [app ufinal]; [reflexivity|].
  destruct (ustep st x) as [[o ok] st']. apply IH.
Qed.

Lemma steps_ok_app a : forall st b, steps_ok st (a ++ b) = steps_ok st a && steps_ok (ufinal st a) b.
Proof.
  induction a as [|x a IH]; intros st b; cbn [app steps_ok ufinal]; [reflexivity|].
  destruct (ustep st x) as [[o ok] st']. rewrite IH. apply andb_assoc.
Qed.

Lemma ustart_pend b o ok acc n lo hi :
  ustart b = (o, ok, UPend acc n lo hi) -> acc = [b] /\ 1 <= n /\ n <= 3.
Proof.
  unfold ustart. repeat (match goal with |- context [if ?c then _ else _] => destruct c end);
  intros E; inversion E; subst; repeat split; lia.
Qed.

Lemma ok_prefix_decomp bs : steps_ok UIdle bs = true ->
  exists pre, bs = pre ++ pend_acc (ufinal UIdle bs)
              /\ steps_ok UIdle pre = true /\ ufinal UIdle pre = UIdle.
Proof.
  induction bs as [|b bs IH] using rev_ind; intros Hok.
  - exists []. repeat split.
  - rewrite steps_ok_app in Hok. apply andb_true_iff in Hok as [Hok1 Hok2].
    destruct (IH Hok1) as (pre & Hbs & Hpre & Hfin). rewrite ufinal_app.
    cbn [steps_ok ufinal] in *.
    destruct (ustep (ufinal UIdle bs) b) as [[o ok] st'] eqn:E.
    rewrite andb_true_r in Hok2. subst ok.
    assert (Hwhole : steps_ok UIdle (bs ++ [b]) = true /\ ufinal UIdle (bs ++ [b]) = st').
    { rewrite steps_ok_app, ufinal_app, Hok1. cbn [steps_ok ufinal]. rewrite E. split; reflexivity. }
    destruct Hwhole as [Hw1 Hw2].
    destruct st' as [|acc' n' lo' hi'].
    + exists (bs ++ [b]). cbn [pend_acc]. rewrite app_nil_r. repeat split; assumption.
    + exists pre. split; [|split; assumption]. cbn [pend_acc].
      destruct (ufinal UIdle bs) as [|acc need lo hi] eqn:Est; cbn [ustep pend_acc] in *.
      * apply ustart_pend in E as [-> _]. rewrite app_nil_r in Hbs. subst pre. reflexivity.
      * destruct (inr lo hi b).
        -- destruct (need =? 1); inversion E; subst. rewrite <- app_assoc. reflexivity.
        -- destruct (ustart b) as [[o' ok'] st'']. inversion E.
Qed.

Definition ust_wf (st : ust) : Prop :=
  match st with UIdle => True | UPend acc need _ _ => nlen acc + need <= 4 /\ 1 <= need /\ 1 <= nlen acc end.

Lemma ustep_wf st b : ust_wf st -> ust_wf (snd (ustep st b)).
Proof.
  assert (Hs : forall b, ust_wf (snd (ustart b))).
  { intros x. destruct (ustart x) as [[o ok] st'] eqn:E. cbn [snd]. destruct st'; [exact I|].
    apply ustart_pend in E as (-> & H1 & H2). cbn. lia. }
  destruct st as [|acc need lo hi]; intros Hw; cbn [ustep].
  - apply Hs.
  - destruct (inr lo hi b).
    + destruct (N.eqb_spec need 1); cbn [snd]; [exact I|]. cbn in *. rewrite nlen_app. cbn. lia.
    + specialize (Hs b). destruct (ustart b) as [[o ok] st']. exact Hs.
Qed.

Lemma ufinal_wf bs : forall st, ust_wf st -> ust_wf (ufinal st bs).
Proof.
  induction bs as [|b r IH]; intros st Hw; cbn [ufinal]; [exact Hw|].
  pose proof (ustep_wf st b Hw) as H. destruct (ustep st b) as [[o ok] st']. apply IH, H.
Qed.

Lemma incomplete_tail_le3 bs : incomplete_tail bs <= 3.
Proof.
  unfold incomplete_tail. pose proof (ufinal_wf bs UIdle I) as H.
  destruct (ufinal UIdle bs); [lia|]. cbn in H. lia.
Qed.

(* a prefix of valid text, with its incomplete last character removed, is valid text *)
Lemma valid_prefix_trim buf rest :
  steps_ok UIdle (buf ++ rest) = true ->
  let pre := take (nlen buf - incomplete_tail buf) buf in
  utf8_ok pre = true /\ ufinal UIdle pre = UIdle
  /\ buf = pre ++ pend_acc (ufinal UIdle buf) /\ nlen pre = nlen buf - incomplete_tail buf.
Proof.
  intros Hok. rewrite steps_ok_app in Hok. apply andb_true_iff in Hok as [Hok _].
  destruct (ok_prefix_decomp buf Hok) as (pre & Hbuf & Hpre & Hfin).
  assert (Ht : incomplete_tail buf = nlen (pend_acc (ufinal UIdle buf))).
  { unfold incomplete_tail. destruct (ufinal UIdle buf); reflexivity. }
  cbv zeta. rewrite Ht.
  remember (pend_acc (ufinal UIdle buf)) as acc eqn:Eacc.
  assert (Hpre' : take (nlen buf - nlen acc) buf = pre).
  { rewrite Hbuf. rewrite nlen_app. replace (nlen pre + nlen acc - nlen acc) with (nlen pre) by lia.
    rewrite take_app, N.sub_diag, take_0, app_nil_r. apply take_all. lia. }
  rewrite Hpre'. split; [|split; [exact Hfin|split; [exact Hbuf|]]].
  - unfold utf8_ok. rewrite urun_ok, Hpre, Hfin. reflexivity.
  - rewrite Hbuf at 1. rewrite nlen_app. lia.
Qed.

(* S19 repaired: the shell preview of valid UTF-8 output is exactly a byte prefix of it *)
Theorem shell_preview_exact : forall (pmax : N) (out : bytes),
  utf8_ok out = true ->
  let pv := shell_preview (take pmax out) (pmax <? nlen out) in
  lossy pv = pv /\ exists rest, out = pv ++ rest.
Proof.
  intros pmax out Hv pv. subst pv. unfold shell_preview.
  unfold utf8_ok in Hv. rewrite urun_ok in Hv. apply andb_true_iff in Hv as [Hs Hi].
  destruct (N.ltb_spec pmax (nlen out)) as [Hlt|Hge].
  - rewrite <- (take_drop pmax out) in Hs.
    destruct (valid_prefix_trim _ _ Hs) as (Hok & _ & Hbuf & _).
    split; [apply lossy_valid, Hok|].
    eexists. rewrite <- (take_drop pmax out) at 1. rewrite Hbuf at 1. rewrite <- app_assoc. reflexivity.
  - rewrite take_all by exact Hge. split; [|exists []; rewrite app_nil_r; reflexivity].
    apply lossy_valid. unfold utf8_ok. rewrite urun_ok, Hs, Hi. reflexivity.
Qed.

(* ================= pages ================= *)
Lemma skipn_skipn_add {A} m : forall n (l : list A), skipn n (skipn m l) = skipn (m + n) l.
Proof.
  induction m as [|m IH]; intros n l; [reflexivity|].
  destruct l as [|x l]; cbn [skipn Nat.add]; [destruct n; reflexivity|apply IH].
Qed.

Lemma drop_drop n m (l : bytes) : drop n (drop m l) = drop (m + n) l.
Proof. unfold drop. rewrite skipn_skipn_add. f_equal. lia. Qed.

Lemma firstn_add_nat {A} a : forall b (l : list A),
  firstn (a + b) l = firstn a l ++ firstn b (skipn a l).
Proof.
  induction a as [|a IH]; intros b l; [reflexivity|].
  destruct l as [|x l]; cbn [Nat.add firstn skipn app].
  - rewrite firstn_nil. reflexivity.
  - f_equal. apply IH.
Qed.

Lemma take_add n m (l : bytes) : take (n + m) l = take n l ++ take m (drop n l).
Proof.
  unfold take, drop. rewrite <- firstn_add_nat. f_equal. lia.
Qed.

Lemma take_self_len n (l : bytes) : take (nlen (take n l)) l = take n l.
Proof. rewrite nlen_take, N.min_comm. apply take_min'. Qed.

(* what one page is, for every file: the bytes [offset, offset + pg_bytes) decoded, never more than
   max_bytes, `truncated` iff more bytes follow *)
Lemma read_range_page file off maxb :
  let buf := take maxb (drop off file) in
  let more := off + nlen buf <? nlen file in
  let p := read_range file off maxb in
  pg_content p = lossy (trim_page buf more) /\ pg_bytes p = nlen (trim_page buf more)
  /\ pg_trunc p = more /\ pg_total p = nlen file /\ pg_bytes p <= maxb
  /\ trim_page buf more = take (pg_bytes p) (drop off file).
Proof.
  intros buf more p. subst p. unfold read_range. fold buf. fold more.
  assert (Hle : nlen (trim_page buf more) <= nlen buf).
  { unfold trim_page. destruct more; [|lia]. destruct (incomplete_tail buf <? nlen buf); [|lia].
    rewrite nlen_take. lia. }
  assert (Hb : nlen buf <= maxb) by (subst buf; rewrite nlen_take; lia).
  assert (Htr : truncate_utf8 (trim_page buf more) maxb
                = (lossy (trim_page buf more), false, nlen (trim_page buf more))).
  { unfold truncate_utf8. destruct (N.leb_spec (nlen (trim_page buf more)) maxb); [reflexivity|lia]. }
  rewrite Htr. cbn [pg_content pg_bytes pg_trunc pg_total orb].
  repeat (split; [reflexivity || lia|]).
  unfold trim_page. clear Hle Htr Hb. destruct more.
  - destruct (incomplete_tail buf <? nlen buf).
    + generalize (nlen buf - incomplete_tail buf). intros k. unfold buf.
      rewrite take_take, take_self_len. reflexivity.
    + unfold buf. symmetry. apply take_self_len.
  - unfold buf. symmetry. apply take_self_len.
Qed.

(* pages make progress whenever more bytes follow (max_bytes >= 1) *)
Lemma read_range_progress file off maxb :
  1 <= maxb -> pg_trunc (read_range file off maxb) = true -> 1 <= pg_bytes (read_range file off maxb).
Proof.
  intros Hm. destruct (read_range_page file off maxb) as (_ & Hb & Ht & _).
  rewrite Hb, Ht. clear Hb Ht. intros Hmore. rewrite Hmore.
  apply N.ltb_lt in Hmore. rewrite nlen_take, nlen_drop in Hmore.
  unfold trim_page. set (buf := take maxb (drop off file)).
  assert (Hbuf : 1 <= nlen buf) by (subst buf; rewrite nlen_take, nlen_drop; lia).
  destruct (N.ltb_spec (incomplete_tail buf) (nlen buf)); [rewrite nlen_take|]; lia.
Qed.

(* the page walk tiles the file, for EVERY file (binary included) and every max_bytes >= 1 *)
Lemma page_walk_tiles file maxb : 1 <= maxb -> forall fuel off,
  off <= nlen file -> nlen file - off < N.of_nat fuel ->
  let ps := page_walk read_range fuel file off maxb in
  sumN (map pg_bytes ps) = nlen file - off.
Proof.
  intros Hm. induction fuel as [|f IH]; intros off Hoff Hfuel; [lia|].
  cbn [page_walk].
  pose proof (read_range_page file off maxb) as (_ & Hb & Ht & _ & Hle & _).
  pose proof (read_range_progress file off maxb Hm) as Hprog.
  set (p := read_range file off maxb) in *.
  destruct (pg_trunc p) eqn:Etr; cbn [andb].
  - specialize (Hprog eq_refl). destruct (N.ltb_spec 0 (pg_bytes p)) as [_|Hc]; [|lia].
    symmetry in Ht. apply N.ltb_lt in Ht. rewrite nlen_take, nlen_drop in Ht.
    assert (Hpb : pg_bytes p <= nlen file - off).
    { rewrite Hb. unfold trim_page. rewrite (proj2 (N.ltb_lt _ _)) by (rewrite nlen_take, nlen_drop; lia).
      set (buf := take maxb (drop off file)).
      assert (nlen buf <= nlen file - off) by (subst buf; rewrite nlen_take, nlen_drop; lia).
      destruct (incomplete_tail buf <? nlen buf); [rewrite nlen_take|]; lia. }
    cbn [map sumN]. rewrite IH by lia. lia.
  - cbn [map sumN]. symmetry in Ht. apply N.ltb_ge in Ht. rewrite nlen_take, nlen_drop in Ht.
    rewrite Hb. unfold trim_page. rewrite (proj2 (N.ltb_ge _ _)) by (rewrite nlen_take, nlen_drop; lia).
    rewrite nlen_take, nlen_drop. lia.
Qed.

(* valid UTF-8 log, pages of at least 4 bytes (the widest character), started on a character boundary:
   the page texts concatenate to the stored text exactly *)
Lemma page_walk_text file maxb : utf8_ok file = true -> 4 <= maxb -> forall fuel off,
  off <= nlen file -> ufinal UIdle (take off file) = UIdle -> nlen file - off < N.of_nat fuel ->
  concat (map pg_content (page_walk read_range fuel file off maxb)) = drop off file.
Proof.
  intros Hv Hm. unfold utf8_ok in Hv. rewrite urun_ok in Hv. apply andb_true_iff in Hv as [Hs Hi].
  induction fuel as [|f IH]; intros off Hoff Hbd Hfuel; [lia|].
  cbn [page_walk].
  pose proof (read_range_page file off maxb) as (Hc & Hb & Ht & _ & _ & Hrange).
  set (p := read_range file off maxb) in *.
  (* the rest of the file from a boundary is valid text *)
  assert (Hrest : steps_ok UIdle (drop off file) = true /\ is_idle (ufinal UIdle (drop off file)) = true).
  { rewrite <- (take_drop off file) in Hs, Hi. rewrite steps_ok_app, Hbd in Hs. rewrite ufinal_app, Hbd in Hi.
    apply andb_true_iff in Hs as [_ Hs]. split; assumption. }
  destruct Hrest as [Hrs Hri].
  set (buf := take maxb (drop off file)) in *.
  assert (Hsplit : drop off file = buf ++ drop maxb (drop off file)) by (subst buf; symmetry; apply take_drop).
  destruct (pg_trunc p) eqn:Etr; cbn [andb].
  - (* more bytes follow: the page is buf without its incomplete last character *)
    symmetry in Ht. pose proof Ht as Hmore. apply N.ltb_lt in Hmore.
    assert (Hnb : nlen buf = maxb) by (subst buf; rewrite nlen_take, nlen_drop in *; lia).
    pose proof (incomplete_tail_le3 buf) as H3.
    rewrite Hsplit in Hrs.
    destruct (valid_prefix_trim buf _ Hrs) as (Hok & Hfin & Hbuf & Hnpre).
    set (pre := take (nlen buf - incomplete_tail buf) buf) in *.
    assert (Htrim : trim_page buf true = pre).
    { unfold trim_page. rewrite (proj2 (N.ltb_lt _ _)) by lia. reflexivity. }
    rewrite Ht, Htrim in Hc, Hb, Hrange.
    assert (Hpb : 1 <= pg_bytes p) by (rewrite Hb, Hnpre; lia).
    destruct (N.ltb_spec 0 (pg_bytes p)) as [_|Hcn]; [|lia].
    cbn [map concat]. rewrite Hc, (lossy_valid pre Hok).
    assert (Hpre_le : nlen pre <= nlen file - off).
    { rewrite Hnpre. lia. }
    rewrite IH.
    + rewrite Hb. rewrite <- drop_drop. rewrite <- (take_drop (nlen pre) (drop off file)) at 2.
      f_equal. rewrite <- Hb. exact Hrange.
    + lia.
    + rewrite Hb, take_add, ufinal_app, Hbd. rewrite <- Hb, <- Hrange. exact Hfin.
    + lia.
  - (* last page: everything that is left *)
    symmetry in Ht. pose proof Ht as Hmore. apply N.ltb_ge in Hmore.
    assert (Hall : buf = drop off file).
    { subst buf. apply take_all. rewrite nlen_take, nlen_drop in Hmore. rewrite nlen_drop. lia. }
    rewrite Ht in Hc. unfold trim_page in Hc. rewrite Hall in Hc.
    cbn [map concat]. rewrite Hc, app_nil_r. apply lossy_valid.
    unfold utf8_ok. rewrite urun_ok, Hrs, Hri. reflexivity.
Qed.

Theorem pages_reassemble : forall (file : bytes) (maxb : N) (fuel : nat),
  utf8_ok file = true -> 4 <= maxb -> nlen file < N.of_nat fuel ->
  let ps := page_walk read_range fuel file 0 maxb in
  concat (map pg_content ps) = file /\ sumN (map pg_bytes ps) = nlen file.
Proof.
  intros file maxb fuel Hv Hm Hf ps. subst ps. split.
  - rewrite (page_walk_text file maxb Hv Hm fuel 0); [reflexivity|lia|reflexivity|lia].
  - rewrite (page_walk_tiles file maxb ltac:(lia) fuel 0); lia.
Qed.

Theorem pages_tile_any_file : forall (file : bytes) (maxb : N) (fuel : nat),
  1 <= maxb -> nlen file < N.of_nat fuel ->
  sumN (map pg_bytes (page_walk read_range fuel file 0 maxb)) = nlen file.
Proof.
  intros file maxb fuel Hm Hf. rewrite (page_walk_tiles file maxb Hm fuel 0); lia.
Qed.

(* non-vacuity: the S12 witness meets the hypotheses of pages_reassemble, and its page boundary at
   offset 4 falls inside the second character *)
Lemma pages_hyp_example :
  utf8_ok s12_file = true /\ 4 <= 4 /\ nlen s12_file < N.of_nat 20
  /\ map pg_bytes (page_walk read_range 20 s12_file 0 4) = [3; 4].
Proof. vm_compute. repeat split; try reflexivity; discriminate. Qed.

Definition s19_out : bytes := [195; 169; 195; 169; 195; 169].
Lemma shell_preview_example :
  utf8_ok s19_out = true /\ shell_preview (take 3 s19_out) (3 <? nlen s19_out) = [195; 169].
Proof. vm_compute. split; reflexivity. Qed.

(* ================= delta-frame previews (S20 repaired) ================= *)
Lemma incomplete_tail_pend bs : incomplete_tail bs = nlen (pend_acc (ufinal UIdle bs)).
Proof. unfold incomplete_tail. destruct (ufinal UIdle bs); reflexivity. Qed.

(* what the previews emitted so far and the carried bytes are, for valid UTF-8 output *)
Definition pump_inv (content : bytes) (st : pst) : Prop :=
  concat (map df_preview (ps_frames st)) ++ ps_carry st = content
  /\ ufinal UIdle (concat (map df_preview (ps_frames st))) = UIdle
  /\ ps_carry st = pend_acc (ufinal UIdle content).

Lemma pump_step_exact plimit st c content rest :
  pump_inv content st -> steps_ok UIdle (content ++ c ++ rest) = true ->
  nlen c + 3 <= N.min plimit OUTPUT_EVENT_MAX_BYTES ->
  pump_inv (content ++ c) (pump_step plimit st c).
Proof.
  intros (Hcat & Hidle & Hcarry) Hok Hsmall.
  set (P := concat (map df_preview (ps_frames st))) in *.
  set (text := ps_carry st ++ c).
  assert (Hok' : steps_ok UIdle (text ++ rest) = true).
  { rewrite <- Hcat in Hok. rewrite <- !app_assoc in Hok. rewrite steps_ok_app, Hidle in Hok.
    apply andb_true_iff in Hok as [_ Hok]. subst text. rewrite <- app_assoc. exact Hok. }
  destruct (valid_prefix_trim text rest Hok') as (Hv & Hfin & Htext & Hnpre).
  set (pre := take (nlen text - incomplete_tail text) text) in *.
  assert (Hc3 : nlen (ps_carry st) <= 3).
  { rewrite Hcarry, <- incomplete_tail_pend. apply incomplete_tail_le3. }
  assert (Hlen : nlen pre <= N.min plimit OUTPUT_EVENT_MAX_BYTES).
  { rewrite Hnpre. subst text. rewrite nlen_app. lia. }
  unfold pump_step. destruct (lw_append (ps_w st) c) as [w1 i].
  unfold pump_text. fold text. fold pre.
  assert (Htr : truncate_utf8 pre (N.min plimit OUTPUT_EVENT_MAX_BYTES) = (pre, false, nlen pre)).
  { unfold truncate_utf8. destruct (N.leb_spec (nlen pre) (N.min plimit OUTPUT_EVENT_MAX_BYTES)); [|lia].
    rewrite (lossy_valid pre Hv). reflexivity. }
  rewrite Htr. unfold pump_inv. cbn [ps_frames ps_carry].
  rewrite map_app, concat_app. cbn [map concat df_preview]. rewrite app_nil_r. fold P.
  assert (Hdrop : drop (nlen text - incomplete_tail text) text = pend_acc (ufinal UIdle text)).
  { apply (app_inv_head pre). unfold pre at 1. rewrite take_drop. exact Htext. }
  split; [|split].
  - rewrite <- app_assoc. unfold pre. rewrite take_drop. subst text. rewrite app_assoc, Hcat. reflexivity.
  - rewrite ufinal_app, Hidle. exact Hfin.
  - rewrite Hdrop. rewrite <- Hcat, <- app_assoc. fold text. rewrite ufinal_app, Hidle. reflexivity.
Qed.

Lemma pump_fold_exact plimit chunks : forall st content rest,
  pump_inv content st -> steps_ok UIdle (content ++ concat chunks ++ rest) = true ->
  Forall (fun c => nlen c + 3 <= N.min plimit OUTPUT_EVENT_MAX_BYTES) chunks ->
  pump_inv (content ++ concat chunks) (fold_left (pump_step plimit) chunks st).
Proof.
  induction chunks as [|c r IH]; intros st content rest Hinv Hok Hall; cbn [fold_left concat].
  - rewrite app_nil_r. exact Hinv.
  - inversion Hall as [|c' r' Hc Hr]; subst. rewrite app_assoc.
    apply (IH _ _ rest).
    + apply (pump_step_exact plimit st c content (concat r ++ rest)); [exact Hinv| |exact Hc].
      cbn [concat] in Hok. rewrite <- app_assoc in Hok. exact Hok.
    + cbn [concat] in Hok. rewrite <- !app_assoc in *. exact Hok.
    + exact Hr.
Qed.

(* valid UTF-8 output, every read at least 3 bytes below the per-frame preview limit: the previews of the
   delta frames concatenate to the output exactly, however the reads split the characters *)
Theorem delta_previews_exact : forall (cap plimit : N) (chunks : list bytes),
  utf8_ok (concat chunks) = true ->
  Forall (fun c => nlen c + 3 <= N.min plimit OUTPUT_EVENT_MAX_BYTES) chunks ->
  concat (map df_preview (snd (pump cap plimit chunks))) = concat chunks.
Proof.
  intros cap plimit chunks Hv Hall. unfold utf8_ok in Hv. rewrite urun_ok in Hv.
  apply andb_true_iff in Hv as [Hs Hi].
  unfold pump, pump_run. cbn [snd].
  assert (H0 : pump_inv [] {| ps_w := lw_new cap; ps_carry := []; ps_frames := [] |}).
  { unfold pump_inv. cbn. repeat split. }
  pose proof (pump_fold_exact plimit chunks _ [] [] H0) as HI. cbn [app] in HI.
  rewrite app_nil_r in HI. specialize (HI Hs Hall).
  destruct HI as (Hcat & _ & Hcarry).
  destruct (ufinal UIdle (concat chunks)); [|discriminate].
  cbn [pend_acc] in Hcarry. rewrite Hcarry, app_nil_r in Hcat. exact Hcat.
Qed.

(* S20, the pump before the repair (every read decoded on its own): "éé" read as 1 + 3 bytes *)
Definition s20_chunks : list bytes := [[195]; [169; 195; 169]].
Lemma delta_previews_perchunk_refuted :
  exists cap plimit chunks,
    utf8_ok (concat chunks) = true
    /\ Forall (fun c => nlen c + 3 <= N.min plimit OUTPUT_EVENT_MAX_BYTES) chunks
    /\ concat (map df_preview (snd (pump_perchunk cap plimit chunks))) <> concat chunks.
Proof.
  exists 100, 64, s20_chunks. split; [reflexivity|]. split.
  - repeat constructor; vm_compute; discriminate.
  - vm_compute. discriminate.
Qed.
Example delta_previews_fixed_s20 :
  map df_preview (snd (pump 100 64 s20_chunks)) = [[]; [195; 169; 195; 169]].
Proof. vm_compute. reflexivity. Qed.
