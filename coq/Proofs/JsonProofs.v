(* Round-trip proofs for the JSON printers of Base/Json.v and the parser of Base/JsonParse.v:
     parse (print j) = Some j,  parse (print_pretty j) = Some j   (json_ok j, json_depth j < 128),
   the recursion limit is real (depth 128 is refused), compact output has no raw LF / CR, print is injective,
   and json_eqb decides equality. *)
From RipV Require Import Base.Prelude Base.Json Base.JsonParse.
Require Coq.Strings.String Coq.Strings.Ascii.   (* only for the text literals of the examples at the end *)

(* ================= nested induction principle ================= *)
Fixpoint json_ind' (P : json -> Prop)
  (Hnull : P JNull) (Hbool : forall b, P (JBool b)) (Hnum : forall t, P (JNum t)) (Hstr : forall s, P (JStr s))
  (Harr : forall l, Forall P l -> P (JArr l))
  (Hobj : forall kvs, Forall (fun kv => P (snd kv)) kvs -> P (JObj kvs))
  (j : json) {struct j} : P j :=
  match j with
  | JNull => Hnull
  | JBool b => Hbool b
  | JNum t => Hnum t
  | JStr s => Hstr s
  | JArr l =>
    Harr l ((fix go (l : list json) : Forall P l :=
               match l with
               | [] => Forall_nil P
               | x :: r => Forall_cons x (json_ind' P Hnull Hbool Hnum Hstr Harr Hobj x) (go r)
               end) l)
  | JObj kvs =>
    Hobj kvs ((fix go (l : list (str * json)) : Forall (fun kv => P (snd kv)) l :=
                 match l with
                 | [] => Forall_nil _
                 | kv :: r =>
                   Forall_cons kv
                     (match kv as kv0 return P (snd kv0) with
                      | (k, v) => json_ind' P Hnull Hbool Hnum Hstr Harr Hobj v
                      end) (go r)
                 end) kvs)
  end.

(* ================= json_eqb decides equality ================= *)
Lemma str_eqb_spec a b : str_eqb a b = true <-> a = b.
Proof. apply lN_eqb_spec. Qed.

Theorem json_eqb_spec : forall a b, json_eqb a b = true <-> a = b.
Proof.
  induction a as [| x | t | s | l IH | kvs IH] using json_ind'; intros b; destruct b as [| y | t' | s' | l' | kvs'];
    cbn [json_eqb]; try (split; congruence).
  - rewrite Bool.eqb_true_iff. split; congruence.
  - rewrite str_eqb_spec. split; congruence.
  - rewrite str_eqb_spec. split; congruence.
  - revert l'. induction IH as [|x l Hx _ IHl]; intros [|y l']; try (split; congruence).
    rewrite andb_true_iff, Hx, IHl. split.
    + intros [-> E]. inversion E. reflexivity.
    + intros E. inversion E. auto.
  - revert kvs'. induction IH as [|[k v] l Hv _ IHl]; intros [|[k' v'] l']; try (split; congruence).
    cbn [snd] in Hv. rewrite !andb_true_iff, str_eqb_spec, Hv, IHl. split.
    + intros [[-> ->] E]. inversion E. reflexivity.
    + intros E. inversion E. auto.
Qed.

(* ================= number tokens ================= *)
Lemma is_digit_num_char c : is_digit c = true -> is_num_char c = true.
Proof. unfold is_num_char. intros ->. reflexivity. Qed.

Lemma all_digits_num_chars l : all_digits l = true -> forallb is_num_char l = true.
Proof.
  induction l as [|c l IH]; cbn [all_digits forallb]; [reflexivity|].
  intros H. apply andb_true_iff in H as [Hc Hl]. rewrite (is_digit_num_char c Hc), (IH Hl). reflexivity.
Qed.

Lemma span_digits_spec l a b : span_digits l = (a, b) -> l = a ++ b /\ all_digits a = true.
Proof.
  revert a b. induction l as [|c l IH]; intros a b; cbn [span_digits].
  - intros E. inversion E. split; reflexivity.
  - destruct (is_digit c) eqn:Ec.
    + destruct (span_digits l) as [a' b'] eqn:El. intros E. inversion E; subst.
      destruct (IH a' b eq_refl) as [-> Ha]. cbn [app all_digits]. rewrite Ec, Ha. split; reflexivity.
    + intros E. inversion E; subst. split; reflexivity.
Qed.

Lemma exp_ok_num_chars t : exp_ok t = true -> forallb is_num_char t = true.
Proof.
  destruct t as [|c r]; [reflexivity|]. cbn [exp_ok forallb].
  destruct ((c =? 101) || (c =? 69)) eqn:Ec; [|discriminate].
  assert (Hc : is_num_char c = true) by (unfold is_num_char; lia). rewrite Hc. cbn [andb].
  destruct r as [|s r1]; [discriminate|].
  destruct ((s =? cPLUS) || (s =? cMINUS)) eqn:Es.
  - destruct r1 as [|x r2]; [discriminate|]. intros H. cbn [forallb].
    assert (Hs : is_num_char s = true) by (unfold is_num_char, cPLUS, cMINUS in *; lia). rewrite Hs.
    apply all_digits_num_chars in H. exact H.
  - intros H. apply all_digits_num_chars in H. exact H.
Qed.

Lemma forallb_app_true {A} (p : A -> bool) a b : forallb p a = true -> forallb p b = true -> forallb p (a ++ b) = true.
Proof. intros Ha Hb. rewrite forallb_app, Ha, Hb. reflexivity. Qed.

(* a valid number token consists of number characters ... *)
Lemma num_ok_num_chars tok : num_ok tok = true -> forallb is_num_char tok = true.
Proof.
  unfold num_ok.
  set (t1 := match tok with [] => tok | c :: r => if c =? cMINUS then r else tok end).
  assert (Ht1 : forallb is_num_char t1 = true -> forallb is_num_char tok = true).
  { subst t1. destruct tok as [|c r]; [auto|]. destruct (c =? cMINUS) eqn:Ec; [|auto].
    intros H. cbn [forallb]. rewrite H. unfold is_num_char. rewrite Ec. rewrite !orb_true_r. reflexivity. }
  intros H. apply Ht1. clear Ht1. clearbody t1.
  destruct (span_digits t1) as [ip t2] eqn:E1. apply span_digits_spec in E1 as [-> Hip].
  apply andb_true_iff in H as [_ H]. apply forallb_app_true; [apply all_digits_num_chars; exact Hip|].
  destruct t2 as [|c r]; [reflexivity|].
  destruct (c =? cDOT) eqn:Ec.
  - destruct (span_digits r) as [fp t3] eqn:E2. apply span_digits_spec in E2 as [-> Hfp].
    cbn [forallb]. unfold is_num_char at 1. rewrite Ec, !orb_true_r. cbn [andb].
    apply forallb_app_true; [apply all_digits_num_chars; exact Hfp|].
    destruct fp; [discriminate|]. apply exp_ok_num_chars. exact H.
  - apply exp_ok_num_chars. exact H.
Qed.

(* ... and starts with '-' or a digit *)
Lemma num_ok_start tok : num_ok tok = true -> exists c r, tok = c :: r /\ num_start c = true.
Proof.
  unfold num_ok. destruct tok as [|c r]; [cbn; discriminate|].
  intros H. exists c, r. split; [reflexivity|]. unfold num_start.
  destruct (c =? cMINUS) eqn:Ec; [reflexivity|]. cbn [orb].
  cbn [span_digits] in H. destruct (is_digit c); [reflexivity|]. cbn in H. discriminate.
Qed.

Definition delim (rest : str) : Prop :=
  match rest with [] => True | c :: _ => is_num_char c = false end.

Lemma span_num_app tok rest :
  forallb is_num_char tok = true -> delim rest -> span_num (tok ++ rest) = (tok, rest).
Proof.
  intros Ht Hr. induction tok as [|c t IH]; cbn [app].
  - destruct rest as [|c r]; [reflexivity|]. cbn [delim] in Hr. cbn [span_num]. rewrite Hr. reflexivity.
  - cbn [forallb] in Ht. apply andb_true_iff in Ht as [Hc Ht]. cbn [span_num]. rewrite Hc, (IH Ht). reflexivity.
Qed.

(* ================= whitespace ================= *)
Definition all_ws (w : str) : Prop := forallb is_ws w = true.

Lemma all_ws_nil : all_ws [].
Proof. reflexivity. Qed.

Lemma skip_ws_app w x : all_ws w -> skip_ws (w ++ x) = skip_ws x.
Proof.
  unfold all_ws. induction w as [|c w IH]; cbn [app forallb skip_ws]; intros H; [reflexivity|].
  apply andb_true_iff in H as [Hc Hw]. rewrite Hc. auto.
Qed.

Lemma all_ws_nl_ind k : all_ws (nl_ind k).
Proof.
  unfold all_ws, nl_ind. cbn [forallb]. change (is_ws cNL) with true. cbn [andb].
  induction (2 * k)%nat as [|n IH]; cbn [repeat forallb]; [reflexivity|].
  change (is_ws cSP) with true. exact IH.
Qed.

Lemma all_ws_sp : all_ws [cSP].
Proof. reflexivity. Qed.

Lemma is_ws_not_num c : is_ws c = true -> is_num_char c = false.
Proof. unfold is_ws, is_num_char, is_digit, cMINUS, cPLUS, cDOT. lia. Qed.

Lemma delim_ws_close w c rest : all_ws w -> is_num_char c = false -> delim (w ++ c :: rest).
Proof.
  destruct w as [|a w]; cbn [app delim]; [auto|]. unfold all_ws. cbn [forallb]. intros H _.
  apply andb_true_iff in H as [Ha _]. apply is_ws_not_num. exact Ha.
Qed.

(* ---------- how a printed value starts ---------- *)
Definition is_val_start (c : N) : bool :=
  num_start c || (c =? 34) || (c =? 91) || (c =? 123) || (c =? 110) || (c =? 116) || (c =? 102).

Definition val_start (t : str) : Prop :=
  match t with [] => False | c :: _ => is_val_start c = true end.

Lemma is_val_start_facts c :
  is_val_start c = true -> is_ws c = false /\ (c =? 93) = false /\ (c =? 125) = false.
Proof. unfold is_val_start, num_start, is_digit, is_ws, cMINUS. lia. Qed.

Lemma val_start_app t x : val_start t -> val_start (t ++ x).
Proof. destruct t; [contradiction|]. auto. Qed.

Lemma skip_ws_val t : val_start t -> skip_ws t = t.
Proof.
  destruct t as [|c t]; [contradiction|]. cbn [val_start skip_ws]. intros H.
  apply is_val_start_facts in H as [-> _]. reflexivity.
Qed.

Lemma empty_close_val cl t : val_start t -> cl = 93 \/ cl = 125 -> empty_close cl t = None.
Proof.
  destruct t as [|c t]; [contradiction|]. cbn [val_start empty_close]. intros H Hcl.
  apply is_val_start_facts in H as (_ & H1 & H2). destruct Hcl as [-> | ->]; [rewrite H1|rewrite H2]; reflexivity.
Qed.

Lemma join_map_cons2 {A} sep (f : A -> str) x y l :
  join sep (map f (x :: y :: l)) = f x ++ sep ++ join sep (map f (y :: l)).
Proof. reflexivity. Qed.

Lemma val_start_join {A} sep (f : A -> str) x l : val_start (f x) -> val_start (join sep (map f (x :: l))).
Proof.
  intros H. destruct l as [|y l]; [exact H|]. rewrite join_map_cons2. apply val_start_app. exact H.
Qed.

(* ---------- separators ---------- *)
Lemma sep_or_close_comma cl r : sep_or_close cl (44 :: r) = Some (true, skip_ws r).
Proof. reflexivity. Qed.

Lemma sep_or_close_close cl w r :
  all_ws w -> cl = 93 \/ cl = 125 -> sep_or_close cl (w ++ cl :: r) = Some (false, r).
Proof.
  intros Hw Hcl. unfold sep_or_close. rewrite skip_ws_app by exact Hw.
  destruct Hcl as [-> | ->]; reflexivity.
Qed.

(* ================= strings ================= *)
Lemma lt32_cases (P : N -> Prop) : (forall n, (n < 32)%nat -> P (N.of_nat n)) -> forall c, c < 32 -> P c.
Proof. intros H c Hc. rewrite <- (N2Nat.id c). apply H. lia. Qed.

Lemma parse_str_chars_raw c r acc :
  (c =? 34) = false -> (c =? 92) = false -> (c <? 32) = false ->
  parse_str_chars (c :: r) acc = parse_str_chars r (c :: acc).
Proof. intros H1 H2 H3. cbn [parse_str_chars]. rewrite H1, H2, H3. reflexivity. Qed.

(* one printed character is read back as itself, whatever code point it is *)
Lemma parse_str_chars_esc c tail acc :
  parse_str_chars (esc_char c ++ tail) acc = parse_str_chars tail (c :: acc).
Proof.
  destruct (c <? 32) eqn:E.
  - apply N.ltb_lt in E. revert c E. apply lt32_cases. intros n Hn.
    do 32 (destruct n as [|n]; [reflexivity|]). lia.
  - unfold esc_char.
    destruct (c =? 34) eqn:E1; [apply N.eqb_eq in E1; subst c; reflexivity|].
    destruct (c =? 92) eqn:E2; [apply N.eqb_eq in E2; subst c; reflexivity|].
    replace (c =? 8) with false by lia. replace (c =? 9) with false by lia.
    replace (c =? 10) with false by lia. replace (c =? 12) with false by lia.
    replace (c =? 13) with false by lia. rewrite E. cbn [app].
    apply parse_str_chars_raw; assumption.
Qed.

Lemma parse_str_chars_print s rest acc :
  parse_str_chars (flat_map esc_char s ++ 34 :: rest) acc = Some (rev acc ++ s, rest).
Proof.
  revert acc. induction s as [|c s IH]; intros acc; cbn [flat_map app].
  - rewrite <- rev_append_rev. reflexivity.
  - rewrite <- app_assoc, parse_str_chars_esc, IH. cbn [rev]. rewrite <- app_assoc. reflexivity.
Qed.

Lemma print_str_app s rest : print_str s ++ rest = 34 :: flat_map esc_char s ++ 34 :: rest.
Proof. unfold print_str, cQUOTE. cbn [app]. rewrite <- app_assoc. reflexivity. Qed.

Lemma parse_key_print k cw x :
  all_ws cw -> parse_key (print_str k ++ 58 :: cw ++ x) = Some (k, skip_ws x).
Proof.
  intros Hw. rewrite print_str_app. rewrite <- (skip_ws_app cw x Hw).
  change (parse_key (34 :: flat_map esc_char k ++ 34 :: 58 :: cw ++ x))
    with (match parse_str_chars (flat_map esc_char k ++ 34 :: 58 :: cw ++ x) [] with
          | None => None
          | Some (k, r1) =>
            match skip_ws r1 with
            | [] => None
            | c1 :: r2 => if c1 =? cCOLON then Some (k, skip_ws r2) else None
            end
          end).
  rewrite parse_str_chars_print. reflexivity.
Qed.

(* ================= values ================= *)
(* unfolding equations of parse_value on a known first character *)
Lemma parse_value_num f d c r :
  num_start c = true ->
  parse_value (S f) d (c :: r) =
  (let '(tok, r') := span_num (c :: r) in if num_ok tok then Some (JNum tok, r') else None).
Proof. intros H. cbn [parse_value]. rewrite H. reflexivity. Qed.

Lemma parse_value_str f d x :
  parse_value (S f) d (34 :: x) =
  match parse_str_chars x [] with None => None | Some (s, r') => Some (JStr s, r') end.
Proof. reflexivity. Qed.

Lemma parse_value_arr f d r :
  parse_value (S f) d (91 :: r) =
  match Nat.pred d with
  | O => None
  | S _ =>
    match empty_close 93 (skip_ws r) with
    | Some r2 => Some (JArr [], r2)
    | None =>
      match parse_elems f (Nat.pred d) (skip_ws r) [] with
      | None => None
      | Some (l, r2) => Some (JArr l, r2)
      end
    end
  end.
Proof. reflexivity. Qed.

Lemma parse_value_obj f d r :
  parse_value (S f) d (123 :: r) =
  match Nat.pred d with
  | O => None
  | S _ =>
    match empty_close 125 (skip_ws r) with
    | Some r2 => Some (JObj [], r2)
    | None =>
      match parse_members f (Nat.pred d) (skip_ws r) [] with
      | None => None
      | Some (l, r2) => Some (JObj l, r2)
      end
    end
  end.
Proof. reflexivity. Qed.

(* what the container lemmas need to know about the printer `f` of the items: its output starts like a value and
   is parsed back, whatever follows (as long as a number is not followed by a number character) *)
Definition elem_ok (f : json -> str) (x : json) : Prop :=
  val_start (f x) /\
  forall fuel d rest,
    (2 * length (f x ++ rest) + 1 <= fuel)%nat -> (json_depth x < d)%nat -> delim rest ->
    parse_value fuel d (f x ++ rest) = Some (x, rest).

(* ---------- scalars (the two printers agree on them) ---------- *)
Lemma scalar_null : elem_ok print JNull.
Proof.
  split; [reflexivity|]. intros fuel d rest Hf _ _. destruct fuel as [|f]; [lia|]. reflexivity.
Qed.

Lemma scalar_bool b : elem_ok print (JBool b).
Proof.
  split; [destruct b; reflexivity|]. intros fuel d rest Hf _ _. destruct fuel as [|f]; [lia|].
  destruct b; reflexivity.
Qed.

Lemma scalar_num t : num_ok t = true -> elem_ok print (JNum t).
Proof.
  intros Hok. destruct (num_ok_start t Hok) as (c & r & -> & Hc). unfold elem_ok. cbn [print]. split.
  - cbn [val_start]. unfold is_val_start. rewrite Hc. reflexivity.
  - intros fuel d rest Hf _ Hd. destruct fuel as [|f]; [lia|]. cbn [app].
    rewrite parse_value_num by exact Hc. change (c :: r ++ rest) with ((c :: r) ++ rest).
    rewrite span_num_app by (auto using num_ok_num_chars). rewrite Hok. reflexivity.
Qed.

Lemma scalar_str s : elem_ok print (JStr s).
Proof.
  split; [reflexivity|]. intros fuel d rest Hf _ _. destruct fuel as [|f]; [lia|]. cbn [print].
  rewrite print_str_app, parse_value_str, parse_str_chars_print. reflexivity.
Qed.

(* ---------- arrays ---------- *)
Lemma parse_elems_join f sw ew :
  all_ws sw -> all_ws ew ->
  forall l x fuel d rest acc,
    Forall (elem_ok f) (x :: l) ->
    Forall (fun y => (json_depth y < d)%nat) (x :: l) ->
    (2 * length (join (44 :: sw) (map f (x :: l)) ++ ew ++ 93 :: rest)%N + 2 <= fuel)%nat ->
    parse_elems fuel d (join (44 :: sw) (map f (x :: l)) ++ ew ++ 93 :: rest) acc
    = Some (rev acc ++ x :: l, rest).
Proof.
  intros Hsw Hew. induction l as [|y l IH]; intros x fuel d rest acc Hok Hd Hf;
    (destruct fuel as [|fuel]; [lia|]); inversion Hok as [|? ? [Hvx Hx] Hok']; subst;
    inversion Hd as [|? ? Hdx Hd']; subst.
  - cbn [map join] in *. cbn [parse_elems].
    rewrite Hx; [| lia | exact Hdx | apply delim_ws_close; [exact Hew | reflexivity]].
    rewrite sep_or_close_close by auto. rewrite rev_append_rev. cbn [rev]. rewrite <- app_assoc. reflexivity.
  - rewrite join_map_cons2 in *. set (J := join (44 :: sw) (map f (y :: l))) in *.
    assert (E : (f x ++ (44 :: sw) ++ J) ++ ew ++ 93 :: rest = f x ++ 44 :: sw ++ J ++ ew ++ 93 :: rest).
    { rewrite <- !app_assoc. reflexivity. }
    rewrite E in *. clear E.
    assert (L : length (f x ++ 44 :: sw ++ J ++ ew ++ 93 :: rest)%N
                = (length (f x) + S (length sw + length (J ++ ew ++ 93 :: rest)%N))%nat).
    { rewrite app_length. cbn [length]. rewrite app_length. reflexivity. }
    cbn [parse_elems]. rewrite Hx; [| lia | exact Hdx | reflexivity].
    rewrite sep_or_close_comma, skip_ws_app by exact Hsw.
    assert (Hvy : val_start (J ++ ew ++ 93 :: rest)).
    { apply val_start_app. subst J. apply val_start_join. inversion Hok' as [|? ? [Hvy _] _]. exact Hvy. }
    rewrite skip_ws_val by exact Hvy. subst J.
    rewrite IH; [| exact Hok' | exact Hd' | lia]. cbn [rev]. rewrite <- app_assoc. reflexivity.
Qed.

Lemma depth_lt_Forall {A} (g : A -> nat) l n :
  (fold_right Nat.max 0%nat (map g l) < n)%nat -> Forall (fun y => (g y < n)%nat) l.
Proof.
  induction l as [|x l IH]; cbn [map fold_right]; intros H; constructor; [lia | apply IH; lia].
Qed.

Lemma parse_value_arr_gen f sw ew x l fuel d rest :
  all_ws sw -> all_ws ew -> Forall (elem_ok f) (x :: l) ->
  (2 * length (91 :: sw ++ join (44 :: sw) (map f (x :: l)) ++ ew ++ 93 :: rest)%N + 1 <= fuel)%nat ->
  (json_depth (JArr (x :: l)) < d)%nat ->
  parse_value fuel d (91 :: sw ++ join (44 :: sw) (map f (x :: l)) ++ ew ++ 93 :: rest)
  = Some (JArr (x :: l), rest).
Proof.
  intros Hsw Hew Hok Hf Hd. destruct fuel as [|fuel]; [lia|].
  change (json_depth (JArr (x :: l))) with (S (fold_right Nat.max 0%nat (map json_depth (x :: l)))) in Hd.
  destruct d as [|[|d]]; [lia | lia |].
  assert (Hd' : Forall (fun y => (json_depth y < S d)%nat) (x :: l)) by (apply depth_lt_Forall; lia).
  rewrite parse_value_arr. cbn [Nat.pred]. rewrite skip_ws_app by exact Hsw.
  assert (Hv : val_start (join (44 :: sw) (map f (x :: l)) ++ ew ++ 93 :: rest)).
  { apply val_start_app, val_start_join. inversion Hok as [|? ? [Hvx _] _]. exact Hvx. }
  rewrite skip_ws_val by exact Hv. rewrite empty_close_val by auto.
  cbn [length] in Hf. rewrite app_length in Hf.
  rewrite (parse_elems_join f sw ew Hsw Hew l x fuel (S d) rest []); [reflexivity | exact Hok | exact Hd' | lia].
Qed.

(* ---------- objects ---------- *)
Definition mem_txt (f : json -> str) (cw : str) (kv : str * json) : str :=
  print_str (fst kv) ++ 58 :: cw ++ f (snd kv).

Lemma val_start_mem f cw kv : val_start (mem_txt f cw kv).
Proof. reflexivity. Qed.

Lemma parse_members_join f cw sw ew :
  all_ws cw -> all_ws sw -> all_ws ew ->
  forall l kv fuel d rest acc,
    Forall (fun kv => elem_ok f (snd kv)) (kv :: l) ->
    Forall (fun kv => (json_depth (snd kv) < d)%nat) (kv :: l) ->
    (2 * length (join (44 :: sw) (map (mem_txt f cw) (kv :: l)) ++ ew ++ 125 :: rest)%N + 2 <= fuel)%nat ->
    parse_members fuel d (join (44 :: sw) (map (mem_txt f cw) (kv :: l)) ++ ew ++ 125 :: rest) acc
    = Some (rev acc ++ kv :: l, rest).
Proof.
  intros Hcw Hsw Hew. induction l as [|kv' l IH]; intros [k v] fuel d rest acc Hok Hd Hf;
    (destruct fuel as [|fuel]; [lia|]); inversion Hok as [|? ? [Hvx Hx] Hok']; subst;
    inversion Hd as [|? ? Hdx Hd']; subst; cbn [snd] in *.
  - cbn [map join] in *. unfold mem_txt in *. cbn [fst snd] in *.
    rewrite <- !app_assoc in *. cbn [app] in *. rewrite <- !app_assoc in *.
    cbn [parse_members]. rewrite parse_key_print by exact Hcw.
    rewrite skip_ws_val by (apply val_start_app; exact Hvx).
    rewrite !app_length in Hf. cbn [length] in Hf. rewrite !app_length in Hf. cbn [length] in Hf.
    rewrite Hx; [| rewrite !app_length; cbn [length]; lia | exact Hdx | apply delim_ws_close; [exact Hew | reflexivity]].
    rewrite sep_or_close_close by auto. rewrite rev_append_rev. cbn [rev]. rewrite <- app_assoc. reflexivity.
  - rewrite join_map_cons2 in *. set (J := join (44 :: sw) (map (mem_txt f cw) (kv' :: l))) in *.
    unfold mem_txt at 1 in Hf. unfold mem_txt at 1. cbn [fst snd] in *.
    assert (E : ((print_str k ++ 58 :: cw ++ f v) ++ (44 :: sw) ++ J) ++ ew ++ 125 :: rest
                = print_str k ++ 58 :: cw ++ f v ++ 44 :: sw ++ J ++ ew ++ 125 :: rest).
    { rewrite <- !app_assoc. cbn [app]. rewrite <- !app_assoc. reflexivity. }
    rewrite E in *. clear E.
    assert (L : length (print_str k ++ 58 :: cw ++ f v ++ 44 :: sw ++ J ++ ew ++ 125 :: rest)
                = (length (print_str k) + S (length cw + (length (f v)
                    + S (length sw + length (J ++ ew ++ 125 :: rest)%N))))%nat).
    { repeat (rewrite !app_length; cbn [length]). lia. }
    cbn [parse_members]. rewrite parse_key_print by exact Hcw.
    rewrite skip_ws_val by (apply val_start_app; exact Hvx).
    rewrite Hx; [| rewrite app_length; cbn [length]; rewrite app_length; lia | exact Hdx | reflexivity].
    rewrite sep_or_close_comma, skip_ws_app by exact Hsw.
    assert (Hvy : val_start (J ++ ew ++ 125 :: rest)).
    { apply val_start_app. subst J. apply val_start_join. apply val_start_mem. }
    rewrite skip_ws_val by exact Hvy. subst J.
    rewrite IH; [| exact Hok' | exact Hd' | lia]. cbn [rev]. rewrite <- app_assoc. reflexivity.
Qed.

Lemma parse_value_obj_gen f cw sw ew kv l fuel d rest :
  all_ws cw -> all_ws sw -> all_ws ew -> Forall (fun kv => elem_ok f (snd kv)) (kv :: l) ->
  (2 * length (123 :: sw ++ join (44 :: sw) (map (mem_txt f cw) (kv :: l)) ++ ew ++ 125 :: rest)%N + 1 <= fuel)%nat ->
  (json_depth (JObj (kv :: l)) < d)%nat ->
  parse_value fuel d (123 :: sw ++ join (44 :: sw) (map (mem_txt f cw) (kv :: l)) ++ ew ++ 125 :: rest)
  = Some (JObj (kv :: l), rest).
Proof.
  intros Hcw Hsw Hew Hok Hf Hd. destruct fuel as [|fuel]; [lia|].
  change (json_depth (JObj (kv :: l)))
    with (S (fold_right Nat.max 0%nat (map (fun kv => json_depth (snd kv)) (kv :: l)))) in Hd.
  destruct d as [|[|d]]; [lia | lia |].
  assert (Hd' : Forall (fun kv => (json_depth (snd kv) < S d)%nat) (kv :: l)) by (apply depth_lt_Forall; lia).
  rewrite parse_value_obj. cbn [Nat.pred]. rewrite skip_ws_app by exact Hsw.
  assert (Hv : val_start (join (44 :: sw) (map (mem_txt f cw) (kv :: l)) ++ ew ++ 125 :: rest)).
  { apply val_start_app, val_start_join, val_start_mem. }
  rewrite skip_ws_val by exact Hv. rewrite empty_close_val by auto.
  cbn [length] in Hf. rewrite app_length in Hf.
  rewrite (parse_members_join f cw sw ew Hcw Hsw Hew l kv fuel (S d) rest []);
    [reflexivity | exact Hok | exact Hd' | lia].
Qed.

(* ================= the two printers ================= *)
Lemma Forall_forallb_mp {A} (p : A -> bool) (Q : A -> Prop) l :
  Forall (fun x => p x = true -> Q x) l -> forallb p l = true -> Forall Q l.
Proof.
  induction 1 as [|x l Hx _ IH]; cbn [forallb]; intros H; constructor;
    apply andb_true_iff in H as [H1 H2]; auto.
Qed.

Lemma print_arr_app x l rest :
  print (JArr (x :: l)) ++ rest = 91 :: [] ++ join (44 :: []) (map print (x :: l)) ++ [] ++ 93 :: rest.
Proof.
  change (print (JArr (x :: l))) with (91 :: join [44] (map print (x :: l)) ++ [93]).
  cbn [app]. rewrite <- app_assoc. reflexivity.
Qed.

Lemma print_obj_app kv l rest :
  print (JObj (kv :: l)) ++ rest
  = 123 :: [] ++ join (44 :: []) (map (mem_txt print []) (kv :: l)) ++ [] ++ 125 :: rest.
Proof.
  change (print (JObj (kv :: l))) with (123 :: join [44] (map (mem_txt print []) (kv :: l)) ++ [125]).
  cbn [app]. rewrite <- app_assoc. reflexivity.
Qed.

Lemma pp_arr_app k x l rest :
  pp k (JArr (x :: l)) ++ rest
  = 91 :: nl_ind (S k) ++ join (44 :: nl_ind (S k)) (map (pp (S k)) (x :: l)) ++ nl_ind k ++ 93 :: rest.
Proof.
  change (pp k (JArr (x :: l)))
    with (91 :: nl_ind (S k) ++ join (44 :: nl_ind (S k)) (map (pp (S k)) (x :: l)) ++ nl_ind k ++ [93]).
  cbn [app]. rewrite <- !app_assoc. reflexivity.
Qed.

Lemma pp_obj_app k kv l rest :
  pp k (JObj (kv :: l)) ++ rest
  = 123 :: nl_ind (S k) ++ join (44 :: nl_ind (S k)) (map (mem_txt (pp (S k)) [32]) (kv :: l))
      ++ nl_ind k ++ 125 :: rest.
Proof.
  change (pp k (JObj (kv :: l)))
    with (123 :: nl_ind (S k) ++ join (44 :: nl_ind (S k)) (map (mem_txt (pp (S k)) [32]) (kv :: l))
            ++ nl_ind k ++ [125]).
  cbn [app]. rewrite <- !app_assoc. reflexivity.
Qed.

Lemma empty_arr_ok f : f (JArr []) = [91; 93] -> elem_ok f (JArr []).
Proof.
  intros E. unfold elem_ok. rewrite E. split; [reflexivity|]. intros fuel d rest Hf Hd _.
  destruct fuel as [|fuel]; [lia|]. cbn [json_depth map fold_right] in Hd.
  destruct d as [|[|d]]; [lia | lia |]. reflexivity.
Qed.

Lemma empty_obj_ok f : f (JObj []) = [123; 125] -> elem_ok f (JObj []).
Proof.
  intros E. unfold elem_ok. rewrite E. split; [reflexivity|]. intros fuel d rest Hf Hd _.
  destruct fuel as [|fuel]; [lia|]. cbn [json_depth map fold_right] in Hd.
  destruct d as [|[|d]]; [lia | lia |]. reflexivity.
Qed.

(* the core lemma, compact printer: a printed value followed by anything that does not extend a number is parsed
   back, leaving exactly what followed *)
Lemma print_elem_ok : forall j, json_ok j = true -> elem_ok print j.
Proof.
  induction j as [| b | t | s | l IH | kvs IH] using json_ind'; intros Hok.
  - apply scalar_null.
  - apply scalar_bool.
  - apply scalar_num. exact Hok.
  - apply scalar_str.
  - cbn [json_ok] in Hok. pose proof (Forall_forallb_mp _ _ _ IH Hok) as Hl.
    destruct l as [|x l]; [apply empty_arr_ok; reflexivity|].
    split; [reflexivity|]. intros fuel d rest Hf Hd _. rewrite print_arr_app in *.
    apply parse_value_arr_gen; auto using all_ws_nil.
  - cbn [json_ok] in Hok.
    assert (Hl : Forall (fun kv => elem_ok print (snd kv)) kvs).
    { eapply Forall_forallb_mp; [|exact Hok]. eapply Forall_impl; [|exact IH].
      intros kv H H1. apply andb_true_iff in H1 as [_ H1]. auto. }
    destruct kvs as [|kv l]; [apply empty_obj_ok; reflexivity|].
    split; [reflexivity|]. intros fuel d rest Hf Hd _. rewrite print_obj_app in *.
    apply parse_value_obj_gen; auto using all_ws_nil.
Qed.

(* the core lemma, pretty printer, at every indentation level *)
Lemma pp_elem_ok : forall j, json_ok j = true -> forall k, elem_ok (pp k) j.
Proof.
  induction j as [| b | t | s | l IH | kvs IH] using json_ind'; intros Hok k.
  - exact scalar_null.
  - exact (scalar_bool b).
  - exact (scalar_num t Hok).
  - exact (scalar_str s).
  - cbn [json_ok] in Hok. pose proof (Forall_forallb_mp _ _ _ IH Hok) as Hl.
    assert (Hl' : Forall (elem_ok (pp (S k))) l).
    { eapply Forall_impl; [|exact Hl]. intros x H. apply H. }
    destruct l as [|x l]; [apply empty_arr_ok; reflexivity|].
    split; [reflexivity|]. intros fuel d rest Hf Hd _. rewrite pp_arr_app in *.
    apply parse_value_arr_gen; auto using all_ws_nl_ind.
  - cbn [json_ok] in Hok.
    assert (Hl : Forall (fun kv => elem_ok (pp (S k)) (snd kv)) kvs).
    { eapply Forall_forallb_mp; [|exact Hok]. eapply Forall_impl; [|exact IH].
      intros kv H H1. apply andb_true_iff in H1 as [_ H1]. auto. }
    destruct kvs as [|kv l]; [apply empty_obj_ok; reflexivity|].
    split; [reflexivity|]. intros fuel d rest Hf Hd _. rewrite pp_obj_app in *.
    apply parse_value_obj_gen; auto using all_ws_nl_ind, all_ws_sp.
Qed.

Lemma parse_of_elem_ok f j :
  elem_ok f j -> (json_depth j < 128)%nat -> parse (f j) = Some j.
Proof.
  intros [Hv Hp] Hd. unfold parse. rewrite skip_ws_val by exact Hv.
  specialize (Hp (S (2 * length (f j))) RECURSION_LIMIT []). rewrite app_nil_r in Hp.
  rewrite Hp; [reflexivity | lia | exact Hd | exact I].
Qed.

Theorem parse_print : forall j, json_ok j = true -> (json_depth j < 128)%nat -> parse (print j) = Some j.
Proof. intros j Hok Hd. apply parse_of_elem_ok; [apply print_elem_ok; exact Hok | exact Hd]. Qed.

Theorem parse_print_pretty :
  forall j, json_ok j = true -> (json_depth j < 128)%nat -> parse (print_pretty j) = Some j.
Proof.
  intros j Hok Hd. unfold print_pretty. apply (parse_of_elem_ok (pp 0)); [apply pp_elem_ok; exact Hok | exact Hd].
Qed.

Theorem print_inj :
  forall a b, json_ok a = true -> json_ok b = true -> (json_depth a < 128)%nat -> (json_depth b < 128)%nat ->
              print a = print b -> a = b.
Proof.
  intros a b Ha Hb Da Db E. pose proof (parse_print a Ha Da) as Pa. pose proof (parse_print b Hb Db) as Pb.
  rewrite E in Pa. congruence.
Qed.

(* ---------- the recursion limit is real ---------- *)
Definition nested_arrays (n : nat) : json := Nat.iter n (fun x => JArr [x]) (JArr []).

Theorem parse_depth_limit_refuted : exists j, json_ok j = true /\ parse (print j) = None.
Proof. exists (nested_arrays 127). split; vm_compute; reflexivity. Qed.

Example depth_of_witness : json_depth (nested_arrays 127) = 128%nat.
Proof. vm_compute. reflexivity. Qed.

Example depth_127_parses : parse (print (nested_arrays 126)) = Some (nested_arrays 126).
Proof. vm_compute. reflexivity. Qed.

Example depth_127_parses_pretty : parse (print_pretty (nested_arrays 126)) = Some (nested_arrays 126).
Proof. vm_compute. reflexivity. Qed.

(* ================= compact output is one line ================= *)
Definition nolfb (c : N) : bool := negb (c =? 10) && negb (c =? 13).

Lemma hexd_nolf n : nolfb (hexd n) = true.
Proof. unfold nolfb, hexd. destruct (n <? 10); lia. Qed.

Lemma esc_char_nolf c : forallb nolfb (esc_char c) = true.
Proof.
  unfold esc_char.
  destruct (c =? 34); [reflexivity|]. destruct (c =? 92); [reflexivity|]. destruct (c =? 8); [reflexivity|].
  destruct (c =? 9); [reflexivity|]. destruct (c =? 10); [reflexivity|]. destruct (c =? 12); [reflexivity|].
  destruct (c =? 13); [reflexivity|]. destruct (c <? 32) eqn:E.
  - cbn [forallb]. rewrite !hexd_nolf. reflexivity.
  - cbn [forallb]. unfold nolfb. lia.
Qed.

Lemma print_str_nolf s : forallb nolfb (print_str s) = true.
Proof.
  unfold print_str. cbn [forallb]. rewrite forallb_app. change (nolfb cQUOTE) with true. cbn [andb].
  rewrite andb_true_iff. split; [|reflexivity].
  induction s as [|c s IH]; cbn [flat_map]; [reflexivity|]. rewrite forallb_app, esc_char_nolf, IH. reflexivity.
Qed.

Lemma join_map_forallb {A} (p : N -> bool) sep (f : A -> str) l :
  forallb p sep = true -> Forall (fun x => forallb p (f x) = true) l -> forallb p (join sep (map f l)) = true.
Proof.
  intros Hs H. induction H as [|x l Hx Hl IH]; [reflexivity|].
  destruct l as [|y l]; [exact Hx|]. rewrite join_map_cons2, !forallb_app, Hx, Hs, IH. reflexivity.
Qed.

Lemma num_char_nolf c : is_num_char c = true -> nolfb c = true.
Proof. unfold is_num_char, is_digit, nolfb, cMINUS, cPLUS, cDOT. lia. Qed.

Lemma print_nolf : forall j, json_ok j = true -> forallb nolfb (print j) = true.
Proof.
  induction j as [| b | t | s | l IH | kvs IH] using json_ind'; intros Hok.
  - reflexivity.
  - destruct b; reflexivity.
  - cbn [print json_ok] in *. apply num_ok_num_chars in Hok. apply forallb_forall. intros c Hc.
    apply num_char_nolf. revert c Hc. apply forallb_forall. exact Hok.
  - apply print_str_nolf.
  - cbn [json_ok] in Hok. pose proof (Forall_forallb_mp _ _ _ IH Hok) as Hl.
    cbn [print forallb]. rewrite forallb_app, (join_map_forallb nolfb [cCOMMA] print l); auto.
  - cbn [json_ok] in Hok.
    assert (Hl : Forall (fun kv => forallb nolfb (print_str (fst kv) ++ cCOLON :: print (snd kv)) = true) kvs).
    { eapply Forall_forallb_mp; [|exact Hok]. eapply Forall_impl; [|exact IH].
      intros kv H H1. apply andb_true_iff in H1 as [_ H1]. rewrite forallb_app, print_str_nolf. cbn [forallb andb].
      rewrite (H H1). reflexivity. }
    cbn [print forallb]. rewrite forallb_app. change (nolfb cLBRC) with true. cbn [andb].
    apply andb_true_iff. split; [|reflexivity]. apply join_map_forallb; [reflexivity | exact Hl].
Qed.

Theorem print_one_line : forall j, json_ok j = true -> ~ In 10 (print j) /\ ~ In 13 (print j).
Proof.
  intros j Hok. pose proof (print_nolf j Hok) as H. rewrite forallb_forall in H.
  split; intros Hin; apply H in Hin; discriminate Hin.
Qed.

(* ================= examples ================= *)

Module JsonExamples.
  Import Coq.Strings.String Coq.Strings.Ascii.
  Local Open Scope string_scope.

  (* ASCII text as code points (inside a Coq string literal a double quote is written twice) *)
  Definition t (x : string) : str := map N_of_ascii (list_ascii_of_string x).

  (* escapes: \u0001, \n, a surrogate pair (either hex case), the one-character escapes *)
  Example ex_escapes : parse (t """a\u0001\n\ud83d\ude00""") = Some (JStr [97; 1; 10; 128512]).
  Proof. vm_compute. reflexivity. Qed.

  Example ex_escapes_upper : parse (t """\uD83D\uDE00\u00e9\u00E9""") = Some (JStr [128512; 233; 233]).
  Proof. vm_compute. reflexivity. Qed.

  Example ex_simple_escapes :
    parse (t """\""\\\/\b\f\n\r\t""") = Some (JStr [34; 92; 47; 8; 12; 10; 13; 9]).
  Proof. vm_compute. reflexivity. Qed.

  (* a raw U+2028 (and any other raw code point >= 32) is taken as is *)
  Example ex_raw_2028 : parse [34; 8232; 128512; 127; 34] = Some (JStr [8232; 128512; 127]).
  Proof. vm_compute. reflexivity. Qed.

  (* nested containers with whitespace everywhere it is allowed *)
  Example ex_nested_ws :
    parse (t "  { ""a"" : [ 1 , -2.5e+3 , [ ] , { } ] ,  ""b"":{""c"":null,""d"":[true,false]} }  ")
    = Some (JObj [(t "a", JArr [JNum (t "1"); JNum (t "-2.5e+3"); JArr []; JObj []]);
                  (t "b", JObj [(t "c", JNull); (t "d", JArr [JBool true; JBool false])])]).
  Proof. vm_compute. reflexivity. Qed.

  Example ex_ws_kinds : parse [9; 10; 13; 32; 91; 9; 49; 10; 44; 13; 50; 32; 93; 10] = Some (JArr [JNum [49]; JNum [50]]).
  Proof. vm_compute. reflexivity. Qed.

  (* duplicate keys are kept, in document order *)
  Example ex_dup_keys :
    parse (t "{""k"":1,""j"":2,""k"":3}") = Some (JObj [(t "k", JNum (t "1")); (t "j", JNum (t "2")); (t "k", JNum (t "3"))]).
  Proof. vm_compute. reflexivity. Qed.

  (* rejections *)
  Example ex_trailing_comma : parse (t "[1,]") = None.
  Proof. vm_compute. reflexivity. Qed.
  Example ex_trailing_comma_obj : parse (t "{""a"":1,}") = None.
  Proof. vm_compute. reflexivity. Qed.
  Example ex_leading_zero : parse (t "01") = None.
  Proof. vm_compute. reflexivity. Qed.
  Example ex_bad_numbers :
    map parse [t "-"; t "1."; t ".5"; t "1e"; t "+1"; t "1e+"; t "--1"; t "1-2"] = repeat None 8.
  Proof. vm_compute. reflexivity. Qed.
  Example ex_lone_high_surrogate : parse (t """\ud800""") = None.
  Proof. vm_compute. reflexivity. Qed.
  Example ex_lone_low_surrogate : parse (t """\udc00""") = None.
  Proof. vm_compute. reflexivity. Qed.
  Example ex_high_then_non_low : parse (t """\ud83d\u0041""") = None.
  Proof. vm_compute. reflexivity. Qed.
  Example ex_high_then_raw : parse (t """\ud83dA""") = None.
  Proof. vm_compute. reflexivity. Qed.
  Example ex_bad_escape : parse (t """\x41""") = None.
  Proof. vm_compute. reflexivity. Qed.
  Example ex_bad_hex : parse (t """\u00g1""") = None.
  Proof. vm_compute. reflexivity. Qed.
  Example ex_raw_control : parse [34; 97; 10; 34] = None.
  Proof. vm_compute. reflexivity. Qed.
  Example ex_raw_control_31 : parse [34; 31; 34] = None.
  Proof. vm_compute. reflexivity. Qed.
  Example ex_trailing_garbage : parse (t "{} x") = None.
  Proof. vm_compute. reflexivity. Qed.
  Example ex_trailing_garbage_num : parse (t "1 2") = None.
  Proof. vm_compute. reflexivity. Qed.
  Example ex_unterminated :
    map parse [t ""; t "   "; t "["; t "[1"; t "{""a"""; t "{""a"":"; t """abc"; t "tru"; t "nul"; t "[1 2]"; t "{1:2}"; t "{""a"" 1}"]
    = repeat None 12.
  Proof. vm_compute. reflexivity. Qed.

  (* a non-trivial document meeting the hypotheses of the round-trip theorems, and what the printers make of it *)
  Definition doc : json :=
    JObj [(t "type", JStr (t "frame")); (t "seq", JNum (t "18446744073709551615"));
          (34 :: 1 :: 10 :: 8232 :: 128512 :: t "\key", JArr [JNull; JBool true; JNum (t "-0.5E-7"); JArr []; JObj []]);
          (t "type", JArr [JArr [JArr [JStr []]]])].

  Example doc_ok : json_ok doc = true /\ (json_depth doc < 128)%nat.
  Proof. split; [vm_compute; reflexivity | vm_compute; lia]. Qed.

  Example doc_print_key :
    print (JStr (34 :: 1 :: 10 :: 8232 :: 128512 :: t "\key"))
    = (t """\""\u0001\n" ++ [8232; 128512] ++ t "\\key""")%list.
  Proof. vm_compute. reflexivity. Qed.

  Example doc_roundtrip : parse (print doc) = Some doc /\ parse (print_pretty doc) = Some doc.
  Proof. split; vm_compute; reflexivity. Qed.

  Example doc_one_line : existsb (fun c => N.eqb c 10 || N.eqb c 13) (print doc) = false
                         /\ existsb (N.eqb 10) (print_pretty doc) = true.
  Proof. split; vm_compute; reflexivity. Qed.
End JsonExamples.

Print Assumptions parse_print.
Print Assumptions parse_print_pretty.
Print Assumptions print_one_line.
Print Assumptions parse_depth_limit_refuted.
Print Assumptions print_inj.
Print Assumptions json_eqb_spec.
