(* C09 x C04 — the cut points of Model/Compaction.v (C09: planner, theorems c09_cut_points_exact / c09_checkpointed_iff)
   are the truth answer of Model/Cache.v (C04), hence — under C04's faithfulness hypotheses on the sidecars and the
   ordinal index — the answer of C04's model of the cached route (`cut_points_ord`: message count and ordinal look-ups
   through the ordinal index, checkpoint look-up through the `.comp` sidecar, every fallback).
   The two models were written independently; `abs_log` forgets what C04 does not look at (ids, authors, summaries)
   and what C09 does not look at (line lengths: every frame gets length 1, job / decision / run frames become BOther —
   the cut-point query inspects none of them). *)
From RipV Require Import Base.Prelude Model.Compaction Proofs.CompactionProofs.
From RipV Require Model.Cache Proofs.CacheProofs.
From Coq Require Import Sorting.Sorted.

Definition abs_body (b : body) : Cache.fbody :=
  match b with
  | BMsg _ _ => Cache.BMessage
  | BCkpt _ _ t _ => Cache.BCheckpoint true t
  | _ => Cache.BOther
  end.
Definition abs_ev (e : ev) : Cache.frame :=
  {| Cache.fseq := eseq e; Cache.flen := 1; Cache.fb := abs_body (ebody e) |}.
Definition abs_log (l : list ev) : Cache.log := map abs_ev l.

Lemma abs_lens_pos l : CacheProofs.log_lens_pos (abs_log l) = true.
Proof. unfold CacheProofs.log_lens_pos, abs_log. induction l as [|e l IH]; [reflexivity|]. cbn. exact IH. Qed.

(* ---------- messages ---------- *)
Definition mabs (m : N * N) : Cache.frame := {| Cache.fseq := fst m; Cache.flen := 1; Cache.fb := Cache.BMessage |}.

Lemma messages_abs l : Cache.messages (abs_log l) = map mabs (msgs l).
Proof.
  unfold Cache.messages, abs_log, msgs. induction l as [|e l IH]; [reflexivity|].
  cbn [map filter flat_map]. unfold Cache.is_message at 1. unfold abs_ev at 1. cbn [Cache.fb].
  destruct (ebody e) eqn:Eb; cbn [abs_body app map]; try exact IH.
  rewrite IH. unfold abs_ev, mabs. rewrite Eb. reflexivity.
Qed.

Lemma nlen_messages_abs l : nlen (Cache.messages (abs_log l)) = nlen (msgs l).
Proof. rewrite messages_abs. unfold nlen. rewrite map_length. reflexivity. Qed.

(* ---------- the checkpoint look-up ---------- *)
Definition Rck (o : option ck) (o' : option Cache.frame) : Prop :=
  match o, o' with
  | None, None => True
  | Some c, Some f => Cache.ck_to_seq f = ck_to c /\ Cache.fseq f = ck_seq c
  | _, _ => False
  end.

Lemma sim_fold s : forall l acc acc', Rck acc acc' ->
  Rck (fold_left (best_step s) (ckpts l) acc) (Cache.latest_ckpt s acc' (abs_log l)).
Proof.
  induction l as [|e l IH]; intros acc acc' HR; [exact HR|].
  unfold ckpts, abs_log in *. cbn [flat_map map Cache.latest_ckpt].
  unfold Cache.is_checkpoint at 1. unfold abs_ev at 1 2. cbn [Cache.fb].
  destruct (ebody e) eqn:Eb; cbn [abs_body app andb]; try (apply IH; exact HR).
  cbn [fold_left]. unfold Cache.ck_to_seq at 1. cbn [Cache.fb]. unfold best_step at 2. cbn [ck_to].
  destruct (s <? to_seq) eqn:E1.
  - apply N.ltb_lt in E1. destruct (to_seq <=? s) eqn:E2; [apply N.leb_le in E2; lia|]. apply IH. exact HR.
  - apply N.ltb_ge in E1. destruct (to_seq <=? s) eqn:E2; [|apply N.leb_gt in E2; lia].
    assert (Ht : Cache.ck_to_seq (abs_ev e) = to_seq).
    { unfold Cache.ck_to_seq, abs_ev. cbn [Cache.fb]. rewrite Eb. reflexivity. }
    apply IH. destruct acc as [b|], acc' as [f|]; cbn [Rck] in HR; try contradiction.
    + destruct HR as [H1 H2].
      assert (Eq : Cache.ck_better (abs_ev e) f
                   = ck_better {| ck_to := to_seq; ck_seq := eseq e; ck_id := eid e; ck_art := art; ck_rule := rule; ck_mid := to_mid |} b).
      { unfold Cache.ck_better, ck_better. rewrite Ht, H1, H2. cbn [ck_to ck_seq abs_ev Cache.fseq]. reflexivity. }
      rewrite Eq. destruct (ck_better _ b); cbn [Rck].
      * split; [exact Ht | reflexivity].
      * split; assumption.
    + cbn [Rck]. split; [exact Ht | reflexivity].
Qed.

Lemma ckpts_rev l : ckpts (rev l) = rev (ckpts l).
Proof.
  induction l as [|e l IH]; [reflexivity|]. cbn [rev]. rewrite ckpts_app, IH.
  change (e :: l) with ([e] ++ l). rewrite (ckpts_app [e] l), rev_app_distr.
  f_equal. unfold ckpts. cbn [flat_map]. rewrite app_nil_r. destruct (ebody e); reflexivity.
Qed.

Lemma lookup_sim K l s :
  Cache.valid_log (abs_log l) = true -> Rck (cut_lookup K l s) (Cache.latest_ckpt s None (abs_log l)).
Proof.
  intros Hv. unfold cut_lookup, ck_lookup. destruct (nlen (ckpts l) <=? k_ck_window K).
  - rewrite <- ckpts_rev.
    rewrite <- (CacheProofs.latest_ckpt_rev s (abs_log l) None (CacheProofs.valid_seq_inj _ Hv)).
    unfold abs_log. rewrite <- map_rev. apply (sim_fold s (rev l) None None). exact I.
  - apply (sim_fold s l None None). exact I.
Qed.

(* ---------- one cut point ---------- *)
(* C04 names the latest checkpoint by the seq of its frame, C09 by its id: both are projections of the same frame,
   `cut_lookup K l (cp_seq c)` (c09_checkpointed_latest_wins) *)
Definition to_c04 (K : consts) (l : list ev) (c : cutpt) : Cache.cutpoint :=
  {| Cache.cp_ordinal := cp_ord c; Cache.cp_to_seq := cp_seq c; Cache.cp_already := cp_done c;
     Cache.cp_latest := if cp_done c then option_map ck_seq (cut_lookup K l (cp_seq c)) else None |}.

Lemma cut_point_at_bridge K l ord :
  ord <> 0 -> Cache.valid_log (abs_log l) = true ->
  match Cache.cut_point_at (abs_log l) ord with Some cp => [cp] | None => [] end
  = map (to_c04 K l) (cut_point_at K l ord).
Proof.
  intros Ho Hv. unfold Cache.cut_point_at, cut_point_at. rewrite messages_abs, nth_error_map.
  destruct (ord =? 0) eqn:E0; [apply N.eqb_eq in E0; contradiction|]. cbn [orb].
  destruct (nth_error (msgs l) (N.to_nat (ord - 1))) as [[s id]|] eqn:En; cbn [option_map].
  - assert (Hlt : (nlen (msgs l) <? ord) = false).
    { apply N.ltb_ge. assert (H : (N.to_nat (ord - 1) < length (msgs l))%nat) by (apply nth_error_Some; rewrite En; discriminate).
      unfold nlen. lia. }
    rewrite Hlt. cbn [map]. f_equal.
    change (match ck_lookup K (ckpts l) s with Some b => b | None => best_le (ckpts l) s end) with (cut_lookup K l s).
    pose proof (lookup_sim K l s Hv) as HR. unfold to_c04, mk_cut. cbn [cp_ord cp_seq cp_done cp_ck mabs Cache.fseq fst].
    destruct (cut_lookup K l s) as [b|], (Cache.latest_ckpt s None (abs_log l)) as [f|]; cbn [Rck] in HR; try contradiction.
    + destruct HR as [H1 H2]. rewrite H1. destruct (ck_to b =? s); cbn [option_map]; [rewrite H2|]; reflexivity.
    + reflexivity.
  - destruct (nlen (msgs l) <? ord); reflexivity.
Qed.

Lemma cut_ords_zero n stride : cut_ords n 0 stride = [].
Proof. destruct n; reflexivity. Qed.

Lemma loop_bridge K l stride latest :
  Cache.valid_log (abs_log l) = true -> forall n i,
  Cache.cut_points_from (abs_log l) stride latest i n
  = map (to_c04 K l) (flat_map (cut_point_at K l) (cut_ords n (latest - i * stride) stride)).
Proof.
  intros Hv. induction n as [|n IH]; intros i; [reflexivity|].
  cbn [Cache.cut_points_from cut_ords].
  destruct (latest - i * stride =? 0) eqn:E0; [reflexivity|]. apply N.eqb_neq in E0.
  cbn [flat_map]. rewrite map_app, <- (cut_point_at_bridge K l _ E0 Hv).
  replace (latest - i * stride - stride) with (latest - (i + 1) * stride) by lia.
  rewrite <- IH. destruct (Cache.cut_point_at (abs_log l) (latest - i * stride)); reflexivity.
Qed.

(* ---------- the query ---------- *)
Theorem cut_points_truth_bridge K l stride lim :
  k_limit_lo K = 1 -> k_limit_hi K = 32 -> Cache.valid_log (abs_log l) = true ->
  Cache.cut_points_truth (abs_log l) stride lim = (nlen (msgs l), map (to_c04 K l) (cut_points K stride lim l)).
Proof.
  intros Hlo Hhi Hv. unfold Cache.cut_points_truth, cut_points. rewrite nlen_messages_abs. f_equal.
  assert (Ec : Cache.clamp_limit lim = clamp (k_limit_lo K) (k_limit_hi K) lim).
  { unfold Cache.clamp_limit, clamp. rewrite Hlo, Hhi. reflexivity. }
  destruct (nlen (msgs l) / stride * stride =? 0) eqn:E0.
  - apply N.eqb_eq in E0. rewrite E0, cut_ords_zero. reflexivity.
  - rewrite (loop_bridge K l stride _ Hv), Ec. rewrite N.mul_0_l, N.sub_0_r. reflexivity.
Qed.

(* under C04's hypotheses the cached route of C04's model returns C09's cut points *)
Theorem fast_path_is_planner K l stride lim me mb comp full ord known :
  k_limit_lo K = 1 -> k_limit_hi K = 32 ->
  Cache.valid_log (abs_log l) = true ->
  CacheProofs.FullFaithful (abs_log l) full -> CacheProofs.CompFaithful (abs_log l) comp full ->
  CacheProofs.OrdFaithful (abs_log l) ord ->
  Cache.cut_points_ord me mb comp full (abs_log l) ord known stride lim
  = (nlen (msgs l), map (to_c04 K l) (cut_points K stride lim l)).
Proof.
  intros Hlo Hhi Hv Hff Hcf Hof.
  rewrite (CacheProofs.cut_points_ord_eq_truth me mb comp full (abs_log l) ord known stride lim Hv (abs_lens_pos l) Hff Hcf Hof).
  apply cut_points_truth_bridge; assumption.
Qed.

(* … so they are exactly the k*stride-th messages (c09_cut_points_exact carried to the cached route) … *)
Theorem fast_path_exact K l stride lim me mb comp full ord known :
  k_limit_lo K = 1 -> k_limit_hi K = 32 -> stride <> 0 ->
  Cache.valid_log (abs_log l) = true ->
  CacheProofs.FullFaithful (abs_log l) full -> CacheProofs.CompFaithful (abs_log l) comp full ->
  CacheProofs.OrdFaithful (abs_log l) ord ->
  fst (Cache.cut_points_ord me mb comp full (abs_log l) ord known stride lim) = nlen (msgs l)
  /\ map (fun c => (Cache.cp_ordinal c, Some (Cache.cp_to_seq c)))
         (snd (Cache.cut_points_ord me mb comp full (abs_log l) ord known stride lim))
     = map (fun k => (k * stride, option_map fst (nth_error (msgs l) (N.to_nat (k * stride - 1)))))
           (ks (limit_of K lim) (nlen (msgs l) / stride)).
Proof.
  intros Hlo Hhi Hs Hv Hff Hcf Hof.
  rewrite (fast_path_is_planner K l stride lim me mb comp full ord known Hlo Hhi Hv Hff Hcf Hof).
  cbn [fst snd]. split; [reflexivity|].
  pose proof (cut_points_exact K stride lim l Hs) as He.
  apply (f_equal (map (fun x : N * option (N * N) => (fst x, option_map fst (snd x))))) in He.
  rewrite !map_map in He. cbn [fst snd option_map] in He.
  rewrite map_map. unfold to_c04. cbn [Cache.cp_ordinal Cache.cp_to_seq]. exact He.
Qed.

Lemma cp_ck_shape K stride lim l c :
  In c (cut_points K stride lim l) ->
  cp_ck c = if cp_done c then option_map ck_id (cut_lookup K l (cp_seq c)) else None.
Proof.
  intros Hc. apply cut_points_in in Hc. destruct Hc as [o Hc].
  assert (Hi : In c (cut_point_at K l o)) by (destruct Hc as [Hc|Hc]; [rewrite Hc; left; reflexivity | exact Hc]).
  apply cut_point_at_shape in Hi. destruct Hi as [s [id [_ ->]]]. reflexivity.
Qed.

(* … and a cut point of the cached route counts as checkpointed exactly when a checkpoint frame for that seq exists
   (c09_checkpointed_iff carried to the cached route) *)
Theorem fast_path_checkpointed_iff K l stride lim me mb comp full ord known c' :
  k_limit_lo K = 1 -> k_limit_hi K = 32 ->
  Cache.valid_log (abs_log l) = true ->
  CacheProofs.FullFaithful (abs_log l) full -> CacheProofs.CompFaithful (abs_log l) comp full ->
  CacheProofs.OrdFaithful (abs_log l) ord ->
  In c' (snd (Cache.cut_points_ord me mb comp full (abs_log l) ord known stride lim)) ->
  (Cache.cp_already c' = true <-> exists e r a m, In e l /\ ebody e = BCkpt r a (Cache.cp_to_seq c') m)
  /\ (forall q, Cache.cp_latest c' = Some q <->
        exists b, latest_for (ckpts l) (Cache.cp_to_seq c') b /\ ck_seq b = q /\ cut_lookup K l (Cache.cp_to_seq c') = Some b).
Proof.
  intros Hlo Hhi Hv Hff Hcf Hof Hin.
  rewrite (fast_path_is_planner K l stride lim me mb comp full ord known Hlo Hhi Hv Hff Hcf Hof) in Hin.
  cbn [snd] in Hin. apply in_map_iff in Hin. destruct Hin as [c [<- Hc]].
  unfold to_c04. cbn [Cache.cp_already Cache.cp_to_seq Cache.cp_latest]. split.
  - apply (checkpointed_iff K stride lim l c Hc).
  - intros q. destruct (checkpointed_latest_wins K stride lim l c Hc) as [Hw Hn].
    destruct (cp_done c) eqn:Ed.
    + destruct (cut_lookup K l (cp_seq c)) as [b|] eqn:El; cbn [option_map].
      * split.
        -- intros Hq. injection Hq as <-. destruct (proj1 (Hw (ck_id b))) as [b' [Hl [_ Hb']]].
           { rewrite (cp_ck_shape K stride lim l c Hc), Ed, El. reflexivity. }
           injection Hb' as <-. exists b. split; [exact Hl|]. split; reflexivity.
        -- intros [b' [_ [Hq Hb']]]. injection Hb' as <-. rewrite Hq. reflexivity.
      * split; [discriminate|]. intros [b' [_ [_ Hb']]]. discriminate.
    + split; [discriminate|]. intros [b [Hl [_ Hb]]].
      assert (Hck : cp_ck c = Some (ck_id b)) by (apply Hw; exists b; split; [exact Hl|]; split; [reflexivity | exact Hb]).
      rewrite (Hn eq_refl) in Hck. discriminate.
Qed.

(* non-vacuity: the demo thread of CompactionProofs (two cut points, one checkpointed twice), all caches lost
   (C04's hypotheses hold vacuously for absent files) and with the projections in place *)
Definition demo_abs : Cache.log := abs_log demo_log.
Lemma demo_bridge :
  Cache.valid_log demo_abs = true
  /\ (CacheProofs.FullFaithful demo_abs None /\ CacheProofs.CompFaithful demo_abs None None /\ CacheProofs.OrdFaithful demo_abs Cache.OAbsent)
  /\ (CacheProofs.FullFaithful demo_abs (Some (Cache.project_full demo_abs))
      /\ CacheProofs.CompFaithful demo_abs (Some (Cache.comp_projection demo_abs)) (Some (Cache.project_full demo_abs)))
  /\ Cache.cut_points_truth demo_abs 2 32
     = (5, [ {| Cache.cp_ordinal := 4; Cache.cp_to_seq := 5; Cache.cp_already := false; Cache.cp_latest := None |};
             {| Cache.cp_ordinal := 2; Cache.cp_to_seq := 2; Cache.cp_already := true; Cache.cp_latest := Some 8 |} ]).
Proof.
  split; [vm_compute; reflexivity|]. split; [repeat split|]. split.
  - split; [exists []; vm_compute; reflexivity | reflexivity].
  - vm_compute. reflexivity.
Qed.
