(* C13 — witnesses for the tool-access theorems (Proofs/PathToolsProofs.v) *)
From RipV Require Import Base.Prelude Base.Fs Model.Paths Proofs.PathsProofs Proofs.PathToolsProofs.
Require Import Coq.Strings.String.

Definition t_root : str := bs "/r/ws"%string.
Definition t_raw : str := bs "d/./x.txt"%string.
Definition t_ext : str := bs "tmp-0f"%string.
Definition t_names : list str := [bs "sub"%string; bs "f.rs"%string].
(* the workspace root and everything above it exists *)
Definition t_ex (s : str) : bool := list_eqb lN_eqb (real_segs s) (real_segs t_root) || list_eqb lN_eqb (real_segs s) [bs "r"%string] || list_eqb lN_eqb (real_segs s) [].
Definition t_write_accs : list (N * str) :=
  [(3, bs "/r/ws/d"%string); (3, bs "/r/ws"%string); (5, bs "/r/ws/d/./x.txt"%string); (4, bs "/r/ws/d/./x.tmp-0f"%string);
   (2, bs "/r/ws/d/./x.txt"%string); (6, bs "/r/ws/d/./x.txt"%string); (6, bs "/r/ws/d/./x.tmp-0f"%string);
   (7, bs "/r/ws/d/./x.tmp-0f"%string); (7, bs "/r/ws/d/./x.txt"%string); (6, bs "/r/ws/d/./x.tmp-0f"%string);
   (4, bs "/r/ws/d/./x.txt"%string)].
Definition t_dir : str := bs "d"%string.
Definition t_up : str := bs "../x"%string.
Definition t_dotslash : str := bs "./"%string.
Definition t_name : str := bs "x.txt"%string.
Definition t_grep_accs : list (N * str) := [(8, bs "/r/ws/d"%string); (1, bs "/r/ws/d/sub/f.rs"%string)].
Lemma ex_write_run : tool_run expected_progs TWrite t_ex t_root t_raw t_ext t_names = (0, t_write_accs).
Proof. vm_compute. reflexivity. Qed.
Lemma ex_grep_run : tool_run expected_progs TGrep t_ex t_root t_dir t_ext t_names = (0, t_grep_accs).
Proof. vm_compute. reflexivity. Qed.
Lemma ex_refused_run : tool_run expected_progs TWrite t_ex t_root t_up t_ext t_names = (V_PARENT, [])
  /\ tool_run expected_progs TWrite t_ex t_root t_dotslash t_ext t_names = (V_NOFILE, [])
  /\ tool_run expected_progs TCwdDefault t_ex t_root [] t_ext t_names = (0, [(9, t_root)]).
Proof. vm_compute. repeat split; reflexivity. Qed.
Lemma ex_hyps : is_absolute t_root = true /\ has_parent t_root = false /\ no_sep t_root = false
  /\ forallb proper_name t_names = true /\ t_ext <> [] /\ ~ In 47 t_ext
  /\ proper_name t_name = true /\ tmp_safe t_name = true.
Proof.
  repeat split; try (vm_compute; reflexivity); try discriminate.
  intros H. vm_compute in H. repeat (destruct H as [H|H]; [discriminate|]). exact H.
Qed.
Lemma ex_tmp : with_extension (bs "/r/ws/d/./x.txt"%string) t_ext = bs "/r/ws/d/./x.tmp-0f"%string
  /\ with_extension (bs "/r/ws/a.tar.gz/."%string) t_ext = bs "/r/ws/a.tar.tmp-0f"%string
  /\ parent (bs "/r/ws//d/./x.txt/"%string) = Some (bs "/r/ws//d"%string).
Proof. vm_compute. repeat split; reflexivity. Qed.

(* the write tool before 0a47111 (no refusal of a path without a file name): for '' / '.' / './' the parent chain and
   the temporary file lie NEXT TO the workspace root (finding S10b) *)
Lemma write_unguarded_refuted :
  exists raw o q, In (o, q) (snd (tool_run_unguarded expected_progs TWrite t_ex t_root raw t_ext t_names))
    /\ underb [] t_root q = false.
Proof. exists (bs "./"%string), 4, (bs "/r/ws.tmp-0f"%string). split; [vm_compute; tauto|vm_compute; reflexivity]. Qed.

(* std's with_extension cuts len(extension) bytes off the path text: for a file name `..x` that leaves `..`, a path
   without a file name, and the atomic write's "temporary file" is the directory ABOVE the resolved one - for a name
   directly under the root, the root's parent (the write fails with EISDIR: nothing is created or changed) *)
Lemma write_tmp_dotdot_refuted :
  exists raw o q, tool_refuses_dir TWrite raw = false
    /\ In (o, q) (snd (tool_run expected_progs TWrite t_ex t_root raw t_ext t_names))
    /\ underb [] t_root q = false /\ tmp_safe raw = false.
Proof.
  exists (bs "..a"%string), 4, (bs "/r/ws/.."%string).
  split; [vm_compute; reflexivity|]. split; [vm_compute; tauto|]. split; vm_compute; reflexivity.
Qed.
