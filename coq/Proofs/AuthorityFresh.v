(* C18 — "a store whose previous authority crashed becomes usable again", with crashes DURING recovery and arbitrary
   environment answers for the others: whatever any number of server loops did on the store — any interleaving, any of them
   crashing anywhere, any ping / timer / deadline answers — as long as none of them has become the authority, a FRESH server
   loop that is then left alone becomes the authority within 20 steps, unless a live contender is between its exclusive
   create and its write (one own step from the guard). *)
From RipV Require Import Base.Prelude Model.Authority Proofs.AuthorityInv Proofs.AuthorityLive Proofs.AuthorityTake Proofs.AuthorityFair.

Record qpre (q : proc) : Prop := mkQP {
  QP_guard : p_guard q = false;
  QP_drv : p_drv q = DServer;
  QP_pc : pre_pc (p_pc q) = true
}.

Record Jc (s : state) : Prop := mkJc {
  Jc_procs : forall q, In q (s_procs s) -> qpre q;
  Jc_nodup : NoDup (map p_pid (s_procs s));
  Jc_meta : meta_free (s_procs s) (s_meta s);
  Jc_rec : forall p, s_lock s = LRec p -> pid_alive (s_procs s) p = false;
  Jc_half : forall c, s_lock s = LHalf c -> pid_alive (s_procs s) c = true ->
            exists q, In q (s_procs s) /\ p_pid q = c /\ p_alive q = true /\ p_pc q = AcqWrite
}.

(* one step of a guard-less server loop, ANY environment answers *)
Lemma micro_pre0 s o q s' q' :
  p_alive q = true -> qpre q -> p_pc q <> AcqWrite ->
  micro true s o q = (s', q') ->
  qpre q'
  /\ (s_meta s' = s_meta s \/ s_meta s' = MAbsent)
  /\ (   (s_lock s' = s_lock s /\ p_pc q' <> AcqWrite)
      \/ (s_lock s' = LHalf (p_pid q) /\ p_pc q' = AcqWrite)
      \/ (s_lock s' = LAbsent /\ p_pc q' <> AcqWrite)).
Proof.
  intros Ha [Hg Hd Hp] Hnw H.
  destruct s as [l m t ps tl tm]. unfold micro in H. cbn [s_lock s_meta s_tmp s_procs] in *.
  unfold ret, goto, set_files in H. rewrite Hd in H. cbn [s_lock s_meta s_tmp s_procs s_took_lock s_took_meta] in H.
  destruct (p_pc q) eqn:Hpc; cbn [pre_pc] in Hp; try discriminate; try congruence;
    destruct l as [|c|c]; destruct m as [|mp]; cbn [server_next] in H;
    repeat match type of H with context [if ?c then _ else _] => destruct c eqn:? end;
    inversion H; subst; clear H; cbn [s_lock s_meta p_pc p_alive p_guard p_drv p_pid]; rewrite ?Hpc;
    (split; [constructor; cbn [p_guard p_drv p_pc pre_pc]; rewrite ?Hpc; auto|]);
    (split; [auto|]);
    first [ left; split; [reflexivity | discriminate]
          | right; left; split; reflexivity
          | right; right; split; [reflexivity | discriminate] ].
Qed.

Lemma pid_alive_kill_le ps i q p :
  nth_error ps i = Some q -> pid_alive (upd ps i (kill q)) p = true -> pid_alive ps p = true.
Proof. intros Hq H. apply (pid_alive_upd_le ps i q (kill q) p Hq eq_refl); [cbn; discriminate | exact H]. Qed.

Lemma step_Jc s e : Jc s -> Jc (step true s e) \/ holders (step true s e) <> [].
Proof.
  intros [Hps Hnd Hm Hrec Hhalf]. destruct e as [i o|i]; cbn [step].
  - destruct (nth_error (s_procs s) i) as [q|] eqn:Hq; [|left; constructor; assumption].
    destruct (p_alive q) eqn:Ha; [|left; constructor; assumption].
    assert (Hinq : In q (s_procs s)) by (eapply nth_error_In; exact Hq).
    pose proof (Hps q Hinq) as Hqp.
    destruct (micro true s o q) as [s1 q1] eqn:HM.
    destruct (micro_basic _ _ _ _ _ _ HM) as [Epid [Eal Eps]].
    destruct (pc_eq_dec_acqwrite (p_pc q)) as [Hw|Hnw].
    + right. unfold micro in HM. rewrite Hw in HM. unfold ret in HM. rewrite (QP_drv _ Hqp) in HM.
      inversion HM; subst q1. eapply holders_guard.
      * cbn [with_procs s_procs]. eapply in_upd_self. exact Hq.
      * cbn [p_alive]. exact Ha.
      * reflexivity.
    + left. destruct (micro_pre0 s o q s1 q1 Ha Hqp Hnw HM) as [Hqp1 [Hmeta Hlock]].
      assert (Hal : forall p, pid_alive (upd (s_procs s) i q1) p = pid_alive (s_procs s) p).
      { intros p. apply (pid_alive_upd_eq _ _ _ _ _ Hq Epid Eal). }
      constructor; cbn [with_procs s_procs s_lock s_meta].
      * intros x Hx. destruct (in_upd_cases _ _ _ _ _ Hq Hx) as [->|Hin]; [exact Hqp1 | apply Hps; exact Hin].
      * rewrite (map_upd_same p_pid _ _ _ _ Hq Epid). exact Hnd.
      * intros p Hp. rewrite Hal. destruct Hmeta as [E|E]; rewrite E in Hp; [apply Hm; exact Hp | discriminate].
      * intros p Hp. rewrite Hal. destruct Hlock as [[E _] | [[E _] | [E _]]]; rewrite E in Hp; try discriminate. apply Hrec. exact Hp.
      * intros c Hc Hac. rewrite Hal in Hac. destruct Hlock as [[E Hn1] | [[E Hw1] | [E _]]]; rewrite E in Hc; try discriminate.
        -- destruct (Hhalf c Hc Hac) as [w [Hw [Hwp [Hwa Hwpc]]]]. exists w. split; [|auto].
           eapply in_upd_other; [exact Hq | exact Hw | congruence].
        -- inversion Hc; subst c. exists q1. split; [eapply in_upd_self; exact Hq|]. split; [exact Epid|]. split; [congruence | exact Hw1].
  - destruct (nth_error (s_procs s) i) as [q|] eqn:Hq; [|left; constructor; assumption].
    left. assert (Hinq : In q (s_procs s)) by (eapply nth_error_In; exact Hq).
    assert (Hle : forall p, pid_alive (s_procs s) p = false -> pid_alive (upd (s_procs s) i (kill q)) p = false).
    { intros p Hp. destruct (pid_alive (upd (s_procs s) i (kill q)) p) eqn:E; [|reflexivity].
      rewrite (pid_alive_kill_le _ _ _ _ Hq E) in Hp. discriminate. }
    constructor; cbn [with_procs s_procs s_lock s_meta].
    + intros x Hx. destruct (in_upd_cases _ _ _ _ _ Hq Hx) as [->|Hin]; [|apply Hps; exact Hin].
      destruct (Hps q Hinq) as [A B C]. constructor; assumption.
    + rewrite (map_upd_same p_pid _ _ (kill q) q Hq eq_refl). exact Hnd.
    + intros p Hp. apply Hle. apply Hm. exact Hp.
    + intros p Hp. apply Hle. apply Hrec. exact Hp.
    + intros c Hc Hac. pose proof (pid_alive_kill_le _ _ _ _ Hq Hac) as Hac0.
      destruct (Hhalf c Hc Hac0) as [w [Hw [Hwp [Hwa Hwpc]]]].
      destruct (In_nth_error _ _ Hw) as [j Hj].
      destruct (Nat.eq_dec j i) as [->|Hne].
      * (* the crashed process was the live starter: then nobody with that pid is alive *)
        exfalso. rewrite Hq in Hj. inversion Hj; subst w.
        apply pid_alive_true in Hac. destruct Hac as [y [Hy [Hyp Hya]]].
        destruct (in_upd_cases _ _ _ _ _ Hq Hy) as [->|Hin]; [cbn in Hya; discriminate|].
        apply in_upd in Hy. destruct Hy as [[-> _]|[k [Hk Hyk]]]; [cbn in Hya; discriminate|].
        apply Hk. eapply (nodup_pid_idx (s_procs s) k i y q Hnd Hyk Hq). congruence.
      * exists w. split; [|auto]. eapply nth_error_In with (n := j). rewrite upd_nth.
        destruct (Nat.eqb i j) eqn:E; [apply Nat.eqb_eq in E; congruence | exact Hj].
Qed.

Lemma run_Jc es : forall s, Jc s ->
  Jc (run true s es) \/ exists es1 es2, es = es1 ++ es2 /\ holders (run true s es1) <> [].
Proof.
  induction es as [|e es IH]; intros s Hj; [left; exact Hj|].
  change (run true s (e :: es)) with (run true (step true s e) es).
  destruct (step_Jc s e Hj) as [Hj'|Hh].
  - destruct (IH _ Hj') as [H|[es1 [es2 [E Hh]]]]; [left; exact H|].
    right. exists (e :: es1), es2. split; [cbn [app]; f_equal; exact E | exact Hh].
  - right. exists [e], es. split; [reflexivity | exact Hh].
Qed.

(* events of other processes leave process i alone *)
Lemma step_keeps ag s e i x : ev_idx e <> i -> nth_error (s_procs s) i = Some x -> nth_error (s_procs (step ag s e)) i = Some x.
Proof.
  intros Hne Hx. destruct e as [j o|j]; cbn [step ev_idx] in *;
    destruct (nth_error (s_procs s) j) as [q|] eqn:Hq; try exact Hx.
  - destruct (p_alive q); [|exact Hx]. destruct (micro ag s o q) as [s1 q1]. cbn [with_procs s_procs].
    rewrite upd_nth. destruct (Nat.eqb j i) eqn:E; [apply Nat.eqb_eq in E; congruence | exact Hx].
  - cbn [with_procs s_procs]. rewrite upd_nth. destruct (Nat.eqb j i) eqn:E; [apply Nat.eqb_eq in E; congruence | exact Hx].
Qed.
Lemma run_keeps ag es : forall s i x, (forall e, In e es -> ev_idx e <> i) ->
  nth_error (s_procs s) i = Some x -> nth_error (s_procs (run ag s es)) i = Some x.
Proof.
  induction es as [|e es IH]; intros s i x Hall Hx; [exact Hx|].
  change (run ag s (e :: es)) with (run ag (step ag s e) es).
  apply IH; [intros e' He'; apply Hall; right; exact He'|]. apply step_keeps; [apply Hall; left; reflexivity | exact Hx].
Qed.

Lemma fresh_reaches s me :
  Jc s ->
  (exists q, In q (s_procs s) /\ p_alive q = true /\ p_pc q = AcqWrite)
  \/ guard_within 20 s (fresh me DServer) = true.
Proof.
  intros [Hps Hnd Hm Hrec Hhalf].
  destruct s as [l m t ps tl tm]. cbn [s_procs s_lock s_meta] in *. unfold meta_free in Hm.
  destruct l as [|c|c].
  - right. (destruct m as [|mp]; [|pose proof (Hm mp eq_refl) as Hmp; cbn [meta_pid] in Hmp]);
      unfold fresh; cbn [start_pc]; do 21 sym1; first [reflexivity | apply guard_within_true; reflexivity].
  - destruct (pid_alive ps c) eqn:Ec.
    + left. destruct (Hhalf c eq_refl Ec) as [w [Hw [_ [Hwa Hwpc]]]]. exists w. auto.
    + right. (destruct m as [|mp]; [|pose proof (Hm mp eq_refl) as Hmp; cbn [meta_pid] in Hmp]);
        unfold fresh; cbn [start_pc]; do 21 sym1; first [reflexivity | apply guard_within_true; reflexivity].
  - right. pose proof (Hrec c eq_refl) as Ec.
    (destruct m as [|mp]; [|pose proof (Hm mp eq_refl) as Hmp; cbn [meta_pid] in Hmp]);
      unfold fresh; cbn [start_pc]; do 21 sym1; first [reflexivity | apply guard_within_true; reflexivity].
Qed.

Lemma init_Jc l m ps :
  (forall q, In q ps -> q = fresh (p_pid q) DServer) -> NoDup (map p_pid ps) -> dead_leftover ps l m -> Jc (init l m ps).
Proof.
  intros Hall Hnd [Hl Hm]. constructor; cbn [init s_procs s_lock s_meta].
  - intros q Hq. rewrite (Hall q Hq). constructor; reflexivity.
  - exact Hnd.
  - exact Hm.
  - intros p ->. apply Hl. reflexivity.
  - intros c -> Hc. rewrite (Hl c eq_refl) in Hc. discriminate.
Qed.

Theorem fresh_start_recovers l m ps es i me :
  (forall q, In q ps -> q = fresh (p_pid q) DServer) -> NoDup (map p_pid ps) -> dead_leftover ps l m ->
  nth_error ps i = Some (fresh me DServer) -> (forall e, In e es -> ev_idx e <> i) ->
  (exists es1 es2, es = es1 ++ es2 /\ holders (run true (init l m ps) es1) <> [])
  \/ (exists q, In q (s_procs (run true (init l m ps) es)) /\ p_alive q = true /\ p_pc q = AcqWrite)
  \/ (exists n, (n <= 20)%nat /\ holders (run true (init l m ps) (es ++ repeat (Step i 2) n)) <> []).
Proof.
  intros Hall Hnd Hd Hi Hes.
  destruct (run_Jc es _ (init_Jc l m ps Hall Hnd Hd)) as [Hj|H]; [|left; exact H].
  right. set (sN := run true (init l m ps) es) in *.
  assert (HiN : nth_error (s_procs sN) i = Some (fresh me DServer)) by (apply run_keeps; [exact Hes | exact Hi]).
  destruct (fresh_reaches sN me Hj) as [Hw|Hgw]; [left; exact Hw|].
  right. destruct (guard_within_solo _ _ _ Hgw) as [k [Hk Hg]].
  exists k. split; [exact Hk|]. rewrite run_app. fold sN.
  destruct (run_solo k 2 sN sN (fresh me DServer) i (sim_refl _) HiN eq_refl) as [_ Hps].
  eapply holders_guard with (q := snd (solo k 2 sN (fresh me DServer))).
  - rewrite Hps. eapply in_upd_self. exact HiN.
  - rewrite solo_alive. reflexivity.
  - exact Hg.
Qed.

(* non-vacuity: a contender crashes between its exclusive create and its write (a NEW half-written lock of a dead pid, made
   during recovery), another one has given up; the third, fresh, left alone, is the authority after 8 steps *)
Definition fresh_three : list proc := [fresh 1 DServer; fresh 2 DServer; fresh 3 DServer].
Definition crash_mid : list event := [Step 0%nat 0; Step 1%nat 0; Step 1%nat 0; Crash 0%nat; Step 1%nat 4].
Lemma fresh_example :
  NoDup (map p_pid fresh_three) /\ dead_leftover fresh_three LAbsent MAbsent
  /\ (forall e, In e crash_mid -> ev_idx e <> 2%nat)
  /\ s_lock (run true (init LAbsent MAbsent fresh_three) crash_mid) = LHalf 1
  /\ map (fun q => (p_alive q, pc_code (p_pc q))) (s_procs (run true (init LAbsent MAbsent fresh_three) crash_mid))
     = [(false, 2); (true, 0); (true, 1)]
  /\ holders (run true (init LAbsent MAbsent fresh_three) crash_mid) = []
  /\ holders (run true (init LAbsent MAbsent fresh_three) (crash_mid ++ repeat (Step 2%nat 2) 8)) = [3].
Proof.
  split; [vm_compute; repeat constructor; cbn; intuition discriminate|].
  split; [split; intros p Hp; discriminate|].
  split; [intros e He; cbn in He; intuition (subst; cbn; discriminate)|].
  repeat split; vm_compute; reflexivity.
Qed.
