(* C09 — what feeds an auto-compaction summary (compaction_auto_run_spawned_job_v1): which base summary and which
   messages.  The text rendering stays abstract (compared byte for byte between builds by the harness); here the
   INPUT selection of Model/Compaction.v (`cut_read`: select_base + message slice) is characterised declaratively and
   shown to be a function of the history up to the cut. *)
From RipV Require Import Base.Prelude Model.Compaction Proofs.CompactionProofs.
From Coq Require Import Sorting.Sorted Sorting.Permutation.

Definition mseq (m : N * N * (N * N)) : N := fst (fst m).
Definition mfull := list (N * N * (N * N)).

(* ---------- normal form of cut_read ---------- *)
(* base id, bootstrap, note, base text used *)
Definition basis_of (rd : N -> option summ) (b : option ck) : option N * bool * N * bool :=
  match option_map ck_art b with
  | None => (None, true, 0, false)
  | Some a => match rd a with
              | Some v => if su_kind v =? 1 then (Some a, true, 1, false) else (Some a, false, 0, true)
              | None => (Some a, true, 2, false)
              end
  end.

Definition cut_read_g (sb : option ck * N) (rd : N -> option summ) (ms : mfull) (p : plan) : res summ :=
  let '(base_id, bootstrap, note, used) := basis_of rd (fst sb) in
  let start_idx := upper_bound ms (if bootstrap then 0 else snd sb) in
  let end_idx := upper_bound ms (pl_seq p) in
  match nth_error ms (end_idx - 1) with
  | None => Err 20
  | Some (ls, lid, _) =>
    if (ls =? pl_seq p) && (lid =? pl_mid p) then
      Ok {| su_to_seq := pl_seq p; su_to_mid := Some (pl_mid p); su_base := base_id;
            su_note := note; su_kind := 2; su_slice := map snd (skipn start_idx (firstn end_idx ms));
            su_base_used := used; su_present := true |}
    else Err 21
  end.

Lemma cut_read_is_g K snap s p :
  cut_read K snap s p = cut_read_g (select_base K (log s) snap (pl_seq p)) (art_read s) (msg_full snap) p.
Proof.
  unfold cut_read, cut_read_g, basis_of. destruct (select_base K (log s) snap (pl_seq p)) as [b base_to].
  cbn [fst snd]. destruct (option_map ck_art b) as [a|]; [|reflexivity].
  destruct (art_read s a) as [w|]; [|reflexivity]. destruct (su_kind w =? 1); reflexivity.
Qed.

(* the bounded look-up with its answer/refusal made explicit *)
Definition select_base_g (within : bool) (ccur csnap : list ck) (t : N) : option ck * N :=
  if t <=? 1 then (None, 0)
  else match (if within then Some (best_le (rev ccur) (t - 1)) else None) with
       | Some (Some c) => (Some c, ck_to c)
       | _ => best_lt_truth csnap t
       end.

Lemma select_base_is_g K cur snap t :
  select_base K cur snap t = select_base_g (nlen (ckpts cur) <=? k_ck_window K) (ckpts cur) (ckpts snap) t.
Proof.
  unfold select_base, select_base_g, ck_lookup. destruct (t <=? 1); [reflexivity|].
  destruct (nlen (ckpts cur) <=? k_ck_window K); reflexivity.
Qed.

(* ---------- "latest checkpoint frame strictly below the cut" ---------- *)
Definition latest_below (L : list ck) (t : N) (o : option ck) : Prop :=
  match o with
  | None => forall k, In k L -> t <= ck_to k
  | Some b => In b L /\ ck_to b < t /\ forall k, In k L -> ck_to k < t -> not_better k b
  end.

Lemma best_le_latest_below L t : 1 < t -> latest_below L t (best_le L (t - 1)).
Proof.
  intros Ht. pose proof (best_le_spec L (t - 1)) as H. unfold latest_below.
  destruct (best_le L (t - 1)) as [b|]; cbn [BestInv] in H.
  - destruct H as [Hi [Hm Hb]]. split; [exact Hi|]. split; [lia|]. intros k Hk Hlt. apply Hb; [exact Hk | lia].
  - intros k Hk. specialize (H k Hk). lia.
Qed.

Lemma latest_below_rev L t o : latest_below (rev L) t o -> latest_below L t o.
Proof.
  unfold latest_below. destruct o as [b|].
  - intros [Hi [Hlt Hb]]. split; [apply in_rev; exact Hi|]. split; [exact Hlt|].
    intros k Hk. apply Hb. apply in_rev in Hk. exact Hk.
  - intros H k Hk. apply H. apply in_rev in Hk. exact Hk.
Qed.

(* the truth scan: state (best, best_to_seq, best_event_seq) from (None, 0, 0), strict improvement *)
Definition truth_step (t : N) (acc : option ck * N * N) (c : ck) : option ck * N * N :=
  let '(best, bt, bs) := acc in
  if t <=? ck_to c then acc
  else if (bt <? ck_to c) || ((ck_to c =? bt) && (bs <? ck_seq c)) then (Some c, ck_to c, ck_seq c) else acc.

Definition TruthInv (t : N) (P : list ck) (acc : option ck * N * N) : Prop :=
  let '(best, bt, bs) := acc in
  match best with
  | None => bt = 0 /\ bs = 0 /\ forall k, In k P -> t <= ck_to k
  | Some b => In b P /\ ck_to b < t /\ bt = ck_to b /\ bs = ck_seq b
              /\ forall k, In k P -> ck_to k < t -> not_better k b
  end.

Lemma truth_step_inv t P acc c :
  ck_to c <> 0 -> TruthInv t P acc -> TruthInv t (P ++ [c]) (truth_step t acc c).
Proof.
  intros Hc. destruct acc as [[best bt] bs]. unfold truth_step, TruthInv.
  destruct (t <=? ck_to c) eqn:E.
  - apply N.leb_le in E. destruct best as [b|].
    + intros [Hi [Hlt [Hbt [Hbs Hb]]]]. split; [apply in_or_app; auto|].
      split; [exact Hlt|]. split; [exact Hbt|]. split; [exact Hbs|].
      intros k Hk Hkt. apply in_app_or in Hk. destruct Hk as [Hk|[<-|[]]]; [auto | lia].
    + intros [Hbt [Hbs H]]. split; [exact Hbt|]. split; [exact Hbs|].
      intros k Hk. apply in_app_or in Hk. destruct Hk as [Hk|[<-|[]]]; auto.
  - apply N.leb_gt in E.
    destruct ((bt <? ck_to c) || ((ck_to c =? bt) && (bs <? ck_seq c))) eqn:Eb.
    + rewrite orb_true_iff, andb_true_iff, N.ltb_lt, N.eqb_eq, N.ltb_lt in Eb. intros H.
      split; [apply in_or_app; right; left; reflexivity|]. split; [exact E|]. split; [reflexivity|]. split; [reflexivity|].
      intros k Hk Hkt. apply in_app_or in Hk. destruct Hk as [Hk|[<-|[]]]; [|unfold not_better; lia].
      destruct best as [b|].
      * destruct H as [Hi [Hlt [Hbt [Hbs Hb]]]]. specialize (Hb k Hk Hkt). unfold not_better in *. lia.
      * destruct H as [Hbt [Hbs H]]. specialize (H k Hk). lia.
    + rewrite orb_false_iff, andb_false_iff, N.ltb_ge, N.eqb_neq, N.ltb_ge in Eb.
      destruct best as [b|].
      * intros [Hi [Hlt [Hbt [Hbs Hb]]]]. split; [apply in_or_app; auto|].
        split; [exact Hlt|]. split; [exact Hbt|]. split; [exact Hbs|].
        intros k Hk Hkt. apply in_app_or in Hk. destruct Hk as [Hk|[<-|[]]]; [auto|]. unfold not_better. lia.
      * intros [Hbt [Hbs H]]. exfalso. lia.
Qed.

Lemma truth_fold_inv t L : forall P acc,
  Forall (fun c => ck_to c <> 0) L -> TruthInv t P acc -> TruthInv t (P ++ L) (fold_left (truth_step t) L acc).
Proof.
  induction L as [|c L IH]; intros P acc HL H; cbn [fold_left]; [rewrite app_nil_r; exact H|].
  inversion HL as [|c' L' Hc HL']; subst.
  replace (P ++ c :: L) with ((P ++ [c]) ++ L) by (rewrite <- app_assoc; reflexivity).
  apply IH; [exact HL'|]. apply truth_step_inv; assumption.
Qed.

Lemma best_lt_truth_fold L t :
  best_lt_truth L t = (let '(b, bt, _) := fold_left (truth_step t) L (None, 0, 0) in (b, bt)).
Proof. reflexivity. Qed.

Lemma best_lt_truth_spec L t :
  Forall (fun c => ck_to c <> 0) L ->
  latest_below L t (fst (best_lt_truth L t))
  /\ snd (best_lt_truth L t) = match fst (best_lt_truth L t) with Some b => ck_to b | None => 0 end.
Proof.
  intros HL. rewrite best_lt_truth_fold.
  pose proof (truth_fold_inv t L [] (None, 0, 0) HL) as H. cbn [app] in H.
  assert (H0 : TruthInv t [] (None, 0, 0)) by (cbn; split; [reflexivity|]; split; [reflexivity|]; intros k []).
  specialize (H H0). destruct (fold_left (truth_step t) L (None, 0, 0)) as [[b bt] bs].
  cbn [fst snd]. unfold TruthInv in H. unfold latest_below. destruct b as [b|].
  - destruct H as [Hi [Hlt [Hbt [Hbs Hb]]]]. split; [|exact Hbt]. split; [exact Hi|]. split; [exact Hlt | exact Hb].
  - destruct H as [Hbt [Hbs H]]. split; [exact H | exact Hbt].
Qed.

(* which checkpoint frame is the base of the summary of the cut at to_seq t: the latest one below the cut (largest
   to_seq < t, then latest in the stream) of the CURRENT stream when the bounded sidecar scan answers and finds one,
   of the job's replay snapshot otherwise *)
Definition base_spec (K : consts) (cur snap : list ev) (t : N) (o : option ck) : Prop :=
  if t <=? 1 then o = None
  else if (nlen (ckpts cur) <=? k_ck_window K) && existsb (fun c => ck_to c <? t) (ckpts cur)
       then latest_below (ckpts cur) t o
       else latest_below (ckpts snap) t o.

Lemma latest_below_none_existsb L t : latest_below L t None -> existsb (fun c => ck_to c <? t) L = false.
Proof.
  intros H. destruct (existsb (fun c => ck_to c <? t) L) eqn:E; [|reflexivity].
  apply existsb_exists in E. destruct E as [k [Hk Hlt]]. apply N.ltb_lt in Hlt. specialize (H k Hk). lia.
Qed.
Lemma latest_below_some_existsb L t b : latest_below L t (Some b) -> existsb (fun c => ck_to c <? t) L = true.
Proof. intros [Hi [Hlt _]]. apply existsb_exists. exists b. split; [exact Hi | apply N.ltb_lt; exact Hlt]. Qed.

Theorem select_base_spec K cur snap t :
  Forall (fun c => ck_to c <> 0) (ckpts snap) ->
  base_spec K cur snap t (fst (select_base K cur snap t))
  /\ snd (select_base K cur snap t) = match fst (select_base K cur snap t) with Some b => ck_to b | None => 0 end.
Proof.
  intros H0. rewrite select_base_is_g. unfold select_base_g, base_spec.
  destruct (t <=? 1) eqn:Et; [split; reflexivity|]. apply N.leb_gt in Et.
  destruct (best_lt_truth_spec (ckpts snap) t H0) as [Ht1 Ht2].
  destruct (nlen (ckpts cur) <=? k_ck_window K); cbn [andb]; [|split; assumption].
  pose proof (latest_below_rev _ _ _ (best_le_latest_below (rev (ckpts cur)) t Et)) as Hb.
  destruct (best_le (rev (ckpts cur)) (t - 1)) as [c|].
  - cbn [fst snd]. rewrite (latest_below_some_existsb _ _ _ Hb). split; [exact Hb | reflexivity].
  - rewrite (latest_below_none_existsb _ _ Hb). split; assumption.
Qed.

Lemma latest_below_lt L t b : latest_below L t (Some b) -> ck_to b < t.
Proof. intros [_ [H _]]. exact H. Qed.

Lemma select_base_to_le K cur snap t :
  Forall (fun c => ck_to c <> 0) (ckpts snap) -> snd (select_base K cur snap t) <= t.
Proof.
  intros H0. destruct (select_base_spec K cur snap t H0) as [Hs Hq]. rewrite Hq.
  destruct (fst (select_base K cur snap t)) as [b|]; [|lia].
  unfold base_spec in Hs. destruct (t <=? 1); [discriminate|].
  destruct ((nlen (ckpts cur) <=? k_ck_window K) && existsb (fun c => ck_to c <? t) (ckpts cur));
    apply latest_below_lt in Hs; lia.
Qed.

(* ---------- sorted message lists: upper_bound / firstn / skipn are filters ---------- *)
Definition sorted_ms (ms : mfull) : Prop := StronglySorted N.lt (map mseq ms).

Lemma filter_above_all (ms : mfull) x :
  Forall (fun y => x < y) (map mseq ms) ->
  filter (fun m => mseq m <=? x) ms = [] /\ filter (fun m => x <? mseq m) ms = ms.
Proof.
  induction ms as [|a ms IH]; intros H; [split; reflexivity|]. cbn [map] in H.
  inversion H as [|y l Hy Hr]; subst. destruct (IH Hr) as [I1 I2]. cbn [filter].
  destruct (mseq a <=? x) eqn:E; [apply N.leb_le in E; lia|].
  destruct (x <? mseq a) eqn:E2; [|apply N.ltb_ge in E2; lia]. rewrite I1, I2. split; reflexivity.
Qed.

Lemma sorted_split (ms : mfull) x :
  sorted_ms ms -> ms = filter (fun m => mseq m <=? x) ms ++ filter (fun m => x <? mseq m) ms.
Proof.
  unfold sorted_ms. induction ms as [|a ms IH]; intros Hs; [reflexivity|]. cbn [map] in Hs.
  inversion Hs as [|y l Hs' Ha]; subst. cbn [filter].
  destruct (mseq a <=? x) eqn:E.
  - apply N.leb_le in E. destruct (x <? mseq a) eqn:E2; [apply N.ltb_lt in E2; lia|].
    cbn [app]. f_equal. apply IH, Hs'.
  - apply N.leb_gt in E. destruct (x <? mseq a) eqn:E2; [|apply N.ltb_ge in E2; lia].
    assert (Hall : Forall (fun y => x < y) (map mseq ms)).
    { eapply Forall_impl; [|exact Ha]. cbn. intros; lia. }
    destruct (filter_above_all ms x Hall) as [I1 I2]. rewrite I1, I2. reflexivity.
Qed.

Lemma upper_bound_len (ms : mfull) x : upper_bound ms x = length (filter (fun m => mseq m <=? x) ms).
Proof. reflexivity. Qed.

Lemma firstn_ub (ms : mfull) x : sorted_ms ms -> firstn (upper_bound ms x) ms = filter (fun m => mseq m <=? x) ms.
Proof.
  intros Hs. rewrite upper_bound_len. rewrite (sorted_split ms x Hs) at 2.
  rewrite firstn_app, Nat.sub_diag, firstn_all. cbn [firstn]. apply app_nil_r.
Qed.
Lemma skipn_ub (ms : mfull) x : sorted_ms ms -> skipn (upper_bound ms x) ms = filter (fun m => x <? mseq m) ms.
Proof.
  intros Hs. rewrite upper_bound_len. rewrite (sorted_split ms x Hs) at 2.
  rewrite skipn_app, Nat.sub_diag, skipn_all. cbn [skipn app]. reflexivity.
Qed.

Lemma filter_filter_le (ms : mfull) x t :
  x <= t -> filter (fun m => mseq m <=? x) (filter (fun m => mseq m <=? t) ms) = filter (fun m => mseq m <=? x) ms.
Proof.
  intros Hxt. induction ms as [|a ms IH]; [reflexivity|]. cbn [filter].
  destruct (mseq a <=? t) eqn:Et; cbn [filter].
  - rewrite IH. reflexivity.
  - apply N.leb_gt in Et. destruct (mseq a <=? x) eqn:Ex; [apply N.leb_le in Ex; lia | exact IH].
Qed.

Lemma sorted_filter (ms : mfull) f : sorted_ms ms -> sorted_ms (filter f ms).
Proof.
  unfold sorted_ms. induction ms as [|a ms IH]; intros Hs; [constructor|]. cbn [map] in Hs.
  inversion Hs as [|y l Hs' Ha]; subst. cbn [filter]. destruct (f a); [|apply IH, Hs'].
  cbn [map]. constructor; [apply IH, Hs'|].
  rewrite Forall_forall in *. intros y Hy. apply Ha. apply in_map_iff in Hy. destruct Hy as [m [<- Hm]].
  apply filter_In in Hm. apply in_map. apply Hm.
Qed.

(* the slice in closed form *)
Lemma slice_filter (ms : mfull) lo t :
  sorted_ms ms -> lo <= t ->
  skipn (upper_bound ms lo) (firstn (upper_bound ms t) ms) = filter (fun m => (lo <? mseq m) && (mseq m <=? t)) ms.
Proof.
  intros Hs Hlt. rewrite (firstn_ub ms t Hs).
  replace (upper_bound ms lo) with (upper_bound (filter (fun m => mseq m <=? t) ms) lo)
    by (rewrite !upper_bound_len; f_equal; apply filter_filter_le, Hlt).
  rewrite skipn_ub by (apply sorted_filter, Hs).
  clear. induction ms as [|a ms IH]; [reflexivity|]. cbn [filter].
  destruct (mseq a <=? t); cbn [filter]; rewrite ?andb_true_r, ?andb_false_r; [|exact IH].
  destruct (lo <? mseq a); rewrite IH; reflexivity.
Qed.

(* ---------- what feeds the summary (declaratively) ---------- *)
(* the checkpoint frame chosen as base by the job that reads snapshot `snap` while the stream is `log s` *)
Definition base_ck (K : consts) (snap : list ev) (s : st) (p : plan) : option ck :=
  fst (select_base K (log s) snap (pl_seq p)).
Theorem summary_feeds K snap s p v :
  msorted snap -> Forall (fun c => ck_to c <> 0) (ckpts snap) ->
  cut_read K snap s p = Ok v ->
  base_spec K (log s) snap (pl_seq p) (base_ck K snap s p)
  /\ su_base v = option_map ck_art (base_ck K snap s p)
  /\ (su_base_used v = true <-> exists a w, su_base v = Some a /\ art_read s a = Some w /\ su_kind w <> 1)
  /\ su_note v = match su_base v with
                 | None => 0
                 | Some a => match art_read s a with Some w => if su_kind w =? 1 then 1 else 0 | None => 2 end
                 end
  /\ su_slice v = map snd (filter (fun m => ((if su_base_used v then match base_ck K snap s p with Some c => ck_to c | None => 0 end else 0) <? mseq m)
                                            && (mseq m <=? pl_seq p)) (msg_full snap))
  /\ su_to_seq v = pl_seq p /\ su_to_mid v = Some (pl_mid p).
Proof.
  intros Hs H0 Hr. unfold base_ck.
  destruct (select_base_spec K (log s) snap (pl_seq p) H0) as [Hspec Hto].
  pose proof (select_base_to_le K (log s) snap (pl_seq p) H0) as Hle.
  rewrite cut_read_is_g in Hr. unfold cut_read_g, basis_of in Hr.
  destruct (select_base K (log s) snap (pl_seq p)) as [b base_to]. cbn [fst snd] in *. subst base_to.
  split; [exact Hspec|].
  assert (Hfin : forall base bootstrap note used,
    match nth_error (msg_full snap) (upper_bound (msg_full snap) (pl_seq p) - 1) with
    | None => Err 20
    | Some (ls, lid, _) =>
      if (ls =? pl_seq p) && (lid =? pl_mid p) then
        Ok {| su_to_seq := pl_seq p; su_to_mid := Some (pl_mid p); su_base := base; su_note := note; su_kind := 2;
              su_slice := map snd (skipn (upper_bound (msg_full snap)
                                           (if (bootstrap : bool) then 0 else match b with Some c => ck_to c | None => 0 end))
                                         (firstn (upper_bound (msg_full snap) (pl_seq p)) (msg_full snap)));
              su_base_used := used; su_present := true |}
      else Err 21
    end = Ok v ->
    su_base v = base /\ su_note v = note /\ su_base_used v = used
    /\ su_slice v = map snd (filter (fun m => ((if bootstrap then 0 else match b with Some c => ck_to c | None => 0 end) <? mseq m)
                                              && (mseq m <=? pl_seq p)) (msg_full snap))
    /\ su_to_seq v = pl_seq p /\ su_to_mid v = Some (pl_mid p)).
  { intros base bootstrap note used.
    destruct (nth_error (msg_full snap) (upper_bound (msg_full snap) (pl_seq p) - 1)) as [[[ls lid] x]|]; [|discriminate].
    destruct ((ls =? pl_seq p) && (lid =? pl_mid p)); [|discriminate].
    intros H. injection H as <-. cbn [su_base su_note su_base_used su_slice su_to_seq su_to_mid].
    repeat split. f_equal. apply slice_filter; [exact Hs|]. destruct bootstrap; lia. }
  destruct (option_map ck_art b) as [a|] eqn:Eb.
  - destruct (art_read s a) as [w|] eqn:Ea.
    + destruct (su_kind w =? 1) eqn:Ek.
      * destruct (Hfin (Some a) true 1 false Hr) as [E1 [E2 [E3 [E4 [E5 E6]]]]].
        split; [exact E1|]. split.
        { rewrite E3, E1. split; [discriminate|]. intros [a' [w' [Ha' [Hw' Hk]]]]. injection Ha' as <-.
          rewrite Ea in Hw'. injection Hw' as <-. apply N.eqb_eq in Ek. contradiction. }
        split; [rewrite E1, Ea, Ek; exact E2|]. split; [rewrite E3; exact E4|]. split; assumption.
      * destruct (Hfin (Some a) false 0 true Hr) as [E1 [E2 [E3 [E4 [E5 E6]]]]].
        split; [exact E1|]. split.
        { rewrite E3, E1. split; [|reflexivity]. intros _. exists a, w. split; [reflexivity|]. split; [exact Ea|].
          apply N.eqb_neq, Ek. }
        split; [rewrite E1, Ea, Ek; exact E2|]. split; [rewrite E3; exact E4|]. split; assumption.
    + destruct (Hfin (Some a) true 2 false Hr) as [E1 [E2 [E3 [E4 [E5 E6]]]]].
      split; [exact E1|]. split.
      { rewrite E3, E1. split; [discriminate|]. intros [a' [w' [Ha' [Hw' _]]]]. injection Ha' as <-.
        rewrite Ea in Hw'. discriminate. }
      split; [rewrite E1, Ea; exact E2|]. split; [rewrite E3; exact E4|]. split; assumption.
  - destruct (Hfin None true 0 false Hr) as [E1 [E2 [E3 [E4 [E5 E6]]]]].
    split; [exact E1|]. split.
    { rewrite E3, E1. split; [discriminate|]. intros [a' [w' [Ha' _]]]. discriminate. }
    split; [rewrite E1; exact E2|]. split; [rewrite E3; exact E4|]. split; assumption.
Qed.

(* ---------- the summary an executed cut writes is cut_read's ---------- *)
Theorem run_cut_writes_inputs K snap stride s p s2 c :
  run_cut K snap stride s p = Ok (s2, c) ->
  exists v, cut_read K snap s p = Ok v /\ arts s2 = arts s ++ [(cr_art c, v)] /\ art_read s2 (cr_art c) = Some v
            /\ cr_seq c = pl_seq p /\ cr_mid c = pl_mid p.
Proof.
  rewrite run_cut_split. destruct (cut_read K snap s p) as [v|e] eqn:Er; [|discriminate].
  unfold put_art. intros H. injection H as <- <-. exists v. split; [reflexivity|].
  cbn [cr_art cr_seq cr_mid]. unfold append. cbn [arts log]. split; [reflexivity|]. split; [|split; reflexivity].
  unfold art_read. cbn [arts]. rewrite art_get_app_fresh by (apply fresh_art_not_key).
  apply cut_read_covers in Er. destruct Er as [_ [_ [Hp _]]]. rewrite Hp. reflexivity.
Qed.

(* ---------- a function of the history up to the cut ---------- *)
(* the frames that can feed the summary of the cut at to_seq t: messages up to the cut, checkpoint frames for
   earlier cuts (wherever they stand in the stream) *)
Definition relevant_frame (t : N) (e : ev) : bool :=
  match ebody e with
  | BMsg _ _ => eseq e <=? t
  | BCkpt _ _ to _ => to <? t
  | _ => false
  end.
Definition relevant (t : N) (l : list ev) : list ev := filter (relevant_frame t) l.

Lemma ckpts_relevant t l : ckpts (relevant t l) = filter (fun c => ck_to c <? t) (ckpts l).
Proof.
  unfold relevant, relevant_frame, ckpts. induction l as [|e l IH]; [reflexivity|]. cbn [filter flat_map].
  destruct (ebody e) eqn:Eb; cbn [app filter ck_to]; try exact IH.
  - destruct (eseq e <=? t); [|exact IH]. cbn [flat_map]. rewrite Eb. exact IH.
  - destruct (to_seq <? t); [|exact IH]. cbn [flat_map]. rewrite Eb. cbn [app]. f_equal. exact IH.
Qed.

Lemma msg_full_relevant t l : msg_full (relevant t l) = filter (fun m => mseq m <=? t) (msg_full l).
Proof.
  unfold relevant, relevant_frame, msg_full. induction l as [|e l IH]; [reflexivity|]. cbn [filter flat_map].
  destruct (ebody e) eqn:Eb; cbn [app filter]; try exact IH.
  - unfold mseq at 1. cbn [fst]. destruct (eseq e <=? t); [|exact IH]. cbn [flat_map]. rewrite Eb. cbn [app]. f_equal. exact IH.
  - destruct (to_seq <? t); [|exact IH]. cbn [flat_map]. rewrite Eb. exact IH.
Qed.

Lemma best_fold_filter m L : forall acc,
  fold_left (best_step m) L acc = fold_left (best_step m) (filter (fun c => negb (m <? ck_to c)) L) acc.
Proof.
  induction L as [|c L IH]; intros acc; [reflexivity|]. cbn [fold_left filter].
  destruct (m <? ck_to c) eqn:E; cbn [negb fold_left].
  - unfold best_step at 2. rewrite E. apply IH.
  - apply IH.
Qed.

Lemma best_le_filter L t : 1 < t -> best_le L (t - 1) = best_le (filter (fun c => ck_to c <? t) L) (t - 1).
Proof.
  intros Ht. unfold best_le.
  change (fold_left (best_step (t - 1)) L None = fold_left (best_step (t - 1)) (filter (fun c => ck_to c <? t) L) None).
  rewrite best_fold_filter. f_equal. apply filter_ext. intros c.
  destruct (t - 1 <? ck_to c) eqn:E1; destruct (ck_to c <? t) eqn:E2; cbn [negb]; try reflexivity.
  - apply N.ltb_lt in E1, E2. lia.
  - apply N.ltb_ge in E1, E2. lia.
Qed.

Lemma truth_fold_filter t L : forall acc,
  fold_left (truth_step t) L acc = fold_left (truth_step t) (filter (fun c => ck_to c <? t) L) acc.
Proof.
  induction L as [|c L IH]; intros acc; [reflexivity|]. cbn [fold_left filter].
  destruct (ck_to c <? t) eqn:E; cbn [fold_left]; [apply IH|].
  apply N.ltb_ge in E. rewrite <- IH. f_equal. destruct acc as [[b bt] bs]. unfold truth_step.
  destruct (t <=? ck_to c) eqn:E2; [reflexivity | apply N.leb_gt in E2; lia].
Qed.

Lemma best_lt_truth_filter L t : best_lt_truth L t = best_lt_truth (filter (fun c => ck_to c <? t) L) t.
Proof. rewrite !best_lt_truth_fold, truth_fold_filter. reflexivity. Qed.

Lemma filter_rev {A} (f : A -> bool) (l : list A) : filter f (rev l) = rev (filter f l).
Proof.
  induction l as [|a l IH]; [reflexivity|]. cbn [rev filter]. rewrite filter_app, IH. cbn [filter].
  destruct (f a); cbn [rev]; [reflexivity | apply app_nil_r].
Qed.

Lemma select_base_g_filter w ccur csnap t :
  select_base_g w ccur csnap t
  = select_base_g w (filter (fun c => ck_to c <? t) ccur) (filter (fun c => ck_to c <? t) csnap) t.
Proof.
  unfold select_base_g. destruct (t <=? 1) eqn:Et; [reflexivity|]. apply N.leb_gt in Et.
  rewrite <- best_lt_truth_filter. destruct w; [|reflexivity].
  rewrite (best_le_filter (rev ccur) t Et), filter_rev. reflexivity.
Qed.

Lemma nth_error_firstn_lt {A} (l : list A) : forall n i, (i < n)%nat -> nth_error (firstn n l) i = nth_error l i.
Proof.
  induction l as [|a l IH]; intros n i H; [rewrite firstn_nil; reflexivity|].
  destruct n as [|n]; [lia|]. destruct i as [|i]; [reflexivity|]. cbn [firstn nth_error]. apply IH. lia.
Qed.

Lemma cut_read_g_filter sb rd (ms : mfull) p x :
  sorted_ms ms -> In (pl_seq p, pl_mid p, x) ms -> snd sb <= pl_seq p ->
  cut_read_g sb rd ms p = cut_read_g sb rd (filter (fun m => mseq m <=? pl_seq p) ms) p.
Proof.
  intros Hs Hin Hle. unfold cut_read_g. destruct (basis_of rd (fst sb)) as [[[base_id bootstrap] note] used].
  set (t := pl_seq p). set (ms' := filter (fun m => mseq m <=? t) ms).
  assert (Hs' : sorted_ms ms') by (apply sorted_filter, Hs).
  assert (Hub : upper_bound ms' t = upper_bound ms t).
  { rewrite !upper_bound_len. f_equal. apply filter_filter_le. lia. }
  assert (Hpos : (1 <= upper_bound ms t)%nat).
  { rewrite upper_bound_len. assert (Hi : In (t, pl_mid p, x) (filter (fun m => mseq m <=? t) ms)).
    { apply filter_In. split; [exact Hin|]. unfold mseq. cbn [fst]. apply N.leb_refl. }
    destruct (filter (fun m => mseq m <=? t) ms); [destruct Hi | cbn [length]; lia]. }
  assert (Hf : firstn (upper_bound ms t) ms = ms') by (apply firstn_ub, Hs).
  assert (Hf' : firstn (upper_bound ms' t) ms' = ms').
  { rewrite Hub. rewrite <- Hf at 2. rewrite <- Hf. rewrite firstn_firstn, Nat.min_id. reflexivity. }
  assert (Hn : nth_error ms' (upper_bound ms' t - 1) = nth_error ms (upper_bound ms t - 1)).
  { rewrite Hub. rewrite <- Hf. apply nth_error_firstn_lt. lia. }
  rewrite Hn.
  assert (Hlo : upper_bound ms' (if bootstrap then 0 else snd sb) = upper_bound ms (if bootstrap then 0 else snd sb)).
  { rewrite !upper_bound_len. f_equal. apply filter_filter_le. destruct bootstrap; lia. }
  rewrite Hlo, Hf, Hf'. reflexivity.
Qed.

(* the inputs are determined by the relevant part of the two streams the job reads (its snapshot, the current
   stream), by whether the bounded sidecar scan answers, and by the readable summaries *)
Theorem summary_inputs_local K snap snap' s s' p x :
  msorted snap -> msorted snap' ->
  Forall (fun c => ck_to c <> 0) (ckpts snap) -> Forall (fun c => ck_to c <> 0) (ckpts snap') ->
  In (pl_seq p, pl_mid p, x) (msg_full snap) ->
  relevant (pl_seq p) snap = relevant (pl_seq p) snap' ->
  relevant (pl_seq p) (log s) = relevant (pl_seq p) (log s') ->
  (nlen (ckpts (log s)) <=? k_ck_window K) = (nlen (ckpts (log s')) <=? k_ck_window K) ->
  (forall a, art_read s a = art_read s' a) ->
  cut_read K snap s p = cut_read K snap' s' p.
Proof.
  intros Hs Hs' H0 H0' Hin Hsnap Hcur Hw Hrd.
  assert (Hin' : In (pl_seq p, pl_mid p, x) (msg_full snap')).
  { assert (Hi : In (pl_seq p, pl_mid p, x) (filter (fun m => mseq m <=? pl_seq p) (msg_full snap))).
    { apply filter_In. split; [exact Hin|]. unfold mseq. cbn [fst]. apply N.leb_refl. }
    rewrite <- msg_full_relevant, Hsnap, msg_full_relevant in Hi. apply filter_In in Hi. apply Hi. }
  rewrite !cut_read_is_g.
  rewrite (cut_read_g_filter _ _ (msg_full snap) p x Hs Hin) by (apply select_base_to_le, H0).
  rewrite (cut_read_g_filter _ _ (msg_full snap') p x Hs' Hin') by (apply select_base_to_le, H0').
  rewrite <- !msg_full_relevant, Hsnap.
  rewrite !select_base_is_g, Hw.
  rewrite (select_base_g_filter _ (ckpts (log s))), (select_base_g_filter _ (ckpts (log s'))).
  rewrite <- !ckpts_relevant, Hsnap, Hcur.
  unfold cut_read_g, basis_of.
  destruct (select_base_g (nlen (ckpts (log s')) <=? k_ck_window K) (ckpts (relevant (pl_seq p) (log s')))
              (ckpts (relevant (pl_seq p) snap')) (pl_seq p)) as [b base_to].
  cbn [fst snd]. destruct (option_map ck_art b) as [a|]; [|reflexivity]. rewrite Hrd. reflexivity.
Qed.

(* in particular frames beyond the cut — later messages, checkpoints of this or later cuts, anything that is neither a
   message nor a checkpoint — feed nothing *)
Definition beyond (t : N) (e : ev) : Prop := relevant_frame t e = false.

Lemma relevant_app_beyond t l later : Forall (beyond t) later -> relevant t (l ++ later) = relevant t l.
Proof.
  intros H. unfold relevant. rewrite filter_app.
  assert (E : filter (relevant_frame t) later = []).
  { induction later as [|e later IH]; [reflexivity|]. inversion H as [|e' l' He Hl]; subst.
    cbn [filter]. rewrite He. apply IH, Hl. }
  rewrite E. apply app_nil_r.
Qed.

Lemma ckpts_beyond_nonzero t later : 0 < t -> Forall (beyond t) later -> Forall (fun c => ck_to c <> 0) (ckpts later).
Proof.
  intros Ht H. unfold ckpts. induction later as [|e later IH]; [constructor|]. inversion H as [|e' l' He Hl]; subst.
  cbn [flat_map]. unfold beyond, relevant_frame in He.
  destruct (ebody e); cbn [app]; try (apply IH, Hl).
  constructor; [|apply IH, Hl]. cbn [ck_to]. apply N.ltb_ge in He. lia.
Qed.

Theorem summary_ignores_frames_beyond_cut K snap s p x later later' arts' :
  msorted snap -> msorted (snap ++ later) ->
  Forall (fun c => ck_to c <> 0) (ckpts snap) ->
  In (pl_seq p, pl_mid p, x) (msg_full snap) -> pl_seq p <> 0 ->
  Forall (beyond (pl_seq p)) later -> Forall (beyond (pl_seq p)) later' ->
  (nlen (ckpts (log s)) <=? k_ck_window K) = (nlen (ckpts (log s ++ later')) <=? k_ck_window K) ->
  (forall a, art_read s a = art_read {| log := log s ++ later'; arts := arts' |} a) ->
  cut_read K (snap ++ later) {| log := log s ++ later'; arts := arts' |} p = cut_read K snap s p.
Proof.
  intros Hs Hs2 H0 Hin Hnz Hl Hl' Hw Hrd. symmetry.
  assert (Hpos : 0 < pl_seq p) by lia.
  apply (summary_inputs_local K snap (snap ++ later) s {| log := log s ++ later'; arts := arts' |} p x); try assumption.
  - rewrite ckpts_app. apply Forall_app. split; [exact H0 | apply (ckpts_beyond_nonzero (pl_seq p)); assumption].
  - rewrite relevant_app_beyond by exact Hl. reflexivity.
  - cbn [log]. rewrite relevant_app_beyond by exact Hl'. reflexivity.
Qed.

(* ---------- non-vacuity: 7 messages, stride 2, max_new 2 (demo7 of CompactionProofs) ----------
   the job writes the summary of the 4th message from scratch (no earlier checkpoint: all four messages feed it) and
   the summary of the 6th on top of it (base = the artifact just written, only messages 5 and 6 feed it) *)
Definition demo7_after : st := fst (auto real_consts (Some 2) (Some 2) None demo7).
Definition demo7_cut4 : plan := {| pl_ord := 4; pl_seq := 5; pl_mid := 6 |}.
Definition demo7_later : list ev :=
  [{| eseq := 40; eid := 41; ebody := BMsg 3 9 |}; {| eseq := 41; eid := 42; ebody := BCkpt 0 7 5 (Some 6) |};
   {| eseq := 42; eid := 43; ebody := BOther |}].
Lemma demo7_summary_inputs :
  (msorted (log demo7) /\ Forall (fun c => ck_to c <> 0) (ckpts (log demo7))
   /\ In (pl_seq demo7_cut4, pl_mid demo7_cut4, (1, 4)) (msg_full (log demo7)))
  /\ map (fun kv => (fst kv, su_to_seq (snd kv), su_base (snd kv), su_base_used (snd kv), su_slice (snd kv))) (arts demo7_after)
     = [(1, 5, None, false, [(0, 1); (1, 2); (0, 3); (1, 4)]); (2, 7, Some 1, true, [(0, 5); (1, 6)])]
  /\ (Forall (beyond (pl_seq demo7_cut4)) demo7_later /\ msorted (log demo7 ++ demo7_later))
  /\ cut_read real_consts (log demo7 ++ demo7_later) {| log := log demo7 ++ demo7_later; arts := arts demo7 |} demo7_cut4
     = cut_read real_consts (log demo7) demo7 demo7_cut4.
Proof.
  split; [split; [apply valid_msgs_sorted, demo7_valid | split; [vm_compute; constructor | vm_compute; tauto]]|].
  split; [vm_compute; reflexivity|].
  split; [split; [vm_compute; repeat constructor | vm_compute; repeat constructor]|].
  vm_compute. reflexivity.
Qed.

(* ---------- no checkpoint frame has to_seq 0 in a reachable thread ---------- *)
Definition G (l : list ev) : Prop :=
  l <> [] /\ Forall (fun m => fst m <> 0) (msgs l) /\ Forall (fun c => ck_to c <> 0) (ckpts l).

Lemma next_seq_nonzero l : l <> [] -> next_seq l <> 0.
Proof.
  intros H. unfold next_seq. destruct (rev l) as [|e r] eqn:E; [|lia].
  apply (f_equal (@rev ev)) in E. rewrite rev_involutive in E. cbn in E. contradiction.
Qed.

Lemma G_append s b : G (log s) -> (forall r a t m, b = BCkpt r a t m -> t <> 0) -> G (log (append s b)).
Proof.
  intros [Hn [Hm Hc]] Hb. unfold append. cbn [log]. split; [|split].
  - intros E. apply app_eq_nil in E. destruct E as [_ E]. discriminate.
  - rewrite msgs_app. apply Forall_app. split; [exact Hm|]. unfold msgs. cbn [flat_map ebody eseq eid].
    destruct b; cbn [app]; try constructor; [|constructor]. cbn [fst]. apply next_seq_nonzero, Hn.
  - rewrite ckpts_app. apply Forall_app. split; [exact Hc|]. unfold ckpts. cbn [flat_map ebody eseq eid].
    destruct b; cbn [app]; try constructor; [|constructor]. cbn [ck_to]. eapply Hb. reflexivity.
Qed.

Lemma G_same_log s s' : log s' = log s -> G (log s) -> G (log s').
Proof. intros ->. auto. Qed.

Lemma cut_read_in K snap s p v : cut_read K snap s p = Ok v -> exists x, In (pl_seq p, pl_mid p, x) (msg_full snap).
Proof.
  rewrite cut_read_is_g. unfold cut_read_g. destruct (basis_of (art_read s) (fst (select_base K (log s) snap (pl_seq p)))) as [[[b0 bs] nt] us].
  destruct (nth_error (msg_full snap) (upper_bound (msg_full snap) (pl_seq p) - 1)) as [[[ls lid] x]|] eqn:En; [|discriminate].
  destruct ((ls =? pl_seq p) && (lid =? pl_mid p)) eqn:E; [|discriminate]. intros _.
  apply andb_true_iff in E. destruct E as [E1 E2]. apply N.eqb_eq in E1, E2. subst. exists x. eapply nth_error_In, En.
Qed.

Lemma msg_full_seq_nonzero l s id x : Forall (fun m => fst m <> 0) (msgs l) -> In (s, id, x) (msg_full l) -> s <> 0.
Proof.
  intros H Hin. rewrite <- msgs_of_full in H. rewrite Forall_forall in H.
  apply (H (s, id)). apply in_map_iff. exists (s, id, x). split; [reflexivity | exact Hin].
Qed.

Lemma run_cut_G K snap stride s p s2 c :
  Forall (fun m => fst m <> 0) (msgs snap) -> run_cut K snap stride s p = Ok (s2, c) -> G (log s) -> G (log s2).
Proof.
  intros Hsnap Hr HG. pose proof Hr as Hr2. rewrite run_cut_split in Hr2.
  destruct (cut_read K snap s p) as [v|e] eqn:Ec; [|discriminate].
  destruct (cut_read_in K snap s p v Ec) as [x Hx].
  apply run_cut_log in Hr. destruct Hr as [v' [-> _]].
  apply (G_append {| log := log s; arts := arts s ++ [(fresh_art s, v')] |}); [exact HG|].
  unfold ck_frame. intros r a t m E. injection E as _ _ <- _. eapply msg_full_seq_nonzero; eassumption.
Qed.

Lemma run_cuts_G K snap stride : forall ps s acc s' made err,
  Forall (fun m => fst m <> 0) (msgs snap) ->
  run_cuts K snap stride s ps acc = (s', made, err) -> G (log s) -> G (log s').
Proof.
  induction ps as [|p ps IH]; intros s acc s' made err Hsnap H HG; cbn [run_cuts] in H.
  - injection H as <- _ _. exact HG.
  - destruct (run_cut K snap stride s p) as [[s2 c]|e] eqn:E.
    + eapply IH; [exact Hsnap | exact H|]. eapply run_cut_G; eassumption.
    + injection H as <- _ _. exact HG.
Qed.

Lemma not_ck_append s b : G (log s) -> (forall r a t m, b <> BCkpt r a t m) -> G (log (append s b)).
Proof. intros HG Hb. apply G_append; [exact HG|]. intros r a t m E. exfalso. eapply Hb, E. Qed.

Lemma run_job_G K j stride planned s : G (log s) -> G (log (fst (fst (run_job K j stride planned s)))).
Proof.
  intros HG. unfold run_job.
  destruct (run_cuts K (log s) stride s (plan_sort planned) []) as [[s1 made] err] eqn:E. cbn [fst].
  apply not_ck_append; [|intros; discriminate]. eapply run_cuts_G; [|exact E | exact HG]. apply HG.
Qed.

Lemma auto_spawn_G K stride maxnew dry s : G (log s) -> G (log (fst (auto_spawn K stride maxnew dry s))).
Proof.
  intros HG. unfold auto_spawn. destruct (plan_cuts K stride maxnew (log s)); [exact HG|].
  destruct dry; [exact HG|]. cbn [fst]. apply not_ck_append; [exact HG | intros; discriminate].
Qed.

Lemma auto_G K ostride omax odry s : G (log s) -> G (log (fst (auto K ostride omax odry s))).
Proof.
  intros HG. unfold auto. destruct (opt_or ostride (k_default_stride K) =? 0); [exact HG|].
  pose proof (auto_spawn_G K (opt_or ostride (k_default_stride K))
                (clamp (k_maxnew_lo K) (k_maxnew_hi K) (opt_or omax 1)) (opt_orb odry false) s HG) as H1.
  destruct (auto_spawn K _ _ _ s) as [s1 r]. cbn [fst] in H1.
  destruct (ar_job r) as [j|]; [|exact H1].
  pose proof (run_job_G K j (opt_or ostride (k_default_stride K)) (ar_planned r) s1 H1) as H2.
  destruct (run_job K j _ (ar_planned r) s1) as [[s2 made] err]. exact H2.
Qed.

Lemma sched_G K ostride omax oblock oexec odry s :
  G (log s) -> G (log (fst (sched K ostride omax oblock oexec odry s))).
Proof.
  intros HG. unfold sched. destruct (opt_or ostride (k_default_stride K) =? 0); [exact HG|].
  destruct (plan_cuts K _ _ (log s)) as [|p0 pr] eqn:Ep; [exact HG|]. rewrite <- Ep.
  destruct (opt_orb odry false); [exact HG|].
  destruct (if opt_orb oblock true then find_inflight K (log s) else None).
  - cbn [fst]. apply not_ck_append; [exact HG | intros; discriminate].
  - pose proof (auto_spawn_G K (opt_or ostride (k_default_stride K))
                  (clamp (k_maxnew_lo K) (k_maxnew_hi K) (opt_or omax 1)) false s HG) as H1.
    destruct (auto_spawn K _ _ false s) as [s1 r]. cbn [fst] in H1.
    destruct (ar_job r) as [j|]; [|exact H1].
    assert (H2 : G (log (append s1 (BDecided 3 (Some j) (plan_cuts K (opt_or ostride (k_default_stride K))
                   (clamp (k_maxnew_lo K) (k_maxnew_hi K) (opt_or omax 1)) (log s))
                   (opt_or ostride (k_default_stride K)) (clamp (k_maxnew_lo K) (k_maxnew_hi K) (opt_or omax 1))
                   (opt_orb oblock true) (opt_orb oexec true) (nlen (msgs (log s)))))))
      by (apply not_ck_append; [exact H1 | intros; discriminate]).
    destruct (opt_orb oexec true); [|exact H2].
    match goal with |- context [run_job K j ?st ?pl ?s2] =>
      pose proof (run_job_G K j st pl s2 H2) as H3; destruct (run_job K j st pl s2) as [[s3 made] err] end.
    exact H3.
Qed.

Lemma step_G K s o : G (log s) -> G (log (fst (step K s o))).
Proof.
  intros HG. destruct o; cbn [step fst]; try exact HG; try (apply not_ck_append; [exact HG | intros; discriminate]).
  - pose proof (manual_boundary K r s) as H. destruct (manual K r s) as [s' [[[[[ck a] ts] tm] rule]|e]]; cbn [fst].
    + destruct H as [Hin [Hl _]]. destruct HG as [Hn [Hm Hc]]. rewrite Hl. split; [|split].
      * intros E. apply app_eq_nil in E. destruct E as [_ E]. discriminate.
      * rewrite msgs_app. unfold msgs at 2. cbn [flat_map ebody app]. rewrite app_nil_r. exact Hm.
      * rewrite ckpts_app. apply Forall_app. split; [exact Hc|]. unfold ckpts. cbn [flat_map ebody app].
        constructor; [|constructor]. cbn [ck_to]. rewrite Forall_forall in Hm. apply (Hm (ts, tm) Hin).
    + subst s'. exact HG.
  - pose proof (auto_G K stride maxnew dry s HG) as H. destruct (auto K stride maxnew dry s). exact H.
  - pose proof (sched_G K stride maxnew block exec dry s HG) as H. destruct (sched K stride maxnew block exec dry s). exact H.
Qed.

Lemma run_ops_G K : forall ops s acc, G (log s) -> G (log (fst (run_ops K s ops acc))).
Proof.
  induction ops as [|o ops IH]; intros s acc HG; cbn [run_ops]; [exact HG|].
  pose proof (step_G K s o HG) as H. destruct (step K s o) as [s' out]. apply IH, H.
Qed.

Lemma G_st0 : G (log st0).
Proof. split; [discriminate|]. split; constructor. Qed.

Theorem reachable_ck_nonzero K ops :
  Forall (fun c => ck_to c <> 0) (ckpts (log (fst (run_ops K st0 ops [])))).
Proof. apply (run_ops_G K ops st0 [] G_st0). Qed.

(* the hypotheses of the summary theorems hold in every state the modelled operations reach from a fresh thread *)
Theorem reachable_summary_hyps K ops :
  msorted (log (fst (run_ops K st0 ops [])))
  /\ Forall (fun c => ck_to c <> 0) (ckpts (log (fst (run_ops K st0 ops [])))).
Proof.
  split; [|apply reachable_ck_nonzero].
  apply valid_msgs_sorted. apply (reachable_valid K ops st0 []). apply valid_st0.
Qed.

(* ---------- what the summary records of its delta: per-actor counts, most frequent first ---------- *)
Definition count_actor (a : N) (sl : list (N * N)) : N := nlen (filter (fun m => fst m =? a) sl).

Definition hget (a : N) (h : list (N * N)) : N :=
  match find (fun p => fst p =? a) h with Some p => snd p | None => 0 end.

Lemma bump_get a b h : hget b (bump a h) = if b =? a then hget b h + 1 else hget b h.
Proof.
  unfold hget. induction h as [|[x c] h IH]; cbn [bump find fst snd].
  - destruct (b =? a) eqn:E.
    + apply N.eqb_eq in E. subst b. rewrite N.eqb_refl. reflexivity.
    + rewrite (N.eqb_sym a b), E. reflexivity.
  - destruct (x =? a) eqn:Exa; cbn [find fst snd].
    + apply N.eqb_eq in Exa. subst x. destruct (b =? a) eqn:E.
      * apply N.eqb_eq in E. subst b. rewrite N.eqb_refl. reflexivity.
      * rewrite (N.eqb_sym a b), E. reflexivity.
    + destruct (x =? b) eqn:Exb.
      * apply N.eqb_eq in Exb. subst x. rewrite Exa. reflexivity.
      * exact IH.
Qed.

Lemma bump_keys a h : NoDup (map fst h) -> NoDup (map fst (bump a h)) /\ (forall x, In x (map fst (bump a h)) <-> x = a \/ In x (map fst h)).
Proof.
  induction h as [|[x c] h IH]; intros Hn; cbn [bump map fst].
  - split; [constructor; [intros []|constructor]|]. intros y. cbn. intuition (subst; auto).
  - inversion Hn as [|y l Hx Hn']; subst. destruct (x =? a) eqn:E; cbn [map fst].
    + apply N.eqb_eq in E. subst x. split; [exact Hn|]. intros y. cbn. intuition (subst; auto).
    + destruct (IH Hn') as [I1 I2]. split.
      * constructor; [|exact I1]. rewrite I2. intros [->|H]; [rewrite N.eqb_refl in E; discriminate | contradiction].
      * intros y. cbn [In]. rewrite I2. tauto.
Qed.

Lemma bump_pos a h : Forall (fun p => 0 < snd p) h -> Forall (fun p => 0 < snd p) (bump a h).
Proof.
  induction h as [|[x c] h IH]; intros H; cbn [bump].
  - constructor; [cbn; lia | constructor].
  - inversion H as [|y l Hc Hr]; subst. destruct (x =? a); constructor; cbn [snd] in *; try lia; auto.
Qed.

Definition HistInv (sl : list (N * N)) (h : list (N * N)) : Prop :=
  NoDup (map fst h) /\ Forall (fun p => 0 < snd p) h /\ forall a, hget a h = count_actor a sl.

Lemma histo_fold_inv : forall sl done h, HistInv done h -> HistInv (done ++ sl) (fold_left (fun h m => bump (fst m) h) sl h).
Proof.
  induction sl as [|m sl IH]; intros done h H; cbn [fold_left]; [rewrite app_nil_r; exact H|].
  replace (done ++ m :: sl) with ((done ++ [m]) ++ sl) by (rewrite <- app_assoc; reflexivity).
  apply IH. destruct H as [Hn [Hp Hg]]. split; [apply bump_keys, Hn|]. split; [apply bump_pos, Hp|].
  intros a. rewrite bump_get, Hg. unfold count_actor, nlen. rewrite filter_app, app_length. cbn [filter].
  destruct (fst m =? a) eqn:E.
  - apply N.eqb_eq in E. subst a. rewrite N.eqb_refl. cbn [length]. lia.
  - rewrite (N.eqb_sym a (fst m)), E. cbn [length]. lia.
Qed.

(* the histogram: one entry per actor that wrote a message of the delta, with the number of its messages *)
Theorem histo_spec sl : HistInv sl (histo sl).
Proof.
  apply (histo_fold_inv sl [] []). split; [constructor|]. split; [constructor|]. intros a. reflexivity.
Qed.

Lemma hist_insert_perm x l : Permutation (hist_insert x l) (x :: l).
Proof.
  induction l as [|y l IH]; cbn [hist_insert]; [apply Permutation_refl|].
  destruct (hist_leb x y); [apply Permutation_refl|].
  eapply Permutation_trans; [apply perm_skip, IH | apply perm_swap].
Qed.
Lemma hist_sort_perm l : Permutation (hist_sort l) l.
Proof.
  induction l as [|x l IH]; cbn [hist_sort fold_right]; [constructor|].
  eapply Permutation_trans; [apply hist_insert_perm | apply perm_skip, IH].
Qed.

(* most frequent first, ties by actor *)
Definition hist_le (x y : N * N) : Prop := snd y < snd x \/ (snd x = snd y /\ fst x <= fst y).
Lemma hist_leb_le x y : hist_leb x y = true <-> hist_le x y.
Proof. unfold hist_leb, hist_le. rewrite orb_true_iff, andb_true_iff, N.ltb_lt, N.eqb_eq, N.leb_le. tauto. Qed.
Lemma hist_le_total x y : hist_leb x y = false -> hist_le y x.
Proof.
  unfold hist_leb, hist_le. rewrite orb_false_iff, andb_false_iff, N.ltb_ge, N.eqb_neq, N.leb_gt. lia.
Qed.
Lemma hist_le_trans x y z : hist_le x y -> hist_le y z -> hist_le x z.
Proof. unfold hist_le. lia. Qed.

Lemma hist_insert_sorted x l : StronglySorted hist_le l -> StronglySorted hist_le (hist_insert x l).
Proof.
  induction l as [|y l IH]; intros Hs; cbn [hist_insert]; [constructor; constructor|].
  inversion Hs as [|y' l' Hs' Hy]; subst. destruct (hist_leb x y) eqn:E.
  - apply hist_leb_le in E. constructor; [exact Hs|]. constructor; [exact E|].
    eapply Forall_impl; [|exact Hy]. intros z Hz. eapply hist_le_trans; eassumption.
  - apply hist_le_total in E. constructor; [apply IH, Hs'|].
    rewrite Forall_forall in *. intros z Hz. apply (Permutation_in _ (hist_insert_perm x l)) in Hz.
    destruct Hz as [<-|Hz]; [exact E | apply Hy, Hz].
Qed.
Lemma hist_sort_sorted l : StronglySorted hist_le (hist_sort l).
Proof. induction l as [|x l IH]; cbn [hist_sort fold_right]; [constructor|]. apply hist_insert_sorted, IH. Qed.

(* `- delta_actors:` of the model: the first 6 of the per-actor counts of the slice, most frequent first, ties by actor;
   every entry (a, c) says that exactly c > 0 messages of the slice were written by a *)
Theorem delta_actors_spec sl :
  exists rest, Permutation (delta_actors sl ++ rest) (histo sl)
  /\ StronglySorted hist_le (delta_actors sl ++ rest)
  /\ (length (delta_actors sl) <= k_actors_shown)%nat
  /\ (rest <> [] -> length (delta_actors sl) = k_actors_shown)
  /\ forall a c, In (a, c) (delta_actors sl) -> c = count_actor a sl /\ 0 < c.
Proof.
  unfold delta_actors. exists (skipn k_actors_shown (hist_sort (histo sl))). rewrite firstn_skipn.
  split; [apply hist_sort_perm|]. split; [apply hist_sort_sorted|]. split; [apply firstn_le_length|]. split.
  - intros Hr. rewrite firstn_length. apply Nat.min_l. destruct (le_lt_dec k_actors_shown (length (hist_sort (histo sl)))) as [H|H]; [exact H|].
    exfalso. apply Hr. apply skipn_all2. lia.
  - intros a c Hin. assert (Hi : In (a, c) (histo sl)).
    { apply (Permutation_in _ (hist_sort_perm (histo sl))). eapply In_firstn, Hin. }
    destruct (histo_spec sl) as [Hn [Hp Hg]]. split.
    + rewrite <- Hg. unfold hget.
      assert (Hf : forall h, NoDup (map fst h) -> In (a, c) h -> find (fun p => fst p =? a) h = Some (a, c)).
      { induction h as [|[x d] h IH]; intros Hnd Hx; [destruct Hx|]. cbn [find fst]. inversion Hnd as [|y l Hx' Hnd']; subst.
        destruct Hx as [E|Hx].
        - injection E as -> ->. rewrite N.eqb_refl. reflexivity.
        - destruct (x =? a) eqn:E; [|apply IH; assumption]. apply N.eqb_eq in E. subst x. exfalso. apply Hx'.
          apply in_map_iff. exists (a, c). split; [reflexivity | exact Hx]. }
      rewrite (Hf _ Hn Hi). reflexivity.
    + rewrite Forall_forall in Hp. apply (Hp (a, c) Hi).
Qed.

(* `## Recent Delta Highlights` of the model: the last 12 messages of the slice, in order *)
Theorem delta_highlights_spec sl :
  exists pre, sl = pre ++ delta_highlights sl
  /\ (nlen (delta_highlights sl) <= k_highlights) /\ (pre <> [] -> nlen (delta_highlights sl) = k_highlights).
Proof.
  unfold delta_highlights, lastn. destruct (nlen sl <=? k_highlights) eqn:E.
  - apply N.leb_le in E. exists []. split; [reflexivity|]. split; [exact E|]. intros H. contradiction.
  - apply N.leb_gt in E. exists (firstn (length sl - N.to_nat k_highlights) sl). rewrite firstn_skipn.
    split; [reflexivity|]. unfold nlen in *. rewrite skipn_length. split; [lia|]. intros _. lia.
Qed.

(* ---------- … and in every interleaving of concurrent calls ---------- *)
Definition aG (a : astate) : Prop :=
  match a with
  | ACut _ _ snap _ _ => Forall (fun m => fst m <> 0) (msgs snap)
  | AWrite _ _ snap p _ _ _ =>
      Forall (fun m => fst m <> 0) (msgs snap) /\ exists x, In (pl_seq p, pl_mid p, x) (msg_full snap)
  | _ => True
  end.

Lemma G_put_art s v : G (log s) -> G (log (fst (put_art s v))).
Proof. intros H. exact H. Qed.

Lemma astep_G K s a : G (log s) -> aG a -> G (log (fst (astep K s a))) /\ aG (snd (astep K s a)).
Proof.
  intros HG Ha. unfold astep, astep_gen. destruct a; cbn [aG] in Ha.
  - destruct (c_sched c); [destruct (plan_cuts K (c_stride c) (c_maxnew c) (log s))|]; cbn [fst snd aG]; auto.
  - destruct (if c_block c then find_inflight K (log s) else None); cbn [fst snd aG]; auto.
  - cbn [fst snd aG]. split; [|exact I]. apply not_ck_append; [exact HG | unfold decided_body; intros; discriminate].
  - destruct (plan_cuts K (c_stride c) (c_maxnew c) (log s)); cbn [fst snd aG]; auto.
  - destruct (c_sched c); cbn [fst snd aG]; (split; [|exact I]); apply not_ck_append; try exact HG; intros; discriminate.
  - destruct (c_exec c); cbn [fst snd aG]; (split; [|exact I]); apply not_ck_append; try exact HG;
      unfold decided_body; intros; discriminate.
  - cbn [fst snd aG]. split; [exact HG | apply HG].
  - destruct todo as [|p rest]; [cbn [fst snd aG]; auto|].
    destruct (cut_read K snap s p) as [v|e] eqn:E; cbn [fst snd aG]; [|auto].
    split; [exact HG|]. split; [exact Ha | eapply cut_read_in, E].
  - destruct Ha as [Hsnap [x Hx]]. unfold put_art. cbn [fst snd aG]. split; [|exact Hsnap].
    apply (G_append {| log := log s; arts := arts s ++ [(fresh_art s, v)] |}); [exact HG|].
    intros r a t m E. injection E as _ _ <- _. eapply msg_full_seq_nonzero; eassumption.
  - cbn [fst snd aG]. split; [|exact I]. apply not_ck_append; [exact HG | intros; discriminate].
  - cbn [fst snd]. split; [exact HG | destruct ms; exact I].
  - destruct ms as [|[a c] rest]; cbn [fst snd]; [split; [exact HG | exact I]|].
    split; [apply not_ck_append; [exact HG | intros; discriminate] | destruct rest; exact I].
  - cbn [fst snd aG]. auto.
Qed.

Definition CG (s : st) (acts : list astate) : Prop := G (log s) /\ Forall aG acts.

Lemma CG_step K s pre a post : CG s (pre ++ a :: post) -> CG (fst (astep K s a)) (pre ++ snd (astep K s a) :: post).
Proof.
  intros [HG Hf]. apply Forall_app in Hf. destruct Hf as [Hpre Hf]. inversion Hf as [|a0 l0 Ha Hpost]; subst.
  destruct (astep_G K s a HG Ha) as [HG' Ha']. split; [exact HG'|].
  apply Forall_app. split; [exact Hpre|]. constructor; [exact Ha' | exact Hpost].
Qed.

Theorem CG_steps K x y : sys_steps K x y -> CG (fst x) (snd x) -> CG (fst y) (snd y).
Proof.
  induction 1 as [|x y z H1 H2 IH]; intros H; [exact H|]. apply IH. destruct H1. cbn [fst snd] in *.
  apply CG_step, H.
Qed.

Lemma aG_start calls : Forall aG (map start_of calls).
Proof. induction calls as [|c r IH]; [constructor|]. constructor; [destruct c; exact I | exact IH]. Qed.

Lemma valid_steps K x y : sys_steps K x y -> valid (log (fst x)) -> valid (log (fst y)).
Proof.
  induction 1 as [|x y z H1 H2 IH]; intros H; [exact H|]. apply IH. destruct H1. cbn [fst snd] in *.
  apply astep_valid, H.
Qed.

(* any interleaving of concurrent calls and message appenders, started after any modelled operations on a fresh
   thread: still no checkpoint frame with to_seq 0, message seqs still sorted *)
Theorem concurrent_summary_hyps K ops calls s' acts' :
  sys_steps K (fst (run_ops K st0 ops []), map start_of calls) (s', acts') ->
  msorted (log s') /\ Forall (fun c => ck_to c <> 0) (ckpts (log s')).
Proof.
  intros H. split.
  - apply valid_msgs_sorted. apply (valid_steps K _ _ H). cbn [fst]. apply (reachable_valid K ops st0 []), valid_st0.
  - pose proof (CG_steps K _ _ H) as Hc. cbn [fst snd] in Hc. apply Hc.
    split; [apply (run_ops_G K ops st0 [] G_st0) | apply aG_start].
Qed.

(* ---------- every summary a job writes is the cut_read of its cut at that moment ---------- *)
(* the job's loop over its sorted plan: state before each cut, the value read, the state after the write *)
Inductive cuts_fed (K : consts) (snap : list ev) (stride : N) : st -> list plan -> st -> list created -> Prop :=
| cf_nil s : cuts_fed K snap stride s [] s []
| cf_cons s p v s2 c ps s' made :
    cut_read K snap s p = Ok v ->
    run_cut K snap stride s p = Ok (s2, c) ->
    arts s2 = arts s ++ [(cr_art c, v)] -> cr_seq c = pl_seq p -> cr_mid c = pl_mid p ->
    cuts_fed K snap stride s2 ps s' made ->
    cuts_fed K snap stride s (p :: ps) s' (c :: made).

Lemma run_cuts_fed K snap stride : forall ps s acc s' made,
  run_cuts K snap stride s ps acc = (s', made, None) ->
  exists new, made = acc ++ new /\ cuts_fed K snap stride s ps s' new.
Proof.
  induction ps as [|p ps IH]; intros s acc s' made H; cbn [run_cuts] in H.
  - injection H as <- <-. exists []. rewrite app_nil_r. split; [reflexivity | constructor].
  - destruct (run_cut K snap stride s p) as [[s2 c]|e] eqn:E; [|discriminate].
    destruct (IH _ _ _ _ H) as [new [-> Hf]].
    destruct (run_cut_writes_inputs K snap stride s p s2 c E) as [v [Hr [Ha [_ [Hs Hm]]]]].
    exists (c :: new). split; [rewrite <- app_assoc; reflexivity|].
    eapply cf_cons; eassumption.
Qed.

(* artifacts are only ever added by the loop: what a cut wrote is still readable at the end *)
Lemma cuts_fed_arts K snap stride s ps s' made :
  cuts_fed K snap stride s ps s' made -> exists extra, arts s' = arts s ++ extra.
Proof.
  induction 1 as [s | s p v s2 c ps s' made Hr Hc Ha Hs Hm Hf IH]; [exists []; rewrite app_nil_r; reflexivity|].
  destruct IH as [extra He]. exists ((cr_art c, v) :: extra). rewrite He, Ha, <- app_assoc. reflexivity.
Qed.

Lemma art_get_app_keep a m extra v : art_get a m = Some v -> art_get a (m ++ extra) = Some v.
Proof. apply art_get_app_some. Qed.

(* the created list names, cut by cut, a readable summary equal to the value read for that cut *)
Inductive fed_at (K : consts) (snap : list ev) (final : st) : list (list ev) -> list plan -> list created -> Prop :=
| fa_nil : fed_at K snap final [] [] []
| fa_cons cur curs p ps c made v s :
    log s = cur -> cut_read K snap s p = Ok v -> art_read final (cr_art c) = Some v ->
    cr_seq c = pl_seq p -> cr_mid c = pl_mid p ->
    fed_at K snap final curs ps made -> fed_at K snap final (cur :: curs) (p :: ps) (c :: made).

Lemma cuts_fed_at K snap stride s ps s' made :
  cuts_fed K snap stride s ps s' made ->
  forall final, (exists extra, arts final = arts s' ++ extra) ->
  exists curs, fed_at K snap final curs ps made /\ length curs = length ps
               /\ match curs with [] => True | cur :: _ => cur = log s end.
Proof.
  induction 1 as [s | s p v s2 c ps s' made Hr Hc Ha Hs Hm Hf IH]; intros final Hfin.
  - exists []. split; [constructor | split; [reflexivity | exact I]].
  - destruct (IH final Hfin) as [curs [Hfa [Hlen _]]].
    exists (log s :: curs). split; [|split; [cbn; lia | reflexivity]].
    eapply fa_cons with (s := s); try eassumption; [reflexivity|].
    destruct (cuts_fed_arts _ _ _ _ _ _ _ Hf) as [e1 He1]. destruct Hfin as [e2 He2].
    assert (Hall : arts final = (arts s ++ [(cr_art c, v)]) ++ (e1 ++ e2)).
    { rewrite He2, He1, Ha. rewrite <- (app_assoc _ e1 e2). reflexivity. }
    assert (Hg : art_get (cr_art c) (arts s ++ [(cr_art c, v)]) = Some v).
    { pose proof Hc as Hc2. apply run_cut_log in Hc2. destruct Hc2 as [v' [Hs2 [Hcc _]]]. rewrite Hcc. cbn [mk_created cr_art].
      rewrite Hcc in Ha. cbn [mk_created cr_art] in Ha.
      apply art_get_app_fresh. apply fresh_art_not_key. }
    unfold art_read. rewrite Hall, (art_get_app_some _ _ (e1 ++ e2) _ Hg).
    apply cut_read_covers in Hr. destruct Hr as [_ [_ [Hp _]]]. rewrite Hp. reflexivity.
Qed.

(* compaction_auto_v1, completed: with s1 = the stream right after job_spawned (the job's replay snapshot), the result
   lists, in ascending to_seq order of the plan, one created checkpoint per planned cut whose summary is readable at
   the end and equals cut_read of that cut on (snapshot s1, the stream at that moment); the first cut reads s1 itself *)
Theorem auto_summaries_fed K ostride omax odry s s' r :
  auto K ostride omax odry s = (s', Ok r) -> ar_status r = 2 ->
  exists j curs,
    ar_job r = Some j
    /\ fed_at K (log (append s (BJobSpawned j (ar_planned r) (ar_stride r)))) s' curs (plan_sort (ar_planned r)) (ar_result r)
    /\ length curs = length (plan_sort (ar_planned r))
    /\ match curs with [] => True | cur :: _ => cur = log (append s (BJobSpawned j (ar_planned r) (ar_stride r))) end.
Proof.
  unfold auto. destruct (opt_or ostride (k_default_stride K) =? 0); [discriminate|].
  set (stride := opt_or ostride (k_default_stride K)).
  set (maxnew := clamp (k_maxnew_lo K) (k_maxnew_hi K) (opt_or omax 1)).
  unfold auto_spawn. destruct (plan_cuts K stride maxnew (log s)) as [|p0 pr] eqn:Ep.
  - cbn [ar_job]. intros H. injection H as <- <-. cbn [ar_status]. discriminate.
  - destruct (opt_orb odry false).
    + cbn [ar_job]. intros H. injection H as <- <-. cbn [ar_status]. discriminate.
    + cbn [ar_job ar_planned ar_count]. unfold run_job.
      set (s1 := append s (BJobSpawned (fresh_job (log s)) (p0 :: pr) stride)).
      destruct (run_cuts K (log s1) stride s1 (plan_sort (p0 :: pr)) []) as [[sx made] err] eqn:Er.
      intros H. injection H as <- <-. cbn [ar_status ar_job ar_planned ar_stride ar_result].
      destruct err as [e|]; [discriminate|]. intros _.
      exists (fresh_job (log s)). destruct (run_cuts_fed K (log s1) stride _ _ _ _ _ Er) as [new [Hn Hf]].
      cbn [app] in Hn. subst made.
      destruct (cuts_fed_at K (log s1) stride s1 _ sx new Hf (append sx (BJobEnded (fresh_job (log s)) 0 new))) as [curs [Hfa [Hl Hh]]].
      { exists []. unfold append. cbn [arts]. rewrite app_nil_r. reflexivity. }
      exists curs. split; [reflexivity|]. split; [exact Hfa|]. split; [exact Hl | exact Hh].
Qed.

Lemma demo7_auto_completed :
  exists r, auto real_consts (Some 2) (Some 2) None demo7 = (demo7_after, Ok r) /\ ar_status r = 2
            /\ map cr_seq (ar_result r) = [5; 7].
Proof. vm_compute. eexists. split; [reflexivity|]. split; reflexivity. Qed.

(* ---------- … and in every interleaving: each summary written during a race is a cut_read value ---------- *)
Definition is_prefix {A} (a b : list A) : Prop := exists r, b = a ++ r.
Lemma prefix_refl {A} (a : list A) : is_prefix a a.
Proof. exists []. rewrite app_nil_r. reflexivity. Qed.
Lemma prefix_trans {A} (a b c : list A) : is_prefix a b -> is_prefix b c -> is_prefix a c.
Proof. intros [r ->] [q ->]. exists (r ++ q). rewrite app_assoc. reflexivity. Qed.
Lemma prefix_app {A} (a b : list A) : is_prefix a (a ++ b).
Proof. exists b. reflexivity. Qed.

(* v was read for cut p by a job whose snapshot is `snap`, at a moment `cur` of the race: snap is a prefix of that
   moment's stream, which is a prefix of stream l *)
Definition read_at (K : consts) (l : list ev) (snap : list ev) (p : plan) (v : summ) : Prop :=
  exists cur, is_prefix snap (log cur) /\ is_prefix (log cur) l /\ cut_read K snap cur p = Ok v.

Lemma read_at_mono K l fr snap p v : read_at K l snap p v -> read_at K (l ++ fr) snap p v.
Proof.
  intros [cur [H1 [H2 H3]]]. exists cur. split; [exact H1|]. split; [|exact H3].
  eapply prefix_trans; [exact H2 | apply prefix_app].
Qed.

Definition aF (K : consts) (l : list ev) (a : astate) : Prop :=
  match a with
  | ACut _ _ snap _ _ => is_prefix snap l
  | AWrite _ _ snap p v _ _ => is_prefix snap l /\ read_at K l snap p v
  | _ => True
  end.

Lemma aF_mono K l fr a : aF K l a -> aF K (l ++ fr) a.
Proof.
  destruct a; cbn [aF]; auto.
  - intros H. eapply prefix_trans; [exact H | apply prefix_app].
  - intros [H1 H2]. split; [eapply prefix_trans; [exact H1 | apply prefix_app] | apply read_at_mono, H2].
Qed.

(* the checkpoint frames of `new` reference readable summaries that were read that way *)
Definition fed_ckpts (K : consts) (s : st) (new : list ev) : Prop :=
  forall e r a ts tm, In e new -> ebody e = BCkpt r a ts (Some tm) ->
    exists snap p v, art_read s a = Some v /\ read_at K (log s) snap p v /\ pl_seq p = ts /\ pl_mid p = tm.

Lemma fed_ckpts_grow K s s' new :
  (exists fr, log s' = log s ++ fr) -> (forall a v, art_read s a = Some v -> art_read s' a = Some v) ->
  fed_ckpts K s new -> fed_ckpts K s' new.
Proof.
  intros [fr Hl] Ha H e r a ts tm Hin Hb. destruct (H e r a ts tm Hin Hb) as [snap [p [v [Hr [Hat [H1 H2]]]]]].
  exists snap, p, v. split; [apply Ha, Hr|]. split; [rewrite Hl; apply read_at_mono, Hat|]. split; assumption.
Qed.

Lemma fed_step K s a new :
  aF K (log s) a -> fed_ckpts K s new ->
  exists fr, log (fst (astep K s a)) = log s ++ fr /\ aF K (log s ++ fr) (snd (astep K s a))
             /\ fed_ckpts K (fst (astep K s a)) (new ++ fr).
Proof.
  intros Ha Hg.
  assert (Hread : forall a', aF K (log s) a' ->
            exists fr, log (fst (s, a')) = log s ++ fr /\ aF K (log s ++ fr) (snd (s, a')) /\ fed_ckpts K (fst (s, a')) (new ++ fr)).
  { intros a' Ha'. exists []. rewrite !app_nil_r. cbn [fst snd]. auto. }
  assert (Happ : forall b a', aF K (log s) a' -> (forall r x ts tm, b <> BCkpt r x ts (Some tm)) ->
            exists fr, log (fst (append s b, a')) = log s ++ fr /\ aF K (log s ++ fr) (snd (append s b, a'))
                       /\ fed_ckpts K (fst (append s b, a')) (new ++ fr)).
  { intros b a' Ha' Hb. eexists. cbn [fst snd]. split; [reflexivity|]. split; [apply aF_mono, Ha'|].
    intros e r x ts tm Hin Hbody. apply in_app_or in Hin. destruct Hin as [Hin|[<-|[]]].
    - revert e r x ts tm Hin Hbody. apply (fed_ckpts_grow K s (append s b) new); [eexists; reflexivity | auto | exact Hg].
    - cbn [ebody] in Hbody. exfalso. eapply Hb, Hbody. }
  destruct a; unfold astep; cbn [astep_gen].
  - destruct (c_sched c); [destruct (plan_cuts K (c_stride c) (c_maxnew c) (log s))|]; apply Hread; exact I.
  - destruct (if c_block c then find_inflight K (log s) else None); apply Hread; exact I.
  - apply Happ; [exact I | discriminate].
  - destruct (plan_cuts K (c_stride c) (c_maxnew c) (log s)); apply Hread; exact I.
  - destruct (c_sched c); (apply Happ; [exact I | discriminate]).
  - destruct (c_exec c); (apply Happ; [exact I | discriminate]).
  - apply Hread. cbn [aF]. apply prefix_refl.
  - cbn [aF] in Ha. destruct todo as [|p rest]; [apply Hread; exact I|].
    destruct (cut_read K snap s p) as [v|e] eqn:E; apply Hread; [|exact I].
    cbn [aF]. split; [exact Ha|]. exists s. split; [exact Ha|]. split; [apply prefix_refl | exact E].
  - (* AWrite *)
    cbn [aF] in Ha. destruct Ha as [Hpre Hat]. cbv beta iota zeta delta [put_art]. cbn [fst snd].
    eexists. split; [reflexivity|]. split; [cbn [aF]; eapply prefix_trans; [exact Hpre | apply prefix_app]|].
    set (s1 := {| log := log s; arts := arts s ++ [(fresh_art s, v)] |}).
    assert (Hkeep : forall a w, art_read s a = Some w -> art_read (append s1 (BCkpt (rule_stride (c_stride c)) (fresh_art s) (pl_seq p) (Some (pl_mid p)))) a = Some w).
    { intros a w Hw. unfold art_read in *. unfold append, s1. cbn [arts].
      destruct (art_get a (arts s)) as [w'|] eqn:Ew; [|discriminate].
      rewrite (art_get_app_some a (arts s) _ w' Ew). exact Hw. }
    intros e r x ts tm Hin Hb. apply in_app_or in Hin. destruct Hin as [Hin|[<-|[]]].
    + revert e r x ts tm Hin Hb.
      apply (fed_ckpts_grow K s _ new); [eexists; unfold append, s1; cbn [log]; reflexivity | exact Hkeep | exact Hg].
    + cbn [ebody] in Hb. injection Hb as _ <- <- <-. exists snap, p, v.
      split; [|split; [apply (read_at_mono K (log s) _ snap p v Hat) | split; reflexivity]].
      destruct Hat as [cur [_ [_ Hr]]]. apply cut_read_covers in Hr. destruct Hr as [_ [_ [H3 _]]].
      unfold art_read, append, s1. cbn [arts]. rewrite art_get_app_fresh by (apply fresh_art_not_key). rewrite H3. reflexivity.
  - apply Happ; [exact I | discriminate].
  - apply Hread. destruct ms; exact I.
  - destruct ms as [|[ac co] rest]; [apply Hread; exact I|]. apply Happ; [destruct rest; exact I | discriminate].
  - apply Hread. exact I.
Qed.

Definition fed_ok (K : consts) (s0 s : st) (acts : list astate) : Prop :=
  Forall (aF K (log s)) acts /\ exists new, log s = log s0 ++ new /\ fed_ckpts K s new.

Lemma fed_ok_step K s0 s pre a post :
  fed_ok K s0 s (pre ++ a :: post) -> fed_ok K s0 (fst (astep K s a)) (pre ++ snd (astep K s a) :: post).
Proof.
  intros [Hf [new [Hl Hg]]]. apply Forall_app in Hf. destruct Hf as [Hpre Hf]. inversion Hf as [|a0 l0 Ha Hpost]; subst.
  destruct (fed_step K s a new Ha Hg) as [fr [Hl' [Ha' Hg']]]. split.
  - rewrite Hl'. apply Forall_app. split; [|constructor; [exact Ha'|]].
    + eapply Forall_impl; [|exact Hpre]. intros x. apply aF_mono.
    + eapply Forall_impl; [|exact Hpost]. intros x. apply aF_mono.
  - exists (new ++ fr). split; [rewrite Hl', Hl, app_assoc; reflexivity | exact Hg'].
Qed.

Theorem fed_ok_steps K s0 x y : sys_steps K x y -> fed_ok K s0 (fst x) (snd x) -> fed_ok K s0 (fst y) (snd y).
Proof.
  induction 1 as [|x y z H1 H2 IH]; intros H; [exact H|]. apply IH. destruct H1. cbn [fst snd] in *.
  apply fed_ok_step, H.
Qed.

(* every interleaving of calls and message appenders: every checkpoint frame appended during the race references a
   readable summary that is `cut_read K snap cur p` for the frame's cut p = (to_seq, to_message_id), the snapshot `snap`
   of the job that wrote it and a moment `cur` of the race (snap a prefix of cur's stream, that a prefix of the final one) *)
Theorem concurrent_summaries_fed K s calls s' acts' :
  sys_steps K (s, map start_of calls) (s', acts') ->
  exists new, log s' = log s ++ new /\ fed_ckpts K s' new.
Proof.
  intros H. apply (fed_ok_steps K s _ _ H). cbn [fst snd]. split.
  - clear H. induction calls as [|c r IH]; [constructor|]. constructor; [destruct c; exact I | exact IH].
  - exists []. rewrite app_nil_r. split; [reflexivity|]. intros e r a ts tm [].
Qed.

(* the hypotheses of c09_summary_feeds pass to prefixes *)
Lemma prefix_summary_hyps (a b : list ev) :
  is_prefix a b -> valid b -> Forall (fun c => ck_to c <> 0) (ckpts b) ->
  msorted a /\ Forall (fun c => ck_to c <> 0) (ckpts a).
Proof.
  intros [r ->] Hv Hc. split.
  - apply valid_msgs_sorted. unfold valid in *. rewrite map_app in Hv.
    clear Hc. induction (map eseq a) as [|x l IH]; [constructor|]. cbn [app] in Hv. inversion Hv as [|y l' Hs Hx]; subst.
    constructor; [apply IH, Hs|]. apply Forall_app in Hx. apply Hx.
  - rewrite ckpts_app in Hc. apply Forall_app in Hc. apply Hc.
Qed.

(* capstone: from any state the modelled operations reach on a fresh thread, through any interleaving: every checkpoint
   frame appended during the race references a readable summary v = cut_read K snap cur p with p the frame's cut, and
   (snap, cur) meet the hypotheses of c09_summary_feeds — so v's base, note, slice and coverage are what that theorem says *)
Theorem concurrent_summary_feeds K ops calls s' acts' :
  sys_steps K (fst (run_ops K st0 ops []), map start_of calls) (s', acts') ->
  exists new, log s' = log (fst (run_ops K st0 ops [])) ++ new
    /\ forall e r a ts tm, In e new -> ebody e = BCkpt r a ts (Some tm) ->
       exists snap cur p v,
         art_read s' a = Some v /\ cut_read K snap cur p = Ok v /\ pl_seq p = ts /\ pl_mid p = tm
         /\ is_prefix snap (log cur) /\ is_prefix (log cur) (log s')
         /\ msorted snap /\ Forall (fun c => ck_to c <> 0) (ckpts snap).
Proof.
  intros H. destruct (concurrent_summaries_fed K _ calls s' acts' H) as [new [Hl Hf]].
  destruct (concurrent_summary_hyps K ops calls s' acts' H) as [_ Hck].
  assert (Hv : valid (log s')).
  { apply (valid_steps K _ _ H). cbn [fst]. apply (reachable_valid K ops st0 []), valid_st0. }
  exists new. split; [exact Hl|]. intros e r a ts tm Hin Hb.
  destruct (Hf e r a ts tm Hin Hb) as [snap [p [v [Hr [[cur [H1 [H2 H3]]] [Hs Hm]]]]]].
  exists snap, cur, p, v. split; [exact Hr|]. split; [exact H3|]. split; [exact Hs|]. split; [exact Hm|].
  split; [exact H1|]. split; [exact H2|].
  apply (prefix_summary_hyps snap (log s')); [eapply prefix_trans; eassumption | exact Hv | exact Hck].
Qed.

(* non-vacuity: the race of CompactionProofs (two schedule calls, both checkpoint cut 2) is such an interleaving *)
Lemma race_is_interleaving :
  sys_steps real_consts (fst (run_ops real_consts st0 [OMsg 0 1; OMsg 1 2] []), map start_of [SCall race_call; SCall race_call])
            (run_sched real_consts race_state [AStart race_call; AStart race_call] [0; 1; 0; 1; 0; 0; 0; 0; 1; 1; 1; 1])
  /\ map ck_to (ckpts (log race_end)) = [2; 2].
Proof. split; [apply (run_sched_steps real_consts _ race_state) | vm_compute; reflexivity]. Qed.

(* ---------- observed (faithful, not a violation): beyond the scan window the job's later cuts use the snapshot ----------
   3 checkpoint frames for cut 2 and a scan window of 2 frames (small_window; 10 000 in the code): the bounded look-up
   refuses, the base of every planned cut comes from the job's replay snapshot, which does not hold the checkpoint the
   job has just written for cut 4 — the summary of cut 6 is built on the summary of cut 2 out of messages 3..6 (it still
   covers the thread up to its cut exactly once).  Inside the window it is built on the summary of cut 4 out of 5, 6. *)
Definition quirk_manual (q : N) : op :=
  OManual {| mr_md := Some 0; mr_art := None; mr_to_mid := None; mr_to_seq := Some q; mr_stride := None |}.
Definition quirk_ops : list op :=
  [OMsg 0 1; OMsg 1 2; quirk_manual 2; quirk_manual 2; quirk_manual 2; OMsg 0 3; OMsg 1 4; OMsg 0 5; OMsg 1 6].
Definition summ_view (s : st) : list (N * N * option N * bool * list (N * N)) :=
  map (fun kv => (fst kv, su_to_seq (snd kv), su_base (snd kv), su_base_used (snd kv), su_slice (snd kv))) (arts s).
Lemma beyond_window_observed :
  skipn 3 (summ_view (fst (auto small_window (Some 2) (Some 2) None (fst (run_ops small_window st0 quirk_ops [])))))
  = [(4, 7, Some 3, true, [(0, 3); (1, 4)]); (5, 9, Some 3, true, [(0, 3); (1, 4); (0, 5); (1, 6)])]
  /\ skipn 3 (summ_view (fst (auto real_consts (Some 2) (Some 2) None (fst (run_ops real_consts st0 quirk_ops [])))))
     = [(4, 7, Some 3, true, [(0, 3); (1, 4)]); (5, 9, Some 4, true, [(0, 5); (1, 6)])].
Proof. split; vm_compute; reflexivity. Qed.
