(* Lemmas about Base/Utf8.v: the validation step is decided by a bounded look-ahead and stable under
   extension of the input; hence lossy decoding with carry-over composes over concatenation. *)
From RipV Require Import Base.Prelude Base.Utf8.

Lemma step_char_len bs cp w : step bs = UChar cp w -> (1 <= w <= length bs)%nat.
Proof.
  unfold step. destruct bs as [|b0 r]; [discriminate|].
  destruct (b0 <? 128); [intros H; inversion H; cbn; lia|].
  destruct (width b0 =? 2).
  { destruct r as [|b1 r]; [discriminate|]. destruct (is_cont b1); intros H; inversion H; cbn; lia. }
  destruct (width b0 =? 3).
  { destruct r as [|b1 r]; [discriminate|]. destruct (ok3 b0 b1); [|discriminate].
    destruct r as [|b2 r]; [discriminate|]. destruct (is_cont b2); intros H; inversion H; cbn; lia. }
  destruct (width b0 =? 4).
  { destruct r as [|b1 r]; [discriminate|]. destruct (ok4 b0 b1); [|discriminate].
    destruct r as [|b2 r]; [discriminate|]. destruct (is_cont b2); [|discriminate].
    destruct r as [|b3 r]; [discriminate|]. destruct (is_cont b3); intros H; inversion H; cbn; lia. }
  discriminate.
Qed.

Lemma step_invalid_len bs k : step bs = UInvalid k -> (1 <= k <= length bs)%nat.
Proof.
  unfold step. destruct bs as [|b0 r]; [discriminate|].
  destruct (b0 <? 128); [discriminate|].
  destruct (width b0 =? 2).
  { destruct r as [|b1 r]; [discriminate|]. destruct (is_cont b1); intros H; inversion H; cbn; lia. }
  destruct (width b0 =? 3).
  { destruct r as [|b1 r]; [discriminate|]. destruct (ok3 b0 b1).
    - destruct r as [|b2 r]; [discriminate|]. destruct (is_cont b2); intros H; inversion H; cbn; lia.
    - intros H; inversion H; cbn; lia. }
  destruct (width b0 =? 4).
  { destruct r as [|b1 r]; [discriminate|]. destruct (ok4 b0 b1).
    - destruct r as [|b2 r]; [discriminate|]. destruct (is_cont b2).
      + destruct r as [|b3 r]; [discriminate|]. destruct (is_cont b3); intros H; inversion H; cbn; lia.
      + intros H; inversion H; cbn; lia.
    - intros H; inversion H; cbn; lia. }
  intros H; inversion H; cbn; lia.
Qed.

(* a decided step (character or invalid prefix) does not change when more input arrives *)
Lemma step_ext a b : step a <> UIncomplete -> step a <> UEof -> step (a ++ b) = step a.
Proof.
  unfold step. destruct a as [|b0 r]; [congruence|]. cbn [app].
  destruct (b0 <? 128); [reflexivity|].
  destruct (width b0 =? 2).
  { destruct r as [|b1 r]; [congruence|]. reflexivity. }
  destruct (width b0 =? 3).
  { destruct r as [|b1 r]; [congruence|]. cbn [app]. destruct (ok3 b0 b1); [|reflexivity].
    destruct r as [|b2 r]; [congruence|]. reflexivity. }
  destruct (width b0 =? 4).
  { destruct r as [|b1 r]; [congruence|]. cbn [app]. destruct (ok4 b0 b1); [|reflexivity].
    destruct r as [|b2 r]; [congruence|]. cbn [app]. destruct (is_cont b2); [|reflexivity].
    destruct r as [|b3 r]; [congruence|]. reflexivity. }
  reflexivity.
Qed.

Lemma step_eof bs : step bs = UEof -> bs = [].
Proof.
  unfold step. destruct bs as [|b0 r]; [reflexivity|].
  destruct (b0 <? 128); [discriminate|].
  destruct (width b0 =? 2). { destruct r as [|b1 r]; [discriminate|]. destruct (is_cont b1); discriminate. }
  destruct (width b0 =? 3).
  { destruct r as [|b1 r]; [discriminate|]. destruct (ok3 b0 b1); [|discriminate].
    destruct r as [|b2 r]; [discriminate|]. destruct (is_cont b2); discriminate. }
  destruct (width b0 =? 4).
  { destruct r as [|b1 r]; [discriminate|]. destruct (ok4 b0 b1); [|discriminate].
    destruct r as [|b2 r]; [discriminate|]. destruct (is_cont b2); [|discriminate].
    destruct r as [|b3 r]; [discriminate|]. destruct (is_cont b3); discriminate. }
  discriminate.
Qed.

(* an incomplete sequence is shorter than four bytes *)
Lemma step_incomplete_len bs : step bs = UIncomplete -> (1 <= length bs <= 3)%nat.
Proof.
  unfold step. destruct bs as [|b0 r]; [discriminate|].
  destruct (b0 <? 128); [discriminate|].
  destruct (width b0 =? 2). { destruct r as [|b1 r]; [cbn; lia|]. destruct (is_cont b1); discriminate. }
  destruct (width b0 =? 3).
  { destruct r as [|b1 r]; [cbn; lia|]. destruct (ok3 b0 b1); [|discriminate].
    destruct r as [|b2 r]; [cbn; lia|]. destruct (is_cont b2); discriminate. }
  destruct (width b0 =? 4).
  { destruct r as [|b1 r]; [cbn; lia|]. destruct (ok4 b0 b1); [|discriminate].
    destruct r as [|b2 r]; [cbn; lia|]. destruct (is_cont b2); [|discriminate].
    destruct r as [|b3 r]; [cbn; lia|]. destruct (is_cont b3); discriminate. }
  discriminate.
Qed.

Lemma skipn_app_le {A} n (a b : list A) : (n <= length a)%nat -> skipn n (a ++ b) = skipn n a ++ b.
Proof. intros H. rewrite skipn_app. replace (n - length a)%nat with 0%nat by lia. reflexivity. Qed.

Lemma skipn_skipn' {A} a : forall b (l : list A), skipn a (skipn b l) = skipn (b + a) l.
Proof.
  intros b; induction b as [|b IH]; intros l; [reflexivity|].
  destruct l as [|x l]; [cbn; destruct a; reflexivity|]. cbn [skipn Nat.add]. apply IH.
Qed.

(* ---------- fuel irrelevance ---------- *)
Lemma lossy_fuel f1 : forall f2 bs, (length bs < f1)%nat -> (length bs < f2)%nat -> lossy f1 bs = lossy f2 bs.
Proof.
  induction f1 as [|f1 IH]; intros f2 bs H1 H2; [lia|].
  destruct f2 as [|f2]; [lia|]. cbn [lossy].
  destruct (step bs) eqn:E; try reflexivity.
  - pose proof (step_char_len _ _ _ E) as L.
    rewrite (IH f2); [reflexivity| |]; rewrite skipn_length; lia.
  - pose proof (step_invalid_len _ _ E) as L.
    rewrite (IH f2); [reflexivity| |]; rewrite skipn_length; lia.
Qed.

Lemma scan_fuel f1 : forall f2 bs, (length bs < f1)%nat -> (length bs < f2)%nat -> scan f1 bs = scan f2 bs.
Proof.
  induction f1 as [|f1 IH]; intros f2 bs H1 H2; [lia|].
  destruct f2 as [|f2]; [lia|]. cbn [scan].
  destruct (step bs) eqn:E; try reflexivity.
  pose proof (step_char_len _ _ _ E) as L.
  rewrite (IH f2); [reflexivity| |]; rewrite skipn_length; lia.
Qed.

Definition lossyF (bs : list N) : list N * list N := lossy (S (length bs)) bs.

Lemma lossyF_unfold bs :
  lossyF bs = match step bs with
              | UEof => ([], [])
              | UChar cp w => let '(t, r) := lossyF (skipn w bs) in (cp :: t, r)
              | UInvalid k => let '(t, r) := lossyF (skipn k bs) in (FFFD :: t, r)
              | UIncomplete => ([], bs)
              end.
Proof.
  unfold lossyF at 1. cbn [lossy]. destruct (step bs) eqn:E; try reflexivity.
  - pose proof (step_char_len _ _ _ E) as L. unfold lossyF.
    rewrite (lossy_fuel (length bs) (S (length (skipn w bs)))); [reflexivity| |]; rewrite ?skipn_length; lia.
  - pose proof (step_invalid_len _ _ E) as L. unfold lossyF.
    rewrite (lossy_fuel (length bs) (S (length (skipn k bs)))); [reflexivity| |]; rewrite ?skipn_length; lia.
Qed.

(* ---------- the carry-over law: decoding a ++ b = decoding a, then decoding (carry-over of a) ++ b ---------- *)
Lemma lossyF_app_aux n : forall a b, (length a <= n)%nat ->
  lossyF (a ++ b) = let '(t1, r1) := lossyF a in let '(t2, r2) := lossyF (r1 ++ b) in (t1 ++ t2, r2).
Proof.
  induction n as [|n IH]; intros a b Hn.
  - destruct a; [|cbn in Hn; lia]. rewrite (lossyF_unfold []). cbn [step app].
    destruct (lossyF b); reflexivity.
  - rewrite (lossyF_unfold a). destruct (step a) eqn:E.
    + apply step_eof in E. subst a. cbn [app]. destruct (lossyF b); reflexivity.
    + pose proof (step_char_len _ _ _ E) as L.
      rewrite (lossyF_unfold (a ++ b)), step_ext, E by congruence.
      rewrite skipn_app_le by lia. rewrite IH by (rewrite skipn_length; lia).
      destruct (lossyF (skipn w a)) as [t1 r1]. destruct (lossyF (r1 ++ b)) as [t2 r2]. reflexivity.
    + pose proof (step_invalid_len _ _ E) as L.
      rewrite (lossyF_unfold (a ++ b)), step_ext, E by congruence.
      rewrite skipn_app_le by lia. rewrite IH by (rewrite skipn_length; lia).
      destruct (lossyF (skipn k a)) as [t1 r1]. destruct (lossyF (r1 ++ b)) as [t2 r2]. reflexivity.
    + cbn [app]. destruct (lossyF (a ++ b)); reflexivity.
Qed.

Lemma lossyF_app a b :
  lossyF (a ++ b) = let '(t1, r1) := lossyF a in let '(t2, r2) := lossyF (r1 ++ b) in (t1 ++ t2, r2).
Proof. apply (lossyF_app_aux (length a)). lia. Qed.

(* the carry-over is an incomplete sequence (or empty): decoding it alone yields nothing *)
Lemma lossyF_rest_idem_aux n : forall bs, (length bs <= n)%nat -> lossyF (snd (lossyF bs)) = ([], snd (lossyF bs)).
Proof.
  induction n as [|n IH]; intros bs Hn.
  - destruct bs; [|cbn in Hn; lia]. reflexivity.
  - rewrite (lossyF_unfold bs). destruct (step bs) eqn:E.
    + reflexivity.
    + pose proof (step_char_len _ _ _ E) as L.
      specialize (IH (skipn w bs)). rewrite skipn_length in IH.
      destruct (lossyF (skipn w bs)) as [t r]. cbn [snd] in *. apply IH. lia.
    + pose proof (step_invalid_len _ _ E) as L.
      specialize (IH (skipn k bs)). rewrite skipn_length in IH.
      destruct (lossyF (skipn k bs)) as [t r]. cbn [snd] in *. apply IH. lia.
    + cbn [snd]. rewrite lossyF_unfold, E. reflexivity.
Qed.
Lemma lossyF_rest_idem bs : lossyF (snd (lossyF bs)) = ([], snd (lossyF bs)).
Proof. apply (lossyF_rest_idem_aux (length bs)). lia. Qed.

Lemma lossy_rest_short_aux n : forall bs, (length bs <= n)%nat -> (length (snd (lossyF bs)) <= 3)%nat.
Proof.
  induction n as [|n IH]; intros bs Hn.
  - destruct bs; [|cbn in Hn; lia]. cbn. lia.
  - rewrite (lossyF_unfold bs). destruct (step bs) eqn:E.
    + cbn. lia.
    + pose proof (step_char_len _ _ _ E) as L. specialize (IH (skipn w bs)). rewrite skipn_length in IH.
      destruct (lossyF (skipn w bs)). cbn [snd] in *. apply IH. lia.
    + pose proof (step_invalid_len _ _ E) as L. specialize (IH (skipn k bs)). rewrite skipn_length in IH.
      destruct (lossyF (skipn k bs)). cbn [snd] in *. apply IH. lia.
    + cbn [snd]. apply step_incomplete_len in E. lia.
Qed.
Lemma lossy_rest_short bs : (length (lossy_rest bs) <= 3)%nat.
Proof. apply (lossy_rest_short_aux (length bs)). lia. Qed.

(* ---------- from_utf8 in terms of the lossy decoder ---------- *)
Definition scanF (bs : list N) : ures := scan (S (length bs)) bs.
Lemma scanF_unfold bs :
  scanF bs = match step bs with
             | UEof => UOk []
             | UChar cp w => match scanF (skipn w bs) with
                             | UOk c => UOk (cp :: c)
                             | UErr c v r e => UErr (cp :: c) (w + v) r e
                             end
             | UInvalid k => UErr [] 0 bs (Some k)
             | UIncomplete => UErr [] 0 bs None
             end.
Proof.
  unfold scanF at 1. cbn [scan]. destruct (step bs) eqn:E; try reflexivity.
  pose proof (step_char_len _ _ _ E) as L. unfold scanF.
  rewrite (scan_fuel (length bs) (S (length (skipn w bs)))); [reflexivity| |]; rewrite ?skipn_length; lia.
Qed.

(* Ok: the whole input decodes, nothing is carried over.
   Err: the valid prefix decodes to cps, `rest` is the input from valid_up_to on, its head step is
   the reported error, and valid_up_to = 0 iff no character was decoded. *)
Lemma scanF_spec_aux n : forall bs, (length bs <= n)%nat ->
  match scanF bs with
  | UOk c => lossyF bs = (c, [])
  | UErr c v r e =>
      r = skipn v bs /\ (v <= length bs)%nat /\ (v = 0%nat <-> c = []) /\
      (step r = match e with Some k => UInvalid k | None => UIncomplete end) /\
      lossyF bs = (c ++ fst (lossyF r), snd (lossyF r))
  end.
Proof.
  induction n as [|n IH]; intros bs Hn.
  - destruct bs; [|cbn in Hn; lia]. reflexivity.
  - rewrite (scanF_unfold bs), (lossyF_unfold bs). destruct (step bs) eqn:E.
    + reflexivity.
    + pose proof (step_char_len _ _ _ E) as L.
      specialize (IH (skipn w bs)). rewrite skipn_length in IH. specialize (IH ltac:(lia)).
      destruct (scanF (skipn w bs)) as [c|c v r e].
      * rewrite IH. reflexivity.
      * destruct IH as (Hr & Hv & Hz & Hs & Hl). rewrite Hl.
        repeat split; try (intros; try lia; discriminate).
        -- rewrite Hr, skipn_skipn'. reflexivity.
        -- exact Hs.
    + cbn [skipn]. repeat split; try reflexivity; try lia. { exact E. }
      rewrite (lossyF_unfold bs), E. destruct (lossyF (skipn k bs)); reflexivity.
    + cbn [skipn]. repeat split; try reflexivity; try lia. { exact E. }
      rewrite (lossyF_unfold bs), E. reflexivity.
Qed.
Lemma scanF_spec bs :
  match from_utf8 bs with
  | UOk c => lossyF bs = (c, [])
  | UErr c v r e =>
      r = skipn v bs /\ (v <= length bs)%nat /\ (v = 0%nat <-> c = []) /\
      (step r = match e with Some k => UInvalid k | None => UIncomplete end) /\
      lossyF bs = (c ++ fst (lossyF r), snd (lossyF r))
  end.
Proof. apply (scanF_spec_aux (length bs)). lia. Qed.

(* ---------- encoder round trip: from_utf8 accepts exactly what encode_cp produces ---------- *)
Lemma width2 b : 194 <= b -> b <= 223 -> width b = 2.
Proof. intros. unfold width. replace ((194 <=? b) && (b <=? 223)) with true by lia. reflexivity. Qed.
Lemma width3 b : 224 <= b -> b <= 239 -> width b = 3.
Proof.
  intros. unfold width. replace ((194 <=? b) && (b <=? 223)) with false by lia.
  replace ((224 <=? b) && (b <=? 239)) with true by lia. reflexivity.
Qed.
Lemma width4 b : 240 <= b -> b <= 244 -> width b = 4.
Proof.
  intros. unfold width. replace ((194 <=? b) && (b <=? 223)) with false by lia.
  replace ((224 <=? b) && (b <=? 239)) with false by lia.
  replace ((240 <=? b) && (b <=? 244)) with true by lia. reflexivity.
Qed.

Lemma step_encode c r : is_scalar c = true -> step (encode_cp c ++ r) = UChar c (length (encode_cp c)).
Proof.
  unfold is_scalar, encode_cp, step. intros H.
  destruct (c <? 128) eqn:E1.
  { cbn [app]. rewrite E1. reflexivity. }
  destruct (c <? 2048) eqn:E2.
  { cbn [app length].
    assert (A: 192 + c / 64 <? 128 = false) by lia. rewrite A.
    rewrite width2 by lia. change (2 =? 2) with true. cbv iota.
    assert (C: is_cont (128 + c mod 64) = true) by (unfold is_cont; lia). rewrite C.
    f_equal. lia. }
  destruct (c <? 65536) eqn:E3.
  { cbn [app length].
    assert (A: 224 + c / 4096 <? 128 = false) by lia. rewrite A.
    rewrite width3 by lia. change (3 =? 2) with false. change (3 =? 3) with true. cbv iota.
    assert (O: ok3 (224 + c / 4096) (128 + (c / 64) mod 64) = true) by (unfold ok3, is_cont; lia). rewrite O.
    assert (C: is_cont (128 + c mod 64) = true) by (unfold is_cont; lia). rewrite C.
    f_equal. lia. }
  cbn [app length].
  assert (A: 240 + c / 262144 <? 128 = false) by lia. rewrite A.
  rewrite width4 by lia. change (4 =? 2) with false. change (4 =? 3) with false. change (4 =? 4) with true. cbv iota.
  assert (O: ok4 (240 + c / 262144) (128 + (c / 4096) mod 64) = true) by (unfold ok4, is_cont; lia). rewrite O.
  assert (C2: is_cont (128 + (c / 64) mod 64) = true) by (unfold is_cont; lia). rewrite C2.
  assert (C3: is_cont (128 + c mod 64) = true) by (unfold is_cont; lia). rewrite C3.
  f_equal. lia.
Qed.

Definition encode (s : list N) : list N := concat (map encode_cp s).

Lemma encode_cp_len c : (1 <= length (encode_cp c))%nat.
Proof. unfold encode_cp. destruct (c <? 128), (c <? 2048), (c <? 65536); cbn; lia. Qed.

Lemma lossy_encode s : forallb is_scalar s = true -> lossyF (encode s) = (s, []).
Proof.
  induction s as [|c s IH]; intros H; [reflexivity|].
  cbn [forallb] in H. apply andb_true_iff in H. destruct H as [Hc Hs].
  unfold encode. cbn [map concat]. rewrite lossyF_unfold, step_encode by exact Hc.
  rewrite skipn_app_le by lia. rewrite skipn_all. cbn [app].
  fold (encode s). rewrite IH by exact Hs. reflexivity.
Qed.
