(* C18 — the two models of the client attach loop agree on one iteration: Model/Authority.v (DClient: program counters, one
   file-system operation per step, the timer an environment bit) and Model/AuthorityGrace.v (client_poll: one iteration as a
   function of what it sees, the timer a state machine).  The interleaving theorems speak about the first, the grace-timer
   theorems about the second; the real loop is compared with both. *)
From RipV Require Import Base.Prelude Model.Authority Model.AuthorityGrace Proofs.AuthorityInv Proofs.AuthorityLive Proofs.AuthorityGraceProofs.

(* ------------------------------------------------------------------ the two models of the client loop agree *)
Definition lockf_of (l : option lfile) : lockf :=
  match l with None => LAbsent | Some f => if lf_written f then LRec (lf_owner f) else LHalf (lf_owner f) end.
Definition obits (reach fire : bool) : N :=
  match reach, fire with true, true => 3 | true, false => 1 | false, true => 2 | false, false => 0 end.

Ltac bits :=
  change (o_reach 0) with false; change (o_reach 1) with true; change (o_reach 2) with false; change (o_reach 3) with true;
  change (o_grace 0) with false; change (o_grace 1) with false; change (o_grace 2) with true; change (o_grace 3) with true;
  change (o_deadline 0) with false; change (o_deadline 1) with false; change (o_deadline 2) with false; change (o_deadline 3) with false.

Ltac bstep :=
  cbn [solo micro ret client_next goto set_files p_pc p_pid p_guard p_drv p_alive s_lock s_meta s_tmp s_procs
       s_took_lock s_took_meta mkst cli lock_pid meta_pid orb andb negb res_code lock_code meta_code b2n obits];
  unfold takes, grace_fires; bits;
  repeat match goal with
  | H : pid_alive _ _ = _ |- _ => rewrite H
  | H : (_ =? _) = _ |- _ => rewrite H
  end;
  rewrite ?N.eqb_refl, ?andb_false_r, ?andb_true_r, ?orb_false_r;
  cbn [negb andb orb].

Ltac try_n k := (exists k; eexists; split; [lia | do 10 bstep; reflexivity]).

Lemma client_models_agree g ps me last st p :
  pi_vanish p = false ->
  (snd (timer g (cs_since st) (pi_now p) (poll_seen p)) = true ->
     forall f, pi_lock p = Some f -> pid_alive ps (lf_owner f) = false) ->
  exists n last', (n <= 12)%nat /\
    solo n (obits (pi_reach p) (snd (timer g (cs_since st) (pi_now p) (poll_seen p))))
         (mkst (lockf_of (pi_lock p)) (pi_meta p) MAbsent ps) (cli me RdMeta last)
    = (mkst (lockf_of (po_lock (client_poll g (pid_alive ps) st p))) (po_meta (client_poll g (pid_alive ps) st p)) MAbsent ps,
       cli me (match po_act (client_poll g (pid_alive ps) st p) with AOk => Done | _ => RdMeta end) last').
Proof.
  intros Hv Hag. unfold client_poll.
  destruct (timer g (cs_since st) (pi_now p) (poll_seen p)) as [s1 fire] eqn:Et. cbn [snd] in *.
  assert (Hnf : poll_seen p <> SInvalid -> fire = false).
  { intros Hn. destruct (poll_seen p); cbn [timer] in Et; inversion Et; try reflexivity. congruence. }
  unfold poll_seen in *. unfold may_spawn. rewrite Hv in *.
  destruct p as [now l m reach van]. cbn [pi_now pi_lock pi_meta pi_reach pi_vanish] in *.
  destruct m as [|mp].
  - destruct l as [[inst owner written]|].
    + specialize (Hag).
      destruct written; cbn [lf_written lf_owner lockf_of] in *.
      * rewrite (Hnf ltac:(congruence)). destruct (pid_alive ps owner) eqn:Eo.
        -- destruct reach; cbn [po_lock po_meta po_act lockf_of lf_written lf_owner]; first [try_n 4%nat].
        -- unfold stale_effect. cbn [lf_written lf_owner andb]. rewrite N.eqb_refl. cbn [andb].
           destruct reach; cbn [po_lock po_meta po_act lockf_of]; first [try_n 8%nat].
      * destruct fire.
        -- pose proof (Hag eq_refl _ eq_refl) as Eo. cbn [lf_owner] in Eo.
           unfold corrupt_effect. destruct reach; cbn [po_lock po_meta po_act lockf_of]; first [try_n 6%nat].
        -- destruct reach; cbn [po_lock po_meta po_act lockf_of lf_written lf_owner]; first [try_n 3%nat].
    + rewrite (Hnf ltac:(congruence)).
      destruct (cs_spawned st) as [t|]; [destruct (cooldown_ms <? now - t)|];
        destruct reach; cbn [po_lock po_meta po_act lockf_of]; first [try_n 2%nat].
  - rewrite (Hnf ltac:(congruence)).
    destruct reach; [cbn [po_lock po_meta po_act]; try_n 2%nat|].
    destruct (pid_alive ps mp) eqn:Em; [cbn [po_lock po_meta po_act]; try_n 3%nat|].
    destruct l as [[inst owner written]|].
    + unfold stale_effect. cbn [lf_written lf_owner lockf_of].
      destruct written; cbn [andb].
      * destruct (owner =? mp) eqn:Eom; cbn [po_lock po_meta po_act lockf_of].
        -- apply N.eqb_eq in Eom. subst owner. rewrite N.eqb_refl. cbn [lockf_of]. try_n 9%nat.
        -- try_n 6%nat.
      * cbn [po_lock po_meta po_act lockf_of lf_written lf_owner]. try_n 6%nat.
    + destruct (cs_spawned st) as [t|]; [destruct (cooldown_ms <? now - t)|];
        cbn [po_lock po_meta po_act lockf_of]; try_n 4%nat.
Qed.
