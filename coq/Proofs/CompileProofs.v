(* C08 — proofs about Model/Compile.v *)
From RipV Require Import Base.Prelude Model.Compile.

(* ------------------------------------------------------------------ generic list lemmas *)
Lemma filter_rev' {A} (p : A -> bool) (l : list A) : filter p (rev l) = rev (filter p l).
Proof.
  induction l as [|x l IH]; [reflexivity|].
  cbn [rev filter]. rewrite filter_app, IH. cbn [filter].
  destruct (p x); cbn [rev]; [reflexivity | now rewrite app_nil_r].
Qed.

Lemma find_app' {A} (p : A -> bool) (a b : list A) :
  find p (a ++ b) = match find p a with Some x => Some x | None => find p b end.
Proof. induction a as [|x a IH]; [reflexivity|]. cbn [app find]. destruct (p x); auto. Qed.

Lemma filter_ext' {A} (p q : A -> bool) (l : list A) :
  (forall x, p x = q x) -> filter p l = filter q l.
Proof. intros E. induction l as [|x l IH]; [reflexivity|]. cbn [filter]. now rewrite E, IH. Qed.

Lemma filter_filter_implied {A} (p k : A -> bool) (l : list A) :
  (forall x, p x = true -> k x = true) -> filter p (filter k l) = filter p l.
Proof.
  intros H. induction l as [|x l IH]; [reflexivity|]. cbn [filter].
  destruct (k x) eqn:K; cbn [filter].
  - now rewrite IH.
  - destruct (p x) eqn:Px; [rewrite (H _ Px) in K; discriminate | exact IH].
Qed.

Lemma fold_left_filter {A B} (step : B -> A -> B) (k : A -> bool) (l : list A) :
  (forall u x, k x = false -> step u x = u) ->
  forall u, fold_left step (filter k l) u = fold_left step l u.
Proof.
  intros H. induction l as [|x l IH]; intros u; [reflexivity|]. cbn [filter fold_left].
  destruct (k x) eqn:K; cbn [fold_left]; [apply IH | rewrite (H u x K); apply IH].
Qed.

(* ------------------------------------------------------------------ ordering of a stream *)
Fixpoint incr (l : log) : Prop :=
  match l with [] => True | f :: r => Forall (fun g => fseq f < fseq g) r /\ incr r end.

Lemma contig_bounds b l : contig_from b l = true -> Forall (fun g => b <= fseq g) l.
Proof.
  revert b. induction l as [|f r IH]; intros b H; [constructor|].
  cbn [contig_from] in H. apply andb_true_iff in H. destruct H as [E C]. apply N.eqb_eq in E.
  constructor; [lia|]. specialize (IH _ C). eapply Forall_impl; [|exact IH]. cbn. intros; lia.
Qed.

Lemma contig_incr b l : contig_from b l = true -> incr l.
Proof.
  revert b. induction l as [|f r IH]; intros b H; [exact I|].
  cbn [contig_from] in H. apply andb_true_iff in H. destruct H as [E C]. apply N.eqb_eq in E.
  split; [|eapply IH; exact C].
  pose proof (contig_bounds _ _ C) as B. eapply Forall_impl; [|exact B]. cbn. intros; lia.
Qed.

Lemma valid_incr l : valid_log l = true -> incr l.
Proof. apply contig_incr. Qed.

Lemma incr_filter k l : incr l -> incr (filter k l).
Proof.
  induction l as [|f r IH]; [auto|]. intros [F S]. cbn [filter].
  destruct (k f); [|auto]. split; [|auto].
  apply Forall_forall. intros g G. apply filter_In in G. destruct G as [G _].
  rewrite Forall_forall in F. auto.
Qed.

Lemma incr_app_inv a b : incr (a ++ b) -> incr a /\ incr b /\ (forall x y, In x a -> In y b -> fseq x < fseq y).
Proof.
  induction a as [|f a IH]; cbn [app incr].
  - intros H. repeat split; auto. intros x y [].
  - intros [F S]. destruct (IH S) as (Ia & Ib & L). rewrite Forall_app in F. destruct F as [Fa Fb].
    repeat split; auto. intros x y [<-|X] Y; [|auto]. rewrite Forall_forall in Fb. auto.
Qed.

Lemma head_seq_cons f g r : head_seq (f :: g :: r) = head_seq (g :: r).
Proof. reflexivity. Qed.

Lemma head_seq_ge l : incr l -> forall f, In f l -> fseq f <= head_seq l.
Proof.
  induction l as [|x r IH]; [intros _ f []|]. intros [F S] f [<-|X].
  - destruct r as [|g r']; [unfold head_seq; cbn; lia|]. rewrite head_seq_cons.
    rewrite Forall_forall in F. specialize (F g (or_introl eq_refl)).
    specialize (IH S g (or_introl eq_refl)). lia.
  - destruct r as [|g r']; [destruct X|]. rewrite head_seq_cons. auto.
Qed.

(* ------------------------------------------------------------------ message selection *)
Lemma take_rev_spec p rl n acc : take_rev p rl n acc = rev (firstn n (filter p rl)) ++ acc.
Proof.
  revert n acc. induction rl as [|f r IH]; intros n acc.
  - cbn [take_rev filter]. rewrite firstn_nil. reflexivity.
  - cbn [take_rev filter]. destruct n as [|k]; [reflexivity|].
    destruct (p f).
    + rewrite IH. cbn [firstn rev]. now rewrite <- app_assoc.
    + apply IH.
Qed.

Lemma sel_pred_window from after f :
  sel_pred from after f = in_window from (match after with Some a => Some a | None => None end) f.
Proof.
  unfold sel_pred, in_window. destruct after as [a|].
  - destruct (is_msg f), (fseq f <=? from) eqn:A, (fseq f <=? a) eqn:B, (a <? fseq f) eqn:C; cbn; try reflexivity; lia.
  - destruct (is_msg f), (fseq f <=? from); reflexivity.
Qed.

Lemma select_recent_after_spec evs from after n :
  select_recent_after evs from after n = lastn n (filter (in_window from (Some after)) evs).
Proof.
  unfold select_recent_after, lastn. rewrite take_rev_spec, app_nil_r.
  rewrite filter_rev'. f_equal. f_equal. f_equal. apply filter_ext'. intros x. apply (sel_pred_window from (Some after)).
Qed.

Lemma select_recent_spec evs from n :
  select_recent evs from n = lastn n (filter (in_window from None) evs).
Proof.
  unfold select_recent, lastn. rewrite take_rev_spec, app_nil_r.
  rewrite filter_rev'. f_equal. f_equal. f_equal. apply filter_ext'. intros x. apply (sel_pred_window from None).
Qed.

(* ------------------------------------------------------------------ replies *)
Lemma find_ends_none from m l :
  Forall (fun g => from < fseq g) l -> find (ends_for from m) l = None.
Proof.
  induction 1 as [|g l G _ IH]; [reflexivity|]. cbn [find].
  unfold ends_for at 1. destruct (fb g); try exact IH.
  replace (fseq g <=? from) with false by lia. rewrite andb_false_r. exact IH.
Qed.

Lemma ended_runs_spec from m l : incr l -> forall acc,
  lookup m (ended_runs from l acc) =
  match find (ends_for from m) (rev l) with Some f => Some (run_of f) | None => lookup m acc end.
Proof.
  induction l as [|f r IH]; intros S acc; [reflexivity|]. destruct S as [F S].
  cbn [ended_runs rev]. rewrite find_app'. destruct (from <? fseq f) eqn:C.
  - rewrite find_ends_none.
    + cbn [find]. unfold ends_for. destruct (fb f); try reflexivity.
      replace (fseq f <=? from) with false by lia. now rewrite andb_false_r.
    + apply Forall_rev. eapply Forall_impl; [|exact F]. cbn. intros; lia.
  - destruct (fb f) eqn:B.
    + rewrite IH by exact S. destruct (find (ends_for from m) (rev r)); [reflexivity|].
      cbn [find]. unfold ends_for. rewrite B. reflexivity.
    + rewrite IH by exact S. destruct (find (ends_for from m) (rev r)); [reflexivity|].
      cbn [find lookup]. unfold ends_for at 1. rewrite B. cbv beta iota.
      replace (fseq f <=? from) with true by lia. rewrite andb_true_r.
      rewrite (N.eqb_sym msg m). destruct (m =? msg); [|reflexivity].
      unfold run_of. rewrite B. reflexivity.
    + rewrite IH by exact S. destruct (find (ends_for from m) (rev r)); [reflexivity|].
      cbn [find]. unfold ends_for. rewrite B. reflexivity.
    + rewrite IH by exact S. destruct (find (ends_for from m) (rev r)); [reflexivity|].
      cbn [find]. unfold ends_for. rewrite B. reflexivity.
Qed.

Lemma reply_items_spec texts from l m : incr l ->
  reply_items texts (ended_runs from l []) m = reply_spec texts l from m.
Proof.
  intros S. unfold reply_items, reply_spec, answered_by. rewrite (ended_runs_spec from m l S []).
  destruct (find (ends_for from m) (rev l)); reflexivity.
Qed.

Lemma msg_items_spec texts from l sel : incr l ->
  msg_items texts (ended_runs from l []) sel =
  flat_map (fun f => IUser (fseq f) :: reply_spec texts l from (fseq f)) sel.
Proof.
  intros S. induction sel as [|f r IH]; [reflexivity|].
  cbn [msg_items flat_map]. rewrite IH, reply_items_spec by exact S. reflexivity.
Qed.

(* ------------------------------------------------------------------ cut point *)
Lemma first_msg_find l : first_msg_seq l = option_map fseq (find is_msg l).
Proof. induction l as [|f r IH]; [reflexivity|]. cbn [first_msg_seq find]. destruct (is_msg f); auto. Qed.

Lemma find_next_after a l :
  Forall (fun g => a < fseq g) l ->
  find (fun f => is_msg f && (a <? fseq f)) l = find is_msg l.
Proof.
  induction 1 as [|g l G _ IH]; [reflexivity|]. cbn [find].
  replace (a <? fseq g) with true by lia. rewrite andb_true_r. now rewrite IH.
Qed.

Lemma no_anchor_after a l :
  Forall (fun g => a < fseq g) l -> existsb (is_anchor a) l = false.
Proof.
  induction 1 as [|g l G _ IH]; [reflexivity|]. cbn [existsb]. rewrite IH.
  unfold is_anchor. replace (fseq g =? a) with false by lia. now rewrite andb_false_r.
Qed.

Lemma cut_scan_spec a l : incr l ->
  cut_scan a l =
  if existsb (is_anchor a) l
  then Some (a, option_map fseq (find (fun f => is_msg f && (a <? fseq f)) l))
  else None.
Proof.
  induction l as [|f r IH]; [reflexivity|]. intros [F S].
  cbn [cut_scan existsb find]. fold (is_anchor a f). destruct (is_anchor a f) eqn:A.
  - cbn [orb]. unfold is_anchor in A. apply andb_true_iff in A. destruct A as [M E]. apply N.eqb_eq in E.
    rewrite M. replace (a <? fseq f) with false by lia. cbn [andb].
    rewrite first_msg_find, find_next_after; [now rewrite E|].
    eapply Forall_impl; [|exact F]. cbn. intros; lia.
  - cbn [orb]. rewrite (IH S). destruct (is_msg f && (a <? fseq f)) eqn:N; [|reflexivity].
    apply andb_true_iff in N. destruct N as [_ L].
    rewrite no_anchor_after; [reflexivity|]. eapply Forall_impl; [|exact F]. cbn. intros; lia.
Qed.

Lemma existsb_anchor_in a l : existsb (is_anchor a) l = true -> exists f, In f l /\ is_msg f = true /\ fseq f = a.
Proof.
  intros H. apply existsb_exists in H. destruct H as (f & I & A). unfold is_anchor in A.
  apply andb_true_iff in A. destruct A as [M E]. apply N.eqb_eq in E. eauto.
Qed.

Theorem cut_point_spec l a : incr l -> cut_point l a = cut_spec l a.
Proof.
  intros S. unfold cut_point, cut_spec. rewrite (cut_scan_spec a l S).
  destruct (existsb (is_anchor a) l) eqn:E; [|reflexivity]. cbn [option_map]. f_equal.
  unfold cut_of. cbn [fst snd].
  destruct (find (fun f => is_msg f && (a <? fseq f)) l) as [n|] eqn:Fd; cbn [option_map].
  - apply find_some in Fd. destruct Fd as [_ P]. apply andb_true_iff in P. destruct P as [_ L]. lia.
  - destruct (existsb_anchor_in _ _ E) as (f & I & _ & Ea). pose proof (head_seq_ge l S f I). lia.
Qed.

(* ------------------------------------------------------------------ the bundle meets its specification *)
Lemma max_to_single c : max_to [c] = ck_to c.
Proof. unfold max_to. cbn [map fold_left]. lia. Qed.

Theorem bundle_meets_spec P texts l a : incr l ->
  option_map snd (compile P texts l a) = bundle_spec P texts l a.
Proof.
  intros S. unfold compile, bundle_spec. rewrite (cut_point_spec l a S).
  destruct (cut_spec l a) as [cut|]; [|reflexivity]. cbn [option_map]. f_equal.
  unfold compile_with. set (h := hierarchy (p_fixed P) cut (p_max_refs P) l).
  destruct h as [|c [|c2 r]]; cbn [snd strategy_of summary_refs after_of map app].
  - f_equal. unfold messages_spec. now rewrite msg_items_spec, select_recent_spec.
  - f_equal. unfold messages_spec. rewrite msg_items_spec, select_recent_after_spec by exact S.
    now rewrite max_to_single.
  - f_equal. unfold messages_spec. rewrite msg_items_spec, select_recent_after_spec by exact S.
    reflexivity.
Qed.

Lemma firstn_map_app {A B} (g : A -> B) (h : list A) (x : list B) : firstn (length h) (map g h ++ x) = map g h.
Proof. induction h as [|y h IH]; [reflexivity|]. cbn [length map app firstn]. now rewrite IH. Qed.

(* the decision names exactly the checkpoints whose summaries the bundle references, and the strategy follows their number *)
Theorem decision_matches_bundle P texts l a d b :
  compile P texts l a = Some (d, b) ->
  d_strategy d = b_strategy b /\ b_strategy b = strategy_of (d_ckpts d)
  /\ firstn (length (d_ckpts d)) (b_items b) = summary_refs (d_ckpts d).
Proof.
  unfold compile. destruct (cut_point l a) as [cut|]; [|discriminate]. intros H. inversion H as [E]. clear H.
  unfold compile_with in E. set (h := hierarchy (p_fixed P) cut (p_max_refs P) l) in E.
  destruct h as [|c [|c2 r]]; inversion E; subst; cbn [d_strategy b_strategy d_ckpts b_items strategy_of length firstn summary_refs map];
    repeat split; try reflexivity.
  change (ISummary (ck_art c) (ck_to c) :: ISummary (ck_art c2) (ck_to c2) :: map (fun c0 => ISummary (ck_art c0) (ck_to c0)) r)
    with (summary_refs (c :: c2 :: r)).
  change (S (S (length r))) with (length (c :: c2 :: r)).
  apply firstn_map_app.
Qed.

(* ------------------------------------------------------------------ pure function of the prefix up to the cut *)
Lemma upto_filter_implied p c l :
  (forall f, p f = true -> fseq f <=? c = true) -> filter p (upto c l) = filter p l.
Proof. intros H. unfold upto. apply filter_filter_implied. exact H. Qed.

Lemma in_window_upto from after f : in_window from after f = true -> fseq f <=? from = true.
Proof. unfold in_window. intros H. apply andb_true_iff in H. destruct H as [H _]. apply andb_true_iff in H. tauto. Qed.

Lemma select_recent_upto l c n : select_recent (upto c l) c n = select_recent l c n.
Proof. rewrite !select_recent_spec. f_equal. apply upto_filter_implied. apply in_window_upto. Qed.
Lemma select_recent_after_upto l c after n : select_recent_after (upto c l) c after n = select_recent_after l c after n.
Proof. rewrite !select_recent_after_spec. f_equal. apply upto_filter_implied. apply in_window_upto. Qed.

Lemma upto_all_above c l : Forall (fun g => c < fseq g) l -> upto c l = [].
Proof.
  induction 1 as [|g l G _ IH]; [reflexivity|]. unfold upto in *. cbn [filter].
  replace (fseq g <=? c) with false by lia. exact IH.
Qed.

Lemma ended_runs_upto c l : incr l -> forall acc, ended_runs c (upto c l) acc = ended_runs c l acc.
Proof.
  induction l as [|f r IH]; intros S acc; [reflexivity|]. destruct S as [F S].
  unfold upto. cbn [filter ended_runs]. fold (upto c r). destruct (c <? fseq f) eqn:C.
  - replace (fseq f <=? c) with false by lia. rewrite upto_all_above; [reflexivity|].
    eapply Forall_impl; [|exact F]. cbn. intros; lia.
  - replace (fseq f <=? c) with true by lia. cbn [ended_runs]. rewrite C.
    destruct (fb f); apply IH; exact S.
Qed.

Lemma eligible_fixed_upto c k : eligible true c k = true -> ck_seq k <=? c = true.
Proof. unfold eligible. intros H. apply andb_true_iff in H. tauto. Qed.

Lemma ckpt_of_seq f k : ckpt_of f = Some k -> ck_seq k = fseq f.
Proof. unfold ckpt_of. destruct (fb f); try discriminate. intros H. inversion H. reflexivity. Qed.

Lemma unique_of_upto c l : unique_of true c (upto c l) = unique_of true c l.
Proof.
  unfold unique_of, upto. apply fold_left_filter. intros u f K. unfold unique_step.
  destruct (ckpt_of f) as [k|] eqn:E; [|reflexivity].
  destruct (eligible true c k) eqn:El; [|reflexivity].
  apply eligible_fixed_upto in El. rewrite (ckpt_of_seq _ _ E) in El. congruence.
Qed.

Lemma latest_any_upto c l : latest_any true c (upto c l) = latest_any true c l.
Proof.
  unfold latest_any, upto. apply fold_left_filter. intros u f K. unfold latest_step.
  destruct (ckpt_of f) as [k|] eqn:E; [|reflexivity].
  destruct (eligible true c k) eqn:El; [|reflexivity].
  apply eligible_fixed_upto in El. rewrite (ckpt_of_seq _ _ E) in El. congruence.
Qed.

Lemma hierarchy_upto c n l : hierarchy true c n (upto c l) = hierarchy true c n l.
Proof. unfold hierarchy. destruct n; [reflexivity|]. now rewrite unique_of_upto. Qed.

Lemma compile_with_upto P texts l c a : incr l -> p_fixed P = true ->
  compile_with P texts (upto c l) (upto c l) c a = compile_with P texts l l c a.
Proof.
  intros S Fx. unfold compile_with. rewrite Fx, hierarchy_upto, latest_any_upto, ended_runs_upto by exact S.
  now rewrite select_recent_upto.
  (* the remaining branches use select_recent_after *)
Qed.
