(* C08 — proofs about Model/Compile.v *)
From RipV Require Import Base.Prelude Model.Compile.

Ltac conjs := repeat match goal with |- _ /\ _ => split end.

(* ------------------------------------------------------------------ generic list lemmas *)
Lemma filter_rev' {A} (p : A -> bool) (l : list A) : filter p (rev l) = rev (filter p l).
Proof.
  induction l as [|x l IH]; [reflexivity|].
  cbn [rev filter]. rewrite filter_app, IH. cbn [filter].
  destruct (p x); cbn [rev]; [reflexivity | now rewrite app_nil_r].
Qed.

Lemma find_app' {A} (p : A -> bool) (a b : list A) :
  find p (a ++ b) = match find p a with Some x => Some x | None => find p b end.
Proof. induction a as [|x a IH]; [reflexivity|]. cbn [app find]. destruct (p x); auto. Qed.

Lemma filter_ext' {A} (p q : A -> bool) (l : list A) :
  (forall x, p x = q x) -> filter p l = filter q l.
Proof. intros E. induction l as [|x l IH]; [reflexivity|]. cbn [filter]. now rewrite E, IH. Qed.

Lemma filter_filter_implied {A} (p k : A -> bool) (l : list A) :
  (forall x, p x = true -> k x = true) -> filter p (filter k l) = filter p l.
Proof.
  intros H. induction l as [|x l IH]; [reflexivity|]. cbn [filter].
  destruct (k x) eqn:K; cbn [filter].
  - now rewrite IH.
  - destruct (p x) eqn:Px; [rewrite (H _ Px) in K; discriminate | exact IH].
Qed.

Lemma fold_left_filter {A B} (step : B -> A -> B) (k : A -> bool) (l : list A) :
  (forall u x, k x = false -> step u x = u) ->
  forall u, fold_left step (filter k l) u = fold_left step l u.
Proof.
  intros H. induction l as [|x l IH]; intros u; [reflexivity|]. cbn [filter fold_left].
  destruct (k x) eqn:K; cbn [fold_left]; [apply IH | rewrite (H u x K); apply IH].
Qed.

(* ------------------------------------------------------------------ ordering of a stream *)
Fixpoint incr (l : log) : Prop :=
  match l with [] => True | f :: r => Forall (fun g => fseq f < fseq g) r /\ incr r end.

Lemma contig_bounds b l : contig_from b l = true -> Forall (fun g => b <= fseq g) l.
Proof.
  revert b. induction l as [|f r IH]; intros b H; [constructor|].
  cbn [contig_from] in H. apply andb_true_iff in H. destruct H as [E C]. apply N.eqb_eq in E.
  constructor; [lia|]. specialize (IH _ C). eapply Forall_impl; [|exact IH]. cbn. intros; lia.
Qed.

Lemma contig_incr b l : contig_from b l = true -> incr l.
Proof.
  revert b. induction l as [|f r IH]; intros b H; [exact I|].
  cbn [contig_from] in H. apply andb_true_iff in H. destruct H as [E C]. apply N.eqb_eq in E.
  split; [|eapply IH; exact C].
  pose proof (contig_bounds _ _ C) as B. eapply Forall_impl; [|exact B]. cbn. intros; lia.
Qed.

Lemma valid_incr l : valid_log l = true -> incr l.
Proof. apply contig_incr. Qed.

Lemma incr_filter k l : incr l -> incr (filter k l).
Proof.
  induction l as [|f r IH]; [auto|]. intros [F S]. cbn [filter].
  destruct (k f); [|auto]. split; [|auto].
  apply Forall_forall. intros g G. apply filter_In in G. destruct G as [G _].
  rewrite Forall_forall in F. auto.
Qed.

Lemma incr_app_inv a b : incr (a ++ b) -> incr a /\ incr b /\ (forall x y, In x a -> In y b -> fseq x < fseq y).
Proof.
  induction a as [|f a IH]; cbn [app incr].
  - intros H. repeat split; auto. intros x y [].
  - intros [F S]. destruct (IH S) as (Ia & Ib & L). rewrite Forall_app in F. destruct F as [Fa Fb].
    repeat split; auto. intros x y [<-|X] Y; [|auto]. rewrite Forall_forall in Fb. auto.
Qed.

Lemma head_seq_cons f g r : head_seq (f :: g :: r) = head_seq (g :: r).
Proof. reflexivity. Qed.

Lemma head_seq_ge l : incr l -> forall f, In f l -> fseq f <= head_seq l.
Proof.
  induction l as [|x r IH]; [intros _ f []|]. intros [F S] f [<-|X].
  - destruct r as [|g r']; [unfold head_seq; cbn; lia|]. rewrite head_seq_cons.
    rewrite Forall_forall in F. specialize (F g (or_introl eq_refl)).
    specialize (IH S g (or_introl eq_refl)). lia.
  - destruct r as [|g r']; [destruct X|]. rewrite head_seq_cons. auto.
Qed.

(* ------------------------------------------------------------------ message selection *)
Lemma take_rev_spec p rl n acc : take_rev p rl n acc = rev (firstn n (filter p rl)) ++ acc.
Proof.
  revert n acc. induction rl as [|f r IH]; intros n acc.
  - cbn [take_rev filter]. rewrite firstn_nil. reflexivity.
  - cbn [take_rev filter]. destruct n as [|k]; [reflexivity|].
    destruct (p f).
    + rewrite IH. cbn [firstn rev]. now rewrite <- app_assoc.
    + apply IH.
Qed.

Lemma sel_pred_window from after f :
  sel_pred from after f = in_window from (match after with Some a => Some a | None => None end) f.
Proof.
  unfold sel_pred, in_window. destruct after as [a|].
  - destruct (is_msg f), (fseq f <=? from) eqn:A, (fseq f <=? a) eqn:B, (a <? fseq f) eqn:C; cbn; try reflexivity; lia.
  - destruct (is_msg f), (fseq f <=? from); reflexivity.
Qed.

Lemma select_recent_after_spec evs from after n :
  select_recent_after evs from after n = lastn n (filter (in_window from (Some after)) evs).
Proof.
  unfold select_recent_after, lastn. rewrite take_rev_spec, app_nil_r.
  rewrite filter_rev'. f_equal. f_equal. f_equal. apply filter_ext'. intros x. apply (sel_pred_window from (Some after)).
Qed.

Lemma select_recent_spec evs from n :
  select_recent evs from n = lastn n (filter (in_window from None) evs).
Proof.
  unfold select_recent, lastn. rewrite take_rev_spec, app_nil_r.
  rewrite filter_rev'. f_equal. f_equal. f_equal. apply filter_ext'. intros x. apply (sel_pred_window from None).
Qed.

(* ------------------------------------------------------------------ replies *)
Lemma find_ends_none from m l :
  Forall (fun g => from < fseq g) l -> find (ends_for from m) l = None.
Proof.
  induction 1 as [|g l G _ IH]; [reflexivity|]. cbn [find].
  unfold ends_for at 1. destruct (fb g); try exact IH.
  replace (fseq g <=? from) with false by lia. rewrite andb_false_r. exact IH.
Qed.

Lemma ended_runs_spec from m l : incr l -> forall acc,
  lookup m (ended_runs from l acc) =
  match find (ends_for from m) (rev l) with Some f => Some (run_of f) | None => lookup m acc end.
Proof.
  induction l as [|f r IH]; intros S acc; [reflexivity|]. destruct S as [F S].
  cbn [ended_runs rev]. rewrite find_app'. destruct (from <? fseq f) eqn:C.
  - rewrite find_ends_none.
    + cbn [find]. unfold ends_for. destruct (fb f); try reflexivity.
      replace (fseq f <=? from) with false by lia. now rewrite andb_false_r.
    + apply Forall_rev. eapply Forall_impl; [|exact F]. cbn. intros; lia.
  - destruct (fb f) eqn:B.
    + rewrite IH by exact S. destruct (find (ends_for from m) (rev r)); [reflexivity|].
      cbn [find]. unfold ends_for. rewrite B. reflexivity.
    + rewrite IH by exact S. destruct (find (ends_for from m) (rev r)); [reflexivity|].
      cbn [find lookup]. unfold ends_for at 1. rewrite B. cbv beta iota.
      replace (fseq f <=? from) with true by lia. rewrite andb_true_r.
      rewrite (N.eqb_sym msg m). destruct (m =? msg); [|reflexivity].
      unfold run_of. rewrite B. reflexivity.
    + rewrite IH by exact S. destruct (find (ends_for from m) (rev r)); [reflexivity|].
      cbn [find]. unfold ends_for. rewrite B. reflexivity.
    + rewrite IH by exact S. destruct (find (ends_for from m) (rev r)); [reflexivity|].
      cbn [find]. unfold ends_for. rewrite B. reflexivity.
Qed.

Lemma reply_items_spec texts from l m : incr l ->
  reply_items texts (ended_runs from l []) m = reply_spec texts l from m.
Proof.
  intros S. unfold reply_items, reply_spec, answered_by. rewrite (ended_runs_spec from m l S []).
  destruct (find (ends_for from m) (rev l)); reflexivity.
Qed.

Lemma msg_items_spec texts from l sel : incr l ->
  msg_items texts (ended_runs from l []) sel =
  flat_map (fun f => IUser (fseq f) :: reply_spec texts l from (fseq f)) sel.
Proof.
  intros S. induction sel as [|f r IH]; [reflexivity|].
  cbn [msg_items flat_map]. rewrite IH, reply_items_spec by exact S. reflexivity.
Qed.

(* ------------------------------------------------------------------ cut point *)
Lemma first_msg_find l : first_msg_seq l = option_map fseq (find is_msg l).
Proof. induction l as [|f r IH]; [reflexivity|]. cbn [first_msg_seq find]. destruct (is_msg f); auto. Qed.

Lemma find_next_after a l :
  Forall (fun g => a < fseq g) l ->
  find (fun f => is_msg f && (a <? fseq f)) l = find is_msg l.
Proof.
  induction 1 as [|g l G _ IH]; [reflexivity|]. cbn [find].
  replace (a <? fseq g) with true by lia. rewrite andb_true_r. now rewrite IH.
Qed.

Lemma no_anchor_after a l :
  Forall (fun g => a < fseq g) l -> existsb (is_anchor a) l = false.
Proof.
  induction 1 as [|g l G _ IH]; [reflexivity|]. cbn [existsb]. rewrite IH.
  unfold is_anchor. replace (fseq g =? a) with false by lia. now rewrite andb_false_r.
Qed.

Lemma cut_scan_spec a l : incr l ->
  cut_scan a l =
  if existsb (is_anchor a) l
  then Some (a, option_map fseq (find (fun f => is_msg f && (a <? fseq f)) l))
  else None.
Proof.
  induction l as [|f r IH]; [reflexivity|]. intros [F S].
  cbn [cut_scan existsb find]. fold (is_anchor a f). destruct (is_anchor a f) eqn:A.
  - cbn [orb]. unfold is_anchor in A. apply andb_true_iff in A. destruct A as [M E]. apply N.eqb_eq in E.
    rewrite M. replace (a <? fseq f) with false by lia. cbn [andb].
    rewrite first_msg_find, find_next_after; [now rewrite E|].
    eapply Forall_impl; [|exact F]. cbn. intros; lia.
  - cbn [orb]. rewrite (IH S). destruct (is_msg f && (a <? fseq f)) eqn:N; [|reflexivity].
    apply andb_true_iff in N. destruct N as [_ L].
    rewrite no_anchor_after; [reflexivity|]. eapply Forall_impl; [|exact F]. cbn. intros; lia.
Qed.

Lemma existsb_anchor_in a l : existsb (is_anchor a) l = true -> exists f, In f l /\ is_msg f = true /\ fseq f = a.
Proof.
  intros H. apply existsb_exists in H. destruct H as (f & I & A). unfold is_anchor in A.
  apply andb_true_iff in A. destruct A as [M E]. apply N.eqb_eq in E. eauto.
Qed.

Theorem cut_point_spec l a : incr l -> cut_point l a = cut_spec l a.
Proof.
  intros S. unfold cut_point, cut_spec. rewrite (cut_scan_spec a l S).
  destruct (existsb (is_anchor a) l) eqn:E; [|reflexivity]. cbn [option_map]. f_equal.
  unfold cut_of. cbn [fst snd].
  destruct (find (fun f => is_msg f && (a <? fseq f)) l) as [n|] eqn:Fd; cbn [option_map].
  - apply find_some in Fd. destruct Fd as [_ P]. apply andb_true_iff in P. destruct P as [_ L]. lia.
  - destruct (existsb_anchor_in _ _ E) as (f & I & _ & Ea). pose proof (head_seq_ge l S f I). lia.
Qed.

(* ------------------------------------------------------------------ the bundle meets its specification *)
Lemma max_to_single c : max_to [c] = ck_to c.
Proof. unfold max_to. cbn [map fold_left]. lia. Qed.

Theorem bundle_meets_spec P texts l a : incr l ->
  option_map snd (compile P texts l a) = bundle_spec P texts l a.
Proof.
  intros S. unfold compile, bundle_spec. rewrite (cut_point_spec l a S).
  destruct (cut_spec l a) as [cut|]; [|reflexivity]. cbn [option_map]. f_equal.
  unfold compile_with. set (h := hierarchy (p_fixed P) cut (p_max_refs P) l).
  destruct h as [|c [|c2 r]]; cbn [snd strategy_of summary_refs after_of map app].
  - f_equal. unfold messages_spec. now rewrite msg_items_spec, select_recent_spec.
  - f_equal. unfold messages_spec. rewrite msg_items_spec, select_recent_after_spec by exact S.
    now rewrite max_to_single.
  - f_equal. unfold messages_spec. rewrite msg_items_spec, select_recent_after_spec by exact S.
    reflexivity.
Qed.

Lemma firstn_map_app {A B} (g : A -> B) (h : list A) (x : list B) : firstn (length h) (map g h ++ x) = map g h.
Proof. induction h as [|y h IH]; [reflexivity|]. cbn [length map app firstn]. now rewrite IH. Qed.

(* the decision names exactly the checkpoints whose summaries the bundle references, and the strategy follows their number *)
Theorem decision_matches_bundle P texts l a d b :
  compile P texts l a = Some (d, b) ->
  d_strategy d = b_strategy b /\ b_strategy b = strategy_of (d_ckpts d)
  /\ firstn (length (d_ckpts d)) (b_items b) = summary_refs (d_ckpts d).
Proof.
  unfold compile. destruct (cut_point l a) as [cut|]; [|discriminate]. intros H. inversion H as [E]. clear H.
  unfold compile_with in E. set (h := hierarchy (p_fixed P) cut (p_max_refs P) l) in E.
  destruct h as [|c [|c2 r]]; cbv beta iota in E; injection E as Ed Eb; subst d b;
    cbn [d_strategy b_strategy d_ckpts b_items strategy_of]; (repeat split; try reflexivity).
  exact (firstn_map_app (fun c0 => ISummary (ck_art c0) (ck_to c0)) (c :: c2 :: r) _).
Qed.

(* ------------------------------------------------------------------ pure function of the prefix up to the cut *)
Lemma upto_filter_implied p c l :
  (forall f, p f = true -> fseq f <=? c = true) -> filter p (upto c l) = filter p l.
Proof. intros H. unfold upto. apply filter_filter_implied. exact H. Qed.

Lemma in_window_upto from after f : in_window from after f = true -> fseq f <=? from = true.
Proof. unfold in_window. intros H. apply andb_true_iff in H. destruct H as [H _]. apply andb_true_iff in H. tauto. Qed.

Lemma select_recent_upto l c n : select_recent (upto c l) c n = select_recent l c n.
Proof. rewrite !select_recent_spec. f_equal. apply upto_filter_implied. apply in_window_upto. Qed.
Lemma select_recent_after_upto l c after n : select_recent_after (upto c l) c after n = select_recent_after l c after n.
Proof. rewrite !select_recent_after_spec. f_equal. apply upto_filter_implied. apply in_window_upto. Qed.

Lemma upto_all_above c l : Forall (fun g => c < fseq g) l -> upto c l = [].
Proof.
  induction 1 as [|g l G _ IH]; [reflexivity|]. unfold upto in *. cbn [filter].
  replace (fseq g <=? c) with false by lia. exact IH.
Qed.

Lemma ended_runs_upto c l : incr l -> forall acc, ended_runs c (upto c l) acc = ended_runs c l acc.
Proof.
  induction l as [|f r IH]; intros S acc; [reflexivity|]. destruct S as [F S].
  unfold upto. cbn [filter ended_runs]. fold (upto c r). destruct (c <? fseq f) eqn:C.
  - replace (fseq f <=? c) with false by lia. rewrite upto_all_above; [reflexivity|].
    eapply Forall_impl; [|exact F]. cbn. intros; lia.
  - replace (fseq f <=? c) with true by lia. cbn [ended_runs]. rewrite C.
    destruct (fb f); apply IH; exact S.
Qed.

Lemma eligible_fixed_upto c k : eligible true c k = true -> ck_seq k <=? c = true.
Proof. unfold eligible. intros H. apply andb_true_iff in H. tauto. Qed.

Lemma ckpt_of_seq f k : ckpt_of f = Some k -> ck_seq k = fseq f.
Proof. unfold ckpt_of. destruct (fb f); try discriminate. intros H. inversion H. reflexivity. Qed.

Lemma unique_of_upto c l : unique_of true c (upto c l) = unique_of true c l.
Proof.
  unfold unique_of, upto. apply fold_left_filter. intros u f K. unfold unique_step.
  destruct (ckpt_of f) as [k|] eqn:E; [|reflexivity].
  destruct (eligible true c k) eqn:El; [|reflexivity].
  apply eligible_fixed_upto in El. rewrite (ckpt_of_seq _ _ E) in El. congruence.
Qed.

Lemma latest_any_upto c l : latest_any true c (upto c l) = latest_any true c l.
Proof.
  unfold latest_any, upto. apply fold_left_filter. intros u f K. unfold latest_step.
  destruct (ckpt_of f) as [k|] eqn:E; [|reflexivity].
  destruct (eligible true c k) eqn:El; [|reflexivity].
  apply eligible_fixed_upto in El. rewrite (ckpt_of_seq _ _ E) in El. congruence.
Qed.

Lemma hierarchy_upto c n l : hierarchy true c n (upto c l) = hierarchy true c n l.
Proof. unfold hierarchy. destruct n; [reflexivity|]. now rewrite unique_of_upto. Qed.

Lemma compile_with_upto P texts l c a : incr l -> p_fixed P = true ->
  compile_with P texts (upto c l) (upto c l) c a = compile_with P texts l l c a.
Proof.
  intros S Fx. unfold compile_with. rewrite Fx, hierarchy_upto, latest_any_upto, ended_runs_upto by exact S.
  rewrite select_recent_upto.
  destruct (hierarchy true c (p_max_refs P) l) as [|k [|k2 r]]; [reflexivity| |]; now rewrite select_recent_after_upto.
Qed.

(* ---- the cut point of the prefix up to the cut is the cut *)
Lemma find_none_intro {A} (p : A -> bool) (l : list A) : (forall x, In x l -> p x = false) -> find p l = None.
Proof.
  induction l as [|x l IH]; [reflexivity|]. intros H. cbn [find].
  rewrite (H x (or_introl eq_refl)). apply IH. intros y Y. apply H. now right.
Qed.

Lemma find_first_incr (p : frame -> bool) l n : incr l -> find p l = Some n ->
  forall g, In g l -> p g = true -> fseq n <= fseq g.
Proof.
  induction l as [|f r IH]; [discriminate|]. intros [F S]. cbn [find]. destruct (p f) eqn:Pf.
  - intros E g [<-|G] _; inversion E; subst; [lia|]. rewrite Forall_forall in F. specialize (F g G). lia.
  - intros E g [<-|G] Pg; [congruence|]. eapply IH; eauto.
Qed.

Lemma upto_head b c l : contig_from b l = true -> l <> [] -> b <= c -> c <= head_seq l ->
  head_seq (upto c l) = c /\ upto c l <> [].
Proof.
  revert b. induction l as [|f r IH]; intros b C NE Lo Hi; [congruence|].
  cbn [contig_from] in C. apply andb_true_iff in C. destruct C as [E C]. apply N.eqb_eq in E.
  unfold upto. cbn [filter]. fold (upto c r). replace (fseq f <=? c) with true by lia.
  destruct r as [|g r'].
  - cbn. unfold head_seq in *. cbn in *. split; [lia|discriminate].
  - rewrite head_seq_cons in Hi. destruct (N.eq_dec c b) as [->|Ne].
    + rewrite upto_all_above; [unfold head_seq; cbn; split; [lia|discriminate]|].
      pose proof (contig_bounds _ _ C) as B. eapply Forall_impl; [|exact B]. cbn. intros; lia.
    + destruct (IH (b + 1) C) as [H1 H2]; [discriminate|lia|exact Hi|].
      destruct (upto c (g :: r')) as [|x xs] eqn:U; [congruence|].
      rewrite head_seq_cons. split; [exact H1|discriminate].
Qed.

Lemma upto_all_below c l : (forall f, In f l -> fseq f <= c) -> upto c l = l.
Proof.
  induction l as [|f r IH]; [reflexivity|]. intros H. unfold upto. cbn [filter]. fold (upto c r).
  pose proof (H f (or_introl eq_refl)). replace (fseq f <=? c) with true by lia.
  f_equal. apply IH. intros g G. apply H. now right.
Qed.

Lemma cut_spec_upto l a c : valid_log l = true -> cut_spec l a = Some c -> cut_spec (upto c l) a = Some c.
Proof.
  intros V H. pose proof (valid_incr l V) as S. unfold cut_spec in H.
  destruct (existsb (is_anchor a) l) eqn:E; [|discriminate].
  destruct (existsb_anchor_in _ _ E) as (fa & Ia & Ma & Ea).
  destruct (find (fun f => is_msg f && (a <? fseq f)) l) as [n|] eqn:Fd.
  - inversion H as [Hc]. clear H.
    pose proof (find_some _ _ Fd) as [In_n Pn]. apply andb_true_iff in Pn. destruct Pn as [Mn Ln].
    unfold cut_spec.
    assert (Ex : existsb (is_anchor a) (upto (fseq n - 1) l) = true).
    { apply existsb_exists. exists fa. split.
      - unfold upto. apply filter_In. split; [exact Ia|]. lia.
      - unfold is_anchor. rewrite Ma. cbn. lia. }
    rewrite Ex.
    rewrite find_none_intro.
    + f_equal. destruct l as [|f0 l0]; [destruct Ia|].
      apply (upto_head 0 (fseq n - 1) (f0 :: l0) V); [discriminate|lia|].
      pose proof (head_seq_ge _ S n In_n). lia.
    + intros x X. unfold upto in X. apply filter_In in X. destruct X as [X Lx].
      destruct (is_msg x && (a <? fseq x)) eqn:Px; [|reflexivity].
      pose proof (find_first_incr _ _ _ S Fd x X Px). lia.
  - inversion H as [Hc]. clear H. rewrite upto_all_below.
    + unfold cut_spec. now rewrite E, Fd.
    + intros f I. apply head_seq_ge; assumption.
Qed.

Theorem pure_up_to_cut P texts l a c :
  valid_log l = true -> p_fixed P = true -> cut_point l a = Some c ->
  compile P texts (upto c l) a = compile P texts l a.
Proof.
  intros V Fx H. pose proof (valid_incr l V) as S.
  assert (Su : incr (upto c l)) by (apply incr_filter; exact S).
  unfold compile. rewrite H. rewrite (cut_point_spec _ a Su).
  rewrite (cut_point_spec l a S) in H. rewrite (cut_spec_upto l a c V H).
  f_equal. apply compile_with_upto; assumption.
Qed.

(* ---- frames appended after the cut *)
Lemma contig_app_l b l x : contig_from b (l ++ x) = true -> contig_from b l = true.
Proof.
  revert b. induction l as [|f r IH]; intros b; [reflexivity|]. cbn [app contig_from].
  intros H. apply andb_true_iff in H. destruct H as [E C]. rewrite E. cbn. eapply IH; exact C.
Qed.

Lemma upto_app c a b : upto c (a ++ b) = upto c a ++ upto c b.
Proof. unfold upto. apply filter_app. Qed.

Theorem ignores_after_cut P texts l later a g :
  valid_log (l ++ later) = true -> p_fixed P = true ->
  existsb (is_anchor a) l = true ->
  find (fun f => is_msg f && (a <? fseq f)) l = Some g ->
  compile P texts (l ++ later) a = compile P texts l a.
Proof.
  intros V Fx Ea Fg.
  assert (Vl : valid_log l = true) by (eapply contig_app_l; exact V).
  pose proof (valid_incr _ V) as S. pose proof (valid_incr _ Vl) as Sl.
  set (c := fseq g - 1).
  assert (C1 : cut_point l a = Some c).
  { rewrite (cut_point_spec l a Sl). unfold cut_spec. now rewrite Ea, Fg. }
  assert (C2 : cut_point (l ++ later) a = Some c).
  { rewrite (cut_point_spec _ a S). unfold cut_spec. rewrite existsb_app, Ea. cbn [orb].
    now rewrite find_app', Fg. }
  rewrite <- (pure_up_to_cut P texts _ a c V Fx C2), <- (pure_up_to_cut P texts _ a c Vl Fx C1).
  rewrite upto_app. rewrite (upto_all_above c later); [now rewrite app_nil_r|].
  destruct (incr_app_inv _ _ S) as (_ & _ & L). apply Forall_forall. intros y Y.
  pose proof (find_some _ _ Fg) as [Ig _]. specialize (L g y Ig Y). unfold c. lia.
Qed.

(* ---- S9: with the visibility rule of the code before the repair, a checkpoint frame appended after
   the cut changes the bundle *)
Definition mkf (s : N) (b : body) : frame := {| fseq := s; fb := b |}.
Definition s9_log : log := [mkf 0 BOther; mkf 1 BMsg; mkf 2 BMsg; mkf 3 BMsg].
Definition s9_later : log := [mkf 4 (BCkpt true 1 0)].
Definition unfixed_params : params := {| p_limit := 16; p_max_refs := 3; p_fixed := false |}.
Definition fixed_params : params := {| p_limit := 16; p_max_refs := 3; p_fixed := true |}.
Definition no_texts : N -> N := fun _ => 0.

Lemma late_checkpoint_refuted :
  exists l later a g,
    valid_log (l ++ later) = true /\ existsb (is_anchor a) l = true
    /\ find (fun f => is_msg f && (a <? fseq f)) l = Some g
    /\ compile unfixed_params no_texts (l ++ later) a <> compile unfixed_params no_texts l a.
Proof.
  exists s9_log, s9_later, 2, (mkf 3 BMsg). conjs; try (vm_compute; reflexivity).
  vm_compute. discriminate.
Qed.

(* the hypotheses of ignores_after_cut are satisfiable (the same thread, repaired rule) *)
Lemma ignores_after_cut_example :
  valid_log (s9_log ++ s9_later) = true /\ existsb (is_anchor 2) s9_log = true
  /\ find (fun f => is_msg f && (2 <? fseq f)) s9_log = Some (mkf 3 BMsg)
  /\ compile fixed_params no_texts (s9_log ++ s9_later) 2 = compile fixed_params no_texts s9_log 2
  /\ compile fixed_params no_texts s9_log 2 <> None.
Proof. conjs; try (vm_compute; reflexivity). vm_compute. discriminate. Qed.

(* ------------------------------------------------------------------ the read paths agree *)
Lemma lastn_app_ge {A} n (a b : list A) : (n <= length b)%nat -> lastn n (a ++ b) = lastn n b.
Proof.
  intros H. unfold lastn. rewrite rev_app_distr, firstn_app, rev_length.
  replace (n - length b)%nat with O by lia. now rewrite firstn_O, app_nil_r.
Qed.

Lemma find_filter_implied {A} (p k : A -> bool) (l : list A) :
  (forall x, p x = true -> k x = true) -> find p (filter k l) = find p l.
Proof.
  intros H. induction l as [|x l IH]; [reflexivity|]. cbn [filter find].
  destruct (k x) eqn:K; cbn [find].
  - now rewrite IH.
  - destruct (p x) eqn:Px; [rewrite (H _ Px) in K; discriminate | exact IH].
Qed.

Lemma msg_items_ext texts e1 e2 sel :
  (forall f, In f sel -> lookup (fseq f) e1 = lookup (fseq f) e2) ->
  msg_items texts e1 sel = msg_items texts e2 sel.
Proof.
  induction sel as [|f r IH]; [reflexivity|]. intros H. cbn [msg_items].
  unfold reply_items. rewrite (H f (or_introl eq_refl)). rewrite IH; [reflexivity|].
  intros g G. apply H. now right.
Qed.

Lemma ends_for_props from m f : ends_for from m f = true ->
  is_run_ended f = true /\ fseq f <= from /\ exists r, fb f = BRunEnded r m.
Proof.
  unfold ends_for, is_run_ended. destruct (fb f) as [|r m'| |]; try discriminate.
  intros H. apply andb_true_iff in H. destruct H as [E L]. apply N.eqb_eq in E. subst. repeat split; [lia|eauto].
Qed.

(* the reply lookup sees the same thing through a projection that keeps run_ended frames *)
Lemma answered_filter keep from m l :
  (forall f, mr_keep f = true -> keep f = true) ->
  find (ends_for from m) (rev (filter keep l)) = find (ends_for from m) (rev l).
Proof.
  intros K. rewrite <- filter_rev'. apply find_filter_implied. intros x X.
  apply ends_for_props in X. destruct X as (R & _). apply K. unfold mr_keep. rewrite R. apply orb_true_r.
Qed.
Lemma answered_upto from m l :
  find (ends_for from m) (rev (upto from l)) = find (ends_for from m) (rev l).
Proof.
  unfold upto. rewrite <- filter_rev'. apply find_filter_implied. intros x X.
  apply ends_for_props in X. destruct X as (_ & L & _). lia.
Qed.

Lemma in_window_msg from after f : in_window from after f = true -> is_msg f = true.
Proof. unfold in_window. intros H. apply andb_true_iff in H. destruct H as [H _]. apply andb_true_iff in H. tauto. Qed.

Lemma window_filter_keep keep from after l :
  (forall f, mr_keep f = true -> keep f = true) ->
  filter (in_window from after) (filter keep l) = filter (in_window from after) l.
Proof.
  intros K. apply filter_filter_implied. intros x X. apply K. unfold mr_keep.
  rewrite (in_window_msg _ _ _ X). reflexivity.
Qed.

Lemma wf_refs_in l f : wf_refs l = true -> In f l -> names_earlier f = true.
Proof. unfold wf_refs. rewrite forallb_forall. auto. Qed.

Lemma in_firstn {A} n (x : list A) y : In y (firstn n x) -> In y x.
Proof.
  revert x. induction n as [|n IH]; intros x; destruct x as [|z x]; cbn [firstn]; intros H; try (now destruct H).
  destruct H as [->|H]; [now left | right; auto].
Qed.

Section PathsAgree.
  Variables (keep : frame -> bool) (l src pre evs : log) (from : N) (limit : nat).
  Hypothesis Hincr : incr l.
  Hypothesis Hwf : wf_refs l = true.
  Hypothesis Hkeep : forall f, mr_keep f = true -> keep f = true.
  Hypothesis Hsrc : src = l \/ src = upto from l.
  Hypothesis Hsplit : filter keep src = pre ++ evs.
  Hypothesis Hfull : pre = [] \/ (limit <= count_msgs_upto from evs)%nat.

  Let L := filter keep src.

  Lemma src_incr : incr src.
  Proof. destruct Hsrc as [->| ->]; [exact Hincr | apply incr_filter; exact Hincr]. Qed.
  Lemma L_incr : incr (pre ++ evs).
  Proof. rewrite <- Hsplit. apply incr_filter, src_incr. Qed.
  Lemma evs_incr : incr evs.
  Proof. exact (proj1 (proj2 (incr_app_inv _ _ L_incr))). Qed.
  Lemma pre_before x y : In x pre -> In y evs -> fseq x < fseq y.
  Proof. exact (proj2 (proj2 (incr_app_inv _ _ L_incr)) x y). Qed.

  Lemma in_L_in_l f : In f (pre ++ evs) -> In f l.
  Proof.
    rewrite <- Hsplit. intros I. apply filter_In in I. destruct I as [I _].
    destruct Hsrc as [->| ->]; [exact I|]. unfold upto in I. apply filter_In in I. tauto.
  Qed.

  Lemma window_src after : filter (in_window from after) (pre ++ evs) = filter (in_window from after) l.
  Proof.
    rewrite <- Hsplit, window_filter_keep by exact Hkeep.
    destruct Hsrc as [->| ->]; [reflexivity|]. apply upto_filter_implied. apply in_window_upto.
  Qed.

  Lemma window_agrees after :
    lastn limit (filter (in_window from after) evs) = lastn limit (filter (in_window from after) l).
  Proof.
    rewrite <- window_src, filter_app.
    destruct Hfull as [->|Hc]; [reflexivity|].
    destruct (filter (in_window from after) pre) as [|x xs] eqn:Fp; [reflexivity|].
    rewrite <- Fp. symmetry. apply lastn_app_ge.
    assert (Ix : In x (filter (in_window from after) pre)) by (rewrite Fp; now left).
    apply filter_In in Ix. destruct Ix as [Ix Wx].
    unfold count_msgs_upto in Hc.
    replace (filter (in_window from after) evs) with (filter (fun f => (fseq f <=? from) && is_msg f) evs); [exact Hc|].
    apply filter_ext_in. intros y Y. pose proof (pre_before x y Ix Y) as Lt.
    unfold in_window in *. destruct after as [a|].
    - apply andb_true_iff in Wx. destruct Wx as [_ Wa].
      replace (a <? fseq y) with true by lia. rewrite andb_true_r. apply andb_comm.
    - rewrite andb_true_r. apply andb_comm.
  Qed.

  Lemma lookup_agrees f : In f evs -> is_msg f = true ->
    lookup (fseq f) (ended_runs from evs []) = lookup (fseq f) (ended_runs from l []).
  Proof.
    intros If Mf.
    rewrite (ended_runs_spec from (fseq f) evs evs_incr []), (ended_runs_spec from (fseq f) l Hincr []).
    assert (E : find (ends_for from (fseq f)) (rev l) = find (ends_for from (fseq f)) (rev (pre ++ evs))).
    { rewrite <- Hsplit, answered_filter by exact Hkeep.
      destruct Hsrc as [->| ->]; [reflexivity | now rewrite answered_upto]. }
    rewrite E, rev_app_distr, find_app'.
    destruct (find (ends_for from (fseq f)) (rev evs)); [reflexivity|].
    rewrite find_none_intro; [reflexivity|].
    intros x X. apply in_rev in X. destruct (ends_for from (fseq f) x) eqn:Ex; [|reflexivity].
    apply ends_for_props in Ex. destruct Ex as (_ & _ & r & B).
    pose proof (pre_before x f X If) as Lt.
    assert (Il : In x l) by (apply in_L_in_l, in_or_app; now left).
    pose proof (wf_refs_in l x Hwf Il) as W. unfold names_earlier in W. rewrite B in W. lia.
  Qed.

  Lemma lastn_incl {A} n (x : list A) y : In y (lastn n x) -> In y x.
  Proof. unfold lastn. intros H. apply in_rev in H. apply in_rev. eapply in_firstn; exact H. Qed.

  Theorem compile_with_paths_agree P texts cks a : p_limit P = limit ->
    compile_with P texts evs cks from a = compile_with P texts l cks from a.
  Proof.
    intros Hl. unfold compile_with. cbv zeta. rewrite Hl.
    assert (MI : forall after,
      msg_items texts (ended_runs from evs []) (lastn limit (filter (in_window from after) evs)) =
      msg_items texts (ended_runs from l []) (lastn limit (filter (in_window from after) l))).
    { intros after. rewrite <- (window_agrees after). apply msg_items_ext. intros f F.
      apply lastn_incl in F. apply filter_In in F. destruct F as [F W].
      apply lookup_agrees; [exact F | exact (in_window_msg _ _ _ W)]. }
    destruct (hierarchy (p_fixed P) from (p_max_refs P) cks) as [|c [|c2 r]];
      rewrite ?select_recent_spec, ?select_recent_after_spec; now rewrite MI.
  Qed.
End PathsAgree.

Theorem paths_agree P texts keep l cks from a evs :
  incr l -> wf_refs l = true -> admissible_input keep (p_limit P) l from evs ->
  compile_with P texts evs cks from a = compile_with P texts l cks from a.
Proof.
  intros S W (K & src & pre & Hs & Hsp & Hf).
  exact (compile_with_paths_agree keep l src pre evs from (p_limit P) S W K Hs Hsp Hf P texts cks a eq_refl).
Qed.

(* the checkpoint sidecar / index (the projection of the stream on checkpoint frames) gives the same decision *)
Lemma ckpt_of_non f : is_ckpt f = false -> ckpt_of f = None.
Proof. unfold is_ckpt, ckpt_of. destruct (fb f); [reflexivity|reflexivity|discriminate|reflexivity]. Qed.

Lemma checkpoint_projection_agrees P texts evs l from a :
  compile_with P texts evs (filter is_ckpt l) from a = compile_with P texts evs l from a.
Proof.
  unfold compile_with, hierarchy, unique_of, latest_any.
  rewrite !fold_left_filter; [reflexivity| |].
  - intros u f K. unfold latest_step. now rewrite (ckpt_of_non f K).
  - intros u f K. unfold unique_step. now rewrite (ckpt_of_non f K).
Qed.

(* the cut point computed from a scanned tail of a projection + the head of the stream *)
Lemma first_msg_filter keep l : (forall f, is_msg f = true -> keep f = true) ->
  first_msg_seq (filter keep l) = first_msg_seq l.
Proof.
  intros K. induction l as [|f r IH]; [reflexivity|]. cbn [filter first_msg_seq].
  destruct (keep f) eqn:Kf; cbn [first_msg_seq].
  - now rewrite IH.
  - destruct (is_msg f) eqn:M; [rewrite (K f M) in Kf; discriminate | exact IH].
Qed.

Lemma cut_scan_filter keep a l : (forall f, is_msg f = true -> keep f = true) ->
  cut_scan a (filter keep l) = cut_scan a l.
Proof.
  intros K. induction l as [|f r IH]; [reflexivity|]. cbn [filter cut_scan].
  destruct (keep f) eqn:Kf; cbn [cut_scan].
  - now rewrite IH, first_msg_filter.
  - destruct (is_msg f) eqn:M; [rewrite (K f M) in Kf; discriminate | exact IH].
Qed.

Lemma cut_scan_skip a pre evs : existsb (is_anchor a) pre = false -> cut_scan a (pre ++ evs) = cut_scan a evs.
Proof.
  induction pre as [|f r IH]; [reflexivity|]. cbn [existsb app cut_scan]. intros H.
  apply orb_false_iff in H. destruct H as [A B]. unfold is_anchor in A. rewrite A. auto.
Qed.

Theorem tail_cut_agrees keep l pre evs a :
  incr l -> (forall f, mr_keep f = true -> keep f = true) ->
  filter keep l = pre ++ evs -> existsb (is_anchor a) evs = true ->
  tail_cut evs (head_seq l) a = cut_point l a.
Proof.
  intros S K Hs Ea. unfold tail_cut, cut_point. f_equal.
  assert (Km : forall f, is_msg f = true -> keep f = true).
  { intros f M. apply K. unfold mr_keep. now rewrite M. }
  rewrite <- (cut_scan_filter keep a l Km), Hs. symmetry. apply cut_scan_skip.
  assert (SL : incr (pre ++ evs)) by (rewrite <- Hs; apply incr_filter; exact S).
  destruct (incr_app_inv _ _ SL) as (_ & _ & Lt).
  destruct (existsb_anchor_in _ _ Ea) as (fa & Ia & _ & Efa).
  destruct (existsb (is_anchor a) pre) eqn:Ep; [|reflexivity].
  destruct (existsb_anchor_in _ _ Ep) as (fp & Ip & _ & Efp).
  specialize (Lt fp fa Ip Ia). lia.
Qed.

(* all read paths: any admissible window + the checkpoint projection + the cut give the full-replay result *)
Theorem all_paths_agree P texts keep l a from evs :
  incr l -> wf_refs l = true -> cut_point l a = Some from ->
  admissible_input keep (p_limit P) l from evs ->
  Some (compile_with P texts evs (filter is_ckpt l) from a) = compile P texts l a.
Proof.
  intros S W C Ad. unfold compile. rewrite C. f_equal.
  rewrite checkpoint_projection_agrees. apply (paths_agree P texts keep l l from a evs S W Ad).
Qed.

(* non-vacuity: a 20-message thread with replies; the mr tail holding the last 17 messages is admissible for
   the newest message and is not the whole projection *)
Fixpoint ex_msgs (n : nat) (s : N) : log :=
  match n with O => [] | S k => mkf s BMsg :: mkf (s + 1) (BRunEnded s s) :: mkf (s + 2) BOther :: ex_msgs k (s + 3) end.
Definition ex_log : log := mkf 0 BOther :: ex_msgs 20 1.
Definition ex_tail : log := skipn 6 (filter mr_keep ex_log).
Lemma paths_agree_example :
  valid_log ex_log = true /\ wf_refs ex_log = true /\ cut_point ex_log 58 = Some 60
  /\ filter mr_keep ex_log = firstn 6 (filter mr_keep ex_log) ++ ex_tail
  /\ firstn 6 (filter mr_keep ex_log) <> []
  /\ (16 <= count_msgs_upto 60 ex_tail)%nat
  /\ tail_cut ex_tail (head_seq ex_log) 58 = Some 60.
Proof. conjs; try (vm_compute; reflexivity); try (vm_compute; discriminate); try (vm_compute; lia). Qed.

(* ------------------------------------------------------------------ exact dependence for BOTH visibility rules:
   decision and bundle are a function of the frames at or before the cut and of the visible checkpoint frames *)
Lemma compile_with_cks_visible P texts evs l c a :
  compile_with P texts evs (filter (visible (p_fixed P) c) l) c a = compile_with P texts evs l c a.
Proof.
  unfold compile_with, hierarchy, unique_of, latest_any.
  rewrite !fold_left_filter; [reflexivity| |].
  - intros u f K. unfold latest_step. unfold visible in K. destruct (ckpt_of f); [now rewrite K | reflexivity].
  - intros u f K. unfold unique_step. unfold visible in K. destruct (ckpt_of f); [now rewrite K | reflexivity].
Qed.

Lemma compile_with_evs_upto P texts l cks c a : incr l ->
  compile_with P texts (upto c l) cks c a = compile_with P texts l cks c a.
Proof.
  intros S. unfold compile_with. cbv zeta. rewrite ended_runs_upto by exact S.
  destruct (hierarchy (p_fixed P) c (p_max_refs P) cks) as [|k [|k2 r]];
    now rewrite ?select_recent_upto, ?select_recent_after_upto.
Qed.

Theorem depends_on_prefix_and_visible P texts l a c :
  incr l -> cut_point l a = Some c ->
  compile P texts l a = Some (compile_with P texts (upto c l) (filter (visible (p_fixed P) c) l) c a).
Proof.
  intros S H. unfold compile. rewrite H. f_equal.
  now rewrite compile_with_cks_visible, compile_with_evs_upto.
Qed.

Lemma filter_none {A} (p : A -> bool) (l : list A) : (forall x, In x l -> p x = false) -> filter p l = [].
Proof.
  induction l as [|x l IH]; [reflexivity|]. intros H. cbn [filter].
  rewrite (H x (or_introl eq_refl)). apply IH. intros y Y. apply H. now right.
Qed.

(* frames appended after the cut are not noticed unless one of them is a visible checkpoint *)
Theorem ignores_after_cut_general P texts l later a g :
  valid_log (l ++ later) = true ->
  existsb (is_anchor a) l = true ->
  find (fun f => is_msg f && (a <? fseq f)) l = Some g ->
  (forall f, In f later -> visible (p_fixed P) (fseq g - 1) f = false) ->
  compile P texts (l ++ later) a = compile P texts l a.
Proof.
  intros V Ea Fg Hv.
  assert (Vl : valid_log l = true) by (eapply contig_app_l; exact V).
  pose proof (valid_incr _ V) as S. pose proof (valid_incr _ Vl) as Sl.
  set (c := fseq g - 1) in *.
  assert (C1 : cut_point l a = Some c).
  { rewrite (cut_point_spec l a Sl). unfold cut_spec. now rewrite Ea, Fg. }
  assert (C2 : cut_point (l ++ later) a = Some c).
  { rewrite (cut_point_spec _ a S). unfold cut_spec. rewrite existsb_app, Ea. cbn [orb].
    now rewrite find_app', Fg. }
  rewrite (depends_on_prefix_and_visible P texts _ a c S C2), (depends_on_prefix_and_visible P texts _ a c Sl C1).
  f_equal. rewrite upto_app, filter_app, (filter_none _ later Hv), app_nil_r.
  rewrite (upto_all_above c later); [now rewrite app_nil_r|].
  destruct (incr_app_inv _ _ S) as (_ & _ & L). apply Forall_forall. intros y Y.
  pose proof (find_some _ _ Fg) as [Ig _]. specialize (L g y Ig Y). unfold c. lia.
Qed.

Lemma ignores_after_cut_general_example :
  valid_log (s9_log ++ [mkf 4 BMsg; mkf 5 (BCkpt true 4 0); mkf 6 (BRunEnded 0 1)]) = true
  /\ existsb (is_anchor 2) s9_log = true
  /\ find (fun f => is_msg f && (2 <? fseq f)) s9_log = Some (mkf 3 BMsg)
  /\ forallb (fun f => negb (visible false (3 - 1) f)) [mkf 4 BMsg; mkf 5 (BCkpt true 4 0); mkf 6 (BRunEnded 0 1)] = true.
Proof. conjs; vm_compute; reflexivity. Qed.

(* ------------------------------------------------------------------ S24: a compile racing with an append.
   The tail path reads the messages from the mr sidecar and the head from the full sidecar; an append writes the
   full sidecar first.  In between, the input is (mr projection of l, head of l ++ [f]): the cut is then neither the
   cut of l nor the cut of l ++ [f] when f is a message. *)
Definition race_log : log := [mkf 0 BOther; mkf 1 BMsg; mkf 2 BMsg].
Definition race_frame : frame := mkf 3 BMsg.
Lemma racing_cut_refuted :
  exists l f a,
    valid_log (l ++ [f]) = true
    /\ tail_cut (filter mr_keep l) (head_seq (l ++ [f])) a <> cut_point l a
    /\ tail_cut (filter mr_keep l) (head_seq (l ++ [f])) a <> cut_point (l ++ [f]) a.
Proof. exists race_log, race_frame, 2. conjs; vm_compute; [reflexivity | discriminate | discriminate]. Qed.

(* with the projection and the head of the SAME thread state the tail path is right: tail_cut_agrees; and an
   appended frame that is not in the mr projection linearizes to "after" *)
Lemma racing_cut_non_mr_frame keep l f a :
  incr (l ++ [f]) -> (forall g, mr_keep g = true -> keep g = true) -> keep f = false ->
  existsb (is_anchor a) (filter keep l) = true ->
  tail_cut (filter keep l) (head_seq (l ++ [f])) a = cut_point (l ++ [f]) a.
Proof.
  intros S K Kf Ea.
  apply (tail_cut_agrees keep (l ++ [f]) [] (filter keep l) a S K); [|exact Ea].
  rewrite filter_app. cbn [filter]. rewrite Kf. now rewrite app_nil_r.
Qed.


Lemma cut_scan_some_anchor a evs r : cut_scan a evs = Some r -> existsb (is_anchor a) evs = true.
Proof.
  induction evs as [|f e IH]; [discriminate|]. cbn [cut_scan existsb]. fold (is_anchor a f).
  destruct (is_anchor a f); [reflexivity|]. cbn [orb]. exact IH.
Qed.

(* the fix (head_seq_seen_by_messages_runs_v1): with the head the repaired readers use, a compile that runs while the
   frame f is being appended (full sidecar written; mr sidecar not yet, or already) takes the cut of the thread before the
   append when f belongs in the mr sidecar and is not there yet, and the cut of the thread after it otherwise *)
Lemma last_frame_app l f : last_frame (l ++ [f]) = Some f.
Proof.
  unfold last_frame. rewrite map_app. cbn [map].
  induction (map Some l) as [|x r IH]; [reflexivity|]. cbn [app]. destruct (r ++ [Some f]) eqn:E.
  - destruct r; discriminate.
  - exact IH.
Qed.

Lemma last_frame_in l g : last_frame l = Some g -> In g l.
Proof.
  unfold last_frame. induction l as [|x r IH]; [discriminate|]. cbn [map last].
  destruct (map Some r) eqn:E.
  - intros H. inversion H. now left.
  - intros H. right. apply IH. exact H.
Qed.

Lemma head_seq_app l f : head_seq (l ++ [f]) = fseq f.
Proof.
  unfold head_seq. rewrite map_app. cbn [map].
  induction (map fseq l) as [|x r IH]; [reflexivity|]. cbn [app]. destruct (r ++ [fseq f]) eqn:E.
  - destruct r; discriminate.
  - exact IH.
Qed.

Lemma head_seen_unfixed full mr : head_seen false full mr = match last_frame full with Some f => fseq f | None => 0 end.
Proof. unfold head_seen. destruct (last_frame full); reflexivity. Qed.

Lemma contig_last b l f : contig_from b (l ++ [f]) = true -> fseq f = b + N.of_nat (length l).
Proof.
  revert b. induction l as [|x r IH]; intros b H.
  - cbn in H. apply andb_true_iff in H. destruct H as [E _]. apply N.eqb_eq in E. cbn. lia.
  - cbn [app contig_from] in H. apply andb_true_iff in H. destruct H as [_ C].
    rewrite (IH _ C). cbn [length]. lia.
Qed.

Lemma contig_head b l : contig_from b l = true -> l <> [] -> head_seq l + 1 = b + N.of_nat (length l).
Proof.
  intros C Ne. destruct (exists_last Ne) as (l' & x & ->).
  rewrite head_seq_app, (contig_last b l' x C), app_length. cbn [length]. lia.
Qed.

Theorem racing_append_linearizes l f a :
  valid_log (l ++ [f]) = true -> l <> [] ->
  existsb (is_anchor a) (filter mr_keep l) = true ->
  tail_cut (filter mr_keep l) (head_seen true (l ++ [f]) (filter mr_keep l)) a
    = (if mr_keep f then cut_point l a else cut_point (l ++ [f]) a)
  /\ tail_cut (filter mr_keep (l ++ [f])) (head_seen true (l ++ [f]) (filter mr_keep (l ++ [f]))) a
    = cut_point (l ++ [f]) a.
Proof.
  intros V Ne Ea. pose proof (valid_incr _ V) as S.
  destruct (incr_app_inv _ _ S) as (Sl & _ & Lt).
  unfold head_seen. rewrite last_frame_app. cbn [andb]. split.
  - destruct (mr_keep f) eqn:Kf; cbn [andb].
    + assert (C : (match last_frame (filter mr_keep l) with Some g => fseq g <? fseq f | None => true end) = true).
      { destruct (last_frame (filter mr_keep l)) as [g|] eqn:Lg; [|reflexivity].
        apply last_frame_in in Lg. apply filter_In in Lg. destruct Lg as [Ig _].
        specialize (Lt g f Ig (or_introl eq_refl)). lia. }
      rewrite C.
      assert (H : fseq f - 1 = head_seq l).
      { unfold valid_log in V. pose proof (contig_last 0 l f V) as E1.
        pose proof (contig_head 0 l (contig_app_l 0 l [f] V) Ne) as E2. lia. }
      rewrite H. apply (tail_cut_agrees mr_keep l [] (filter mr_keep l) a Sl (fun g K => K) eq_refl Ea).
    + rewrite <- (head_seq_app l f). apply (racing_cut_non_mr_frame mr_keep l f a S (fun g K => K) Kf Ea).
  - assert (C : (mr_keep f && (match last_frame (filter mr_keep (l ++ [f])) with Some g => fseq g <? fseq f | None => true end)) = false).
    { destruct (mr_keep f) eqn:Kf; [|reflexivity]. cbn [andb].
      rewrite filter_app. cbn [filter]. rewrite Kf, last_frame_app. lia. }
    rewrite C. rewrite <- (head_seq_app l f).
    apply (tail_cut_agrees mr_keep (l ++ [f]) [] (filter mr_keep (l ++ [f])) a S (fun g K => K) eq_refl).
    rewrite filter_app, existsb_app, Ea. reflexivity.
Qed.

(* ... and so do decision and bundle (the checkpoint source is the checkpoint sidecar, which a frame that is not a
   checkpoint does not touch) *)
Theorem racing_compile_linearizes P texts l f a from :
  valid_log (l ++ [f]) = true -> wf_refs (l ++ [f]) = true -> l <> [] -> is_ckpt f = false ->
  tail_cut (filter mr_keep l) (head_seen true (l ++ [f]) (filter mr_keep l)) a = Some from ->
  Some (compile_with P texts (filter mr_keep l) (filter is_ckpt l) from a)
  = if mr_keep f then compile P texts l a else compile P texts (l ++ [f]) a.
Proof.
  intros V W Ne Ck Tc. pose proof (valid_incr _ V) as S.
  destruct (incr_app_inv _ _ S) as (Sl & _ & _).
  assert (Ea : existsb (is_anchor a) (filter mr_keep l) = true).
  { unfold tail_cut in Tc. destruct (cut_scan a (filter mr_keep l)) eqn:Cs; [|discriminate]. eapply cut_scan_some_anchor; exact Cs. }
  destruct (racing_append_linearizes l f a V Ne Ea) as [R _]. rewrite Tc in R.
  unfold wf_refs in W. rewrite forallb_app in W. apply andb_true_iff in W. destruct W as [Wl Wf].
  destruct (mr_keep f) eqn:Kf.
  - apply (all_paths_agree P texts mr_keep l a from (filter mr_keep l) Sl Wl (eq_sym R)).
    split; [auto|]. exists l, []. repeat split; [now left|now left].
  - assert (Ec : filter is_ckpt l = filter is_ckpt (l ++ [f])).
    { rewrite filter_app. cbn [filter]. rewrite Ck. now rewrite app_nil_r. }
    rewrite Ec.
    apply (all_paths_agree P texts mr_keep (l ++ [f]) a from (filter mr_keep l) S); [|exact (eq_sym R)|].
    + unfold wf_refs. rewrite forallb_app, Wl, Wf. reflexivity.
    + split; [auto|]. exists (l ++ [f]), []. repeat split; [now left| |now left].
      rewrite filter_app. cbn [filter app]. rewrite Kf. now rewrite app_nil_r.
Qed.

(* A compile that SPANS complete appends: the head was read from the thread l, the mr sidecar (and the checkpoint caches)
   after `later` had been appended completely.  The cut is the cut of the thread after the appends when one of them is a
   message, and the cut of the thread before them otherwise (frames beyond the cut are then ignored by the compiler). *)
Lemma first_msg_app x y : first_msg_seq (x ++ y) = match first_msg_seq x with Some n => Some n | None => first_msg_seq y end.
Proof.
  induction x as [|f r IH]; [reflexivity|]. cbn [app first_msg_seq]. destruct (is_msg f); [reflexivity|exact IH].
Qed.

Lemma first_msg_none l : existsb is_msg l = false -> first_msg_seq l = None.
Proof.
  induction l as [|f r IH]; [reflexivity|]. cbn [existsb first_msg_seq]. destruct (is_msg f); [discriminate|exact IH].
Qed.

Lemma first_msg_some l : existsb is_msg l = true -> exists n, first_msg_seq l = Some n.
Proof.
  induction l as [|f r IH]; [discriminate|]. cbn [existsb first_msg_seq]. destruct (is_msg f); [eauto|exact IH].
Qed.

Lemma cut_scan_app_anchor a x y : existsb (is_anchor a) x = true ->
  cut_scan a (x ++ y)
  = option_map (fun r => (fst r, match snd r with Some n => Some n | None => first_msg_seq y end)) (cut_scan a x).
Proof.
  induction x as [|f r IH]; [discriminate|]. cbn [existsb app cut_scan]. fold (is_anchor a f).
  destruct (is_anchor a f) eqn:A.
  - intros _. cbn [option_map fst snd]. now rewrite first_msg_app.
  - cbn [orb]. exact IH.
Qed.

Lemma existsb_filter_keep (p keep : frame -> bool) l : (forall f, p f = true -> keep f = true) ->
  existsb p (filter keep l) = existsb p l.
Proof.
  intros K. induction l as [|f r IH]; [reflexivity|]. cbn [filter existsb].
  destruct (keep f) eqn:Kf; cbn [existsb]; rewrite IH; [reflexivity|].
  destruct (p f) eqn:Pf; [rewrite (K f Pf) in Kf; discriminate|reflexivity].
Qed.

Theorem span_cut_linearizes l later a :
  incr (l ++ later) -> existsb (is_anchor a) (filter mr_keep l) = true ->
  tail_cut (filter mr_keep (l ++ later)) (head_seq l) a
  = if existsb is_msg later then cut_point (l ++ later) a else cut_point l a.
Proof.
  intros S Ea. destruct (incr_app_inv _ _ S) as (Sl & _ & _).
  assert (Km : forall f, is_msg f = true -> mr_keep f = true) by (intros f M; unfold mr_keep; now rewrite M).
  pose proof (tail_cut_agrees mr_keep l [] (filter mr_keep l) a Sl (fun g K => K) eq_refl Ea) as Tl.
  unfold tail_cut in *. rewrite filter_app, (cut_scan_app_anchor a _ _ Ea).
  destruct (cut_scan a (filter mr_keep l)) as [[m nx]|] eqn:Cs; cbn [option_map fst snd] in *.
  2:{ unfold cut_point in Tl. destruct (existsb is_msg later); [|exact Tl].
      (* no anchor: impossible *)
      assert (X : existsb (is_anchor a) (filter mr_keep l) = false).
      { clear -Cs. induction (filter mr_keep l) as [|f r IH]; [reflexivity|]. cbn [cut_scan existsb] in *. fold (is_anchor a f) in *.
        destruct (is_anchor a f); [discriminate|]. cbn [orb]. now apply IH. }
      rewrite X in Ea. discriminate. }
  rewrite (first_msg_filter mr_keep later Km).
  destruct (existsb is_msg later) eqn:Em.
  - (* a message among the appended frames: the cut of the thread after the appends *)
    assert (Ea' : existsb (is_anchor a) (filter mr_keep (l ++ later)) = true) by (rewrite filter_app, existsb_app, Ea; reflexivity).
    pose proof (tail_cut_agrees mr_keep (l ++ later) [] (filter mr_keep (l ++ later)) a S (fun g K => K) eq_refl Ea') as Ta.
    unfold tail_cut in Ta. rewrite filter_app, (cut_scan_app_anchor a _ _ Ea), Cs in Ta. cbn [option_map fst snd] in Ta.
    rewrite (first_msg_filter mr_keep later Km) in Ta. rewrite <- Ta.
    destruct nx as [n|]; [reflexivity|]. destruct (first_msg_some later Em) as (n & ->). reflexivity.
  - rewrite (first_msg_none later Em). rewrite <- Tl. destruct nx; reflexivity.
Qed.

Lemma head_seq_in l : l <> [] -> exists f, In f l /\ fseq f = head_seq l.
Proof.
  intros Ne. destruct (exists_last Ne) as (l' & x & ->). exists x. split; [apply in_or_app; right; now left|].
  now rewrite head_seq_app.
Qed.

Lemma cut_point_le_head l a c : incr l -> cut_point l a = Some c -> c <= head_seq l.
Proof.
  intros S. rewrite (cut_point_spec l a S). unfold cut_spec.
  destruct (existsb (is_anchor a) l); [|discriminate].
  destruct (find (fun f => is_msg f && (a <? fseq f)) l) as [n|] eqn:F; intros H; inversion H; subst c; [|lia].
  apply find_some in F. destruct F as [In_ _]. pose proof (head_seq_ge l S n In_). lia.
Qed.

(* ... and decision and bundle, when none of the appended frames is a checkpoint (a checkpoint appended in between is
   found by the lookups that run afterwards: the S9 shape, open) *)
Theorem span_compile_linearizes P texts l later a from :
  valid_log (l ++ later) = true -> wf_refs (l ++ later) = true -> l <> [] ->
  forallb (fun f => negb (is_ckpt f)) later = true ->
  existsb (is_anchor a) (filter mr_keep l) = true ->
  tail_cut (filter mr_keep (l ++ later)) (head_seq l) a = Some from ->
  Some (compile_with P texts (filter mr_keep (l ++ later)) (filter is_ckpt (l ++ later)) from a)
  = if existsb is_msg later then compile P texts (l ++ later) a else compile P texts l a.
Proof.
  intros V W Ne Nc Ea Tc. pose proof (valid_incr _ V) as S.
  destruct (incr_app_inv _ _ S) as (Sl & _ & Lt).
  pose proof (span_cut_linearizes l later a S Ea) as R. rewrite Tc in R.
  destruct (existsb is_msg later) eqn:Em.
  - apply (all_paths_agree P texts mr_keep (l ++ later) a from _ S W (eq_sym R)).
    split; [auto|]. exists (l ++ later), []. repeat split; [now left|now left].
  - (* the cut is the cut of l; the appended frames lie beyond it and none is a checkpoint *)
    assert (Ec : filter is_ckpt (l ++ later) = filter is_ckpt l).
    { rewrite filter_app. replace (filter is_ckpt later) with (@nil frame); [now rewrite app_nil_r|].
      symmetry. apply filter_none. intros f F. rewrite forallb_forall in Nc. specialize (Nc f F). now destruct (is_ckpt f). }
    rewrite Ec.
    pose proof (cut_point_le_head l a from Sl (eq_sym R)) as Hf.
    destruct (head_seq_in l Ne) as (hf & Ih & Eh).
    assert (Ab : Forall (fun g => from < fseq g) (filter mr_keep later)).
    { apply Forall_forall. intros g G. apply filter_In in G. destruct G as [G _]. specialize (Lt hf g Ih G). lia. }
    assert (Su : incr (filter mr_keep (l ++ later))) by (apply incr_filter; exact S).
    rewrite <- (compile_with_evs_upto P texts (filter mr_keep (l ++ later)) (filter is_ckpt l) from a Su).
    rewrite filter_app, upto_app, (upto_all_above from _ Ab), app_nil_r.
    rewrite (compile_with_evs_upto P texts (filter mr_keep l) (filter is_ckpt l) from a (incr_filter mr_keep l Sl)).
    unfold wf_refs in W. rewrite forallb_app in W. apply andb_true_iff in W. destruct W as [Wl _].
    apply (all_paths_agree P texts mr_keep l a from (filter mr_keep l) Sl Wl (eq_sym R)).
    split; [auto|]. exists l, []. repeat split; [now left|now left].
Qed.

Lemma span_example :
  valid_log (race_log ++ [mkf 3 (BRunEnded 0 2); mkf 4 BOther]) = true
  /\ tail_cut (filter mr_keep (race_log ++ [mkf 3 (BRunEnded 0 2); mkf 4 BOther])) (head_seq race_log) 2 = Some 2
  /\ tail_cut (filter mr_keep (race_log ++ [mkf 3 BOther; mkf 4 BMsg])) (head_seq race_log) 2 = Some 3
  /\ cut_point (race_log ++ [mkf 3 BOther; mkf 4 BMsg]) 2 = Some 3.
Proof. conjs; vm_compute; reflexivity. Qed.

(* S25: a checkpoint frame in flight.  The head is the checkpoint frame (it is not in the mr projection); the repaired
   lookups notice that the checkpoint caches do not hold it yet and answer from the stream: the thread after the append *)
Theorem racing_checkpoint_linearizes P texts l f a from :
  valid_log (l ++ [f]) = true -> wf_refs (l ++ [f]) = true -> is_ckpt f = true ->
  tail_cut (filter mr_keep l) (head_seen true (l ++ [f]) (filter mr_keep l)) a = Some from ->
  Some (compile_with P texts (filter mr_keep l) (ckpts_seen true (l ++ [f]) (filter is_ckpt l)) from a)
  = compile P texts (l ++ [f]) a.
Proof.
  intros V W Ck Tc. pose proof (valid_incr _ V) as S.
  destruct (incr_app_inv _ _ S) as (_ & _ & Lt).
  assert (Ea : existsb (is_anchor a) (filter mr_keep l) = true).
  { unfold tail_cut in Tc. destruct (cut_scan a (filter mr_keep l)) eqn:Cs; [|discriminate]. eapply cut_scan_some_anchor; exact Cs. }
  assert (Ne : l <> []) by (intros ->; discriminate Ea).
  assert (Kf : mr_keep f = false).
  { unfold mr_keep, is_msg, is_run_ended. unfold is_ckpt in Ck. destruct (fb f); try discriminate; reflexivity. }
  destruct (racing_append_linearizes l f a V Ne Ea) as [R _]. rewrite Tc, Kf in R.
  assert (Cs : ckpts_seen true (l ++ [f]) (filter is_ckpt l) = filter is_ckpt (l ++ [f])).
  { unfold ckpts_seen. rewrite last_frame_app, Ck. cbn [andb].
    destruct (last_frame (filter is_ckpt l)) as [g|] eqn:Lg; [|reflexivity].
    apply last_frame_in in Lg. apply filter_In in Lg. destruct Lg as [Ig _].
    specialize (Lt g f Ig (or_introl eq_refl)). replace (fseq g <? fseq f) with true by lia. reflexivity. }
  rewrite Cs.
  apply (all_paths_agree P texts mr_keep (l ++ [f]) a from (filter mr_keep l) S W (eq_sym R)).
  split; [auto|]. exists (l ++ [f]), []. repeat split; [now left| |now left].
  rewrite filter_app. cbn [filter app]. rewrite Kf. now rewrite app_nil_r.
Qed.

(* before that fix: cut = the checkpoint frame, checkpoints = those of the thread before it: neither state of the thread *)
Definition race_ckpt : frame := mkf 3 (BCkpt true 1 0).
Lemma racing_checkpoint_unfixed_refuted :
  valid_log (race_log ++ [race_ckpt]) = true /\ wf_refs (race_log ++ [race_ckpt]) = true
  /\ tail_cut (filter mr_keep race_log) (head_seen true (race_log ++ [race_ckpt]) (filter mr_keep race_log)) 2 = Some 3
  /\ Some (compile_with unfixed_params no_texts (filter mr_keep race_log) (ckpts_seen false (race_log ++ [race_ckpt]) (filter is_ckpt race_log)) 3 2)
     <> compile unfixed_params no_texts race_log 2
  /\ Some (compile_with unfixed_params no_texts (filter mr_keep race_log) (ckpts_seen false (race_log ++ [race_ckpt]) (filter is_ckpt race_log)) 3 2)
     <> compile unfixed_params no_texts (race_log ++ [race_ckpt]) 2
  /\ option_map (fun r => b_items (snd r)) (compile unfixed_params no_texts (race_log ++ [race_ckpt]) 2) = Some [ISummary 0 1; IUser 2].
Proof. conjs; try (vm_compute; reflexivity); vm_compute; discriminate. Qed.

(* the code before the fix is the `fixed = false` head: racing_cut_refuted in terms of head_seen *)
Lemma racing_cut_unfixed_refuted :
  valid_log (race_log ++ [race_frame]) = true /\ race_log <> []
  /\ existsb (is_anchor 2) (filter mr_keep race_log) = true
  /\ tail_cut (filter mr_keep race_log) (head_seen false (race_log ++ [race_frame]) (filter mr_keep race_log)) 2 = Some 3
  /\ cut_point race_log 2 = Some 2 /\ cut_point (race_log ++ [race_frame]) 2 = Some 2
  /\ tail_cut (filter mr_keep race_log) (head_seen true (race_log ++ [race_frame]) (filter mr_keep race_log)) 2 = Some 2.
Proof. conjs; try (vm_compute; reflexivity). discriminate. Qed.

(* ------------------------------------------------------------------ checkpoint selection: characterization *)
Definition ckpts (l : log) : list ckpt :=
  flat_map (fun f => match ckpt_of f with Some c => [c] | None => [] end) l.
(* the checkpoints a compile for `from` may use: visible, cumulative *)
Definition elig (fixed : bool) (from : N) (l : log) : list ckpt :=
  filter (fun c => eligible fixed from c && ck_cum c) (ckpts l).

Fixpoint asc (u : list ckpt) : Prop :=
  match u with [] => True | d :: r => Forall (fun e => ck_to d < ck_to e) r /\ asc r end.

Definition insl (u : list ckpt) (E : list ckpt) : list ckpt := fold_left (fun u c => ins c u) E u.

Lemma unique_of_insl fixed from l : unique_of fixed from l = insl [] (elig fixed from l).
Proof.
  unfold unique_of, insl. generalize (@nil ckpt) as u.
  induction l as [|f r IH]; intros u; [reflexivity|].
  cbn [fold_left]. rewrite IH. unfold elig, ckpts. cbn [flat_map]. rewrite filter_app, fold_left_app.
  f_equal. unfold unique_step. destruct (ckpt_of f) as [c|]; [|reflexivity].
  cbn [filter]. destruct (eligible fixed from c && ck_cum c); reflexivity.
Qed.

Lemma ins_in c u d : In d (ins c u) -> d = c \/ In d u.
Proof.
  induction u as [|x r IH]; cbn [ins]; [intros [<-|[]]; now left|].
  destruct (ck_to c <? ck_to x).
  - intros [<-|H]; [now left | now right].
  - destruct (ck_to c =? ck_to x).
    + destruct (ck_seq c <=? ck_seq x); intros [<-|H]; auto; [right; now left | right; now right | right; now right].
    + intros [<-|H]; [right; now left|]. destruct (IH H) as [->|H']; [now left | right; now right].
Qed.

Lemma ins_asc c u : asc u -> asc (ins c u).
Proof.
  induction u as [|x r IH]; cbn [ins asc]; [intros _; split; [constructor|exact I]|].
  intros [F A]. destruct (ck_to c <? ck_to x) eqn:L.
  - cbn [asc]. split; [|split; assumption]. constructor; [lia|].
    eapply Forall_impl; [|exact F]. cbn. intros; lia.
  - destruct (ck_to c =? ck_to x) eqn:E.
    + apply N.eqb_eq in E. destruct (ck_seq c <=? ck_seq x); cbn [asc]; split; auto.
      eapply Forall_impl; [|exact F]. cbn. intros; lia.
    + cbn [asc]. split; [|auto]. apply Forall_forall. intros d D.
      destruct (ins_in _ _ _ D) as [->|D']; [lia|]. rewrite Forall_forall in F. auto.
Qed.

(* c itself is represented after the insertion ... *)
Lemma ins_covers_new c u : exists d, In d (ins c u) /\ ck_to d = ck_to c /\ ck_seq c <= ck_seq d.
Proof.
  induction u as [|x r IH]; cbn [ins]; [exists c; repeat split; [now left|lia]|].
  destruct (ck_to c <? ck_to x); [exists c; repeat split; [now left|lia]|].
  destruct (ck_to c =? ck_to x) eqn:E.
  - apply N.eqb_eq in E. destruct (ck_seq c <=? ck_seq x) eqn:S.
    + exists x. repeat split; [now left|lia|lia].
    + exists c. repeat split; [now left|lia].
  - destruct IH as (d & I & T & S). exists d. repeat split; [now right|assumption|assumption].
Qed.
(* ... and so is everything that was *)
Lemma ins_covers_old c u d : In d u -> exists d', In d' (ins c u) /\ ck_to d' = ck_to d /\ ck_seq d <= ck_seq d'.
Proof.
  induction u as [|x r IH]; [intros []|]. cbn [ins]. intros D.
  destruct (ck_to c <? ck_to x); [exists d; repeat split; [now right|lia]|].
  destruct (ck_to c =? ck_to x) eqn:E.
  - apply N.eqb_eq in E. destruct (ck_seq c <=? ck_seq x) eqn:S.
    + exists d. repeat split; [exact D|lia].
    + destruct D as [<-|D]; [exists c; repeat split; [now left|lia|lia] | exists d; repeat split; [now right|lia]].
  - destruct D as [<-|D]; [exists x; repeat split; [now left|lia]|].
    destruct (IH D) as (d' & I & T & S). exists d'. repeat split; [now right|assumption|assumption].
Qed.

Definition covers (u S : list ckpt) : Prop :=
  forall e, In e S -> exists d, In d u /\ ck_to d = ck_to e /\ ck_seq e <= ck_seq d.

Lemma insl_inv E : forall u S, asc u -> incl u S -> covers u S ->
  asc (insl u E) /\ incl (insl u E) (S ++ E) /\ covers (insl u E) (S ++ E).
Proof.
  induction E as [|c E IH]; intros u S A I C.
  - unfold insl. cbn [fold_left]. rewrite app_nil_r. auto.
  - unfold insl. cbn [fold_left]. fold (insl (ins c u) E).
    replace (S ++ c :: E) with ((S ++ [c]) ++ E) by (rewrite <- app_assoc; reflexivity).
    apply IH.
    + apply ins_asc, A.
    + intros d D. apply in_or_app. destruct (ins_in _ _ _ D) as [->|D']; [right; now left | left; auto].
    + intros e Ie. apply in_app_or in Ie. destruct Ie as [Ie|[<-|[]]].
      * destruct (C e Ie) as (d & Id & T & Sq). destruct (ins_covers_old c u d Id) as (d' & I' & T' & S').
        exists d'. repeat split; [assumption|lia|lia].
      * apply ins_covers_new.
Qed.

Lemma unique_of_inv fixed from l : let U := unique_of fixed from l in let E := elig fixed from l in
  asc U /\ incl U E /\ covers U E.
Proof.
  cbv zeta. rewrite unique_of_insl.
  destruct (insl_inv (elig fixed from l) [] [] I (fun _ H => match H with end) (fun _ H => match H with end)) as (A & B & C).
  auto.
Qed.

(* ---- the largest entry at or below a threshold *)
Lemma find_le_spec t u : asc u -> forall best,
  (forall b, best = Some b -> ck_to b <= t /\ Forall (fun d => ck_to b < ck_to d) u) ->
  match find_le t u best with
  | Some c => (best = Some c \/ In c u) /\ ck_to c <= t
              /\ (forall d, In d u -> ck_to d <= t -> ck_to d <= ck_to c)
  | None => best = None /\ forall d, In d u -> t < ck_to d
  end.
Proof.
  induction u as [|x r IH]; intros A best Hb.
  - cbn [find_le]. destruct best as [b|].
    + destruct (Hb b eq_refl) as [L _]. repeat split; [now left|exact L|intros d []].
    + split; [reflexivity|intros d []].
  - destruct A as [F A]. cbn [find_le]. destruct (ck_to x <=? t) eqn:L.
    + specialize (IH A (Some x)).
      assert (Hx : forall b, Some x = Some b -> ck_to b <= t /\ Forall (fun d => ck_to b < ck_to d) r).
      { intros b Eb. inversion Eb; subst. split; [lia|exact F]. }
      specialize (IH Hx). destruct (find_le t r (Some x)) as [c|].
      * destruct IH as (Hin & Lc & Mx). repeat split; [|exact Lc|].
        -- destruct Hin as [Hin|Hin]; [inversion Hin; subst; right; now left | right; now right].
        -- intros d [<-|D] Ld; [|auto]. destruct Hin as [Hin|Hin]; [inversion Hin; lia|].
           rewrite Forall_forall in F. specialize (F c Hin). lia.
      * destruct IH as [Abs _]. discriminate.
    + destruct best as [b|].
      * destruct (Hb b eq_refl) as [Lb Fb]. repeat split; [now left|exact Lb|].
        intros d D Ld. rewrite Forall_forall in Fb, F. destruct D as [<-|D]; [lia|]. specialize (F d D). lia.
      * split; [reflexivity|]. intros d [<-|D]; [lia|]. rewrite Forall_forall in F. specialize (F d D). lia.
Qed.

(* ---- the halving ladder: each next entry is the largest one at or below half of the previous to_seq *)
Fixpoint ladder (u : list ckpt) (hi : N) (l : list ckpt) : Prop :=
  match l with
  | [] => True
  | lo :: r => In lo u /\ ck_to lo <= hi / 2 /\ (forall d, In d u -> ck_to d <= hi / 2 -> ck_to d <= ck_to lo)
               /\ ladder u (ck_to lo) r
  end.

Lemma halve_ladder u : asc u -> forall k cur, ladder u cur (halve u cur k).
Proof.
  intros A. induction k as [|k IH]; intros cur; [exact I|]. cbn [halve].
  destruct (cur <=? 1); [exact I|]. cbv zeta. destruct (cur / 2 =? 0); [exact I|].
  pose proof (find_le_spec (cur / 2) u A None (fun b H => match H with end)) as S. cbv beta in S.
  assert (S' := S). clear S.
  destruct (find_le (cur / 2) u None) as [c|]; [|exact I].
  destruct S' as (Hin & Lc & Mx). destruct (cur <=? ck_to c); [exact I|].
  cbn [ladder]. destruct Hin as [Hin|Hin]; [discriminate|]. repeat split; auto.
Qed.

Lemma halve_length u k : forall cur, (length (halve u cur k) <= k)%nat.
Proof.
  induction k as [|k IH]; intros cur; [cbn; lia|]. cbn [halve].
  destruct (cur <=? 1); [cbn; lia|]. cbv zeta. destruct (cur / 2 =? 0); [cbn; lia|].
  destruct (find_le (cur / 2) u None) as [c|]; [|cbn; lia].
  destruct (cur <=? ck_to c); [cbn; lia|]. cbn [length]. specialize (IH (ck_to c)). lia.
Qed.

Lemma last_default_irrel (l : list N) : forall x d1 d2, last (x :: l) d1 = last (x :: l) d2.
Proof. induction l as [|y l IH]; intros x d1 d2; [reflexivity|]. cbn [last] in *. apply (IH y). Qed.

(* the loop stops early only when there is nothing at or below half of the last to_seq (or it is <= 1) *)
Lemma halve_complete u : asc u -> forall k cur, (length (halve u cur k) < k)%nat ->
  let final := last (map ck_to (halve u cur k)) cur in
  final <= 1 \/ forall d, In d u -> final / 2 < ck_to d.
Proof.
  intros A. induction k as [|k IH]; intros cur Hl; [cbn in Hl; lia|]. cbn [halve] in *.
  destruct (cur <=? 1) eqn:C1; [left; cbn; lia|]. cbv zeta in *.
  destruct (cur / 2 =? 0) eqn:T0.
  { exfalso. assert (2 <= cur) by lia. pose proof (N.div_le_lower_bound cur 2 1). lia. }
  pose proof (find_le_spec (cur / 2) u A None (fun b H => match H with end)) as S. cbv beta in S.
  destruct (find_le (cur / 2) u None) as [c|].
  - destruct S as (Hin & Lc & Mx). destruct (cur <=? ck_to c) eqn:Cc.
    { exfalso. assert (cur / 2 < cur) by (apply N.div_lt; lia). lia. }
    cbn [length] in Hl. assert (Hk : (length (halve u (ck_to c) k) < k)%nat) by lia.
    specialize (IH (ck_to c) Hk). cbn [map].
    destruct (halve u (ck_to c) k) as [|y ys] eqn:Hv; [cbn [map last] in *; exact IH|].
    cbn [map] in *. change (last (ck_to c :: ck_to y :: map ck_to ys) cur) with (last (ck_to y :: map ck_to ys) cur).
    rewrite (last_default_irrel (map ck_to ys) (ck_to y) cur (ck_to c)). exact IH.
  - destruct S as [_ S]. right. cbn [map last]. exact S.
Qed.

Lemma asc_inj u : asc u -> forall a b, In a u -> In b u -> ck_to a = ck_to b -> a = b.
Proof.
  induction u as [|x r IH]; [intros _ a b []|]. intros [F A] a b [<-|Ia] [<-|Ib] E; auto.
  - rewrite Forall_forall in F. specialize (F b Ib). lia.
  - rewrite Forall_forall in F. specialize (F a Ia). lia.
Qed.

Lemma asc_app_inv a b : asc (a ++ b) -> asc a /\ asc b /\ forall x y, In x a -> In y b -> ck_to x < ck_to y.
Proof.
  induction a as [|f a IH]; cbn [app asc].
  - intros H. repeat split; auto. intros x y [].
  - intros [F S]. destruct (IH S) as (Ia & Ib & L). rewrite Forall_app in F. destruct F as [Fa Fb].
    repeat split; auto. intros x y [<-|X] Y; [|auto]. rewrite Forall_forall in Fb. auto.
Qed.

Lemma asc_last_max u x r : asc u -> rev u = x :: r -> In x u /\ forall d, In d u -> ck_to d <= ck_to x.
Proof.
  intros A R. assert (U : u = rev r ++ [x]) by (rewrite <- (rev_involutive u), R; reflexivity).
  subst u. split; [apply in_or_app; right; now left|].
  destruct (asc_app_inv _ _ A) as (_ & _ & L). intros d D. apply in_app_or in D.
  destruct D as [D|[<-|[]]]; [|lia]. specialize (L d x D (or_introl eq_refl)). lia.
Qed.

Fixpoint ladderE (E : list ckpt) (hi : N) (l : list ckpt) : Prop :=
  match l with
  | [] => True
  | lo :: r =>
    In lo E /\ ck_to lo <= hi / 2
    /\ (forall e, In e E -> ck_to e <= hi / 2 ->
          ck_to e <= ck_to lo /\ (ck_to e = ck_to lo -> ck_seq e <= ck_seq lo))
    /\ ladderE E (ck_to lo) r
  end.

Lemma ladder_transfer U E : asc U -> incl U E -> covers U E ->
  forall l hi, ladder U hi l -> ladderE E hi l.
Proof.
  intros A I C. induction l as [|lo r IH]; intros hi; [auto|]. cbn [ladder ladderE].
  intros (Il & Ll & Mx & Rest). repeat split; auto.
  - destruct (C e H) as (d & Id & T & S). specialize (Mx d Id). lia.
  - intros Eq. destruct (C e H) as (d & Id & T & S).
    assert (d = lo) by (apply (asc_inj U A); auto; lia). subst d. exact S.
Qed.

Lemma ladder_incl U : forall l hi, ladder U hi l -> incl l U.
Proof.
  induction l as [|x r IH]; intros hi; [intros _ c []|]. cbn [ladder].
  intros (Ix & _ & _ & Rest) c [<-|Hc]; [exact Ix | exact (IH _ Rest c Hc)].
Qed.

Theorem hierarchy_spec fixed from n l :
  let E := elig fixed from l in
  let H := hierarchy fixed from n l in
  (length H <= n)%nat
  /\ incl H E
  /\ (H = [] <-> (n = O \/ E = []))
  /\ (forall latest rest, rev H = latest :: rest ->
        (forall e, In e E -> ck_to e <= ck_to latest /\ (ck_to e = ck_to latest -> ck_seq e <= ck_seq latest))
        /\ ladderE E (ck_to latest) rest
        /\ ((length H < n)%nat ->
             let final := last (map ck_to rest) (ck_to latest) in
             final <= 1 \/ forall e, In e E -> final / 2 < ck_to e)).
Proof.
  cbv zeta. destruct (unique_of_inv fixed from l) as (A & I & C). unfold hierarchy.
  destruct n as [|k].
  { repeat split; try (cbn; lia); try (intros x []); auto; try discriminate. }
  set (U := unique_of fixed from l) in *. set (E := elig fixed from l) in *.
  destruct (rev U) as [|latest tl] eqn:R.
  { assert (U = []) by (rewrite <- (rev_involutive U), R; reflexivity).
    assert (EE : E = []).
    { destruct E as [|e E'] eqn:Ee; [reflexivity|]. destruct (C e (or_introl eq_refl)) as (d & Id & _). rewrite H in Id. destruct Id. }
    repeat split; try (cbn; lia); try (intros x []); auto; try discriminate. }
  destruct (asc_last_max U latest tl A R) as [Il Mx].
  pose proof (halve_ladder U A k (ck_to latest)) as Ld.
  pose proof (halve_length U k (ck_to latest)) as Ln.
  repeat split.
  - rewrite rev_length. cbn [length]. lia.
  - intros c Hc. apply in_rev in Hc. destruct Hc as [<-|Hc]; [auto|].
    apply I. exact (ladder_incl U _ _ Ld c Hc).
  - intros H. exfalso. apply (f_equal (@length ckpt)) in H. rewrite rev_length in H. cbn in H. lia.
  - intros [H|H]; [discriminate|]. exfalso. specialize (I latest Il). rewrite H in I. destruct I.
  - rewrite rev_involutive in H. inversion H; subst. destruct (C e H0) as (d & Id & T & S). specialize (Mx d Id). lia.
  - rewrite rev_involutive in H. inversion H; subst. intros Eq. destruct (C e H0) as (d & Id & T & S).
    assert (d = latest0) by (apply (asc_inj U A); auto; lia). subst d. exact S.
  - rewrite rev_involutive in H. inversion H; subst. apply (ladder_transfer U E A I C). exact Ld.
  - rewrite rev_involutive in H. inversion H; subst. intros Hl. rewrite rev_length in Hl. cbn [length] in Hl.
    assert (Hk : (length (halve U (ck_to latest0) k) < k)%nat) by lia.
    destruct (halve_complete U A k (ck_to latest0) Hk) as [F|F]; [left; exact F|right].
    intros e Ie. destruct (C e Ie) as (d & Id & T & S). specialize (F d Id). lia.
Qed.

(* the cause "no_supported_compaction_checkpoint" cannot occur: when no cumulative checkpoint is visible, the latest
   visible checkpoint (if any) is of another kind *)
Lemma latest_any_in fixed from l : forall best,
  (forall b, best = Some b -> In b (ckpts l) \/ True) ->
  forall c, fold_left (latest_step fixed from) l best = Some c ->
  best = Some c \/ (In c (ckpts l) /\ eligible fixed from c = true).
Proof.
  induction l as [|f r IH]; intros best _ c H; [left; exact H|].
  cbn [fold_left] in H. apply IH in H; [|intros; now right].
  unfold ckpts. cbn [flat_map]. fold (ckpts r).
  destruct H as [H|[H E]]; [|right; split; [apply in_or_app; now right|exact E]].
  unfold latest_step in H. destruct (ckpt_of f) as [k|]; [|now left].
  destruct (eligible fixed from k) eqn:El; [|now left].
  destruct best as [b|].
  - destruct (ck_to b <=? ck_to k); [|now left]. inversion H; subst. right. split; [now left|exact El].
  - inversion H; subst. right. split; [now left|exact El].
Qed.

Theorem no_supported_cause_unreachable P texts evs l from a :
  p_max_refs P <> O -> d_cause (fst (compile_with P texts evs l from a)) <> 1.
Proof.
  intros Hn. unfold compile_with.
  destruct (hierarchy_spec (p_fixed P) from (p_max_refs P) l) as (_ & _ & Emp & _). cbv zeta in Emp.
  destruct (hierarchy (p_fixed P) from (p_max_refs P) l) as [|c [|c2 r]] eqn:Hh; cbn [fst d_cause]; try discriminate.
  destruct (proj1 Emp eq_refl) as [H0|HE]; [contradiction|].
  destruct (latest_any (p_fixed P) from l) as [k|] eqn:La; cbn [fst]; [|discriminate].
  destruct (ck_cum k) eqn:Ck; cbn [fst]; [|discriminate]. exfalso.
  unfold latest_any in La. apply latest_any_in in La; [|intros; now right].
  destruct La as [La|[Ik Ek]]; [discriminate|].
  assert (In k (elig (p_fixed P) from l)).
  { unfold elig. apply filter_In. split; [exact Ik|]. now rewrite Ek, Ck. }
  rewrite HE in H. destruct H.
Qed.

(* a thread whose visible checkpoints have to_seq 1, 3, 7, 20, 41 (41 twice): the ladder for cut 60 is 41 (the later
   frame), 20, 7 — three levels, 3 and 1 not reached *)
Definition hier_log : log :=
  ex_log ++ [mkf 61 (BCkpt true 1 0); mkf 62 (BCkpt true 41 1); mkf 63 (BCkpt true 7 2); mkf 64 (BCkpt true 20 3);
             mkf 65 (BCkpt true 41 4); mkf 66 (BCkpt true 3 5); mkf 67 (BCkpt false 55 6)].
Lemma hierarchy_example :
  map ck_seq (hierarchy false 60 3 hier_log) = [63; 64; 65]
  /\ map ck_to (hierarchy false 60 3 hier_log) = [7; 20; 41]
  /\ hierarchy true 60 3 hier_log = []
  /\ map ck_to (hierarchy false 60 2 hier_log) = [20; 41]
  /\ map ck_to (hierarchy false 6 3 hier_log) = [1; 3].
Proof. conjs; vm_compute; reflexivity. Qed.

(* ------------------------------------------------------------------ boundary cases, evaluated *)
Fixpoint plain_msgs (n : nat) (s : N) : log :=
  match n with O => [] | S k => mkf s BMsg :: plain_msgs k (s + 1) end.
Definition users (o : option (decision * bundle)) : list N :=
  match o with
  | Some (_, b) => flat_map (fun i => match i with IUser s => [s] | _ => [] end) (b_items b)
  | None => []
  end.
Definition code16 : params := {| p_limit := 16; p_max_refs := 3; p_fixed := false |}.
Lemma boundary_examples :
  (* exactly `limit` messages: all of them; one more: the oldest is dropped *)
  users (compile code16 no_texts (mkf 0 BOther :: plain_msgs 16 1) 16) = map N.of_nat (seq 1 16)
  /\ users (compile code16 no_texts (mkf 0 BOther :: plain_msgs 17 1) 17) = map N.of_nat (seq 2 16)
  (* anchor = head: the cut is the head; anchor followed by non-message frames only: still the head *)
  /\ option_map (fun r => b_from (snd r)) (compile code16 no_texts (mkf 0 BOther :: plain_msgs 3 1) 3) = Some 3
  /\ option_map (fun r => b_from (snd r)) (compile code16 no_texts (mkf 0 BOther :: plain_msgs 3 1 ++ [mkf 4 BOther; mkf 5 BOther]) 3) = Some 5
  (* mid-thread anchor: the cut is the frame before the next message *)
  /\ option_map (fun r => b_from (snd r)) (compile code16 no_texts (mkf 0 BOther :: plain_msgs 2 1 ++ [mkf 3 BOther; mkf 4 BMsg]) 2) = Some 3
  (* a checkpoint whose to_seq is the anchor itself: the bundle holds the summary ref and no message *)
  /\ option_map (fun r => b_items (snd r)) (compile code16 no_texts (mkf 0 BOther :: plain_msgs 2 1 ++ [mkf 3 (BCkpt true 2 7)]) 2)
     = Some [ISummary 7 2]
  (* to_seq tie: the later frame's artifact is referenced *)
  /\ option_map (fun r => b_items (snd r)) (compile code16 no_texts (mkf 0 BOther :: plain_msgs 2 1 ++ [mkf 3 (BCkpt true 1 7); mkf 4 (BCkpt true 1 8)]) 2)
     = Some [ISummary 8 1; IUser 2]
  (* halving thresholds: latest to_seq 1 -> no second level; latest 2 -> threshold 1; latest 3 -> threshold 1 *)
  /\ map ck_to (hierarchy false 9 3 [mkf 5 (BCkpt true 1 0)]) = [1]
  /\ map ck_to (hierarchy false 9 3 [mkf 5 (BCkpt true 1 0); mkf 6 (BCkpt true 2 1)]) = [1; 2]
  /\ map ck_to (hierarchy false 9 3 [mkf 5 (BCkpt true 1 0); mkf 6 (BCkpt true 3 1); mkf 7 (BCkpt true 2 2)]) = [1; 3]
  /\ map ck_to (hierarchy false 9 3 [mkf 5 (BCkpt true 0 0); mkf 6 (BCkpt true 1 1)]) = [1]
  (* unknown anchor / anchor that is not a message / empty thread: no bundle *)
  /\ compile code16 no_texts (mkf 0 BOther :: plain_msgs 2 1) 9 = None
  /\ compile code16 no_texts (mkf 0 BOther :: plain_msgs 2 1) 0 = None
  /\ compile code16 no_texts [] 0 = None.
Proof. conjs; vm_compute; reflexivity. Qed.

(* ------------------------------------------------------------------ two producers, concretely *)
Lemma lastn_frames_suffix k (x : log) :
  exists pre, x = pre ++ lastn_frames k x /\ ((length x <= k)%nat -> pre = []).
Proof.
  unfold lastn_frames. exists (rev (skipn k (rev x))). split.
  - rewrite <- rev_app_distr, firstn_skipn, rev_involutive. reflexivity.
  - intros H. rewrite skipn_all2; [reflexivity|]. rewrite rev_length. exact H.
Qed.

(* any counting rule the acceptance test may use, as long as it is the sound one (messages at or before the cut) *)
Theorem tail_path_rule_agrees r P texts k l a evs from :
  tail_count_sound r = true ->
  incr l -> wf_refs l = true ->
  tail_path_with r (p_limit P) k l a = Some (evs, from) ->
  Some (compile_with P texts evs (filter is_ckpt l) from a) = compile P texts l a.
Proof.
  intros R S W H. destruct r; [|discriminate R]. clear R.
  unfold tail_path_with, tail_message_count in H. cbv zeta in H.
  destruct (tail_cut (mr_tail k l) (head_seq l) a) as [fr|] eqn:Tc; [|discriminate].
  destruct (mr_tail_complete k l || (p_limit P <=? count_msgs_upto fr (mr_tail k l))%nat) eqn:Acc; [|discriminate].
  inversion H; subst evs from. clear H.
  destruct (lastn_frames_suffix k (filter mr_keep l)) as (pre & Hs & Hc). fold (mr_tail k l) in Hs.
  assert (Ea : existsb (is_anchor a) (mr_tail k l) = true).
  { unfold tail_cut in Tc. destruct (cut_scan a (mr_tail k l)) eqn:Cs; [|discriminate]. eapply cut_scan_some_anchor; exact Cs. }
  assert (C : cut_point l a = Some fr).
  { rewrite <- (tail_cut_agrees mr_keep l pre (mr_tail k l) a S (fun f H => H) Hs Ea). exact Tc. }
  apply (all_paths_agree P texts mr_keep l a fr (mr_tail k l) S W C).
  split; [auto|]. exists l, pre. repeat split; [now left|exact Hs|].
  apply orb_true_iff in Acc. destruct Acc as [Cm|Ct].
  - left. apply Hc. unfold mr_tail_complete in Cm. apply Nat.leb_le in Cm. exact Cm.
  - right. apply Nat.leb_le in Ct. exact Ct.
Qed.

Theorem tail_path_agrees P texts k l a evs from :
  incr l -> wf_refs l = true ->
  tail_path (p_limit P) k l a = Some (evs, from) ->
  Some (compile_with P texts evs (filter is_ckpt l) from a) = compile P texts l a.
Proof. exact (tail_path_rule_agrees CountUpToCut P texts k l a evs from eq_refl). Qed.

(* counting every message of the scanned tail (also those after the cut) is unsound: 40 messages, a tail of the newest
   20 frames, the anchor the 5th message of that tail: accepted (20 >= 16), and the bundle holds 5 messages where the
   full replay gives 16.  (Seeded change C08-2; replayed on the implementation by the window-boundary sweeps of rv c08.) *)
Definition count_all_log : log := mkf 0 BOther :: plain_msgs 40 1.
Definition count_all_tail : log := plain_msgs 20 21.
Lemma tail_count_all_refuted :
  valid_log count_all_log = true /\ wf_refs count_all_log = true
  /\ tail_path_with CountAll 16 20 count_all_log 25 = Some (count_all_tail, 25)
  /\ tail_path_with CountUpToCut 16 20 count_all_log 25 = None
  /\ users (Some (compile_with code16 no_texts count_all_tail (filter is_ckpt count_all_log) 25 25)) = [21; 22; 23; 24; 25]
  /\ users (compile code16 no_texts count_all_log 25) = map N.of_nat (seq 10 16)
  /\ Some (compile_with code16 no_texts count_all_tail (filter is_ckpt count_all_log) 25 25) <> compile code16 no_texts count_all_log 25.
Proof. conjs; try (vm_compute; reflexivity). vm_compute. discriminate. Qed.

(* the window loop keeps a prefix (in scan order) of the frames at or before the cut, all of them or up to the
   limit-th message *)
Lemma window_rev_spec from limit : forall rl found acc,
  exists taken rest,
    filter (fun f => fseq f <=? from) rl = taken ++ rest
    /\ window_rev from rl limit found acc = rev taken ++ acc
    /\ (rest = [] \/ (limit <= found + length (filter is_msg taken))%nat).
Proof.
  induction rl as [|f r IH]; intros found acc.
  - exists [], []. split; [reflexivity|split; [reflexivity|now left]].
  - cbn [window_rev filter]. destruct (from <? fseq f) eqn:C.
    + replace (fseq f <=? from) with false by lia. apply IH.
    + replace (fseq f <=? from) with true by lia. destruct (is_msg f) eqn:M.
      * destruct (limit <=? S found)%nat eqn:L.
        -- exists [f], (filter (fun g => fseq g <=? from) r). split; [reflexivity|split; [reflexivity|]].
           right. cbn [filter length]. rewrite M. cbn [length]. apply Nat.leb_le in L. lia.
        -- destruct (IH (S found) (f :: acc)) as (tk & rs & E & Wn & Ct).
           exists (f :: tk), rs. split; [|split].
           ++ cbn [app]. now rewrite E.
           ++ rewrite Wn. cbn [rev]. now rewrite <- app_assoc.
           ++ destruct Ct as [Ct|Ct]; [now left|right]. cbn [filter]. rewrite M. cbn [length]. lia.
      * destruct (IH found (f :: acc)) as (tk & rs & E & Wn & Ct).
        exists (f :: tk), rs. split; [|split].
        -- cbn [app]. now rewrite E.
        -- rewrite Wn. cbn [rev]. now rewrite <- app_assoc.
        -- destruct Ct as [Ct|Ct]; [now left|right]. cbn [filter]. rewrite M. exact Ct.
Qed.

Lemma count_msgs_upto_all from x :
  (forall f, In f x -> fseq f <=? from = true) -> count_msgs_upto from x = length (filter is_msg x).
Proof.
  intros H. unfold count_msgs_upto. f_equal. apply filter_ext_in. intros f F. now rewrite (H f F).
Qed.

Lemma filter_is_msg_rev (x : log) : length (filter is_msg (rev x)) = length (filter is_msg x).
Proof. now rewrite filter_rev', rev_length. Qed.

Theorem window_path_agrees P texts l a from :
  incr l -> wf_refs l = true -> cut_point l a = Some from ->
  Some (compile_with P texts (mr_window (p_limit P) l from) (filter is_ckpt l) from a) = compile P texts l a.
Proof.
  intros S W C. apply (all_paths_agree P texts mr_keep l a from _ S W C).
  split; [auto|]. unfold mr_window.
  destruct (window_rev_spec from (p_limit P) (rev (filter mr_keep l)) 0 []) as (tk & rs & E & Wn & Ct).
  rewrite Wn, app_nil_r. exists (upto from l), (rev rs). repeat split; [now right| |].
  - assert (Ef : filter mr_keep (upto from l) = rev (filter (fun f => fseq f <=? from) (rev (filter mr_keep l)))).
    { rewrite filter_rev', rev_involutive. unfold upto.
      clear. induction l as [|f r IH]; [reflexivity|]. cbn [filter].
      destruct (fseq f <=? from) eqn:A, (mr_keep f) eqn:B; cbn [filter]; rewrite ?A, ?B; rewrite ?IH; reflexivity. }
    rewrite Ef, E, rev_app_distr. reflexivity.
  - destruct Ct as [->|Ct]; [now left|right].
    rewrite count_msgs_upto_all.
    + rewrite filter_is_msg_rev. cbn in Ct. exact Ct.
    + intros f F. apply in_rev in F.
      assert (In f (filter (fun g => fseq g <=? from) (rev (filter mr_keep l)))) by (rewrite E; apply in_or_app; now left).
      apply filter_In in H. tauto.
Qed.

(* S26, before the fix: a window cut short at the scan bound drops messages the full replay selects *)
Lemma window_cap_refuted :
  valid_log count_all_log = true /\ wf_refs count_all_log = true /\ cut_point count_all_log 40 = Some 40
  /\ users (Some (compile_with code16 no_texts (mr_window_capped 16 12 count_all_log 40) (filter is_ckpt count_all_log) 40 40))
     = map N.of_nat (seq 29 12)
  /\ users (compile code16 no_texts count_all_log 40) = map N.of_nat (seq 25 16)
  /\ mr_window_capped 16 16 count_all_log 40 = mr_window 16 count_all_log 40.
Proof. conjs; vm_compute; reflexivity. Qed.

(* both producers on the example thread: the 17-message tail is accepted, a 10-frame tail is not; the window holds
   exactly 16 messages *)
Lemma producers_example :
  option_map snd (tail_path 16 34 ex_log 58) = Some 60
  /\ tail_path 16 10 ex_log 58 = None
  /\ count_msgs_upto 60 (mr_window 16 ex_log 60) = 16%nat
  /\ (length (mr_window 16 ex_log 60) < length (filter mr_keep ex_log))%nat.
Proof. conjs; vm_compute; try reflexivity. lia. Qed.
