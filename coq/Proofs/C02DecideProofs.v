(* C02, third round (builder log02c): the decisions before an append (Model/C02Decide.v) and the
   histories in which the model takes them (Model/C02Cases.v, call3). *)
From RipV Require Import Base.Prelude Model.Frames Model.Log Model.ContStore Model.SidecarInv Model.LogBytes
  Model.NoopPlan Model.C02Decide Model.C02Cases
  Proofs.LogProofs Proofs.ContStoreProofs Proofs.SidecarInvProofs Proofs.C02CasesProofs.

(* ================================================================ quiet programs *)
Lemma exec_quiet prog st : quiet_prog prog = true -> s_log (exec prog st) = s_log st.
Proof.
  intros H. unfold exec. apply (quiet_calls_keep_log [(prog, 0)]). constructor; [exact H|constructor].
Qed.

(* ================================================================ rotate *)
(* the two readings of an optional filter agree on every frame that recorded the field *)
Lemma field_ok_lenient_same lenient flt x : field_ok lenient flt (Some x) = field_ok false flt (Some x).
Proof. destruct flt; reflexivity. Qed.

Lemma rot_match_lenient_same_on_full_frames rq f p e m :
  cursor_fields f = Some (p, Some e, Some m) -> rot_match true rq f = rot_match false rq f.
Proof. intros H. unfold rot_match. rewrite H. rewrite !field_ok_lenient_same. reflexivity. Qed.

Lemma rot_target_none lenient rq fs :
  (forall f, In f fs -> rot_match lenient rq f = false) -> rot_target lenient rq fs = None.
Proof.
  intros H. unfold rot_target. destruct (find (rot_match lenient rq) (rev fs)) as [f|] eqn:E; [|reflexivity].
  apply find_some in E. destruct E as [Hin Hm]. rewrite <- in_rev in Hin. rewrite (H f Hin) in Hm. discriminate.
Qed.

(* nothing of what the search reads passes the filters => nothing is appended (any state, known id or not) *)
Lemma rotate_reads_nothing_adds_nothing st known c rq :
  (forall f, In f (rotate_reads st c) -> rot_match false rq f = false) ->
  s_log (exec (rotate_prog false known c rq st) st) = s_log st.
Proof.
  intros H. apply exec_quiet. unfold rotate_prog. destruct known; [|reflexivity].
  rewrite (rot_target_none false rq _ H). reflexivity.
Qed.

(* a thread id the in-memory index does not list: not_found, nothing appended *)
Lemma rotate_unknown_adds_nothing lenient st c rq :
  s_log (exec (rotate_prog lenient false c rq st) st) = s_log st.
Proof. apply exec_quiet. reflexivity. Qed.

Lemma replay_lines_In c : forall ls e fs f,
  replay_lines c e ls = Some fs -> In f fs -> In (SGood f) ls /\ in_stream KContinuity c f = true.
Proof.
  induction ls as [|ln r IH]; intros e fs f H Hin; cbn [replay_lines] in H.
  - inversion H; subst. destruct Hin.
  - destruct (line_ok c ln) as [g|] eqn:El; [|discriminate].
    destruct (seq g =? e); [|discriminate].
    destruct (replay_lines c (e + 1) r) as [gs|] eqn:Er; cbn [option_map] in H; [|discriminate].
    inversion H; subst. destruct Hin as [Hin|Hin].
    + subst. unfold line_ok in El. destruct ln as [g'|]; [|discriminate].
      destruct (in_stream KContinuity c g') eqn:Es; [|discriminate]. inversion El; subst.
      split; [left; reflexivity|exact Es].
    + destruct (IH _ _ _ Er Hin) as [H1 H2]. split; [right; exact H1|exact H2].
Qed.

(* under SideSub everything the search reads is a frame of the thread in the truth log *)
Lemma rotate_reads_sub st c f :
  SideSub st -> In f (rotate_reads st c) -> In f (cstream c (s_log st)).
Proof.
  intros HS Hin. unfold rotate_reads, replay_events in Hin.
  destruct (try_replay c (s_side st c)) as [fs|] eqn:Et; cbn [fst] in Hin.
  - unfold try_replay in Et. destruct (s_side st c) as [ls|] eqn:Es; [|discriminate].
    destruct (replay_lines c 0 ls) as [[|g gs]|] eqn:Er; try discriminate. inversion Et; subst.
    destruct (replay_lines_In c ls 0 _ f Er Hin) as [H1 H2].
    unfold cstream, stream. apply filter_In. split; [exact (HS c ls f Es H1)|exact H2].
  - destruct (validate (s_log st)); cbn [fst] in Hin; [exact Hin|destruct Hin].
Qed.

(* THE statement: no cursor frame of the thread IN THE TRUTH LOG passes the filters => rotate appends nothing *)
Lemma rotate_nothing_in_the_log_adds_nothing st known c rq :
  SideSub st -> rotate_has_target rq c (s_log st) = false ->
  s_log (exec (rotate_prog false known c rq st) st) = s_log st.
Proof.
  intros HS Hn. apply rotate_reads_nothing_adds_nothing. intros f Hin.
  apply (rotate_reads_sub st c f HS) in Hin. unfold rotate_has_target in Hn.
  destruct (rot_match false rq f) eqn:E; [|reflexivity].
  assert (Hex : existsb (rot_match false rq) (cstream c (s_log st)) = true).
  { apply existsb_exists. exists f. split; assumption. }
  rewrite Hex in Hn. discriminate.
Qed.

(* ================================================================ SideSub is an invariant *)
Definition Sub (sd : N -> option (list sline)) (l : log) : Prop :=
  forall c ls f, sd c = Some ls -> In (SGood f) ls -> In f l.

Lemma Sub_app sd l x : Sub sd l -> Sub sd (l ++ x).
Proof. intros H c ls f Hs Hin. apply in_or_app. left. exact (H c ls f Hs Hin). Qed.

Lemma Sub_upd_stream sd l c : Sub sd l -> Sub (upd sd c (Some (map SGood (cstream c l)))) l.
Proof.
  intros H c' ls f Hs Hin. unfold upd in Hs. destruct (c' =? c).
  - inversion Hs; subst. apply in_map_iff in Hin. destruct Hin as (g & Hg & Hin). inversion Hg; subst.
    unfold cstream, stream in Hin. apply filter_In in Hin. tauto.
  - exact (H c' ls f Hs Hin).
Qed.

Lemma replay_events_Sub st c : Sub (s_side st) (s_log st) -> Sub (snd (replay_events st c)) (s_log st).
Proof.
  intros H. unfold replay_events. destruct (try_replay c (s_side st c)); cbn [snd]; [exact H|].
  destruct (validate (s_log st)); cbn [snd]; [|exact H].
  destruct (cstream c (s_log st)) as [|f r] eqn:E; [exact H|]. rewrite <- E. apply Sub_upd_stream. exact H.
Qed.

Lemma load_next_Sub st c : Sub (s_side st) (s_log st) -> Sub (snd (load_next st c)) (s_log st).
Proof.
  intros H. unfold load_next. destruct (last_seq (cstream c (s_log st))) as [q|]; cbn [snd]; [|exact H].
  destruct (side_tail c (s_side st c)) as [q'|]; [destruct (q' =? q)|]; try exact H;
    destruct (validate (s_log st)); try exact H; apply Sub_upd_stream; exact H.
Qed.

Lemma side_append_Sub sd l f : Sub sd l -> In f l -> Sub (side_append sd f) l.
Proof.
  intros H Hf. unfold side_append.
  assert (K : Sub (upd sd (sid f) (Some (match sd (sid f) with Some ls => ls | None => [] end ++ [SGood f]))) l).
  { intros c ls g Hs Hin. unfold upd in Hs. destruct (c =? sid f) eqn:E.
    - inversion Hs; subst. apply in_app_or in Hin. destruct Hin as [Hin|[Hin|[]]].
      + apply N.eqb_eq in E. subst c. destruct (sd (sid f)) as [ls0|] eqn:E0; [exact (H _ _ _ E0 Hin)|destruct Hin].
      + inversion Hin; subst. exact Hf.
    - exact (H c ls g Hs Hin). }
  destruct (hd_error (rev _)) as [[g|]|]; try exact H; exact K.
Qed.

Ltac solveS HS HB Hp :=
  first
  [ exact HS
  | apply Sub_app; exact HS
  | apply replay_events_Sub; exact HS
  | match goal with
    | H : load_next ?st ?n = (_, ?sd) |- Sub ?sd _ =>
      let K := fresh in pose proof (load_next_Sub st n HS) as K; rewrite H in K; exact K
    end
  | match goal with
    | H : p_last ?p = Some ?f |- _ => apply side_append_Sub; [exact HS | exact (HB _ _ _ Hp H)]
    end ].

Lemma exec_m_SideSub st a p m r :
  s_procs st a = Some p -> SideInv st -> SideSub st -> SideSub (exec_m st a p m r).
Proof.
  intros Hp [HA HB] HS. change (Sub (s_side st) (s_log st)) in HS.
  change (Sub (s_side (exec_m st a p m r)) (s_log (exec_m st a p m r))).
  unfold exec_m, exec_m_gen, abort.
  destruct m; dmatch; try exact HS; cbn [s_log s_side set_proc set_store set_task]; solveS HS HB Hp.
Qed.

Definition Inv2 (st : state) : Prop := SideInv st /\ SideSub st.

Lemma step_Inv2 st a : Inv2 st -> Inv2 (step st a).
Proof.
  intros [HI HS]. split; [apply step_SideInv; exact HI|].
  unfold step, step_gen. destruct (s_procs st a) as [p|] eqn:Hp; [|exact HS].
  destruct (p_rem p) as [|m r]; [exact HS|]. apply (exec_m_SideSub st a p m r Hp HI HS).
Qed.

Lemma run_Inv2 sched : forall st, Inv2 st -> Inv2 (run sched st).
Proof.
  induction sched as [|a r IH]; intros st H; rewrite ?run_nil, ?run_cons; [exact H|].
  apply IH, step_Inv2, H.
Qed.

Lemma exec_Inv2 prog st : Inv2 st -> Inv2 (exec prog st).
Proof.
  intros [[HA HB] HS]. unfold exec. apply run_Inv2. split; [apply spawn_SideInv; exact HA|exact HS].
Qed.

Lemma In_removelast {A} (x : A) l : In x (removelast l) -> In x l.
Proof.
  induction l as [|a r IH]; cbn [removelast]; [auto|]. destruct r as [|b r']; [intros []|].
  intros [H|H]; [left; exact H|right; apply IH; exact H].
Qed.
Lemma In_firstn {A} (x : A) n : forall l, In x (firstn n l) -> In x l.
Proof.
  induction n as [|n IH]; intros l H; [destruct H|]. destruct l as [|a r]; [destruct H|].
  cbn [firstn] in H. destruct H as [H|H]; [left; exact H|right; apply IH; exact H].
Qed.
Lemma In_skipn {A} (x : A) n : forall l, In x (skipn n l) -> In x l.
Proof.
  induction n as [|n IH]; intros l H; [exact H|]. destruct l as [|a r]; [destruct H|].
  cbn [skipn] in H. right. apply IH. exact H.
Qed.

Lemma apply_fault_Sub sd l x : Sub sd l -> Sub (apply_fault sd x) l.
Proof.
  intros H c ls f Hs Hin. destruct x as [c0|c0|c0 k|c0|c0]; cbn [apply_fault] in Hs.
  - unfold upd in Hs. destruct (c =? c0); [discriminate|exact (H _ _ _ Hs Hin)].
  - destruct (sd c0) as [ls0|] eqn:E; [|exact (H _ _ _ Hs Hin)]. unfold upd in Hs.
    destruct (c =? c0) eqn:E2; [|exact (H _ _ _ Hs Hin)]. inversion Hs; subst.
    apply In_removelast in Hin. exact (H _ _ _ E Hin).
  - destruct (sd c0) as [ls0|] eqn:E; [|exact (H _ _ _ Hs Hin)]. unfold upd in Hs.
    destruct (c =? c0) eqn:E2; [|exact (H _ _ _ Hs Hin)]. inversion Hs; subst.
    apply In_firstn in Hin. exact (H _ _ _ E Hin).
  - destruct (sd c0) as [[|ln ls0]|] eqn:E; try exact (H _ _ _ Hs Hin). unfold upd in Hs.
    destruct (c =? c0) eqn:E2; [|exact (H _ _ _ Hs Hin)].
    assert (Hls : ls = removelast (ln :: ls0) ++ [SJunk]) by (inversion Hs; reflexivity).
    rewrite Hls in Hin. apply in_app_or in Hin. destruct Hin as [Hin|[Hin|[]]]; [|discriminate].
    apply In_removelast in Hin. exact (H _ _ _ E Hin).
  - destruct (sd c0) as [ls0|] eqn:E; [|exact (H _ _ _ Hs Hin)]. unfold upd in Hs.
    destruct (c =? c0) eqn:E2; [|exact (H _ _ _ Hs Hin)]. inversion Hs; subst. destruct Hin.
Qed.

Lemma side_garbage_Sub sd l mid c0 : Sub sd l -> Sub (side_garbage sd mid c0) l.
Proof.
  intros H c ls f Hs Hin. unfold side_garbage in Hs. destruct (sd c0) as [ls0|] eqn:E; [|exact (H _ _ _ Hs Hin)].
  unfold upd in Hs. destruct (c =? c0); [|exact (H _ _ _ Hs Hin)]. inversion Hs; subst.
  unfold garbage_lines in Hin. destruct mid.
  - apply in_app_or in Hin. destruct Hin as [Hin|[Hin|Hin]]; [|discriminate|].
    + apply In_firstn in Hin. exact (H _ _ _ E Hin).
    + apply In_skipn in Hin. exact (H _ _ _ E Hin).
  - apply in_app_or in Hin. destruct Hin as [Hin|[Hin|[]]]; [exact (H _ _ _ E Hin)|discriminate].
Qed.

Lemma restart_Inv2 st : Inv2 st -> Inv2 (restart st).
Proof.
  intros [[HA HB] HS]. split; [split|]; cbn [restart s_side s_log s_procs]; [exact HA| |exact HS].
  intros a p f Hp. discriminate.
Qed.

Lemma do_call2_Inv2 st k : Inv2 st -> Inv2 (do_call2 st k).
Proof.
  intros H. pose proof H as [HI HS]. split; [apply do_call2_SideInv; exact HI|].
  destruct k as [[cp th f|x th|]| |mid th|]; cbn [do_call2 do_call].
  - apply exec_Inv2. exact H.
  - change (Sub (apply_fault (s_side st) (mk_fault x (nth_thread (s_log st) th))) (s_log st)).
    apply apply_fault_Sub. exact HS.
  - exact HS.
  - exact HS.
  - change (Sub (side_garbage (s_side st) mid (nth_thread (s_log st) th)) (s_log st)).
    apply side_garbage_Sub. exact HS.
  - exact HS.
Qed.

Lemma raw_append_Inv2 st c t ar : Inv2 st -> Inv2 (raw_append st c t ar).
Proof.
  intros [[HA HB] HS]. unfold raw_append. destruct (last_seq _); [|split; [split|]; assumption].
  split; [split|]; cbn [set_store s_side s_log s_procs].
  - intros c' Hc. apply names_app. apply HA. exact Hc.
  - intros a p f Hp Hl. apply in_or_app. left. exact (HB a p f Hp Hl).
  - apply Sub_app. exact HS.
Qed.

Definition Inv3 (d : dstate) : Prop := Inv2 (d_st d).

Lemma ensure_Inv3 skip d : Inv3 d -> Inv3 (fst (ensure skip d)).
Proof.
  intros H. unfold ensure. destruct (ws_lookup _ _); [exact H|].
  destruct (skip && file_exists (d_file d)); cbn [fst].
  - destruct (new_frames _ _); cbn [fst]; apply exec_Inv2; exact H.
  - destruct (validate (s_log (d_st d))); [|exact H].
    destruct (find_default _ _); cbn [fst]; [exact H|].
    destruct (new_frames _ _); cbn [fst]; apply exec_Inv2; exact H.
Qed.

Lemma do_call3_Inv3 d k : Inv3 d -> Inv3 (fst (do_call3 d k)).
Proof.
  intros H. destruct k as [k2| |th p e m|th fp fe fm|br th ok|x|ws|th t ar]; cbn [do_call3].
  - cbn [fst]. destruct (reloads k2); apply do_call2_Inv2; exact H.
  - pose proof (ensure_Inv3 false d H) as K. destruct (ensure false d) as [d' a]. exact K.
  - apply exec_Inv2. exact H.
  - apply exec_Inv2. exact H.
  - cbn [fst]. unfold lineage. destruct (new_frames _ _); apply exec_Inv2; exact H.
  - exact H.
  - apply restart_Inv2. exact H.
  - apply restart_Inv2. apply raw_append_Inv2. exact H.
Qed.

Lemma run_calls3_Inv3 ks : forall d, Inv3 d -> Inv3 (snd (run_calls3 d ks)).
Proof.
  induction ks as [|k r IH]; intros d H; cbn [run_calls3]; [exact H|].
  pose proof (do_call3_Inv3 d k H) as K. destruct (do_call3 d k) as [d' extra]. cbn [fst] in K.
  specialize (IH d' K). destruct (run_calls3 d' r) as [ns fin]. exact IH.
Qed.

Lemma dstate0_Inv3 : Inv3 dstate0.
Proof. split; [exact empty_SideInv|]. intros c ls f H. discriminate. Qed.

(* in whatever state a history of the third round has led to: a rotate whose filters no cursor frame of the
   thread in the truth log passes appends nothing *)
Lemma rotate_noop_anywhere_in_a_history ks th fp fe fm :
  let d := snd (run_calls3 dstate0 ks) in
  rotate_has_target (req_of fp fe fm) (nth_thread (s_log (d_st d)) th) (s_log (d_st d)) = false ->
  s_log (d_st (fst (do_call3 d (DRotate th fp fe fm)))) = s_log (d_st d).
Proof.
  intros d Hn. cbn [do_call3 fst with_st d_st].
  apply rotate_nothing_in_the_log_adds_nothing; [|exact Hn].
  exact (proj2 (run_calls3_Inv3 ks dstate0 dstate0_Inv3)).
Qed.

(* ================================================================ ensure_default *)
Lemma existsb_filter_nonempty {A} (p : A -> bool) l : existsb p l = true -> filter p l <> [].
Proof.
  intros H. apply existsb_exists in H. destruct H as (x & Hin & Hp).
  assert (K : In x (filter p l)) by (apply filter_In; tauto). intros E. rewrite E in K. destruct K.
Qed.

Lemma find_default_some ws l : log_has_ws ws l = true -> exists c, find_default ws l = Some c.
Proof.
  intros H. unfold find_default. destruct (hd_error (rev (filter _ _))) as [c|]; [exists c; reflexivity|].
  apply existsb_filter_nonempty in H.
  destruct (filter (created_in ws) l) as [|f r] eqn:E; [congruence|].
  destruct (rev (map sid (f :: r))) as [|c t] eqn:Er.
  - apply (f_equal (@length N)) in Er. rewrite rev_length, map_length in Er. discriminate.
  - exists c. reflexivity.
Qed.

Lemma hd_error_rev_In {A} (l : list A) x : hd_error (rev l) = Some x -> In x l.
Proof.
  intros H. apply in_rev. destruct (rev l) as [|y t]; [discriminate|]. inversion H; subst. left. reflexivity.
Qed.

Lemma find_default_in_log ws l c :
  find_default ws l = Some c -> exists f, In f l /\ created_in ws f = true /\ sid f = c.
Proof.
  unfold find_default. intros H.
  assert (K : In c (map sid (filter (created_in ws) l))).
  { destruct (hd_error (rev (filter _ (map sid _)))) as [c'|] eqn:E.
    - inversion H; subst. apply hd_error_rev_In in E. apply filter_In in E. tauto.
    - apply hd_error_rev_In. exact H. }
  apply in_map_iff in K. destruct K as (f & Hs & Hin). apply filter_In in Hin. exists f. tauto.
Qed.

(* THE statement: the log holds a thread of the store's workspace => ensure_default appends nothing - for every
   in-memory index and every state of the index file *)
Lemma ensure_thread_in_the_log_adds_nothing d :
  log_has_ws (d_ws d) (s_log (d_st d)) = true ->
  s_log (d_st (fst (ensure false d))) = s_log (d_st d).
Proof.
  intros H. unfold ensure. destruct (ws_lookup _ _); [reflexivity|]. cbn [andb].
  destruct (validate (s_log (d_st d))); [|reflexivity].
  destruct (find_default_some _ _ H) as [c Hc]. rewrite Hc. reflexivity.
Qed.

(* ... spelled out for a restart: whatever the harness (a crash, a backup, another version) has left in
   continuities/index.json and whichever workspace the store is opened for *)
Lemma ensure_after_restart_any_index_file d (file : idx_file) ws :
  log_has_ws ws (s_log (d_st d)) = true ->
  s_log (d_st (fst (ensure false (reopen {| d_st := d_st d; d_ws := d_ws d; d_file := file; d_mem := d_mem d |} ws))))
  = s_log (d_st d).
Proof.
  intros H. rewrite ensure_thread_in_the_log_adds_nothing; [reflexivity|exact H].
Qed.

Lemma ensure_idempotent_anywhere_in_a_history ks x ws :
  let d := snd (run_calls3 dstate0 ks) in
  log_has_ws ws (s_log (d_st d)) = true ->
  s_log (d_st (snd (run_calls3 d [DIdx x; DReopen ws; DEnsure]))) = s_log (d_st d).
Proof.
  intros d H. cbn [run_calls3 do_call3].
  set (d1 := reopen _ ws).
  pose proof (ensure_thread_in_the_log_adds_nothing d1 H) as K.
  destruct (ensure false d1) as [d' a]. cbn [fst snd] in *. exact K.
Qed.

(* the answer: a thread of the workspace that is in the log *)
Definition MemSound (d : dstate) : Prop :=
  forall ws c, ws_lookup (ix_ws (d_mem d)) ws = Some c ->
               exists f, In f (s_log (d_st d)) /\ created_in ws f = true /\ sid f = c.

Lemma answer_code_of_frame ws l c f :
  In f l -> created_in ws f = true -> sid f = c -> answer_code ws l (Some c) = 1.
Proof.
  intros Hin Hc Hs. unfold answer_code.
  assert (K : existsb (fun f => created_in ws f && (sid f =? c)) l = true).
  { apply existsb_exists. exists f. split; [exact Hin|]. rewrite Hc, Hs, N.eqb_refl. reflexivity. }
  rewrite K. reflexivity.
Qed.

Lemma ensure_answers_from_the_log d :
  MemSound d -> log_has_ws (d_ws d) (s_log (d_st d)) = true -> validate (s_log (d_st d)) = true ->
  answer_code (d_ws d) (s_log (d_st (fst (ensure false d)))) (snd (ensure false d)) = 1.
Proof.
  intros HM H Hv. unfold ensure. destruct (ws_lookup _ _) as [c|] eqn:El; cbn [fst snd].
  - destruct (HM _ _ El) as (f & Hin & Hc & Hs). exact (answer_code_of_frame _ _ _ f Hin Hc Hs).
  - cbn [andb]. rewrite Hv. destruct (find_default_some _ _ H) as [c Hc]. rewrite Hc. cbn [fst snd with_index d_st].
    destruct (find_default_in_log _ _ _ Hc) as (f & Hin & Hcr & Hs). exact (answer_code_of_frame _ _ _ f Hin Hcr Hs).
Qed.

(* the shortcut of seeded change C02-9 is invisible while the file is missing or the in-memory index knows the
   workspace - the two situations the repository's tests exercise *)
Lemma ensure_skip_hidden d :
  d_file d = IAbsent \/ ws_lookup (ix_ws (d_mem d)) (d_ws d) <> None ->
  ensure true d = ensure false d.
Proof.
  intros [H|H]; unfold ensure.
  - rewrite H. reflexivity.
  - destruct (ws_lookup _ _); [reflexivity|congruence].
Qed.

(* ================================================================ prefix over the histories of the third round *)
Lemma ensure_log skip d : exists fs, s_log (d_st (fst (ensure skip d))) = s_log (d_st d) ++ fs.
Proof.
  assert (Z : exists fs, s_log (d_st d) = s_log (d_st d) ++ fs) by (exists []; rewrite app_nil_r; reflexivity).
  unfold ensure. destruct (ws_lookup _ _); [exact Z|].
  destruct (skip && file_exists (d_file d)); cbn [fst].
  - destruct (new_frames _ _); cbn [fst with_index with_st d_st]; apply exec_log.
  - destruct (validate _); [|exact Z]. destruct (find_default _ _); cbn [fst with_index d_st]; [exact Z|].
    destruct (new_frames _ _); cbn [fst with_index with_st d_st]; apply exec_log.
Qed.

Lemma do_call3_log d k : exists fs, s_log (d_st (fst (do_call3 d k))) = s_log (d_st d) ++ fs.
Proof.
  assert (Z : exists fs, s_log (d_st d) = s_log (d_st d) ++ fs) by (exists []; rewrite app_nil_r; reflexivity).
  destruct k as [k2| |th p e m|th fp fe fm|br th ok|x|ws|th t ar]; cbn [do_call3].
  - cbn [fst]. destruct (reloads k2); cbn [d_st with_st]; apply do_call2_log.
  - pose proof (ensure_log false d) as K. destruct (ensure false d) as [d' a]. exact K.
  - cbn [fst with_st d_st]. apply exec_log.
  - cbn [fst with_st d_st]. apply exec_log.
  - cbn [fst]. unfold lineage. destruct (new_frames _ _); cbn [with_index with_st d_st]; apply exec_log.
  - exact Z.
  - exact Z.
  - cbn [fst reopen d_st with_st restart s_log]. unfold raw_append. destruct (last_seq _); [|exact Z].
    cbn [set_store s_log]. eexists. reflexivity.
Qed.

Lemma run_calls3_log ks : forall d, exists fs, s_log (d_st (snd (run_calls3 d ks))) = s_log (d_st d) ++ fs.
Proof.
  induction ks as [|k r IH]; intros d; cbn [run_calls3].
  - exists []. rewrite app_nil_r. reflexivity.
  - destruct (do_call3_log d k) as [gs Hgs]. destruct (do_call3 d k) as [d' extra]. cbn [fst] in Hgs.
    destruct (IH d') as [fs Hfs]. destruct (run_calls3 d' r) as [ns fin]. cbn [snd] in *.
    rewrite Hfs, Hgs. exists (gs ++ fs). rewrite app_assoc. reflexivity.
Qed.

Lemma run_calls3_app ks1 : forall ks2 d,
  snd (run_calls3 d (ks1 ++ ks2)) = snd (run_calls3 (snd (run_calls3 d ks1)) ks2).
Proof.
  induction ks1 as [|k r IH]; intros ks2 d; cbn [app run_calls3]; [reflexivity|].
  destruct (do_call3 d k) as [d' extra]. specialize (IH ks2 d').
  destruct (run_calls3 d' (r ++ ks2)) as [ns1 fin1]. destruct (run_calls3 d' r) as [ns2 fin2].
  cbn [snd] in *. exact IH.
Qed.

Lemma history3_prefix ks1 ks2 :
  exists fs, s_log (d_st (snd (run_calls3 dstate0 (ks1 ++ ks2))))
             = s_log (d_st (snd (run_calls3 dstate0 ks1))) ++ fs.
Proof. rewrite run_calls3_app. apply run_calls3_log. Qed.

(* index faults and re-opening leave the log as it is *)
Lemma index_fault_and_reopen_keep_the_log d x ws :
  s_log (d_st (fst (do_call3 d (DIdx x)))) = s_log (d_st d)
  /\ s_log (d_st (fst (do_call3 d (DReopen ws)))) = s_log (d_st d).
Proof. split; reflexivity. Qed.

(* ================================================================ witnesses *)
(* seed C02-7: a cursor frame that records an endpoint and NO model; a request that filters on a model *)
Definition w_rot_history : list call3 := [DEnsure; DCursor 0 0 1 0].
Definition w_rot_state : state := d_st (snd (run_calls3 dstate0 w_rot_history)).
Definition w_rot_req : rot_req := {| rq_provider := None; rq_endpoint := None; rq_model := Some 5 |}.

Lemma rotate_lenient_filter_refuted :
  rotate_has_target w_rot_req 0 (s_log w_rot_state) = false
  /\ map seq (s_log (exec (rotate_prog true true 0 w_rot_req w_rot_state) w_rot_state)) = [0; 1; 2]
  /\ map seq (s_log (exec (rotate_prog false true 0 w_rot_req w_rot_state) w_rot_state)) = [0; 1].
Proof. vm_compute. repeat split; reflexivity. Qed.

(* seed C02-9: the default thread is in the log, index.json is present but lists nothing (unreadable, another
   version, an older backup - all load as the empty index), the store is restarted *)
Definition w_ens_state : dstate := snd (run_calls3 dstate0 [DEnsure; DIdx XIUnreadable; DReopen 0]).

Lemma ensure_skip_refuted :
  log_has_ws 0 (s_log (d_st w_ens_state)) = true
  /\ map seq (s_log (d_st (fst (ensure true w_ens_state)))) = [0; 0]
  /\ map seq (s_log (d_st (fst (ensure false w_ens_state)))) = [0]
  /\ snd (ensure false w_ens_state) = Some 0.
Proof. vm_compute. repeat split; reflexivity. Qed.

(* non-vacuity: the same calls DO append when there is something to find / nothing in the log;
   two workspaces on one data dir, a crash between the log append of the second thread and save_index *)
Definition demo3_history : list call3 :=
  [DEnsure;                                   (* workspace 0: thread 0 created *)
   DCursor 0 0 1 0;                           (* cursor: provider 0, endpoint 0, no model *)
   DRotate 0 0 0 6;                           (* filter model = 5: nothing passes *)
   DRotate 0 0 1 0;                           (* filter endpoint = 0: rotated *)
   DReopen 1; DEnsure;                        (* workspace 1: its thread created *)
   DIdx (XIRestore [(0, 0%nat)] [0%nat]);     (* index.json as it was before that: lists workspace 0 only *)
   DReopen 1; DEnsure;                        (* found in the log: nothing appended, answer from the log *)
   DIdx XIWrongVersion; DReopen 0; DEnsure;
   DLineage true 0 true;                      (* branch: child carries workspace 0 *)
   DIdx XIAbsent; DReopen 0; DEnsure;         (* the default thread, not the child; nothing appended *)
   DReopen 2; DEnsure].                       (* a third workspace: created *)
Lemma demo3 :
  fst (run_calls3 dstate0 demo3_history) = [1; 1; 2; 2; 3; 3; 4; 1; 4; 4; 4; 1; 4; 4; 4; 1; 6; 6; 6; 6; 1; 6; 7; 1].
Proof. vm_compute. reflexivity. Qed.

Lemma mem_sound_demo :
  MemSound w_ens_state /\ log_has_ws 0 (s_log (d_st w_ens_state)) = true /\ validate (s_log (d_st w_ens_state)) = true.
Proof.
  split; [|split; vm_compute; reflexivity].
  intros ws c H. vm_compute in H. discriminate.
Qed.
