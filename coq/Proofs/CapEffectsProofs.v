(* What the generated obligations gen_effects_ok / gen_routes_ok (Gen/Effects.v) give. *)
From RipV Require Import Base.Prelude Model.Frames Model.Log Model.ContStore Model.CapEffects
  Proofs.ContStoreProofs.

Lemma effects_agree_rows tbl :
  effects_agree tbl = true -> forall cp b, In (cp, b) tbl -> b = cap_can_append cp.
Proof.
  unfold effects_agree. intros H cp b Hin. apply andb_true_iff in H. destruct H as [_ H].
  rewrite forallb_forall in H. specialize (H (cp, b) Hin). cbn [fst snd] in H.
  apply Bool.eqb_prop in H. exact H.
Qed.

(* a capability from which the source cannot reach event_log.append adds nothing in the model, for
   every thread id, argument facts and store state *)
Lemma unreachable_caps_silent tbl :
  effects_agree tbl = true ->
  forall cp, In (cp, false) tbl ->
  forall (c : N) (f : cfacts) (st : state), s_log (exec (cap_prog cp c f) st) = s_log st.
Proof.
  intros H cp Hin c f st. apply silent_calls_keep_log. apply read_only_caps_silent.
  symmetry. apply (effects_agree_rows tbl H cp false Hin).
Qed.

Lemma routes_agree_rows tbl :
  routes_agree tbl = true ->
  forall i b, In (i, b) tbl -> exists cp, route_cap i = Some cp /\ b = cap_can_append cp.
Proof.
  unfold routes_agree. intros H i b Hin. apply andb_true_iff in H. destruct H as [_ H].
  rewrite forallb_forall in H. specialize (H (i, b) Hin). cbn [fst snd] in H.
  destruct (route_cap i) as [cp|]; [|discriminate]. exists cp. split; [reflexivity|].
  apply Bool.eqb_prop in H. exact H.
Qed.
