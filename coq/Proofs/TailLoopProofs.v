(* C04 — termination of the tail-doubling driver (Model/TailLoop.v), for arbitrary constants,
   arbitrary scan results and arbitrary accumulators. *)
From RipV Require Import Base.Prelude Model.TailLoop.

Section Term.
  Context {E A : Type}.
  Variable c : cfg.
  Variable scan : N -> N -> sres E.
  Variable acc0 : A.
  Variable examine : A -> list E -> A.
  Variable done : A -> bool.

  Notation step := (loop_step c scan acc0 examine done).
  Notation it := (iter c scan acc0 examine done).

  (* rounds still needed from window size tb *)
  Definition mu (tb : N) : N :=
    if l_max_bytes c <=? tb then 0 else N.log2_up (l_max_bytes c) - N.log2 tb.

  Lemma mu_pos tb : 0 < tb -> tb < l_max_bytes c -> 0 < mu tb.
  Proof.
    intros Hp Hlt. unfold mu. destruct (l_max_bytes c <=? tb) eqn:El; [lia|].
    assert (Hm : 0 < l_max_bytes c) by lia.
    pose proof (N.log2_log2_up_spec _ Hm) as [_ Hup].
    assert (Hl : N.log2 tb < N.log2_up (l_max_bytes c)).
    { apply N.log2_lt_pow2; [exact Hp|]. lia. }
    lia.
  Qed.

  Lemma step_inl_tb st st' :
    l_cap_break c = true -> step st = inl st' ->
    s_tb st < l_max_bytes c /\ s_tb st' = N.min (s_tb st * 2) (l_max_bytes c).
  Proof.
    intros Hc. unfold loop_step.
    destruct ((l_max_bytes c <? s_tb st) || done (s_acc st)) eqn:E0; [discriminate|].
    destruct (scan (l_max_events c) (s_tb st)) as [| |evs cpl]; try discriminate.
    destruct cpl; [discriminate|]. rewrite Hc. cbn [andb].
    destruct (l_max_bytes c <=? s_tb st) eqn:E1; [discriminate|].
    intros H; inversion H; subst st'; cbn [s_tb]. split; [lia | reflexivity].
  Qed.

  Lemma mu_step tb : 0 < tb -> tb < l_max_bytes c ->
    mu (N.min (tb * 2) (l_max_bytes c)) + 1 <= mu tb.
  Proof.
    intros Hp Hlt. pose proof (mu_pos tb Hp Hlt) as Hmu.
    destruct (N.le_gt_cases (l_max_bytes c) (tb * 2)) as [Hge|Hsm].
    - rewrite N.min_r by lia. unfold mu at 1. rewrite N.leb_refl. lia.
    - rewrite N.min_l by lia. unfold mu.
      destruct (l_max_bytes c <=? tb * 2) eqn:E1; [lia|].
      destruct (l_max_bytes c <=? tb) eqn:E2; [lia|].
      replace (tb * 2) with (2 * tb) by lia. rewrite N.log2_double by exact Hp.
      assert (Hm : 0 < l_max_bytes c) by lia.
      pose proof (N.log2_log2_up_spec _ Hm) as [_ Hup].
      assert (Hl : N.log2 (2 * tb) < N.log2_up (l_max_bytes c)).
      { apply N.log2_lt_pow2; [lia|]. lia. }
      rewrite N.log2_double in Hl by exact Hp. lia.
  Qed.

  Lemma iter_terminates_aux :
    l_cap_break c = true ->
    forall n st, 0 < s_tb st -> (N.to_nat (mu (s_tb st)) <= n)%nat ->
    exists fin, it (S n) st = Some fin.
  Proof.
    intros Hc. induction n as [|n IH]; intros st Hp Hmu.
    - cbn [iter]. destruct (step st) as [st'|fin] eqn:Es; [|eauto].
      destruct (step_inl_tb _ _ Hc Es) as [Hlt _].
      pose proof (mu_pos _ Hp Hlt). lia.
    - cbn [iter]. destruct (step st) as [st'|fin] eqn:Es; [|eauto].
      destruct (step_inl_tb _ _ Hc Es) as [Hlt Htb].
      apply IH.
      + rewrite Htb. lia.
      + rewrite Htb. pose proof (mu_step _ Hp Hlt). lia.
  Qed.

  Lemma mu_le_bound tb : (N.to_nat (mu tb) <= N.to_nat (N.log2_up (l_max_bytes c) - N.log2 tb))%nat.
  Proof. unfold mu. destruct (l_max_bytes c <=? tb); lia. Qed.

  (* every start state with a positive window leaves the loop within rounds_bound rounds *)
  Theorem loop_terminates :
    l_cap_break c = true ->
    forall st, 0 < s_tb st ->
    exists n fin, (n <= rounds_bound c (s_tb st))%nat /\ it n st = Some fin.
  Proof.
    intros Hc st Hp. unfold rounds_bound.
    destruct (iter_terminates_aux Hc _ st Hp (mu_le_bound (s_tb st))) as [fin Hf].
    exists (S (N.to_nat (N.log2_up (l_max_bytes c) - N.log2 (s_tb st)))), fin. split; [lia | exact Hf].
  Qed.

  Theorem run_loop_some :
    l_cap_break c = true -> 0 < l_initial c ->
    exists fin, run_loop c scan acc0 examine done = Some fin.
  Proof.
    intros Hc Hp. unfold run_loop, rounds_bound.
    apply (iter_terminates_aux Hc _ (l_init c acc0)); [exact Hp | apply mu_le_bound].
  Qed.

  (* more fuel never changes the outcome *)
  Lemma iter_mono n st fin : it n st = Some fin -> forall m, (n <= m)%nat -> it m st = Some fin.
  Proof.
    revert st; induction n as [|n IH]; intros st H m Hm; [discriminate|].
    destruct m as [|m]; [lia|]. cbn [iter] in *.
    destruct (step st) as [st'|f]; [apply IH; [exact H | lia] | exact H].
  Qed.

  (* a fixpoint of the step function is a loop that never ends *)
  Lemma fixpoint_never_exits st : step st = inl st -> forall fuel, it fuel st = None.
  Proof. intros H fuel; induction fuel as [|f IH]; cbn [iter]; [reflexivity|]. rewrite H. exact IH. Qed.
End Term.

(* --- without the cap break the step function has a fixpoint (S1): window at the cap, scan
       incomplete, nothing found --- *)
Definition s1_cfg : cfg :=
  {| l_initial := 262144; l_max_bytes := 8388608; l_max_events := 10000;
     l_cap_break := false; l_clears := true; l_incomplete_fallback := true |}.
Definition s1_scan : N -> N -> sres N := fun _ _ => STail [] false.
Definition s1_state : lstate (option N) :=
  {| s_tb := 8388608; s_acc := None; s_scanned := true; s_complete := false |}.
Definition s1_examine (a : option N) (evs : list N) : option N :=
  match a with Some _ => a | None => hd_error (rev evs) end.
Definition s1_done (a : option N) : bool := match a with Some _ => true | None => false end.

Lemma s1_fixpoint : loop_step s1_cfg s1_scan None s1_examine s1_done s1_state = inl s1_state.
Proof. vm_compute. reflexivity. Qed.

Lemma s1_reachable :
  iter s1_cfg s1_scan None s1_examine s1_done 5 (l_init s1_cfg None) = None
  /\ exists k st, (k = 5)%nat /\ loop_step s1_cfg s1_scan None s1_examine s1_done st = inl s1_state.
Proof.
  split; [vm_compute; reflexivity|].
  exists 5%nat, {| s_tb := 4194304; s_acc := None; s_scanned := true; s_complete := false |}.
  split; [reflexivity | vm_compute; reflexivity].
Qed.

Theorem status_diverges_unfixed :
  exists (c : cfg) (scan : N -> N -> sres N) (st : lstate (option N)),
    l_cap_break c = false /\ 0 < l_initial c /\
    (forall fuel, iter c scan None s1_examine s1_done fuel st = None) /\
    (forall fuel, iter c scan None s1_examine s1_done fuel (l_init c None) = None).
Proof.
  exists s1_cfg, s1_scan, s1_state. split; [reflexivity|]. split; [vm_compute; reflexivity|].
  pose proof (fixpoint_never_exits s1_cfg s1_scan None s1_examine s1_done s1_state s1_fixpoint) as Hfix.
  split; [exact Hfix|].
  intros fuel.
  (* five doublings lead from the initial window to the fixpoint *)
  do 5 (destruct fuel as [|fuel]; [reflexivity|]; cbn [iter];
        match goal with |- context [loop_step ?a ?b ?c ?d ?e ?s] =>
          let r := eval vm_compute in (loop_step a b c d e s) in
          change (loop_step a b c d e s) with r end; cbv iota beta).
  apply Hfix.
Qed.

(* non-vacuity of the termination theorem: a configuration with the cap break, on the same
   never-complete scan, leaves the loop after 6 rounds *)
Definition s1_cfg_fixed : cfg :=
  {| l_initial := 262144; l_max_bytes := 8388608; l_max_events := 10000;
     l_cap_break := true; l_clears := true; l_incomplete_fallback := true |}.
Lemma fixed_demo :
  loop_wf s1_cfg_fixed = true /\
  rounds_bound s1_cfg_fixed (l_initial s1_cfg_fixed) = 6%nat /\
  iter s1_cfg_fixed s1_scan None s1_examine s1_done 5 (l_init s1_cfg_fixed None) = None /\
  option_map (@s_tb _) (iter s1_cfg_fixed s1_scan None s1_examine s1_done 6 (l_init s1_cfg_fixed None))
    = Some 8388608.
Proof. vm_compute. repeat split; reflexivity. Qed.
