(* C11 — proofs about Model/WsLockTree.v: every write of a process of the command that still holds one of the
   execution's output streams happens while the execution holds the workspace permit and before it releases
   it, for every waiter accepted by [waiter_wf], every set of processes, every schedule. *)
From RipV Require Import Base.Prelude Model.WsLockTree.

Definition is_rel_ev (e : ev) : bool := match e with ETask TRel => true | _ => false end.

(* newest first: an attached write has no release of the execution before it *)
Fixpoint no_att_after_rel (tr : list ev) : bool :=
  match tr with
  | [] => true
  | e :: r => (match e with ETreeWrite _ _ true _ => negb (existsb is_rel_ev r) | _ => true end)
              && no_att_after_rel r
  end.

Lemma nth_set_nth_same : forall A (l : list A) i x y, nth_error l i = Some y -> nth_error (set_nth l i x) i = Some x.
Proof.
  induction l as [|a l IH]; intros i x y H; destruct i; cbn in *; try discriminate; auto.
  eapply IH; eauto.
Qed.

Lemma nth_set_nth_other : forall A (l : list A) i j x, i <> j -> nth_error (set_nth l i x) j = nth_error l j.
Proof.
  induction l as [|a l IH]; intros i j x H; destruct i; destruct j; cbn; auto; try congruence.
Qed.

Lemma forallb_set_nth : forall A (f : A -> bool) (l : list A) i x,
  forallb f l = true -> f x = true -> forallb f (set_nth l i x) = true.
Proof.
  induction l as [|a l IH]; intros i x H Hx; destruct i; cbn in *; auto.
  - apply andb_true_iff in H. destruct H as [_ H]. rewrite Hx, H. reflexivity.
  - apply andb_true_iff in H. destruct H as [Ha H]. rewrite Ha. cbn. apply IH; auto.
Qed.

Lemma forallb_nth : forall A (f : A -> bool) (l : list A) i x,
  forallb f l = true -> nth_error l i = Some x -> f x = true.
Proof.
  induction l as [|a l IH]; intros i x H Hn; destruct i; cbn in *; try discriminate.
  - inversion Hn; subst. apply andb_true_iff in H. tauto.
  - apply andb_true_iff in H. destruct H as [_ H]. eapply IH; eauto.
Qed.

Record tinv (st : tstate) (ws : wst) : Prop := {
  i_acc : waccept ws (todo st) = true;
  i_hold : w_acq ws = true -> w_rel ws = false -> tholder st = Some 0%nat;
  i_started : started st = true -> w_sp ws = true;
  i_sp : w_sp ws = true -> w_acq ws = true;
  i_rel : w_rel ws = true -> w_sp ws = true -> w_j0 ws = true /\ w_j1 ws = true;
  i_j0 : w_j0 ws = true -> nobody_holds false (procs st) = true;
  i_j1 : w_j1 ws = true -> nobody_holds true (procs st) = true;
  i_oth : forall j, (nth_error (others st) j = Some 1%nat \/ nth_error (others st) j = Some 2%nat) ->
                    tholder st = Some (S j);
  i_good : forallb good_ev (ttrace st) = true;
  i_relev : existsb is_rel_ev (ttrace st) = true -> w_rel ws = true;
  i_order : no_att_after_rel (ttrace st) = true
}.

Lemma nth_repeat0 : forall n j x, nth_error (repeat 0%nat n) j = Some x -> x = 0%nat.
Proof.
  induction n as [|n IH]; intros j x H; destruct j; cbn in *; try discriminate.
  - inversion H; auto.
  - eapply IH; eauto.
Qed.

Lemma tinv_init : forall w ps n, waiter_wf w = true -> tinv (tinit w ps n) wst0.
Proof.
  intros w ps n H. constructor; cbn; auto; try discriminate.
  intros j [Hj | Hj]; apply nth_repeat0 in Hj; discriminate.
Qed.

(* a process that holds nothing of stream s after its step *)
Lemma holds_after_write : forall s p a r,
  prog p = a :: r -> holds s p = false -> holds s {| prog := r; h_out := h_out p; h_err := h_err p |} = false.
Proof.
  intros s p a r Hp H. unfold holds, live in *. rewrite Hp in H. cbn in *.
  destruct s; rewrite H; apply andb_false_r.
Qed.

Lemma holds_after_close : forall s s' p a r,
  prog p = a :: r -> holds s p = false -> holds s (close_stream s' p r) = false.
Proof.
  intros s s' p a r Hp H. unfold holds, live, close_stream in *. rewrite Hp in H. cbn in *.
  destruct s; destruct s'; cbn; try rewrite H; try apply andb_false_r.
Qed.

Lemma nobody_holds_set : forall s ps i p p',
  nobody_holds s ps = true -> nth_error ps i = Some p -> (holds s p = false -> holds s p' = false) ->
  nobody_holds s (set_nth ps i p') = true.
Proof.
  intros s ps i p p' H Hn Himp. unfold nobody_holds in *.
  apply forallb_set_nth; auto.
  pose proof (forallb_nth _ _ _ _ _ H Hn) as Hp. cbn in Hp.
  apply negb_true_iff in Hp. rewrite (Himp Hp). reflexivity.
Qed.

Lemma attached_held : forall ps i p,
  nth_error ps i = Some p -> attached p = true ->
  nobody_holds false ps = false \/ nobody_holds true ps = false.
Proof.
  intros ps i p Hn Ha. unfold attached in Ha. apply orb_true_iff in Ha. destruct Ha as [Ha | Ha].
  - left. destruct (nobody_holds false ps) eqn:E; auto.
    pose proof (forallb_nth _ _ _ _ _ E Hn) as Hp. cbn in Hp. rewrite Ha in Hp. discriminate.
  - right. destruct (nobody_holds true ps) eqn:E; auto.
    pose proof (forallb_nth _ _ _ _ _ E Hn) as Hp. cbn in Hp. rewrite Ha in Hp. discriminate.
Qed.

Lemma tinv_step : forall st ws x, tinv st ws -> exists ws', tinv (tstep st x) ws'.
Proof.
  intros st ws x I. destruct x as [|i|j]; cbn [tstep].
  - (* the waiter *)
    destruct (todo st) as [|o r] eqn:Ht; [exists ws; exact I|].
    destruct (top_enabled st o) eqn:En; [|exists ws; exact I].
    pose proof (i_acc _ _ I) as Hacc. rewrite Ht in Hacc. cbn [waccept] in Hacc.
    destruct (wstep ws o) as [ws'|] eqn:Hw; [|discriminate].
    exists ws'. destruct I as [_ Ihold Ist Isp Irel Ij0 Ij1 Ioth Igood Irelev Iord].
    destruct o as [| | |s k|]; cbn in Hw.
    + (* TAcq *)
      destruct (negb (w_acq ws) && negb (w_rel ws)) eqn:C; inversion Hw; subst; clear Hw.
      cbn in En. destruct (tholder st) eqn:Hh; [discriminate|].
      apply andb_true_iff in C. destruct C as [C1 _]. apply negb_true_iff in C1.
      constructor; cbn; auto;
        try solve [ intros j Hj; apply Ioth in Hj; discriminate
                  | intros X; apply Isp in X; congruence
                  | intros X Y; apply Isp in Y; congruence ].
    + (* TSpawn *)
      destruct (w_acq ws && negb (w_rel ws) && negb (w_sp ws)) eqn:C; inversion Hw; subst; clear Hw.
      apply andb_true_iff in C. destruct C as [C C3]. apply andb_true_iff in C. destruct C as [C1 C2].
      apply negb_true_iff in C2. apply negb_true_iff in C3.
      constructor; cbn; auto; try solve [ intros; congruence ].
    + (* TWaitShell *)
      inversion Hw; subst. constructor; cbn; auto.
    + (* TJoin *)
      destruct k.
      * destruct s; inversion Hw; subst; clear Hw; cbn in En; constructor; cbn; auto;
          try solve [ intros Hr Hs; destruct (Irel Hr Hs); auto ].
      * assert (ws' = ws) by (destruct s; inversion Hw; auto). subst. constructor; cbn; auto.
    + (* TRel *)
      destruct (w_acq ws && negb (w_rel ws) && (negb (w_sp ws) || (w_j0 ws && w_j1 ws))) eqn:C; inversion Hw; subst; clear Hw.
      apply andb_true_iff in C. destruct C as [C C3]. apply andb_true_iff in C. destruct C as [C1 C2].
      apply negb_true_iff in C2.
      constructor; cbn; auto;
        try solve [ intros; discriminate
                  | intros _ Hs; rewrite Hs in C3; cbn in C3; apply andb_true_iff in C3; exact C3
                  | intros j Hj; pose proof (Ioth j Hj) as Hh; rewrite Hh; reflexivity ].
  - (* a process of the command *)
    destruct (started st) eqn:Hst; [|exists ws; exact I].
    destruct (nth_error (procs st) i) as [p|] eqn:Hn; [|exists ws; exact I].
    destruct (prog p) as [|a r] eqn:Hp; [exists ws; exact I|].
    exists ws. destruct I as [Iacc Ihold Ist Isp Irel Ij0 Ij1 Ioth Igood Irelev Iord].
    destruct a as [n|s].
    + (* a write *)
      assert (Hatt : attached p = true -> tholder st = Some 0%nat /\ existsb is_rel_ev (ttrace st) = false).
      { intros Ha. pose proof (Ist Hst) as Hs. pose proof (Isp Hs) as Hq.
        assert (Hr : w_rel ws = false).
        { destruct (w_rel ws) eqn:E; auto. destruct (Irel eq_refl Hs) as [A B].
          destruct (attached_held _ _ _ Hn Ha) as [X | X]; [rewrite (Ij0 A) in X | rewrite (Ij1 B) in X]; discriminate. }
        split; [apply Ihold; auto|].
        destruct (existsb is_rel_ev (ttrace st)) eqn:E; auto. rewrite (Irelev eq_refl) in Hr. discriminate. }
      constructor; cbn [tholder todo started procs others ttrace]; auto.
      * intros A. eapply nobody_holds_set; eauto. intros X. eapply holds_after_write; eauto.
      * intros B. eapply nobody_holds_set; eauto. intros X. eapply holds_after_write; eauto.
      * cbn. rewrite Igood. destruct (attached p) eqn:Ha; auto.
        destruct (Hatt eq_refl) as [Hh _]. rewrite Hh. reflexivity.
      * cbn. rewrite Iord. destruct (attached p) eqn:Ha; auto.
        destruct (Hatt eq_refl) as [_ Hh]. rewrite Hh. reflexivity.
    + (* a close *)
      constructor; cbn [tholder todo started procs others ttrace]; auto.
      * intros A. eapply nobody_holds_set; eauto. intros X. eapply holds_after_close; eauto.
      * intros B. eapply nobody_holds_set; eauto. intros X. eapply holds_after_close; eauto.
  - (* another execution *)
    destruct (nth_error (others st) j) as [pc|] eqn:Hn; [|exists ws; exact I].
    exists ws.
    destruct pc as [|[|pc]].
    + (* acquire *)
      destruct (tholder st) eqn:Hh; [exact I|].
      destruct I as [Iacc Ihold Ist Isp Irel Ij0 Ij1 Ioth Igood Irelev Iord].
      constructor; cbn [tholder todo started procs others ttrace]; auto.
      * intros A B. pose proof (Ihold A B) as X. rewrite Hh in X. discriminate.
      * intros j' Hj. destruct (Nat.eq_dec j j') as [->|Hne]; auto.
        rewrite nth_set_nth_other in Hj by auto. apply Ioth in Hj. rewrite Hh in Hj. discriminate.
    + (* write *)
      destruct I as [Iacc Ihold Ist Isp Irel Ij0 Ij1 Ioth Igood Irelev Iord].
      pose proof (Ioth j (or_introl Hn)) as Hh.
      constructor; cbn [tholder todo started procs others ttrace]; auto.
      * intros j' Hj. destruct (Nat.eq_dec j j') as [->|Hne]; auto.
        rewrite nth_set_nth_other in Hj by auto. apply Ioth in Hj. exact Hj.
      * cbn. rewrite Igood, Hh. cbn. rewrite Nat.eqb_refl. reflexivity.
    + (* release *)
      destruct I as [Iacc Ihold Ist Isp Irel Ij0 Ij1 Ioth Igood Irelev Iord].
      constructor; cbn [tholder todo started procs others ttrace]; auto.
      * intros A B. rewrite (Ihold A B). reflexivity.
      * intros j' Hj. destruct (Nat.eq_dec j j') as [->|Hne].
        -- rewrite (nth_set_nth_same _ _ _ _ _ Hn) in Hj. destruct Hj; discriminate.
        -- rewrite nth_set_nth_other in Hj by auto. pose proof (Ioth j' Hj) as Hh. rewrite Hh.
           cbn. destruct (Nat.eqb j' j) eqn:E; auto. apply Nat.eqb_eq in E. congruence.
Qed.

Lemma tinv_run : forall sched st ws, tinv st ws -> exists ws', tinv (fold_left tstep sched st) ws'.
Proof.
  induction sched as [|x r IH]; intros st ws I; cbn; eauto.
  destruct (tinv_step st ws x I) as [ws' I']. eapply IH; eauto.
Qed.

Lemma forallb_In : forall A (f : A -> bool) l x, forallb f l = true -> In x l -> f x = true.
Proof. intros A f l x H Hi. rewrite forallb_forall in H. auto. Qed.

(* every write of a still-attached process of the command: the execution holds the permit; every write of
   another execution: that execution holds it *)
Theorem tree_writes_under_lock : forall w ps n sched,
  waiter_wf w = true ->
  (forall p k h, In (ETreeWrite p k true h) (ttrace (trun w ps n sched)) -> h = Some 0%nat)
  /\ (forall j h, In (EOtherWrite j h) (ttrace (trun w ps n sched)) -> h = Some (S j)).
Proof.
  intros w ps n sched H. destruct (tinv_run sched _ _ (tinv_init w ps n H)) as [ws I].
  pose proof (i_good _ _ I) as G. split.
  - intros p k h Hi. pose proof (forallb_In _ _ _ _ G Hi) as X. cbn in X.
    destruct h as [[|x]|]; try discriminate; auto.
  - intros j h Hi. pose proof (forallb_In _ _ _ _ G Hi) as X. cbn in X.
    destruct h as [x|]; try discriminate. apply Nat.eqb_eq in X. subst. reflexivity.
Qed.

Lemma no_att_after_rel_split : forall l1 l2,
  no_att_after_rel (l1 ++ ETask TRel :: l2) = true ->
  forall p k h, ~ In (ETreeWrite p k true h) l1.
Proof.
  induction l1 as [|e l1 IH]; intros l2 H p k h Hi; [inversion Hi|].
  cbn in H. apply andb_true_iff in H. destruct H as [He H]. destruct Hi as [-> | Hi].
  - apply negb_true_iff in He. rewrite existsb_app in He. cbn in He. rewrite orb_true_r in He. discriminate.
  - eapply IH; eauto.
Qed.

(* the ordering form: nothing a still-attached process of the command writes comes after the release *)
Theorem tree_no_attached_write_after_release : forall w ps n sched l1 l2,
  waiter_wf w = true ->
  ttrace (trun w ps n sched) = l1 ++ ETask TRel :: l2 ->
  forall p k h, ~ In (ETreeWrite p k true h) l1.
Proof.
  intros w ps n sched l1 l2 H E. destruct (tinv_run sched _ _ (tinv_init w ps n H)) as [ws I].
  pose proof (i_order _ _ I) as O. unfold trun in E. rewrite E in O.
  eapply no_att_after_rel_split; eauto.
Qed.

(* what an accepted observation says (correspondence): the replay only takes model steps *)
Lemma ref_waiter_wf : waiter_wf ref_waiter = true.
Proof. vm_compute. reflexivity. Qed.

Lemma bounded_waiter_not_wf : waiter_wf bounded_waiter = false.
Proof. vm_compute. reflexivity. Qed.

(* the bounded drain: the execution releases while the child still holds both pipes; the next execution
   acquires; the child writes under ITS permit *)
Lemma bounded_drain_overlap :
  In (ETreeWrite 1 2 true (Some 1%nat)) (ttrace (trun bounded_waiter bg_procs 1 sched_handover))
  /\ tholder (trun bounded_waiter bg_procs 1 sched_handover) = Some 1%nat.
Proof. vm_compute. split; [left; reflexivity | reflexivity]. Qed.

(* the same schedule against the waiter as built: the joins are not enabled, the execution keeps the permit,
   the other execution does not get it, the child writes under the execution's permit *)
Lemma ref_waiter_holds :
  tholder (trun ref_waiter bg_procs 1 sched_handover) = Some 0%nat
  /\ In (ETreeWrite 1 2 true (Some 0%nat)) (ttrace (trun ref_waiter bg_procs 1 sched_handover)).
Proof. vm_compute. split; [reflexivity | left; reflexivity]. Qed.

(* a child that closed both streams before it writes is invisible to the execution: the joins pass as soon
   as the shell is gone, the lock is handed on, and the child's (unattached) write lands in the next
   execution's span - the model says what the code does, the property text does not speak of it *)
Lemma detached_child_outlives_span :
  In (ETreeWrite 1 2 false (Some 1%nat)) (ttrace (trun ref_waiter detached_procs 1 sched_detached)).
Proof. vm_compute. left; reflexivity. Qed.

Lemma bounded_drain_refuted :
  exists ps n sched p k j, In (ETreeWrite p k true (Some (S j))) (ttrace (trun bounded_waiter ps n sched)).
Proof. exists bg_procs, 1%nat, sched_handover, 1%nat, 2%N, 0%nat. exact (proj1 bounded_drain_overlap). Qed.

(* with at least two slots a read-only call gets one while the (one) mutating call in progress holds another, as
   long as fewer than slots - 1 read-only calls are running; with one slot it does not *)
Lemma runner_readonly_beside_mutator : forall slots readers,
  runner_wf slots = true -> (readers + 1 < slots)%N -> runner_admits slots (1 + readers) = true.
Proof.
  intros slots readers _ H. unfold runner_admits. apply N.ltb_lt. lia.
Qed.

Lemma runner_one_slot_serialises : runner_wf 1 = false /\ runner_admits 1 1 = false.
Proof. vm_compute. split; reflexivity. Qed.
