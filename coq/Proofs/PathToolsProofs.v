(* C13 — what the tools do with a resolved path (Model/Paths.v, "tool programs"): every path a
   path-taking tool hands to the operating system is derived from the resolver's result and lands at
   or below the workspace root, whatever the process working directory is. *)
From RipV Require Import Base.Prelude Base.Fs Model.Paths Proofs.PathsProofs.

Local Notation abs q := (is_absolute q = true).
Local Notation nopar q := (has_parent q = false).

(* ---------- absolute strings without `..`: the operating system lands at their real segments ---------- *)
Lemma abs_loc cwd q : abs q -> nopar q -> kresolve cwd q = real_segs q.
Proof.
  intros Ha Hp. unfold kresolve. rewrite Ha. unfold has_parent in Hp.
  rewrite walk_noparent by exact Hp. reflexivity.
Qed.

Lemma starts_slash_inv x r : starts_slash (x :: r) = true -> x = 47.
Proof.
  intros H. destruct x as [|p]; [discriminate|].
  repeat (destruct p as [p|p|]; cbn in H; try discriminate). reflexivity.
Qed.

Lemma segs_abs q : abs q -> exists rest, q = 47 :: rest /\ segs q = [] :: segs rest.
Proof.
  intros H. destruct q as [|x r]; [discriminate|]. unfold is_absolute in H.
  apply starts_slash_inv in H. subst x. exists r. split; [reflexivity|].
  unfold segs, split_on. cbn [split_aux]. rewrite N.eqb_refl. reflexivity.
Qed.

Lemma real_segs_cons_nil l : filter nt ([] :: l) = filter nt l.
Proof. reflexivity. Qed.

Lemma strip_trail (L : list str) :
  exists T, L = rev (drop_trivial (rev L)) ++ T /\ forallb seg_trivial T = true.
Proof.
  destruct (drop_trivial_split (rev L)) as (pre & E & Hpre). exists (rev pre). split.
  - rewrite <- (rev_involutive L) at 1. rewrite E at 1. apply rev_app_distr.
  - rewrite forallb_rev. exact Hpre.
Qed.

Lemma existsb_removelast {A} (f : A -> bool) l : existsb f l = false -> existsb f (removelast l) = false.
Proof.
  induction l as [|x l IH]; [reflexivity|]. cbn [existsb]. intros H. apply orb_false_iff in H.
  destruct H as [Hx Hl]. destruct l as [|y l]; [reflexivity|].
  change (removelast (x :: y :: l)) with (x :: removelast (y :: l)). cbn [existsb]. rewrite Hx. apply IH; exact Hl.
Qed.

Lemma nopar_of_real q : existsb seg_dotdot (real_segs q) = false -> nopar q.
Proof. intros H. rewrite has_parent_real. exact H. Qed.

(* ---------- Path::parent ---------- *)
Lemma parent_spec q q' : abs q -> parent q = Some q' ->
  abs q' /\ real_segs q' = removelast (real_segs q).
Proof.
  intros Ha Hp. destruct (segs_abs q Ha) as (rest & -> & Es).
  unfold parent, body_segs in Hp. rewrite Es in Hp.
  set (B := segs rest) in *.
  assert (HB : Forall (fun s => ~ In 47 s) B) by apply segs_noslash.
  destruct (drop_trivial (rev B)) as [|s br] eqn:Ed; [discriminate|]. inversion Hp; subst q'; clear Hp.
  split; [reflexivity|].
  destruct (strip_trail B) as (T & EB & HT). rewrite Ed in EB. cbn [rev] in EB.
  assert (Hs : seg_trivial s = false).
  { pose proof (drop_trivial_head (rev B)) as H. rewrite Ed in H. exact H. }
  destruct (strip_trail (rev br)) as (T2 & EB2 & HT2). rewrite rev_involutive in EB2.
  set (C := rev (drop_trivial br)) in *.
  assert (Hreal : real_segs (47 :: rest) = filter nt C ++ [s]).
  { unfold real_segs. rewrite Es. fold nt. rewrite real_segs_cons_nil. fold B. rewrite EB.
    rewrite !filter_app, (filter_nt_trivial T HT), app_nil_r. rewrite EB2 at 1.
    rewrite filter_app, (filter_nt_trivial T2 HT2), app_nil_r. cbn [filter]. unfold nt at 2. rewrite Hs. reflexivity. }
  rewrite Hreal, removelast_last.
  unfold real_segs. fold nt.
  assert (HC : Forall (fun x => ~ In 47 x) C).
  { rewrite EB in HB. apply Forall_app_inv in HB. destruct HB as [HB _]. apply Forall_app_inv in HB.
    destruct HB as [HB _]. rewrite EB2 in HB. apply Forall_app_inv in HB. destruct HB as [HB _]. exact HB. }
  destruct C as [|c C'] eqn:EC.
  - cbn [join_segs]. reflexivity.
  - assert (E47 : segs (47 :: join_segs (c :: C')) = [] :: segs (join_segs (c :: C'))).
    { unfold segs, split_on. cbn [split_aux]. rewrite N.eqb_refl. reflexivity. }
    rewrite E47, real_segs_cons_nil, segs_join_segs by (try discriminate; exact HC). reflexivity.
Qed.

Lemma parent_nopar q q' : abs q -> nopar q -> parent q = Some q' -> nopar q'.
Proof.
  intros Ha Hn Hp. destruct (parent_spec q q' Ha Hp) as [_ E]. apply nopar_of_real. rewrite E.
  apply existsb_removelast. rewrite <- has_parent_real. exact Hn.
Qed.

(* ---------- PathBuf::join with a relative string without `..` ---------- *)
Lemma join_props root raw : abs root -> nopar root -> is_absolute raw = false -> has_parent raw = false ->
  abs (join root raw) /\ nopar (join root raw) /\ real_segs (join root raw) = real_segs root ++ real_segs raw.
Proof.
  intros Ha Hn Hr Hp. destruct (segs_join_decomp root raw Hr (is_absolute_ne _ Ha)) as (S & ES & EF & EA).
  assert (ER : real_segs (join root raw) = real_segs root ++ real_segs raw).
  { unfold real_segs. rewrite ES, filter_app. f_equal. exact EF. }
  split; [rewrite EA; exact Ha|]. split; [|exact ER].
  apply nopar_of_real. rewrite ER, existsb_app. rewrite <- !has_parent_real, Hn, Hp. reflexivity.
Qed.

(* ---------- directory entries below a path ---------- *)
Lemma proper_noslash n : proper_name n = true -> ~ In 47 n /\ seg_trivial n = false /\ seg_dotdot n = false.
Proof.
  unfold proper_name. intros H. apply andb_true_iff in H. destruct H as [H H3]. apply andb_true_iff in H.
  destruct H as [H1 H2]. apply negb_true_iff in H1, H2, H3. repeat split; try assumption.
  intros Hin. assert (existsb (N.eqb 47) n = true) as E; [|congruence].
  apply existsb_exists. exists 47. split; [exact Hin|apply N.eqb_refl].
Qed.

Lemma noslash_not_abs n : ~ In 47 n -> is_absolute n = false.
Proof.
  intros H. destruct n as [|x r]; [reflexivity|]. unfold is_absolute.
  destruct (starts_slash (x :: r)) eqn:E; [|reflexivity]. apply starts_slash_inv in E. subst x.
  exfalso. apply H. left; reflexivity.
Qed.

Lemma join_name q n : abs q -> nopar q -> proper_name n = true ->
  abs (join q n) /\ nopar (join q n) /\ real_segs (join q n) = real_segs q ++ [n].
Proof.
  intros Ha Hn Hp. destruct (proper_noslash n Hp) as (H47 & Ht & Hd).
  assert (Hrel : is_absolute n = false) by (apply noslash_not_abs; exact H47).
  assert (Hsg : segs n = [n]) by (apply segs_single; exact H47).
  assert (Hpn : has_parent n = false).
  { unfold has_parent. rewrite Hsg. cbn [existsb]. rewrite Hd. reflexivity. }
  destruct (join_props q n Ha Hn Hrel Hpn) as (A & B & C). split; [exact A|]. split; [exact B|].
  rewrite C. unfold real_segs at 2. rewrite Hsg. cbn [filter]. rewrite Ht. reflexivity.
Qed.

Lemma descend_props names : forall q, abs q -> nopar q -> forallb proper_name names = true ->
  abs (descend q names) /\ nopar (descend q names) /\ real_segs (descend q names) = real_segs q ++ names.
Proof.
  induction names as [|n names IH]; intros q Ha Hn Hp.
  - cbn [descend fold_left]. rewrite app_nil_r. auto.
  - cbn [forallb] in Hp. apply andb_true_iff in Hp. destruct Hp as [Hp1 Hp2].
    destruct (join_name q n Ha Hn Hp1) as (A & B & C).
    unfold descend. cbn [fold_left]. fold (descend (join q n) names).
    destruct (IH (join q n) A B Hp2) as (A' & B' & C'). split; [exact A'|]. split; [exact B'|].
    rewrite C', C, <- app_assoc. reflexivity.
Qed.

(* ---------- fs::create_dir_all: the chain of ancestors stops at the root, which exists ---------- *)
Definition inside (R : list str) (x : str) : Prop := abs x /\ nopar x /\ exists l, real_segs x = R ++ l.

Lemma chain_inside ex R :
  (forall s, abs s -> nopar s -> real_segs s = R -> ex s = true) ->
  forall fuel q, inside R q -> Forall (inside R) (mkdir_chain ex fuel q).
Proof.
  intros Hex. induction fuel as [|f IH]; intros q Hq; cbn [mkdir_chain].
  - constructor; [exact Hq|constructor].
  - constructor; [exact Hq|]. destruct (ex q) eqn:Eq; [constructor|].
    destruct (parent q) as [q'|] eqn:Ep; [|constructor]. apply IH.
    destruct Hq as (Ha & Hn & l & El).
    destruct (parent_spec q q' Ha Ep) as [Ha' Er]. split; [exact Ha'|]. split; [exact (parent_nopar q q' Ha Hn Ep)|].
    destruct l as [|x l'].
    + rewrite app_nil_r in El. rewrite (Hex q Ha Hn El) in Eq. discriminate.
    + exists (removelast (x :: l')). rewrite Er, El. apply removelast_app. discriminate.
Qed.

(* ---------- a path without a file name is the root itself ---------- *)
Lemma drop_trivial_all l : forallb seg_trivial l = true -> drop_trivial l = [].
Proof.
  induction l as [|s l IH]; [reflexivity|]. cbn [forallb drop_trivial]. intros H. apply andb_true_iff in H.
  destruct H as [Hs Hl]. rewrite Hs. apply IH; exact Hl.
Qed.

Lemma file_name_some_real raw : file_name raw <> None -> real_segs raw <> [].
Proof.
  intros H E. apply H. unfold file_name. unfold real_segs in E. fold nt in E.
  apply filter_nt_nil_all in E. rewrite drop_trivial_all; [reflexivity|]. rewrite forallb_rev. exact E.
Qed.

Lemma nonroot_spec root p l : real_segs p = real_segs root ++ l -> nonroot root p = true -> l <> [].
Proof.
  intros E H -> . rewrite app_nil_r in E. unfold nonroot in H. apply negb_true_iff in H.
  assert (list_eqb lN_eqb (real_segs p) (real_segs root) = true) as T; [|congruence].
  apply list_eqb_spec; [intros; apply lN_eqb_spec|exact E].
Qed.

(* ---------- one derivation ---------- *)
Definition dok (w : bool) (d : N) : bool :=
  (d =? 0) || (d =? 1) || (d =? 2) || (d =? 3) || (d =? 4) || (w && ((d =? 12) || (d =? 13))).

Lemma inside_under cwd root q : abs root -> nopar root -> inside (real_segs root) q -> under cwd root q.
Proof.
  intros Ha Hn (Ha' & Hn' & l & E). exists l. rewrite (abs_loc cwd q Ha' Hn'), (abs_loc cwd root Ha Hn). exact E.
Qed.

Lemma parent_chain_inside ex root p l :
  (forall s, abs s -> nopar s -> real_segs s = real_segs root -> ex s = true) ->
  abs p -> nopar p -> real_segs p = real_segs root ++ l -> l <> [] ->
  Forall (inside (real_segs root)) (parent_chain ex p).
Proof.
  intros Hex Ha Hn El Hl. unfold parent_chain. destruct (parent p) as [q|] eqn:Ep; [|constructor].
  apply chain_inside; [exact Hex|]. destruct (parent_spec p q Ha Ep) as [Ha' Er].
  split; [exact Ha'|]. split; [exact (parent_nopar p q Ha Hn Ep)|].
  exists (removelast l). rewrite Er, El. apply removelast_app. exact Hl.
Qed.

Lemma deriv_inside ex root p ext names w d l :
  abs root -> nopar root ->
  (forall s, abs s -> nopar s -> real_segs s = real_segs root -> ex s = true) ->
  abs p -> nopar p -> real_segs p = real_segs root ++ l ->
  forallb proper_name names = true ->
  (w = true -> l <> []) ->
  (l <> [] -> inside (real_segs root) (with_extension p ext)) ->
  dok w d = true ->
  Forall (inside (real_segs root)) (deriv_paths ex root p ext names d).
Proof.
  intros Ha Hn Hex Hpa Hpn El Hnames Hw Htmp Hd.
  assert (Hp : inside (real_segs root) p) by (split; [exact Hpa|split; [exact Hpn|exists l; exact El]]).
  unfold dok in Hd. repeat rewrite orb_true_iff in Hd. rewrite andb_true_iff, orb_true_iff in Hd.
  destruct Hd as [[[[[Hd|Hd]|Hd]|Hd]|Hd]|[Hw' [Hd|Hd]]]; apply N.eqb_eq in Hd; subst d; cbn [deriv_paths].
  - constructor; [|constructor]. split; [exact Ha|]. split; [exact Hn|]. exists []. rewrite app_nil_r. reflexivity.
  - constructor; [exact Hp|constructor].
  - destruct (nonroot root p) eqn:Enr; [|constructor].
    eapply parent_chain_inside; try eassumption. eapply nonroot_spec; eassumption.
  - destruct (nonroot root p) eqn:Enr; [|constructor]. constructor; [|constructor].
    apply Htmp. eapply nonroot_spec; eassumption.
  - destruct (descend_props names p Hpa Hpn Hnames) as (A & B & C). constructor; [|constructor].
    split; [exact A|]. split; [exact B|]. exists (l ++ names). rewrite C, El, app_assoc. reflexivity.
  - eapply parent_chain_inside; try eassumption. apply Hw; exact Hw'.
  - constructor; [|constructor]. apply Htmp. apply Hw; exact Hw'.
Qed.

(* ---------- the resolved path of every tool ---------- *)
Definition is_write (t : tool) : bool := match t with TWrite => true | _ => false end.

Lemma tool_path_inside t root raw p : abs root -> nopar root -> tool_path t root raw = Ok p ->
  abs p /\ nopar p /\ exists l, real_segs p = real_segs root ++ l
    /\ (is_write t = true -> tool_refuses_dir t raw = false -> l <> []).
Proof.
  intros Ha Hn H.
  assert (Hres : forall x, resolve_tool root x = Ok p ->
            abs p /\ nopar p /\ real_segs p = real_segs root ++ real_segs x).
  { intros x Hx. destruct (resolve_tool_ok _ _ _ Hx) as (Hr & Hp & ->). apply join_props; assumption. }
  assert (Hpatch : patch_target root raw = Ok p ->
            abs p /\ nopar p /\ exists l, real_segs p = real_segs root ++ l).
  { unfold patch_target. destruct (parse_rel_path raw) as [t0|e] eqn:Ep; [|discriminate]. intros Hx.
    destruct (Hres t0 Hx) as (A & B & C). split; [exact A|]. split; [exact B|]. eexists; exact C. }
  destruct t; cbn [tool_path] in H;
    try (destruct (Hres raw H) as (A & B & C); split; [exact A|]; split; [exact B|];
         exists (real_segs raw); split; [exact C|]; cbn [is_write tool_refuses_dir];
         first [discriminate | intros _ Hf; apply file_name_some_real; destruct (file_name raw); [discriminate|discriminate]]);
    try (destruct (Hpatch H) as (A & B & l & C); split; [exact A|]; split; [exact B|];
         exists l; split; [exact C|]; cbn [is_write]; discriminate).
  - inversion H; subst p. split; [exact Ha|]. split; [exact Hn|]. exists []. split; [rewrite app_nil_r; reflexivity|].
    cbn [is_write]. discriminate.
  - destruct (to_relative root raw) as [rel|e] eqn:Er; [|discriminate]. inversion H; subst p.
    destruct (to_relative_ok _ _ _ Er) as [Hr Hp]. destruct (join_props root rel Ha Hn Hr Hp) as (A & B & C).
    split; [exact A|]. split; [exact B|]. exists (real_segs rel). split; [exact C|]. cbn [is_write]. discriminate.
Qed.

(* ---------- every access of every tool ---------- *)
Lemma prog_eqb_eq a b : prog_eqb a b = true -> a = b.
Proof.
  destruct a as [i s], b as [j t]. unfold prog_eqb. cbn [fst snd]. intros H. apply andb_true_iff in H.
  destruct H as [H1 H2]. apply N.eqb_eq in H1. subst j. f_equal.
  apply (list_eqb_spec op_eqb); [|exact H2]. intros [a1 a2] [b1 b2]. unfold op_eqb. cbn [fst snd].
  rewrite andb_true_iff, !N.eqb_eq. split; [intros [-> ->]; reflexivity|intros E; inversion E; auto].
Qed.

Lemma tools_wf_progs found progs : tools_wf found progs = true -> progs = expected_progs.
Proof.
  unfold tools_wf. intros H. apply andb_true_iff in H. destruct H as [_ H].
  revert H. generalize expected_progs. induction progs as [|a progs IH]; intros [|b l]; cbn [list_eqb]; try discriminate.
  - reflexivity.
  - intros H. apply andb_true_iff in H. destruct H as [H1 H2]. rewrite (prog_eqb_eq _ _ H1), (IH _ H2). reflexivity.
Qed.

Lemma expected_progs_ok t : forallb (fun od => dok (is_write t) (snd od)) (prog_of expected_progs (tool_id t)) = true.
Proof. destruct t; reflexivity. Qed.

Theorem tools_confined (t : tool) (ex : str -> bool) (root raw ext : str) (names : list str) (cwd : list str)
    (found : bool) (progs : list (N * list (N * N))) (v : N) (accs : list (N * str)) :
  tools_wf found progs = true ->
  abs root -> nopar root ->
  (forall s, abs s -> nopar s -> real_segs s = real_segs root -> ex s = true) ->
  forallb proper_name names = true ->
  (forall p, tool_path t root raw = Ok p -> real_segs p <> real_segs root ->
     inside (real_segs root) (with_extension p ext)) ->
  tool_run progs t ex root raw ext names = (v, accs) ->
  (v <> 0 -> accs = []) /\ (forall o q, In (o, q) accs -> under cwd root q).
Proof.
  intros Hwf Ha Hn Hex Hnames Htmp Hrun. rewrite (tools_wf_progs _ _ Hwf) in Hrun. unfold tool_run in Hrun.
  destruct (tool_path t root raw) as [p|e] eqn:Ep.
  2:{ inversion Hrun; subst. split; [reflexivity|]. intros o q []. }
  destruct (tool_path_inside t root raw p Ha Hn Ep) as (Hpa & Hpn & l & El & Hw).
  destruct (tool_refuses_dir t raw) eqn:Er.
  { inversion Hrun; subst. split; [reflexivity|]. intros o q []. }
  inversion Hrun; subst v accs; clear Hrun. split; [congruence|].
  intros o q Hin. apply in_flat_map in Hin. destruct Hin as ([o' d] & Hod & Hin). cbn [fst snd] in Hin.
  apply in_map_iff in Hin. destruct Hin as (q' & E & Hq'). inversion E; subst o q'; clear E.
  pose proof (expected_progs_ok t) as Hok. rewrite forallb_forall in Hok. specialize (Hok _ Hod). cbn [snd] in Hok.
  assert (HF : Forall (inside (real_segs root)) (deriv_paths ex root p ext names d)).
  { eapply deriv_inside with (w := is_write t) (l := l); try eassumption.
    - intros Hwt. apply Hw; [exact Hwt|reflexivity].
    - intros Hl. apply Htmp; [reflexivity|]. rewrite El. intros E. apply Hl.
      rewrite <- (app_nil_r (real_segs root)) in E at 2. apply app_inv_head in E. exact E. }
  rewrite Forall_forall in HF. apply inside_under; [exact Ha|exact Hn|]. apply HF. exact Hq'.
Qed.

(* ---------- Path::with_extension for a path that ends with its file name ---------- *)
Definition tmp_safe (name : str) : bool :=
  match split_first 46 [] (rev name) with
  | Some (_, before_rev) => negb (lN_eqb before_rev [46])
  | None => true
  end.

Lemma split_first_spec c s : forall acc a b, split_first c acc s = Some (a, b) ->
  exists pre, s = pre ++ c :: b /\ a = rev pre ++ acc.
Proof.
  induction s as [|x s IH]; intros acc a b H; cbn [split_first] in H; [discriminate|].
  destruct (x =? c) eqn:E.
  - apply N.eqb_eq in E. subst x. inversion H; subst. exists []. split; reflexivity.
  - destruct (IH _ _ _ H) as (pre & E1 & E2). exists (x :: pre). split; [rewrite E1; reflexivity|].
    rewrite E2. cbn [rev]. rewrite <- app_assoc. reflexivity.
Qed.

Lemma long_not_trivial (n : str) : (3 <= length n)%nat -> seg_trivial n = false /\ seg_dotdot n = false.
Proof.
  intros H. destruct n as [|a [|b [|c r]]]; cbn [length] in H; try lia. split.
  - cbn [seg_trivial]. unfold seg_dot. destruct (lN_eqb (a :: b :: c :: r) [46]) eqn:E; [|reflexivity].
    apply lN_eqb_spec in E. discriminate.
  - unfold seg_dotdot. destruct (lN_eqb (a :: b :: c :: r) [46; 46]) eqn:E; [|reflexivity].
    apply lN_eqb_spec in E. discriminate.
Qed.

Lemma set_ext_last P1 s ext : ~ In 47 s -> seg_trivial s = false -> seg_dotdot s = false ->
  set_ext (P1 ++ 47 :: s) ext = join_segs (segs P1 ++ [stem s ++ 46 :: ext]).
Proof.
  intros H47 Ht Hd. unfold set_ext. rewrite segs_app_sep, (segs_single s H47), rev_app_distr. cbn [rev app drop_trivial].
  rewrite Ht, Hd, rev_involutive. reflexivity.
Qed.

Lemma tmp_result P1 name ext : ~ In 47 name -> seg_trivial name = false -> seg_dotdot name = false ->
  tmp_safe name = true -> ext <> [] -> ~ In 47 ext ->
  exists n', with_extension (P1 ++ 47 :: name) ext = join_segs (segs P1 ++ [n'])
             /\ ~ In 47 n' /\ (3 <= length n')%nat.
Proof.
  intros H47 Ht Hd Hsafe Hext He47.
  assert (Hname : name <> []) by (intros ->; discriminate).
  assert (Hfn : file_name (P1 ++ 47 :: name) = Some name).
  { unfold file_name. rewrite segs_app_sep, (segs_single name H47), rev_app_distr. cbn [rev app drop_trivial].
    rewrite Ht, Hd. reflexivity. }
  assert (Hplain : stem name = name -> cut_ext (P1 ++ 47 :: name) = P1 ++ 47 :: name ->
            exists n', with_extension (P1 ++ 47 :: name) ext = join_segs (segs P1 ++ [n']) /\ ~ In 47 n' /\ (3 <= length n')%nat).
  { intros Es Ec. exists (name ++ 46 :: ext). unfold with_extension. rewrite Ec, set_ext_last, Es by assumption.
    split; [reflexivity|]. split.
    - intros Hin. apply in_app_or in Hin. destruct Hin as [Hin|[Hin|Hin]]; [exact (H47 Hin)|discriminate|exact (He47 Hin)].
    - rewrite app_length. cbn [length]. destruct name; [congruence|]. destruct ext; [congruence|]. cbn [length]. lia. }
  unfold tmp_safe in Hsafe.
  destruct (split_first 46 [] (rev name)) as [[after before_rev]|] eqn:Esf.
  2:{ apply Hplain.
      - unfold stem. rewrite Hd, Esf. reflexivity.
      - unfold cut_ext, extension. rewrite Hfn, Esf. reflexivity. }
  destruct before_rev as [|b br].
  { apply Hplain.
    - unfold stem. rewrite Hd, Esf. reflexivity.
    - unfold cut_ext, extension. rewrite Hfn, Esf. reflexivity. }
  destruct (split_first_spec _ _ _ _ _ Esf) as (pre & E1 & E2). rewrite app_nil_r in E2. subst after.
  assert (En : name = rev (b :: br) ++ 46 :: rev pre).
  { rewrite <- (rev_involutive name) at 1. rewrite E1, rev_app_distr.
    change (rev (46 :: b :: br)) with (rev (b :: br) ++ [46]). rewrite <- app_assoc. reflexivity. }
  set (s2 := rev (b :: br) ++ [46]).
  assert (Ecut : cut_ext (P1 ++ 47 :: name) = P1 ++ 47 :: s2).
  { unfold cut_ext, extension. rewrite Hfn, Esf.
    assert (Ep : P1 ++ 47 :: name = (P1 ++ 47 :: s2) ++ rev pre).
    { rewrite En. unfold s2. rewrite <- !app_assoc. cbn [app]. rewrite <- !app_assoc. reflexivity. }
    rewrite Ep. rewrite app_length, Nat.add_sub.
    rewrite firstn_app, Nat.sub_diag, firstn_all. cbn [firstn]. apply app_nil_r. }
  assert (Hs47 : ~ In 47 s2).
  { intros Hin. apply H47. rewrite En. unfold s2 in Hin. apply in_app_or in Hin. apply in_or_app.
    destruct Hin as [Hin|[Hin|[]]]; [left; exact Hin|discriminate]. }
  assert (Hlen2 : (2 <= length s2)%nat).
  { unfold s2. rewrite app_length, rev_length. cbn [length]. lia. }
  assert (Hst : seg_trivial s2 = false).
  { destruct s2 as [|x [|y r]] eqn:E; cbn [length] in Hlen2; try lia. cbn [seg_trivial]. unfold seg_dot.
    destruct (lN_eqb (x :: y :: r) [46]) eqn:E'; [|reflexivity]. apply lN_eqb_spec in E'. discriminate. }
  assert (Hsd : seg_dotdot s2 = false).
  { unfold seg_dotdot. destruct (lN_eqb s2 [46; 46]) eqn:E; [|reflexivity]. apply lN_eqb_spec in E.
    exfalso. apply negb_true_iff in Hsafe.
    assert (Hb : b :: br = [46]).
    { unfold s2 in E. assert (rev (b :: br) = [46]) as E3.
      { change [46; 46] with ([46] ++ [46]) in E. apply app_inj_tail in E. destruct E as [E _]. exact E. }
      rewrite <- (rev_involutive (b :: br)), E3. reflexivity. }
    rewrite Hb in Hsafe. cbn in Hsafe. discriminate. }
  assert (Hstem : stem s2 = rev (b :: br)).
  { unfold stem. rewrite Hsd. unfold s2. rewrite rev_app_distr, rev_involutive. cbn [rev app split_first].
    rewrite N.eqb_refl. reflexivity. }
  exists (rev (b :: br) ++ 46 :: ext). unfold with_extension. rewrite Ecut, set_ext_last, Hstem by assumption.
  split; [reflexivity|]. split.
  - intros Hin. apply in_app_or in Hin. destruct Hin as [Hin|[Hin|Hin]]; [|discriminate|exact (He47 Hin)].
    apply Hs47. unfold s2. apply in_or_app. left; exact Hin.
  - rewrite app_length, rev_length. cbn [length]. destruct ext; [congruence|]. cbn [length]. lia.
Qed.

Lemma tmp_clean P1 name ext R l0 :
  abs (P1 ++ [47]) -> nopar (P1 ++ [47]) -> real_segs (P1 ++ [47]) = R ++ l0 ->
  proper_name name = true -> tmp_safe name = true -> ext <> [] -> ~ In 47 ext ->
  inside R (with_extension (P1 ++ 47 :: name) ext).
Proof.
  intros Ha Hn El Hp Hsafe Hext He47. destruct (proper_noslash name Hp) as (H47 & Ht & Hd).
  destruct (tmp_result P1 name ext H47 Ht Hd Hsafe Hext He47) as (n' & E & Hn47 & Hlen).
  destruct (long_not_trivial n' Hlen) as [Hnt Hnd].
  assert (HF : Forall (fun s => ~ In 47 s) (segs P1 ++ [n'])).
  { apply Forall_app. split; [apply segs_noslash|constructor; [exact Hn47|constructor]]. }
  assert (Hsegs : segs (with_extension (P1 ++ 47 :: name) ext) = segs P1 ++ [n']).
  { rewrite E. apply segs_join_segs; [destruct (segs P1); discriminate|exact HF]. }
  assert (Hreal0 : real_segs (P1 ++ [47]) = filter nt (segs P1)).
  { unfold real_segs. rewrite segs_snoc_sep, filter_app. cbn [filter seg_trivial negb]. rewrite app_nil_r. reflexivity. }
  assert (Hreal : real_segs (with_extension (P1 ++ 47 :: name) ext) = R ++ l0 ++ [n']).
  { unfold real_segs. rewrite Hsegs, filter_app. cbn [filter]. rewrite Hnt. cbn [negb].
    change (filter (fun s => negb (seg_trivial s)) (segs P1)) with (filter nt (segs P1)).
    rewrite <- Hreal0, El, <- app_assoc. reflexivity. }
  split; [|split; [|exists (l0 ++ [n']); exact Hreal]].
  - rewrite E. destruct P1 as [|x r].
    + reflexivity.
    + unfold is_absolute in Ha. cbn [app] in Ha. apply starts_slash_inv in Ha. subst x.
      assert (Es : segs (47 :: r) = [] :: segs r).
      { unfold segs, split_on. cbn [split_aux]. rewrite N.eqb_refl. reflexivity. }
      rewrite Es. destruct (segs r ++ [n']) as [|y t] eqn:Ey; [destruct (segs r); discriminate|].
      change (([] :: segs r) ++ [n']) with ([] :: (segs r ++ [n'])). rewrite Ey. reflexivity.
  - apply nopar_of_real. rewrite Hreal, app_assoc, existsb_app. cbn [existsb]. rewrite Hnd.
    rewrite <- El, <- has_parent_real, Hn. reflexivity.
Qed.

(* the write tool's temporary file for a string `d ++ name` (d empty or a directory text ending in '/') *)
Lemma snoc_sep_props root : abs root -> nopar root ->
  abs (root ++ [47]) /\ nopar (root ++ [47]) /\ real_segs (root ++ [47]) = real_segs root ++ [].
Proof.
  intros Ha Hn. split; [|split].
  - unfold is_absolute. rewrite starts_slash_app by (apply is_absolute_ne; exact Ha). exact Ha.
  - unfold has_parent in *. rewrite segs_snoc_sep, existsb_app. apply orb_false_iff. split; [exact Hn|reflexivity].
  - unfold real_segs. rewrite segs_snoc_sep, filter_app. cbn [filter seg_trivial negb]. reflexivity.
Qed.

Lemma write_tmp_inside root d name ext :
  abs root -> nopar root -> no_sep root = false ->
  is_absolute d = false -> has_parent d = false -> (d = [] \/ exists dir, d = dir ++ [47]) ->
  proper_name name = true -> tmp_safe name = true -> ext <> [] -> ~ In 47 ext ->
  inside (real_segs root) (with_extension (join root (d ++ name)) ext).
Proof.
  intros Ha Hn Hs Hd Hp Hshape Hname Hsafe Hext He47.
  destruct (proper_noslash name Hname) as (H47 & _ & _).
  assert (Hrel : is_absolute (d ++ name) = false).
  { destruct d as [|x r]; [apply noslash_not_abs; exact H47|]. unfold is_absolute in *.
    rewrite starts_slash_app by discriminate. exact Hd. }
  unfold join. rewrite Hrel, Hs. destruct Hshape as [->|[dir ->]].
  - cbn [app]. destruct (snoc_sep_props root Ha Hn) as (A & B & C).
    eapply tmp_clean; eassumption.
  - assert (E : root ++ 47 :: (dir ++ [47]) ++ name = (root ++ 47 :: dir) ++ 47 :: name).
    { repeat rewrite <- app_assoc. cbn [app]. repeat rewrite <- app_assoc. reflexivity. }
    rewrite E.
    destruct (join_props root (dir ++ [47]) Ha Hn Hd Hp) as (A & B & C).
    assert (Ej : join root (dir ++ [47]) = (root ++ 47 :: dir) ++ [47]).
    { unfold join. rewrite Hd, Hs. repeat rewrite <- app_assoc. reflexivity. }
    rewrite Ej in A, B, C. eapply tmp_clean; eassumption.
Qed.
