(* C05 — proofs about Model/Crash.v: a crash at ANY instruction boundary of ANY history, followed by restart
   and ANY further operations, leaves a truth log that replays, is numbered 0,1,2,.. per stream, and holds
   every acknowledged frame exactly once.  Works for the repaired code (`fixed`); the two code versions
   before the repairs (S7 writer, S3 load_next_seq_for) are refuted by computed witnesses. *)
From RipV Require Import Base.Prelude Model.Crash.

(* ================================================================ specification vocabulary *)
(* the file content of a list of frames: one whole line each *)
Definition enc (fs : list frame) : list chunk := flat_map (fun f => [Body f; NL]) fs.
(* all frame bodies of a file, in order (total) *)
Definition frames_of (ch : list chunk) : list frame :=
  flat_map (fun c => match c with Body f => [f] | NL => [] end) ch.
(* number of frames of a stream / with a given identity *)
Definition cnt (sid : N) (fs : list frame) : N := nlen (stream sid fs).
Definition cfid (fid : N) (fs : list frame) : N := nlen (filter (fun f => f_fid f =? fid) fs).
(* every frame carries the number of earlier frames of its stream: each stream reads 0,1,2,.. in log order *)
Definition Numbered (fs : list frame) : Prop :=
  forall pre f post, fs = pre ++ f :: post -> f_seq f = cnt (f_sid f) pre.

(* What the model assumes about its environment: identifiers are fresh UUIDs (a thread id handed to
   ensure_default / branch / handoff for creation is not in the log; a session whose counter is not in memory
   is a new session). *)
Definition env_okb (s : st) (o : op) : bool :=
  match o with
  | OEnsure c _ | OBranch _ c _ _ | OHandoff _ c _ _ _ => cnt (2 * c) (frames_of (truth s)) =? 0
  | OSess x _ =>
    match get (2 * x + 1) (nexts s) with
    | Some _ => true
    | None => cnt (2 * x + 1) (frames_of (truth s)) =? 0
    end
  | _ => true
  end.
Fixpoint env_runb (v : ver) (s : st) (i : N) (ops : list op) : bool :=
  match ops with
  | [] => true
  | o :: r => env_okb s o && env_runb v (run_instrs s (compile v s i o)) (i + 1) r
  end.

(* ================================================================ association lists *)
Lemma get_put_eq {V} k (v : V) m : get k (put k v m) = Some v.
Proof.
  induction m as [|[k' v'] m IH]; cbn [put get].
  - rewrite N.eqb_refl. reflexivity.
  - destruct (k =? k') eqn:E; cbn [get].
    + rewrite N.eqb_refl. reflexivity.
    + rewrite E. exact IH.
Qed.
Lemma get_put_neq {V} k k' (v : V) m : k <> k' -> get k (put k' v m) = get k m.
Proof.
  intros Hn. induction m as [|[k2 v2] m IH]; cbn [put get].
  - destruct (k =? k') eqn:E; [apply N.eqb_eq in E; contradiction | reflexivity].
  - destruct (k' =? k2) eqn:E2; cbn [get].
    + apply N.eqb_eq in E2. subst k2.
      destruct (k =? k') eqn:E; [apply N.eqb_eq in E; contradiction | reflexivity].
    + destruct (k =? k2); [reflexivity | exact IH].
Qed.

Definition getd (k : N) (m : list (N * N)) : N := match get k m with Some n => n | None => 0 end.

(* ================================================================ counting *)
Lemma cnt_nil sid : cnt sid [] = 0.
Proof. reflexivity. Qed.
Lemma cnt_app sid a b : cnt sid (a ++ b) = cnt sid a + cnt sid b.
Proof. unfold cnt, stream, nlen. rewrite filter_app, app_length. lia. Qed.
Lemma cnt_one sid f : cnt sid [f] = if f_sid f =? sid then 1 else 0.
Proof. unfold cnt, stream, nlen. cbn [filter]. destruct (f_sid f =? sid); reflexivity. Qed.
Lemma cnt_cons sid f a : cnt sid (f :: a) = (if f_sid f =? sid then 1 else 0) + cnt sid a.
Proof. change (f :: a) with ([f] ++ a). rewrite cnt_app, cnt_one. reflexivity. Qed.
Lemma cfid_app fid a b : cfid fid (a ++ b) = cfid fid a + cfid fid b.
Proof. unfold cfid, nlen. rewrite filter_app, app_length. lia. Qed.
Lemma cfid_one fid f : cfid fid [f] = if f_fid f =? fid then 1 else 0.
Proof. unfold cfid, nlen. cbn [filter]. destruct (f_fid f =? fid); reflexivity. Qed.
Lemma cfid_zero fid fs : (forall g, In g fs -> f_fid g <> fid) -> cfid fid fs = 0.
Proof.
  intros H. unfold cfid, nlen. induction fs as [|g fs IH]; [reflexivity|].
  cbn [filter]. destruct (f_fid g =? fid) eqn:E.
  - apply N.eqb_eq in E. exfalso. exact (H g (or_introl eq_refl) E).
  - apply IH. intros g' Hg'. apply H. right. exact Hg'.
Qed.
Lemma cfid_pos_in fid fs : cfid fid fs <> 0 -> exists g, In g fs /\ f_fid g = fid.
Proof.
  unfold cfid, nlen. induction fs as [|g fs IH]; cbn [filter]; [intros H; exfalso; apply H; reflexivity|].
  destruct (f_fid g =? fid) eqn:E.
  - intros _. exists g. split; [left; reflexivity | apply N.eqb_eq; exact E].
  - intros H. destruct (IH H) as [g' [Hi He]]. exists g'. split; [right; exact Hi | exact He].
Qed.

(* ================================================================ validate = Numbered *)
Definition after (m : list (N * N)) (a : list frame) : list (N * N) :=
  fold_left (fun m f => put (f_sid f) (getd (f_sid f) m + 1) m) a m.

Lemma validate_from_app m a b :
  validate_from m (a ++ b) = validate_from m a && validate_from (after m a) b.
Proof.
  revert m. induction a as [|f a IH]; intros m; [reflexivity|].
  cbn [app validate_from after fold_left]. fold (getd (f_sid f) m).
  destruct (f_seq f =? getd (f_sid f) m); [apply IH | reflexivity].
Qed.

Lemma after_getd a : forall m sid, getd sid (after m a) = getd sid m + cnt sid a.
Proof.
  induction a as [|f a IH]; intros m sid; cbn [after fold_left].
  - rewrite cnt_nil. lia.
  - fold (after (put (f_sid f) (getd (f_sid f) m + 1) m) a). rewrite IH, cnt_cons.
    unfold getd at 1. destruct (f_sid f =? sid) eqn:E.
    + apply N.eqb_eq in E. subst sid. rewrite get_put_eq. lia.
    + rewrite get_put_neq; [fold (getd sid m); lia|]. intros ->. rewrite N.eqb_refl in E. discriminate.
Qed.

Lemma validate_snoc a g : validate (a ++ [g]) = validate a && (f_seq g =? cnt (f_sid g) a).
Proof.
  unfold validate. rewrite validate_from_app. cbn [validate_from].
  fold (getd (f_sid g) (after [] a)). rewrite after_getd. unfold getd at 1. cbn [get].
  rewrite N.add_0_l. destruct (f_seq g =? cnt (f_sid g) a); reflexivity.
Qed.

Lemma validate_numbered fs : validate fs = true -> Numbered fs.
Proof.
  induction fs as [|g fs IH] using rev_ind; intros Hv pre f post E.
  - destruct pre; discriminate.
  - rewrite validate_snoc in Hv. apply andb_true_iff in Hv. destruct Hv as [Hv Hg].
    destruct post as [|p post] using rev_ind.
    + apply app_inj_tail in E. destruct E as [<- <-]. apply N.eqb_eq. exact Hg.
    + clear IHpost. rewrite app_comm_cons, app_assoc in E. apply app_inj_tail in E. destruct E as [E _].
      exact (IH Hv pre f post E).
Qed.

(* ================================================================ whole-line files *)
Lemma enc_app a b : enc (a ++ b) = enc a ++ enc b.
Proof. unfold enc. apply flat_map_app. Qed.
Lemma frames_of_app a b : frames_of (a ++ b) = frames_of a ++ frames_of b.
Proof. unfold frames_of. apply flat_map_app. Qed.
Lemma frames_of_enc fs : frames_of (enc fs) = fs.
Proof. induction fs as [|f fs IH]; [reflexivity|]. cbn. f_equal. exact IH. Qed.

Lemma lines_enc fs : lines (enc fs) = map (fun f => [f]) fs.
Proof.
  unfold lines. induction fs as [|f fs IH]; [reflexivity|].
  cbn [enc flat_map app lines_acc map]. f_equal. exact IH.
Qed.
Lemma parse_lines_single fs : parse_lines (map (fun f => [f]) fs) = Some fs.
Proof. induction fs as [|f fs IH]; [reflexivity|]. cbn [map parse_lines]. rewrite IH. reflexivity. Qed.
Lemma parse_enc fs : parse (enc fs) = Some fs.
Proof. unfold parse. rewrite lines_enc. apply parse_lines_single. Qed.
Lemma torn_enc fs : torn (enc fs) = false.
Proof.
  unfold torn. destruct fs as [|g fs] using rev_ind; [reflexivity|].
  rewrite enc_app. cbn [enc flat_map app]. rewrite rev_app_distr. reflexivity.
Qed.

(* EventLog::last_seq on a whole-line, validated log: the stream's last seq is its length - 1 *)
Lemma scan_last_valid fs : validate fs = true -> forall sid,
  match scan_last sid (rev (map (fun f => [f]) fs)) with
  | TlSome q => q + 1 = cnt sid fs
  | TlNone => cnt sid fs = 0
  | TlErr => False
  end.
Proof.
  induction fs as [|g fs IH] using rev_ind; intros Hv sid; [reflexivity|].
  rewrite validate_snoc in Hv. apply andb_true_iff in Hv. destruct Hv as [Hv Hg]. apply N.eqb_eq in Hg.
  rewrite map_app, rev_app_distr. cbn [map rev app scan_last]. rewrite cnt_app, cnt_one.
  destruct (f_sid g =? sid) eqn:E.
  - apply N.eqb_eq in E. subst sid. lia.
  - specialize (IH Hv sid). destruct (scan_last sid (rev (map (fun f => [f]) fs))); [exact IH | lia | lia].
Qed.

(* ================================================================ the part of the state the truth log depends on *)
Definition core (s : st) : list chunk * bufw * list (N * N) * list N := (truth s, tw s, nexts s, acks s).

Definition relevant (i : instr) : bool :=
  match i with ITruthWrite _ | ITruthFlush | ISetNext _ _ | IAck _ => true | _ => false end.

Lemma exec_core_congr s s' i : core s = core s' -> core (exec s i) = core (exec s' i).
Proof.
  unfold core. intros E. injection E as Et Ew En Ea.
  destruct i; cbn [exec upd_truth upd_sides upd_nexts upd_idx upd_arts upd_acks truth tw nexts acks];
    try (rewrite Et, Ew, En, Ea; reflexivity).
  destruct (idx_tmp s), (idx_tmp s'); cbn [upd_idx truth tw nexts acks]; rewrite Et, Ew, En, Ea; reflexivity.
Qed.
Lemma exec_core_neutral s i : relevant i = false -> core (exec s i) = core s.
Proof.
  unfold core. destruct i; cbn [relevant]; intros H; try discriminate H;
    cbn [exec upd_truth upd_sides upd_nexts upd_idx upd_arts upd_acks truth tw nexts acks]; try reflexivity.
  destruct (idx_tmp s); reflexivity.
Qed.
Lemma run_core_congr is : forall s s', core s = core s' -> core (run_instrs s is) = core (run_instrs s' is).
Proof.
  unfold run_instrs. induction is as [|i is IH]; intros s s' E; [exact E|].
  cbn [fold_left]. apply IH. apply exec_core_congr. exact E.
Qed.
Lemma run_core_filter is : forall s, core (run_instrs s is) = core (run_instrs s (filter relevant is)).
Proof.
  unfold run_instrs. induction is as [|i is IH]; intros s; [reflexivity|].
  cbn [fold_left filter]. destruct (relevant i) eqn:R.
  - cbn [fold_left]. apply IH.
  - rewrite IH. apply (run_core_congr (filter relevant is)). apply exec_core_neutral. exact R.
Qed.
Lemma run_app s a b : run_instrs s (a ++ b) = run_instrs (run_instrs s a) b.
Proof. unfold run_instrs. apply fold_left_app. Qed.

(* a property at every instruction boundary of a straight-line program *)
Definition AllPre (P : st -> Prop) (s : st) (is : list instr) : Prop :=
  forall p r, is = p ++ r -> P (run_instrs s p).
Lemma AllPre_nil (P : st -> Prop) s : P s -> AllPre P s [].
Proof. intros H p r E. symmetry in E. apply app_eq_nil in E. destruct E as [-> _]. exact H. Qed.
Lemma AllPre_cons (P : st -> Prop) s i is : P s -> AllPre P (exec s i) is -> AllPre P s (i :: is).
Proof.
  intros H0 H p r E. destruct p as [|j p]; [exact H0|].
  cbn [app] in E. injection E as <- E. exact (H p r E).
Qed.
Lemma AllPre_app (P : st -> Prop) s a b : AllPre P s a -> AllPre P (run_instrs s a) b -> AllPre P s (a ++ b).
Proof.
  revert s. induction a as [|i a IH]; intros s Ha Hb; [exact Hb|].
  cbn [app]. apply AllPre_cons.
  - exact (Ha [] (i :: a) eq_refl).
  - apply IH; [|exact Hb]. intros p r E. exact (Ha (i :: p) r (f_equal (cons i) E)).
Qed.
Lemma AllPre_mono (P Q : st -> Prop) s is : (forall x, P x -> Q x) -> AllPre P s is -> AllPre Q s is.
Proof. intros H A p r E. apply H. exact (A p r E). Qed.
Lemma AllPre_start (P : st -> Prop) s is : AllPre P s is -> P s.
Proof. intros A. exact (A [] is eq_refl). Qed.
Lemma AllPre_filter (P : st -> Prop) s is :
  (forall x y, core x = core y -> P x -> P y) ->
  AllPre P s (filter relevant is) -> AllPre P s is.
Proof.
  intros HP A p r E. apply (HP (run_instrs s (filter relevant p))); [symmetry; apply run_core_filter|].
  apply (A (filter relevant p) (filter relevant r)). rewrite E. apply filter_app.
Qed.

(* ================================================================ invariants *)
(* at an operation boundary: whole lines on disk, nothing buffered, the log validates, every in-memory
   counter equals the stream's length, frame identities below b, acknowledged frames present once *)
Definition J (b : N) (s : st) (fs : list frame) : Prop :=
  truth s = enc fs /\ tw s = bw_empty /\ validate fs = true
  /\ (forall k n, get k (nexts s) = Some n -> n = cnt k fs)
  /\ (forall g, In g fs -> f_fid g < b)
  /\ (forall fid, In fid (acks s) -> cfid fid fs = 1).
(* at EVERY instruction boundary (what a crash can leave on disk) *)
Definition D (b : N) (s : st) : Prop :=
  exists fs, truth s = enc fs /\ validate fs = true
  /\ (forall g, In g fs -> f_fid g < b)
  /\ (forall fid, In fid (acks s) -> cfid fid fs = 1).

Lemma J_core b s s' fs : core s = core s' -> J b s fs -> J b s' fs.
Proof. unfold core, J. intros E. injection E as Et Ew En Ea. rewrite Et, Ew, En, Ea. tauto. Qed.
Lemma D_core b s s' : core s = core s' -> D b s -> D b s'.
Proof. unfold core, D. intros E. injection E as Et Ew En Ea. rewrite Et, Ea. tauto. Qed.
Lemma J_mono b b' s fs : b <= b' -> J b s fs -> J b' s fs.
Proof. unfold J. intros Hb (H1 & H2 & H3 & H4 & H5 & H6). repeat split; auto. intros g Hg. specialize (H5 g Hg). lia. Qed.
Lemma D_mono b b' s : b <= b' -> D b s -> D b' s.
Proof. unfold D. intros Hb (fs & H1 & H2 & H3 & H4). exists fs. repeat split; auto. intros g Hg. specialize (H3 g Hg). lia. Qed.
Lemma J_D b s fs : J b s fs -> D b s.
Proof. unfold J, D. intros (H1 & H2 & H3 & H4 & H5 & H6). exists fs. tauto. Qed.
Lemma D_recover b s : D b s -> exists fs, J b (recover s) fs.
Proof.
  unfold D, J. intros (fs & H1 & H2 & H3 & H4). exists fs. cbn [recover truth tw nexts acks get].
  repeat split; auto. intros k n Hk. discriminate Hk.
Qed.
Lemma J_init : J 0 init [].
Proof. unfold J. cbn. repeat split; auto; intros; try discriminate; contradiction. Qed.

(* ================================================================ one frame through the (repaired) writer *)
Definition blk (f : frame) : list instr := [ITruthWrite [Body f; NL]; ITruthFlush].

Lemma bw_write_empty file cs len :
  bw_write file bw_empty cs len =
  if len <? CAP then (file, {| bw_buf := cs; bw_len := 0 + len |}) else (file ++ cs, bw_empty).
Proof.
  unfold bw_write. cbn [bw_len bw_buf bw_empty app]. rewrite N.sub_0_r.
  destruct (len <? CAP) eqn:E; [reflexivity|].
  apply N.ltb_ge in E. assert (Hc : (CAP <=? len) = true) by (apply N.leb_le; exact E). rewrite Hc.
  reflexivity.
Qed.

Lemma validate_next fs f : validate fs = true -> f_seq f = cnt (f_sid f) fs -> validate (fs ++ [f]) = true.
Proof. intros Hv Hs. rewrite validate_snoc, Hv, Hs, N.eqb_refl. reflexivity. Qed.

Lemma acks_keep fs f b (ak : list N) :
  (forall g, In g fs -> f_fid g < b) -> b <= f_fid f ->
  (forall fid, In fid ak -> cfid fid fs = 1) -> forall fid, In fid ak -> cfid fid (fs ++ [f]) = 1.
Proof.
  intros Hb Hf Ha fid Hi. rewrite cfid_app, cfid_one, (Ha fid Hi).
  destruct (f_fid f =? fid) eqn:E; [|lia].
  apply N.eqb_eq in E. exfalso.
  destruct (cfid_pos_in fid fs) as [g [Hg He]]; [rewrite (Ha fid Hi); discriminate|].
  specialize (Hb g Hg). lia.
Qed.

Lemma fids_snoc fs f b : (forall g, In g fs -> f_fid g < b) -> b <= f_fid f ->
  forall g, In g (fs ++ [f]) -> f_fid g < f_fid f + 1.
Proof.
  intros Hb Hf g Hg. apply in_app_or in Hg. destruct Hg as [Hg|[<-|[]]]; [specialize (Hb g Hg)|]; lia.
Qed.

(* blk f; ISetNext: safe at every boundary, and the boundary invariant holds again afterwards *)
Lemma L_blk b s fs f : J b s fs -> f_seq f = cnt (f_sid f) fs -> b <= f_fid f ->
  let P := blk f ++ [ISetNext (f_sid f) (f_seq f + 1)] in
  AllPre (D (f_fid f + 1)) s P /\ J (f_fid f + 1) (run_instrs s P) (fs ++ [f])
  /\ cfid (f_fid f) (fs ++ [f]) = 1.
Proof.
  intros (Ht & Hw & Hv & Hn & Hb & Ha) Hs Hf P.
  assert (Hv' : validate (fs ++ [f]) = true) by (apply validate_next; assumption).
  assert (Hb' := fids_snoc fs f b Hb Hf).
  assert (Ha' := acks_keep fs f b (acks s) Hb Hf Ha).
  assert (HD0 : D (f_fid f + 1) s).
  { exists fs. repeat split; auto. intros g Hg. specialize (Hb g Hg). lia. }
  assert (Henc : enc (fs ++ [f]) = enc fs ++ [Body f; NL]) by (rewrite enc_app; reflexivity).
  assert (Hc1 : cfid (f_fid f) (fs ++ [f]) = 1).
  { rewrite cfid_app, cfid_one, N.eqb_refl, cfid_zero; [reflexivity|].
    intros g Hg E. specialize (Hb g Hg). lia. }
  (* the state after the write *)
  set (s1 := exec s (ITruthWrite [Body f; NL])).
  assert (H1 : (truth s1 = enc fs \/ truth s1 = enc (fs ++ [f])) /\ nexts s1 = nexts s /\ acks s1 = acks s
               /\ fst (bw_flush (truth s1) (tw s1)) = enc (fs ++ [f])).
  { unfold s1. cbn [exec upd_truth truth tw nexts acks]. rewrite Hw, bw_write_empty, Ht, Henc.
    destruct (clen [Body f; NL] <? CAP); cbn [fst snd bw_flush bw_buf bw_empty]; rewrite ?app_nil_r; auto. }
  destruct H1 as (Ht1 & Hn1 & Ha1 & Hfl).
  set (s2 := exec s1 ITruthFlush).
  assert (H2 : truth s2 = enc (fs ++ [f]) /\ tw s2 = bw_empty /\ nexts s2 = nexts s /\ acks s2 = acks s).
  { unfold s2. cbn [exec upd_truth truth tw nexts acks bw_flush fst snd]. cbn [bw_flush fst] in Hfl. auto. }
  destruct H2 as (Ht2 & Hw2 & Hn2 & Ha2).
  set (s3 := exec s2 (ISetNext (f_sid f) (f_seq f + 1))).
  assert (HD1 : D (f_fid f + 1) s1).
  { destruct Ht1 as [E|E].
    - exists fs. rewrite Ha1. repeat split; auto. intros g Hg. specialize (Hb g Hg). lia.
    - exists (fs ++ [f]). rewrite Ha1. repeat split; auto. }
  assert (HD2 : D (f_fid f + 1) s2) by (exists (fs ++ [f]); rewrite Ha2; repeat split; auto).
  assert (HJ3 : J (f_fid f + 1) s3 (fs ++ [f])).
  { unfold s3. unfold J. cbn [exec upd_nexts truth tw nexts acks]. rewrite Ha2, Hn2. repeat split; auto.
    intros k n. destruct (N.eq_dec k (f_sid f)) as [->|Hk].
    - rewrite get_put_eq. intros E. injection E as <-. rewrite cnt_app, cnt_one, N.eqb_refl, Hs. reflexivity.
    - rewrite get_put_neq by exact Hk. intros E. rewrite (Hn k n E), cnt_app, cnt_one.
      destruct (f_sid f =? k) eqn:E2; [apply N.eqb_eq in E2; congruence | lia]. }
  split; [|split; [exact HJ3 | exact Hc1]].
  unfold P, blk. cbn [app]. apply AllPre_cons; [exact HD0|]. fold s1.
  apply AllPre_cons; [exact HD1|]. fold s2.
  apply AllPre_cons; [exact HD2|]. fold s3.
  apply AllPre_nil. exact (J_D _ _ _ HJ3).
Qed.

Lemma L_ack b s fs fid : J b s fs -> cfid fid fs = 1 ->
  AllPre (D b) s [IAck fid] /\ J b (run_instrs s [IAck fid]) fs.
Proof.
  intros HJ Hc.
  assert (HJ' : J b (exec s (IAck fid)) fs).
  { destruct HJ as (Ht & Hw & Hv & Hn & Hb & Ha). unfold J. cbn [exec upd_acks truth tw nexts acks].
    repeat split; auto. intros x Hx. apply in_app_or in Hx. destruct Hx as [Hx|[<-|[]]]; auto. }
  split; [|exact HJ'].
  apply AllPre_cons; [exact (J_D _ _ _ HJ)|]. apply AllPre_nil. exact (J_D _ _ _ HJ').
Qed.

(* ================================================================ safety of programs, composition *)
Definition Safe (b : N) (s : st) (is : list instr) : Prop :=
  AllPre (D b) s is /\ exists fs, J b (run_instrs s is) fs.

Lemma Safe_filter b s is : Safe b s (filter relevant is) -> Safe b s is.
Proof.
  intros [A [fs HJ]]. split.
  - apply AllPre_filter; [intros x y E; apply D_core; exact E | exact A].
  - exists fs. apply (J_core b (run_instrs s (filter relevant is))); [symmetry; apply run_core_filter | exact HJ].
Qed.
Lemma Safe_nil b b' s fs : J b s fs -> b <= b' -> Safe b' s [].
Proof.
  intros HJ Hb. apply (J_mono b b') in HJ; [|exact Hb]. split; [apply AllPre_nil; exact (J_D _ _ _ HJ)|].
  exists fs. exact HJ.
Qed.
Lemma Safe_mono b b' s is : b <= b' -> Safe b s is -> Safe b' s is.
Proof.
  intros Hb [A [fs HJ]]. split; [apply (AllPre_mono (D b)); [intros x; apply D_mono; exact Hb | exact A]|].
  exists fs. apply (J_mono b b'); assumption.
Qed.

(* ================================================================ the truth-relevant part of each compiled operation *)
Lemma filter_truth_append f : filter relevant (truth_append fixed f) = blk f.
Proof. reflexivity. Qed.
Lemma filter_side_append c f : filter relevant (side_append c f) = [].
Proof. reflexivity. Qed.
Lemma filter_save_index : filter relevant save_index = [].
Proof. reflexivity. Qed.
Lemma filter_write_blob a : filter relevant (write_blob a) = [].
Proof. reflexivity. Qed.
Lemma filter_rebuild c evs : filter relevant (rebuild c evs) = [].
Proof.
  unfold rebuild. rewrite !filter_app. cbn [filter relevant app].
  induction evs as [|f evs IH]; [reflexivity|]. cbn [flat_map app filter relevant]. exact IH.
Qed.
Lemma filter_rebuild_nonempty c evs : filter relevant (rebuild_nonempty c evs) = [].
Proof. destruct evs; [reflexivity|]. apply filter_rebuild. Qed.
Lemma filter_replay_events s c : filter relevant (fst (replay_events s c)) = [].
Proof.
  unfold replay_events. destruct (try_replay s c); [reflexivity|].
  destruct (replay_validated s); [|reflexivity]. cbn [fst]. apply filter_rebuild_nonempty.
Qed.
Lemma filter_load_next_unfixed s c : filter relevant (fst (load_next_unfixed s c)) = [].
Proof.
  unfold load_next_unfixed. destruct (side_tail_seq s c); [reflexivity|].
  destruct (snd (replay_events s c)) as [evs|]; [destruct (last_opt evs)|]; cbn [fst]; apply filter_replay_events.
Qed.
Lemma filter_resolve s c : filter relevant (fst (resolve fixed s c)) = [].
Proof.
  unfold resolve. destruct (get (2 * c) (nexts s)); [reflexivity|]. cbn [fr fixed].
  unfold load_next_fixed. destruct (truth_last s (2 * c)); [apply filter_load_next_unfixed | reflexivity|].
  destruct (match side_tail_seq s c with Some q' => q' =? q | None => false end); [reflexivity|].
  destruct (replay_validated s); [|reflexivity]. cbn [fst]. apply filter_rebuild_nonempty.
Qed.

Lemma filter_locked_append s c fid len art :
  filter relevant (locked_append fixed s c fid len art) =
  match snd (resolve fixed s c) with
  | None => []
  | Some q => (blk (mkf (2 * c) q fid len art) ++ [ISetNext (2 * c) (q + 1)]) ++ [IAck fid]
  end.
Proof.
  unfold locked_append. rewrite !filter_app, filter_resolve. cbn [filter relevant app].
  destruct (snd (resolve fixed s c)); [|reflexivity].
  rewrite !filter_app, filter_truth_append. reflexivity.
Qed.
Lemma filter_create c fid len d :
  filter relevant (create fixed c fid len d) = blk (mkf (2 * c) 0 fid len None) ++ [ISetNext (2 * c) 1].
Proof. reflexivity. Qed.
Lemma filter_child c i len0 len1 blob art : filter relevant blob = [] ->
  filter relevant (child fixed c i len0 len1 blob art) =
  (blk (mkf (2 * c) 0 (4 * i) len0 None) ++ [ISetNext (2 * c) 1])
  ++ (blk (mkf (2 * c) 1 (4 * i + 1) len1 art) ++ [ISetNext (2 * c) 2])
  ++ [IAck (4 * i)] ++ [IAck (4 * i + 1)].
Proof.
  intros Hb. unfold child. rewrite !filter_app, filter_create, Hb, filter_truth_append, filter_side_append.
  reflexivity.
Qed.

(* the seq a locked append resolves is the stream's length *)
Lemma resolve_seq b s fs c q : J b s fs -> snd (resolve fixed s c) = Some q -> q = cnt (2 * c) fs.
Proof.
  intros (Ht & Hw & Hv & Hn & _) R. unfold resolve in R.
  destruct (get (2 * c) (nexts s)) as [n|] eqn:G.
  - cbn [snd] in R. injection R as <-. exact (Hn _ _ G).
  - cbn [fr fixed] in R. unfold load_next_fixed, truth_last in R. rewrite Ht, lines_enc in R.
    pose proof (scan_last_valid fs Hv (2 * c)) as L.
    destruct (scan_last (2 * c) (rev (map (fun f => [f]) fs))) as [| |q0]; [contradiction | discriminate R|].
    destruct (match side_tail_seq s c with Some q' => q' =? q0 | None => false end).
    + cbn [snd] in R. injection R as <-. exact L.
    + destruct (replay_validated s); cbn [snd] in R; injection R as <-; exact L.
Qed.

Lemma locked_explicit b s fs c fid len art : J b s fs -> b <= fid ->
  AllPre (D (fid + 1)) s (locked_append fixed s c fid len art)
  /\ (J (fid + 1) (run_instrs s (locked_append fixed s c fid len art)) fs
      \/ J (fid + 1) (run_instrs s (locked_append fixed s c fid len art))
           (fs ++ [mkf (2 * c) (cnt (2 * c) fs) fid len art])).
Proof.
  intros HJ Hb.
  assert (Hc := run_core_filter (locked_append fixed s c fid len art) s).
  assert (HA : forall P : Prop, AllPre (D (fid + 1)) s (filter relevant (locked_append fixed s c fid len art)) ->
               AllPre (D (fid + 1)) s (locked_append fixed s c fid len art)).
  { intros _ A. apply AllPre_filter; [intros x y E; apply D_core; exact E | exact A]. }
  rewrite filter_locked_append in Hc, HA.
  destruct (snd (resolve fixed s c)) as [q|] eqn:R.
  - pose proof (resolve_seq b s fs c q HJ R) as Hq. subst q.
    set (f := mkf (2 * c) (cnt (2 * c) fs) fid len art) in *.
    destruct (L_blk b s fs f HJ eq_refl Hb) as (A1 & J1 & C1).
    change (ISetNext (2 * c) (cnt (2 * c) fs + 1)) with (ISetNext (f_sid f) (f_seq f + 1)) in *.
    change (fid + 1) with (f_fid f + 1).
    destruct (L_ack _ _ _ (f_fid f) J1 C1) as (A2 & J2).
    split; [apply (HA True); apply AllPre_app; assumption|].
    right. apply (J_core _ (run_instrs s ((blk f ++ [ISetNext (f_sid f) (f_seq f + 1)]) ++ [IAck fid])));
      [symmetry; exact Hc|]. rewrite run_app. exact J2.
  - assert (HJ' : J (fid + 1) s fs) by (apply (J_mono b); [lia | exact HJ]).
    split; [apply (HA True); apply AllPre_nil; exact (J_D _ _ _ HJ')|].
    left. apply (J_core _ s); [symmetry; exact Hc | exact HJ'].
Qed.
Lemma Safe_locked b s fs c fid len art : J b s fs -> b <= fid ->
  Safe (fid + 1) s (locked_append fixed s c fid len art).
Proof.
  intros HJ Hb. destruct (locked_explicit b s fs c fid len art HJ Hb) as [A [HJ'|HJ']]; split; eauto.
Qed.

Lemma env_fresh s fs sid : truth s = enc fs -> (cnt sid (frames_of (truth s)) =? 0) = true -> cnt sid fs = 0.
Proof. intros Ht H. rewrite Ht, frames_of_enc in H. apply N.eqb_eq. exact H. Qed.

Lemma Safe_create_ack i s fs c len : J (4 * i) s fs -> cnt (2 * c) fs = 0 ->
  Safe (4 * i + 1) s ((blk (mkf (2 * c) 0 (4 * i) len None) ++ [ISetNext (2 * c) 1]) ++ [IAck (4 * i)]).
Proof.
  intros HJ H0. set (f := mkf (2 * c) 0 (4 * i) len None).
  assert (Hq : f_seq f = cnt (f_sid f) fs) by (cbn [f mkf f_seq f_sid]; symmetry; exact H0).
  destruct (L_blk (4 * i) s fs f HJ Hq (N.le_refl _)) as (A1 & J1 & C1).
  change (ISetNext (2 * c) 1) with (ISetNext (f_sid f) (f_seq f + 1)).
  change (4 * i + 1) with (f_fid f + 1).
  destruct (L_ack _ _ _ (f_fid f) J1 C1) as (A2 & J2).
  split; [apply AllPre_app; assumption|].
  exists (fs ++ [f]). rewrite run_app. exact J2.
Qed.

Lemma Safe_child i s fs c len0 len1 art : J (4 * i) s fs -> cnt (2 * c) fs = 0 ->
  Safe (4 * i + 2) s
    ((blk (mkf (2 * c) 0 (4 * i) len0 None) ++ [ISetNext (2 * c) 1])
     ++ (blk (mkf (2 * c) 1 (4 * i + 1) len1 art) ++ [ISetNext (2 * c) 2])
     ++ [IAck (4 * i)] ++ [IAck (4 * i + 1)]).
Proof.
  intros HJ H0.
  set (f0 := mkf (2 * c) 0 (4 * i) len0 None). set (f1 := mkf (2 * c) 1 (4 * i + 1) len1 art).
  assert (Hq0 : f_seq f0 = cnt (f_sid f0) fs) by (cbn [f0 mkf f_seq f_sid]; symmetry; exact H0).
  destruct (L_blk (4 * i) s fs f0 HJ Hq0 (N.le_refl _)) as (A1 & J1 & C1).
  change (ISetNext (2 * c) 1) with (ISetNext (f_sid f0) (f_seq f0 + 1)).
  set (P0 := blk f0 ++ [ISetNext (f_sid f0) (f_seq f0 + 1)]) in *.
  change (f_fid f0 + 1) with (4 * i + 1) in *.
  assert (Hq1 : f_seq f1 = cnt (f_sid f1) (fs ++ [f0])).
  { cbn [f1 mkf f_seq f_sid]. rewrite cnt_app, cnt_one, H0. cbn [f0 mkf f_sid]. rewrite N.eqb_refl. reflexivity. }
  destruct (L_blk (4 * i + 1) _ _ f1 J1 Hq1 (N.le_refl _)) as (A2 & J2 & C2).
  change (ISetNext (2 * c) 2) with (ISetNext (f_sid f1) (f_seq f1 + 1)).
  set (P1 := blk f1 ++ [ISetNext (f_sid f1) (f_seq f1 + 1)]) in *.
  change (f_fid f1 + 1) with (4 * i + 1 + 1) in *.
  assert (C1' : cfid (4 * i) ((fs ++ [f0]) ++ [f1]) = 1).
  { rewrite cfid_app, cfid_one. change (f_fid f0) with (4 * i) in C1. rewrite C1. cbn [f1 mkf f_fid].
    destruct (4 * i + 1 =? 4 * i) eqn:E; [apply N.eqb_eq in E; lia | reflexivity]. }
  destruct (L_ack _ _ _ (4 * i) J2 C1') as (A3 & J3).
  change (f_fid f1) with (4 * i + 1) in C2.
  destruct (L_ack _ _ _ (4 * i + 1) J3 C2) as (A4 & J4).
  assert (Hle : 4 * i + 1 <= 4 * i + 1 + 1) by lia.
  replace (4 * i + 2) with (4 * i + 1 + 1) by lia.
  split.
  - apply AllPre_app; [apply (AllPre_mono (D (4 * i + 1))); [intros x; apply D_mono; exact Hle | exact A1]|].
    apply AllPre_app; [exact A2|]. apply AllPre_app; [exact A3 | exact A4].
  - exists ((fs ++ [f0]) ++ [f1]). rewrite !run_app. exact J4.
Qed.

(* ================================================================ every operation *)
Lemma Safe_sess i s fs x len : J (4 * i) s fs -> env_okb s (OSess x len) = true ->
  Safe (4 * i + 1) s (compile fixed s i (OSess x len)).
Proof.
  intros HJ He. apply Safe_filter. cbn [compile]. rewrite filter_app.
  change (filter relevant (sess_append fixed (mkf (2 * x + 1) match get (2 * x + 1) (nexts s) with Some n => n | None => 0 end (4 * i) len None)))
    with (blk (mkf (2 * x + 1) match get (2 * x + 1) (nexts s) with Some n => n | None => 0 end (4 * i) len None)).
  cbn [filter relevant].
  set (n := match get (2 * x + 1) (nexts s) with Some n => n | None => 0 end).
  set (f := mkf (2 * x + 1) n (4 * i) len None).
  assert (Hq : f_seq f = cnt (f_sid f) fs).
  { cbn [f mkf f_seq f_sid]. unfold n. cbn [env_okb] in He. destruct HJ as (Ht & _ & _ & Hn & _).
    destruct (get (2 * x + 1) (nexts s)) as [m|] eqn:G; [exact (Hn _ _ G)|].
    symmetry. exact (env_fresh s fs _ Ht He). }
  destruct (L_blk (4 * i) s fs f HJ Hq (N.le_refl _)) as (A1 & J1 & C1).
  change (blk f ++ [ISetNext (2 * x + 1) (n + 1); IAck (4 * i)])
    with ((blk f ++ [ISetNext (f_sid f) (f_seq f + 1)]) ++ [IAck (f_fid f)]).
  change (4 * i + 1) with (f_fid f + 1).
  destruct (L_ack _ _ _ (f_fid f) J1 C1) as (A2 & J2).
  split; [apply AllPre_app; assumption|].
  exists (fs ++ [f]). rewrite run_app. exact J2.
Qed.

Lemma Safe_core b s s' is : core s = core s' -> Safe b s is -> Safe b s' is.
Proof.
  intros Hc [A [fs HJ]]. split.
  - intros p r E. apply (D_core _ (run_instrs s p)); [apply run_core_congr; exact Hc | exact (A p r E)].
  - exists fs. apply (J_core _ (run_instrs s is)); [apply run_core_congr; exact Hc | exact HJ].
Qed.
Lemma core_neutral s a : filter relevant a = [] -> core (run_instrs s a) = core s.
Proof. intros H. rewrite run_core_filter, H. reflexivity. Qed.
Lemma Safe_neutral_app b s a rest : filter relevant a = [] -> D b s ->
  Safe b (run_instrs s a) rest -> Safe b s (a ++ rest).
Proof.
  intros Hf HD [A [fs HJ]]. split.
  - apply AllPre_app; [|exact A].
    apply AllPre_filter; [intros x y E; apply D_core; exact E|]. rewrite Hf. apply AllPre_nil. exact HD.
  - exists fs. rewrite run_app. exact HJ.
Qed.

Lemma op_safe i s fs o : J (4 * i) s fs -> env_okb s o = true ->
  Safe (4 * (i + 1)) s (compile fixed s i o).
Proof.
  intros HJ He. assert (Ht : truth s = enc fs) by (destruct HJ as (Ht & _); exact Ht).
  assert (Hnil : forall s' b, J (4 * i) s' fs -> 4 * i <= b -> Safe b s' [])
    by (intros s' b HJ' Hb; exact (Safe_nil _ _ _ _ HJ' Hb)).
  assert (HD : D (4 * (i + 1)) s) by (apply (D_mono (4 * i)); [lia | exact (J_D _ _ _ HJ)]).
  destruct o as [c len | c len | x len | c a has_msg len | p c len0 len1 | p c a len0 len1 | c].
  - (* ensure_default *)
    apply Safe_filter. cbn [compile].
    destruct (ix_default (midx s)); [apply Hnil; [exact HJ | lia]|].
    destruct (replay_validated s) as [fs0|]; [|apply Hnil; [exact HJ | lia]].
    destruct (latest_created fs0); [apply Hnil; [exact HJ | lia]|].
    rewrite filter_app, filter_create.
    apply (Safe_mono (4 * i + 1)); [lia|].
    apply (Safe_create_ack i s fs c len HJ). exact (env_fresh s fs _ Ht He).
  - (* locked append *)
    cbn [compile]. apply (Safe_mono (4 * i + 1)); [lia|]. apply (Safe_locked (4 * i) s fs); [exact HJ | lia].
  - (* session frame *)
    apply (Safe_mono (4 * i + 1)); [lia|]. apply (Safe_sess i s fs); assumption.
  - (* checkpoint: artifact first, then a locked append compiled after the (possible) sidecar rebuild *)
    cbn [compile]. apply Safe_neutral_app; [apply filter_replay_events | exact HD|].
    set (s1 := run_instrs s (fst (replay_events s c))).
    assert (HJ1 : J (4 * i) s1 fs).
    { apply (J_core _ s); [symmetry; apply core_neutral, filter_replay_events | exact HJ]. }
    destruct (snd (replay_events s c)) as [[|e evs]|]; [apply Hnil; [exact HJ1 | lia] | | apply Hnil; [exact HJ1 | lia]].
    destruct has_msg; [|apply Hnil; [exact HJ1 | lia]].
    apply Safe_neutral_app; [apply filter_write_blob | apply (D_mono (4 * i)); [lia | exact (J_D _ _ _ HJ1)]|].
    apply (Safe_core _ s1); [symmetry; apply core_neutral, filter_write_blob|].
    apply (Safe_mono (4 * i + 1)); [lia|]. apply (Safe_locked (4 * i) s1 fs); [exact HJ1 | lia].
  - (* branch *)
    cbn [compile]. apply Safe_neutral_app; [apply filter_replay_events | exact HD|].
    set (s1 := run_instrs s (fst (replay_events s p))).
    assert (HJ1 : J (4 * i) s1 fs).
    { apply (J_core _ s); [symmetry; apply core_neutral, filter_replay_events | exact HJ]. }
    destruct (snd (replay_events s p)) as [[|e evs]|]; [apply Hnil; [exact HJ1 | lia] | | apply Hnil; [exact HJ1 | lia]].
    apply Safe_filter. rewrite filter_child by reflexivity.
    apply (Safe_mono (4 * i + 2)); [lia|].
    apply (Safe_child i s1 fs c len0 len1 None HJ1). exact (env_fresh s fs _ Ht He).
  - (* handoff *)
    cbn [compile]. apply Safe_neutral_app; [apply filter_replay_events | exact HD|].
    set (s1 := run_instrs s (fst (replay_events s p))).
    assert (HJ1 : J (4 * i) s1 fs).
    { apply (J_core _ s); [symmetry; apply core_neutral, filter_replay_events | exact HJ]. }
    destruct (snd (replay_events s p)) as [[|e evs]|]; [apply Hnil; [exact HJ1 | lia] | | apply Hnil; [exact HJ1 | lia]].
    apply Safe_neutral_app; [apply filter_write_blob | apply (D_mono (4 * i)); [lia | exact (J_D _ _ _ HJ1)]|].
    assert (HJ2 : J (4 * i) (run_instrs s1 (write_blob a)) fs).
    { apply (J_core _ s1); [symmetry; apply core_neutral, filter_write_blob | exact HJ1]. }
    apply Safe_filter. rewrite filter_child by reflexivity.
    apply (Safe_mono (4 * i + 2)); [lia|].
    apply (Safe_child i _ fs c len0 len1 (Some a) HJ2). exact (env_fresh s fs _ Ht He).
  - (* cache loss + read *)
    apply Safe_filter. cbn [compile filter relevant]. rewrite filter_replay_events. apply Hnil; [exact HJ | lia].
Qed.

(* ================================================================ histories, crash, restart, further operations *)
Lemma nlen_cons {A} (x : A) l : nlen (x :: l) = nlen l + 1.
Proof. unfold nlen. cbn [length]. lia. Qed.

Lemma run_ops_J ops : forall s i fs, J (4 * i) s fs -> env_runb fixed s i ops = true ->
  exists fs', J (4 * (i + nlen ops)) (run_ops fixed s i ops) fs'.
Proof.
  induction ops as [|o ops IH]; intros s i fs HJ He.
  - exists fs. cbn [run_ops]. apply (J_mono (4 * i)); [unfold nlen; cbn [length]; lia | exact HJ].
  - cbn [env_runb] in He. apply andb_true_iff in He. destruct He as [He1 He2].
    destruct (op_safe i s fs o HJ He1) as [_ [fs1 HJ1]].
    cbn [run_ops]. destruct (IH _ (i + 1) fs1 HJ1 He2) as [fs' HJ'].
    exists fs'. rewrite nlen_cons. replace (i + (nlen ops + 1)) with (i + 1 + nlen ops) by lia. exact HJ'.
Qed.

Lemma run_k_D ops : forall k s i fs, J (4 * i) s fs -> env_runb fixed s i ops = true ->
  D (4 * (i + nlen ops)) (run_k fixed k s i ops).
Proof.
  induction ops as [|o ops IH]; intros k s i fs HJ He.
  - cbn [run_k]. apply (D_mono (4 * i)); [unfold nlen; cbn [length]; lia | exact (J_D _ _ _ HJ)].
  - cbn [env_runb] in He. apply andb_true_iff in He. destruct He as [He1 He2].
    destruct (op_safe i s fs o HJ He1) as [A [fs1 HJ1]].
    cbn [run_k]. rewrite nlen_cons. destruct (Nat.leb k (length (compile fixed s i o))).
    + apply (D_mono (4 * (i + 1))); [lia|].
      apply (A (firstn k (compile fixed s i o)) (skipn k (compile fixed s i o))). symmetry. apply firstn_skipn.
    + replace (i + (nlen ops + 1)) with (i + 1 + nlen ops) by lia. exact (IH _ _ (i + 1) fs1 HJ1 He2).
Qed.

(* the boundary invariant after: any history, death after any number k of its instructions, restart, any
   further operations *)
Theorem crash_recover_J hist k base more :
  env_runb fixed init 0 hist = true -> nlen hist <= base ->
  env_runb fixed (crash fixed k hist) base more = true ->
  exists fs, J (4 * (base + nlen more)) (run_ops fixed (crash fixed k hist) base more) fs.
Proof.
  intros Hh Hb Hm.
  assert (HD : D (4 * (0 + nlen hist)) (run_k fixed k init 0 hist)).
  { apply (run_k_D hist k init 0 []); [exact J_init | exact Hh]. }
  apply (D_mono _ (4 * base)) in HD; [|lia].
  destruct (D_recover _ _ HD) as [fs0 HJ0].
  exact (run_ops_J more _ base fs0 HJ0 Hm).
Qed.

Lemma J_replay b s fs : J b s fs -> replay_validated s = Some fs.
Proof. intros (Ht & _ & Hv & _). unfold replay_validated. rewrite Ht, parse_enc, Hv. reflexivity. Qed.

(* acknowledgements are never withdrawn *)
Lemma acks_exec s i : incl (acks s) (acks (exec s i)).
Proof.
  destruct i; cbn [exec upd_truth upd_sides upd_nexts upd_idx upd_arts upd_acks acks]; try apply incl_refl.
  - destruct (idx_tmp s); apply incl_refl.
  - apply incl_appl, incl_refl.
Qed.
Lemma acks_run is : forall s, incl (acks s) (acks (run_instrs s is)).
Proof.
  unfold run_instrs. induction is as [|i is IH]; intros s; [apply incl_refl|].
  cbn [fold_left]. eapply incl_tran; [apply acks_exec | apply IH].
Qed.
Lemma acks_run_ops v ops : forall s i, incl (acks s) (acks (run_ops v s i ops)).
Proof.
  induction ops as [|o ops IH]; intros s i; [apply incl_refl|].
  cbn [run_ops]. eapply incl_tran; [apply acks_run | apply IH].
Qed.

Theorem recover_valid hist k base more :
  env_runb fixed init 0 hist = true -> nlen hist <= base ->
  env_runb fixed (crash fixed k hist) base more = true ->
  exists fs, replay_validated (run_ops fixed (crash fixed k hist) base more) = Some fs
             /\ Numbered fs
             /\ truth (run_ops fixed (crash fixed k hist) base more) = enc fs.
Proof.
  intros Hh Hb Hm. destruct (crash_recover_J hist k base more Hh Hb Hm) as [fs HJ].
  exists fs. split; [exact (J_replay _ _ _ HJ)|]. destruct HJ as (Ht & _ & Hv & _).
  split; [exact (validate_numbered fs Hv) | exact Ht].
Qed.

Theorem acked_exactly_once hist k base more :
  env_runb fixed init 0 hist = true -> nlen hist <= base ->
  env_runb fixed (crash fixed k hist) base more = true ->
  exists fs, replay_validated (run_ops fixed (crash fixed k hist) base more) = Some fs
             /\ forall fid, In fid (acks (crash fixed k hist))
                             \/ In fid (acks (run_ops fixed (crash fixed k hist) base more)) ->
                             cfid fid fs = 1.
Proof.
  intros Hh Hb Hm. destruct (crash_recover_J hist k base more Hh Hb Hm) as [fs HJ].
  exists fs. split; [exact (J_replay _ _ _ HJ)|]. destruct HJ as (_ & _ & _ & _ & _ & Ha).
  intros fid [Hi|Hi]; [apply Ha; exact (acks_run_ops fixed more _ base fid Hi) | apply Ha; exact Hi].
Qed.

(* what a crash leaves on disk: whole lines only, forming a valid log (the single-write append) *)
Theorem crash_whole_lines hist k :
  env_runb fixed init 0 hist = true ->
  exists fs, truth (crash fixed k hist) = enc fs /\ validate fs = true
             /\ torn (truth (crash fixed k hist)) = false
             /\ replay_validated (crash fixed k hist) = Some fs.
Proof.
  intros Hh.
  assert (HD : D (4 * (0 + nlen hist)) (run_k fixed k init 0 hist)).
  { apply (run_k_D hist k init 0 []); [exact J_init | exact Hh]. }
  destruct (D_recover _ _ HD) as [fs HJ]. exists fs.
  pose proof (J_replay _ _ _ HJ) as R. destruct HJ as (Ht & _ & Hv & _).
  repeat split; auto. unfold crash in *. rewrite Ht. apply torn_enc.
Qed.

(* numbering continues: the first locked append to thread c after the restart is refused (the log has no
   such thread) or is written with seq = the number of frames the thread has in the recovered log *)
Theorem numbering_continues hist k base c len fs0 :
  env_runb fixed init 0 hist = true -> nlen hist <= base ->
  replay_validated (crash fixed k hist) = Some fs0 ->
  replay_validated (run_ops fixed (crash fixed k hist) base [OAppend c len]) = Some fs0
  \/ replay_validated (run_ops fixed (crash fixed k hist) base [OAppend c len])
     = Some (fs0 ++ [mkf (2 * c) (cnt (2 * c) fs0) (4 * base) len None]).
Proof.
  intros Hh Hb R0.
  assert (HD : D (4 * (0 + nlen hist)) (run_k fixed k init 0 hist)).
  { apply (run_k_D hist k init 0 []); [exact J_init | exact Hh]. }
  apply (D_mono _ (4 * base)) in HD; [|lia].
  destruct (D_recover _ _ HD) as [fs HJ]. fold (crash fixed k hist) in HJ.
  rewrite (J_replay _ _ _ HJ) in R0. injection R0 as <-.
  cbn [run_ops compile].
  destruct (locked_explicit (4 * base) _ fs c (4 * base) len None HJ (N.le_refl _)) as [_ [HJ'|HJ']];
    [left | right]; exact (J_replay _ _ _ HJ').
Qed.

(* ================================================================ the code before the repairs, and the cache finding *)
Definition v_s7 : ver := {| fw := false; fr := true; ff := true |}.    (* two-write truth append (before bd2ee56) *)
Definition v_s3 : ver := {| fw := true; fr := false; ff := true |}.    (* next seq from the sidecar tail (before 0b0d2b0) *)

Definition s7_hist : list op := [OEnsure 0 300; OAppend 0 8192].
Definition s7_more : list op := [OAppend 0 10].
Definition s3_hist : list op := [OEnsure 0 300; OAppend 0 10; OAppend 0 10].
Definition s3_more : list op := [OAppend 0 10].
Definition stale_hist : list op := [OEnsure 0 300; OAppend 0 10].

Lemma s7_witness :
  env_runb v_s7 init 0 s7_hist = true /\ env_runb v_s7 (crash v_s7 38 s7_hist) 2 s7_more = true
  /\ has_ok (compile v_s7 (crash v_s7 38 s7_hist) 2 (OAppend 0 10)) = true
  /\ replay_validated (run_ops v_s7 (crash v_s7 38 s7_hist) 2 s7_more) = None
  /\ torn (truth (crash v_s7 38 s7_hist)) = true.
Proof. vm_compute. repeat split; reflexivity. Qed.

Lemma s3_witness :
  env_runb v_s3 init 0 s3_hist = true /\ env_runb v_s3 (crash v_s3 64 s3_hist) 3 s3_more = true
  /\ has_ok (compile v_s3 (crash v_s3 64 s3_hist) 3 (OAppend 0 10)) = true
  /\ replay_validated (crash v_s3 64 s3_hist) <> None
  /\ replay_validated (run_ops v_s3 (crash v_s3 64 s3_hist) 3 s3_more) = None.
Proof. vm_compute. repeat split; try reflexivity. discriminate. Qed.

(* the flush decision: if EventLog::append left output-chunk frames of session / task streams in the BufWriter
   (`ff := false`), an acknowledged append would not be on disk when the process dies right after the call *)
Definition v_nf : ver := {| fw := true; fr := true; ff := false |}.
Definition nf_hist : list op := [OEnsure 0 300; OSess 0 100].
Lemma nf_witness :
  env_runb v_nf init 0 nf_hist = true
  /\ In 4 (acks (crash v_nf 1000 nf_hist))
  /\ cfid 4 (frames_of (truth (crash v_nf 1000 nf_hist))) = 0
  /\ cfid 4 (frames_of (truth (crash fixed 1000 nf_hist))) = 1.
Proof. vm_compute. repeat split; try reflexivity. right. left. reflexivity. Qed.

(* open finding (read side of S3): after the crash the full sidecar is a well-formed PROPER prefix of the
   thread's truth stream, and replay_events serves it *)
Lemma stale_witness :
  env_runb fixed init 0 stale_hist = true
  /\ snd (replay_events (crash fixed 43 stale_hist) 0) = Some [mkf 0 0 0 300 None]
  /\ stream 0 (frames_of (truth (crash fixed 43 stale_hist))) = [mkf 0 0 0 300 None; mkf 0 1 4 10 None].
Proof. vm_compute. repeat split; reflexivity. Qed.

(* non-vacuity: a history with every kind of operation, crashed in the middle, restarted, continued *)
Definition ex_hist : list op :=
  [OEnsure 0 300; OAppend 0 10; OSess 0 20; OAppend 0 9000; OCheckpoint 0 7 true 50; OBranch 0 1 300 40;
   OAppend 1 10; OHandoff 0 2 9 300 60; ODropRead 0; OAppend 0 10].
Definition ex_more : list op := [OAppend 0 10; OSess 5 10; OEnsure 9 300; OAppend 1 10; OAppend 2 8192].
Lemma ex_env : env_runb fixed init 0 ex_hist = true
  /\ nlen ex_hist <= 10
  /\ env_runb fixed (crash fixed 230 ex_hist) 10 ex_more = true
  /\ nlen (acks (crash fixed 230 ex_hist)) = 8
  /\ nlen (acks (run_ops fixed (crash fixed 230 ex_hist) 10 ex_more)) = 12.
Proof. vm_compute. repeat split; try reflexivity. discriminate. Qed.
