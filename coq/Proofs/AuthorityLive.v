(* C18 — recovery (liveness) facts about Model/Authority.v:
   * a server loop that runs without interference from a recoverable dead leftover state serves with its own lock and
     meta after at most 15 of its own steps, taking nothing of a live pid (for ANY list of other, idle processes);
   * the wedge: a half-written lock together with a meta.json is never cleaned by anybody, under any schedule. *)
From RipV Require Import Base.Prelude Model.Authority Proofs.AuthorityInv.

(* ------------------------------------------------------------------ micro only looks at the process list through pid_alive *)
Definition sim (s1 s2 : state) : Prop :=
  s_lock s1 = s_lock s2 /\ s_meta s1 = s_meta s2 /\ s_tmp s1 = s_tmp s2
  /\ s_took_lock s1 = s_took_lock s2 /\ s_took_meta s1 = s_took_meta s2
  /\ forall p, pid_alive (s_procs s1) p = pid_alive (s_procs s2) p.

Section Ext.
  Variables (ps1 ps2 : list proc).
  Hypothesis H : forall p, pid_alive ps1 p = pid_alive ps2 p.

  Lemma grace_ext ag o c : grace_fires ag ps1 o c = grace_fires ag ps2 o c.
  Proof. unfold grace_fires. rewrite H. reflexivity. Qed.
  Lemma takes_ext me w : takes ps1 me w = takes ps2 me w.
  Proof. unfold takes. destruct w; [rewrite H|]; reflexivity. Qed.
  Lemma server_next_ext ag o r : server_next ag ps1 o r = server_next ag ps2 o r.
  Proof. destruct r as [| | | | |l| | | | | |]; cbn; try reflexivity. destruct l; try reflexivity. rewrite grace_ext. reflexivity. Qed.
  Lemma client_next_ext ag o r : client_next ag ps1 o r = client_next ag ps2 o r.
  Proof. destruct r as [| | | | |l| | | | | |]; cbn; try reflexivity. destruct l; try reflexivity. rewrite grace_ext. reflexivity. Qed.
  Lemma ret_ext ag o q g r : ret ag ps1 o q g r = ret ag ps2 o q g r.
  Proof. unfold ret. destruct (p_drv q); try reflexivity; [rewrite server_next_ext|rewrite client_next_ext]; reflexivity. Qed.
End Ext.

Lemma micro_ext ag s1 s2 o q : sim s1 s2 ->
  sim (fst (micro ag s1 o q)) (fst (micro ag s2 o q)) /\ snd (micro ag s1 o q) = snd (micro ag s2 o q).
Proof.
  destruct s1 as [l1 m1 t1 ps1 a1 b1], s2 as [l2 m2 t2 ps2 a2 b2]. unfold sim. cbn.
  intros [-> [-> [-> [-> [-> H]]]]].
  unfold micro; cbn.
  destruct (p_pc q); destruct l2; destruct m2; destruct t2; cbn;
    rewrite ?(ret_ext _ _ H), ?(takes_ext _ _ H), ?H;
    repeat match goal with |- context [if ?c then _ else _] => destruct c end; cbn;
    rewrite ?(ret_ext _ _ H), ?(takes_ext _ _ H), ?H; auto 10.
Qed.

(* ------------------------------------------------------------------ a process stepping alone *)
Fixpoint solo (n : nat) (o : N) (s : state) (q : proc) : state * proc :=
  match n with O => (s, q) | S n' => let '(s', q') := micro true s o q in solo n' o s' q' end.

Lemma upd_upd {A} (l : list A) i x y : upd (upd l i x) i y = upd l i y.
Proof. revert i. induction l as [|z l IH]; intros [|i]; cbn; try reflexivity. rewrite IH. reflexivity. Qed.
Lemma upd_same {A} (l : list A) i x : nth_error l i = Some x -> upd l i x = l.
Proof. revert i. induction l as [|z l IH]; intros [|i] E; cbn in *; try discriminate; [congruence|]. rewrite IH; auto. Qed.
Lemma upd_nth_same {A} (l : list A) i x y : nth_error l i = Some y -> nth_error (upd l i x) i = Some x.
Proof. intros E. rewrite upd_nth, Nat.eqb_refl, E. reflexivity. Qed.

Lemma pid_alive_upd_eq ps i q x p :
  nth_error ps i = Some q -> p_pid x = p_pid q -> p_alive x = p_alive q ->
  pid_alive (upd ps i x) p = pid_alive ps p.
Proof.
  intros Hn Hp Ha. destruct (pid_alive ps p) eqn:E.
  - eapply pid_alive_upd_ge; eassumption.
  - destruct (pid_alive (upd ps i x) p) eqn:E2; [|reflexivity].
    eapply pid_alive_upd_le in E2; try eassumption; congruence.
Qed.

Lemma run_solo n : forall o S s q i,
  sim S s -> nth_error (s_procs S) i = Some q -> p_alive q = true ->
  sim (run true S (repeat (Step i o) n)) (fst (solo n o s q))
  /\ s_procs (run true S (repeat (Step i o) n)) = upd (s_procs S) i (snd (solo n o s q)).
Proof.
  induction n as [|n IH]; intros o S s q i Hsim Hq Ha.
  - cbn. split; [assumption|]. symmetry. apply upd_same. assumption.
  - cbn [repeat run fold_left solo]. cbn [step]. rewrite Hq, Ha.
    destruct (micro_ext true S s o q Hsim) as [Hs1 Hq1].
    destruct (micro true S o q) as [S1 q1] eqn:HM. destruct (micro true s o q) as [s1 q1'] eqn:Hm.
    cbn in Hs1, Hq1. subst q1'.
    destruct (micro_basic _ _ _ _ _ _ HM) as [Epid [Eal Eps]].
    assert (Hsim' : sim (with_procs S1 (upd (s_procs S) i q1)) s1).
    { destruct Hs1 as [A [B [C [D [E F]]]]]. unfold sim; cbn. repeat (split; [assumption|]).
      intros p. rewrite (pid_alive_upd_eq _ _ _ _ _ Hq Epid Eal). rewrite <- Eps. apply F. }
    destruct (IH o (with_procs S1 (upd (s_procs S) i q1)) s1 q1 i Hsim') as [R1 R2].
    { cbn. eapply upd_nth_same; eassumption. }
    { congruence. }
    unfold run in R1, R2. split; [exact R1|]. rewrite R2. cbn. apply upd_upd.
Qed.

(* ------------------------------------------------------------------ symbolic runs of the server loop *)
Definition mkst l m t ps :=
  {| s_lock := l; s_meta := m; s_tmp := t; s_procs := ps; s_took_lock := false; s_took_meta := false |}.
Definition srv me g k last :=
  {| p_pid := me; p_alive := true; p_guard := g; p_drv := DServer; p_pc := k; p_last := last |}.

Ltac sstep :=
  cbn [solo micro ret server_next goto set_files p_pc p_pid p_guard p_drv p_alive s_lock s_meta s_tmp s_procs
       s_took_lock s_took_meta mkst srv lock_pid meta_pid orb andb negb res_code lock_code meta_code b2n];
  unfold takes, grace_fires;
  change (o_deadline 2) with false; change (o_grace 2) with true; change (o_reach 2) with false;
  repeat match goal with
  | H : pid_alive _ _ = false |- _ => rewrite H
  | H : (_ =? _) = false |- _ => rewrite H
  end;
  rewrite ?N.eqb_refl, ?andb_false_r, ?andb_true_r, ?orb_false_r;
  cbn [negb andb orb].

(* the recoverable dead leftovers *)
Inductive recoverable (ps : list proc) : lockf -> metaf -> Prop :=
 | rec_none : recoverable ps LAbsent MAbsent
 | rec_meta_only d' : pid_alive ps d' = false -> recoverable ps LAbsent (MRec d')
 | rec_lock d : pid_alive ps d = false -> recoverable ps (LRec d) MAbsent
 | rec_lock_meta d d' : pid_alive ps d = false -> pid_alive ps d' = false -> recoverable ps (LRec d) (MRec d')
 | rec_half d : pid_alive ps d = false -> recoverable ps (LHalf d) MAbsent
 | rec_half_meta d d' : pid_alive ps d = false -> pid_alive ps d' = false -> recoverable ps (LHalf d) (MRec d').

(* = every leftover whose pids are all dead *)
Definition dead_leftover (ps : list proc) (l : lockf) (m : metaf) : Prop :=
  (forall p, lock_pid l = Some p -> pid_alive ps p = false) /\ (forall p, meta_pid m = Some p -> pid_alive ps p = false).
Lemma dead_leftover_recoverable ps l m : dead_leftover ps l m -> recoverable ps l m.
Proof.
  intros [Hl Hm]. destruct l as [|d|d], m as [|d']; cbn in *; constructor; auto.
Qed.

Lemma solo_recovers ps me l m : recoverable ps l m ->
  exists n, (n <= 15)%nat /\
    solo n 2 (mkst l m MAbsent ps) (srv me false AcqCreate 0) = (mkst (LRec me) (MRec me) MAbsent ps, srv me true Serving 1).
Proof.
  intros [|d' Hd'|d Hd|d d' Hd Hd'|d Hd|d d' Hd Hd'].
  - exists 5%nat. split; [lia|]. unfold mkst, srv. do 5 sstep. reflexivity.
  - exists 5%nat. split; [lia|]. unfold mkst, srv. do 5 sstep. reflexivity.
  - exists 13%nat. split; [lia|]. unfold mkst, srv. do 13 sstep. reflexivity.
  - destruct (d' =? d) eqn:E.
    + apply N.eqb_eq in E. subst d'. exists 15%nat. split; [lia|]. unfold mkst, srv. do 15 sstep. reflexivity.
    + exists 14%nat. split; [lia|]. unfold mkst, srv. do 14 sstep. reflexivity.
  - exists 11%nat. split; [lia|]. unfold mkst, srv. do 11 sstep. reflexivity.
  - exists 14%nat. split; [lia|]. unfold mkst, srv. do 14 sstep. reflexivity.
Qed.

Lemma sim_refl s : sim s s.
Proof. unfold sim. auto 10. Qed.

Lemma filter_none {A} (f : A -> bool) (l : list A) : (forall z, In z l -> f z = false) -> filter f l = [].
Proof.
  induction l as [|w l IH]; intros Hall; cbn; [reflexivity|].
  rewrite (Hall w) by (left; reflexivity). apply IH. intros z Hz. apply Hall. right. exact Hz.
Qed.

Lemma filter_upd_single {A} (f : A -> bool) (l : list A) i x y :
  (forall z, In z l -> f z = false) -> nth_error l i = Some x -> f y = true -> filter f (upd l i y) = [y].
Proof.
  revert i. induction l as [|z l IH]; intros [|i] Hall Hn Hy; cbn in *; try discriminate.
  - rewrite Hy. rewrite (filter_none f l); [reflexivity|]. intros w Hw. apply Hall. right. exact Hw.
  - rewrite (Hall z) by (left; reflexivity). apply (IH i); auto.
Qed.

Lemma contender_no_guard q : contender q -> is_holder q = false.
Proof. intros [E|E]; rewrite E; reflexivity. Qed.

(* a store whose previous authority crashed becomes usable again: from every recoverable dead leftover state a server
   loop that is scheduled alone (any number of other contenders idle) serves after at most 15 steps with its own record
   in lock.json and meta.json, and nothing of a live pid was renamed or removed *)
Theorem recovers_solo l m ps i me :
  (forall q, In q ps -> contender q) -> nth_error ps i = Some (fresh me DServer) -> dead_leftover ps l m ->
  exists n, (n <= 15)%nat
    /\ holders (run true (init l m ps) (repeat (Step i 2) n)) = [me]
    /\ s_lock (run true (init l m ps) (repeat (Step i 2) n)) = LRec me
    /\ s_meta (run true (init l m ps) (repeat (Step i 2) n)) = MRec me
    /\ s_took_lock (run true (init l m ps) (repeat (Step i 2) n)) = false
    /\ s_took_meta (run true (init l m ps) (repeat (Step i 2) n)) = false.
Proof.
  intros Hc Hi Hr. apply dead_leftover_recoverable in Hr. destruct (solo_recovers ps me l m Hr) as [n [Hn Hs]].
  exists n. split; [exact Hn|].
  destruct (run_solo n 2 (init l m ps) (mkst l m MAbsent ps) (srv me false AcqCreate 0) i (sim_refl _) Hi eq_refl) as [Hsim Hps].
  rewrite Hs in Hsim, Hps. cbn [fst snd] in Hsim, Hps.
  destruct Hsim as [A [B [_ [D [E _]]]]].
  unfold holders. rewrite Hps. cbn [init s_procs].
  rewrite (filter_upd_single is_holder ps i (fresh me DServer) (srv me true Serving 1)); auto.
  intros z Hz. apply contender_no_guard. auto.
Qed.

(* ------------------------------------------------------------------ the wedge, before fix S23 *)
(* try_cleanup_corrupt_lock_file before the fix: ANY meta.json made it refuse *)
Definition micro_unfixed (ag : bool) (s : state) (o : N) (q : proc) : state * proc :=
  match p_pc q, s_meta s with
  | CoMetaExists, MRec _ => (s, ret ag (s_procs s) o q (p_guard q) (RCorrupt false))
  | _, _ => micro ag s o q
  end.
Definition step_unfixed (ag : bool) (s : state) (e : event) : state :=
  match e with
  | Step i o =>
      match nth_error (s_procs s) i with
      | Some q => if p_alive q
                  then let '(s', q') := micro_unfixed ag s o q in with_procs s' (upd (s_procs s) i q')
                  else s
      | None => s
      end
  | Crash i =>
      match nth_error (s_procs s) i with
      | Some q => with_procs s (upd (s_procs s) i (kill q))
      | None => s
      end
  end.
Definition run_unfixed (ag : bool) (s : state) (es : list event) : state := fold_left (step_unfixed ag) es s.

Definition wedge_pc (k : pc) : bool :=
  match k with
  | AcqCreate | RdMeta | RdLock | LockExists | Live _ | Ping _ | LiveM _ | LockExistsM _ | StExists _ | StReread _ | CoExists | CoMetaExists | Done => true
  | _ => false
  end.
Record wlocal (q : proc) : Prop := mkW {
  W_guard : p_guard q = false;
  W_pc : wedge_pc (p_pc q) = true;
  W_drv : drv_ok (p_drv q) = true
}.

Lemma micro_wedge ag s o q s' q' d d' :
  s_lock s = LHalf d -> s_meta s = MRec d' -> wlocal q -> micro_unfixed ag s o q = (s', q') ->
  s_lock s' = LHalf d /\ s_meta s' = MRec d' /\ wlocal q'.
Proof.
  intros Hl Hm [Wg Wp Wd] H. apply drv_cases in Wd.
  unfold micro_unfixed, micro in H. rewrite Hl, Hm in H.
  destruct (p_pc q) eqn:Hpc; cbn in Wp; try discriminate;
  destruct Wd as [Hd|[Hd|Hd]]; unfold ret, goto in H; rewrite ?Hd in H; cbn in H.
  all: break; inversion H; subst; clear H; cbn.
  all: repeat split; cbn; rewrite ?Hd, ?Hpc; auto.
Qed.

Record Wedge (d d' : pid) (s : state) : Prop := mkWedge {
  Wd_lock : s_lock s = LHalf d;
  Wd_meta : s_meta s = MRec d';
  Wd_all : forall q, In q (s_procs s) -> wlocal q
}.

Lemma step_wedge ag d d' s e : Wedge d d' s -> Wedge d d' (step_unfixed ag s e).
Proof.
  intros [Hl Hm Ha]. destruct e as [i o|i]; cbn [step_unfixed].
  - destruct (nth_error (s_procs s) i) as [q|] eqn:Hq; [|constructor; assumption].
    destruct (p_alive q); [|constructor; assumption].
    destruct (micro_unfixed ag s o q) as [s' q'] eqn:HM.
    destruct (micro_wedge _ _ _ _ _ _ _ _ Hl Hm (Ha q (nth_error_In _ _ Hq)) HM) as [A [B C]].
    constructor; cbn; try assumption.
    intros x Hx. apply in_upd in Hx. destruct Hx as [[-> _]|[j [_ Hj]]]; [assumption|].
    apply Ha. eapply nth_error_In; eassumption.
  - destruct (nth_error (s_procs s) i) as [q|] eqn:Hq; [|constructor; assumption].
    constructor; cbn; try assumption.
    intros x Hx. apply in_upd in Hx. destruct Hx as [[-> _]|[j [_ Hj]]].
    + destruct (Ha q (nth_error_In _ _ Hq)) as [A B C]. constructor; assumption.
    + apply Ha. eapply nth_error_In; eassumption.
Qed.

Lemma run_wedge ag d d' es : forall s, Wedge d d' s -> Wedge d d' (run_unfixed ag s es).
Proof. induction es as [|e es IH]; intros s H; [exact H|]. cbn. apply IH. apply step_wedge. exact H. Qed.

(* BEFORE the fix a half-written lock next to ANY meta.json was never removed: corrupt cleanup refused because meta.json
   exists, stale cleanup refuses because the lock has no record — whoever the contenders, whatever the schedule, crashes
   or not, timer or no timer: nobody ever became the authority of that store again *)
Theorem unfixed_wedged_half_lock_with_meta ag d d' ps es :
  (forall q, In q ps -> contender q) ->
  holders (run_unfixed ag (init (LHalf d) (MRec d') ps) es) = []
  /\ s_lock (run_unfixed ag (init (LHalf d) (MRec d') ps) es) = LHalf d
  /\ s_meta (run_unfixed ag (init (LHalf d) (MRec d') ps) es) = MRec d'.
Proof.
  intros Hc.
  assert (W0 : Wedge d d' (init (LHalf d) (MRec d') ps)).
  { constructor; cbn; try reflexivity. intros q Hq. destruct (Hc q Hq) as [E|E]; rewrite E; constructor; reflexivity. }
  destruct (run_wedge ag d d' es _ W0) as [A B C].
  split; [|split; assumption].
  unfold holders. rewrite filter_none; [reflexivity|].
  intros x Hx. unfold is_holder. rewrite (W_guard _ (C x Hx)). apply andb_false_r.
Qed.

(* ------------------------------------------------------------------ the client with a dead meta.json and no lock (S24, fixed) *)
Definition cli me k last :=
  {| p_pid := me; p_alive := true; p_guard := false; p_drv := DClient; p_pc := k; p_last := last |}.

Ltac cstep :=
  cbn [solo micro ret client_next goto set_files p_pc p_pid p_guard p_drv p_alive s_lock s_meta s_tmp s_procs
       s_took_lock s_took_meta mkst cli lock_pid meta_pid orb andb negb res_code lock_code meta_code b2n];
  unfold takes, grace_fires;
  change (o_deadline 0) with false; change (o_grace 0) with false; change (o_reach 0) with false;
  repeat match goal with
  | H : pid_alive _ _ = false |- _ => rewrite H
  end;
  rewrite ?N.eqb_refl, ?andb_false_r, ?andb_true_r, ?orb_false_r;
  cbn [negb andb orb].

Lemma solo_client_reaches_spawn ps me d' : pid_alive ps d' = false ->
  solo 3 0 (mkst LAbsent (MRec d') MAbsent ps) (cli me RdMeta 0)
  = (mkst LAbsent (MRec d') MAbsent ps, cli me (LockExistsM d') 0)
  /\ solo 4 0 (mkst LAbsent (MRec d') MAbsent ps) (cli me RdMeta 0)
  = (mkst LAbsent (MRec d') MAbsent ps, cli me RdMeta 0).
Proof.
  intros Hd. unfold mkst, cli. split.
  - do 3 cstep. reflexivity.
  - do 4 cstep. reflexivity.
Qed.

(* a meta.json of a dead pid without a lock.json: the client loop, scheduled alone among any idle processes, is after 3
   steps at the "lock.json exists?" test of its meta branch with the lock absent — the point from which the code spawns an
   authority — and after the 4th step back at the top of its loop (result 0 = does not exist), nothing changed *)
Theorem client_reaches_spawn d' ps i me :
  nth_error ps i = Some (fresh me DClient) -> pid_alive ps d' = false ->
  nth_error (s_procs (run true (init LAbsent (MRec d') ps) (repeat (Step i 0) 3))) i = Some (cli me (LockExistsM d') 0)
  /\ s_lock (run true (init LAbsent (MRec d') ps) (repeat (Step i 0) 3)) = LAbsent
  /\ s_meta (run true (init LAbsent (MRec d') ps) (repeat (Step i 0) 3)) = MRec d'.
Proof.
  intros Hi Hd. destruct (solo_client_reaches_spawn ps me d' Hd) as [S3 _].
  destruct (run_solo 3 0 (init LAbsent (MRec d') ps) (mkst LAbsent (MRec d') MAbsent ps) (cli me RdMeta 0) i (sim_refl _) Hi eq_refl) as [Hsim Hps].
  rewrite S3 in Hsim, Hps. cbn [fst snd] in Hsim, Hps.
  destruct Hsim as [A [B _]].
  split; [|split; assumption].
  rewrite Hps. cbn [init s_procs]. eapply upd_nth_same. eassumption.
Qed.
