(* C12 — the patch format is complete and unambiguous on rendered documents: every sequence of
   operations with clean payload has a document, and the parser returns exactly that sequence. *)
From RipV Require Import Base.Prelude Base.Fs Model.Patch.
Open Scope N_scope.
Open Scope list_scope.

Inductive sop :=
| SAdd (p : list N) (ls : list line)
| SDel (p : list N)
| SUpd (p : list N) (mv : option (list N)) (hs : list hunk).

Definition to_op (o : sop) : op :=
  match o with
  | SAdd p ls => Add p (add_content ls)
  | SDel p => Del p
  | SUpd p mv hs => Upd p mv hs
  end.

Definition render_hunk (h : hunk) : list line :=
  [64; 64] :: map (cons 45) (h_before h) ++ map (cons 43) (h_after h).
Definition render_sop (o : sop) : list line :=
  match o with
  | SAdd p ls => (H_ADD ++ p) :: map (cons 43) ls
  | SDel p => [H_DEL ++ p]
  | SUpd p mv hs =>
    (H_UPD ++ p) :: match mv with Some q => [H_MOVE ++ q] | None => [] end ++ concat (map render_hunk hs)
  end.
Definition render_lines (ops : list sop) : list line := H_BEGIN :: concat (map render_sop ops) ++ [H_END].
Definition render (ops : list sop) : list N := intercalate [10] (render_lines ops).

Definition line_ok (l : line) : Prop := ~ In 10 l /\ last l 0 <> 13.
Definition path_ok (p : list N) : Prop := parse_rel_path p = Some p /\ line_ok p.
Definition hunk_ok (h : hunk) : Prop :=
  h_before h ++ h_after h <> [] /\ Forall line_ok (h_before h) /\ Forall line_ok (h_after h).
Definition sop_ok (o : sop) : Prop :=
  match o with
  | SAdd p ls => path_ok p /\ Forall line_ok ls
  | SDel p => path_ok p
  | SUpd p mv hs => path_ok p /\ match mv with Some q => path_ok q | None => True end /\ hs <> [] /\ Forall hunk_ok hs
  end.

(* ---------- header arithmetic ---------- *)
Fixpoint conflict (a b : list N) : bool :=
  match a, b with
  | x :: a', y :: b' => negb (x =? y) || conflict a' b'
  | _, _ => false
  end.

Lemma strip_prefix_app a s : strip_prefix a (a ++ s) = Some s.
Proof. induction a as [|x a IH]; cbn [strip_prefix app]; [reflexivity|]. rewrite N.eqb_refl. exact IH. Qed.

Lemma conflict_strip a : forall b s, conflict a b = true -> strip_prefix a (b ++ s) = None.
Proof.
  induction a as [|x a IH]; intros [|y b] s; cbn [conflict strip_prefix app]; try discriminate.
  destruct (x =? y); cbn [negb orb]; [apply IH|reflexivity].
Qed.

Lemma conflict_neq a : forall b s, conflict a b = true -> lN_eqb (b ++ s) a = false.
Proof.
  unfold lN_eqb. induction a as [|x a IH]; intros [|y b] s; cbn [conflict list_eqb app]; try discriminate.
  rewrite (N.eqb_sym y x). destruct (x =? y); cbn [negb orb andb]; [apply IH|reflexivity].
Qed.

Lemma starts_with_app a s : starts_with a (a ++ s) = true.
Proof. unfold starts_with. rewrite strip_prefix_app. reflexivity. Qed.

Lemma H_STARS_eq : H_STARS = [42; 42; 42; 32]. Proof. reflexivity. Qed.
Lemma H_ADD_stars : H_ADD = H_STARS ++ skipn 4 H_ADD. Proof. reflexivity. Qed.
Lemma H_DEL_stars : H_DEL = H_STARS ++ skipn 4 H_DEL. Proof. reflexivity. Qed.
Lemma H_UPD_stars : H_UPD = H_STARS ++ skipn 4 H_UPD. Proof. reflexivity. Qed.
Lemma H_END_stars : H_END = H_STARS ++ skipn 4 H_END. Proof. reflexivity. Qed.

Lemma stars_add p : starts_with H_STARS (H_ADD ++ p) = true.
Proof. rewrite H_ADD_stars, <- app_assoc. apply starts_with_app. Qed.
Lemma stars_del p : starts_with H_STARS (H_DEL ++ p) = true.
Proof. rewrite H_DEL_stars, <- app_assoc. apply starts_with_app. Qed.
Lemma stars_upd p : starts_with H_STARS (H_UPD ++ p) = true.
Proof. rewrite H_UPD_stars, <- app_assoc. apply starts_with_app. Qed.
Lemma stars_end : starts_with H_STARS H_END = true.
Proof. reflexivity. Qed.

Lemma no_stars c l : c <> 42 -> starts_with H_STARS (c :: l) = false.
Proof.
  intros H. unfold starts_with. rewrite H_STARS_eq. cbn [strip_prefix].
  destruct (42 =? c) eqn:E; [lia|reflexivity].
Qed.
Lemma no_atat c l : c <> 64 -> starts_with [64; 64] (c :: l) = false.
Proof. intros H. unfold starts_with. cbn [strip_prefix]. destruct (64 =? c) eqn:E; [lia|reflexivity]. Qed.

Lemma step_top_add acc p : parse_rel_path p = Some p -> step_top acc (H_ADD ++ p) = PAdd acc p [].
Proof.
  intros P. unfold step_top. rewrite (conflict_neq H_END H_ADD p eq_refl).
  rewrite strip_prefix_app, P. reflexivity.
Qed.
Lemma step_top_del acc p : parse_rel_path p = Some p -> step_top acc (H_DEL ++ p) = PTop (acc ++ [Del p]).
Proof.
  intros P. unfold step_top. rewrite (conflict_neq H_END H_DEL p eq_refl).
  rewrite (conflict_strip H_ADD H_DEL p eq_refl). rewrite strip_prefix_app, P. reflexivity.
Qed.
Lemma step_top_upd acc p : parse_rel_path p = Some p -> step_top acc (H_UPD ++ p) = PUpd0 acc p.
Proof.
  intros P. unfold step_top. rewrite (conflict_neq H_END H_UPD p eq_refl).
  rewrite (conflict_strip H_ADD H_UPD p eq_refl), (conflict_strip H_DEL H_UPD p eq_refl).
  rewrite strip_prefix_app, P. reflexivity.
Qed.
Lemma step_top_end acc : step_top acc H_END = PDone acc.
Proof. reflexivity. Qed.

(* ---------- add lines ---------- *)
Lemma add_lines acc p tail : forall ls content,
  fold_left pstep (map (cons 43) ls ++ tail) (PAdd acc p content) = fold_left pstep tail (PAdd acc p (content ++ ls)).
Proof.
  induction ls as [|l ls IH]; intros content; cbn [map app fold_left].
  - rewrite app_nil_r. reflexivity.
  - cbn [pstep]. rewrite no_stars by discriminate. rewrite IH, <- app_assoc. reflexivity.
Qed.

(* ---------- hunk lines ---------- *)
Lemma hunk_lines acc p mv hs tail (c : N) : c = 45 \/ c = 43 -> forall ls cur,
  fold_left pstep (map (cons c) ls ++ tail) (PUpd acc p mv hs cur) =
  fold_left pstep tail (PUpd acc p mv hs (cur ++ map (pair c) ls)).
Proof.
  intros Hc. induction ls as [|l ls IH]; intros cur; cbn [map app fold_left].
  - rewrite app_nil_r. reflexivity.
  - cbn [pstep]. unfold step_upd. rewrite no_stars by lia. rewrite no_atat by lia.
    assert ((c =? 32) || (c =? 43) || (c =? 45) = true) as -> by (destruct Hc; subst; reflexivity).
    rewrite IH, <- app_assoc. reflexivity.
Qed.

Definition enc_hunk (h : hunk) : list (N * line) := map (pair 45) (h_before h) ++ map (pair 43) (h_after h).

Lemma filter_map_true {A B} (f : A -> B) (P : B -> bool) (l : list A) :
  (forall x, P (f x) = true) -> filter P (map f l) = map f l.
Proof. intros H. induction l as [|x l IH]; cbn [map filter]; [reflexivity|]. rewrite H, IH. reflexivity. Qed.
Lemma filter_map_false {A B} (f : A -> B) (P : B -> bool) (l : list A) :
  (forall x, P (f x) = false) -> filter P (map f l) = [].
Proof. intros H. induction l as [|x l IH]; cbn [map filter]; [reflexivity|]. rewrite H, IH. reflexivity. Qed.

Lemma mk_hunk_enc h : mk_hunk (enc_hunk h) = h.
Proof.
  destruct h as [b a]. unfold mk_hunk, enc_hunk. cbn [h_before h_after]. rewrite !filter_app.
  rewrite (filter_map_true (pair 45)) by (intros; reflexivity).
  rewrite (filter_map_false (pair 43) (fun pl => negb (fst pl =? 43))) by (intros; reflexivity).
  rewrite (filter_map_false (pair 45) (fun pl => negb (fst pl =? 45))) by (intros; reflexivity).
  rewrite (filter_map_true (pair 43)) by (intros; reflexivity).
  rewrite app_nil_r. cbn [app]. rewrite !map_map. cbn [snd]. rewrite !map_id. reflexivity.
Qed.

Lemma enc_hunk_nonnil h : h_before h ++ h_after h <> [] -> enc_hunk h <> [].
Proof.
  unfold enc_hunk. destruct (h_before h); destruct (h_after h); cbn; try discriminate. congruence.
Qed.

Lemma one_hunk acc p mv hs cur h tail :
  fold_left pstep (render_hunk h ++ tail) (PUpd acc p mv hs cur) =
  fold_left pstep tail (PUpd acc p mv (flush_cur hs cur) (enc_hunk h)).
Proof.
  unfold render_hunk. cbn [app fold_left pstep]. unfold step_upd at 1.
  rewrite no_stars by discriminate. change (starts_with [64; 64] [64; 64]) with true. cbn iota.
  rewrite <- app_assoc. rewrite hunk_lines by (left; reflexivity). rewrite hunk_lines by (right; reflexivity).
  reflexivity.
Qed.

Lemma flush_enc hs h : hunk_ok h -> flush_cur hs (enc_hunk h) = hs ++ [h].
Proof.
  intros [NE _]. unfold flush_cur. pose proof (enc_hunk_nonnil h NE) as N.
  destruct (enc_hunk h) eqn:E; [congruence|]. rewrite <- E, mk_hunk_enc. reflexivity.
Qed.

Lemma all_hunks acc p mv tail : forall hs hs0 cur0, Forall hunk_ok hs ->
  exists hsf curf,
    fold_left pstep (concat (map render_hunk hs) ++ tail) (PUpd acc p mv hs0 cur0) =
    fold_left pstep tail (PUpd acc p mv hsf curf) /\
    flush_cur hsf curf = flush_cur hs0 cur0 ++ hs.
Proof.
  induction hs as [|h hs IH]; intros hs0 cur0 F.
  - exists hs0, cur0. split; [reflexivity|rewrite app_nil_r; reflexivity].
  - inversion F as [|? ? Fh Fr]; subst. cbn [map concat]. rewrite <- app_assoc. rewrite one_hunk.
    destruct (IH (flush_cur hs0 cur0) (enc_hunk h) Fr) as [hsf [curf [E1 E2]]].
    exists hsf, curf. split; [exact E1|]. rewrite E2, (flush_enc _ _ Fh), <- app_assoc. reflexivity.
Qed.

(* the first "@@" of an update without a move is read in state PUpd0; it has the same effect *)
Lemma upd0_first_hunk acc p h rest :
  fold_left pstep (render_hunk h ++ rest) (PUpd0 acc p) = fold_left pstep (render_hunk h ++ rest) (PUpd acc p None [] []).
Proof. unfold render_hunk. cbn [app fold_left]. reflexivity. Qed.

(* ---------- one operation, up to the next header line ---------- *)
Lemma op_step o acc l rest : sop_ok o -> starts_with H_STARS l = true ->
  fold_left pstep (render_sop o ++ l :: rest) (PTop acc) = fold_left pstep rest (step_top (acc ++ [to_op o]) l).
Proof.
  intros OK ST. destruct o as [p ls|p|p mv hs]; cbn [render_sop to_op sop_ok] in *.
  - destruct OK as [[P _] _]. cbn [app fold_left pstep]. rewrite (step_top_add acc p P).
    rewrite add_lines. cbn [fold_left pstep app]. rewrite ST. reflexivity.
  - destruct OK as [P _]. cbn [app fold_left pstep]. rewrite (step_top_del acc p P). reflexivity.
  - destruct OK as [[P _] [MV [NE F]]]. cbn [app fold_left pstep]. rewrite (step_top_upd acc p P).
    assert (G : forall mv', fold_left pstep (concat (map render_hunk hs) ++ l :: rest) (PUpd acc p mv' [] []) =
                           fold_left pstep rest (step_top (acc ++ [Upd p mv' hs]) l)).
    { intros mv'. destruct (all_hunks acc p mv' (l :: rest) hs [] [] F) as [hsf [curf [E1 E2]]].
      rewrite E1. cbn [fold_left pstep]. unfold step_upd. rewrite ST. rewrite E2. cbn [flush_cur app].
      destruct hs as [|h0 hs']; [congruence|reflexivity]. }
    destruct mv as [q|].
    + destruct MV as [Q _]. cbn [app fold_left pstep]. rewrite strip_prefix_app, Q.
      apply G.
    + cbn [app]. destruct hs as [|h hs']; [congruence|]. cbn [map concat]. rewrite <- app_assoc.
      rewrite upd0_first_hunk. rewrite app_assoc. change (render_hunk h ++ concat (map render_hunk hs')) with (concat (map render_hunk (h :: hs'))).
      apply G.
Qed.

Lemma next_header ops : exists l rest,
  concat (map render_sop ops) ++ [H_END] = l :: rest /\ starts_with H_STARS l = true.
Proof.
  destruct ops as [|o ops]; [exists H_END, []; split; [reflexivity|exact stars_end]|].
  cbn [map concat]. destruct o as [p ls|p|p mv hs]; cbn [render_sop app]; eexists; eexists; (split; [reflexivity|]).
  - apply stars_add.
  - apply stars_del.
  - apply stars_upd.
Qed.

Lemma body_fold : forall ops acc, Forall sop_ok ops ->
  fold_left pstep (concat (map render_sop ops) ++ [H_END]) (PTop acc) = PDone (acc ++ map to_op ops).
Proof.
  induction ops as [|o ops IH]; intros acc F.
  - cbn [map concat app fold_left pstep]. rewrite step_top_end, app_nil_r. reflexivity.
  - inversion F as [|? ? Fo Fr]; subst. cbn [map concat]. rewrite <- app_assoc.
    destruct (next_header ops) as [l [rest [E ST]]]. rewrite E.
    transitivity (fold_left pstep rest (step_top (acc ++ [to_op o]) l)); [apply op_step; assumption|].
    change (fold_left pstep rest (step_top (acc ++ [to_op o]) l)) with (fold_left pstep (l :: rest) (PTop (acc ++ [to_op o]))).
    rewrite <- E. rewrite (IH _ Fr). rewrite <- app_assoc. reflexivity.
Qed.

(* ---------- str::lines on the rendered text ---------- *)
Lemma lines_aux_line : forall l cur rest, ~ In 10 l ->
  lines_aux cur (l ++ 10 :: rest) = strip_cr (rev cur ++ l) :: lines_aux [] rest.
Proof.
  induction l as [|x l IH]; intros cur rest NI; cbn [app lines_aux].
  - change (10 =? 10) with true. cbn iota. rewrite app_nil_r. reflexivity.
  - destruct (x =? 10) eqn:E; [exfalso; apply NI; left; lia|].
    rewrite IH by (intros I; apply NI; right; exact I). cbn [rev]. rewrite <- app_assoc. reflexivity.
Qed.

Lemma lines_aux_end : forall l cur, ~ In 10 l -> rev cur ++ l <> [] -> lines_aux cur l = [rev cur ++ l].
Proof.
  induction l as [|x l IH]; intros cur NI NE; cbn [lines_aux].
  - rewrite app_nil_r in *. destruct cur; [cbn in NE; congruence|reflexivity].
  - destruct (x =? 10) eqn:E; [exfalso; apply NI; left; lia|].
    rewrite IH; [cbn [rev]; rewrite <- app_assoc; reflexivity|intros I; apply NI; right; exact I|].
    cbn [rev]. rewrite <- app_assoc. cbn [app]. intros Z. apply app_eq_nil in Z. destruct Z; discriminate.
Qed.

Lemma strip_cr_id l : last l 0 <> 13 -> strip_cr l = l.
Proof.
  intros H. unfold strip_cr. destruct (rev l) as [|x r] eqn:E; [reflexivity|].
  assert (L : l = rev r ++ [x]) by (rewrite <- (rev_involutive l), E; reflexivity).
  rewrite L, last_last in H.
  destruct x as [|q]; [reflexivity|]. repeat (destruct q as [q|q|]; try reflexivity). congruence.
Qed.

Lemma str_lines_intercalate lst : ~ In 10 lst -> lst <> [] -> forall ls,
  Forall line_ok ls -> str_lines (intercalate [10] (ls ++ [lst])) = ls ++ [lst].
Proof.
  intros NL NE. unfold str_lines. induction ls as [|x ls IH]; intros F.
  - cbn [app intercalate]. rewrite lines_aux_end; [reflexivity|exact NL|exact NE].
  - inversion F as [|? ? [N10 N13] Fr]; subst. cbn [app].
    destruct (ls ++ [lst]) as [|y r] eqn:E; [destruct ls; discriminate|].
    change (intercalate [10] (x :: y :: r)) with (x ++ 10 :: intercalate [10] (y :: r)).
    rewrite lines_aux_line by exact N10. cbn [rev app]. rewrite (strip_cr_id x N13). f_equal. apply IH. exact Fr.
Qed.

(* ---------- the payload lines of a well-formed document are clean ---------- *)
Lemma line_ok_cons c l : c <> 10 -> c <> 13 -> line_ok l -> line_ok (c :: l).
Proof.
  intros Hc Hc' [N10 N13]. split.
  - intros [E|I]; [congruence|contradiction].
  - destruct l as [|y r]; [exact Hc'|exact N13].
Qed.

Lemma line_ok_header (h p : list N) : ~ In 10 h -> p <> [] -> line_ok p -> line_ok (h ++ p).
Proof.
  intros NH NE [N10 N13]. split.
  - intros I. apply in_app_or in I. destruct I; contradiction.
  - destruct (exists_last NE) as [p' [z ->]]. rewrite app_assoc, last_last. rewrite last_last in N13. exact N13.
Qed.

Lemma path_nonnil p : parse_rel_path p = Some p -> p <> [].
Proof. unfold parse_rel_path. destruct (trim p); [discriminate|]. destruct (starts_slash _); [discriminate|]. destruct (has_parent_dir _); [discriminate|]. intros H; inversion H; subst. discriminate. Qed.

Lemma notin10 h : existsb (N.eqb 10) h = false -> ~ In 10 h.
Proof.
  intros H I. assert (existsb (N.eqb 10) h = true) by (apply existsb_exists; exists 10; split; [exact I|reflexivity]).
  congruence.
Qed.

Lemma Forall_map_cons c ls : c <> 10 -> c <> 13 -> Forall line_ok ls -> Forall line_ok (map (cons c) ls).
Proof.
  intros H1 H2 F. induction F as [|l ls Hl F IH]; cbn [map]; constructor; [apply line_ok_cons; assumption|exact IH].
Qed.

Lemma header_ok h p : existsb (N.eqb 10) h = false -> path_ok p -> line_ok (h ++ p).
Proof. intros H [P L]. apply line_ok_header; [apply notin10; exact H|apply path_nonnil; exact P|exact L]. Qed.

Lemma atat_ok : line_ok [64; 64].
Proof. split; [apply notin10; reflexivity|cbn; discriminate]. Qed.

Lemma render_hunk_ok h : hunk_ok h -> Forall line_ok (render_hunk h).
Proof.
  intros [_ [B A]]. unfold render_hunk. constructor; [exact atat_ok|]. apply Forall_app. split.
  - apply Forall_map_cons; [discriminate|discriminate|exact B].
  - apply Forall_map_cons; [discriminate|discriminate|exact A].
Qed.

Lemma Forall_concat_map {A} (P : line -> Prop) (g : A -> list line) (l : list A) (Q : A -> Prop) :
  (forall x, Q x -> Forall P (g x)) -> Forall Q l -> Forall P (concat (map g l)).
Proof.
  intros H F. induction F as [|x l Hx F IH]; cbn [map concat]; [constructor|].
  apply Forall_app. split; [apply H; exact Hx|exact IH].
Qed.

Lemma render_sop_ok o : sop_ok o -> Forall line_ok (render_sop o).
Proof.
  destruct o as [p ls|p|p mv hs]; cbn [sop_ok render_sop].
  - intros [P F]. constructor; [apply header_ok; [reflexivity|exact P]|].
    apply Forall_map_cons; [discriminate|discriminate|exact F].
  - intros P. constructor; [apply header_ok; [reflexivity|exact P]|constructor].
  - intros [P [MV [_ F]]]. constructor; [apply header_ok; [reflexivity|exact P]|].
    apply Forall_app. split.
    + destruct mv as [q|]; [constructor; [apply header_ok; [reflexivity|exact MV]|constructor]|constructor].
    + eapply Forall_concat_map; [apply render_hunk_ok|exact F].
Qed.

Theorem parse_render ops : Forall sop_ok ops -> parse_patch (render ops) = Some (map to_op ops).
Proof.
  intros F. unfold parse_patch, render, render_lines.
  rewrite app_comm_cons.
  rewrite str_lines_intercalate.
  - cbn [app]. assert (lN_eqb H_BEGIN H_BEGIN = true) as -> by reflexivity.
    rewrite (body_fold ops [] F). reflexivity.
  - apply notin10. reflexivity.
  - discriminate.
  - constructor.
    + split; [apply notin10; reflexivity|vm_compute; discriminate].
    + eapply Forall_concat_map; [apply render_sop_ok|exact F].
Qed.

(* a concrete document: add, update with move and two hunks, delete *)
Require Import Coq.Strings.String.
Definition demo_ops : list sop :=
  [SAdd (bs "dir/new.txt") [bs "first"; []; bs "  third "];
   SUpd (bs "a.txt") (Some (bs "b/c.txt")) [{| h_before := [bs "one"]; h_after := [bs "ONE"; bs "one and a half"] |};
                                             {| h_before := []; h_after := [bs "tail"] |}];
   SDel (bs "old.txt")].
Lemma demo_ok : Forall sop_ok demo_ops.
Proof.
  assert (LO : forall s, existsb (N.eqb 10) (bs s) = false -> last (bs s) 0 <> 13 -> line_ok (bs s))
    by (intros s H1 H2; split; [apply notin10; exact H1|exact H2]).
  repeat constructor; try (apply notin10; reflexivity); try (vm_compute; discriminate); try discriminate.
Qed.
