(* C18 — the corrupt-lock grace timer: a cleanup fires only after the lock at the path has been seen invalid at EVERY poll
   of a window longer than the grace period (and, when instances only change observably, it is one and the same lock
   instance); a lock that became readable resets the timer.  For every step table with the reset statements; refuted for
   the table without the reset in the readable arm (3-phase witness) and without the reset in the Ok(None) arm. *)
From RipV Require Import Base.Prelude Model.Authority Model.AuthorityGrace.

Definition dflt : tobs := {| t_now := 0; t_seen := SAbsent; t_inst := 0; t_cleaned := false |}.
Definition fired (fs : list bool) (i : nat) : bool := nth i fs false.

(* every observation that is not "invalid" forgets the timer *)
Definition obs_ok (g : gtable) (obs : list tobs) : Prop :=
  forall o, In o obs -> t_seen o = SInvalid \/ resets g (t_seen o) = true.

(* polls j..k: all saw an invalid lock, none of them (before k) ended in a successful cleanup, and the clock moved by
   more than the grace period between poll j and poll k *)
Definition window (g : gtable) (obs : list tobs) (fs : list bool) (j k : nat) : Prop :=
  (j <= k)%nat
  /\ expired g (t_now (nth k obs dflt) - t_now (nth j obs dflt)) = true
  /\ forall i, (j <= i <= k)%nat ->
       t_seen (nth i obs dflt) = SInvalid
       /\ ((i < k)%nat -> fired fs i && t_cleaned (nth i obs dflt) = false).

(* the lock instance at the path does not change between two consecutive polls that both see it invalid (unless the
   first of them cleaned it): a change of hands is OBSERVED — as absent, vanished, readable or through meta.json.  The
   schedules excluded here are those of the open finding S13b (another contender's corrupt cleanup plus a new exclusive
   create, both between two polls). *)
Definition stable (obs : list tobs) (fs : list bool) : Prop :=
  forall i, (S i < length obs)%nat ->
    t_seen (nth i obs dflt) = SInvalid -> t_seen (nth (S i) obs dflt) = SInvalid ->
    fired fs i && t_cleaned (nth i obs dflt) = false ->
    t_inst (nth i obs dflt) = t_inst (nth (S i) obs dflt).

Lemma timer_fire_invalid g since now s : snd (timer g since now s) = true -> s = SInvalid.
Proof. destruct s; cbn [timer snd]; congruence. Qed.

Lemma timer_run_cons g since o r :
  timer_run g since (o :: r) =
  (snd (timer g since (t_now o) (t_seen o))
     :: fst (timer_run g (after_cleanup g (fst (timer g since (t_now o) (t_seen o)))
                                          (snd (timer g since (t_now o) (t_seen o))) (t_cleaned o)) r),
   snd (timer_run g (after_cleanup g (fst (timer g since (t_now o) (t_seen o)))
                                     (snd (timer g since (t_now o) (t_seen o))) (t_cleaned o)) r)).
Proof.
  cbn [timer_run]. destruct (timer g since (t_now o) (t_seen o)) as [s1 f]. cbn [fst snd].
  destruct (timer_run g (after_cleanup g s1 f (t_cleaned o)) r) as [fs fin]. reflexivity.
Qed.

Lemma timer_window_gen g : g_reset_cleaned g = true ->
  forall obs since, obs_ok g obs ->
  forall k, (k < length obs)%nat -> fired (fst (timer_run g since obs)) k = true ->
  (exists j, window g obs (fst (timer_run g since obs)) j k)
  \/ (exists t, since = Some t
        /\ expired g (t_now (nth k obs dflt) - t) = true
        /\ forall i, (i <= k)%nat ->
             t_seen (nth i obs dflt) = SInvalid
             /\ ((i < k)%nat -> fired (fst (timer_run g since obs)) i && t_cleaned (nth i obs dflt) = false)).
Proof.
  intros Hrc obs. induction obs as [|o r IH]; intros since Hok k Hk Hf.
  - cbn [length] in Hk. lia.
  - rewrite timer_run_cons in *. cbn [fst] in *.
    set (s1 := fst (timer g since (t_now o) (t_seen o))) in *.
    set (f := snd (timer g since (t_now o) (t_seen o))) in *.
    set (since' := after_cleanup g s1 f (t_cleaned o)) in *.
    assert (Hokr : obs_ok g r) by (intros x Hx; apply Hok; right; exact Hx).
    destruct k as [|k'].
    + (* fires at the head *)
      unfold fired in Hf. cbn [nth] in Hf.
      assert (Hs : t_seen o = SInvalid) by (apply (timer_fire_invalid g since (t_now o)); exact Hf).
      unfold f in Hf. rewrite Hs in Hf. cbn [timer snd] in Hf.
      destruct since as [t|].
      * right. exists t. split; [reflexivity|]. split; [cbn [nth]; exact Hf|].
        intros i Hi. assert (i = 0)%nat by lia. subst i. cbn [nth]. split; [exact Hs | intros; lia].
      * left. exists 0%nat. unfold window. split; [lia|]. split; [cbn [nth]; exact Hf|].
        intros i Hi. assert (i = 0)%nat by lia. subst i. cbn [nth]. split; [exact Hs | intros; lia].
    + unfold fired in Hf. cbn [nth] in Hf. cbn [length] in Hk.
      destruct (IH since' Hokr k' ltac:(lia) Hf) as [[j Hw] | [t [Hst [Hex Hall]]]].
      * left. exists (S j). destruct Hw as [Hjk [He Hw]]. unfold window. split; [lia|]. split; [cbn [nth]; exact He|].
        intros i Hi. destruct i as [|i']; [lia|]. cbn [nth]. destruct (Hw i' ltac:(lia)) as [Ha Hb].
        split; [exact Ha|]. intros Hlt. unfold fired. cbn [nth]. apply Hb. lia.
      * (* the timer was already running when the tail started: the head saw an invalid lock too *)
        assert (Hs : t_seen o = SInvalid).
        { destruct (Hok o (or_introl eq_refl)) as [Hs | Hr]; [exact Hs | exfalso].
          unfold since', s1, f in Hst. destruct (t_seen o); cbn [timer fst snd resets] in *;
            try rewrite Hr in Hst; unfold after_cleanup in Hst; cbn [andb] in Hst; congruence. }
        assert (Hnc : f && t_cleaned o = false).
        { destruct (f && t_cleaned o) eqn:E; [exfalso | reflexivity].
          unfold since', after_cleanup in Hst. rewrite E, Hrc in Hst. cbn [andb] in Hst. congruence. }
        assert (Hs1 : since' = s1).
        { unfold since', after_cleanup. rewrite Hnc. reflexivity. }
        rewrite Hs1 in Hst. unfold s1 in Hst. rewrite Hs in Hst. cbn [timer fst] in Hst.
        assert (Hrest : forall i, (i <= S k')%nat ->
                   t_seen (nth i (o :: r) dflt) = SInvalid
                   /\ ((i < S k')%nat -> fired (f :: fst (timer_run g since' r)) i && t_cleaned (nth i (o :: r) dflt) = false)).
        { intros i Hi. destruct i as [|i']; cbn [nth].
          - split; [exact Hs | intros _; unfold fired; cbn [nth]; exact Hnc].
          - destruct (Hall i' ltac:(lia)) as [Ha Hb]. split; [exact Ha|]. intros Hlt. unfold fired. cbn [nth]. apply Hb. lia. }
        destruct since as [t0|].
        -- right. exists t0. split; [reflexivity|]. inversion Hst; subst t. split; [cbn [nth]; exact Hex | exact Hrest].
        -- left. exists 0%nat. inversion Hst; subst t. unfold window. split; [lia|]. split; [cbn [nth]; exact Hex|].
           intros i Hi. apply Hrest. lia.
Qed.

Lemma window_same_inst g obs fs j k :
  window g obs fs j k -> stable obs fs -> (k < length obs)%nat ->
  forall i, (j <= i <= k)%nat -> t_inst (nth i obs dflt) = t_inst (nth k obs dflt).
Proof.
  intros [Hjk [_ Hw]] Hst Hk i Hi.
  remember (k - i)%nat as d eqn:Hd. revert i Hi Hd.
  induction d as [|d IH]; intros i Hi Hd.
  - assert (i = k) by lia. subst i. reflexivity.
  - rewrite (Hst i ltac:(lia)).
    + apply IH; lia.
    + apply (Hw i); lia.
    + apply (Hw (S i)); lia.
    + apply (Hw i); lia.
Qed.

(* ---- the timer theorem, any table with the reset after a successful cleanup and a reset for every non-invalid
   observation that occurs, any observation stream, any clock *)
Theorem timer_fires_only_after_grace g obs :
  g_reset_cleaned g = true -> obs_ok g obs ->
  forall k, (k < length obs)%nat -> fired (fst (timer_run g None obs)) k = true ->
  exists j, window g obs (fst (timer_run g None obs)) j k
            /\ (stable obs (fst (timer_run g None obs)) ->
                forall i, (j <= i <= k)%nat -> t_inst (nth i obs dflt) = t_inst (nth k obs dflt)).
Proof.
  intros Hrc Hok k Hk Hf.
  destruct (timer_window_gen g Hrc obs None Hok k Hk Hf) as [[j Hw] | [t [Hc _]]]; [|congruence].
  exists j. split; [exact Hw|]. intros Hst. exact (window_same_inst g obs _ j k Hw Hst Hk).
Qed.

(* a lock that became readable (or absent, or hidden behind a meta.json ...) forgets the timer *)
Lemma timer_reset g since now s : s <> SInvalid -> resets g s = true -> timer g since now s = (None, false).
Proof. intros Hs Hr. destruct s; cbn [timer resets] in *; try rewrite Hr; try reflexivity. congruence. Qed.

(* ------------------------------------------------------------------ the client loop *)
Definition pdflt : pollin := {| pi_now := 0; pi_lock := None; pi_meta := MAbsent; pi_reach := false; pi_vanish := false |}.

Lemma client_poll_since g live st p :
  cs_since (po_state (client_poll g live st p)) =
    after_cleanup g (fst (timer g (cs_since st) (pi_now p) (poll_seen p)))
                    (snd (timer g (cs_since st) (pi_now p) (poll_seen p))) (t_cleaned (poll_tobs live p))
  /\ (forall c, po_act (client_poll g live st p) = ACorrupt c ->
        snd (timer g (cs_since st) (pi_now p) (poll_seen p)) = true).
Proof.
  unfold client_poll, poll_tobs. cbn [t_cleaned].
  destruct (timer g (cs_since st) (pi_now p) (poll_seen p)) as [s1 fire] eqn:Et. cbn [fst snd].
  assert (Hnf : poll_seen p <> SInvalid -> fire = false).
  { intros Hn. destruct (poll_seen p); cbn [timer] in Et; inversion Et; try reflexivity. congruence. }
  unfold poll_seen in *. unfold may_spawn.
  destruct (pi_meta p) as [|mp] eqn:Em.
  - destruct (pi_lock p) as [f|] eqn:El.
    + destruct (pi_vanish p) eqn:Ev.
      * rewrite (Hnf ltac:(congruence)). cbn. split; [reflexivity | intros; congruence].
      * destruct (lf_written f) eqn:Ew.
        -- rewrite (Hnf ltac:(congruence)). destruct (live (lf_owner f)); cbn.
           ++ split; [reflexivity | intros; congruence].
           ++ rewrite Ew, N.eqb_refl. cbn. split; [reflexivity | intros; congruence].
        -- destruct fire; cbn; (split; [reflexivity | intros; congruence]).
    + rewrite (Hnf ltac:(congruence)).
      destruct (cs_spawned st) as [t|]; [destruct (cooldown_ms <? pi_now p - t)|]; cbn;
        (split; [reflexivity | intros; congruence]).
  - rewrite (Hnf ltac:(congruence)). unfold after_cleanup. cbn [andb].
    destruct (pi_reach p); [cbn; split; [reflexivity | intros; congruence]|].
    destruct (live mp); [cbn; split; [reflexivity | intros; congruence]|].
    destruct (pi_lock p) as [f|].
    + unfold stale_effect. destruct (lf_written f && (lf_owner f =? mp)); cbn; (split; [reflexivity | intros; congruence]).
    + destruct (cs_spawned st) as [t|]; [destruct (cooldown_ms <? pi_now p - t)|]; cbn;
        (split; [reflexivity | intros; congruence]).
Qed.

Lemma client_all_fired g live : forall polls st k o c,
  nth_error (client_all g live st polls) k = Some o -> po_act o = ACorrupt c ->
  fired (fst (timer_run g (cs_since st) (map (poll_tobs live) polls))) k = true.
Proof.
  induction polls as [|p r IH]; intros st k o c Hn Ha.
  - destruct k; cbn in Hn; congruence.
  - cbn [map]. rewrite timer_run_cons. cbn [fst]. cbn [client_all] in Hn.
    destruct (client_poll_since g live st p) as [Hs Hc].
    destruct k as [|k']; cbn [nth_error] in Hn.
    + inversion Hn; subst o. unfold fired. cbn [nth]. cbn [poll_tobs t_now t_seen]. exact (Hc c Ha).
    + unfold fired. cbn [nth].
      specialize (IH (po_state (client_poll g live st p)) k' o c Hn Ha).
      rewrite Hs in IH. cbn [poll_tobs t_now t_seen t_cleaned] in *. exact IH.
Qed.

Lemma client_run_prefix g live : forall polls st k o,
  nth_error (client_run g live st polls) k = Some o -> nth_error (client_all g live st polls) k = Some o.
Proof.
  induction polls as [|p r IH]; intros st k o Hn; [destruct k; cbn in Hn; congruence|].
  cbn [client_run client_all] in *. destruct k as [|k']; cbn [nth_error] in *; [exact Hn|].
  destruct (terminal (client_poll g live st p)); [destruct k'; cbn in Hn; congruence|].
  apply IH. exact Hn.
Qed.

Lemma client_run_length g live : forall polls st, (length (client_run g live st polls) <= length polls)%nat.
Proof.
  induction polls as [|p r IH]; intros st; cbn [client_run length]; [lia|].
  destruct (terminal (client_poll g live st p)); cbn [length]; [lia|]. specialize (IH (po_state (client_poll g live st p))). lia.
Qed.

Lemma wf_client_obs_ok g live polls : table_wf_client g = true -> obs_ok g (map (poll_tobs live) polls).
Proof.
  unfold table_wf_client. intros H. repeat (apply andb_true_iff in H; destruct H as [H ?]).
  intros o _. destruct (t_seen o); cbn [resets]; auto.
Qed.

(* polls j..k of a client run: no meta.json, a lock.json that is there and unwritten, at every one of them *)
Definition invalid_window (g : gtable) (polls : list pollin) (j k : nat) : Prop :=
  (j <= k)%nat
  /\ expired g (pi_now (nth k polls pdflt) - pi_now (nth j polls pdflt)) = true
  /\ forall i, (j <= i <= k)%nat -> poll_seen (nth i polls pdflt) = SInvalid.

Definition inst_of (p : pollin) : N := match pi_lock p with Some f => lf_inst f | None => 0 end.
(* two consecutive polls that both see an invalid lock see the same instance, unless the first one cleaned it *)
Definition stable_polls (g : gtable) (live : pid -> bool) (polls : list pollin) : Prop :=
  stable (map (poll_tobs live) polls) (fst (timer_run g None (map (poll_tobs live) polls))).

Lemma nth_map_tobs live polls i : (i < length polls)%nat ->
  nth i (map (poll_tobs live) polls) dflt = poll_tobs live (nth i polls pdflt).
Proof. intros Hi. rewrite (nth_indep _ dflt (poll_tobs live pdflt)) by (rewrite map_length; exact Hi). apply map_nth. Qed.

Theorem client_grace_resets g live polls :
  table_wf_client g = true ->
  forall k o c, nth_error (client_run g live cstate0 polls) k = Some o -> po_act o = ACorrupt c ->
  exists j, invalid_window g polls j k
            /\ (stable_polls g live polls ->
                forall i, (j <= i <= k)%nat -> inst_of (nth i polls pdflt) = inst_of (nth k polls pdflt)).
Proof.
  intros Hwf k o c Hn Ha.
  assert (Hk : (k < length polls)%nat).
  { pose proof (client_run_length g live polls cstate0). apply nth_error_Some_lt in Hn || idtac.
    assert (k < length (client_run g live cstate0 polls))%nat by (apply nth_error_Some; congruence). lia. }
  pose proof (client_all_fired g live polls cstate0 k o c (client_run_prefix g live polls cstate0 k o Hn) Ha) as Hf.
  cbn [cstate0 cs_since] in Hf.
  assert (Hrc : g_reset_cleaned g = true).
  { unfold table_wf_client in Hwf. apply andb_true_iff in Hwf. tauto. }
  destruct (timer_fires_only_after_grace g (map (poll_tobs live) polls) Hrc (wf_client_obs_ok g live polls Hwf) k
              ltac:(rewrite map_length; exact Hk) Hf) as [j [[Hjk [He Hw]] Hsame]].
  exists j. split.
  - unfold invalid_window. split; [exact Hjk|]. split.
    + rewrite !nth_map_tobs in He by lia. exact He.
    + intros i Hi. destruct (Hw i Hi) as [Hs _]. rewrite nth_map_tobs in Hs by lia. exact Hs.
  - intros Hst i Hi. specialize (Hsame Hst i Hi). rewrite !nth_map_tobs in Hsame by lia. exact Hsame.
Qed.

(* a poll that sees a readable lock leaves lock_invalid_since = None *)
Lemma client_readable_resets g live st p :
  g_reset_readable g = true -> poll_seen p = SReadable ->
  cs_since (po_state (client_poll g live st p)) = None.
Proof.
  intros Hr Hs. destruct (client_poll_since g live st p) as [H _]. rewrite H, Hs.
  cbn [timer resets fst snd]. rewrite Hr. reflexivity.
Qed.

(* ------------------------------------------------------------------ refutations *)
(* C18-6: the table without the reset in the "lock readable" arm.  The seeder's three phases in one client wait:
   starter X (pid 101) has created lock.json and not written it yet; X's record is readable for 1.5 s; the lock changes
   hands (observed: X's record, then Y's file) and the client reads starter Y's (pid 102) still-empty lock — and
   cleans it at once. *)
Definition no_readable_reset : gtable :=
  {| g_reset_meta := true; g_reset_readable := false; g_reset_absent := true; g_reset_vanished := true;
     g_reset_cleaned := true; g_grace_ms := 1000; g_strict := true |}.
Definition lock_of (inst : N) (owner : pid) (written : bool) : option lfile :=
  Some {| lf_inst := inst; lf_owner := owner; lf_written := written |}.
Definition poll_at (now : N) (l : option lfile) : pollin :=
  {| pi_now := now; pi_lock := l; pi_meta := MAbsent; pi_reach := false; pi_vanish := false |}.
Definition three_phase : list pollin :=
  [poll_at 0 (lock_of 1 101 false); poll_at 20 (lock_of 1 101 false);
   poll_at 700 (lock_of 1 101 true); poll_at 1400 (lock_of 1 101 true); poll_at 2200 (lock_of 1 101 true);
   poll_at 2400 (lock_of 2 102 false)].
Definition both_live (p : pid) : bool := (p =? 101) || (p =? 102).

Lemma three_phase_acts_unfixed :
  map po_act (client_run no_readable_reset both_live cstate0 three_phase) = [ANone; ANone; ANone; ANone; ANone; ACorrupt true].
Proof. vm_compute. reflexivity. Qed.
Lemma three_phase_acts :
  map po_act (client_run full_table both_live cstate0 three_phase) = [ANone; ANone; ANone; ANone; ANone; ANone].
Proof. vm_compute. reflexivity. Qed.

Lemma three_phase_stable g : stable_polls g both_live three_phase.
Proof.
  unfold stable_polls, stable. intros i Hi H1 H2 _.
  cbn [three_phase map length] in Hi.
  do 6 (destruct i as [|i]; [vm_compute in H1, H2 |- *; try reflexivity; try congruence|]). lia.
Qed.

Lemma client_grace_resets_needs_readable_reset :
  exists o, nth_error (client_run no_readable_reset both_live cstate0 three_phase) 5 = Some o
    /\ po_act o = ACorrupt true
    /\ stable_polls no_readable_reset both_live three_phase
    /\ (forall j, ~ invalid_window no_readable_reset three_phase j 5)
    /\ po_lock o = None                                              (* the live starter's lock is gone *)
    /\ both_live 102 = true.
Proof.
  eexists. split; [vm_compute; reflexivity|]. split; [reflexivity|]. split; [apply three_phase_stable|].
  split; [|split; reflexivity].
  intros j [Hjk [He Hw]].
  destruct (Nat.eq_dec j 5) as [->|Hne].
  - vm_compute in He. congruence.
  - specialize (Hw 4%nat ltac:(lia)). vm_compute in Hw. congruence.
Qed.

(* S25: the table without the reset in the Ok(None) arm (both loops before the fix).  The client saw an unwritten lock,
   then saw that lock VANISH under its read (a second contender's corrupt cleanup), then — more than a second after the
   first poll — reads the fresh, still-empty lock of the live starter 102 and cleans it at once. *)
Definition no_vanished_reset : gtable :=
  {| g_reset_meta := true; g_reset_readable := true; g_reset_absent := true; g_reset_vanished := false;
     g_reset_cleaned := true; g_grace_ms := 1000; g_strict := true |}.
Definition vanish_at (now : N) (l : option lfile) : pollin :=
  {| pi_now := now; pi_lock := l; pi_meta := MAbsent; pi_reach := false; pi_vanish := true |}.
Definition vanished_witness : list pollin :=
  [poll_at 0 (lock_of 1 900 false); vanish_at 600 (lock_of 1 900 false); poll_at 1100 (lock_of 2 102 false)].

Lemma vanished_acts_unfixed :
  map po_act (client_run no_vanished_reset both_live cstate0 vanished_witness) = [ANone; ANone; ACorrupt true].
Proof. vm_compute. reflexivity. Qed.
Lemma vanished_acts :
  map po_act (client_run full_table both_live cstate0 vanished_witness) = [ANone; ANone; ANone].
Proof. vm_compute. reflexivity. Qed.

Lemma client_grace_resets_needs_vanished_reset :
  exists o, nth_error (client_run no_vanished_reset both_live cstate0 vanished_witness) 2 = Some o
    /\ po_act o = ACorrupt true
    /\ stable_polls no_vanished_reset both_live vanished_witness
    /\ (forall j, ~ invalid_window no_vanished_reset vanished_witness j 2)
    /\ po_lock o = None.
Proof.
  eexists. split; [vm_compute; reflexivity|]. split; [reflexivity|]. split.
  - unfold stable_polls, stable. intros i Hi H1 H2 _. cbn [vanished_witness map length] in Hi.
    do 3 (destruct i as [|i]; [vm_compute in H1, H2 |- *; try reflexivity; try congruence|]). lia.
  - split; [|reflexivity]. intros j [Hjk [He Hw]].
    destruct (Nat.eq_dec j 2) as [->|Hne].
    + vm_compute in He. congruence.
    + specialize (Hw 1%nat ltac:(lia)). vm_compute in Hw. congruence.
Qed.

(* non-vacuity: a run in which the cleanup does fire, legitimately *)
Definition dead_half : list pollin :=
  [poll_at 0 (lock_of 1 900 false); poll_at 500 (lock_of 1 900 false); poll_at 1001 (lock_of 1 900 false)].
Lemma client_grace_example :
  map po_act (client_run full_table both_live cstate0 dead_half) = [ANone; ANone; ACorrupt true]
  /\ invalid_window full_table dead_half 0 2 /\ table_wf_client full_table = true
  /\ stable_polls full_table both_live dead_half.
Proof.
  split; [vm_compute; reflexivity|]. split.
  - unfold invalid_window. split; [lia|]. split; [vm_compute; reflexivity|].
    intros i Hi. do 3 (destruct i as [|i]; [vm_compute; reflexivity|]). lia.
  - split; [reflexivity|]. unfold stable_polls, stable. intros i Hi _ _ _. cbn [dead_half map length] in Hi.
    do 2 (destruct i as [|i]; [vm_compute; reflexivity|]). lia.
Qed.

(* ------------------------------------------------------------------ the server loop's timer *)
(* acquire_authority_lock_with_recovery never branches on "meta.json seen": its polls see absent / vanished (both Ok(None)),
   readable or invalid *)
Lemma wf_server_obs_ok g obs :
  table_wf_server g = true -> (forall o, In o obs -> t_seen o <> SMeta) -> obs_ok g obs.
Proof.
  unfold table_wf_server. intros H Hm. repeat (apply andb_true_iff in H; destruct H as [H ?]).
  intros o Ho. specialize (Hm o Ho). destruct (t_seen o); cbn [resets]; auto.
Qed.

Theorem server_timer_fires_only_after_grace g obs :
  table_wf_server g = true -> (forall o, In o obs -> t_seen o <> SMeta) ->
  forall k, (k < length obs)%nat -> fired (fst (timer_run g None obs)) k = true ->
  exists j, window g obs (fst (timer_run g None obs)) j k
            /\ (stable obs (fst (timer_run g None obs)) ->
                forall i, (j <= i <= k)%nat -> t_inst (nth i obs dflt) = t_inst (nth k obs dflt)).
Proof.
  intros Hwf Hm. apply timer_fires_only_after_grace; [|exact (wf_server_obs_ok g obs Hwf Hm)].
  unfold table_wf_server in Hwf. apply andb_true_iff in Hwf. tauto.
Qed.

(* the server table before the fix (no reset in the Ok(None) arm): invalid lock, lock gone (Ok(None)), then — within the same
   call — the fresh empty lock of a starter that won the exclusive create before this loop's next try_acquire *)
Definition server_table_unfixed : gtable :=
  {| g_reset_meta := false; g_reset_readable := true; g_reset_absent := false; g_reset_vanished := false;
     g_reset_cleaned := true; g_grace_ms := 1000; g_strict := true |}.
Definition server_vanished_obs : list tobs :=
  [ {| t_now := 0; t_seen := SInvalid; t_inst := 1; t_cleaned := true |};
    {| t_now := 1020; t_seen := SAbsent; t_inst := 0; t_cleaned := false |};
    {| t_now := 1040; t_seen := SInvalid; t_inst := 2; t_cleaned := true |} ].
Lemma server_timer_needs_absent_reset :
  fst (timer_run server_table_unfixed None server_vanished_obs) = [false; false; true]
  /\ fst (timer_run full_table None server_vanished_obs) = [false; false; false]
  /\ (forall j, ~ window server_table_unfixed server_vanished_obs (fst (timer_run server_table_unfixed None server_vanished_obs)) j 2).
Proof.
  split; [vm_compute; reflexivity|]. split; [vm_compute; reflexivity|].
  intros j [Hjk [He Hw]]. destruct (Nat.eq_dec j 2) as [->|Hne].
  - vm_compute in He. congruence.
  - destruct (Hw 1%nat ltac:(lia)) as [Hs _]. vm_compute in Hs. congruence.
Qed.

(* ------------------------------------------------------------------ two independent signals: the ping comes first *)
(* An authority whose endpoint answers is not gone, WHATEVER the pid probe says about the pid in meta.json (`live` is
   universally quantified: a client in another pid namespace sees every pid of the authority's namespace as dead): the
   poll returns Ok(endpoint) and leaves lock.json and meta.json alone.  For every table and every client state. *)
Theorem client_answering_authority_untouched g live st p mp :
  pi_meta p = MRec mp -> pi_reach p = true ->
  po_act (client_poll g live st p) = AOk
  /\ po_lock (client_poll g live st p) = pi_lock p
  /\ po_meta (client_poll g live st p) = MRec mp.
Proof.
  intros Hm Hr. unfold client_poll.
  assert (Hs : poll_seen p = SMeta) by (unfold poll_seen; rewrite Hm; reflexivity).
  rewrite Hs. destruct (timer g (cs_since st) (pi_now p) SMeta) as [s1 fire]. rewrite Hm, Hr. cbn. auto.
Qed.

(* seeded change C18-7 ("probe the pid first, ping only when it is not Dead") = the loop with the ping answer ignored when
   the probe says Dead *)
Definition no_reach (p : pollin) : pollin :=
  {| pi_now := pi_now p; pi_lock := pi_lock p; pi_meta := pi_meta p; pi_reach := false; pi_vanish := pi_vanish p |}.
Definition client_poll_probe_first (g : gtable) (live : pid -> bool) (st : cstate) (p : pollin) : pollout :=
  match pi_meta p with
  | MRec mp => if live mp then client_poll g live st p else client_poll g live st (no_reach p)
  | MAbsent => client_poll g live st p
  end.
(* authority 800 holds lock.json and meta.json and ANSWERS; the client cannot see pid 800 *)
Definition answering_poll : pollin :=
  {| pi_now := 0; pi_lock := Some {| lf_inst := 1; lf_owner := 800; lf_written := true |}; pi_meta := MRec 800;
     pi_reach := true; pi_vanish := false |}.
Definition other_namespace : pid -> bool := fun _ => false.
Lemma client_probe_first_takes_answering_authority :
  po_act (client_poll_probe_first full_table other_namespace cstate0 answering_poll) = AStale 800 true
  /\ po_lock (client_poll_probe_first full_table other_namespace cstate0 answering_poll) = None
  /\ po_meta (client_poll_probe_first full_table other_namespace cstate0 answering_poll) = MAbsent
  /\ po_act (client_poll full_table other_namespace cstate0 answering_poll) = AOk.
Proof. vm_compute. repeat split; reflexivity. Qed.
Lemma answering_example : pi_meta answering_poll = MRec 800 /\ pi_reach answering_poll = true.
Proof. split; reflexivity. Qed.
