(* C12 — atomicity of Workspace::apply_patch (the code after fix 6739939): whatever operation fails
   at whatever point, reverting the first-seen undo list restores every file.
   Invariant C between operations; `expect` = what the revert will produce. *)
From RipV Require Import Base.Prelude Base.Fs Model.Patch Proofs.FsProofs.
Open Scope N_scope.
Open Scope list_scope.

Notation entry := (list N * option bytes)%type.
Definition ekey (e : entry) : path := comps (fst e).
Definition keys (u : list entry) : list path := map ekey u.
Definition sunder (k q : path) : Prop := exists s, q = k ++ s /\ s <> [].

Fixpoint expect (u : list entry) (f : fs) (p : path) : option bytes :=
  match u with
  | [] => file_at f p
  | e :: r => if path_eqb (ekey e) p then snd e else expect r f p
  end.

Definition C (f : fs) (u : list entry) : Prop :=
  fs_wf f /\ NoDup (keys u) /\
  (forall e, In e u -> clean (fst e) /\ pdirs f [] (ekey e)) /\
  (forall u1 raw b u2, u = u1 ++ (raw, Some b) :: u2 ->
     (forall e, In e u1 -> ~ sunder (comps raw) (ekey e)) /\
     (forall e, In e u2 -> sunder (comps raw) (ekey e) -> snd e = None) /\
     (forall q, sunder (comps raw) q -> file_at f q <> None -> In q (keys u))).

Lemma keys_app u v : keys (u ++ v) = keys u ++ keys v.
Proof. apply map_app. Qed.

Lemma seen_iff u k : seen u k = true <-> In k (keys u).
Proof.
  unfold seen, keys. rewrite existsb_exists, in_map_iff. split.
  - intros [e [I H]]. apply path_eqb_eq in H. exists e. split; [exact H|exact I].
  - intros [e [H I]]. exists e. split; [exact I|]. apply path_eqb_eq. exact H.
Qed.
Lemma seen_false u k : seen u k = false <-> ~ In k (keys u).
Proof. rewrite <- seen_iff. destruct (seen u k); split; congruence. Qed.

Lemma sunder_irrefl k : ~ sunder k k.
Proof. intros [s [E Hs]]. symmetry in E. revert E. apply app_nonnil_r. exact Hs. Qed.

Lemma file_at_set f k b q : k <> [] ->
  file_at (set f k (File b)) q = if path_eqb k q then Some b else file_at f q.
Proof. intros Hk. unfold file_at. rewrite lookup_set by exact Hk. destruct (path_eqb k q); reflexivity. Qed.
Lemma file_at_unset f k q : k <> [] ->
  file_at (unset f k) q = if path_eqb k q then None else file_at f q.
Proof. intros Hk. unfold file_at. rewrite lookup_unset by exact Hk. destruct (path_eqb k q); reflexivity. Qed.

(* ---------- expect ---------- *)
Lemma expect_cong u f g p : (~ In p (keys u) -> file_at g p = file_at f p) -> expect u g p = expect u f p.
Proof.
  induction u as [|e u IH]; cbn [expect keys map In]; intros H; [apply H; tauto|].
  destruct (path_eqb (ekey e) p) eqn:E; [reflexivity|]. peq. apply IH. intros N. apply H. intros [A|A]; [congruence|contradiction].
Qed.

Lemma expect_snoc u e f g p :
  file_at g p = (if path_eqb (ekey e) p then snd e else file_at f p) ->
  expect (u ++ [e]) f p = expect u g p.
Proof.
  intros H. induction u as [|a u IH]; cbn [expect app].
  - rewrite H. reflexivity.
  - destruct (path_eqb (ekey a) p); [reflexivity|exact IH].
Qed.

Lemma expect_snoc_eq u e f f' p :
  snd e = file_at f (ekey e) ->
  (~ In p (keys u) -> p <> ekey e -> file_at f' p = file_at f p) ->
  expect (u ++ [e]) f' p = expect u f p.
Proof.
  intros V H. induction u as [|a u IH]; cbn [expect app keys map In] in *.
  - destruct (path_eqb (ekey e) p) eqn:E; peq; [subst; exact V|]. apply H; [tauto|congruence].
  - destruct (path_eqb (ekey a) p) eqn:E; [reflexivity|]. peq. apply IH. intros N D. apply H; [|exact D].
    intros [A|A]; [congruence|contradiction].
Qed.

(* ---------- changing the file system under an unchanged undo list ---------- *)
Lemma C_same f u f' : C f u -> fs_wf f' -> dirs_le f f' ->
  (forall q, file_at f' q <> None -> file_at f q <> None \/ In q (keys u)) -> C f' u.
Proof.
  intros [W [ND [CL C3]]] W' D F. split; [exact W'|]. split; [exact ND|]. split.
  - intros e I. destruct (CL e I) as [A B]. split; [exact A|]. eapply pdirs_mono; eassumption.
  - intros u1 raw b u2 E. destruct (C3 u1 raw b u2 E) as [O [B A]]. split; [exact O|]. split; [exact B|].
    intros q S N. destruct (F q N) as [N'|I]; [apply A; assumption|exact I].
Qed.

Definition R (u : list entry) (f g : fs) : Prop :=
  fs_wf g /\ dirs_le f g /\ (forall q, ~ In q (keys u) -> file_at g q = file_at f q).

Lemma in_keys_dec q u : In q (keys u) \/ ~ In q (keys u).
Proof. rewrite <- seen_iff. destruct (seen u q); [left; reflexivity|right; discriminate]. Qed.

Lemma C_mono f u g : C f u -> R u f g -> C g u.
Proof.
  intros HC [W [D F]]. eapply C_same; try eassumption.
  intros q N. destruct (in_keys_dec q u) as [I|I]; [right; exact I|left]. rewrite <- (F q I). exact N.
Qed.

(* ---------- peeling the last undo entry ---------- *)
Lemma C_snoc_parts f u e : C f (u ++ [e]) ->
  fs_wf f /\ NoDup (keys u) /\ ~ In (ekey e) (keys u) /\ clean (fst e) /\ pdirs f [] (ekey e).
Proof.
  intros [W [ND [CL _]]]. rewrite keys_app in ND. cbn [keys map] in ND.
  split; [exact W|]. split; [apply NoDup_remove_1 in ND; rewrite app_nil_r in ND; exact ND|].
  split; [apply NoDup_remove_2 in ND; rewrite app_nil_r in ND; exact ND|].
  apply CL. apply in_or_app. right. left. reflexivity.
Qed.

Lemma C_peel_generic f u e g : C f (u ++ [e]) -> fs_wf g ->
  (forall e', In e' u -> pdirs g [] (ekey e')) ->
  (forall p, file_at g p = if path_eqb (ekey e) p then snd e else file_at f p) ->
  C g u.
Proof.
  intros HC W' PD FA. pose proof (C_snoc_parts _ _ _ HC) as [W [ND [NI _]]].
  destruct HC as [_ [_ [CL C3]]].
  split; [exact W'|]. split; [exact ND|]. split.
  - intros e' I. split; [|apply PD; exact I]. apply (CL e'). apply in_or_app. left. exact I.
  - intros u1 raw b u2 E.
    destruct (C3 u1 raw b (u2 ++ [e])) as [O [B A]]; [rewrite E, <- app_assoc; reflexivity|].
    split; [exact O|]. split; [intros e' I; apply B; apply in_or_app; left; exact I|].
    intros q S N. rewrite FA in N. destruct (path_eqb (ekey e) q) eqn:EQ; peq.
    + exfalso. subst q. apply N. apply B; [apply in_or_app; right; left; reflexivity|exact S].
    + specialize (A q S N). rewrite keys_app in A. apply in_app_or in A. destruct A as [A|[A|[]]]; [exact A|congruence].
Qed.

Lemma os_prune_is_prune f raw : pre_err f (mk_tgt [] raw) = None ->
  os_prune_dirs f (mk_tgt [] raw) = prune_dirs f (comps raw).
Proof.
  intros PE. unfold os_prune_dirs, os_is_dir. rewrite PE. cbn [mk_tgt t_path t_base t_comps app].
  destruct (is_dir f (comps raw)) eqn:ID; [reflexivity|].
  unfold prune_dirs. destruct (comps raw); [reflexivity|]. rewrite ID. reflexivity.
Qed.

(* restoring a recorded file on a state where its path is free of directories *)
Lemma restore_plain f raw b : fs_wf f -> clean raw -> pdirs f [] (comps raw) -> lookup f (comps raw) <> Some Dir ->
  revert_one true [] f (raw, Some b) = set f (comps raw) (File b).
Proof.
  intros W CLN PD L. destruct CLN as [NU [TR [NM KN]]].
  unfold revert_one, tg. cbn [fst snd].
  rewrite os_prune_is_prune by (apply pre_err_none; auto).
  assert (P : prune_dirs f (comps raw) = f).
  { unfold prune_dirs. destruct (comps raw) as [|c k] eqn:K; [reflexivity|].
    unfold is_dir. destruct (lookup f (c :: k)) as [[x|]|]; [reflexivity|congruence|reflexivity]. }
  rewrite P. rewrite mk_parent_dirs_noop by assumption. cbn [fst].
  rewrite os_write_succeeds; [reflexivity|repeat split; assumption|exact PD|exact L].
Qed.

Lemma prefix_not_under (k x s' w : path) : k = x ++ s' -> s' <> [] -> x <> k ++ w.
Proof.
  intros E Hs X. rewrite X in E. rewrite <- app_assoc in E. symmetry in E. revert E. apply app_nonnil_r.
  intros Z. apply app_eq_nil in Z. destruct Z; contradiction.
Qed.

Lemma C_peel f u e : C f (u ++ [e]) ->
  let g := revert_one true [] f e in
  C g u /\ forall p, file_at g p = if path_eqb (ekey e) p then snd e else file_at f p.
Proof.
  intros HC. pose proof (C_snoc_parts _ _ _ HC) as [W [ND [NI [CLN PD]]]].
  destruct e as [raw v]. unfold ekey in *. cbn [fst snd] in *.
  pose proof CLN as [NU [TR [NM KN]]].
  assert (PE : pre_err f (mk_tgt [] raw) = None) by (apply pre_err_none; auto).
  assert (OLD : forall e', In e' u -> clean (fst e') /\ pdirs f [] (ekey e')).
  { intros e' I. pose proof HC as [_ [_ [CL _]]]. apply CL. apply in_or_app. left. exact I. }
  destruct v as [b|].
  - (* restore a file *)
    pose proof HC as [_ [_ [_ C3]]].
    destruct (C3 u raw b [] eq_refl) as [O [_ A]].
    cbn zeta. unfold revert_one, tg. cbn [fst snd]. rewrite os_prune_is_prune by exact PE.
    destruct (prune_dirs_spec f (comps raw) W KN) as [W1 [FE [DK [DS NF]]]].
    set (f1 := prune_dirs f (comps raw)) in *.
    assert (NOSUB : forall s, s <> [] -> file_at f (comps raw ++ s) = None).
    { intros s Hs. destruct (file_at f (comps raw ++ s)) eqn:FA; [|reflexivity]. exfalso.
      assert (I : In (comps raw ++ s) (keys (u ++ [(raw, Some b)]))).
      { apply A; [exists s; split; [reflexivity|exact Hs]|congruence]. }
      rewrite keys_app in I. apply in_app_or in I. destruct I as [I|[I|[]]].
      - unfold keys in I. apply in_map_iff in I. destruct I as [e' [E I]].
        apply (O e' I). exists s. split; [exact E|exact Hs].
      - unfold ekey in I. cbn [fst] in I. symmetry in I. revert I. apply app_nonnil_r. exact Hs. }
    assert (L1 : lookup f1 (comps raw) <> Some Dir).
    { destruct (lookup f (comps raw)) as [[x|]|] eqn:L0.
      - intros L. apply DS in L. congruence.
      - apply NF. intros s. destruct s as [|s0 s]; [rewrite app_nil_r; unfold file_at; rewrite L0; reflexivity|].
        apply NOSUB. discriminate.
      - intros L. apply DS in L. congruence. }
    assert (PD1 : pdirs f1 [] (comps raw)).
    { intros x s E Hx Hs. cbn [app]. apply DK; [apply (PD x s E Hx Hs)|].
      intros w. eapply prefix_not_under; eassumption. }
    rewrite mk_parent_dirs_noop by assumption. cbn [fst].
    rewrite os_write_succeeds; [|exact CLN|exact PD1|exact L1]. cbn [ign].
    assert (FA : forall p, file_at (set f1 (comps raw) (File b)) p = if path_eqb (comps raw) p then Some b else file_at f p).
    { intros p. rewrite file_at_set by exact KN. rewrite (FE p). reflexivity. }
    split; [|exact FA].
    apply (C_peel_generic f u (raw, Some b)).
    + exact HC.
    + apply wf_set_file; assumption.
    + intros e' I x s E Hx Hs. cbn [app]. destruct (OLD e' I) as [_ PD'].
      rewrite lookup_set_other; [|exact KN|].
      * apply DK; [apply (PD' x s E Hx Hs)|]. intros w X. apply (O e' I). exists (w ++ s).
        split; [rewrite E, X, app_assoc; reflexivity|]. intros Z. apply app_eq_nil in Z. destruct Z; contradiction.
      * intros X. apply (O e' I). exists s. split; [rewrite E, X; reflexivity|exact Hs].
    + exact FA.
  - (* remove an added file *)
    cbn zeta. unfold revert_one, tg. cbn [fst snd].
    destruct (os_remove_file f (mk_tgt [] raw)) as [g|err] eqn:RM; cbn [ign].
    + apply os_remove_ok in RM. destruct RM as [_ [_ [[b0 L0] ->]]].
      assert (FA : forall p, file_at (unset f (comps raw)) p = if path_eqb (comps raw) p then None else file_at f p)
        by (intros p; apply file_at_unset; exact KN).
      split; [|exact FA].
      apply (C_peel_generic f u (raw, None)); [exact HC|eapply wf_unset_file; eassumption| |exact FA].
      intros e' I x s E Hx Hs. cbn [app]. destruct (OLD e' I) as [_ PD'].
      rewrite lookup_unset_other; [apply (PD' x s E Hx Hs)|exact KN|].
      intros X. subst x. specialize (PD' _ _ E Hx Hs). cbn [app] in PD'. congruence.
    + assert (FA : forall p, file_at f p = if path_eqb (comps raw) p then None else file_at f p).
      { intros p. destruct (path_eqb (comps raw) p) eqn:E; [|reflexivity]. peq. subst p.
        unfold os_remove_file in RM. rewrite PE in RM. cbn [mk_tgt t_path t_base t_comps t_trail app] in RM.
        unfold file_at. destruct (lookup f (comps raw)) as [[x|]|]; [|reflexivity|reflexivity].
        rewrite TR in RM. discriminate. }
      split; [|exact FA].
      apply (C_peel_generic f u (raw, None)); [exact HC|exact W| |exact FA].
      intros e' I. apply OLD. exact I.
Qed.

Lemma revert_snoc fx root f u e : revert fx root f (u ++ [e]) = revert fx root (revert_one fx root f e) u.
Proof. unfold revert. rewrite rev_app_distr. reflexivity. Qed.

Theorem revert_spec : forall u f, C f u -> forall p, file_at (revert true [] f u) p = expect u f p.
Proof.
  induction u as [|e u IH] using rev_ind; intros f HC p.
  - reflexivity.
  - rewrite revert_snoc. destruct (C_peel f u e HC) as [HC' FA].
    rewrite (IH _ HC' p). symmetry. apply expect_snoc. apply FA.
Qed.

Lemma revert_R f u g p : C f u -> R u f g -> file_at (revert true [] g u) p = expect u f p.
Proof.
  intros HC HR. rewrite (revert_spec u g (C_mono _ _ _ HC HR)).
  apply expect_cong. destruct HR as [_ [_ F]]. apply F.
Qed.

(* ---------- extending the undo list ---------- *)
Lemma nodup_snoc {A} (l : list A) a : NoDup l -> ~ In a l -> NoDup (l ++ [a]).
Proof.
  induction l as [|x l IH]; cbn [app]; intros ND NI; [constructor; [intros []|constructor]|].
  inversion ND as [|? ? N1 N2]; subst. constructor.
  - intros I. apply in_app_or in I. destruct I as [I|[I|[]]]; [contradiction|]. apply NI. left. symmetry. exact I.
  - apply IH; [exact N2|]. intros I. apply NI. right. exact I.
Qed.

Lemma snoc_split {A} (u : list A) x u1 y u2 : u ++ [x] = u1 ++ y :: u2 ->
  (u2 = [] /\ u = u1 /\ x = y) \/ (exists u2', u2 = u2' ++ [x] /\ u = u1 ++ y :: u2').
Proof.
  intros E. destruct u2 as [|a r].
  - left. apply app_inj_tail in E. destruct E; auto.
  - right. assert (NE : a :: r <> []) by discriminate. destruct (exists_last NE) as [l' [z Ez]]. rewrite Ez in *.
    change (u1 ++ y :: l' ++ [z]) with (u1 ++ (y :: l') ++ [z]) in E. rewrite app_assoc in E.
    apply app_inj_tail in E. destruct E as [E1 E2]. subst. exists l'. split; reflexivity.
Qed.

Lemma C_extend_none f u f' raw : C f u -> fs_wf f' -> dirs_le f f' ->
  ~ In (comps raw) (keys u) -> clean raw -> pdirs f' [] (comps raw) ->
  (forall q, file_at f' q <> None -> file_at f q <> None \/ In q (keys u) \/ q = comps raw) ->
  C f' (u ++ [(raw, None)]).
Proof.
  intros [W [ND [CL C3]]] W' D NI CLN PD F. split; [exact W'|]. split.
  { rewrite keys_app. apply nodup_snoc; assumption. }
  split.
  - intros e I. apply in_app_or in I. destruct I as [I|[<-|[]]].
    + destruct (CL e I) as [A B]. split; [exact A|eapply pdirs_mono; eassumption].
    + split; assumption.
  - intros u1 r b u2 E. apply snoc_split in E. destruct E as [[_ [_ E]]|[u2' [-> E]]]; [discriminate|].
    destruct (C3 u1 r b u2' E) as [O [B A]]. split; [exact O|]. split.
    + intros e I S. apply in_app_or in I. destruct I as [I|[<-|[]]]; [apply B; assumption|reflexivity].
    + intros q S N. rewrite keys_app. apply in_or_app. destruct (F q N) as [N'|[I| ->]].
      * left. apply A; assumption.
      * left. exact I.
      * right. left. reflexivity.
Qed.

Lemma C_extend_some f u f' raw b : C f u -> fs_wf f' -> dirs_le f f' ->
  ~ In (comps raw) (keys u) -> clean raw -> pdirs f' [] (comps raw) -> lookup f (comps raw) = Some (File b) ->
  (forall q, file_at f' q <> None -> file_at f q <> None \/ In q (keys u) \/ q = comps raw) ->
  C f' (u ++ [(raw, Some b)]).
Proof.
  intros [W [ND [CL C3]]] W' D NI CLN PD LK F. split; [exact W'|]. split.
  { rewrite keys_app. apply nodup_snoc; assumption. }
  assert (KN : comps raw <> []) by (destruct CLN as [_ [_ [_ K]]]; exact K).
  assert (NOSUB : forall s n, s <> [] -> lookup f (comps raw ++ s) = Some n -> False).
  { intros s n Hs L. destruct W as [_ [_ T]]. pose proof (T _ _ _ L Hs). congruence. }
  split.
  - intros e I. apply in_app_or in I. destruct I as [I|[<-|[]]].
    + destruct (CL e I) as [A B]. split; [exact A|eapply pdirs_mono; eassumption].
    + split; assumption.
  - intros u1 r b0 u2 E. apply snoc_split in E. destruct E as [[-> [<- E]]|[u2' [-> E]]].
    + inversion E; subst r b0. split; [|split].
      * intros e I [s [Es Hs]]. destruct (CL e I) as [_ PE]. specialize (PE (comps raw) s Es KN Hs). cbn [app] in PE. congruence.
      * intros e [].
      * intros q [s [-> Hs]] N. rewrite keys_app. apply in_or_app. destruct (F _ N) as [N'|[I|X]].
        -- exfalso. unfold file_at in N'. destruct (lookup f (comps raw ++ s)) as [n|] eqn:L; [|congruence].
           eapply NOSUB; eassumption.
        -- left. exact I.
        -- exfalso. revert X. apply app_nonnil_r. exact Hs.
    + destruct (C3 u1 r b0 u2' E) as [O [B A]]. split; [exact O|]. split.
      * intros e I S. apply in_app_or in I. destruct I as [I|[<-|[]]]; [apply B; assumption|].
        exfalso. apply NI. apply A; [exact S|]. unfold file_at, ekey. cbn [fst]. rewrite LK. discriminate.
      * intros q S N. rewrite keys_app. apply in_or_app. destruct (F q N) as [N'|[I| ->]].
        -- left. apply A; assumption.
        -- left. exact I.
        -- right. left. reflexivity.
Qed.

Lemma dirs_le_set_file f k b : k <> [] -> lookup f k <> Some Dir -> dirs_le f (set f k (File b)).
Proof.
  intros Hk L q H. rewrite lookup_set by exact Hk. destruct (path_eqb k q) eqn:E; peq; [subst; congruence|exact H].
Qed.
Lemma dirs_le_unset_file f k b : k <> [] -> lookup f k = Some (File b) -> dirs_le f (unset f k).
Proof.
  intros Hk L q H. rewrite lookup_unset by exact Hk. destruct (path_eqb k q) eqn:E; peq; [subst; congruence|exact H].
Qed.

(* ---------- record_undo ---------- *)
Lemma record_undo_cases f u raw s1 :
  record_undo [] {| s_fs := f; s_undo := u |} raw = Ok s1 ->
  s_fs s1 = f /\
  ((In (comps raw) (keys u) /\ s_undo s1 = u) \/
   (~ In (comps raw) (keys u) /\
    ((exists b, os_read f (mk_tgt [] raw) = Ok b /\ s_undo s1 = u ++ [(raw, Some b)]) \/
     (os_exists f (mk_tgt [] raw) = false /\ s_undo s1 = u ++ [(raw, None)])))).
Proof.
  unfold record_undo, tg. cbn [s_fs s_undo]. destruct (seen u (comps raw)) eqn:S.
  - intros H; inversion H; subst. cbn [s_fs s_undo]. split; [reflexivity|]. left. split; [apply seen_iff; exact S|reflexivity].
  - apply seen_false in S. destruct (os_exists f (mk_tgt [] raw)) eqn:X.
    + destruct (os_read f (mk_tgt [] raw)) as [b|e] eqn:RD; [|discriminate].
      intros H; inversion H; subst. cbn [s_fs s_undo]. split; [reflexivity|]. right. split; [exact S|]. left. exists b. split; reflexivity.
    + intros H; inversion H; subst. cbn [s_fs s_undo]. split; [reflexivity|]. right. split; [exact S|]. right. split; reflexivity.
Qed.

(* ---------- failure shapes ---------- *)
Lemma inert f f2 raw : fs_wf f -> ext f f2 -> os_exists f (mk_tgt [] raw) = false ->
  revert_one true [] f2 (raw, None) = f2.
Proof.
  intros W E X. unfold revert_one, tg. cbn [fst snd].
  destruct (os_remove_file f2 (mk_tgt [] raw)) as [g|err] eqn:RM; [exfalso|reflexivity].
  apply os_remove_ok in RM. destruct RM as [[NU [TR [NM KN]]] [_ [[b L] _]]].
  pose proof (os_exists_false_nofile f raw W X NU NM TR) as NF.
  rewrite <- (ext_files _ _ E) in NF. unfold file_at in NF. rewrite L in NF. discriminate.
Qed.

Lemma fail_ext f u f2 u' raw p : C f u -> fs_wf f2 -> ext f f2 ->
  (u' = u \/ (u' = u ++ [(raw, None)] /\ os_exists f (mk_tgt [] raw) = false)) ->
  file_at (revert true [] f2 u') p = expect u f p.
Proof.
  intros HC W2 E H.
  assert (HR : R u f f2).
  { split; [exact W2|]. split; [apply ext_dirs; exact E|]. intros q _. apply (ext_files _ _ E). }
  destruct H as [->|[-> X]].
  - apply revert_R; assumption.
  - rewrite revert_snoc. rewrite (inert f f2 raw); [apply revert_R; assumption|destruct HC; assumption|exact E|exact X].
Qed.

Lemma touch_fail f u raw b0 u' p : C f u ->
  clean raw -> pdirs f [] (comps raw) -> lookup f (comps raw) = Some (File b0) ->
  (u' = u \/ u' = u ++ [(raw, Some b0)]) ->
  file_at (revert true [] f u') p = expect u f p.
Proof.
  intros HC CLN PD LK [->| ->]; [apply revert_spec; exact HC|].
  pose proof HC as [W _]. pose proof CLN as [_ [_ [_ KN]]].
  rewrite revert_snoc. rewrite restore_plain; [|exact W|exact CLN|exact PD|congruence].
  apply revert_R; [exact HC|]. split; [apply wf_set_file; [exact W|exact KN|exact PD|congruence]|]. split.
  - apply dirs_le_set_file; [exact KN|congruence].
  - intros q _. rewrite file_at_set by exact KN. destruct (path_eqb (comps raw) q) eqn:E; peq; [|reflexivity].
    subst q. unfold file_at. rewrite LK. reflexivity.
Qed.

(* ---------- success shapes ---------- *)
Lemma touch_ok f u raw b0 u' f' : C f u ->
  clean raw -> pdirs f [] (comps raw) -> lookup f (comps raw) = Some (File b0) ->
  ((In (comps raw) (keys u) /\ u' = u) \/ (~ In (comps raw) (keys u) /\ u' = u ++ [(raw, Some b0)])) ->
  fs_wf f' -> dirs_le f f' -> (forall q, q <> comps raw -> file_at f' q = file_at f q) ->
  C f' u' /\ forall p, expect u' f' p = expect u f p.
Proof.
  intros HC CLN PD LK H W' D F.
  assert (FC : forall q, file_at f' q <> None -> file_at f q <> None \/ In q (keys u) \/ q = comps raw).
  { intros q N. destruct (path_eqb (comps raw) q) eqn:E; peq; [right; right; congruence|].
    left. rewrite <- (F q) by congruence. exact N. }
  destruct H as [[I ->]|[NI ->]].
  - split.
    + eapply C_same; try eassumption. intros q N. destruct (FC q N) as [A|[A|A]]; [left; exact A|right; exact A|right; subst; exact I].
    + intros p. apply expect_cong. intros NP. apply F. intros X. subst. contradiction.
  - split.
    + eapply C_extend_some; try eassumption. eapply pdirs_mono; eassumption.
    + intros p. apply expect_snoc_eq; [unfold ekey; cbn [snd fst]; unfold file_at; rewrite LK; reflexivity|].
      intros _ NE. apply F. exact NE.
Qed.

Lemma create_ok f u raw u' f' : C f u -> os_exists f (mk_tgt [] raw) = false ->
  ((In (comps raw) (keys u) /\ u' = u) \/ (~ In (comps raw) (keys u) /\ u' = u ++ [(raw, None)])) ->
  fs_wf f' -> dirs_le f f' -> clean raw -> pdirs f' [] (comps raw) ->
  (forall q, file_at f' q <> None -> file_at f q <> None \/ In q (keys u) \/ q = comps raw) ->
  (forall q, ~ In q (keys u) -> q <> comps raw -> file_at f' q = file_at f q) ->
  C f' u' /\ forall p, expect u' f' p = expect u f p.
Proof.
  intros HC X H W' D CLN PD FC F. destruct H as [[I ->]|[NI ->]].
  - split.
    + eapply C_same; try eassumption. intros q N. destruct (FC q N) as [A|[A|A]]; [left; exact A|right; exact A|right; subst; exact I].
    + intros p. apply expect_cong. intros NP. apply F; [exact NP|]. intros Z. subst. contradiction.
  - split.
    + eapply C_extend_none; eassumption.
    + intros p. apply expect_snoc_eq; [|apply F].
      unfold ekey. cbn [snd fst]. symmetry. destruct CLN as [NU [TR [NM _]]]. destruct HC as [W _].
      apply os_exists_false_nofile; assumption.
Qed.

(* ---------- one operation ---------- *)
Definition post (f : fs) (u : list entry) (s' : st) (r : option N) : Prop :=
  match r with
  | None => C (s_fs s') (s_undo s') /\ forall p, expect (s_undo s') (s_fs s') p = expect u f p
  | Some _ => forall p, file_at (revert true [] (s_fs s') (s_undo s')) p = expect u f p
  end.

Lemma os_read_exists f t b : os_read f t = Ok b -> os_exists f t = true.
Proof.
  unfold os_read, os_exists. destruct (pre_err f t); [discriminate|].
  destruct (lookup f (t_path t)) as [[x|]|]; try discriminate. destruct (t_trail t); try discriminate. reflexivity.
Qed.

Definition undo_shape (f : fs) (u : list entry) (raw : list N) (u1 : list entry) : Prop :=
  (In (comps raw) (keys u) /\ u1 = u) \/
  (~ In (comps raw) (keys u) /\
   ((exists b, os_read f (mk_tgt [] raw) = Ok b /\ u1 = u ++ [(raw, Some b)]) \/
    (os_exists f (mk_tgt [] raw) = false /\ u1 = u ++ [(raw, None)]))).

Lemma shape_none f u raw u1 : os_exists f (mk_tgt [] raw) = false -> undo_shape f u raw u1 ->
  (In (comps raw) (keys u) /\ u1 = u) \/ (~ In (comps raw) (keys u) /\ u1 = u ++ [(raw, None)]).
Proof.
  intros X [H|[NI [[b [RD _]]|[_ E]]]]; [left; exact H| |right; split; assumption].
  apply os_read_exists in RD. congruence.
Qed.

Lemma shape_some f u raw u1 b0 : os_exists f (mk_tgt [] raw) = true -> lookup f (comps raw) = Some (File b0) ->
  undo_shape f u raw u1 ->
  (In (comps raw) (keys u) /\ u1 = u) \/ (~ In (comps raw) (keys u) /\ u1 = u ++ [(raw, Some b0)]).
Proof.
  intros X LK [H|[NI [[b [RD E]]|[X' _]]]]; [left; exact H| |congruence].
  right. split; [exact NI|]. apply os_read_ok in RD. destruct RD as [_ [_ L]]. congruence.
Qed.

Lemma phase1_fail f u raw u1 p : C f u -> os_exists f (mk_tgt [] raw) = true -> undo_shape f u raw u1 ->
  file_at (revert true [] f u1) p = expect u f p.
Proof.
  intros HC X [[_ ->]|[NI [[b [RD ->]]|[X' _]]]]; [apply revert_spec; exact HC| |congruence].
  apply os_read_ok in RD. destruct RD as [CLN [PD L]].
  eapply touch_fail; try eassumption. right. reflexivity.
Qed.

Lemma phase2_fail f u raw u1 f2 p : C f u -> os_exists f (mk_tgt [] raw) = false -> undo_shape f u raw u1 ->
  fs_wf f2 -> ext f f2 -> file_at (revert true [] f2 u1) p = expect u f p.
Proof.
  intros HC X SH W2 E. apply (fail_ext f u f2 u1 raw p HC W2 E).
  destruct (shape_none _ _ _ _ X SH) as [[_ ->]|[_ ->]]; [left; reflexivity|right; split; [reflexivity|exact X]].
Qed.

Lemma exec_inv f u o s' r : C f u -> exec [] {| s_fs := f; s_undo := u |} o = (s', r) -> post f u s' r.
Proof.
  intros HC. pose proof HC as [W _].
  assert (TRIV : post f u {| s_fs := f; s_undo := u |} (Some 0) ) by (intros q; apply revert_spec; exact HC).
  destruct o as [p content|p|p mv hs]; cbn [exec]; unfold tg; cbn [s_fs s_undo].
  - (* Add *)
    destruct (os_exists f (mk_tgt [] p)) eqn:X; [intros H; inversion H; subst; exact TRIV|].
    destruct (record_undo [] _ p) as [s1|e] eqn:RU; [|intros H; inversion H; subst; exact TRIV].
    apply record_undo_cases in RU. destruct RU as [F1 U1]. destruct s1 as [f1 u1]. cbn [s_fs s_undo with_fs] in *. subst f1.
    fold (undo_shape f u p u1) in U1.
    destruct (mk_parent_dirs f (mk_tgt [] p)) as [f2 [e|]] eqn:MK;
      apply mk_parent_dirs_spec in MK; try exact W; destruct MK as [W2 E2].
    { intros H; inversion H; subst. intros q. cbn [s_fs s_undo with_fs]. eapply phase2_fail; eassumption. }
    destruct (os_write f2 (mk_tgt [] p) content) as [f3|e] eqn:WR.
    2:{ intros H; inversion H; subst. intros q. cbn [s_fs s_undo with_fs]. eapply phase2_fail; eassumption. }
    intros H; inversion H; subst. cbn [post s_fs s_undo with_fs].
    apply os_write_ok in WR. destruct WR as [CLN [PD2 [L2 ->]]]. pose proof CLN as [_ [_ [_ KN]]].
    apply (create_ok f u p); try assumption.
    + apply (shape_none f); assumption.
    + apply wf_set_file; assumption.
    + eapply dirs_le_trans; [apply ext_dirs; exact E2|apply dirs_le_set_file; assumption].
    + eapply pdirs_mono; [apply dirs_le_set_file; eassumption|exact PD2].
    + intros q N. rewrite file_at_set in N by exact KN. destruct (path_eqb (comps p) q) eqn:E; peq; [right; right; congruence|].
      left. rewrite <- (ext_files _ _ E2). exact N.
    + intros q _ NE. rewrite file_at_set by exact KN. apply path_eqb_false in NE. rewrite path_eqb_sym, NE. apply (ext_files _ _ E2).
  - (* Delete *)
    destruct (os_exists f (mk_tgt [] p)) eqn:X; cbn [negb]; [|intros H; inversion H; subst; exact TRIV].
    destruct (record_undo [] _ p) as [s1|e] eqn:RU; [|intros H; inversion H; subst; exact TRIV].
    apply record_undo_cases in RU. destruct RU as [F1 U1]. destruct s1 as [f1 u1]. cbn [s_fs s_undo with_fs] in *. subst f1.
    fold (undo_shape f u p u1) in U1.
    destruct (os_remove_file f (mk_tgt [] p)) as [f2|e] eqn:RM.
    2:{ intros H; inversion H; subst. intros q. cbn [s_fs s_undo with_fs]. eapply phase1_fail; eassumption. }
    intros H; inversion H; subst. cbn [post s_fs s_undo with_fs].
    apply os_remove_ok in RM. destruct RM as [CLN [PD [[b0 L0] ->]]]. pose proof CLN as [_ [_ [_ KN]]].
    apply (touch_ok f u p b0); try assumption.
    + eapply shape_some; eassumption.
    + eapply wf_unset_file; eassumption.
    + eapply dirs_le_unset_file; eassumption.
    + intros q NE. rewrite file_at_unset by exact KN. apply path_eqb_false in NE. rewrite path_eqb_sym, NE. reflexivity.
  - (* Update *)
    destruct (os_exists f (mk_tgt [] p)) eqn:X; cbn [negb]; [|intros H; inversion H; subst; exact TRIV].
    destruct (record_undo [] _ p) as [s1|e] eqn:RU; [|intros H; inversion H; subst; exact TRIV].
    apply record_undo_cases in RU. destruct RU as [F1 U1]. destruct s1 as [f1 u1]. cbn [s_fs s_undo with_fs] in *. subst f1.
    fold (undo_shape f u p u1) in U1.
    assert (FAIL1 : forall e, post f u {| s_fs := f; s_undo := u1 |} (Some e)).
    { intros e q. cbn [s_fs s_undo with_fs]. eapply phase1_fail; eassumption. }
    destruct (os_read f (mk_tgt [] p)) as [b|e] eqn:RD; [|intros H; inversion H; subst; apply FAIL1].
    destruct (utf8_ok b); cbn [negb]; [|intros H; inversion H; subst; apply FAIL1].
    destruct (apply_hunks_to_text b hs) as [b'|]; [|intros H; inversion H; subst; apply FAIL1].
    destruct (os_write f (mk_tgt [] p) b') as [f2|e] eqn:WR; [|intros H; inversion H; subst; apply FAIL1].
    apply os_read_ok in RD. destruct RD as [CLN [PD L0]]. pose proof CLN as [_ [_ [_ KN]]].
    apply os_write_ok in WR. destruct WR as [_ [_ [_ ->]]].
    assert (SH1 : (In (comps p) (keys u) /\ u1 = u) \/ (~ In (comps p) (keys u) /\ u1 = u ++ [(p, Some b)]))
      by (eapply shape_some; eassumption).
    assert (W2 : fs_wf (set f (comps p) (File b'))) by (apply wf_set_file; [exact W|exact KN|exact PD|congruence]).
    assert (P1 : C (set f (comps p) (File b')) u1 /\ forall q, expect u1 (set f (comps p) (File b')) q = expect u f q).
    { apply (touch_ok f u p b); try assumption.
      - apply dirs_le_set_file; [exact KN|congruence].
      - intros q NE. rewrite file_at_set by exact KN. apply path_eqb_false in NE. rewrite path_eqb_sym, NE. reflexivity. }
    destruct P1 as [HC2 EQ1].
    destruct mv as [q|]; [|intros H; inversion H; subst; cbn [post s_fs s_undo with_fs]; split; assumption].
    set (f2 := set f (comps p) (File b')) in *.
    assert (INP : In (comps p) (keys u1)).
    { destruct SH1 as [[I ->]|[_ ->]]; [exact I|]. rewrite keys_app. apply in_or_app. right. left. reflexivity. }
    assert (TRIV2 : forall e, post f u {| s_fs := f2; s_undo := u1 |} (Some e)).
    { intros e x. cbn [s_fs s_undo with_fs]. rewrite <- EQ1. apply revert_spec. exact HC2. }
    destruct (os_exists f2 (mk_tgt [] q)) eqn:XQ; [intros H; inversion H; subst; apply TRIV2|].
    destruct (record_undo [] _ q) as [s3|e] eqn:RU3; [|intros H; inversion H; subst; apply TRIV2].
    apply record_undo_cases in RU3. destruct RU3 as [F3 U3]. destruct s3 as [f3 u3]. cbn [s_fs s_undo with_fs] in *. subst f3.
    fold (undo_shape f2 u1 q u3) in U3.
    destruct (mk_parent_dirs f2 (mk_tgt [] q)) as [f4 [e|]] eqn:MK;
      apply mk_parent_dirs_spec in MK; try exact W2; destruct MK as [W4 E4].
    { intros H; inversion H; subst. intros x. cbn [s_fs s_undo with_fs]. rewrite <- EQ1. eapply phase2_fail; eassumption. }
    destruct (os_rename_file f4 (mk_tgt [] p) (mk_tgt [] q)) as [f5|e] eqn:RN.
    2:{ intros H; inversion H; subst. intros x. cbn [s_fs s_undo with_fs]. rewrite <- EQ1. eapply phase2_fail; eassumption. }
    intros H; inversion H; subst. cbn [post s_fs s_undo with_fs].
    apply os_rename_ok in RN. destruct RN as [_ [PDS [CLQ [PDQ [LQ [b2 [LS ->]]]]]]].
    pose proof CLQ as [_ [_ [_ KQ]]].
    assert (WU : fs_wf (unset f4 (comps p))) by (eapply wf_unset_file; eassumption).
    assert (DU : dirs_le f4 (unset f4 (comps p))) by (eapply dirs_le_unset_file; eassumption).
    assert (LQ' : lookup (unset f4 (comps p)) (comps q) <> Some Dir).
    { rewrite lookup_unset by exact KN. destruct (path_eqb (comps p) (comps q)); [discriminate|exact LQ]. }
    assert (DS : dirs_le (unset f4 (comps p)) (set (unset f4 (comps p)) (comps q) (File b2)))
      by (apply dirs_le_set_file; assumption).
    assert (R2 : C (set (unset f4 (comps p)) (comps q) (File b2)) u3 /\
                 forall x, expect u3 (set (unset f4 (comps p)) (comps q) (File b2)) x = expect u1 f2 x).
    { apply (create_ok f2 u1 q); try assumption.
      - apply (shape_none f2); assumption.
      - apply wf_set_file; try assumption. eapply pdirs_mono; eassumption.
      - eapply dirs_le_trans; [apply ext_dirs; exact E4|]. eapply dirs_le_trans; eassumption.
      - eapply pdirs_mono; [|exact PDQ]. eapply dirs_le_trans; eassumption.
      - intros x N. rewrite file_at_set in N by exact KQ. destruct (path_eqb (comps q) x) eqn:E; peq; [right; right; congruence|].
        rewrite file_at_unset in N by exact KN. destruct (path_eqb (comps p) x); [congruence|].
        left. rewrite <- (ext_files _ _ E4). exact N.
      - intros x NI NE. rewrite file_at_set by exact KQ. apply path_eqb_false in NE. rewrite path_eqb_sym, NE.
        rewrite file_at_unset by exact KN. destruct (path_eqb (comps p) x) eqn:E; peq; [subst; contradiction|].
        apply (ext_files _ _ E4). }
    destruct R2 as [HC5 EQ2]. split; [exact HC5|]. intros x. rewrite EQ2. apply EQ1.
Qed.

(* ---------- every operation sequence, every failure position ---------- *)
Lemma run_inv : forall ops f u s' r, C f u -> run [] {| s_fs := f; s_undo := u |} ops = (s', r) -> post f u s' r.
Proof.
  induction ops as [|o ops IH]; intros f u s' r HC; cbn [run].
  - intros H; inversion H; subst. cbn [post s_fs s_undo with_fs]. split; [exact HC|reflexivity].
  - destruct (exec [] _ o) as [s1 [e|]] eqn:E; apply exec_inv in E; try exact HC.
    + intros H; inversion H; subst. exact E.
    + cbn [post] in E. destruct E as [HC1 EQ1]. destruct s1 as [f1 u1]. cbn [s_fs s_undo] in *.
      intros H. apply IH in H; [|exact HC1]. destruct r as [e|]; cbn [post] in *.
      * intros p. rewrite H. apply EQ1.
      * destruct H as [A B]. split; [exact A|]. intros p. rewrite B. apply EQ1.
Qed.

Lemma C_init f : fs_wf f -> C f [].
Proof.
  intros W. split; [exact W|]. split; [constructor|]. split; [intros e []|].
  intros u1 raw b u2 E. destruct u1; discriminate.
Qed.

Theorem apply_ops_atomic f ops g e : fs_wf f ->
  apply_ops true [] f ops = Failed g e -> forall p, file_at g p = file_at f p.
Proof.
  intros W. unfold apply_ops. destruct (run [] _ ops) as [s [err|]] eqn:RN; [|discriminate].
  intros H; inversion H; subst. apply run_inv in RN; [|apply C_init; exact W]. exact RN.
Qed.

Theorem apply_patch_atomic f input g e : fs_wf f ->
  apply_patch true [] f input = Failed g e -> forall p, file_at g p = file_at f p.
Proof.
  intros W. unfold apply_patch. destruct (parse_patch input) as [ops|].
  - apply apply_ops_atomic. exact W.
  - intros H; inversion H; subst. reflexivity.
Qed.

(* a successful apply keeps the workspace a well-formed tree (so patches can be chained) *)
Theorem apply_ops_wf f ops g c : fs_wf f -> apply_ops true [] f ops = Applied g c -> fs_wf g.
Proof.
  intros W. unfold apply_ops. destruct (run [] _ ops) as [s [err|]] eqn:RN; [discriminate|].
  intros H; inversion H; subst. apply run_inv in RN; [|apply C_init; exact W]. destruct RN as [[A _] _]. exact A.
Qed.

(* the revert restores files only: directories created on the way stay (they hold no file) *)
Require Import Coq.Strings.String.
Definition dirwit_patch : list N :=
  intercalate [10] [bs "*** Begin Patch"%string; bs "*** Add File: d/x"%string; bs "+1"%string;
                    bs "*** Delete File: nope"%string; bs "*** End Patch"%string].
Definition dirwit_after : fs := [([bs "d"%string], Dir)].
Lemma dirwit_run : apply_patch true [] [] dirwit_patch = Failed dirwit_after ENOENT.
Proof. vm_compute. reflexivity. Qed.
Lemma wf_empty : fs_wf [].
Proof.
  split; [constructor|]. split; [intros []|]. intros x s n L Hs.
  destruct x as [|x0 x]; [reflexivity|]. cbn in L. discriminate.
Qed.
Theorem failed_keeps_dirs_refuted :
  exists f input g e p, fs_wf f /\ apply_patch true [] f input = Failed g e /\ lookup f p = None /\ lookup g p = Some Dir.
Proof.
  exists [], dirwit_patch, dirwit_after, ENOENT, [bs "d"%string].
  split; [exact wf_empty|]. split; [exact dirwit_run|]. split; vm_compute; reflexivity.
Qed.

(* a well-formed non-empty workspace on which a patch fails half-way (non-vacuity of the hypotheses) *)
Lemma wf_single a b : fs_wf [([a], File b)].
Proof.
  split; [constructor; [intros []|constructor]|]. split; [intros [H|[]]; discriminate|].
  intros x s n L Hs. destruct x as [|x0 x]; [reflexivity|]. exfalso.
  cbn [lookup app assoc] in L. destruct (path_eqb [a] (x0 :: x ++ s)) eqn:E; [|discriminate].
  peq. inversion E as [[E1 E2]]. symmetry in E2. apply app_eq_nil in E2. destruct E2. contradiction.
Qed.

(* ---------- the decidable form of the hypothesis (checked on every observed workspace) ---------- *)
Lemma nodupb_sound l : nodupb l = true -> NoDup l.
Proof.
  induction l as [|x r IH]; cbn [nodupb]; intros H; [constructor|].
  apply andb_true_iff in H. destruct H as [H1 H2]. constructor; [|apply IH; exact H2].
  intros I. apply negb_true_iff in H1.
  assert (existsb (path_eqb x) r = true) by (apply existsb_exists; exists x; split; [exact I|apply path_eqb_refl]).
  congruence.
Qed.

Lemma prefixes_aux_in : forall x cur s, x <> [] -> s <> [] -> In (cur ++ x) (prefixes_aux cur (x ++ s)).
Proof.
  induction x as [|c x IH]; intros cur s Hx Hs; [congruence|].
  cbn [app prefixes_aux]. destruct (x ++ s) as [|y r] eqn:E.
  - apply app_eq_nil in E. destruct E; contradiction.
  - rewrite <- E. destruct x as [|c2 x'].
    + left. reflexivity.
    + right. replace (cur ++ c :: c2 :: x') with ((cur ++ [c]) ++ c2 :: x') by (rewrite <- app_assoc; reflexivity).
      apply IH; [discriminate|exact Hs].
Qed.

Theorem wf_fsb_sound f : wf_fsb f = true -> fs_wf f.
Proof.
  unfold wf_fsb. rewrite !andb_true_iff. intros [[ND NN] TR]. split; [apply nodupb_sound; exact ND|]. split.
  - intros I. apply negb_true_iff in NN.
    assert (existsb (path_eqb []) (map fst f) = true) by (apply existsb_exists; exists []; split; [exact I|reflexivity]).
    congruence.
  - intros x s n L Hs. destruct x as [|x0 x']; [reflexivity|].
    assert (I : In ((x0 :: x') ++ s, n) f) by (apply assoc_in; exact L).
    rewrite forallb_forall in TR. specialize (TR _ I). cbn [fst] in TR. rewrite forallb_forall in TR.
    specialize (TR (x0 :: x') (prefixes_aux_in (x0 :: x') [] s ltac:(discriminate) Hs)).
    unfold is_dir in TR. destruct (lookup f (x0 :: x')) as [[b|]|]; try discriminate. reflexivity.
Qed.

(* ---------- directories: a failed apply never removes a directory that existed before ---------- *)
Lemma revert_one_dirs f0 f e : fs_wf f -> tree f0 -> dirs_le f0 f ->
  (forall b, snd e = Some b -> lookup f0 (ekey e) = Some (File b)) ->
  fs_wf (revert_one true [] f e) /\ dirs_le f0 (revert_one true [] f e).
Proof.
  intros W T0 D SM. destruct e as [raw [b|]]; unfold revert_one, tg, ekey in *; cbn [fst snd] in *.
  - specialize (SM b eq_refl).
    assert (NOTUNDER : forall q s, lookup f0 q = Some Dir -> q <> comps raw ++ s).
    { intros q s L E. subst q. destruct s as [|s0 s]; [rewrite app_nil_r in L; congruence|].
      assert (lookup f0 (comps raw) = Some Dir) by (eapply T0; [exact L|discriminate]). congruence. }
    set (f1 := os_prune_dirs f (mk_tgt [] raw)).
    assert (P1 : fs_wf f1 /\ dirs_le f0 f1).
    { unfold f1, os_prune_dirs. destruct (os_is_dir f (mk_tgt [] raw)) eqn:ID; [|split; assumption].
      cbn [mk_tgt t_path t_base t_comps app].
      destruct (comps raw) as [|c k] eqn:K; [cbn [prune_dirs]; split; assumption|]. rewrite <- K in *.
      assert (KN : comps raw <> []) by (rewrite K; discriminate).
      destruct (prune_dirs_spec f (comps raw) W KN) as [W1 [_ [DK _]]]. split; [exact W1|].
      intros q L. apply DK; [apply D; exact L|]. intros s. apply NOTUNDER. exact L. }
    destruct P1 as [W1 D1].
    destruct (mk_parent_dirs f1 (mk_tgt [] raw)) as [f2 r] eqn:MK. cbn [fst].
    apply mk_parent_dirs_spec in MK; [|exact W1]. destruct MK as [W2 E2].
    assert (D2 : dirs_le f0 f2) by (eapply dirs_le_trans; [exact D1|apply ext_dirs; exact E2]).
    destruct (os_write f2 (mk_tgt [] raw) b) as [f3|err] eqn:WR; cbn [ign]; [|split; assumption].
    apply os_write_ok in WR. destruct WR as [[_ [_ [_ KN]]] [PD [L ->]]].
    split; [apply wf_set_file; assumption|].
    intros q LQ. rewrite lookup_set_other; [apply D2; exact LQ|exact KN|]. intros X. subst q. congruence.
  - destruct (os_remove_file f (mk_tgt [] raw)) as [g|err] eqn:RM; cbn [ign]; [|split; assumption].
    apply os_remove_ok in RM. destruct RM as [[_ [_ [_ KN]]] [_ [[b L] ->]]].
    split; [eapply wf_unset_file; eassumption|].
    eapply dirs_le_trans; [exact D|eapply dirs_le_unset_file; eassumption].
Qed.

Definition somes_in (f0 : fs) (u : list entry) : Prop :=
  forall raw b, In (raw, Some b) u -> lookup f0 (comps raw) = Some (File b).

Lemma revert_dirs f0 : tree f0 -> forall u f, fs_wf f -> dirs_le f0 f -> somes_in f0 u ->
  dirs_le f0 (revert true [] f u).
Proof.
  intros T0. induction u as [|e u IH] using rev_ind; intros f W D SM; [exact D|].
  rewrite revert_snoc.
  destruct (revert_one_dirs f0 f e W T0 D) as [W' D'].
  { intros b E. destruct e as [raw v]. cbn [snd] in E. subst v. apply SM. apply in_or_app. right. left. reflexivity. }
  apply IH; [exact W'|exact D'|]. intros raw b I. apply SM. apply in_or_app. left. exact I.
Qed.

(* one operation: the tree stays well-formed, no directory disappears, and every newly recorded
   "was a file" entry holds the file's current content at a key not seen before *)
Lemma exec_shape f u o s' r : fs_wf f -> exec [] {| s_fs := f; s_undo := u |} o = (s', r) ->
  fs_wf (s_fs s') /\ dirs_le f (s_fs s') /\
  exists new, s_undo s' = u ++ new /\
    forall raw b, In (raw, Some b) new -> ~ In (comps raw) (keys u) /\ lookup f (comps raw) = Some (File b).
Proof.
  intros W.
  assert (TRIV : fs_wf f /\ dirs_le f f /\ exists new, u = u ++ new /\
            forall raw b, In (raw, Some b) new -> ~ In (comps raw) (keys u) /\ lookup f (comps raw) = Some (File b)).
  { split; [exact W|]. split; [apply dirs_le_refl|]. exists []. split; [rewrite app_nil_r; reflexivity|intros ? ? []]. }
  assert (NEW : forall raw u1, undo_shape f u raw u1 -> exists new, u1 = u ++ new /\
            forall raw' b, In (raw', Some b) new -> ~ In (comps raw') (keys u) /\ lookup f (comps raw') = Some (File b)).
  { intros raw u1 [[_ ->]|[NI [[b [RD ->]]|[_ ->]]]].
    - exists []. split; [rewrite app_nil_r; reflexivity|intros ? ? []].
    - exists [(raw, Some b)]. split; [reflexivity|]. intros raw' b' [E|[]]. inversion E; subst.
      apply os_read_ok in RD. destruct RD as [_ [_ L]]. split; assumption.
    - exists [(raw, None)]. split; [reflexivity|]. intros raw' b' [E|[]]. discriminate. }
  assert (NEW2 : forall f2 u1 raw u3,
            (exists new, u1 = u ++ new /\ forall raw' b, In (raw', Some b) new -> ~ In (comps raw') (keys u) /\ lookup f (comps raw') = Some (File b)) ->
            os_exists f2 (mk_tgt [] raw) = false -> undo_shape f2 u1 raw u3 ->
            exists new, u3 = u ++ new /\ forall raw' b, In (raw', Some b) new -> ~ In (comps raw') (keys u) /\ lookup f (comps raw') = Some (File b)).
  { intros f2 u1 raw u3 [new [-> HN]] X SH. destruct (shape_none _ _ _ _ X SH) as [[_ ->]|[_ ->]].
    - exists new. split; [reflexivity|exact HN].
    - exists (new ++ [(raw, None)]). split; [rewrite app_assoc; reflexivity|].
      intros raw' b I. apply in_app_or in I. destruct I as [I|[E|[]]]; [apply HN; exact I|discriminate]. }
  destruct o as [p content|p|p mv hs]; cbn [exec]; unfold tg; cbn [s_fs s_undo].
  - destruct (os_exists f (mk_tgt [] p)) eqn:X; [intros H; inversion H; subst; exact TRIV|].
    destruct (record_undo [] _ p) as [s1|e] eqn:RU; [|intros H; inversion H; subst; exact TRIV].
    apply record_undo_cases in RU. destruct RU as [F1 U1]. destruct s1 as [f1 u1]. cbn [s_fs s_undo with_fs] in *. subst f1.
    fold (undo_shape f u p u1) in U1. specialize (NEW p u1 U1).
    destruct (mk_parent_dirs f (mk_tgt [] p)) as [f2 [e|]] eqn:MK;
      apply mk_parent_dirs_spec in MK; try exact W; destruct MK as [W2 E2].
    { intros H; inversion H; subst. cbn [s_fs s_undo]. split; [exact W2|]. split; [apply ext_dirs; exact E2|exact NEW]. }
    destruct (os_write f2 (mk_tgt [] p) content) as [f3|e] eqn:WR.
    2:{ intros H; inversion H; subst. cbn [s_fs s_undo]. split; [exact W2|]. split; [apply ext_dirs; exact E2|exact NEW]. }
    intros H; inversion H; subst. cbn [s_fs s_undo].
    apply os_write_ok in WR. destruct WR as [[_ [_ [_ KN]]] [PD2 [L2 ->]]].
    split; [apply wf_set_file; assumption|]. split; [|exact NEW].
    eapply dirs_le_trans; [apply ext_dirs; exact E2|apply dirs_le_set_file; assumption].
  - destruct (os_exists f (mk_tgt [] p)) eqn:X; cbn [negb]; [|intros H; inversion H; subst; exact TRIV].
    destruct (record_undo [] _ p) as [s1|e] eqn:RU; [|intros H; inversion H; subst; exact TRIV].
    apply record_undo_cases in RU. destruct RU as [F1 U1]. destruct s1 as [f1 u1]. cbn [s_fs s_undo with_fs] in *. subst f1.
    fold (undo_shape f u p u1) in U1. specialize (NEW p u1 U1).
    destruct (os_remove_file f (mk_tgt [] p)) as [f2|e] eqn:RM.
    2:{ intros H; inversion H; subst. cbn [s_fs s_undo]. split; [exact W|]. split; [apply dirs_le_refl|exact NEW]. }
    intros H; inversion H; subst. cbn [s_fs s_undo].
    apply os_remove_ok in RM. destruct RM as [[_ [_ [_ KN]]] [PD [[b0 L0] ->]]].
    split; [eapply wf_unset_file; eassumption|]. split; [eapply dirs_le_unset_file; eassumption|exact NEW].
  - destruct (os_exists f (mk_tgt [] p)) eqn:X; cbn [negb]; [|intros H; inversion H; subst; exact TRIV].
    destruct (record_undo [] _ p) as [s1|e] eqn:RU; [|intros H; inversion H; subst; exact TRIV].
    apply record_undo_cases in RU. destruct RU as [F1 U1]. destruct s1 as [f1 u1]. cbn [s_fs s_undo with_fs] in *. subst f1.
    fold (undo_shape f u p u1) in U1. specialize (NEW p u1 U1).
    assert (FAIL1 : fs_wf f /\ dirs_le f f /\ exists new, u1 = u ++ new /\
              forall raw b, In (raw, Some b) new -> ~ In (comps raw) (keys u) /\ lookup f (comps raw) = Some (File b)).
    { split; [exact W|]. split; [apply dirs_le_refl|exact NEW]. }
    destruct (os_read f (mk_tgt [] p)) as [b|e] eqn:RD; [|intros H; inversion H; subst; exact FAIL1].
    destruct (utf8_ok b); cbn [negb]; [|intros H; inversion H; subst; exact FAIL1].
    destruct (apply_hunks_to_text b hs) as [b'|]; [|intros H; inversion H; subst; exact FAIL1].
    destruct (os_write f (mk_tgt [] p) b') as [f2|e] eqn:WR; [|intros H; inversion H; subst; exact FAIL1].
    apply os_write_ok in WR. destruct WR as [[_ [_ [_ KN]]] [PD [L0 ->]]].
    set (f2 := set f (comps p) (File b')) in *.
    assert (W2 : fs_wf f2) by (apply wf_set_file; assumption).
    assert (D2 : dirs_le f f2) by (apply dirs_le_set_file; assumption).
    assert (OK1 : fs_wf f2 /\ dirs_le f f2 /\ exists new, u1 = u ++ new /\
              forall raw b, In (raw, Some b) new -> ~ In (comps raw) (keys u) /\ lookup f (comps raw) = Some (File b)).
    { split; [exact W2|]. split; [exact D2|exact NEW]. }
    destruct mv as [q|]; [|intros H; inversion H; subst; exact OK1].
    destruct (os_exists f2 (mk_tgt [] q)) eqn:XQ; [intros H; inversion H; subst; exact OK1|].
    destruct (record_undo [] _ q) as [s3|e] eqn:RU3; [|intros H; inversion H; subst; exact OK1].
    apply record_undo_cases in RU3. destruct RU3 as [F3 U3]. destruct s3 as [f3 u3]. cbn [s_fs s_undo with_fs] in *. subst f3.
    fold (undo_shape f2 u1 q u3) in U3. pose proof (NEW2 f2 u1 q u3 NEW XQ U3) as NEW3.
    destruct (mk_parent_dirs f2 (mk_tgt [] q)) as [f4 [e|]] eqn:MK;
      apply mk_parent_dirs_spec in MK; try exact W2; destruct MK as [W4 E4].
    { intros H; inversion H; subst. cbn [s_fs s_undo]. split; [exact W4|].
      split; [eapply dirs_le_trans; [exact D2|apply ext_dirs; exact E4]|exact NEW3]. }
    destruct (os_rename_file f4 (mk_tgt [] p) (mk_tgt [] q)) as [f5|e] eqn:RN.
    2:{ intros H; inversion H; subst. cbn [s_fs s_undo]. split; [exact W4|].
        split; [eapply dirs_le_trans; [exact D2|apply ext_dirs; exact E4]|exact NEW3]. }
    intros H; inversion H; subst. cbn [s_fs s_undo].
    apply os_rename_ok in RN. destruct RN as [_ [PDS [CLQ [PDQ [LQ [b2 [LS ->]]]]]]].
    pose proof CLQ as [_ [_ [_ KQ]]].
    assert (WU : fs_wf (unset f4 (comps p))) by (eapply wf_unset_file; eassumption).
    assert (DU : dirs_le f4 (unset f4 (comps p))) by (eapply dirs_le_unset_file; eassumption).
    assert (LQ' : lookup (unset f4 (comps p)) (comps q) <> Some Dir).
    { rewrite lookup_unset by exact KN. destruct (path_eqb (comps p) (comps q)); [discriminate|exact LQ]. }
    split; [apply wf_set_file; try assumption; eapply pdirs_mono; eassumption|]. split; [|exact NEW3].
    eapply dirs_le_trans; [exact D2|]. eapply dirs_le_trans; [apply ext_dirs; exact E4|].
    eapply dirs_le_trans; [exact DU|apply dirs_le_set_file; assumption].
Qed.

Lemma expect_notin u f p : ~ In p (keys u) -> expect u f p = file_at f p.
Proof.
  induction u as [|e u IH]; cbn [expect keys map In]; intros NI; [reflexivity|].
  destruct (path_eqb (ekey e) p) eqn:E; peq; [exfalso; apply NI; left; exact E|]. apply IH. tauto.
Qed.

Lemma run_dirs f0 : fs_wf f0 -> forall ops f u s' r,
  C f u -> (forall p, expect u f p = file_at f0 p) -> dirs_le f0 f -> somes_in f0 u ->
  run [] {| s_fs := f; s_undo := u |} ops = (s', r) ->
  fs_wf (s_fs s') /\ dirs_le f0 (s_fs s') /\ somes_in f0 (s_undo s').
Proof.
  intros W0. induction ops as [|o ops IH]; intros f u s' r HC EX D SM; cbn [run].
  - intros H; inversion H; subst. cbn [s_fs s_undo]. destruct HC as [W _]. auto.
  - destruct (exec [] _ o) as [s1 [e|]] eqn:E.
    + intros H; inversion H; subst. pose proof HC as [W _].
      destruct (exec_shape _ _ _ _ _ W E) as [W1 [D1 [new [EU HN]]]].
      split; [exact W1|]. split; [eapply dirs_le_trans; eassumption|].
      rewrite EU. intros raw b I. apply in_app_or in I. destruct I as [I|I]; [apply SM; exact I|].
      destruct (HN raw b I) as [NI L].
      specialize (EX (comps raw)). rewrite expect_notin in EX by exact NI.
      unfold file_at in EX. rewrite L in EX.
      destruct (lookup f0 (comps raw)) as [[b0|]|]; try discriminate. inversion EX; subst. reflexivity.
    + pose proof HC as [W _].
      destruct (exec_shape _ _ _ _ _ W E) as [W1 [D1 [new [EU HN]]]].
      pose proof (exec_inv _ _ _ _ _ HC E) as [HC1 EQ1]. destruct s1 as [f1 u1]. cbn [s_fs s_undo] in *.
      apply IH; try assumption.
      * intros p. rewrite EQ1. apply EX.
      * eapply dirs_le_trans; eassumption.
      * rewrite EU. intros raw b I. apply in_app_or in I. destruct I as [I|I]; [apply SM; exact I|].
        destruct (HN raw b I) as [NI L].
        specialize (EX (comps raw)). rewrite expect_notin in EX by exact NI.
        unfold file_at in EX. rewrite L in EX.
        destruct (lookup f0 (comps raw)) as [[b0|]|]; try discriminate. inversion EX; subst. reflexivity.
Qed.

(* a failed apply leaves the workspace as it was, plus possibly directories where there was nothing *)
Theorem apply_patch_failed_ext f input g e : fs_wf f -> apply_patch true [] f input = Failed g e -> ext f g.
Proof.
  intros W H. pose proof (apply_patch_atomic f input g e W H) as FA.
  assert (D : dirs_le f g).
  { unfold apply_patch in H. destruct (parse_patch input) as [ops|]; [|inversion H; subst; apply dirs_le_refl].
    unfold apply_ops in H. destruct (run [] _ ops) as [s [err|]] eqn:RN; [|discriminate]. inversion H; subst.
    destruct (run_dirs f W ops f [] s (Some e) (C_init f W) (fun p => eq_refl) (dirs_le_refl f)) as [WS [DS SS]];
      [intros ? ? []|exact RN|].
    apply revert_dirs; try assumption. destruct W as [_ [_ T]]. exact T. }
  split.
  - intros q n L. destruct n as [b|]; [|apply D; exact L].
    specialize (FA q). unfold file_at in FA. rewrite L in FA.
    destruct (lookup g q) as [[b'|]|]; try discriminate. inversion FA; subst. reflexivity.
  - intros q L. specialize (FA q). unfold file_at in FA. rewrite L in FA.
    destruct (lookup g q) as [[b'|]|]; [discriminate|right; reflexivity|left; reflexivity].
Qed.
