(* Proofs about Model/LogFile.v: opening and reading are the identity on the bytes of the truth log for EVERY
   file content; every history of opens, reads, torn writes and appends keeps every earlier content as an
   exact prefix; what the next append does after a torn tail; the tail-cutting open (seed C02-10) refuted. *)
From RipV Require Import Base.Prelude Model.Frames Model.Log Model.LogBytes Model.LogFile
  Proofs.LogBytesProofs.

Lemma open_keep_id : forall b, open_file OKeep b = b.
Proof. reflexivity. Qed.

Lemma is_prefix_refl b : is_prefix_of b b.
Proof. exists []. rewrite app_nil_r. reflexivity. Qed.

Lemma is_prefix_trans a b c : is_prefix_of a b -> is_prefix_of b c -> is_prefix_of a c.
Proof. intros [t ->] [u ->]. exists (t ++ u). rewrite app_assoc. reflexivity. Qed.

Lemma is_prefix_len a b : is_prefix_of a b -> (length a <= length b)%nat.
Proof. intros [t ->]. rewrite app_length. lia. Qed.

Lemma fstep_keep_prefix b o : is_prefix_of b (fstep OKeep b o).
Proof.
  destruct o as [| |line|d]; cbn [fstep open_file].
  - apply is_prefix_refl.
  - apply is_prefix_refl.
  - exists line. reflexivity.
  - exists d. reflexivity.
Qed.

Lemma ffinal_app p ops1 : forall b ops2, ffinal p b (ops1 ++ ops2) = ffinal p (ffinal p b ops1) ops2.
Proof. intros b ops2. unfold ffinal. apply fold_left_app. Qed.

Lemma ffinal_keep_prefix ops : forall b, is_prefix_of b (ffinal OKeep b ops).
Proof.
  induction ops as [|o r IH]; intros b.
  - apply is_prefix_refl.
  - change (ffinal OKeep b (o :: r)) with (ffinal OKeep (fstep OKeep b o) r).
    eapply is_prefix_trans; [apply fstep_keep_prefix | apply IH].
Qed.

(* the append-only statement across process lifetimes: whatever the file held at the start (nothing, whole
   lines, a torn tail, garbage), after ANY history of opens / reads / torn writes / appends, the content at
   every earlier moment is an exact prefix of the content at every later moment *)
Lemma history_prefix (b : bytes) (ops1 ops2 : list fop) :
  is_prefix_of (ffinal OKeep b ops1) (ffinal OKeep b (ops1 ++ ops2)).
Proof. rewrite ffinal_app. apply ffinal_keep_prefix. Qed.

(* the same about the trace: the i-th content is a prefix of the j-th for i <= j *)
Lemma ftrace_nth p ops : forall b i, (i < length ops)%nat ->
  nth_error (ftrace p b ops) i = Some (ffinal p b (firstn (S i) ops)).
Proof.
  induction ops as [|o r IH]; intros b i Hi; cbn [length] in Hi; [lia|].
  destruct i as [|i].
  - reflexivity.
  - cbn [ftrace nth_error]. rewrite IH by lia. reflexivity.
Qed.

Lemma trace_prefix (b : bytes) (ops : list fop) (i j : nat) (x y : bytes) :
  (i <= j)%nat -> nth_error (ftrace OKeep b ops) i = Some x -> nth_error (ftrace OKeep b ops) j = Some y ->
  is_prefix_of x y.
Proof.
  intros Hij Hx Hy.
  assert (Hlen : length (ftrace OKeep b ops) = length ops).
  { clear. revert b. induction ops as [|o r IH]; intros b; [reflexivity|]. cbn [ftrace length]. rewrite IH. reflexivity. }
  assert (Hj : (j < length ops)%nat) by (rewrite <- Hlen; apply nth_error_Some; rewrite Hy; discriminate).
  rewrite ftrace_nth in Hx by lia. rewrite ftrace_nth in Hy by lia.
  remember (S i) as i' eqn:Ei. remember (S j) as j' eqn:Ej.
  assert (Ex : x = ffinal OKeep b (firstn i' ops)) by congruence.
  assert (Ey : y = ffinal OKeep b (firstn j' ops)) by congruence.
  assert (E : firstn j' ops = firstn i' ops ++ skipn i' (firstn j' ops)).
  { rewrite <- (firstn_skipn i' (firstn j' ops)) at 1. f_equal.
    rewrite firstn_firstn. f_equal. lia. }
  rewrite Ex, Ey, E. apply history_prefix.
Qed.

(* opening and reading, any number of times, in any order: the same bytes *)
Definition opens_or_reads (o : fop) : bool := match o with FOpen | FRead => true | _ => false end.

Lemma opens_and_reads_keep_bytes ops : forall b,
  forallb opens_or_reads ops = true -> ffinal OKeep b ops = b.
Proof.
  induction ops as [|o r IH]; intros b H; [reflexivity|].
  cbn [forallb] in H. apply andb_prop in H. destruct H as [Ho Hr].
  change (ffinal OKeep b (o :: r)) with (ffinal OKeep (fstep OKeep b o) r).
  rewrite IH by exact Hr. destruct o; try discriminate; reflexivity.
Qed.

(* what the unchanged code does with the next frame after a torn tail: the process is restarted (any number
   of opens and reads), the frame and its LF go to the end of the file as it is *)
Lemma append_after_torn_tail (enc : frame -> bytes) (b d : bytes) (f : frame) (ops : list fop) :
  forallb opens_or_reads ops = true ->
  ffinal OKeep b (FTorn d :: ops ++ [FAppend (frame_line enc f)]) = b ++ d ++ enc f ++ [10].
Proof.
  intros H. change (ffinal OKeep b (FTorn d :: ops ++ [FAppend (frame_line enc f)]))
    with (ffinal OKeep (b ++ d) (ops ++ [FAppend (frame_line enc f)])).
  rewrite ffinal_app. rewrite (opens_and_reads_keep_bytes ops (b ++ d) H).
  cbn. unfold frame_line. rewrite <- app_assoc. reflexivity.
Qed.

Lemma split_lines_aux_line' cur x r : ~ In 10 x ->
  split_lines_aux cur (x ++ 10 :: r) = (let '(ls, t) := split_lines_aux [] r in ((rev cur ++ x) :: ls, t)).
Proof.
  revert cur; induction x as [|y s IH]; intros cur Hn.
  - cbn [app split_lines_aux]. rewrite N.eqb_refl. rewrite app_nil_r. reflexivity.
  - cbn [app split_lines_aux]. destruct (y =? 10) eqn:E.
    + apply N.eqb_eq in E. subst. exfalso. apply Hn. left. reflexivity.
    + rewrite IH by (intros Hin; apply Hn; right; exact Hin). cbn [rev]. rewrite <- app_assoc. reflexivity.
Qed.

(* ... so the file is whole lines again, every earlier line is untouched, and the torn bytes and the new
   frame share ONE line (which is neither of them: the glued line is what a reader finds) *)
Lemma append_after_torn_tail_lines (enc : frame -> bytes) (l : list frame) (d : bytes) (f : frame) :
  (forall g, ~ In 10 (enc g)) -> ~ In 10 d ->
  split_lines (log_bytes enc l ++ d ++ enc f ++ [10]) = (map enc l ++ [d ++ enc f], []).
Proof.
  intros Hn Hd. unfold split_lines. induction l as [|g r IH].
  - cbn [log_bytes map concat app]. rewrite app_assoc.
    rewrite split_lines_aux_line'.
    + cbn. reflexivity.
    + intros Hin. apply in_app_or in Hin. destruct Hin as [Hin|Hin]; [exact (Hd Hin) | exact (Hn f Hin)].
  - unfold log_bytes. cbn [map concat]. unfold encode_line at 1. rewrite <- !app_assoc.
    cbn [app]. rewrite split_lines_aux_line' by apply Hn.
    change (concat (map (encode_line enc) r)) with (log_bytes enc r).
    rewrite !app_assoc in IH. rewrite !app_assoc. rewrite IH. cbn [rev app]. reflexivity.
Qed.

(* ---------- the tail-cutting open (seed C02-10) ---------- *)
(* on a file of whole lines - and on an empty one - it does nothing: every test that lets appends finish
   (the repository's whole suite) sees the identity *)
Lemma cut_tail_hidden_on_whole_lines (w : N) (b : bytes) :
  b = [] \/ (exists b', b = b' ++ [10]) -> cut_tail w b = b.
Proof.
  intros [->|[b' ->]].
  - unfold cut_tail. cbn. reflexivity.
  - unfold cut_tail. set (len := length (b' ++ [10])). set (start := (len - N.to_nat w)%nat).
    assert (Hlen : len = S (length b')) by (unfold len; rewrite app_length; cbn; lia).
    destruct (Nat.le_gt_cases start (length b')) as [Hle|Hgt].
    + rewrite skipn_app. replace (start - length b')%nat with O by lia. cbn [skipn].
      rewrite rev_app_distr. cbn [rev app]. rewrite N.eqb_refl. reflexivity.
    + assert (start = len) by (unfold start in *; lia).
      rewrite H. unfold len. rewrite skipn_all. cbn. reflexivity.
Qed.

(* the small abstract instance of the 64 KiB witness: window 4, a log of one whole line "a\n", a torn part
   of 4 bytes (= the window): the window holds no LF, `unwrap_or(0)` - the WHOLE log is cut away *)
Definition ct_window : N := 4.
Definition ct_log : bytes := [97; 10].
Definition ct_torn : bytes := [98; 98; 98; 98].
Definition ct_torn_small : bytes := [98; 98; 98].

Lemma cut_tail_witness_total_loss : open_file (OCutTail ct_window) (ct_log ++ ct_torn) = [].
Proof. vm_compute. reflexivity. Qed.

Lemma cut_tail_witness_small : open_file (OCutTail ct_window) (ct_log ++ ct_torn_small) = ct_log.
Proof. vm_compute. reflexivity. Qed.

Lemma not_prefix_of_shorter a b : (length b < length a)%nat -> ~ is_prefix_of a b.
Proof. intros Hl Hp. apply is_prefix_len in Hp. lia. Qed.

Lemma open_cutting_tail_refuted :
  exists (w : N) (b d : bytes),
    ~ is_prefix_of (ffinal OKeep b [FTorn d]) (ffinal (OCutTail w) b [FTorn d; FOpen])
    /\ ffinal (OCutTail w) b [FTorn d; FOpen] = [].
Proof.
  exists ct_window, ct_log, ct_torn. split.
  - apply not_prefix_of_shorter. vm_compute. lia.
  - vm_compute. reflexivity.
Qed.

(* with a torn part shorter than the window the whole lines survive but the restart still rewrites the file:
   the content before the restart is not a prefix of the content after it *)
Lemma open_cutting_tail_small_refuted :
  exists (w : N) (b d : bytes),
    ~ is_prefix_of (ffinal OKeep b [FTorn d]) (ffinal (OCutTail w) b [FTorn d; FOpen])
    /\ ffinal (OCutTail w) b [FTorn d; FOpen] = b.
Proof.
  exists ct_window, ct_log, ct_torn_small. split.
  - apply not_prefix_of_shorter. vm_compute. lia.
  - vm_compute. reflexivity.
Qed.

(* in general: whenever the file does not end in LF the cutting open removes at least one byte - no file with
   an unterminated tail survives a restart *)
Lemma last_lf_bound l : forall i, last_lf l = Some i -> (i < length l)%nat.
Proof.
  induction l as [|x r IH]; intros i H; cbn [last_lf] in H; [discriminate|].
  destruct (last_lf r) as [j|] eqn:E.
  - injection H as <-. specialize (IH j eq_refl). cbn [length]. lia.
  - destruct (x =? 10); [injection H as <-; cbn [length]; lia | discriminate].
Qed.

Lemma last_lf_snoc_not_last l x : x <> 10 -> forall i, last_lf (l ++ [x]) = Some i -> (i < length l)%nat.
Proof.
  intros Hx. induction l as [|y r IH]; intros i H.
  - cbn in H. destruct (x =? 10) eqn:E; [apply N.eqb_eq in E; contradiction | discriminate].
  - cbn [app last_lf] in H. destruct (last_lf (r ++ [x])) as [j|] eqn:E.
    + injection H as <-. specialize (IH j eq_refl). cbn [length]. lia.
    + destruct (y =? 10); [injection H as <-; cbn [length]; lia | discriminate].
Qed.

Lemma cut_tail_removes_bytes (w : N) (b : bytes) (x : N) :
  w <> 0 -> x <> 10 -> (length (cut_tail w (b ++ [x])) < length (b ++ [x]))%nat.
Proof.
  intros Hw Hx. unfold cut_tail.
  set (len := length (b ++ [x])). set (start := (len - N.to_nat w)%nat).
  assert (Hlen : len = S (length b)) by (unfold len; rewrite app_length; cbn; lia).
  assert (Hst : (start <= length b)%nat) by (unfold start; lia).
  rewrite skipn_app. replace (start - length b)%nat with O by lia. cbn [skipn].
  rewrite rev_app_distr. cbn [rev app].
  destruct (x =? 10) eqn:E; [apply N.eqb_eq in E; contradiction|].
  destruct (last_lf (skipn start b ++ [x])) as [nl|] eqn:El.
  - apply last_lf_snoc_not_last in El; [|exact Hx].
    rewrite skipn_length in El. rewrite firstn_length. lia.
  - cbn [length]. lia.
Qed.

Lemma open_cutting_tail_never_keeps_a_torn_tail (w : N) (b : bytes) (x : N) :
  w <> 0 -> x <> 10 -> ~ is_prefix_of (b ++ [x]) (open_file (OCutTail w) (b ++ [x])).
Proof. intros Hw Hx. apply not_prefix_of_shorter. cbn [open_file]. apply cut_tail_removes_bytes; assumption. Qed.

(* ---------- non-vacuity: a history with a torn tail, two restarts, reads, a glued append, a clean append ---------- *)
Definition lf_demo_ops : list lfop := [LAppend 5; LTorn 3 0; LOpen; LRead; LOpen; LAppend 4; LTorn 6 2; LOpen; LAppend 2].
Lemma lf_demo :
  model_obs_logfile {| lf_ops := lf_demo_ops; lf_expect := [] |} =
  [5; 0;  8; 3;  8; 3;  8; 3;  8; 3;  12; 0;  18; 4;  18; 4;  20; 0].
Proof. vm_compute. reflexivity. Qed.

(* ---------- T1 lists ---------- *)
Lemma harmless_effects_keep_bytes es : forall b, forallb effect_harmless es = true -> effects_bytes es b = Some b.
Proof.
  induction es as [|e r IH]; intros b H; [reflexivity|].
  cbn [forallb] in H. apply andb_prop in H. destruct H as [He Hr].
  cbn [effects_bytes]. destruct e; try discriminate; cbn [effect_bytes]; apply IH; exact Hr.
Qed.

Lemma open_effects_ok_keep_bytes es b : open_effects_ok es = true -> effects_bytes es b = Some b.
Proof. intros H. apply andb_prop in H. apply harmless_effects_keep_bytes. apply H. Qed.

Lemma read_effects_ok_keep_bytes es b : read_effects_ok es = true -> effects_bytes es b = Some b.
Proof.
  intros H. apply andb_prop in H. destruct H as [H _]. apply harmless_effects_keep_bytes.
  rewrite forallb_forall in *. intros e He. specialize (H e He). destruct e; try discriminate; reflexivity.
Qed.

(* the seeded shape: [mkdir; open create+append; open read+write; set_len] is not the identity *)
Lemma cutting_effects_rejected : open_effects_ok [EMkdirParents; EOpenCreateAppend; EOpenWrite; ESetLen] = false.
Proof. reflexivity. Qed.
