(* C18 — proofs about Model/Authority.v *)
From RipV Require Import Base.Prelude Model.Authority.

(* ------------------------------------------------------------------ witnesses (refutations) *)
Definition two_servers : list proc := [fresh 1 DServer; fresh 2 DServer].
Definition rep (n : nat) (i : nat) (o : N) : list event := repeat (Step i o) n.

(* S13: stale lock of the dead pid 900; both loops pass the re-read, A renames and acquires, B renames A's lock *)
Definition s13_sched : list event := rep 6 0 0 ++ rep 6 1 0 ++ rep 4 0 0 ++ rep 4 1 0.
Definition s13_final := run true (init (LRec 900) MAbsent two_servers) s13_sched.

Lemma s13_two_holders : holders s13_final = [1; 2] /\ s_took_lock s13_final = true.
Proof. vm_compute. split; reflexivity. Qed.

(* S13b: half-written lock of the dead creator 900, both loops saw it invalid for > 1 s (grace bit; the creator is
   dead, so the grace assumption holds); A cleans and acquires, B's cleanup renames A's valid lock *)
Definition s13b_sched : list event :=
  rep 2 0 0 ++ [Step 0 2] ++ rep 2 1 0 ++ [Step 1 2] ++ rep 5 0 0 ++ rep 5 1 0.
Definition s13b_final := run true (init (LHalf 900) MAbsent two_servers) s13b_sched.
Lemma s13b_two_holders : holders s13b_final = [1; 2] /\ s_took_lock s13b_final = true.
Proof. vm_compute. split; reflexivity. Qed.

(* S13c: one cleaner, one acquirer: the cleaner read the dead authority's meta, the new authority published its
   own, the cleaner renames that one *)
Definition s13c_sched : list event := rep 9 0 0 ++ rep 5 1 0 ++ rep 1 0 0.
Definition s13c_final := run true (init (LRec 900) (MRec 900) two_servers) s13c_sched.
Lemma s13c_meta_taken :
  holders s13c_final = [2] /\ s_lock s13c_final = LRec 2 /\ s_meta s13c_final = MAbsent
  /\ s_took_meta s13c_final = true /\ s_took_lock s13c_final = false.
Proof. vm_compute. repeat split; reflexivity. Qed.

(* without the grace assumption: A is between create and write, B's timer fires, B cleans and acquires, A's write
   lands in the renamed inode and try_acquire returns Ok *)
Definition grace_sched : list event := [Step 0 0] ++ rep 2 1 0 ++ [Step 1 2] ++ rep 5 1 0 ++ [Step 0 0].
Definition grace_final (ag : bool) := run ag (init LAbsent MAbsent two_servers) grace_sched.
Lemma grace_needed : holders (grace_final false) = [1; 2] /\ holders (grace_final true) = [1].
Proof. vm_compute. split; reflexivity. Qed.

(* ------------------------------------------------------------------ the refutations, stated as Props/C18.v states them *)
Definition s13_init := init (LRec 900) MAbsent two_servers.
Definition s13b_init := init (LHalf 900) MAbsent two_servers.
Definition s13c_init := init (LRec 900) (MRec 900) two_servers.
Definition empty_init := init LAbsent MAbsent two_servers.

Lemma mutex_all_schedules_refuted :
  exists sched : list event,
    holders (run true s13_init sched) = [1; 2] /\ s_took_lock (run true s13_init sched) = true.
Proof. exists s13_sched. vm_compute. split; reflexivity. Qed.

Lemma corrupt_cleanup_race_refuted :
  exists sched : list event,
    holders (run true s13b_init sched) = [1; 2] /\ s_took_lock (run true s13b_init sched) = true.
Proof. exists s13b_sched. vm_compute. split; reflexivity. Qed.

Lemma meta_of_live_authority_taken_refuted :
  exists sched : list event,
    holders (run true s13c_init sched) = [2] /\ s_lock (run true s13c_init sched) = LRec 2
    /\ s_meta (run true s13c_init sched) = MAbsent
    /\ s_took_meta (run true s13c_init sched) = true /\ s_took_lock (run true s13c_init sched) = false.
Proof. exists s13c_sched. vm_compute. repeat split; reflexivity. Qed.

Lemma corrupt_cleanup_needs_grace :
  exists sched : list event,
    holders (run false empty_init sched) = [1; 2] /\ holders (run true empty_init sched) = [1].
Proof. exists grace_sched. vm_compute. split; reflexivity. Qed.
