(* C18 — proofs about Model/Authority.v *)
From RipV Require Import Base.Prelude Model.Authority Proofs.AuthorityInv Proofs.AuthorityLive Proofs.AuthorityTake.

(* ------------------------------------------------------------------ witnesses (refutations) *)
Definition two_servers : list proc := [fresh 1 DServer; fresh 2 DServer].
Definition rep (n : nat) (i : nat) (o : N) : list event := repeat (Step i o) n.

(* S13: stale lock of the dead pid 900; both loops pass the re-read, A renames and acquires, B renames A's lock *)
Definition s13_sched : list event := rep 6 0 0 ++ rep 6 1 0 ++ rep 4 0 0 ++ rep 4 1 0.
Definition s13_final := run true (init (LRec 900) MAbsent two_servers) s13_sched.

Lemma s13_two_holders : holders s13_final = [1; 2] /\ s_took_lock s13_final = true.
Proof. vm_compute. split; reflexivity. Qed.

(* S13b: half-written lock of the dead creator 900, both loops saw it invalid for > 1 s (grace bit; the creator is
   dead, so the grace assumption holds); A cleans and acquires, B's cleanup renames A's valid lock *)
Definition s13b_sched : list event :=
  rep 2 0 0 ++ [Step 0 2] ++ rep 2 1 0 ++ [Step 1 2] ++ rep 5 0 0 ++ rep 5 1 0.
Definition s13b_final := run true (init (LHalf 900) MAbsent two_servers) s13b_sched.
Lemma s13b_two_holders : holders s13b_final = [1; 2] /\ s_took_lock s13b_final = true.
Proof. vm_compute. split; reflexivity. Qed.

(* S13c: one cleaner, one acquirer: the cleaner read the dead authority's meta, the new authority published its
   own, the cleaner renames that one *)
Definition s13c_sched : list event := rep 9 0 0 ++ rep 5 1 0 ++ rep 1 0 0.
Definition s13c_final := run true (init (LRec 900) (MRec 900) two_servers) s13c_sched.
Lemma s13c_meta_taken :
  holders s13c_final = [2] /\ s_lock s13c_final = LRec 2 /\ s_meta s13c_final = MAbsent
  /\ s_took_meta s13c_final = true /\ s_took_lock s13c_final = false.
Proof. vm_compute. repeat split; reflexivity. Qed.

(* without the grace assumption: A is between create and write, B's timer fires, B cleans and acquires, A's write
   lands in the renamed inode and try_acquire returns Ok *)
Definition grace_sched : list event := [Step 0 0] ++ rep 2 1 0 ++ [Step 1 2] ++ rep 5 1 0 ++ [Step 0 0].
Definition grace_final (ag : bool) := run ag (init LAbsent MAbsent two_servers) grace_sched.
Lemma grace_needed : holders (grace_final false) = [1; 2] /\ holders (grace_final true) = [1].
Proof. vm_compute. split; reflexivity. Qed.

(* ------------------------------------------------------------------ the refutations, stated as Props/C18.v states them *)
Definition s13_init := init (LRec 900) MAbsent two_servers.
Definition s13b_init := init (LHalf 900) MAbsent two_servers.
Definition s13c_init := init (LRec 900) (MRec 900) two_servers.
Definition empty_init := init LAbsent MAbsent two_servers.

Lemma mutex_all_schedules_refuted :
  exists sched : list event,
    holders (run true s13_init sched) = [1; 2] /\ s_took_lock (run true s13_init sched) = true.
Proof. exists s13_sched. vm_compute. split; reflexivity. Qed.

Lemma corrupt_cleanup_race_refuted :
  exists sched : list event,
    holders (run true s13b_init sched) = [1; 2] /\ s_took_lock (run true s13b_init sched) = true.
Proof. exists s13b_sched. vm_compute. split; reflexivity. Qed.

Lemma meta_of_live_authority_taken_refuted :
  exists sched : list event,
    holders (run true s13c_init sched) = [2] /\ s_lock (run true s13c_init sched) = LRec 2
    /\ s_meta (run true s13c_init sched) = MAbsent
    /\ s_took_meta (run true s13c_init sched) = true /\ s_took_lock (run true s13c_init sched) = false.
Proof. exists s13c_sched. vm_compute. repeat split; reflexivity. Qed.

Lemma corrupt_cleanup_needs_grace :
  exists sched : list event,
    holders (run false empty_init sched) = [1; 2] /\ holders (run true empty_init sched) = [1].
Proof. exists grace_sched. vm_compute. split; reflexivity. Qed.

(* ------------------------------------------------------------------ the hypotheses of the positive theorems are satisfiable *)
Lemma two_servers_ok l m :
  (forall p, lock_pid l = Some p -> p = 900) -> (forall p, meta_pid m = Some p -> p = 900) ->
  init_ok l m two_servers.
Proof.
  intros Hl Hm. split; [|split; [|split]].
  - cbn. repeat constructor; cbn; intuition discriminate.
  - intros q [<-|[<-|[]]]; left; [left|left]; reflexivity.
  - intros p E A. rewrite (Hl p E) in A. vm_compute in A. discriminate.
  - intros p E A. rewrite (Hm p E) in A. vm_compute in A. discriminate.
Qed.

Lemma s13_init_ok : init_ok (LRec 900) MAbsent two_servers.
Proof. apply two_servers_ok; cbn; intros p E; inversion E; reflexivity. Qed.
Lemma s13c_init_ok : init_ok (LRec 900) (MRec 900) two_servers.
Proof. apply two_servers_ok; cbn; intros p E; inversion E; reflexivity. Qed.

(* a serial recovery: server 1 breaks the dead lock, acquires, publishes meta and serves; then server 2 runs into the
   live lock and gives up; then server 1 shuts down and... (no_overlap holds along the way) *)
Definition serial_sched : list event := rep 16 0 0 ++ rep 8 1 0.
Lemma serial_example :
  init_ok (LRec 900) (MRec 900) two_servers
  /\ no_overlap true s13c_init serial_sched = true
  /\ holders (run true s13c_init serial_sched) = [1]
  /\ s_lock (run true s13c_init serial_sched) = LRec 1 /\ s_meta (run true s13c_init serial_sched) = MRec 1.
Proof. split; [exact s13c_init_ok|]. vm_compute. repeat split; reflexivity. Qed.

(* both contenders are inside the cleanup at the same time, but the loser's rename comes before the winner's create:
   still allowed by no_overlap, still one holder *)
Definition interleaved_sched : list event := rep 6 0 0 ++ rep 6 1 0 ++ rep 1 0 0 ++ rep 1 1 0 ++ rep 12 0 0.
Lemma interleaved_example :
  no_overlap true s13_init interleaved_sched = true
  /\ (length (holders (run true s13_init interleaved_sched)) <= 1)%nat.
Proof. vm_compute. split; [reflexivity|]. repeat constructor. Qed.

(* the three witnesses are exactly what the hypothesis excludes *)
Lemma witnesses_overlap :
  no_overlap true s13_init s13_sched = false /\ no_overlap true s13b_init s13b_sched = false
  /\ no_overlap true s13c_init s13c_sched = false.
Proof. vm_compute. repeat split; reflexivity. Qed.

(* a live serving authority (pid 800) with two contenders: a well-formed leftover state *)
Definition with_bystander : list proc := [serving 800; fresh 1 DServer; fresh 2 DClient].
Lemma bystander_ok : init_ok (LRec 800) (MRec 800) with_bystander
  /\ (forall p, lock_pid (LRec 800) = Some p -> pid_alive with_bystander p = true)
  /\ (forall p, meta_pid (MRec 800) = Some p -> pid_alive with_bystander p = true).
Proof.
  split; [|split; cbn; intros p E; inversion E; subst; reflexivity].
  split; [|split; [|split]].
  - cbn. repeat constructor; cbn; intuition discriminate.
  - intros q [<-|[<-|[<-|[]]]]; [right; split; reflexivity|left; left; reflexivity|left; right; reflexivity].
  - cbn. intros p E _. inversion E; subst. left; reflexivity.
  - cbn. intros p E _. inversion E; subst. left; reflexivity.
Qed.

Definition three_contenders : list proc := [fresh 1 DServer; fresh 2 DServer; fresh 3 DClient].
Definition race_sched : list event :=
  [Step 0 0; Step 1 0; Step 2 0; Step 0 0; Step 1 0; Step 2 0; Step 0 0; Step 1 0; Step 0 0; Step 2 0; Step 0 0; Step 1 0].
Lemma no_leftovers_example :
  contenders_ok three_contenders /\ crash_free race_sched = true
  /\ holders (run true (init LAbsent MAbsent three_contenders) race_sched) = [1].
Proof.
  split; [|vm_compute; split; reflexivity].
  split.
  - cbn. repeat constructor; cbn; intuition discriminate.
  - intros q [<-|[<-|[<-|[]]]]; [left|left|right]; reflexivity.
Qed.

(* the full statements (every schedule, every leftover state) and their refutation *)
Definition mutex_all_schedules_full : Prop :=
  forall l m ps es, init_ok l m ps -> (length (holders (run true (init l m ps) es)) <= 1)%nat.
Lemma s13_not_le : (length (holders (run true (init (LRec 900%N) MAbsent two_servers) s13_sched)) <= 1)%nat -> False.
Proof. intros X. vm_compute in X. lia. Qed.
Lemma mutex_all_schedules_full_false : ~ mutex_all_schedules_full.
Proof. intros H. exact (s13_not_le (H (LRec 900) MAbsent two_servers s13_sched s13_init_ok)). Qed.

Definition live_files_never_taken_full : Prop :=
  forall l m ps es, init_ok l m ps ->
    s_took_lock (run true (init l m ps) es) = false /\ s_took_meta (run true (init l m ps) es) = false.
Lemma s13_taken : s_took_lock (run true (init (LRec 900) MAbsent two_servers) s13_sched) = false /\ s_took_meta (run true (init (LRec 900) MAbsent two_servers) s13_sched) = false -> False.
Proof. intros X. vm_compute in X. destruct X; discriminate. Qed.
Lemma live_files_never_taken_full_false : ~ live_files_never_taken_full.
Proof. intros H. exact (s13_taken (H (LRec 900) MAbsent two_servers s13_sched s13_init_ok)). Qed.

(* ------------------------------------------------------------------ recovery: the hypotheses are satisfiable *)
Lemma recovers_example :
  (forall q, In q two_servers -> contender q) /\ nth_error two_servers 1 = Some (fresh 2 DServer)
  /\ dead_leftover two_servers (LRec 900) (MRec 901) /\ dead_leftover two_servers (LHalf 900) (MRec 901).
Proof.
  split; [intros q [<-|[<-|[]]]; left; reflexivity|]. split; [reflexivity|].
  split; split; cbn; intros p E; inversion E; subst; reflexivity.
Qed.

(* non-vacuity of the all-schedules theorem: runs in which nothing live was taken and somebody holds; and the S13 run,
   where the flag is set *)
Lemma not_taken_example :
  s_took_lock (run true s13c_init serial_sched) = false /\ holders (run true s13c_init serial_sched) = [1]
  /\ s_took_lock (run false empty_init grace_sched) = true.
Proof. vm_compute. repeat split; reflexivity. Qed.

Definition bystander_sched : list event := [Step 1 0; Step 2 0; Step 1 0; Step 2 0; Crash 1; Step 2 2; Step 2 0; Step 2 6].
Lemma undisturbed_example :
  (forall q, In q [fresh 1 DServer; fresh 2 DClient] -> contender q)
  /\ (forall e, In e bystander_sched -> ev_idx e <> 0%nat).
Proof.
  split.
  - intros q [<-|[<-|[]]]; [left|right]; reflexivity.
  - intros e He. cbn in He. repeat (destruct He as [<-|He]; [cbn; lia|]). destruct He.
Qed.

(* crash_free is needed in mutex_no_leftovers: from NO files at all, one crash of the first authority turns the state into
   a dead-leftover state and the S13 race between the two other contenders follows *)
Definition three_servers : list proc := [fresh 1 DServer; fresh 2 DServer; fresh 3 DServer].
Definition crash_sched : list event := rep 2 0 0 ++ [Crash 0] ++ rep 6 1 0 ++ rep 6 2 0 ++ rep 4 1 0 ++ rep 4 2 0.
Lemma no_leftovers_needs_crash_free :
  exists sched : list event,
    holders (run true (init LAbsent MAbsent three_servers) sched) = [2; 3]
    /\ s_took_lock (run true (init LAbsent MAbsent three_servers) sched) = true.
Proof. exists crash_sched. vm_compute. split; reflexivity. Qed.
