(* Lemmas about Model/Paths.v (C13): the lexical resolvers are sound with respect to where the
   operating system lands (`kresolve`), for every root, every string and every working directory. *)
From RipV Require Import Base.Prelude Base.Fs Model.Paths.
Require Import Coq.Strings.String.

(* ---------- split ---------- *)
Lemma split_aux_app c cur a b :
  split_aux c cur (a ++ c :: b) = split_aux c cur a ++ split_aux c [] b.
Proof.
  revert cur; induction a as [|x a IH]; intros cur; cbn [app split_aux].
  - rewrite N.eqb_refl. reflexivity.
  - destruct (x =? c) eqn:E.
    + rewrite IH. reflexivity.
    + apply IH.
Qed.

Lemma segs_app_sep a b : segs (a ++ 47 :: b) = segs a ++ segs b.
Proof. unfold segs, split_on. apply split_aux_app. Qed.

Lemma segs_nil : segs [] = [[]].
Proof. reflexivity. Qed.

Lemma segs_snoc_sep a : segs (a ++ [47]) = segs a ++ [[]].
Proof. rewrite segs_app_sep. reflexivity. Qed.

Lemma split_aux_noslash c s : forall cur,
  (forall x, In x cur -> x <> c) -> Forall (fun sg => ~ In c sg) (split_aux c cur s).
Proof.
  induction s as [|x s IH]; intros cur Hc; cbn [split_aux].
  - constructor; [|constructor]. intros Hin. apply in_rev in Hin. exact (Hc c Hin eq_refl).
  - destruct (x =? c) eqn:E.
    + constructor.
      * intros Hin. apply in_rev in Hin. exact (Hc c Hin eq_refl).
      * apply IH. intros y [].
    + apply IH. intros y [Hy|Hy]; [subst y; apply N.eqb_neq; exact E | apply Hc; exact Hy].
Qed.

Lemma segs_noslash p : Forall (fun sg => ~ In 47 sg) (segs p).
Proof. unfold segs, split_on. apply split_aux_noslash. intros x []. Qed.

(* ---------- walk ---------- *)
Lemma walk_app l1 : forall c l2, walk c (l1 ++ l2) = walk (walk c l1) l2.
Proof.
  induction l1 as [|s l1 IH]; intros c l2; cbn [app walk]; [reflexivity|].
  destruct (seg_trivial s); [apply IH|]. destruct (seg_dotdot s); apply IH.
Qed.

Lemma walk_noparent l : forall c, existsb seg_dotdot l = false ->
  walk c l = c ++ filter (fun s => negb (seg_trivial s)) l.
Proof.
  induction l as [|s l IH]; intros c H; cbn [walk filter existsb] in *.
  - rewrite app_nil_r. reflexivity.
  - apply orb_false_iff in H. destruct H as [Hs Hl]. rewrite Hs.
    destruct (seg_trivial s); cbn [negb].
    + apply IH; exact Hl.
    + rewrite IH by exact Hl. rewrite <- app_assoc. reflexivity.
Qed.

Lemma seg_trivial_nil : seg_trivial [] = true.
Proof. reflexivity. Qed.

(* ---------- join ---------- *)
Lemma no_sep_cases a : no_sep a = true -> a = [] \/ exists a', a = a' ++ [47].
Proof.
  induction a as [|x a IH]; intros H; [left; reflexivity|right].
  destruct a as [|y r].
  - cbn [no_sep] in H. apply N.eqb_eq in H. subst x. exists []. reflexivity.
  - change (no_sep (x :: y :: r)) with (no_sep (y :: r)) in H.
    destruct (IH H) as [E|[a' E]]; [discriminate|]. exists (x :: a'). rewrite E. reflexivity.
Qed.

Lemma starts_slash_app a b : a <> [] -> starts_slash (a ++ b) = starts_slash a.
Proof. destruct a as [|x a]; [congruence|]. intros _. reflexivity. Qed.

Lemma kresolve_join cwd a b :
  is_absolute b = false -> has_parent b = false ->
  kresolve cwd (join a b) = kresolve cwd a ++ real_segs b.
Proof.
  intros Hab Hpar. unfold join. rewrite Hab. unfold has_parent in Hpar.
  destruct (no_sep a) eqn:Hs.
  - destruct (no_sep_cases a Hs) as [E|[a' E]]; subst a.
    + cbn [app]. unfold kresolve at 1. rewrite Hab. rewrite walk_noparent by exact Hpar.
      unfold kresolve. cbn [is_absolute starts_slash]. rewrite segs_nil. cbn [walk]. rewrite seg_trivial_nil.
      reflexivity.
    + rewrite <- app_assoc. cbn [app]. unfold kresolve, is_absolute.
      assert (Habs : starts_slash (a' ++ 47 :: b) = starts_slash (a' ++ [47])).
      { destruct a' as [|x a']; reflexivity. }
      rewrite Habs, segs_app_sep, segs_snoc_sep.
      destruct (starts_slash (a' ++ [47])); rewrite !walk_app; cbn [walk]; rewrite seg_trivial_nil;
        rewrite walk_noparent by exact Hpar; reflexivity.
  - assert (Hne : a <> []) by (intros ->; discriminate).
    unfold kresolve, is_absolute. rewrite starts_slash_app by exact Hne. rewrite segs_app_sep.
    destruct (starts_slash a); rewrite walk_app, walk_noparent by exact Hpar; reflexivity.
Qed.

(* ---------- the tool / task / safe_join resolver ---------- *)
Lemma resolve_tool_ok root raw p :
  resolve_tool root raw = Ok p -> is_absolute raw = false /\ has_parent raw = false /\ p = join root raw.
Proof.
  unfold resolve_tool. destruct (is_absolute raw); [discriminate|]. destruct (has_parent raw); [discriminate|].
  intros H; inversion H; auto.
Qed.

Lemma resolver_sound root raw p cwd :
  resolve_tool root raw = Ok p -> kresolve cwd p = kresolve cwd root ++ real_segs raw.
Proof.
  intros H. destruct (resolve_tool_ok _ _ _ H) as (Ha & Hp & ->). apply kresolve_join; assumption.
Qed.

Lemma resolver_under root raw p cwd : resolve_tool root raw = Ok p -> under cwd root p.
Proof. intros H. exists (real_segs raw). eapply resolver_sound; exact H. Qed.

Lemma resolver_refuses root raw :
  is_absolute raw = true \/ has_parent raw = true ->
  resolve_tool root raw = Err V_ABS \/ resolve_tool root raw = Err V_PARENT.
Proof.
  unfold resolve_tool. intros [H|H].
  - rewrite H. left; reflexivity.
  - destruct (is_absolute raw); [left; reflexivity|]. rewrite H. right; reflexivity.
Qed.

Lemma resolver_accepts root raw :
  is_absolute raw = false -> has_parent raw = false -> resolve_tool root raw = Ok (join root raw).
Proof. unfold resolve_tool. intros -> ->. reflexivity. Qed.

(* ---------- patch headers ---------- *)
Lemma parse_rel_path_ok raw t :
  parse_rel_path raw = Ok t -> t = trim raw /\ t <> [] /\ is_absolute t = false /\ has_parent t = false.
Proof.
  unfold parse_rel_path. destruct (trim raw) as [|x r] eqn:E; [discriminate|].
  destruct (is_absolute (x :: r)) eqn:Ea; [discriminate|]. destruct (has_parent (x :: r)) eqn:Ep; [discriminate|].
  intros H; inversion H; subst t. repeat split; try assumption. discriminate.
Qed.

Lemma patch_target_sound root raw p cwd :
  patch_target root raw = Ok p -> kresolve cwd p = kresolve cwd root ++ real_segs (trim raw).
Proof.
  unfold patch_target. destruct (parse_rel_path raw) as [t|e] eqn:E; [|discriminate].
  destruct (parse_rel_path_ok _ _ E) as (-> & _ & _ & _). apply resolver_sound.
Qed.

Lemma patch_refuses raw :
  trim raw = [] \/ is_absolute (trim raw) = true \/ has_parent (trim raw) = true ->
  exists e, parse_rel_path raw = Err e.
Proof.
  unfold parse_rel_path. destruct (trim raw) as [|x r]; [eexists; reflexivity|].
  intros [H|[H|H]]; [discriminate| |].
  - rewrite H. eexists; reflexivity.
  - destruct (is_absolute (x :: r)); [eexists; reflexivity|]. rewrite H. eexists; reflexivity.
Qed.

(* ---------- strip_prefix / to_relative ---------- *)
Lemma strip_body_suffix sg : forall b rest, strip_body sg b = Some rest -> exists pre, sg = pre ++ rest.
Proof.
  induction sg as [|s sg IH]; intros b rest H.
  - destruct b; cbn [strip_body] in H; [|discriminate]. inversion H. exists []. reflexivity.
  - destruct b as [|c b].
    + cbn [strip_body] in H. inversion H. exists []. reflexivity.
    + cbn [strip_body] in H. destruct (seg_trivial s).
      * destruct (IH _ _ H) as [pre E]. exists (s :: pre). rewrite E. reflexivity.
      * destruct (comp_eqb (seg_comp s) c); [|discriminate].
        destruct (IH _ _ H) as [pre E]. exists (s :: pre). rewrite E. reflexivity.
Qed.

Lemma drop_trivial_split l :
  exists pre, l = pre ++ drop_trivial l /\ forallb seg_trivial pre = true.
Proof.
  induction l as [|s l IH]; cbn [drop_trivial].
  - exists []. split; reflexivity.
  - destruct (seg_trivial s) eqn:E.
    + destruct IH as (pre & E1 & E2). exists (s :: pre). split; [cbn [app]; rewrite <- E1; reflexivity|].
      cbn [forallb]. rewrite E, E2. reflexivity.
    + exists []. split; reflexivity.
Qed.

Lemma drop_trivial_head l :
  match drop_trivial l with [] => True | s :: _ => seg_trivial s = false end.
Proof.
  induction l as [|s l IH]; cbn [drop_trivial]; [exact I|]. destruct (seg_trivial s) eqn:E; [exact IH|exact E].
Qed.

Lemma trim_trivial_sub l : exists a b, l = a ++ trim_trivial l ++ b.
Proof.
  unfold trim_trivial. destruct (drop_trivial_split l) as (pre & E1 & _).
  destruct (drop_trivial_split (rev (drop_trivial l))) as (pre2 & E2 & _).
  exists pre, (rev pre2). rewrite E1 at 1. f_equal.
  rewrite <- (rev_involutive (drop_trivial l)) at 1. rewrite E2 at 1. rewrite rev_app_distr. reflexivity.
Qed.

Lemma trim_trivial_head l :
  match trim_trivial l with [] => True | s :: _ => seg_trivial s = false end.
Proof.
  unfold trim_trivial. set (m := drop_trivial l).
  assert (Hm : match m with [] => True | s :: _ => seg_trivial s = false end) by apply drop_trivial_head.
  destruct (drop_trivial_split (rev m)) as (pre & E & Hpre).
  assert (Em : m = rev (drop_trivial (rev m)) ++ rev pre).
  { rewrite <- (rev_involutive m) at 1. rewrite E at 1. apply rev_app_distr. }
  destruct (rev (drop_trivial (rev m))) as [|h t] eqn:Eh; [exact I|].
  rewrite Em in Hm. exact Hm.
Qed.

Lemma join_segs_not_abs l :
  match l with [] => True | s :: _ => seg_trivial s = false /\ ~ In 47 s end ->
  starts_slash (join_segs l) = false.
Proof.
  destruct l as [|s r]; [reflexivity|]. intros [Ht Hs].
  assert (Hs0 : starts_slash s = false).
  { destruct s as [|x s]; [reflexivity|]. cbn [starts_slash]. destruct (N.eq_dec x 47) as [->|Hne].
    - exfalso. apply Hs. left; reflexivity.
    - destruct x as [|px]; [reflexivity|]. repeat (destruct px as [px|px|]; try reflexivity). congruence. }
  assert (Hne : s <> []) by (intros ->; discriminate).
  destruct r as [|s2 r]; cbn [join_segs]; [exact Hs0|]. rewrite starts_slash_app by exact Hne. exact Hs0.
Qed.

Lemma Forall_app_inv {A} (P : A -> Prop) a b : Forall P (a ++ b) -> Forall P a /\ Forall P b.
Proof. intros H. apply Forall_app in H. exact H. Qed.

Lemma strip_prefix_not_abs base p rel : strip_prefix base p = Some rel -> is_absolute rel = false.
Proof.
  unfold strip_prefix. destruct (list_eqb comp_eqb (head_comp base) (head_comp p)); [|discriminate].
  destruct (strip_body (segs p) (body_comps base)) as [rest|] eqn:E; [|discriminate].
  intros H; inversion H; subst rel. unfold is_absolute. apply join_segs_not_abs.
  pose proof (trim_trivial_head rest) as Hh. destruct (trim_trivial rest) as [|s t] eqn:Et; [exact I|].
  split; [exact Hh|].
  destruct (strip_body_suffix _ _ _ E) as [pre Epre]. destruct (trim_trivial_sub rest) as (a & b & Eab).
  pose proof (segs_noslash p) as Hns. rewrite Epre, Eab, Et in Hns.
  apply Forall_app_inv in Hns. destruct Hns as [_ Hns]. apply Forall_app_inv in Hns. destruct Hns as [_ Hns].
  apply Forall_app_inv in Hns. destruct Hns as [Hns _]. inversion Hns; assumption.
Qed.

Lemma to_relative_ok root raw rel :
  to_relative root raw = Ok rel -> is_absolute rel = false /\ has_parent rel = false.
Proof.
  unfold to_relative. destruct (strip_prefix root _) as [r|] eqn:E; [|discriminate].
  destruct (has_parent r) eqn:Hp; [discriminate|]. intros H; inversion H; subst r.
  split; [eapply strip_prefix_not_abs; exact E|exact Hp].
Qed.

(* what is recorded passes the same two guards as a file-tool argument, and rewind's
   `root.join(rel)` lands below the root *)
Lemma to_relative_sound root raw rel cwd :
  to_relative root raw = Ok rel ->
  resolve_tool root rel = Ok (restore_path root rel)
  /\ kresolve cwd (restore_path root rel) = kresolve cwd root ++ real_segs rel.
Proof.
  intros H. destruct (to_relative_ok _ _ _ H) as [Ha Hp]. unfold restore_path. split.
  - apply resolver_accepts; assumption.
  - apply kresolve_join; assumption.
Qed.

Lemma checkpoint_paths_confined root raw rel cwd :
  to_relative root raw = Ok rel ->
  under cwd root (probe_path root rel) /\ under cwd root (restore_path root rel)
  /\ probe_path root rel = restore_path root rel.
Proof.
  intros H. destruct (to_relative_sound _ _ _ cwd H) as [_ E]. repeat split.
  - exists (real_segs rel). exact E.
  - exists (real_segs rel). exact E.
Qed.

(* the copy inside the store: <store>/<session>/<id>/files joined with the same validated string *)
Lemma store_copy_confined root raw rel files_root cwd :
  to_relative root raw = Ok rel -> under cwd files_root (join files_root rel).
Proof.
  intros H. destruct (to_relative_ok _ _ _ H) as [Ha Hp]. exists (real_segs rel). apply kresolve_join; assumption.
Qed.


(* ---------- what strip_prefix leaves of root.join(raw) ---------- *)
Definition nt (s : str) : bool := negb (seg_trivial s).

Lemma seg_dotdot_not_trivial s : seg_dotdot s = true -> seg_trivial s = false.
Proof. unfold seg_dotdot. intros H. apply lN_eqb_spec in H. subst s. reflexivity. Qed.

Lemma existsb_dotdot_filter l : existsb seg_dotdot (filter nt l) = existsb seg_dotdot l.
Proof.
  induction l as [|s l IH]; [reflexivity|]. cbn [filter existsb]. unfold nt at 1.
  destruct (seg_trivial s) eqn:E; cbn [negb existsb].
  - rewrite IH. destruct (seg_dotdot s) eqn:D; [|reflexivity]. rewrite (seg_dotdot_not_trivial _ D) in E. discriminate.
  - rewrite IH. reflexivity.
Qed.

Lemma has_parent_real p : has_parent p = existsb seg_dotdot (real_segs p).
Proof. unfold has_parent, real_segs. symmetry. apply (existsb_dotdot_filter (segs p)). Qed.

Lemma forallb_rev {A} (g : A -> bool) l : forallb g (rev l) = forallb g l.
Proof.
  induction l as [|x l IH]; [reflexivity|]. cbn [rev forallb]. rewrite forallb_app, IH. cbn [forallb].
  rewrite andb_true_r. apply andb_comm.
Qed.

Lemma trim_trivial_sub2 l : exists a b,
  l = a ++ trim_trivial l ++ b /\ forallb seg_trivial a = true /\ forallb seg_trivial b = true.
Proof.
  unfold trim_trivial. destruct (drop_trivial_split l) as (pre & E1 & H1).
  destruct (drop_trivial_split (rev (drop_trivial l))) as (pre2 & E2 & H2).
  exists pre, (rev pre2). split; [|split; [exact H1|rewrite forallb_rev; exact H2]].
  rewrite E1 at 1. f_equal.
  rewrite <- (rev_involutive (drop_trivial l)) at 1. rewrite E2 at 1. rewrite rev_app_distr. reflexivity.
Qed.

Lemma filter_nt_trivial a : forallb seg_trivial a = true -> filter nt a = [].
Proof.
  induction a as [|s a IH]; [reflexivity|]. cbn [forallb filter]. intros H. apply andb_true_iff in H.
  destruct H as [Hs Ha]. unfold nt at 1. rewrite Hs. cbn [negb]. apply IH; exact Ha.
Qed.

Lemma filter_nt_trim l : filter nt (trim_trivial l) = filter nt l.
Proof.
  destruct (trim_trivial_sub2 l) as (a & b & E & Ha & Hb). rewrite E at 2.
  rewrite !filter_app, (filter_nt_trivial a Ha), (filter_nt_trivial b Hb), app_nil_r. reflexivity.
Qed.

Lemma split_aux_noslash_id c s : forall cur, ~ In c s -> split_aux c cur s = [rev cur ++ s].
Proof.
  induction s as [|x s IH]; intros cur H; cbn [split_aux].
  - rewrite app_nil_r. reflexivity.
  - destruct (x =? c) eqn:E.
    + apply N.eqb_eq in E. exfalso. apply H. left; exact E.
    + rewrite IH by (intros Hin; apply H; right; exact Hin). cbn [rev]. rewrite <- app_assoc. reflexivity.
Qed.

Lemma segs_single s : ~ In 47 s -> segs s = [s].
Proof. intros H. unfold segs, split_on. rewrite split_aux_noslash_id by exact H. reflexivity. Qed.

Lemma segs_join_segs l : l <> [] -> Forall (fun s => ~ In 47 s) l -> segs (join_segs l) = l.
Proof.
  induction l as [|s l IH]; [congruence|]. intros _ H. inversion H as [|x y Hs Hl]; subst.
  destruct l as [|s2 r].
  - cbn [join_segs]. apply segs_single; exact Hs.
  - change (join_segs (s :: s2 :: r)) with (s ++ 47 :: join_segs (s2 :: r)).
    rewrite segs_app_sep, (segs_single s Hs), IH by (try discriminate; exact Hl). reflexivity.
Qed.

Lemma real_segs_join_trim L : Forall (fun s => ~ In 47 s) L ->
  real_segs (join_segs (trim_trivial L)) = filter nt L.
Proof.
  intros H. rewrite <- (filter_nt_trim L). destruct (trim_trivial L) as [|s t] eqn:E; [reflexivity|].
  unfold real_segs. rewrite segs_join_segs; [reflexivity|discriminate|].
  destruct (trim_trivial_sub2 L) as (a & b & EL & _ & _). rewrite E in EL. rewrite EL in H.
  apply Forall_app_inv in H. destruct H as [_ H]. apply Forall_app_inv in H. destruct H as [H _]. exact H.
Qed.

Lemma comp_eqb_refl c : comp_eqb c c = true.
Proof. destruct c; try reflexivity. apply lN_eqb_spec. reflexivity. Qed.

Lemma strip_body_nil sg : strip_body sg [] = Some sg.
Proof. destruct sg; reflexivity. Qed.

Lemma filter_nt_nil_all S : filter nt S = [] -> forallb seg_trivial S = true.
Proof.
  induction S as [|s S IH]; [reflexivity|]. cbn [filter forallb]. unfold nt at 1.
  destruct (seg_trivial s); cbn [negb]; [exact IH|discriminate].
Qed.

Lemma strip_body_self S T : exists S2,
  strip_body (S ++ T) (map seg_comp (filter nt S)) = Some (S2 ++ T) /\ forallb seg_trivial S2 = true.
Proof.
  induction S as [|s S IH].
  - exists []. split; [apply strip_body_nil|reflexivity].
  - destruct IH as (S2 & E & H2). cbn [filter]. unfold nt at 1. destruct (seg_trivial s) eqn:Es; cbn [negb].
    + destruct (map seg_comp (filter nt S)) as [|c b'] eqn:Eb.
      * exists (s :: S). split; [apply strip_body_nil|]. cbn [forallb]. rewrite Es. cbn [andb].
        apply filter_nt_nil_all. destruct (filter nt S); [reflexivity|discriminate].
      * exists S2. split; [|exact H2]. cbn [app strip_body]. rewrite Es. exact E.
    + exists S2. split; [|exact H2]. cbn [map app strip_body]. rewrite Es, comp_eqb_refl. exact E.
Qed.

Lemma segs_join_decomp root raw : is_absolute raw = false -> root <> [] ->
  exists S, segs (join root raw) = S ++ segs raw /\ filter nt S = real_segs root
            /\ is_absolute (join root raw) = is_absolute root.
Proof.
  intros Ha Hne. unfold join. rewrite Ha. destruct (no_sep root) eqn:Hs.
  - destruct (no_sep_cases root Hs) as [E|[a' E]]; [congruence|]. subst root. exists (segs a').
    rewrite <- app_assoc. cbn [app]. rewrite segs_app_sep. split; [reflexivity|]. split.
    + unfold real_segs. rewrite segs_snoc_sep, filter_app. cbn [filter seg_trivial negb]. rewrite app_nil_r. reflexivity.
    + unfold is_absolute. destruct a'; reflexivity.
  - exists (segs root). rewrite segs_app_sep. split; [reflexivity|]. split; [reflexivity|].
    unfold is_absolute. apply starts_slash_app. exact Hne.
Qed.

Lemma is_absolute_ne p : is_absolute p = true -> p <> [].
Proof. intros H ->. discriminate. Qed.

Lemma head_comp_abs p : is_absolute p = true -> head_comp p = [CRoot].
Proof. unfold head_comp. intros ->. reflexivity. Qed.

(* a relative string under an absolute root: `..` is refused; everything else is recorded under a
   name with the same real segments — the file the tools address for the same string *)
Theorem to_relative_relative root raw :
  is_absolute root = true -> is_absolute raw = false ->
  (has_parent raw = true -> to_relative root raw = Err V_PARENT)
  /\ (has_parent raw = false -> exists rel, to_relative root raw = Ok rel /\ real_segs rel = real_segs raw).
Proof.
  intros Hr Ha. pose proof (is_absolute_ne _ Hr) as Hne.
  destruct (segs_join_decomp root raw Ha Hne) as (S & ES & EF & EA).
  destruct (strip_body_self S (segs raw)) as (S2 & Eb & H2).
  assert (Estrip : strip_prefix root (join root raw) = Some (join_segs (trim_trivial (S2 ++ segs raw)))).
  { unfold strip_prefix. rewrite (head_comp_abs _ Hr), (head_comp_abs (join root raw)) by (rewrite EA; exact Hr).
    cbn [list_eqb comp_eqb andb]. unfold body_comps. rewrite <- EF. fold nt. rewrite ES, Eb. reflexivity. }
  assert (Hns : Forall (fun s => ~ In 47 s) (S2 ++ segs raw)).
  { pose proof (segs_noslash (join root raw)) as Hn. rewrite ES in Hn.
    destruct (strip_body_suffix _ _ _ Eb) as [pre Ep]. rewrite Ep in Hn. apply Forall_app_inv in Hn. exact (proj2 Hn). }
  assert (Ereal : real_segs (join_segs (trim_trivial (S2 ++ segs raw))) = real_segs raw).
  { rewrite real_segs_join_trim by exact Hns. rewrite filter_app, (filter_nt_trivial S2 H2). reflexivity. }
  unfold to_relative. rewrite Ha, Estrip. rewrite (has_parent_real (join_segs _)), Ereal, <- has_parent_real.
  split; intros Hp; rewrite Hp; [reflexivity|]. eexists. split; [reflexivity|exact Ereal].
Qed.

(* `..` in an absolute string, too, is refused (the root itself has no `..`) *)
Lemma seg_comp_parent s : comp_eqb CParent (seg_comp s) = seg_dotdot s.
Proof. unfold seg_comp. destruct (seg_dotdot s); reflexivity. Qed.

Lemma strip_body_parent sg : forall b rest, strip_body sg b = Some rest ->
  existsb (comp_eqb CParent) b = false -> existsb seg_dotdot sg = existsb seg_dotdot rest.
Proof.
  induction sg as [|s sg IH]; intros b rest H Hb.
  - destruct b; cbn [strip_body] in H; [inversion H; reflexivity|discriminate].
  - destruct b as [|c b]; [cbn [strip_body] in H; inversion H; reflexivity|].
    cbn [strip_body] in H. cbn [existsb] in Hb. apply orb_false_iff in Hb. destruct Hb as [Hc Hb].
    cbn [existsb]. destruct (seg_trivial s) eqn:Et.
    + assert (seg_dotdot s = false) as ->.
      { destruct (seg_dotdot s) eqn:D; [|reflexivity]. rewrite (seg_dotdot_not_trivial _ D) in Et. discriminate. }
      cbn [orb]. apply (IH (c :: b) rest H). cbn [existsb]. rewrite Hc, Hb. reflexivity.
    + destruct (comp_eqb (seg_comp s) c) eqn:Ec; [|discriminate].
      assert (seg_dotdot s = false) as ->.
      { rewrite <- seg_comp_parent. destruct (seg_comp s), c; cbn in *; try discriminate; try reflexivity. }
      cbn [orb]. apply (IH b rest H Hb).
Qed.

Lemma body_comps_parent base : existsb (comp_eqb CParent) (body_comps base) = has_parent base.
Proof.
  rewrite has_parent_real. unfold body_comps. induction (real_segs base) as [|s l IH]; [reflexivity|].
  cbn [map existsb]. rewrite seg_comp_parent, IH. reflexivity.
Qed.

Lemma strip_prefix_parent base p rel :
  has_parent base = false -> strip_prefix base p = Some rel -> has_parent rel = has_parent p.
Proof.
  intros Hb. unfold strip_prefix. destruct (list_eqb comp_eqb (head_comp base) (head_comp p)); [|discriminate].
  destruct (strip_body (segs p) (body_comps base)) as [rest|] eqn:E; [|discriminate].
  intros H; inversion H; subst rel.
  assert (Hns : Forall (fun s => ~ In 47 s) rest).
  { pose proof (segs_noslash p) as Hn. destruct (strip_body_suffix _ _ _ E) as [pre Ep]. rewrite Ep in Hn.
    apply Forall_app_inv in Hn. exact (proj2 Hn). }
  rewrite has_parent_real, real_segs_join_trim by exact Hns. rewrite existsb_dotdot_filter.
  unfold has_parent. symmetry. apply (strip_body_parent _ _ _ E). rewrite body_comps_parent. exact Hb.
Qed.

Theorem to_relative_refuses_parent root raw :
  is_absolute root = true -> has_parent root = false -> has_parent raw = true ->
  to_relative root raw = Err V_PARENT \/ to_relative root raw = Err V_OUTSIDE.
Proof.
  intros Hr Hb Hp. destruct (is_absolute raw) eqn:Ha.
  - unfold to_relative. rewrite Ha. destruct (strip_prefix root raw) as [rel|] eqn:E; [|right; reflexivity].
    rewrite (strip_prefix_parent _ _ _ Hb E), Hp. left; reflexivity.
  - left. apply (proj1 (to_relative_relative root raw Hr Ha)). exact Hp.
Qed.

(* ---------- auto-checkpoint ---------- *)
Lemma auto_write_refused_before_store root raw e :
  resolve_tool root raw = Err e -> auto_write_paths raw = Err e.
Proof.
  unfold resolve_tool, auto_write_paths. destruct (is_absolute raw); [intros H; exact H|].
  destruct (has_parent raw); [intros H; exact H|discriminate].
Qed.

Lemma auto_write_accepted_same root raw p :
  resolve_tool root raw = Ok p -> auto_write_paths raw = Ok raw.
Proof.
  intros H. destruct (resolve_tool_ok _ _ _ H) as (Ha & Hp & _). unfold auto_write_paths. rewrite Ha, Hp. reflexivity.
Qed.

Lemma auto_patch_refused_before_store root raw e :
  patch_target root raw = Err e -> parse_rel_path raw = Err e.
Proof.
  unfold patch_target. destruct (parse_rel_path raw) as [t|e'] eqn:E; [|intros H; exact H].
  destruct (parse_rel_path_ok _ _ E) as (_ & _ & Ha & Hp). rewrite (resolver_accepts root t Ha Hp). discriminate.
Qed.

(* the auto-checkpoint covers the file the tool addresses: same real segments below the root *)
Lemma auto_write_covers root raw p cwd :
  is_absolute root = true -> resolve_tool root raw = Ok p ->
  exists rel, auto_write_paths raw = Ok raw /\ to_relative root raw = Ok rel
    /\ real_segs rel = real_segs raw /\ kresolve cwd p = kresolve cwd root ++ real_segs rel.
Proof.
  intros Hr H. destruct (resolve_tool_ok _ _ _ H) as (Ha & Hp & _).
  destruct (proj2 (to_relative_relative root raw Hr Ha) Hp) as (rel & Et & Er).
  exists rel. split; [eapply auto_write_accepted_same; exact H|]. split; [exact Et|]. split; [exact Er|].
  rewrite Er. eapply resolver_sound; exact H.
Qed.

Lemma auto_patch_covers root raw p cwd :
  is_absolute root = true -> patch_target root raw = Ok p ->
  exists t rel, parse_rel_path raw = Ok t /\ to_relative root t = Ok rel
    /\ real_segs rel = real_segs t /\ kresolve cwd p = kresolve cwd root ++ real_segs rel.
Proof.
  intros Hr H. unfold patch_target in H. destruct (parse_rel_path raw) as [t|e] eqn:E; [|discriminate].
  destruct (auto_write_covers root t p cwd Hr H) as (rel & _ & Et & Er & Ek). exists t, rel. repeat split; assumption.
Qed.

(* ---------- the generated step lists (T1) ---------- *)
Lemma interp_tool root raw : interp [1; 2; 3] root raw = resolve_tool root raw.
Proof. reflexivity. Qed.
Lemma interp_parse root raw : interp [4; 5; 1; 2; 6] root raw = parse_rel_path raw.
Proof. unfold parse_rel_path. cbn [interp]. destruct (trim raw); reflexivity. Qed.
Lemma interp_to_relative root raw : interp [7; 8; 2; 6] root raw = to_relative root raw.
Proof. unfold to_relative. cbn [interp]. destruct (strip_prefix root _); reflexivity. Qed.
Lemma interp_auto_write root raw : interp [1; 2; 6] root raw = auto_write_paths raw.
Proof. reflexivity. Qed.

Lemma list_eqb_idl a b : list_eqb idl_eqb a b = true -> a = b.
Proof.
  apply list_eqb_spec. intros [i s] [j t]. unfold idl_eqb. cbn [fst snd]. rewrite andb_true_iff, N.eqb_eq.
  split.
  - intros [-> H]. f_equal. apply (list_eqb_spec N.eqb); [intros; apply N.eqb_eq|exact H].
  - intros E; inversion E; subst. split; [reflexivity|]. apply (list_eqb_spec N.eqb); [intros; apply N.eqb_eq|reflexivity].
Qed.

Lemma wf_steps found st ord : resolvers_wf found st ord = true -> st = expected_steps.
Proof.
  unfold resolvers_wf. intros H. apply andb_true_iff in H. destruct H as [H _]. apply andb_true_iff in H.
  destruct H as [_ H]. apply list_eqb_idl. exact H.
Qed.

(* every source whose extracted step lists are well-formed has sound resolvers *)
Theorem generated_resolvers_sound found st ord : resolvers_wf found st ord = true ->
  forall root raw p cwd,
    (interp (steps_of st 1) root raw = Ok p \/ interp (steps_of st 2) root raw = Ok p \/ interp (steps_of st 3) root raw = Ok p ->
       kresolve cwd p = kresolve cwd root ++ real_segs raw)
    /\ (interp (steps_of st 4) root raw = Ok p -> resolve_tool root p = Ok (join root p) /\ p = trim raw)
    /\ (interp (steps_of st 5) root raw = Ok p ->
          resolve_tool root p = Ok (restore_path root p) /\ kresolve cwd (restore_path root p) = kresolve cwd root ++ real_segs p)
    /\ (forall e, resolve_tool root raw = Err e -> interp (steps_of st 6) root raw = Err e).
Proof.
  intros H root raw p cwd. rewrite (wf_steps _ _ _ H). cbn [steps_of expected_steps N.eqb Pos.eqb].
  rewrite interp_tool, interp_parse, interp_to_relative, interp_auto_write. repeat split.
  - intros [E|[E|E]]; eapply resolver_sound; exact E.
  - destruct (parse_rel_path_ok _ _ H0) as (_ & _ & Ha & Hp). apply resolver_accepts; assumption.
  - destruct (parse_rel_path_ok _ _ H0) as (E & _). exact E.
  - apply (proj1 (to_relative_sound _ _ _ cwd H0)).
  - apply (proj2 (to_relative_sound _ _ _ cwd H0)).
  - intros e He. eapply auto_write_refused_before_store; exact He.
Qed.

(* ---------- the behaviour before the repairs (S10), refuted on named witnesses ---------- *)
Definition w_root : str := bs "/r/ws"%string.
Definition w_up : str := bs "../outside.txt"%string.
Definition w_abs_up : str := bs "/r/ws/../outside.txt"%string.
Definition w_plain : str := bs "a.txt"%string.
Definition w_cwd : list str := [bs "r"%string; bs "elsewhere"%string].
Definition w_abs_in : str := bs "/r/ws/a.txt"%string.

Lemma to_relative_unfixed_escapes :
  to_relative_unfixed w_root w_up = Ok w_up /\ underb [] w_root (restore_path w_root w_up) = false
  /\ kresolve [] (restore_path w_root w_up) = [bs "r"%string; bs "outside.txt"%string].
Proof. vm_compute. repeat split. Qed.

Lemma to_relative_unfixed_escapes_abs :
  to_relative_unfixed w_root w_abs_up = Ok w_up.
Proof. vm_compute. reflexivity. Qed.

Lemma to_relative_fixed_on_witnesses :
  to_relative w_root w_up = Err V_PARENT /\ to_relative w_root w_abs_up = Err V_PARENT
  /\ to_relative w_root w_plain = Ok w_plain /\ to_relative w_root w_abs_in = Ok w_plain.
Proof. vm_compute. repeat split. Qed.

Lemma probe_unfixed_depends_on_cwd :
  to_relative_unfixed w_root w_plain = Ok w_plain
  /\ kresolve w_cwd (probe_path_unfixed w_root w_plain) = [bs "r"%string; bs "elsewhere"%string; bs "a.txt"%string]
  /\ kresolve w_cwd (restore_path w_root w_plain) = [bs "r"%string; bs "ws"%string; bs "a.txt"%string].
Proof. vm_compute. repeat split. Qed.

Lemma auto_write_unfixed_reaches_store :
  auto_write_paths_unfixed w_abs_in = Ok w_abs_in /\ to_relative w_root w_abs_in = Ok w_plain
  /\ resolve_tool w_root w_abs_in = Err V_ABS.
Proof. vm_compute. repeat split. Qed.

(* non-vacuity witnesses *)
Definition w_dotted : str := bs "d/./x.txt"%string.
Definition w_dotted_abs : str := bs "/r/ws/d/./x.txt"%string.
Definition w_header : str := bs "  d//x.txt "%string.
Definition w_header_abs : str := bs "/r/ws/d//x.txt"%string.
Definition w_messy_abs : str := bs "/r/ws//d/./x.txt/"%string.
Lemma ex_resolve : resolve_tool w_root w_dotted = Ok w_dotted_abs.
Proof. vm_compute. reflexivity. Qed.
Lemma ex_patch : patch_target w_root w_header = Ok w_header_abs.
Proof. vm_compute. reflexivity. Qed.
Lemma ex_to_relative : to_relative w_root w_messy_abs = Ok w_dotted.
Proof. vm_compute. reflexivity. Qed.

(* existential forms used by Props/C13.v *)
Lemma to_relative_unfixed_refuted :
  exists root raw rel, to_relative_unfixed root raw = Ok rel /\ underb [] root (restore_path root rel) = false.
Proof. exists w_root, w_up, w_up. destruct to_relative_unfixed_escapes as (A & B & _). split; assumption. Qed.

Lemma probe_unfixed_cwd_refuted :
  exists cwd root raw rel, is_absolute raw = false /\ has_parent raw = false
    /\ to_relative_unfixed root raw = Ok rel
    /\ kresolve cwd (probe_path_unfixed root raw) <> kresolve cwd (restore_path root rel).
Proof.
  exists w_cwd, w_root, w_plain, w_plain. destruct probe_unfixed_depends_on_cwd as (A & B & C).
  repeat split; try assumption; try reflexivity. rewrite B, C. discriminate.
Qed.

Lemma auto_write_unfixed_refuted :
  exists root raw rel e, auto_write_paths_unfixed raw = Ok raw /\ to_relative root raw = Ok rel
    /\ resolve_tool root raw = Err e.
Proof. exists w_root, w_abs_in, w_plain, V_ABS. exact auto_write_unfixed_reaches_store. Qed.

Lemma probe_is_restore root rel cwd :
  kresolve cwd (probe_path root rel) = kresolve cwd (restore_path root rel).
Proof. reflexivity. Qed.
