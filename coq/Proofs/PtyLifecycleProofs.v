(* C17 — proofs about the PTY waiter of Model/TaskLifecycle.v (run_pty_task): every interleaving of its four
   event sources (child exit, cancel channel, control channel, reader thread) with the waiter's loop produces a
   frame sequence of the task language, nothing follows the terminal frame, the repaired waiter (slave dropped
   after the spawn) can always end, and the waiter that keeps the slave never leaves its loop. *)
From RipV Require Import Base.Prelude Model.TaskLifecycle Proofs.TaskLifecycleProofs.

Lemma precognise_snoc t e : precognise (t ++ [e]) = prstep (precognise t) e.
Proof. unfold precognise. rewrite fold_left_app. reflexivity. Qed.

Lemma ptrace_cons tr e : precognise (rev (e :: tr)) = prstep (precognise (rev tr)) e.
Proof. cbn [rev]. apply precognise_snoc. Qed.

Definition loopish (r : rst) : Prop := r = RRunning \/ r = RCancelReq.

Lemma push_chunks_ok l : forall tr r, loopish r -> precognise (rev tr) = r -> precognise (rev (push_chunks l tr)) = r.
Proof.
  induction l as [|c l IH]; intros tr r Hl Hr; cbn [push_chunks]; [exact Hr|].
  apply IH; [exact Hl|]. destruct c; [|exact Hr].
  unfold pdelta. rewrite ptrace_cons, Hr. destruct Hl as [-> | ->]; reflexivity.
Qed.

(* what the waiter's program counter knows about the frames emitted so far *)
Definition PInv (s : psys) : Prop :=
  let r := precognise (rev (q_trace s)) in
  match q_pc s with
  | QStart => q_trace s = [] /\ q_reason s = false
  | QSpawnedPc => r = RSpawned /\ q_reason s = false
  | QLoop => r = (if q_reason s then RCancelReq else RRunning)
  | QCancelEmit _ => r = RCancelReq
  | QFinal st => (r = RRunning /\ (st = 2 \/ st = 4)) \/ (r = RCancelled /\ (st = 3 \/ st = 4))
  | QEnd => exists st, r = RDone st
  end.

Lemma pinv0 : PInv psys0.
Proof. cbn. auto. Qed.

Ltac qcbn := cbn [q_pc q_exit q_closed q_reason q_flag q_child_exited q_slave_closed q_reader_done q_chan q_ctl q_trace] in *.

Lemma inv_pstep keeps s a s' : PInv s -> pstep keeps s a = Some s' -> PInv s'.
Proof.
  destruct s as [pc ex cl rs fl ce sc rd ch ct tr]. unfold PInv, pstep, q_with, loop_goes_on. qcbn.
  intros HI HS.
  destruct a as [ | | |e| | | | |k|ok| |ap| | | | ].
  - (* QSpawnFrame *) destruct pc; try discriminate HS. inversion HS; subst; clear HS. qcbn.
    destruct HI as [-> ->]. split; reflexivity.
  - (* QFail *) destruct pc; try discriminate HS. inversion HS; subst; clear HS. qcbn.
    destruct HI as [Hr _]. rewrite ptrace_cons, Hr. eexists; reflexivity.
  - (* QStartRunning *) destruct pc; try discriminate HS. inversion HS; subst; clear HS. qcbn.
    destruct HI as [Hr ->]. rewrite ptrace_cons, Hr. reflexivity.
  - (* QRead *) destruct rd; try discriminate HS. inversion HS; subst; clear HS. qcbn. exact HI.
  - (* QChildExit *) destruct pc; try discriminate HS; inversion HS; subst; clear HS; qcbn; exact HI.
  - (* QSlaveClosed *) destruct keeps; try discriminate HS.
    destruct pc; try discriminate HS; inversion HS; subst; clear HS; qcbn; exact HI.
  - (* QReaderEof *) destruct (negb rd && sc); try discriminate HS. inversion HS; subst; clear HS. qcbn. exact HI.
  - (* QCancel *) inversion HS; subst; clear HS. qcbn. exact HI.
  - (* QCtlSend *) destruct pc; try discriminate HS. inversion HS; subst; clear HS. qcbn. exact HI.
  - (* QLoopExit *) destruct pc; try discriminate HS. destruct ex; try discriminate HS.
    destruct (ce || negb ok); try discriminate HS. inversion HS; subst; clear HS. qcbn. exact HI.
  - (* QLoopCancel *) destruct pc; try discriminate HS.
    destruct rs; [rewrite andb_false_r in HS; discriminate HS|].
    destruct (negb _ && negb false && fl); try discriminate HS. inversion HS; subst; clear HS. qcbn.
    rewrite ptrace_cons, HI. reflexivity.
  - (* QLoopCtl *) destruct pc; try discriminate HS. destruct ct as [|k rest]; try discriminate HS.
    destruct (negb _); try discriminate HS. inversion HS; subst; clear HS. qcbn.
    assert (Hl : loopish (if rs then RCancelReq else RRunning)) by (destruct rs; [right|left]; reflexivity).
    pose proof (push_chunks_ok ch tr _ Hl HI) as Hp.
    destruct ap; [|exact Hp]. rewrite ptrace_cons, Hp. destruct rs; reflexivity.
  - (* QLoopChunk *) destruct pc; try discriminate HS. destruct cl; try discriminate HS.
    destruct ch as [|c rest].
    + destruct rd; try discriminate HS. inversion HS; subst; clear HS. qcbn. exact HI.
    + inversion HS; subst; clear HS. qcbn. destruct c; [|exact HI].
      unfold pdelta. rewrite ptrace_cons, HI. destruct rs; reflexivity.
  - (* QLoopDone *) destruct pc; try discriminate HS. destruct ex as [ok|]; try discriminate HS.
    destruct cl; try discriminate HS. inversion HS; subst; clear HS. qcbn.
    destruct rs; qcbn; [exact HI|]. left. split; [exact HI|]. destruct ok; auto.
  - (* QEmitCancelled *) destruct pc as [| | |ok| |]; try discriminate HS. inversion HS; subst; clear HS. qcbn.
    right. split; [rewrite ptrace_cons, HI; reflexivity|]. destruct ok; auto.
  - (* QEmitFinal *) destruct pc as [| | | |st|]; try discriminate HS. inversion HS; subst; clear HS. qcbn.
    destruct HI as [[Hr [-> | ->]]|[Hr [-> | ->]]]; rewrite ptrace_cons, Hr; eexists; reflexivity.
Qed.

Lemma inv_pstep_skip keeps s a : PInv s -> PInv (pstep_skip keeps s a).
Proof.
  intros H. unfold pstep_skip. destruct (pstep keeps s a) as [s'|] eqn:E; [eapply inv_pstep; eauto|exact H].
Qed.

Lemma inv_pfold keeps sched : forall s, PInv s -> PInv (fold_left (pstep_skip keeps) sched s).
Proof. induction sched as [|a r IH]; intros s H; cbn [fold_left]; [exact H|apply IH, inv_pstep_skip, H]. Qed.

Lemma inv_prun keeps sched : PInv (prun keeps sched).
Proof. apply inv_pfold, pinv0. Qed.

(* ---- the language ---- *)
Theorem pty_lifecycle_language : forall (keeps : bool) (sched : list pact),
  let s := prun keeps sched in
  let t := ptrace s in
  r_prefix_ok (precognise t) = true /\ (q_pc s = QEnd <-> r_complete (precognise t) = true).
Proof.
  intros keeps sched s t. pose proof (inv_prun keeps sched) as HI. fold s in HI. subst t. unfold ptrace.
  unfold PInv in HI. destruct (q_pc s) eqn:Em.
  - destruct HI as (Ht & _). rewrite Ht. cbn. split; [reflexivity|]. split; discriminate.
  - destruct HI as (Hr & _). rewrite Hr. cbn. split; [reflexivity|]. split; discriminate.
  - rewrite HI. destruct (q_reason s); cbn; (split; [reflexivity|]); split; discriminate.
  - rewrite HI. cbn. split; [reflexivity|]. split; discriminate.
  - destruct HI as [[Hr _]|[Hr _]]; rewrite Hr; cbn; (split; [reflexivity|]); split; discriminate.
  - destruct HI as [st Hr]. rewrite Hr. cbn. split; [reflexivity|]. split; reflexivity.
Qed.

(* ---- nothing after the terminal frame ---- *)
Lemma pend_is_quiet keeps s a : q_pc s = QEnd ->
  q_trace (pstep_skip keeps s a) = q_trace s /\ q_pc (pstep_skip keeps s a) = QEnd.
Proof.
  destruct s as [pc ex cl rs fl ce sc rd ch ct tr]. qcbn. intros ->.
  unfold pstep_skip, pstep, q_with. qcbn.
  destruct a; qcbn; auto.
  - destruct rd; qcbn; auto.
  - destruct keeps; qcbn; auto.
  - destruct (negb rd && sc); qcbn; auto.
Qed.

Lemma pend_is_quiet_fold keeps more : forall s, q_pc s = QEnd ->
  q_trace (fold_left (pstep_skip keeps) more s) = q_trace s /\ q_pc (fold_left (pstep_skip keeps) more s) = QEnd.
Proof.
  induction more as [|a r IH]; intros s HM; cbn [fold_left]; [split; [reflexivity|exact HM]|].
  destruct (pend_is_quiet keeps s a HM) as [Ht Hm]. destruct (IH _ Hm) as [Ht' Hm']. rewrite Ht', Ht. split; [reflexivity|exact Hm'].
Qed.

Theorem pty_terminal_is_last : forall (keeps : bool) (sched more : list pact),
  q_pc (prun keeps sched) = QEnd -> ptrace (prun keeps (sched ++ more)) = ptrace (prun keeps sched).
Proof.
  intros keeps sched more HM. unfold prun, ptrace. rewrite fold_left_app. f_equal.
  apply pend_is_quiet_fold. exact HM.
Qed.

(* ---- the repaired waiter can always end ---- *)
Definition late (pc : qpc) : Prop := match pc with QCancelEmit _ | QFinal _ | QEnd => True | _ => False end.

Definition fin1 : list pact := [QSpawnFrame; QStartRunning; QChildExit; QSlaveClosed; QReaderEof; QLoopExit true].
Definition fin3 : list pact := [QLoopDone; QEmitCancelled; QEmitFinal].

Lemma finish_1 s :
  let s1 := fold_left (pstep_skip false) fin1 s in
  q_chan s1 = q_chan s
  /\ ((q_pc s1 = QLoop /\ q_exit s1 <> None /\ (q_closed s1 = true \/ q_reader_done s1 = true)) \/ late (q_pc s1)).
Proof.
  destruct s as [pc ex cl rs fl ce sc rd ch ct tr].
  destruct pc, ex as [[|]|], cl, ce, sc, rd; cbn; (split; [reflexivity|]);
    first [ right; exact I | left; repeat split; first [discriminate | reflexivity | (left; reflexivity) | (right; reflexivity)] ].
Qed.

Lemma chunks_noop_closed k : forall s, q_pc s = QLoop -> q_closed s = true ->
  fold_left (pstep_skip false) (repeat QLoopChunk k) s = s.
Proof.
  induction k as [|k IH]; intros s Hp Hc; cbn [repeat fold_left]; [reflexivity|].
  assert (E : pstep_skip false s QLoopChunk = s).
  { unfold pstep_skip, pstep. rewrite Hp, Hc. reflexivity. }
  rewrite E. apply IH; assumption.
Qed.

Lemma chunks_noop_late k : forall s, late (q_pc s) ->
  fold_left (pstep_skip false) (repeat QLoopChunk k) s = s.
Proof.
  induction k as [|k IH]; intros s Hl; cbn [repeat fold_left]; [reflexivity|].
  assert (E : pstep_skip false s QLoopChunk = s).
  { unfold pstep_skip, pstep. destruct (q_pc s); try reflexivity; destruct Hl. }
  rewrite E. apply IH; assumption.
Qed.

Lemma chunks_close n : forall s, q_pc s = QLoop -> q_closed s = false -> q_reader_done s = true ->
  (length (q_chan s) <= n)%nat ->
  let s2 := fold_left (pstep_skip false) (repeat QLoopChunk (S n)) s in
  q_pc s2 = QLoop /\ q_exit s2 = q_exit s /\ q_closed s2 = true /\ q_reason s2 = q_reason s.
Proof.
  induction n as [|n IH]; intros s Hp Hc Hr Hl; destruct s as [pc ex cl rs fl ce sc rd ch ct tr]; qcbn; subst pc cl rd.
  - destruct ch as [|c rest]; [|cbn in Hl; inversion Hl]. cbn. repeat split; reflexivity.
  - change (repeat QLoopChunk (S (S n))) with (QLoopChunk :: repeat QLoopChunk (S n)). cbn [fold_left].
    match goal with |- context [fold_left _ (repeat QLoopChunk (S n)) ?s1] =>
      let s1' := eval cbn in s1 in change s1 with s1' end.
    destruct ch as [|c rest].
    + rewrite chunks_noop_closed by reflexivity. qcbn. repeat split; reflexivity.
    + match goal with |- context [fold_left _ (repeat QLoopChunk (S n)) ?s1] => specialize (IH s1) end.
      qcbn. apply IH; try reflexivity. cbn [length] in Hl. apply le_S_n. exact Hl.
Qed.

Lemma finish_3_loop s : q_pc s = QLoop -> q_exit s <> None -> q_closed s = true ->
  q_pc (fold_left (pstep_skip false) fin3 s) = QEnd.
Proof.
  destruct s as [pc ex cl rs fl ce sc rd ch ct tr]. qcbn. intros -> He ->.
  destruct ex as [ok|]; [|congruence]. destruct rs; reflexivity.
Qed.

Lemma finish_3_late s : late (q_pc s) -> q_pc (fold_left (pstep_skip false) fin3 s) = QEnd.
Proof.
  destruct s as [pc ex cl rs fl ce sc rd ch ct tr]. qcbn. intros Hl.
  destruct pc; try destruct Hl; reflexivity.
Qed.

Lemma pty_finish_ends s : q_pc (fold_left (pstep_skip false) (pty_finish s) s) = QEnd.
Proof.
  unfold pty_finish. fold fin1 fin3. rewrite !fold_left_app.
  pose proof (finish_1 s) as H1. cbv zeta in H1.
  set (s1 := fold_left (pstep_skip false) fin1 s) in *. destruct H1 as [Hch [(Hp & He & Hcr)|Hl]].
  - rewrite <- Hch.
    destruct (q_closed s1) eqn:Ec.
    + rewrite chunks_noop_closed by assumption. apply finish_3_loop; assumption.
    + destruct Hcr as [Hcr|Hcr]; [discriminate Hcr|].
      pose proof (chunks_close (length (q_chan s1)) s1 Hp Ec Hcr (le_n _)) as H2. cbv zeta in H2.
      destruct H2 as (Hp2 & He2 & Hc2 & _).
      apply finish_3_loop; [exact Hp2|rewrite He2; exact He|exact Hc2].
  - rewrite chunks_noop_late by exact Hl. apply finish_3_late, Hl.
Qed.

Theorem pty_can_always_end : forall sched : list pact, exists more : list pact,
  q_pc (prun false (sched ++ more)) = QEnd.
Proof.
  intros sched. exists (pty_finish (prun false sched)). unfold prun at 1. rewrite fold_left_app.
  apply pty_finish_ends.
Qed.

(* ---- the waiter that keeps the slave side open (the code before 35c2d72): output never closes ---- *)
Definition KInv (s : psys) : Prop :=
  q_slave_closed s = false /\ q_closed s = false
  /\ match q_pc s with
     | QStart => q_trace s = []
     | QSpawnedPc => q_trace s = [PE LSpawned]
     | QLoop => q_reader_done s = false
     | QCancelEmit _ | QFinal _ => False
     | QEnd => q_trace s = [PE (LStatus 4); PE LSpawned]
     end.

Lemma kinv0 : KInv psys0.
Proof. unfold KInv. cbn. repeat split; reflexivity. Qed.

Lemma kinv_pstep s a s' : KInv s -> pstep true s a = Some s' -> KInv s'.
Proof.
  destruct s as [pc ex cl rs fl ce sc rd ch ct tr]. unfold KInv, pstep, q_with, loop_goes_on. qcbn.
  intros (Hsc & Hcl & HI) HS. subst sc cl.
  destruct a as [ | | |e| | | | |k|ok| |ap| | | | ].
  - destruct pc; try discriminate HS. inversion HS; subst; clear HS. qcbn. repeat split; auto.
  - destruct pc; try discriminate HS. inversion HS; subst; clear HS. qcbn. repeat split; auto.
  - destruct pc; try discriminate HS. inversion HS; subst; clear HS. qcbn. auto.
  - destruct rd; try discriminate HS. inversion HS; subst; clear HS. qcbn. repeat split; auto; destruct pc; auto.
  - destruct pc; try discriminate HS; inversion HS; subst; clear HS; qcbn; auto.
  - discriminate HS.
  - rewrite andb_false_r in HS. discriminate HS.
  - inversion HS; subst; clear HS. qcbn. auto.
  - destruct pc; try discriminate HS. inversion HS; subst; clear HS. qcbn. auto.
  - destruct pc; try discriminate HS. destruct ex; try discriminate HS.
    destruct (ce || negb ok); try discriminate HS. inversion HS; subst; clear HS. qcbn. auto.
  - destruct pc; try discriminate HS. destruct (negb _ && negb rs && fl); try discriminate HS.
    inversion HS; subst; clear HS. qcbn. auto.
  - destruct pc; try discriminate HS. destruct ct as [|k rest]; try discriminate HS.
    destruct (negb _); try discriminate HS. inversion HS; subst; clear HS. qcbn. auto.
  - destruct pc; try discriminate HS. subst rd. destruct ch as [|c rest]; try discriminate HS.
    inversion HS; subst; clear HS. qcbn. auto.
  - destruct pc; try discriminate HS. destruct ex; discriminate HS.
  - destruct pc; try discriminate HS. destruct HI.
  - destruct pc; try discriminate HS. destruct HI.
Qed.

Lemma kinv_prun sched : KInv (prun true sched).
Proof.
  unfold prun. generalize kinv0. generalize psys0 as s.
  induction sched as [|a r IH]; intros s H; cbn [fold_left]; [exact H|]. apply IH.
  unfold pstep_skip. destruct (pstep true s a) as [s'|] eqn:E; [eapply kinv_pstep; eauto|exact H].
Qed.

(* once such a task runs it stays in its loop in every finite run: no terminal status *)
Theorem pty_kept_slave_never_terminal : forall sched : list pact,
  let s := prun true sched in
  In (PE LRunning) (ptrace s) -> q_pc s = QLoop /\ r_complete (precognise (ptrace s)) = false.
Proof.
  intros sched s Hin. pose proof (kinv_prun sched) as HK. pose proof (inv_prun true sched) as HI.
  fold s in HK, HI. unfold ptrace in *. apply in_rev in Hin.
  destruct HK as (_ & _ & HK). unfold PInv in HI.
  destruct (q_pc s) eqn:Ep.
  - rewrite HK in Hin. destruct Hin.
  - rewrite HK in Hin. destruct Hin as [E|[]]. discriminate E.
  - split; [reflexivity|]. rewrite HI. destruct (q_reason s); reflexivity.
  - destruct HK.
  - destruct HK.
  - rewrite HK in Hin. destruct Hin as [E|[E|[]]]; discriminate E.
Qed.

(* `echo hi` on a terminal: the same events; the repaired waiter ends, the one that keeps the slave does not *)
Definition sched_pty_echo : list pact :=
  [QSpawnFrame; QStartRunning; QRead true; QLoopChunk; QChildExit; QLoopExit true; QSlaveClosed; QReaderEof;
   QLoopChunk; QLoopDone; QEmitCancelled; QEmitFinal].

Lemma pty_echo_witness :
  ptrace (prun false sched_pty_echo) = [PE LSpawned; PE LRunning; PE (LDelta 2); PE (LStatus 2)]
  /\ q_pc (prun false sched_pty_echo) = QEnd
  /\ ptrace (prun true sched_pty_echo) = [PE LSpawned; PE LRunning; PE (LDelta 2)]
  /\ In (PE LRunning) (ptrace (prun true sched_pty_echo)).
Proof. vm_compute. repeat split; try reflexivity. right. left. reflexivity. Qed.

Lemma in_ptrace_mono keeps sched more e :
  In e (ptrace (prun keeps sched)) -> In e (ptrace (prun keeps (sched ++ more))).
Proof.
  unfold prun, ptrace. rewrite fold_left_app. generalize (fold_left (pstep_skip keeps) sched psys0) as s.
  induction more as [|a r IH]; intros s H; cbn [fold_left]; [exact H|]. apply IH.
  unfold pstep_skip. destruct (pstep keeps s a) as [s'|] eqn:E; [|exact H].
  apply in_rev in H. apply -> in_rev.
  destruct s as [pc ex cl rs fl ce sc rd ch ct tr]. unfold pstep, q_with, loop_goes_on in E. qcbn.
  assert (Hp : forall l t, In e t -> In e (push_chunks l t)).
  { induction l as [|c l IHl]; intros t Ht; cbn [push_chunks]; [exact Ht|]. apply IHl. destruct c; [right|]; exact Ht. }
  destruct a;
  repeat match type of E with
  | context [match ?x with _ => _ end] => destruct x; try discriminate E
  | context [if ?x then _ else _] => destruct x; try discriminate E
  end; inversion E; subst; qcbn; auto; try (right; auto; fail); try (right; apply Hp; exact H). 
Qed.

Theorem pty_output_never_closes_refuted :
  exists sched : list pact,
    q_pc (prun false sched) = QEnd
    /\ In (PE LRunning) (ptrace (prun true sched))
    /\ forall more : list pact,
         q_pc (prun true (sched ++ more)) = QLoop /\ r_complete (precognise (ptrace (prun true (sched ++ more)))) = false.
Proof.
  exists sched_pty_echo. destruct pty_echo_witness as (_ & H2 & _ & H4).
  split; [exact H2|]. split; [exact H4|]. intros more.
  apply pty_kept_slave_never_terminal. apply in_ptrace_mono. exact H4.
Qed.

(* a cancelled interactive task: input acknowledged, output before and after the cancel request *)
Definition sched_pty_cancel : list pact :=
  [QCancel; QSpawnFrame; QStartRunning; QCtlSend 0; QRead true; QLoopCtl true; QCtlSend 1; QLoopCtl true; QCancel;
   QLoopCancel; QRead true; QChildExit; QSlaveClosed; QLoopChunk; QReaderEof; QLoopExit true; QLoopChunk; QLoopDone;
   QEmitCancelled; QEmitFinal; QRead true; QLoopChunk; QCtlSend 2].
Example sched_pty_cancel_trace :
  map pev_code (ptrace (prun false sched_pty_cancel)) = [0; 1; 12; 30; 31; 2; 12; 3; 23]
  /\ q_pc (prun false sched_pty_cancel) = QEnd.
Proof. vm_compute. split; reflexivity. Qed.

(* ---- once the terminal frame is out the waiter reads no output and handles no request any more ---- *)
Theorem pty_frozen_after_terminal : forall (keeps : bool) (sched more : list pact) (ap : bool),
  q_pc (prun keeps sched) = QEnd ->
  pstep keeps (prun keeps (sched ++ more)) QLoopChunk = None
  /\ pstep keeps (prun keeps (sched ++ more)) (QLoopCtl ap) = None
  /\ pstep keeps (prun keeps (sched ++ more)) QLoopCancel = None.
Proof.
  intros keeps sched more ap HM. unfold prun. rewrite fold_left_app.
  destruct (pend_is_quiet_fold keeps more _ HM) as [_ Hp]. unfold prun in Hp.
  unfold pstep. rewrite Hp. repeat split; reflexivity.
Qed.

(* ---- the language of a PTY task stream, spelled out ---- *)
Definition is_mid (e : pev) : bool :=
  match e with PE (LDelta _) => true | PCtl _ => true | _ => false end.

Definition pshape (r : rst) (t : list pev) : Prop :=
  match r with
  | R0 => t = []
  | RSpawned => t = [PE LSpawned]
  | RRunning => exists ds, t = PE LSpawned :: PE LRunning :: ds /\ forallb is_mid ds = true
  | RCancelReq => exists ds ds', t = PE LSpawned :: PE LRunning :: ds ++ PE LCancelReq :: ds'
                                 /\ forallb is_mid ds = true /\ forallb is_mid ds' = true
  | RCancelled => exists ds ds', t = PE LSpawned :: PE LRunning :: ds ++ PE LCancelReq :: ds' ++ [PE LCancelled]
                                 /\ forallb is_mid ds = true /\ forallb is_mid ds' = true
  | RDone st =>
    (st = 4 /\ t = [PE LSpawned; PE (LStatus 4)])
    \/ ((st = 2 \/ st = 4) /\ exists ds, t = PE LSpawned :: PE LRunning :: ds ++ [PE (LStatus st)] /\ forallb is_mid ds = true)
    \/ ((st = 3 \/ st = 4) /\ exists ds ds', t = PE LSpawned :: PE LRunning :: ds ++ PE LCancelReq :: ds' ++ [PE LCancelled; PE (LStatus st)]
                                 /\ forallb is_mid ds = true /\ forallb is_mid ds' = true)
  | RBad => True
  end.

Theorem precognise_shape : forall t : list pev, pshape (precognise t) t.
Proof.
  intros t. induction t as [|e t IH] using rev_ind; [reflexivity|].
  rewrite precognise_snoc.
  destruct (precognise t) eqn:Er; cbn [pshape] in IH.
  - subst t. destruct e as [e|k]; [destruct e|]; try exact I; reflexivity.
  - subst t. destruct e as [e|k]; [destruct e|]; try exact I.
    + cbn. exists []. split; reflexivity.
    + cbn [prstep]. rewrite rstep_status. destruct (N.eqb_spec st 4) as [->|_]; [|exact I]. cbn. left. split; reflexivity.
  - destruct IH as (ds & -> & Hd). destruct e as [e|k]; [destruct e|]; try exact I.
    + cbn. exists (ds ++ [PE (LDelta stream)]). split; [reflexivity|]. rewrite forallb_snoc, Hd. reflexivity.
    + cbn. exists ds, []. repeat split; auto.
    + cbn [prstep]. rewrite rstep_status. destruct (N.eqb_spec st 2) as [->|_].
      * cbn. right. left. split; [left; reflexivity|]. exists ds. split; [reflexivity|exact Hd].
      * destruct (N.eqb_spec st 4) as [->|_]; [|exact I].
        cbn. right. left. split; [right; reflexivity|]. exists ds. split; [reflexivity|exact Hd].
    + cbn. exists (ds ++ [PCtl k]). split; [reflexivity|]. rewrite forallb_snoc, Hd. reflexivity.
  - destruct IH as (ds & ds' & -> & Hd & Hd'). destruct e as [e|k]; [destruct e|]; try exact I.
    + cbn. exists ds, (ds' ++ [PE (LDelta stream)]). split; [|split; [exact Hd|rewrite forallb_snoc, Hd'; reflexivity]].
      repeat (cbn [app]; rewrite <- ?app_assoc); reflexivity.
    + cbn. exists ds, ds'. split; [|split; assumption]. repeat (cbn [app]; rewrite <- ?app_assoc); reflexivity.
    + cbn. exists ds, (ds' ++ [PCtl k]). split; [|split; [exact Hd|rewrite forallb_snoc, Hd'; reflexivity]].
      repeat (cbn [app]; rewrite <- ?app_assoc); reflexivity.
  - destruct IH as (ds & ds' & -> & Hd & Hd'). destruct e as [e|k]; [destruct e|]; try exact I.
    cbn [prstep]. rewrite rstep_status. destruct (N.eqb_spec st 3) as [->|_].
    + cbn. right. right. split; [left; reflexivity|]. exists ds, ds'. split; [|split; assumption].
      repeat (cbn [app]; rewrite <- ?app_assoc); reflexivity.
    + destruct (N.eqb_spec st 4) as [->|_]; [|exact I].
      cbn. right. right. split; [right; reflexivity|]. exists ds, ds'. split; [|split; assumption].
      repeat (cbn [app]; rewrite <- ?app_assoc); reflexivity.
  - destruct e as [e|k]; [destruct e|]; exact I.
  - destruct e as [e|k]; [destruct e|]; exact I.
Qed.
