(* C10 - proofs about the caller-supplied summary_artifact_id guard (Model/ArtGuard.v). *)
From RipV Require Import Base.Prelude Base.Fs Model.Frames Model.Log Proofs.LogProofs Model.Lineage Proofs.LineageProofs
  Model.ArtGuard.

(* a walk only ever stands at a node the file system has *)
Definition wres_ok (f : fs) (st : wres) : Prop :=
  match st with WAt p n => lookup f p = Some n | WFail => True end.

Lemma walk_step_ok : forall f st s, wres_ok f st -> wres_ok f (walk_step f st s).
Proof.
  intros f st s H. destruct st as [p n|]; [|exact I].
  destruct n as [b|]; [exact I|].
  unfold walk_step.
  destruct (seg_trivial s); [exact H|].
  destruct (seg_dotdot s).
  - destruct (lookup f (removelast p)) eqn:E; [exact E|exact I].
  - destruct (255 <? nlen s); [exact I|].
    destruct (lookup f (p ++ [s])) eqn:E; [exact E|exact I].
Qed.

Lemma walk_ok : forall f segs st, wres_ok f st -> wres_ok f (fold_left (walk_step f) segs st).
Proof.
  intros f segs. induction segs as [|s r IH]; intros st H; [exact H|].
  cbn [fold_left]. apply IH. apply walk_step_ok. exact H.
Qed.

Lemma resolve_ok : forall f base id, wres_ok f (resolve f base id).
Proof.
  intros f base id. unfold resolve.
  destruct (join_raw base id) as [|x r] eqn:E; [exact I|]. unfold resolve_raw.
  destruct (has_nul (x :: r) || (PATH_MAX <=? nlen (x :: r))); [exact I|].
  apply walk_ok. reflexivity.
Qed.

Lemma resolve_at : forall f base id p n, resolve f base id = WAt p n -> lookup f p = Some n.
Proof. intros f base id p n H. pose proof (resolve_ok f base id) as K. rewrite H in K. exact K. Qed.

(* ---- the central fact: a sound guard lets an id pass only if stat ends at a regular file of the file system,
   whose bytes fs::read returns - for EVERY id (empty, ".", "..", path-like, absolute, with NUL, of any length)
   and EVERY file system *)
Lemma is_file_at_resolves : forall f base id, is_file_at f base id = true ->
  exists p c, resolve f base id = WAt p (File c) /\ lookup f p = Some (File c) /\ read_back f base id = Some c
              /\ is_dir_at f base id = false.
Proof.
  intros f base id H. unfold is_file_at in H. unfold read_back, is_dir_at.
  destruct (resolve f base id) as [p n|] eqn:E; [|discriminate].
  destruct n as [c|]; [|discriminate].
  exists p, c. repeat split. apply (resolve_at f base id). exact E.
Qed.

Lemma guard_sound_resolves : forall g f base id,
  guard_sound g = true -> guard_eval g f base id = true ->
  exists p c, resolve f base id = WAt p (File c) /\ lookup f p = Some (File c) /\ read_back f base id = Some c
              /\ is_dir_at f base id = false.
Proof.
  intros g f base id Hs He. destruct g; try discriminate; cbn [guard_eval] in He.
  - unfold guard_plain in He. apply andb_true_iff in He. apply is_file_at_resolves. exact (proj2 He).
  - apply andb_true_iff in He. apply is_file_at_resolves. exact (proj2 He).
  - apply is_file_at_resolves. exact He.
Qed.

(* a directory never passes a sound guard; a failed walk never passes any guard *)
Lemma guard_sound_rejects_dir : forall g f base id,
  guard_sound g = true -> is_dir_at f base id = true -> guard_eval g f base id = false.
Proof.
  intros g f base id Hs Hd. destruct (guard_eval g f base id) eqn:E; [|reflexivity].
  destruct (guard_sound_resolves g f base id Hs E) as (p & c & _ & _ & _ & K). congruence.
Qed.

Lemma guard_rejects_absent : forall g f base id, exists_at f base id = false -> guard_eval g f base id = false.
Proof.
  intros g f base id H. unfold exists_at in H.
  destruct g; cbn [guard_eval]; unfold guard_plain, is_file_at, exists_at; destruct (resolve f base id); try discriminate;
    try rewrite andb_false_r; reflexivity.
Qed.

(* ---- the handoff over the file system ---- *)
Lemma art_has_arts_of : forall g f base a id, art_has a (arts_of g f base a id) = guard_eval g f base id.
Proof.
  intros g f base a id. unfold arts_of. destruct (guard_eval g f base id).
  - unfold art_has, art_get. cbn [find fst]. rewrite N.eqb_refl. reflexivity.
  - reflexivity.
Qed.

(* refused: no child thread, no frame, nothing stored *)
Lemma handoff_fs_refused : forall g f base view l parent sel md a id fr,
  guard_eval g f base id = false ->
  handoff_fs g f base view l parent sel md a id fr = (l, [], Err ENoArtifact).
Proof.
  intros g f base view l parent sel md a id fr H. unfold handoff_fs, handoff_gen.
  rewrite art_has_arts_of, H. unfold arts_of. rewrite H. destruct md; reflexivity.
Qed.

Lemma handoff_fs_ok_guard : forall g f base view l parent sel md a id fr l' arts' r,
  handoff_fs g f base view l parent sel md a id fr = (l', arts', Ok r) -> guard_eval g f base id = true.
Proof.
  intros g f base view l parent sel md a id fr l' arts' r H.
  destruct (guard_eval g f base id) eqn:E; [reflexivity|].
  rewrite (handoff_fs_refused g f base view l parent sel md a id fr E) in H. discriminate.
Qed.

Lemma handoff_fs_ok_frames : forall g f base view l parent sel md a id fr l' arts' c cut om,
  handoff_fs g f base view l parent sel md a id fr = (l', arts', Ok (c, cut, om)) ->
  c = f_child fr /\ resolve_cut sel view = Ok (cut, om)
  /\ l' = l ++ [created_frame c (f_e0 fr); handoff_frame c (f_e1 fr) parent cut om (Some a) md].
Proof.
  intros g f base view l parent sel md a id fr l' arts' c cut om H.
  unfold handoff_fs, handoff_gen in H.
  destruct (true && negb (art_has a (arts_of g f base a id))).
  - destruct md; discriminate.
  - destruct (resolve_cut sel view) as [[cut0 om0]|e] eqn:R.
    + destruct md; inversion H; subst; repeat split; reflexivity.
    + destruct md; discriminate.
Qed.

(* accepted under a sound guard: [created; lineage] is appended, the lineage frame records the caller's id, and
   that id resolves to a regular file whose bytes read back *)
Lemma handoff_fs_summary_resolves : forall g f base view l parent sel md a id fr l' arts' c cut om,
  guard_sound g = true ->
  handoff_fs g f base view l parent sel md a id fr = (l', arts', Ok (c, cut, om)) ->
  l' = l ++ [created_frame c (f_e0 fr); handoff_frame c (f_e1 fr) parent cut om (Some a) md]
  /\ exists p content, resolve f base id = WAt p (File content) /\ lookup f p = Some (File content)
                       /\ read_back f base id = Some content.
Proof.
  intros g f base view l parent sel md a id fr l' arts' c cut om Hs H.
  split; [exact (proj2 (proj2 (handoff_fs_ok_frames _ _ _ _ _ _ _ _ _ _ _ _ _ _ _ _ H)))|].
  pose proof (handoff_fs_ok_guard _ _ _ _ _ _ _ _ _ _ _ _ _ _ H) as G.
  destruct (guard_sound_resolves g f base id Hs G) as (p & content & A & B & C & _).
  exists p, content. repeat split; assumption.
Qed.

(* ---- witnesses (named constants, evaluated here) ---- *)
(* "/b" is the blobs directory of a store that holds one blob "/b/k"; "/x" is a file outside the store *)
Definition w_fs : fs := [([[98]], Dir); ([[98]; [107]], File [7]); ([[120]], File [9]); ([[98]; [115]], Dir)].
Definition w_base : list N := [47; 98].
Definition w_fr : fresh := {| f_child := 1; f_e0 := 20; f_e1 := 21; f_art := 30 |}.
Definition w_handoff (g : aguard) (id : list N) := handoff_fs g w_fs w_base demo_parent demo_log 0 SelNone false 40 id w_fr.

(* `exists()` in place of `is_file()`: the ids "", ".", "..", "s" (a sub-directory) pass, the frame is written,
   nothing can be read back *)
Lemma exists_guard_accepts_directory :
  w_handoff GExists [] = (demo_log ++ [created_frame 1 20; handoff_frame 1 21 0 6 (Some 15) (Some 40) false],
                          [(40, [])], Ok (1, 6, Some 15))
  /\ read_back w_fs w_base [] = None
  /\ guard_eval GExists w_fs w_base [46] = true /\ read_back w_fs w_base [46] = None
  /\ guard_eval GExists w_fs w_base [46; 46] = true /\ read_back w_fs w_base [46; 46] = None
  /\ guard_eval GNonEmptyExists w_fs w_base [115] = true /\ read_back w_fs w_base [115] = None
  /\ guard_eval GNonEmptyIsFile w_fs w_base [] = false /\ guard_eval GNonEmptyIsFile w_fs w_base [46] = false
  /\ guard_eval GNonEmptyIsFile w_fs w_base [46; 46] = false /\ guard_eval GNonEmptyIsFile w_fs w_base [115] = false.
Proof. vm_compute. repeat split; reflexivity. Qed.

Lemma handoff_exists_guard_refuted :
  exists g f base view l parent sel a id fr l' arts' r,
    handoff_fs g f base view l parent sel false a id fr = (l', arts', Ok r)
    /\ read_back f base id = None
    /\ exists c e cut om, In (handoff_frame c e parent cut om (Some a) false) l'.
Proof.
  exists GExists, w_fs, w_base, demo_parent, demo_log, 0, SelNone, 40, [], w_fr.
  eexists. eexists. eexists. split; [exact (proj1 exists_guard_accepts_directory)|].
  split; [exact (proj1 (proj2 exists_guard_accepts_directory))|].
  exists 1, 21, 6, (Some 15). apply in_or_app. right. right. left. reflexivity.
Qed.

(* the code as built: the blob passes, by its name, by a dotted path, by an absolute path *)
Lemma as_built_accepts_blob :
  guard_eval GNonEmptyIsFile w_fs w_base [107] = true /\ read_back w_fs w_base [107] = Some [7]
  /\ guard_eval GNonEmptyIsFile w_fs w_base [46; 47; 107] = true
  /\ guard_eval GNonEmptyIsFile w_fs w_base [115; 47; 46; 46; 47; 107] = true
  /\ guard_eval GNonEmptyIsFile w_fs w_base [47; 98; 47; 107] = true
  /\ guard_eval GNonEmptyIsFile w_fs w_base [107; 47] = false
  /\ guard_eval GNonEmptyIsFile w_fs w_base [110; 47; 46; 46; 47; 107] = false
  /\ guard_eval GNonEmptyIsFile w_fs w_base [107; 0] = false.
Proof. vm_compute. repeat split; reflexivity. Qed.

(* ... and so does a path that leaves the store: "../x" names the file /x, which is no blob.  The guard as built
   does not confine the id to the blobs directory (finding S30). *)
Lemma as_built_guard_escapes_store :
  exists f base id p c,
    guard_eval GNonEmptyIsFile f base id = true /\ resolve f base id = WAt p (File c) /\ under_base base p = false.
Proof. exists w_fs, w_base, [46; 46; 47; 120], [[120]], [9]. vm_compute. repeat split; reflexivity. Qed.

Lemma art_hypotheses_satisfiable :
  guard_sound GNonEmptyIsFile = true
  /\ w_handoff GNonEmptyIsFile [107]
     = (demo_log ++ [created_frame 1 20; handoff_frame 1 21 0 6 (Some 15) (Some 40) false], [(40, [])], Ok (1, 6, Some 15))
  /\ w_handoff GNonEmptyIsFile [] = (demo_log, [], Err ENoArtifact).
Proof. vm_compute. repeat split; reflexivity. Qed.

(* ---- the non-empty test is implied by is_file: "" joins to a string that ends with a separator, and a walk whose
   last segment is empty never stands at a regular file.  (So dropping `!id.is_empty()` keeps the property - mutation
   M3 - while replacing is_file by exists does not.) *)
Lemma split_aux_snoc : forall c s cur, split_aux c cur (s ++ [c]) = split_aux c cur s ++ [[]].
Proof.
  intros c s. induction s as [|x r IH]; intros cur.
  - cbn [app split_aux]. rewrite N.eqb_refl. reflexivity.
  - cbn [app split_aux]. destruct (x =? c); rewrite IH; reflexivity.
Qed.

Lemma walk_last_empty_not_file : forall f st p c, walk_step f st [] <> WAt p (File c).
Proof.
  intros f st p c. destruct st as [q n|]; [|discriminate].
  destruct n as [b|]; [discriminate|]. cbn. discriminate.
Qed.

Lemma ends_slash_snoc : forall s, ends_slash s = true -> exists s', s = s' ++ [47].
Proof.
  intros s H. unfold ends_slash in H. destruct (rev s) as [|x r] eqn:E; [discriminate|].
  assert (x = 47) as ->.
  { destruct x as [|p]; [discriminate|].
    do 6 (try (destruct p as [p|p|]; try discriminate H)). reflexivity. }
  exists (rev r). rewrite <- (rev_involutive s), E. reflexivity.
Qed.

Lemma join_empty_snoc : forall base, exists s', join_raw base [] = s' ++ [47].
Proof.
  intros base. unfold join_raw. cbn [starts_slash].
  destruct (ends_slash base) eqn:E.
  - destruct (ends_slash_snoc base E) as [s' ->]. exists s'. rewrite !app_nil_r. reflexivity.
  - exists base. rewrite app_nil_r. reflexivity.
Qed.

Lemma empty_id_never_a_file : forall f base, is_file_at f base [] = false.
Proof.
  intros f base. unfold is_file_at, resolve.
  destruct (join_empty_snoc base) as [s' ->].
  destruct (s' ++ [47]) as [|x r] eqn:E; [reflexivity|]. rewrite <- E. unfold resolve_raw.
  destruct (has_nul (s' ++ [47]) || (PATH_MAX <=? nlen (s' ++ [47]))); [reflexivity|].
  unfold split_on. rewrite split_aux_snoc, fold_left_app. cbn [fold_left].
  match goal with
  | |- context [walk_step f ?st ?e] =>
    pose proof (walk_last_empty_not_file f st) as K; destruct (walk_step f st e) as [p [c|]|]
  end; try reflexivity.
  exfalso. exact (K p c eq_refl).
Qed.

(* the two is_file shapes are the same predicate *)
Lemma nonempty_test_redundant : forall f base id,
  guard_eval GNonEmptyIsFile f base id = guard_eval GIsFile f base id.
Proof.
  intros f base id. cbn [guard_eval]. destruct id as [|x r]; [|reflexivity].
  cbn [nonempty andb]. symmetry. apply empty_id_never_a_file.
Qed.

(* ... the two exists shapes are not: "" passes one and not the other *)
Lemma nonempty_test_matters_for_exists :
  guard_eval GExists w_fs w_base [] = true /\ guard_eval GNonEmptyExists w_fs w_base [] = false
  /\ guard_eval GNonEmptyExists w_fs w_base [46] = true.
Proof. vm_compute. repeat split; reflexivity. Qed.

(* ---- an id that is one plain name resolves to the entry of that name IN the blobs directory: under the guard
   `plain id && is_file` (the repair proposed for S30) an accepted id cannot leave the store ---- *)
Lemma split_aux_nosep : forall c id cur, existsb (N.eqb c) id = false -> split_aux c cur id = [rev cur ++ id].
Proof.
  intros c id. induction id as [|x r IH]; intros cur H.
  - cbn [split_aux]. rewrite app_nil_r. reflexivity.
  - cbn [existsb] in H. apply orb_false_iff in H. destruct H as [Hx Hr].
    cbn [split_aux]. rewrite N.eqb_sym in Hx. rewrite Hx. rewrite (IH (x :: cur) Hr).
    cbn [rev]. rewrite <- app_assoc. reflexivity.
Qed.

Lemma split_aux_sep_nosep : forall c id s cur, existsb (N.eqb c) id = false ->
  split_aux c cur (s ++ c :: id) = split_aux c cur s ++ [id].
Proof.
  intros c id s. induction s as [|x r IH]; intros cur H.
  - cbn [app split_aux]. rewrite N.eqb_refl. rewrite (split_aux_nosep c id [] H). reflexivity.
  - cbn [app split_aux]. destruct (x =? c); rewrite (IH _ H); reflexivity.
Qed.

Lemma starts_slash_head : forall x r, starts_slash (x :: r) = true -> x = 47.
Proof.
  intros x r H. unfold starts_slash in H. destruct x as [|p]; [discriminate|].
  do 6 (try (destruct p as [p|p|]; try discriminate H)). reflexivity.
Qed.

Lemma nosep_not_absolute : forall id, existsb (N.eqb 47) id = false -> starts_slash id = false.
Proof.
  intros id H. destruct id as [|x r]; [reflexivity|].
  destruct (starts_slash (x :: r)) eqn:S; [|reflexivity].
  apply starts_slash_head in S. subst x. cbn in H. discriminate.
Qed.

Lemma join_rel_form : forall base id, starts_slash id = false ->
  exists b', join_raw base id = b' ++ 47 :: id /\ join_raw base [46] = b' ++ 47 :: [46].
Proof.
  intros base id H. unfold join_raw. rewrite H. cbn [starts_slash].
  destruct (ends_slash base) eqn:E.
  - destruct (ends_slash_snoc base E) as [b' ->]. exists b'. rewrite <- !app_assoc. cbn [app]. split; reflexivity.
  - exists base. cbn [app]. split; reflexivity.
Qed.

Lemma resolve_nonnil : forall f base id b' t, join_raw base id = b' ++ 47 :: t ->
  resolve f base id = resolve_raw f (b' ++ 47 :: t).
Proof. intros f base id b' t H. unfold resolve. rewrite H. destruct b'; reflexivity. Qed.

Lemma resolve_raw_plain : forall f b' id p n,
  plain id = true -> resolve_raw f (b' ++ 47 :: id) = WAt p n ->
  exists q, resolve_raw f (b' ++ 47 :: [46]) = WAt q Dir /\ p = q ++ [id].
Proof.
  intros f b' id p n Hp H. unfold plain in Hp.
  apply andb_true_iff in Hp. destruct Hp as [Hp Hdd]. apply andb_true_iff in Hp. destruct Hp as [Hp Hd].
  apply andb_true_iff in Hp. destruct Hp as [Hne Hns].
  apply negb_true_iff in Hdd. apply negb_true_iff in Hd. apply negb_true_iff in Hns.
  destruct id as [|x r]; [discriminate|].
  unfold resolve_raw in *.
  destruct (has_nul (b' ++ 47 :: x :: r) || (PATH_MAX <=? nlen (b' ++ 47 :: x :: r))) eqn:G; [discriminate|].
  apply orb_false_iff in G. destruct G as [G1 G2].
  assert (has_nul (b' ++ 47 :: [46]) || (PATH_MAX <=? nlen (b' ++ 47 :: [46])) = false) as G'.
  { apply orb_false_iff. split.
    - unfold has_nul in *. rewrite existsb_app in *. apply orb_false_iff in G1. destruct G1 as [A _].
      rewrite A. reflexivity.
    - apply N.leb_gt. apply N.leb_gt in G2. unfold nlen in *. rewrite app_length in *. cbn [length] in *. lia. }
  rewrite G'. unfold split_on in *.
  rewrite (split_aux_sep_nosep 47 (x :: r) b' [] Hns) in H.
  rewrite (split_aux_sep_nosep 47 [46] b' [] eq_refl).
  rewrite fold_left_app in *. cbn [fold_left] in *.
  revert H.
  match goal with |- context [walk_step f ?st [46]] => destruct st as [q [c|]|] end; intros H; try discriminate H.
  exists q. split; [reflexivity|].
  assert (seg_trivial (x :: r) = false) as T by exact Hd.
  revert H. unfold walk_step. rewrite T, Hdd. cbv beta iota.
  match goal with |- context [if ?b then _ else _] => destruct b end; [intros H; discriminate H|].
  match goal with |- context [match ?o with Some _ => _ | None => _ end] => destruct o end; [|intros H; discriminate H].
  intros H. inversion H. reflexivity.
Qed.

Lemma plain_resolves_in_dir : forall f base id p n,
  plain id = true -> resolve f base id = WAt p n ->
  exists q, resolve f base [46] = WAt q Dir /\ p = q ++ [id].
Proof.
  intros f base id p n Hp H.
  assert (starts_slash id = false) as S.
  { apply nosep_not_absolute. unfold plain in Hp.
    apply andb_true_iff in Hp. destruct Hp as [Hp _]. apply andb_true_iff in Hp. destruct Hp as [Hp _].
    apply andb_true_iff in Hp. destruct Hp as [_ Hns]. apply negb_true_iff in Hns. exact Hns. }
  destruct (join_rel_form base id S) as (b' & J1 & J2).
  rewrite (resolve_nonnil f base id b' id J1) in H. rewrite (resolve_nonnil f base [46] b' [46] J2).
  exact (resolve_raw_plain f b' id p n Hp H).
Qed.

(* the guard `plain && is_file`: accepted => the file is the entry named `id` of the directory `<blobs>/.` *)
Lemma guard_plain_confined : forall f base id,
  guard_plain f base id = true ->
  exists q c, resolve f base [46] = WAt q Dir /\ resolve f base id = WAt (q ++ [id]) (File c)
              /\ read_back f base id = Some c.
Proof.
  intros f base id H. unfold guard_plain in H. apply andb_true_iff in H. destruct H as [Hp Hf].
  destruct (is_file_at_resolves f base id Hf) as (p & c & R & _ & B & _).
  destruct (plain_resolves_in_dir f base id p (File c) Hp R) as (q & Q & ->).
  exists q, c. repeat split; assumption.
Qed.

(* "../x" is not plain: the proposed guard refuses the witness of as_built_guard_escapes_store, and still accepts the blob *)
Lemma guard_plain_examples :
  guard_plain w_fs w_base [46; 46; 47; 120] = false /\ guard_plain w_fs w_base [107] = true
  /\ guard_plain w_fs w_base [] = false /\ guard_plain w_fs w_base [46] = false /\ guard_plain w_fs w_base [115] = false.
Proof. vm_compute. repeat split; reflexivity. Qed.

(* ---- since the repair of S30: a guard that confines (guard_confines) lets an id pass only if it is the entry of that
   name in the blobs directory; the handoff over the file system records such an id only ---- *)
Lemma guard_confines_store : forall g f base id,
  guard_confines g = true -> guard_eval g f base id = true ->
  exists q c, resolve f base [46] = WAt q Dir /\ resolve f base id = WAt (q ++ [id]) (File c)
              /\ read_back f base id = Some c.
Proof.
  intros g f base id Hc He. destruct g; try discriminate. cbn [guard_eval] in He. exact (guard_plain_confined f base id He).
Qed.

Lemma handoff_fs_summary_in_store : forall g f base view l parent sel md a id fr l' arts' c cut om,
  guard_confines g = true ->
  handoff_fs g f base view l parent sel md a id fr = (l', arts', Ok (c, cut, om)) ->
  l' = l ++ [created_frame c (f_e0 fr); handoff_frame c (f_e1 fr) parent cut om (Some a) md]
  /\ exists q content, resolve f base [46] = WAt q Dir /\ resolve f base id = WAt (q ++ [id]) (File content)
                        /\ read_back f base id = Some content.
Proof.
  intros g f base view l parent sel md a id fr l' arts' c cut om Hc H.
  split; [exact (proj2 (proj2 (handoff_fs_ok_frames _ _ _ _ _ _ _ _ _ _ _ _ _ _ _ _ H)))|].
  pose proof (handoff_fs_ok_guard _ _ _ _ _ _ _ _ _ _ _ _ _ _ H) as G.
  exact (guard_confines_store g f base id Hc G).
Qed.

(* the repaired guard on the witnesses: the blob passes by its name only; every path-like spelling, the directory
   shapes and the file outside the store are refused *)
Lemma repaired_guard_examples :
  guard_eval GPlainIsFile w_fs w_base [107] = true
  /\ guard_eval GPlainIsFile w_fs w_base [46; 47; 107] = false
  /\ guard_eval GPlainIsFile w_fs w_base [47; 98; 47; 107] = false
  /\ guard_eval GPlainIsFile w_fs w_base [46; 46; 47; 120] = false
  /\ guard_eval GPlainIsFile w_fs w_base [] = false /\ guard_eval GPlainIsFile w_fs w_base [46] = false
  /\ guard_eval GPlainIsFile w_fs w_base [46; 46] = false /\ guard_eval GPlainIsFile w_fs w_base [115] = false
  /\ guard_eval GPlainIsFile w_fs w_base [107; 47] = false
  /\ w_handoff GPlainIsFile [46; 46; 47; 120] = (demo_log, [], Err ENoArtifact).
Proof. vm_compute. repeat split; reflexivity. Qed.
