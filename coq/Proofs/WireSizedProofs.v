(* C03 — frames of every size: proofs for Model/WireSized.v.
   (1) ssum_unfold: the weight computed on the run-length folded document is the weight of the printed text, for every
       weight function and every document (so the byte length / code-point sum the model compares with the real
       writer's line is that of `Json.print (unfold doc)`, although the text is never built);
   (2) an append gate that holds only the serialiser's `?` lets every frame through: run_gated = run_faulty, and the
       views theorems hold for frames of EVERY size on a healthy disk, at the continuity sites and at the session /
       task emitters alike;
   (3) a size limit in the gate (the seeded change C03-9) behind the session emitter as written: a frame over the limit
       is live and in the snapshot, not in the log, and the log holds the stream with a hole. *)
From RipV Require Import Base.Prelude Base.Json Base.JsonParse Model.Wire Model.WireSized Proofs.WireProofs Proofs.WireOrderProofs.

(* ================= nested induction principle for folded documents ================= *)
Fixpoint sjson_ind' (P : sjson -> Prop)
  (Hnull : P SNull) (Hbool : forall b, P (SBool b)) (Hnum : forall t, P (SNum t)) (Hstr : forall r, P (SStr r))
  (Harr : forall l, Forall P l -> P (SArr l))
  (Hobj : forall kvs, Forall (fun kv => P (snd kv)) kvs -> P (SObj kvs))
  (j : sjson) {struct j} : P j :=
  match j with
  | SNull => Hnull
  | SBool b => Hbool b
  | SNum t => Hnum t
  | SStr r => Hstr r
  | SArr l =>
    Harr l ((fix go (l : list sjson) : Forall P l :=
               match l with
               | [] => Forall_nil P
               | x :: r => Forall_cons x (sjson_ind' P Hnull Hbool Hnum Hstr Harr Hobj x) (go r)
               end) l)
  | SObj kvs =>
    Hobj kvs ((fix go (l : list (str * sjson)) : Forall (fun kv => P (snd kv)) l :=
                 match l with
                 | [] => Forall_nil _
                 | kv :: r =>
                   Forall_cons kv
                     (match kv as kv0 return P (snd kv0) with
                      | (k, v) => sjson_ind' P Hnull Hbool Hnum Hstr Harr Hobj v
                      end) (go r)
                 end) kvs)
  end.

(* ================= weights ================= *)
Lemma wsum_app w a b : wsum w (a ++ b) = wsum w a + wsum w b.
Proof. induction a as [|c a IH]; cbn [wsum app]; [lia | rewrite IH; lia]. Qed.

Lemma flat_map_rep (n : nat) (u : str) : flat_map esc_char (rep n u) = rep n (flat_map esc_char u).
Proof. induction n as [|n IH]; cbn [rep flat_map]; [reflexivity | rewrite flat_map_app, IH; reflexivity]. Qed.

Lemma wsum_rep w (n : nat) x : wsum w (rep n x) = N.of_nat n * wsum w x.
Proof.
  induction n as [|n IH]; cbn [rep]; [cbn [wsum]; lia|].
  rewrite wsum_app, IH, Nat2N.inj_succ. lia.
Qed.

Lemma esc_expand w r : wsum w (flat_map esc_char (expand r)) = rle_w w r.
Proof.
  induction r as [|[u n] t IH]; cbn [expand rle_w flat_map]; [reflexivity|].
  rewrite flat_map_app, wsum_app, flat_map_rep, wsum_rep, N2Nat.id, IH. unfold esc_w. reflexivity.
Qed.

Lemma wsum_print_str w x : wsum w (print_str x) = w cQUOTE + (wsum w (flat_map esc_char x) + w cQUOTE).
Proof. unfold print_str. cbn [wsum]. rewrite wsum_app. cbn [wsum]. lia. Qed.

Lemma wsum_join w c (l : list str) : wsum w (join [c] l) = sumN (map (wsum w) l) + w c * N.of_nat (pred (length l)).
Proof.
  induction l as [|x l IH]; [cbn [join map sumN wsum length pred]; lia|].
  destruct l as [|y r].
  - cbn [join map sumN length pred]. cbn [N.of_nat]. lia.
  - change (join [c] (x :: y :: r)) with (x ++ [c] ++ join [c] (y :: r)).
    rewrite !wsum_app, IH. cbn [map sumN length pred wsum]. rewrite Nat2N.inj_succ. lia.
Qed.

(* the weight computed on the folded document IS the weight of the printed text *)
Theorem ssum_unfold w : forall j, ssum w j = wsum w (print (unfold j)).
Proof.
  induction j as [| b | t | r | l IH | kvs IH] using sjson_ind'.
  - reflexivity.
  - destruct b; reflexivity.
  - reflexivity.
  - cbn [ssum unfold print]. rewrite wsum_print_str, esc_expand. reflexivity.
  - cbn [ssum unfold print]. cbn [wsum]. rewrite wsum_app, wsum_join, !map_map, !map_length. cbn [wsum]. unfold seps.
    assert (E : map (ssum w) l = map (fun x => wsum w (print (unfold x))) l).
    { apply map_ext_in. intros x Hx. rewrite Forall_forall in IH. apply IH, Hx. }
    rewrite E. lia.
  - cbn [ssum unfold print]. cbn [wsum]. rewrite wsum_app, wsum_join, !map_map, !map_length. cbn [wsum fst snd]. unfold seps.
    assert (E : map (fun kv => wsum w (print_str (fst kv)) + (w cCOLON + ssum w (snd kv))) kvs
                = map (fun x => wsum w (print_str (fst x) ++ cCOLON :: print (unfold (snd x)))) kvs).
    { apply map_ext_in. intros kv Hkv. rewrite Forall_forall in IH. rewrite wsum_app. cbn [wsum]. rewrite (IH kv Hkv). reflexivity. }
    rewrite E. lia.
Qed.

Corollary sbytes_unfold j : ssum utf8_len j = bytes (print (unfold j)).
Proof. apply ssum_unfold. Qed.

(* folding is exact for the units the harness folds by: an example with every escape class *)
Example fold_demo :
  ssum utf8_len (SObj [([107], SStr [([97; 99; 107; 58; 32], 1); ([34; 10; 1; 233; 8364; 128512], 1000000)])]) = 19000013
  /\ bytes (print (unfold (SObj [([107], SStr [([97; 99; 107; 58; 32], 1); ([34; 10; 1; 233; 8364; 128512], 3)])]))) = 70.
Proof. split; vm_compute; reflexivity. Qed.

(* ================= the gate ================= *)
Lemma gate_open g len : wf_append_gate g = true -> gate_accepts g len = true.
Proof.
  unfold wf_append_gate, gate_accepts. induction g as [|st g IH]; cbn [forallb]; [reflexivity|].
  destruct st; cbn [andb]; try discriminate; exact IH.
Qed.

(* nothing about a frame makes the log refuse it: the fate of a log write is the disk's alone *)
Theorem fate_is_the_disks g s e d : wf_append_gate g = true -> fate g s e d = d.
Proof. intro H. unfold fate. rewrite (gate_open _ _ H). apply andb_true_r. Qed.

Theorem run_gated_open g eo s steps : wf_append_gate g = true -> run_gated g eo s steps = run_faulty eo s steps.
Proof.
  intro H. unfold run_gated. f_equal. rewrite <- (map_id steps) at 2. apply map_ext.
  intros [e d]. cbn [fst snd]. rewrite (fate_is_the_disks _ _ _ _ H). reflexivity.
Qed.

Lemma emit_at_sess_ok s k e : emit_at eo_sess s k e true = emit s k e.
Proof. reflexivity. Qed.

Lemma run_healthy_sess s es : forall k,
  fold_left (fun k x => emit_at eo_sess s k (fst x) (snd x)) (healthy es) k = fold_left (emit s) es k.
Proof. induction es as [|e es IH]; intro k; [reflexivity|]. cbn [healthy map fold_left fst snd]. rewrite emit_at_sess_ok. apply IH. Qed.

Lemma logged_healthy es : logged (healthy es) = es.
Proof. unfold logged, healthy. induction es as [|e es IH]; [reflexivity|]. cbn [map filter snd fst]. rewrite IH. reflexivity. Qed.

(* on a healthy disk, behind a gate that lets every frame through, an emit site runs as `emit`: the continuity order
   AND the session / task emitters' order (store, channel, unchecked log append last) *)
Theorem run_gated_healthy g eo s es :
  wf_append_gate g = true -> (eo = eo_sess \/ wf_order eo = true) -> run_gated g eo s (healthy es) = run_emits s es.
Proof.
  intros Hg [-> | Ho]; rewrite (run_gated_open _ _ _ _ Hg).
  - unfold run_faulty, run_emits. apply run_healthy_sess.
  - rewrite (run_faulty_eq _ _ _ Ho), logged_healthy. reflexivity.
Qed.

(* frames of EVERY size: the four views agree (there is no hypothesis on the length of any frame) *)
Theorem views_agree_sized g eo s es key :
  wf_append_gate g = true -> (eo = eo_sess \/ wf_order eo = true) -> wf_schema s = true -> all_ok s es ->
  view_log s key (run_gated g eo s (healthy es)) = Some (map (canon_event s) (view_live s key (run_gated g eo s (healthy es))))
  /\ view_sidecar s key (run_gated g eo s (healthy es)) = Some (map (canon_event s) (view_live s key (run_gated g eo s (healthy es))))
  /\ view_snapshot s key (run_gated g eo s (healthy es)) = Some (map (canon_event s) (view_live s key (run_gated g eo s (healthy es)))).
Proof. intros Hg Ho Hs Hok. rewrite (run_gated_healthy _ _ _ _ Hg Ho). apply views_agree; assumption. Qed.

Theorem live_is_emitted_sized g eo s es :
  wf_append_gate g = true -> (eo = eo_sess \/ wf_order eo = true) -> k_live (run_gated g eo s (healthy es)) = es.
Proof.
  intros Hg Ho. rewrite (run_gated_healthy _ _ _ _ Hg Ho). unfold run_emits.
  assert (G : forall l k, k_live (fold_left (emit s) l k) = k_live k ++ l).
  { induction l as [|e l IH]; intro k; cbn [fold_left]; [rewrite app_nil_r; reflexivity|].
    rewrite IH. cbn [emit k_live]. rewrite <- app_assoc. reflexivity. }
  apply G.
Qed.

(* which views a frame reaches at the two kinds of emit site of the code, as `frame_check` predicts it *)
Lemma site_views_code ok : site_views eo_sess ok = (true, true, ok) /\ site_views eo_cont ok = (ok, ok, ok).
Proof. destruct ok; split; reflexivity. Qed.

Lemma emit_at_sess_views s k e ok :
  k_live (emit_at eo_sess s k e ok) = k_live k ++ [e]
  /\ k_buffer (emit_at eo_sess s k e ok) = k_buffer k ++ [e]
  /\ k_log (emit_at eo_sess s k e ok) = k_log k ++ (if ok then [write_line s e] else []).
Proof. destruct ok; repeat split; try reflexivity. cbn. rewrite app_nil_r. reflexivity. Qed.

Lemma emit_at_cont_views s k e ok :
  k_live (emit_at eo_cont s k e ok) = k_live k ++ (if ok then [e] else [])
  /\ k_buffer (emit_at eo_cont s k e ok) = k_buffer k ++ (if ok then [e] else [])
  /\ k_log (emit_at eo_cont s k e ok) = k_log k ++ (if ok then [write_line s e] else []).
Proof. destruct ok; repeat split; try reflexivity; cbn; rewrite app_nil_r; reflexivity. Qed.

Theorem site_views_sound s k e ok :
  site_views eo_sess ok = (true, true, ok) /\ site_views eo_cont ok = (ok, ok, ok)
  /\ k_live (emit_at eo_sess s k e ok) = k_live k ++ [e]
  /\ k_buffer (emit_at eo_sess s k e ok) = k_buffer k ++ [e]
  /\ k_log (emit_at eo_sess s k e ok) = k_log k ++ (if ok then [write_line s e] else [])
  /\ k_live (emit_at eo_cont s k e ok) = k_live k ++ (if ok then [e] else [])
  /\ k_buffer (emit_at eo_cont s k e ok) = k_buffer k ++ (if ok then [e] else [])
  /\ k_log (emit_at eo_cont s k e ok) = k_log k ++ (if ok then [write_line s e] else []).
Proof.
  destruct (site_views_code ok) as [A B]. destruct (emit_at_sess_views s k e ok) as [C [D E]].
  destruct (emit_at_cont_views s k e ok) as [F [G H]]. repeat split; assumption.
Qed.

(* ================= a size limit in the gate (the seeded change C03-9) ================= *)
Definition demo_long : event :=
  {| e_id := [105; 48]; e_sid := [116]; e_ts := 1758000000000; e_seq := 0; e_var := 0;
     e_fields := [VVal (JStr (rep 60 [120; 233])); VOpt None; VOpt None; VVec []; VInt 0%Z] |}.
Definition demo_sized : list event := [demo_long; demo_seq 1].
Definition demo_limit : N := 160.
Definition demo_limited : append_gate := [GSerialize; GMaxLine demo_limit].

Lemma demo_sized_ok :
  wf_schema demo_schema = true /\ all_ok demo_schema demo_sized
  /\ seqs_from 0 (of_stream demo_schema demo_key demo_sized) = true
  /\ (demo_limit <? bytes (write_line demo_schema demo_long)) = true
  /\ (bytes (write_line demo_schema (demo_seq 1)) <=? demo_limit) = true.
Proof.
  split; [vm_compute; reflexivity|]. split; [repeat constructor; vm_compute; reflexivity|].
  repeat split; vm_compute; reflexivity.
Qed.

Lemma size_limit_witness :
  view_live demo_schema demo_key (run_gated demo_limited eo_sess demo_schema (healthy demo_sized)) = [demo_long; demo_seq 1]
  /\ view_snapshot demo_schema demo_key (run_gated demo_limited eo_sess demo_schema (healthy demo_sized)) = Some [demo_long; demo_seq 1]
  /\ view_log demo_schema demo_key (run_gated demo_limited eo_sess demo_schema (healthy demo_sized)) = Some [demo_seq 1].
Proof. vm_compute. repeat split; reflexivity. Qed.

Lemma demo_long_not_seq1 : ~ In demo_long [demo_seq 1].
Proof. intros [H | []]. apply (f_equal e_seq) in H. vm_compute in H. discriminate H. Qed.

(* the session / task emitters AS WRITTEN behind a log that refuses lines over n bytes, on a healthy disk: a frame over the
   limit is delivered live and written to the snapshot, never reaches the log, and the log then holds the stream without
   its seq 0 (validate_event_order fails: every validated replay of the store fails) *)
Theorem size_limit_refuted :
  exists n s es key e,
    wf_schema s = true /\ all_ok s es /\ seqs_from 0 (of_stream s key es) = true
    /\ In e (view_live s key (run_gated [GSerialize; GMaxLine n] eo_sess s (healthy es)))
    /\ (exists v, view_snapshot s key (run_gated [GSerialize; GMaxLine n] eo_sess s (healthy es)) = Some v /\ In e v)
    /\ (exists l, view_log s key (run_gated [GSerialize; GMaxLine n] eo_sess s (healthy es)) = Some l
                  /\ ~ In e l /\ seqs_from 0 l = false).
Proof.
  exists demo_limit, demo_schema, demo_sized, demo_key, demo_long.
  destruct demo_sized_ok as [H1 [H2 [H3 _]]]. destruct size_limit_witness as [W1 [W2 W3]].
  fold demo_limited.
  split; [exact H1|]. split; [exact H2|]. split; [exact H3|].
  split; [rewrite W1; left; reflexivity|].
  split; [exists [demo_long; demo_seq 1]; split; [exact W2 | left; reflexivity]|].
  exists [demo_seq 1]. split; [exact W3|]. split; [exact demo_long_not_seq1 | vm_compute; reflexivity].
Qed.

(* the same limit behind a continuity append path (log first, checked): the frame is nowhere — the views still agree *)
Theorem size_limit_cont_views_agree n s steps key :
  wf_schema s = true ->
  all_ok s (logged (map (fun x => (fst x, fate [GSerialize; GMaxLine n] s (fst x) (snd x))) steps)) ->
  view_log s key (run_gated [GSerialize; GMaxLine n] eo_cont s steps)
  = Some (map (canon_event s) (view_live s key (run_gated [GSerialize; GMaxLine n] eo_cont s steps)))
  /\ view_snapshot s key (run_gated [GSerialize; GMaxLine n] eo_cont s steps)
     = Some (map (canon_event s) (view_live s key (run_gated [GSerialize; GMaxLine n] eo_cont s steps))).
Proof.
  intros Hs Hok. unfold run_gated.
  destruct (views_agree_faulty eo_cont s _ key (proj1 eo_cont_wf) Hs Hok) as [A [_ C]]. split; assumption.
Qed.

Lemma gate_code_wf : wf_append_gate [GSerialize] = true /\ wf_side_gate [GKind; GIo; GIo; GSerialize] = true
                     /\ wf_append_gate demo_limited = false.
Proof. repeat split; reflexivity. Qed.
