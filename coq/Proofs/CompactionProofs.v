(* C09 — proofs about Model/Compaction.v *)
From RipV Require Import Base.Prelude Model.Compaction.
From Coq Require Import Sorting.Sorted Sorting.Permutation.

(* ---------- small list facts ---------- *)
Lemma map_flat_map_single {A B C} (f : A -> list B) (g : B -> C) (h : A -> C) (l : list A) :
  Forall (fun x => exists c, f x = [c] /\ g c = h x) l -> map g (flat_map f l) = map h l.
Proof.
  induction 1 as [|x l [c [Hf Hg]] _ IH]; cbn [flat_map map]; [reflexivity|].
  rewrite map_app, Hf, IH. cbn [map app]. rewrite Hg. reflexivity.
Qed.

Lemma in_flat_map_single {A B} (f : A -> list B) (l : list A) (c : B) :
  In c (flat_map f l) -> exists x, In x l /\ In c (f x).
Proof. intros H. apply in_flat_map in H. exact H. Qed.

(* ---------- cut ordinals ---------- *)
(* the multipliers K, K-1, … , at most n of them, all >= 1 *)
Fixpoint ks (n : nat) (k : N) : list N :=
  match n with
  | O => []
  | S n' => if k =? 0 then [] else k :: ks n' (k - 1)
  end.

Lemma cut_ords_ks n : forall k stride, stride <> 0 ->
  cut_ords n (k * stride) stride = map (fun j => j * stride) (ks n k).
Proof.
  induction n as [|n IH]; intros k stride Hs; cbn [cut_ords ks map]; [reflexivity|].
  destruct (k =? 0) eqn:Ek.
  - apply N.eqb_eq in Ek. subst k. rewrite N.mul_0_l. cbn. reflexivity.
  - apply N.eqb_neq in Ek.
    assert (Hne : k * stride <> 0) by nia.
    apply N.eqb_neq in Hne. rewrite Hne. cbn [map]. f_equal.
    replace (k * stride - stride) with ((k - 1) * stride) by nia.
    apply IH, Hs.
Qed.

Lemma ks_range n : forall k j, In j (ks n k) -> 1 <= j /\ j <= k.
Proof.
  induction n as [|n IH]; intros k j H; cbn [ks] in H; [contradiction|].
  destruct (k =? 0) eqn:Ek; [contradiction|]. apply N.eqb_neq in Ek.
  destruct H as [<-|H]; [lia|]. apply IH in H. lia.
Qed.

Lemma ks_length n : forall k, length (ks n k) = Nat.min n (N.to_nat k).
Proof.
  induction n as [|n IH]; intros k; cbn [ks]; [reflexivity|].
  destruct (k =? 0) eqn:Ek.
  - apply N.eqb_eq in Ek. subst k. cbn. lia.
  - apply N.eqb_neq in Ek. cbn [length]. rewrite IH. lia.
Qed.

Lemma ks_nth n : forall k i, (i < Nat.min n (N.to_nat k))%nat -> nth_error (ks n k) i = Some (k - N.of_nat i).
Proof.
  induction n as [|n IH]; intros k i Hi; [lia|]. cbn [ks].
  destruct (k =? 0) eqn:Ek.
  - apply N.eqb_eq in Ek. subst k. cbn in Hi. lia.
  - apply N.eqb_neq in Ek. destruct i as [|i]; cbn [nth_error].
    + f_equal. lia.
    + rewrite IH by lia. f_equal. lia.
Qed.

(* ---------- one cut point ---------- *)
Lemma nlen_nth_some {A} (l : list A) (i : N) : i < nlen l -> exists x, nth_error l (N.to_nat i) = Some x.
Proof.
  unfold nlen. intros H. destruct (nth_error l (N.to_nat i)) as [x|] eqn:E; [eauto|].
  apply nth_error_None in E. lia.
Qed.

Lemma cut_point_at_single K l ord :
  1 <= ord -> ord <= nlen (msgs l) ->
  exists c, cut_point_at K l ord = [c] /\ cp_ord c = ord
            /\ nth_error (msgs l) (N.to_nat (ord - 1)) = Some (cp_seq c, cp_mid c).
Proof.
  intros H1 H2. unfold cut_point_at.
  destruct (ord =? 0) eqn:E0; [apply N.eqb_eq in E0; lia|].
  destruct (nlen (msgs l) <? ord) eqn:E1; [apply N.ltb_lt in E1; lia|]. cbn [orb].
  destruct (nlen_nth_some (msgs l) (ord - 1)) as [[s id] Hn]; [lia|].
  rewrite Hn. eexists. split; [reflexivity|]. cbn. auto.
Qed.

Definition limit_of (K : consts) (lim : N) : nat := N.to_nat (clamp (k_limit_lo K) (k_limit_hi K) lim).

Theorem cut_points_exact K stride lim l :
  stride <> 0 ->
  map (fun c => (cp_ord c, Some (cp_seq c, cp_mid c))) (cut_points K stride lim l)
  = map (fun k => (k * stride, nth_error (msgs l) (N.to_nat (k * stride - 1))))
        (ks (limit_of K lim) (nlen (msgs l) / stride)).
Proof.
  intros Hs. unfold cut_points. rewrite cut_ords_ks by exact Hs.
  rewrite flat_map_concat_map, map_map, <- flat_map_concat_map.
  apply map_flat_map_single. apply Forall_forall. intros k Hk.
  apply ks_range in Hk. destruct Hk as [Hk1 Hk2].
  assert (Hle : k * stride <= nlen (msgs l)).
  { pose proof (N.mul_div_le (nlen (msgs l)) stride Hs). nia. }
  destruct (cut_point_at_single K l (k * stride)) as [c [Hc [Ho Hn]]]; [nia | exact Hle |].
  exists c. split; [exact Hc|]. rewrite Ho, Hn. reflexivity.
Qed.

Lemma cut_points_in K stride lim l c :
  In c (cut_points K stride lim l) ->
  exists ord, cut_point_at K l ord = [c] \/ In c (cut_point_at K l ord).
Proof.
  unfold cut_points. intros H. apply in_flat_map in H. destruct H as [ord [_ H]]. exists ord. right. exact H.
Qed.

(* ---------- best_le ---------- *)
Definition not_better (k b : ck) : Prop := ck_to k <= ck_to b /\ (ck_to k = ck_to b -> ck_seq k <= ck_seq b).

Lemma ck_better_false k b : ck_better k b = false <-> not_better k b.
Proof.
  unfold ck_better, not_better. rewrite orb_false_iff, andb_false_iff, N.ltb_ge, N.eqb_neq, N.ltb_ge. lia.
Qed.
Lemma ck_better_true k b : ck_better k b = true -> ck_to b <= ck_to k /\ ~ not_better k b.
Proof.
  unfold ck_better, not_better. rewrite orb_true_iff, andb_true_iff, N.ltb_lt, N.eqb_eq, N.ltb_lt. lia.
Qed.

Definition best_step (m : N) (best : option ck) (c : ck) : option ck :=
  if m <? ck_to c then best
  else match best with None => Some c | Some b => if ck_better c b then Some c else best end.

Definition BestInv (m : N) (P : list ck) (acc : option ck) : Prop :=
  match acc with
  | None => forall k, In k P -> m < ck_to k
  | Some b => In b P /\ ck_to b <= m /\ forall k, In k P -> ck_to k <= m -> not_better k b
  end.

Lemma best_step_inv m P acc c : BestInv m P acc -> BestInv m (P ++ [c]) (best_step m acc c).
Proof.
  unfold best_step. intros H.
  destruct (m <? ck_to c) eqn:E.
  - apply N.ltb_lt in E. destruct acc as [b|]; cbn [BestInv] in *.
    + destruct H as [Hi [Hm Hb]]. split; [apply in_or_app; auto|]. split; [exact Hm|].
      intros k Hk Hkm. apply in_app_or in Hk. destruct Hk as [Hk|[<-|[]]]; [auto | lia].
    + intros k Hk. apply in_app_or in Hk. destruct Hk as [Hk|[<-|[]]]; auto.
  - apply N.ltb_ge in E. destruct acc as [b|]; cbn [BestInv] in *.
    + destruct H as [Hi [Hm Hb]].
      destruct (ck_better c b) eqn:Eb; cbn [BestInv].
      * apply ck_better_true in Eb. split; [apply in_or_app; right; left; reflexivity|]. split; [exact E|].
        intros k Hk Hkm. apply in_app_or in Hk. destruct Hk as [Hk|[<-|[]]].
        -- specialize (Hb k Hk Hkm). unfold not_better in *. lia.
        -- unfold not_better. lia.
      * apply ck_better_false in Eb. split; [apply in_or_app; auto|]. split; [exact Hm|].
        intros k Hk Hkm. apply in_app_or in Hk. destruct Hk as [Hk|[<-|[]]]; auto.
    + split; [apply in_or_app; right; left; reflexivity|]. split; [exact E|].
      intros k Hk Hkm. apply in_app_or in Hk. destruct Hk as [Hk|[<-|[]]]; [specialize (H k Hk); lia|].
      unfold not_better. lia.
Qed.

Lemma best_fold_inv m L : forall P acc, BestInv m P acc -> BestInv m (P ++ L) (fold_left (best_step m) L acc).
Proof.
  induction L as [|c L IH]; intros P acc H; cbn [fold_left]; [rewrite app_nil_r; exact H|].
  replace (P ++ c :: L) with ((P ++ [c]) ++ L) by (rewrite <- app_assoc; reflexivity).
  apply IH, best_step_inv, H.
Qed.

Lemma best_le_spec L m : BestInv m L (best_le L m).
Proof.
  unfold best_le. change (fold_left _ L None) with (fold_left (best_step m) L None).
  apply (best_fold_inv m L [] None). cbn. intros k [].
Qed.

(* a cut point is "done" iff a checkpoint for exactly its seq is among the scanned checkpoints *)
Lemma best_le_done L s :
  (match best_le L s with Some c => ck_to c =? s | None => false end) = true
  <-> exists k, In k L /\ ck_to k = s.
Proof.
  pose proof (best_le_spec L s) as H. destruct (best_le L s) as [b|]; cbn [BestInv] in H.
  - destruct H as [Hi [Hm Hb]]. rewrite N.eqb_eq. split.
    + intros E. exists b. auto.
    + intros [k [Hk Hs]]. specialize (Hb k Hk). unfold not_better in Hb. lia.
  - split; [discriminate|]. intros [k [Hk Hs]]. specialize (H k Hk). lia.
Qed.

(* the look-up used by every cut point: bounded backward scan when it covered the whole sidecar, truth otherwise;
   either way it is best_le over a permutation of all checkpoint frames *)
Definition cut_lookup (K : consts) (l : list ev) (s : N) : option ck :=
  match ck_lookup K (ckpts l) s with Some b => b | None => best_le (ckpts l) s end.

Lemma cut_lookup_inv K l s : BestInv s (ckpts l) (cut_lookup K l s).
Proof.
  unfold cut_lookup, ck_lookup. destruct (nlen (ckpts l) <=? k_ck_window K).
  - pose proof (best_le_spec (rev (ckpts l)) s) as H.
    destruct (best_le (rev (ckpts l)) s) as [b|]; cbn [BestInv] in *.
    + destruct H as [Hi [Hm Hb]]. split; [apply in_rev; exact Hi|]. split; [exact Hm|].
      intros k Hk. apply Hb. apply in_rev in Hk. exact Hk.
    + intros k Hk. apply H. apply in_rev in Hk. exact Hk.
  - apply best_le_spec.
Qed.

Lemma cut_point_at_shape K l ord c :
  In c (cut_point_at K l ord) ->
  exists s id, nth_error (msgs l) (N.to_nat (ord - 1)) = Some (s, id) /\ c = mk_cut ord s id (cut_lookup K l s).
Proof.
  unfold cut_point_at. destruct ((ord =? 0) || (nlen (msgs l) <? ord)); [intros []|].
  destruct (nth_error (msgs l) (N.to_nat (ord - 1))) as [[s id]|]; [|intros []].
  intros [<-|[]]. exists s, id. split; reflexivity.
Qed.

(* what "checkpointed, the latest such frame (by stream order) winning" means for one cut point *)
Definition latest_for (cks : list ck) (s : N) (b : ck) : Prop :=
  In b cks /\ ck_to b = s /\ forall k, In k cks -> ck_to k = s -> ck_seq k <= ck_seq b.

Lemma mk_cut_spec cks ord s id acc :
  BestInv s cks acc ->
  let c := mk_cut ord s id acc in
  (cp_done c = true <-> exists k, In k cks /\ ck_to k = s)
  /\ (forall i, cp_ck c = Some i <-> exists b, latest_for cks s b /\ ck_id b = i /\ acc = Some b)
  /\ (cp_done c = false -> cp_ck c = None).
Proof.
  intros H. cbn zeta. unfold mk_cut. cbn [cp_done cp_ck]. destruct acc as [b|]; cbn [BestInv option_map] in *.
  - destruct H as [Hi [Hm Hb]]. destruct (ck_to b =? s) eqn:E.
    + apply N.eqb_eq in E. split; [|split].
      * split; [intros _; exists b; auto | reflexivity].
      * intros i. split.
        -- intros Hc. injection Hc as <-. exists b. split; [|auto]. split; [exact Hi|]. split; [exact E|].
           intros k Hk Hs. specialize (Hb k Hk). unfold not_better in Hb. lia.
        -- intros [b' [_ [Hid Hacc]]]. injection Hacc as <-. rewrite Hid. reflexivity.
      * discriminate.
    + apply N.eqb_neq in E. split; [|split].
      * split; [discriminate|]. intros [k [Hk Hs]]. specialize (Hb k Hk). unfold not_better in Hb. lia.
      * intros i. split; [discriminate|]. intros [b' [[_ [Hs _]] [_ Hacc]]]. injection Hacc as <-. congruence.
      * reflexivity.
  - split; [|split].
    + split; [discriminate|]. intros [k [Hk Hs]]. specialize (H k Hk). lia.
    + intros i. split; [discriminate|]. intros [b' [_ [_ Hacc]]]. discriminate.
    + reflexivity.
Qed.

Lemma cut_point_at_done K l ord c :
  In c (cut_point_at K l ord) ->
  (cp_done c = true <-> exists k, In k (ckpts l) /\ ck_to k = cp_seq c).
Proof.
  intros H. apply cut_point_at_shape in H. destruct H as [s [id [_ ->]]].
  exact (proj1 (mk_cut_spec (ckpts l) ord s id _ (cut_lookup_inv K l s))).
Qed.

Theorem checkpointed_iff_ck K stride lim l c :
  In c (cut_points K stride lim l) ->
  (cp_done c = true <-> exists k, In k (ckpts l) /\ ck_to k = cp_seq c).
Proof.
  unfold cut_points. intros H. apply in_flat_map in H. destruct H as [ord [_ H]].
  eapply cut_point_at_done, H.
Qed.

Lemma in_ckpts l k :
  In k (ckpts l) <-> exists e, In e l /\ ebody e = BCkpt (ck_rule k) (ck_art k) (ck_to k) (ck_mid k)
                               /\ ck_seq k = eseq e /\ ck_id k = eid e.
Proof.
  unfold ckpts. rewrite in_flat_map. split.
  - intros [e [He Hk]]. exists e. split; [exact He|].
    destruct (ebody e); try contradiction. destruct Hk as [<-|[]]. cbn. auto.
  - intros [e [He [Hb [Hs Hi]]]]. exists e. split; [exact He|]. rewrite Hb. left.
    destruct k; cbn in *. subst. reflexivity.
Qed.

(* the property's wording: checkpointed exactly when a checkpoint frame for that seq exists *)
Theorem checkpointed_iff K stride lim l c :
  In c (cut_points K stride lim l) ->
  (cp_done c = true <-> exists e r a m, In e l /\ ebody e = BCkpt r a (cp_seq c) m).
Proof.
  intros Hc. rewrite (checkpointed_iff_ck K stride lim l c Hc). split.
  - intros [k [Hk Hs]]. apply in_ckpts in Hk. destruct Hk as [e [He [Hb _]]].
    exists e, (ck_rule k), (ck_art k), (ck_mid k). rewrite <- Hs. auto.
  - intros [e [r [a [m [He Hb]]]]].
    exists {| ck_to := cp_seq c; ck_seq := eseq e; ck_id := eid e; ck_art := a; ck_rule := r; ck_mid := m |}.
    split; [|reflexivity]. apply in_ckpts. exists e. cbn. auto.
Qed.

(* … the latest such frame (largest frame seq = latest in stream order) winning *)
Theorem checkpointed_latest_wins K stride lim l c :
  In c (cut_points K stride lim l) ->
  (forall i, cp_ck c = Some i <-> exists b, latest_for (ckpts l) (cp_seq c) b /\ ck_id b = i
                                          /\ cut_lookup K l (cp_seq c) = Some b)
  /\ (cp_done c = false -> cp_ck c = None).
Proof.
  unfold cut_points. intros H. apply in_flat_map in H. destruct H as [ord [_ H]].
  apply cut_point_at_shape in H. destruct H as [s [id [_ ->]]].
  exact (proj2 (mk_cut_spec (ckpts l) ord s id _ (cut_lookup_inv K l s))).
Qed.

(* the behaviour before the repair (bounded scan trusted even when it stopped at the event cap) *)
Definition unfixed_log : list ev :=
  [ {| eseq := 0; eid := 1; ebody := BOther |};
    {| eseq := 1; eid := 2; ebody := BMsg 0 0 |}; {| eseq := 2; eid := 3; ebody := BMsg 0 1 |};
    {| eseq := 3; eid := 4; ebody := BCkpt 0 1 1 (Some 2) |};
    {| eseq := 4; eid := 5; ebody := BCkpt 0 1 2 (Some 3) |}; {| eseq := 5; eid := 6; ebody := BCkpt 0 1 2 (Some 3) |} ].
Definition small_window : consts :=
  {| k_default_stride := 10000; k_limit_lo := 1; k_limit_hi := 32; k_plan_limit := 32;
     k_maxnew_lo := 1; k_maxnew_hi := 32; k_ck_window := 2; k_inflight_window := 512 |}.
Lemma unfixed_refuted :
  map (fun c => (cp_seq c, cp_done c)) (cut_points_unfixed small_window 1 2 unfixed_log) = [(2, true); (1, false)]
  /\ map (fun c => (cp_seq c, cp_done c)) (cut_points small_window 1 2 unfixed_log) = [(2, true); (1, true)]
  /\ In {| eseq := 3; eid := 4; ebody := BCkpt 0 1 1 (Some 2) |} unfixed_log.
Proof. split; [|split]; vm_compute; auto. Qed.

(* ---------- stride 0 ---------- *)
Theorem stride_zero_rejected K s :
  (forall lim, step K s (OCut (Some 0) lim) = (s, [1; 10]))
  /\ step K s (OStatus (Some 0)) = (s, [1; 10])
  /\ (forall mx d, step K s (OAuto (Some 0) mx d) = (s, [1; 10]))
  /\ (forall mx b e d, step K s (OSched (Some 0) mx b e d) = (s, [1; 10])).
Proof. repeat split; intros; reflexivity. Qed.

Theorem manual_stride_zero_rejected K s md art :
  msgs (log s) <> [] -> (md <> None \/ art <> None) ->
  manual K {| mr_md := md; mr_art := art; mr_to_mid := None; mr_to_seq := None; mr_stride := Some 0 |} s = (s, Err 6).
Proof.
  intros Hm Hs. unfold manual, manual_target. cbn [mr_md mr_art mr_to_mid mr_to_seq mr_stride].
  destruct (msgs (log s)) as [|x r] eqn:E; [congruence|].
  destruct md, art; try reflexivity. destruct Hs; congruence.
Qed.

(* ---------- non-vacuity ---------- *)
Definition demo_ops : list op :=
  [OMsg 0 1; OMsg 1 2; OOther; OMsg 0 3; OMsg 1 4; OMsg 0 5;
   OManual {| mr_md := Some 0; mr_art := None; mr_to_mid := None; mr_to_seq := Some 2; mr_stride := None |};
   OManual {| mr_md := Some 0; mr_art := None; mr_to_mid := None; mr_to_seq := Some 2; mr_stride := None |}].
Definition demo_log : list ev := log (fst (run_ops real_consts st0 demo_ops [])).

Lemma demo_cut_points :
  map (fun c => (cp_ord c, cp_seq c, cp_mid c, cp_done c, cp_ck c)) (cut_points real_consts 2 32 demo_log)
  = [(4, 5, 6, false, None); (2, 2, 3, true, Some 9)]
  /\ map eid (filter (fun e => match ebody e with BCkpt _ _ 2 _ => true | _ => false end) demo_log) = [8; 9].
Proof. split; vm_compute; reflexivity. Qed.

(* ====================================================================================================== *)
(* ---------- cut points as a map over targets (which depend on the messages only) ---------- *)
Definition target_at (ms : list (N * N)) (ord : N) : list (N * N * N) :=
  if (ord =? 0) || (nlen ms <? ord) then []
  else match nth_error ms (N.to_nat (ord - 1)) with None => [] | Some (s, id) => [(ord, s, id)] end.
Definition targets (K : consts) (stride lim : N) (ms : list (N * N)) : list (N * N * N) :=
  flat_map (target_at ms)
           (cut_ords (N.to_nat (clamp (k_limit_lo K) (k_limit_hi K) lim)) ((nlen ms / stride) * stride) stride).
Definition t_seq (t : N * N * N) : N := snd (fst t).
Definition cut_of (K : consts) (l : list ev) (t : N * N * N) : cutpt :=
  let '(ord, s, id) := t in mk_cut ord s id (cut_lookup K l s).
Definition plan_of (t : N * N * N) : plan := let '(ord, s, id) := t in {| pl_ord := ord; pl_seq := s; pl_mid := id |}.

Lemma cut_point_at_targets K l ord : cut_point_at K l ord = map (cut_of K l) (target_at (msgs l) ord).
Proof.
  unfold cut_point_at, target_at. destruct ((ord =? 0) || (nlen (msgs l) <? ord)); [reflexivity|].
  destruct (nth_error (msgs l) (N.to_nat (ord - 1))) as [[s id]|]; reflexivity.
Qed.

Lemma cut_points_targets K stride lim l :
  cut_points K stride lim l = map (cut_of K l) (targets K stride lim (msgs l)).
Proof.
  unfold cut_points, targets.
  induction (cut_ords (N.to_nat (clamp (k_limit_lo K) (k_limit_hi K) lim)) (nlen (msgs l) / stride * stride) stride)
    as [|o r IH]; cbn [flat_map map]; [reflexivity|].
  rewrite map_app, IH, cut_point_at_targets. reflexivity.
Qed.

Lemma to_plan_cut_of K l t : to_plan (cut_of K l t) = plan_of t.
Proof. destruct t as [[ord s] id]. reflexivity. Qed.
Lemma cp_seq_cut_of K l t : cp_seq (cut_of K l t) = t_seq t.
Proof. destruct t as [[ord s] id]. reflexivity. Qed.
Lemma pl_seq_plan_of t : pl_seq (plan_of t) = t_seq t.
Proof. destruct t as [[ord s] id]. reflexivity. Qed.

(* "a checkpoint frame for seq s exists", as a boolean *)
Definition has_ck (l : list ev) (s : N) : bool := existsb (fun k => ck_to k =? s) (ckpts l).

Lemma cp_done_cut_of K l t : cp_done (cut_of K l t) = has_ck l (t_seq t).
Proof.
  destruct t as [[ord s] id]. unfold cut_of, t_seq. cbn [fst snd].
  pose proof (proj1 (mk_cut_spec (ckpts l) ord s id _ (cut_lookup_inv K l s))) as H. cbn zeta in H.
  apply eq_true_iff_eq. rewrite H. unfold has_ck. rewrite existsb_exists.
  split; intros [k [Hk Hs]]; exists k; (split; [exact Hk|]); [apply N.eqb_eq; exact Hs | apply N.eqb_eq in Hs; exact Hs].
Qed.

(* the undone targets, latest first: what auto / schedule plan from *)
Definition undone (K : consts) (stride : N) (l : list ev) : list (N * N * N) :=
  filter (fun t => negb (has_ck l (t_seq t))) (targets K stride (k_plan_limit K) (msgs l)).

Lemma filter_map_comm {A B} (f : A -> B) (p : B -> bool) (l : list A) :
  filter p (map f l) = map f (filter (fun x => p (f x)) l).
Proof.
  induction l as [|x l IH]; cbn [map filter]; [reflexivity|]. destruct (p (f x)); cbn [map]; rewrite IH; reflexivity.
Qed.

Lemma plan_cuts_undone K stride maxnew l :
  plan_cuts K stride maxnew l = firstn (N.to_nat maxnew) (map plan_of (undone K stride l)).
Proof.
  unfold plan_cuts, undone. rewrite cut_points_targets, filter_map_comm, map_map. f_equal.
  erewrite map_ext by (intros t; apply to_plan_cut_of).
  f_equal. apply filter_ext. intros t. rewrite cp_done_cut_of. reflexivity.
Qed.

(* ====================================================================================================== *)
(* ---------- valid streams: frame seqs strictly increase (C01 gives seq = position) ---------- *)
Definition valid (l : list ev) : Prop := StronglySorted N.lt (map eseq l).

Lemma ssorted_app_one (l : list N) (x : N) :
  StronglySorted N.lt l -> Forall (fun y => y < x) l -> StronglySorted N.lt (l ++ [x]).
Proof.
  induction l as [|a l IH]; intros Hs Hf; cbn [app].
  - constructor; constructor.
  - inversion Hs as [|a' l' Hs' Ha]; subst. inversion Hf as [|a' l' Hax Hf']; subst.
    constructor; [apply IH; assumption|]. apply Forall_app. split; [exact Ha|]. constructor; [exact Hax|constructor].
Qed.

Lemma ssorted_last_max (l : list N) (x : N) :
  StronglySorted N.lt (l ++ [x]) -> Forall (fun y => y < x) l.
Proof.
  induction l as [|a l IH]; intros Hs; [constructor|]. cbn [app] in Hs.
  inversion Hs as [|a' l' Hs' Ha]; subst. constructor; [|apply IH; exact Hs'].
  apply Forall_app in Ha. destruct Ha as [_ Ha]. inversion Ha; assumption.
Qed.

Lemma next_seq_bound l : valid l -> Forall (fun y => y < next_seq l) (map eseq l).
Proof.
  unfold valid, next_seq. intros H. destruct (rev l) as [|e r] eqn:E.
  - apply (f_equal (@rev ev)) in E. rewrite rev_involutive in E. subst l. constructor.
  - apply (f_equal (@rev ev)) in E. rewrite rev_involutive in E. cbn [rev] in E. subst l.
    rewrite map_app in *. cbn [map] in *. apply Forall_app. split.
    + apply ssorted_last_max in H. eapply Forall_impl; [|exact H]. cbn. intros; lia.
    + constructor; [lia|constructor].
Qed.

Lemma valid_append s b : valid (log s) -> valid (log (append s b)).
Proof.
  intros H. unfold append, valid. cbn [log]. rewrite map_app. cbn [map eseq].
  apply ssorted_app_one; [exact H|]. apply next_seq_bound, H.
Qed.

Lemma valid_st0 : valid (log st0).
Proof. unfold valid. cbn. constructor; constructor. Qed.

(* projections under append *)
Lemma msgs_app a b : msgs (a ++ b) = msgs a ++ msgs b.
Proof. unfold msgs. apply flat_map_app. Qed.
Lemma msg_full_app a b : msg_full (a ++ b) = msg_full a ++ msg_full b.
Proof. unfold msg_full. apply flat_map_app. Qed.
Lemma ckpts_app a b : ckpts (a ++ b) = ckpts a ++ ckpts b.
Proof. unfold ckpts. apply flat_map_app. Qed.

Definition is_msg (b : body) : bool := match b with BMsg _ _ => true | _ => false end.

Lemma msgs_append_nonmsg s b : is_msg b = false -> msgs (log (append s b)) = msgs (log s).
Proof.
  intros H. unfold append. cbn [log]. rewrite msgs_app. cbn. destruct b; try discriminate; cbn; apply app_nil_r.
Qed.
Lemma msg_full_append_nonmsg s b : is_msg b = false -> msg_full (log (append s b)) = msg_full (log s).
Proof.
  intros H. unfold append. cbn [log]. rewrite msg_full_app. cbn. destruct b; try discriminate; cbn; apply app_nil_r.
Qed.

Lemma msgs_of_full l : map fst (msg_full l) = msgs l.
Proof.
  induction l as [|e l IH]; [reflexivity|]. unfold msg_full, msgs in *. cbn [flat_map].
  rewrite map_app, IH. destruct (ebody e); reflexivity.
Qed.

(* message seqs are a subsequence of the frame seqs *)
Lemma ssorted_sub (l : list ev) :
  StronglySorted N.lt (map eseq l) ->
  StronglySorted N.lt (map (fun m => fst (fst m)) (msg_full l))
  /\ Forall (fun x => In x (map eseq l)) (map (fun m => fst (fst m)) (msg_full l)).
Proof.
  induction l as [|e l IH]; intros H; [split; constructor|].
  cbn [map] in H. inversion H as [|a l' Hs Ha]; subst. destruct (IH Hs) as [IH1 IH2].
  assert (Hincl : Forall (fun x => In x (map eseq (e :: l))) (map (fun m => fst (fst m)) (msg_full l))).
  { eapply Forall_impl; [|exact IH2]. cbn. intros; auto. }
  unfold msg_full in *. cbn [flat_map]. destruct (ebody e); cbn [app map fst]; try (split; assumption).
  split.
  - constructor; [exact IH1|]. rewrite Forall_forall in *. intros x Hx. apply Ha, IH2, Hx.
  - constructor; [left; reflexivity | exact Hincl].
Qed.

Lemma valid_msgs_sorted l : valid l -> StronglySorted N.lt (map (fun m => fst (fst m)) (msg_full l)).
Proof. intros H. apply ssorted_sub, H. Qed.

(* upper_bound on a strictly sorted list, at the key of the i-th element, is i + 1 *)
Lemma upper_bound_nth (ms : list (N * N * (N * N))) : forall i m,
  StronglySorted N.lt (map (fun m => fst (fst m)) ms) ->
  nth_error ms i = Some m -> upper_bound ms (fst (fst m)) = S i.
Proof.
  unfold upper_bound. induction ms as [|x ms IH]; intros i m Hs Hn; [destruct i; discriminate|].
  cbn [map] in Hs. inversion Hs as [|a l' Hs' Ha]; subst.
  destruct i as [|i]; cbn [nth_error] in Hn.
  - injection Hn as ->. cbn [filter]. rewrite N.leb_refl. cbn [length]. f_equal.
    assert (E : filter (fun m0 => fst (fst m0) <=? fst (fst m)) ms = []).
    { clear IH Hs Hs'. induction ms as [|y ms IHm]; [reflexivity|]. cbn [map] in Ha.
      inversion Ha as [|a l' Hy Ha']; subst. cbn [filter].
      destruct (fst (fst y) <=? fst (fst m)) eqn:E; [apply N.leb_le in E; lia|]. apply IHm, Ha'. }
    rewrite E. reflexivity.
  - cbn [filter].
    assert (Hlt : fst (fst x) < fst (fst m)).
    { rewrite Forall_forall in Ha. apply Ha. apply in_map_iff. exists m. split; [reflexivity|].
      eapply nth_error_In, Hn. }
    destruct (fst (fst x) <=? fst (fst m)) eqn:E; [|apply N.leb_gt in E; lia].
    cbn [length]. f_equal. apply IH; assumption.
Qed.

(* ---------- one planned cut succeeds when its message is in the job's snapshot ---------- *)
Definition ck_frame (stride : N) (a : N) (p : plan) : body := BCkpt (rule_stride stride) a (pl_seq p) (Some (pl_mid p)).
Definition covers (v : summ) (p : plan) : Prop :=
  su_to_seq v = pl_seq p /\ su_to_mid v = Some (pl_mid p) /\ su_present v = true /\ su_kind v = 2.

Lemma run_cut_ok K snap stride s p x :
  StronglySorted N.lt (map (fun m => fst (fst m)) (msg_full snap)) ->
  In (pl_seq p, pl_mid p, x) (msg_full snap) ->
  exists v s2,
    run_cut K snap stride s p
    = Ok (s2, {| cr_ck := last_id s2; cr_art := fresh_art s; cr_seq := pl_seq p; cr_mid := pl_mid p |})
    /\ s2 = append {| log := log s; arts := arts s ++ [(fresh_art s, v)] |} (ck_frame stride (fresh_art s) p)
    /\ covers v p.
Proof.
  intros Hs Hin. apply In_nth_error in Hin. destruct Hin as [i Hn].
  pose proof (upper_bound_nth (msg_full snap) i _ Hs Hn) as Hub. cbn [fst] in Hub.
  unfold run_cut.
  destruct (select_base K (log s) snap (pl_seq p)) as [b base_to].
  assert (Hfin : forall base bootstrap note used,
    exists v s2,
      match nth_error (msg_full snap) (upper_bound (msg_full snap) (pl_seq p) - 1) with
      | None => Err 20
      | Some (ls, lid, _) =>
        if (ls =? pl_seq p) && (lid =? pl_mid p) then
          let slice := map snd (skipn (upper_bound (msg_full snap) (if (bootstrap : bool) then 0 else base_to))
                                      (firstn (upper_bound (msg_full snap) (pl_seq p)) (msg_full snap))) in
          let '(s1, a) := put_art s {| su_to_seq := pl_seq p; su_to_mid := Some (pl_mid p); su_base := base;
                                       su_note := note; su_kind := 2; su_slice := slice; su_base_used := used;
                                       su_present := true |} in
          let s2 := append s1 (BCkpt (rule_stride stride) a (pl_seq p) (Some (pl_mid p))) in
          Ok (s2, {| cr_ck := last_id s2; cr_art := a; cr_seq := pl_seq p; cr_mid := pl_mid p |})
        else Err 21
      end
      = Ok (s2, {| cr_ck := last_id s2; cr_art := fresh_art s; cr_seq := pl_seq p; cr_mid := pl_mid p |})
      /\ s2 = append {| log := log s; arts := arts s ++ [(fresh_art s, v)] |} (ck_frame stride (fresh_art s) p)
      /\ covers v p).
  { intros base bootstrap note used.
    rewrite Hub. replace (S i - 1)%nat with i by lia. rewrite Hn.
    rewrite !N.eqb_refl. cbn [andb].
    cbv beta iota zeta delta [put_art].
    eexists. eexists. split; [reflexivity|]. split; [reflexivity|].
    unfold covers. cbn. auto. }
  destruct (option_map ck_art b) as [a|]; [|exact (Hfin None true 0 false)].
  destruct (art_read s a) as [v|]; [|exact (Hfin (Some a) true 2 false)].
  destruct (su_kind v =? 1); [exact (Hfin (Some a) true 1 false) | exact (Hfin (Some a) false 0 true)].
Qed.

(* ---------- planned.sort_by(to_seq, to_message_id) ---------- *)
Definition le_seq (a b : plan) : Prop := pl_seq a <= pl_seq b.

Lemma plan_insert_perm p l : Permutation (plan_insert p l) (p :: l).
Proof.
  induction l as [|q r IH]; cbn [plan_insert]; [apply Permutation_refl|].
  destruct (plan_leb p q); [apply Permutation_refl|].
  eapply perm_trans; [apply perm_skip, IH | apply perm_swap].
Qed.
Lemma plan_sort_perm l : Permutation (plan_sort l) l.
Proof.
  induction l as [|p l IH]; cbn [plan_sort fold_right]; [constructor|].
  eapply perm_trans; [apply plan_insert_perm | apply perm_skip, IH].
Qed.
Lemma plan_insert_sorted p l : StronglySorted le_seq l -> StronglySorted le_seq (plan_insert p l).
Proof.
  induction l as [|q r IH]; intros H; cbn [plan_insert]; [constructor; constructor|].
  inversion H as [|q' r' Hs Hq]; subst.
  destruct (plan_leb p q) eqn:E; unfold plan_leb in E.
  - constructor; [exact H|]. assert (Hpq : le_seq p q) by (unfold le_seq; lia).
    constructor; [exact Hpq|]. eapply Forall_impl; [|exact Hq]. unfold le_seq in *. cbn. intros; lia.
  - constructor; [apply IH, Hs|].
    eapply Permutation_Forall; [apply Permutation_sym, plan_insert_perm|].
    constructor; [unfold le_seq; lia | exact Hq].
Qed.
Lemma plan_sort_sorted l : StronglySorted le_seq (plan_sort l).
Proof.
  induction l as [|p l IH]; cbn [plan_sort fold_right]; [constructor|]. apply plan_insert_sorted, IH.
Qed.

(* ---------- the artifact store ---------- *)
Lemma maxN_ge l k : In k l -> k <= maxN l.
Proof.
  induction l as [|x l IH]; intros H; [contradiction|]. cbn [maxN fold_right]. fold (maxN l).
  destruct H as [->|H]; [lia|]. apply IH in H. lia.
Qed.
Lemma art_get_app_fresh m a v rest :
  (forall k, In k (map fst m) -> k <> a) -> art_get a (m ++ (a, v) :: rest) = Some v.
Proof.
  induction m as [|[k w] m IH]; intros H; cbn [app art_get].
  - rewrite N.eqb_refl. reflexivity.
  - destruct (k =? a) eqn:E; [apply N.eqb_eq in E; exfalso; apply (H k); [left; reflexivity | exact E]|].
    apply IH. intros k' Hk'. apply H. right. exact Hk'.
Qed.
Lemma fresh_art_not_key s k : In k (map fst (arts s)) -> k <> fresh_art s.
Proof. intros H. apply maxN_ge in H. unfold fresh_art. lia. Qed.

(* ---------- all planned cuts, in order ---------- *)
Definition mk_created (s2 : st) (a : N) (p : plan) : created :=
  {| cr_ck := last_id s2; cr_art := a; cr_seq := pl_seq p; cr_mid := pl_mid p |}.

Inductive cuts_done (stride : N) : st -> list plan -> st -> list created -> Prop :=
| cd_nil s : cuts_done stride s [] s []
| cd_cons s p v ps s' made :
    covers v p ->
    cuts_done stride (append {| log := log s; arts := arts s ++ [(fresh_art s, v)] |} (ck_frame stride (fresh_art s) p))
              ps s' made ->
    cuts_done stride s (p :: ps) s'
              (mk_created (append {| log := log s; arts := arts s ++ [(fresh_art s, v)] |} (ck_frame stride (fresh_art s) p))
                          (fresh_art s) p :: made).

Lemma run_cuts_ok K snap stride : forall ps s acc,
  StronglySorted N.lt (map (fun m => fst (fst m)) (msg_full snap)) ->
  (forall p, In p ps -> exists x, In (pl_seq p, pl_mid p, x) (msg_full snap)) ->
  exists s' made, run_cuts K snap stride s ps acc = (s', acc ++ made, None) /\ cuts_done stride s ps s' made.
Proof.
  induction ps as [|p ps IH]; intros s acc Hs Hin; cbn [run_cuts].
  - exists s, []. rewrite app_nil_r. split; [reflexivity | constructor].
  - destruct (Hin p (or_introl eq_refl)) as [x Hx].
    destruct (run_cut_ok K snap stride s p x Hs Hx) as [v [s2 [Hr [Hs2 Hc]]]].
    rewrite Hr. destruct (IH s2 (acc ++ [mk_created s2 (fresh_art s) p]) Hs) as [s' [made [Hrun Hd]]].
    { intros q Hq. apply Hin. right. exact Hq. }
    exists s', (mk_created s2 (fresh_art s) p :: made). split.
    + unfold mk_created in *. rewrite Hrun, <- app_assoc. reflexivity.
    + subst s2. apply cd_cons; assumption.
Qed.

(* what a finished sequence of cuts looks like in the stream and in the artifact store *)
Definition ck_for (stride : N) (s' : st) (e : ev) (p : plan) : Prop :=
  exists a v, ebody e = ck_frame stride a p /\ art_read s' a = Some v /\ covers v p.
Definition created_for (c : created) (e : ev) : Prop :=
  cr_ck c = eid e /\ exists r, ebody e = BCkpt r (cr_art c) (cr_seq c) (Some (cr_mid c)).

Lemma last_id_append s b : last_id (append s b) = fresh_id (log s).
Proof. unfold last_id, append. cbn [log]. rewrite rev_app_distr. reflexivity. Qed.

Lemma cuts_done_spec stride s ps s' made :
  cuts_done stride s ps s' made ->
  exists frames extra,
    log s' = log s ++ frames /\ arts s' = arts s ++ extra
    /\ Forall2 (ck_for stride s') frames ps
    /\ Forall2 created_for made frames
    /\ (valid (log s) -> valid (log s')).
Proof.
  induction 1 as [s | s p v ps s' made Hc Hd IH].
  - exists [], []. rewrite !app_nil_r. repeat split; try constructor. auto.
  - destruct IH as [frames [extra [Hl [Ha [Hf [Hm Hv]]]]]].
    set (s1 := {| log := log s; arts := arts s ++ [(fresh_art s, v)] |}) in *.
    set (e := {| eseq := next_seq (log s1); eid := fresh_id (log s1); ebody := ck_frame stride (fresh_art s) p |}).
    exists (e :: frames), ((fresh_art s, v) :: extra).
    assert (Hl' : log s' = log s ++ e :: frames).
    { rewrite Hl. unfold append. cbn [log]. rewrite <- app_assoc. reflexivity. }
    assert (Ha' : arts s' = arts s ++ (fresh_art s, v) :: extra).
    { rewrite Ha. unfold append, s1. cbn [arts]. rewrite <- app_assoc. reflexivity. }
    split; [exact Hl'|]. split; [exact Ha'|]. split; [|split].
    + constructor; [|exact Hf]. exists (fresh_art s), v. split; [reflexivity|]. split; [|exact Hc].
      unfold art_read. rewrite Ha', art_get_app_fresh by (apply fresh_art_not_key).
      destruct Hc as [_ [_ [Hp _]]]. rewrite Hp. reflexivity.
    + constructor; [|exact Hm]. unfold created_for, mk_created. cbn [cr_ck cr_art cr_seq cr_mid].
      split; [apply last_id_append|]. exists (rule_stride stride). reflexivity.
    + intros Hval. apply Hv. apply (valid_append s1). exact Hval.
Qed.

(* ---------- planned cuts are messages of the thread ---------- *)
Lemma In_firstn {A} n (l : list A) x : In x (firstn n l) -> In x l.
Proof. rewrite <- (firstn_skipn n l) at 2. intros H. apply in_or_app. left. exact H. Qed.

Lemma targets_in K stride lim ms t :
  In t (targets K stride lim ms) ->
  let '(ord, s, id) := t in 1 <= ord /\ ord <= nlen ms /\ nth_error ms (N.to_nat (ord - 1)) = Some (s, id).
Proof.
  unfold targets. intros H. apply in_flat_map in H. destruct H as [o [_ H]]. unfold target_at in H.
  destruct ((o =? 0) || (nlen ms <? o)) eqn:E; [contradiction|].
  apply orb_false_iff in E. destruct E as [E0 E1]. apply N.eqb_neq in E0. apply N.ltb_ge in E1.
  destruct (nth_error ms (N.to_nat (o - 1))) as [[s id]|] eqn:En; [|contradiction].
  destruct H as [<-|[]]. repeat split; [lia | exact E1 | exact En].
Qed.

Lemma plan_cuts_in K stride maxnew l p :
  In p (plan_cuts K stride maxnew l) ->
  exists t, In t (undone K stride l) /\ p = plan_of t.
Proof.
  rewrite plan_cuts_undone. intros H. apply In_firstn in H. apply in_map_iff in H.
  destruct H as [t [<- Ht]]. exists t. auto.
Qed.

Lemma plan_cuts_msgs K stride maxnew l p :
  In p (plan_cuts K stride maxnew l) -> exists x, In (pl_seq p, pl_mid p, x) (msg_full l).
Proof.
  intros H. apply plan_cuts_in in H. destruct H as [[[ord s] id] [Ht ->]].
  unfold undone in Ht. apply filter_In in Ht. destruct Ht as [Ht _].
  apply targets_in in Ht. destruct Ht as [_ [_ Hn]]. apply nth_error_In in Hn.
  rewrite <- msgs_of_full in Hn. apply in_map_iff in Hn. destruct Hn as [[[s' id'] x] [E Hin]].
  cbn [fst] in E. injection E as -> ->. exists x. exact Hin.
Qed.

(* ---------- the job ---------- *)
Lemma run_job_ok K j stride planned s1 :
  valid (log s1) ->
  (forall p, In p planned -> exists x, In (pl_seq p, pl_mid p, x) (msg_full (log s1))) ->
  exists sn made,
    run_job K j stride planned s1 = (append sn (BJobEnded j 0 made), made, None)
    /\ cuts_done stride s1 (plan_sort planned) sn made.
Proof.
  intros Hv Hin. unfold run_job.
  destruct (run_cuts_ok K (log s1) stride (plan_sort planned) s1 []) as [sn [made [Hr Hd]]].
  - apply valid_msgs_sorted, Hv.
  - intros p Hp. apply Hin. eapply Permutation_in; [apply plan_sort_perm | exact Hp].
  - exists sn, made. rewrite Hr. cbn [app]. split; [reflexivity | exact Hd].
Qed.

Record auto_outcome (K : consts) (stride : N) (planned : list plan) (s s' : st) (j : N) (made : list created) : Prop := {
  ao_log : exists e_sp frames e_end,
      log s' = log s ++ [e_sp] ++ frames ++ [e_end]
      /\ ebody e_sp = BJobSpawned j planned stride
      /\ ebody e_end = BJobEnded j 0 made
      /\ Forall2 (ck_for stride s') frames (plan_sort planned)
      /\ Forall2 created_for made frames;
  ao_sorted : StronglySorted le_seq (plan_sort planned) /\ Permutation (plan_sort planned) planned;
  ao_fresh : ~ In j (job_ids (log s));
  ao_valid : valid (log s') }.

Lemma fresh_job_not_in l : ~ In (fresh_job l) (job_ids l).
Proof. intros H. apply maxN_ge in H. unfold fresh_job in H. lia. Qed.

Theorem auto_creates_planned K ostride omax odry s :
  valid (log s) ->
  opt_or ostride (k_default_stride K) <> 0 ->
  opt_orb odry false = false ->
  plan_cuts K (opt_or ostride (k_default_stride K))
            (clamp (k_maxnew_lo K) (k_maxnew_hi K) (opt_or omax 1)) (log s) <> [] ->
  exists s' r,
    auto K ostride omax odry s = (s', Ok r)
    /\ ar_status r = 2 /\ ar_err r = None /\ ar_job r = Some (fresh_job (log s))
    /\ ar_planned r = plan_cuts K (opt_or ostride (k_default_stride K))
                                (clamp (k_maxnew_lo K) (k_maxnew_hi K) (opt_or omax 1)) (log s)
    /\ auto_outcome K (opt_or ostride (k_default_stride K)) (ar_planned r) s s' (fresh_job (log s)) (ar_result r).
Proof.
  intros Hv Hs Hd Hp. unfold auto.
  set (stride := opt_or ostride (k_default_stride K)) in *.
  set (maxnew := clamp (k_maxnew_lo K) (k_maxnew_hi K) (opt_or omax 1)) in *.
  apply N.eqb_neq in Hs. rewrite Hs. rewrite Hd. unfold auto_spawn.
  set (planned := plan_cuts K stride maxnew (log s)) in *.
  destruct planned as [|p0 pr] eqn:Ep; [congruence|]. rewrite <- Ep. cbn [ar_job ar_planned ar_count].
  set (j := fresh_job (log s)).
  set (s1 := append s (BJobSpawned j planned stride)).
  assert (Hv1 : valid (log s1)) by (apply valid_append, Hv).
  destruct (run_job_ok K j stride planned s1 Hv1) as [sn [made [Hr Hc]]].
  { intros p Hin. unfold s1. rewrite msg_full_append_nonmsg by reflexivity.
    apply (plan_cuts_msgs K stride maxnew). exact Hin. }
  rewrite Hr. eexists. eexists. split; [reflexivity|]. cbn [ar_status ar_err ar_job ar_planned ar_result].
  repeat (split; [reflexivity|]).
  apply cuts_done_spec in Hc. destruct Hc as [frames [extra [Hl [Ha [Hf [Hm Hvn]]]]]].
  constructor.
  - eexists. exists frames. eexists. split; [|split; [|split; [|split]]].
    + unfold append at 1. cbn [log]. rewrite Hl. unfold s1, append at 1. cbn [log].
      rewrite <- !app_assoc. reflexivity.
    + reflexivity.
    + reflexivity.
    + exact Hf.
    + exact Hm.
  - split; [apply plan_sort_sorted | apply plan_sort_perm].
  - apply fresh_job_not_in.
  - apply (valid_append sn). apply Hvn, Hv1.
Qed.

(* ====================================================================================================== *)
(* ---------- idempotence: what is left to do after one auto run ---------- *)
Lemma cut_ords_le n : forall o stride x, In x (cut_ords n o stride) -> x <= o /\ x <> 0.
Proof.
  induction n as [|n IH]; intros o stride x H; cbn [cut_ords] in H; [contradiction|].
  destruct (o =? 0) eqn:E; [contradiction|]. apply N.eqb_neq in E.
  destruct H as [<-|H]; [lia|]. apply IH in H. lia.
Qed.
Lemma cut_ords_desc n : forall o stride, stride <> 0 -> StronglySorted (fun a b => b < a) (cut_ords n o stride).
Proof.
  induction n as [|n IH]; intros o stride Hs; cbn [cut_ords]; [constructor|].
  destruct (o =? 0) eqn:E; [constructor|]. apply N.eqb_neq in E.
  constructor; [apply IH, Hs|]. apply Forall_forall. intros x Hx. apply cut_ords_le in Hx. lia.
Qed.

Lemma sorted_nth_lt (ms : list (N * N)) : forall i j a b,
  StronglySorted N.lt (map fst ms) -> nth_error ms i = Some a -> nth_error ms j = Some b -> (i < j)%nat -> fst a < fst b.
Proof.
  induction ms as [|x ms IH]; intros i j a b Hs Hi Hj Hlt; [destruct i; discriminate|].
  cbn [map] in Hs. inversion Hs as [|x' l' Hs' Hx]; subst.
  destruct j as [|j]; [lia|]. cbn [nth_error] in Hj. destruct i as [|i]; cbn [nth_error] in Hi.
  - injection Hi as ->. rewrite Forall_forall in Hx. apply Hx. apply in_map. eapply nth_error_In, Hj.
  - eapply IH; eauto. lia.
Qed.

Lemma targets_desc ms ords :
  StronglySorted N.lt (map fst ms) -> StronglySorted (fun a b => b < a) ords ->
  StronglySorted (fun a b => t_seq b < t_seq a) (flat_map (target_at ms) ords).
Proof.
  intros Hm. induction 1 as [|o r Hr IH Ho]; cbn [flat_map]; [constructor|].
  unfold target_at at 1. destruct ((o =? 0) || (nlen ms <? o)) eqn:E; [exact IH|].
  destruct (nth_error ms (N.to_nat (o - 1))) as [[s id]|] eqn:En; [|exact IH].
  cbn [app]. constructor; [exact IH|]. apply Forall_forall. intros t Ht.
  apply in_flat_map in Ht. destruct Ht as [o' [Ho' Ht]]. unfold target_at in Ht.
  destruct ((o' =? 0) || (nlen ms <? o')) eqn:E'; [contradiction|].
  destruct (nth_error ms (N.to_nat (o' - 1))) as [[s' id']|] eqn:En'; [|contradiction].
  destruct Ht as [<-|[]]. unfold t_seq. cbn [fst snd].
  rewrite Forall_forall in Ho. specialize (Ho o' Ho').
  apply orb_false_iff in E'. destruct E' as [E0 _]. apply N.eqb_neq in E0.
  change s' with (fst (s', id')). change s with (fst (s, id)).
  eapply (sorted_nth_lt ms _ _ _ _ Hm En' En). lia.
Qed.

Lemma desc_nodup {A} (f : A -> N) (l : list A) :
  StronglySorted (fun a b => f b < f a) l -> NoDup (map f l).
Proof.
  induction 1 as [|x l Hs IH Hx]; cbn [map]; constructor; [|exact IH].
  intros Hin. apply in_map_iff in Hin. destruct Hin as [y [Hy Hin]].
  rewrite Forall_forall in Hx. specialize (Hx y Hin). lia.
Qed.

Lemma nodup_map_filter {A} (f : A -> N) (p : A -> bool) (l : list A) : NoDup (map f l) -> NoDup (map f (filter p l)).
Proof.
  induction l as [|x l IH]; intros H; [constructor|]. cbn [map] in H. inversion H as [|x' l' Hn Hd]; subst.
  cbn [filter]. destruct (p x); [|apply IH, Hd]. cbn [map]. constructor; [|apply IH, Hd].
  intros Hin. apply Hn. apply in_map_iff in Hin. destruct Hin as [y [Hy Hin]]. apply filter_In in Hin.
  apply in_map_iff. exists y. tauto.
Qed.

Lemma valid_msgs_fst_sorted l : valid l -> StronglySorted N.lt (map fst (msgs l)).
Proof.
  intros H. apply valid_msgs_sorted in H. rewrite <- msgs_of_full, map_map. exact H.
Qed.

Lemma undone_nodup K stride l : valid l -> stride <> 0 -> NoDup (map t_seq (undone K stride l)).
Proof.
  intros Hv Hs. unfold undone. apply nodup_map_filter. apply desc_nodup. unfold targets.
  apply targets_desc; [apply valid_msgs_fst_sorted, Hv | apply cut_ords_desc, Hs].
Qed.

Lemma filter_not_firstn {A} (f : A -> N) : forall m (U : list A),
  NoDup (map f U) ->
  filter (fun t => negb (existsb (N.eqb (f t)) (map f (firstn m U)))) U = skipn m U.
Proof.
  induction m as [|m IH]; intros U Hn.
  - cbn [firstn map existsb negb skipn]. induction U as [|x U IHU]; [reflexivity|]. cbn [filter]. f_equal.
    apply IHU. cbn [map] in Hn. inversion Hn; assumption.
  - destruct U as [|x U]; [reflexivity|]. cbn [firstn map skipn filter existsb].
    rewrite N.eqb_refl. cbn [orb negb]. cbn [map] in Hn. inversion Hn as [|x' l' Hx Hd]; subst.
    rewrite <- (IH U Hd). apply filter_ext_in. intros t Ht.
    destruct (f t =? f x) eqn:E; [|reflexivity]. apply N.eqb_eq in E. exfalso. apply Hx. rewrite <- E. apply in_map, Ht.
Qed.

Lemma msgs_nonmsg l : Forall (fun e => is_msg (ebody e) = false) l -> msgs l = [].
Proof.
  induction 1 as [|e l He _ IH]; [reflexivity|]. unfold msgs in *. cbn [flat_map]. rewrite IH.
  destruct (ebody e); try discriminate; reflexivity.
Qed.

Lemma frames_ckpts stride s' frames ps :
  Forall2 (ck_for stride s') frames ps ->
  map ck_to (ckpts frames) = map pl_seq ps /\ Forall (fun e => is_msg (ebody e) = false) frames.
Proof.
  induction 1 as [|e p frames ps [a [v [Hb _]]] _ [IH1 IH2]]; [split; [reflexivity|constructor]|].
  unfold ckpts in *. cbn [flat_map]. rewrite Hb. unfold ck_frame at 1. cbn [app map ck_to]. rewrite IH1.
  split; [reflexivity|]. constructor; [rewrite Hb; reflexivity | exact IH2].
Qed.

Lemma existsb_iff {A B} (p : A -> bool) (q : B -> bool) (l : list A) (m : list B) :
  ((exists x, In x l /\ p x = true) <-> (exists y, In y m /\ q y = true)) -> existsb p l = existsb q m.
Proof. intros H. apply eq_true_iff_eq. rewrite !existsb_exists. exact H. Qed.

Lemma auto_outcome_after K stride planned s s' j made :
  auto_outcome K stride planned s s' j made ->
  msgs (log s') = msgs (log s)
  /\ forall x, has_ck (log s') x = has_ck (log s) x || existsb (N.eqb x) (map pl_seq planned).
Proof.
  intros [[e_sp [frames [e_end [Hl [Hsp [Hend [Hf Hm]]]]]]] [_ Hperm] _ _].
  apply frames_ckpts in Hf. destruct Hf as [Hck Hnm]. split.
  - rewrite Hl, !msgs_app. rewrite (msgs_nonmsg frames Hnm).
    unfold msgs at 2 3. cbn [flat_map]. rewrite Hsp, Hend. cbn [app]. rewrite !app_nil_r. reflexivity.
  - intros x. unfold has_ck. rewrite Hl, !ckpts_app.
    unfold ckpts at 2 4. cbn [flat_map]. rewrite Hsp, Hend. cbn [app]. rewrite app_nil_r.
    rewrite existsb_app. f_equal. apply existsb_iff. split.
    + intros [k [Hk Hx]]. apply N.eqb_eq in Hx. exists x. split; [|apply N.eqb_refl].
      eapply Permutation_in; [apply Permutation_map, Hperm|]. rewrite <- Hck, <- Hx. apply in_map, Hk.
    + intros [y [Hy Hx]]. apply N.eqb_eq in Hx. subst y.
      assert (Hin : In x (map ck_to (ckpts frames))).
      { rewrite Hck. eapply Permutation_in; [apply Permutation_sym, Permutation_map, Hperm | exact Hy]. }
      apply in_map_iff in Hin. destruct Hin as [k [Hk Hin]]. exists k. split; [exact Hin | apply N.eqb_eq, Hk].
Qed.

(* after a completed run over `planned = first maxnew undone`, exactly the remaining undone cut points are left *)
Theorem undone_after K stride maxnew s s' j made :
  valid (log s) -> stride <> 0 ->
  auto_outcome K stride (plan_cuts K stride maxnew (log s)) s s' j made ->
  undone K stride (log s') = skipn (N.to_nat maxnew) (undone K stride (log s)).
Proof.
  intros Hv Hs Ho. apply auto_outcome_after in Ho. destruct Ho as [Hm Hck].
  rewrite <- (filter_not_firstn t_seq (N.to_nat maxnew) (undone K stride (log s))) by (apply undone_nodup; assumption).
  unfold undone at 1 3. rewrite Hm.
  set (T := targets K stride (k_plan_limit K) (msgs (log s))).
  assert (E : map pl_seq (plan_cuts K stride maxnew (log s)) = map t_seq (firstn (N.to_nat maxnew) (undone K stride (log s)))).
  { rewrite plan_cuts_undone, <- !firstn_map, map_map. f_equal. apply map_ext. intros t. apply pl_seq_plan_of. }
  rewrite <- E.
  induction T as [|t T IH]; [reflexivity|]. cbn [filter]. rewrite Hck, negb_orb.
  destruct (negb (has_ck (log s) (t_seq t))); cbn [andb filter]; [|exact IH].
  destruct (negb (existsb (N.eqb (t_seq t)) (map pl_seq (plan_cuts K stride maxnew (log s))))); [f_equal|]; exact IH.
Qed.

(* repeated with nothing new to do: the call answers noop and leaves the state untouched *)
Theorem auto_noop K ostride omax odry s :
  opt_or ostride (k_default_stride K) <> 0 ->
  undone K (opt_or ostride (k_default_stride K)) (log s) = [] ->
  exists r, auto K ostride omax odry s = (s, Ok r) /\ ar_status r = 0 /\ ar_job r = None /\ ar_planned r = [] /\ ar_result r = [].
Proof.
  intros Hs Hu. unfold auto. apply N.eqb_neq in Hs. rewrite Hs. unfold auto_spawn.
  rewrite plan_cuts_undone, Hu. cbn [map]. rewrite firstn_nil. cbn [ar_job].
  eexists. split; [reflexivity|]. cbn. auto.
Qed.

Theorem sched_noop K ostride omax oblock oexec odry s :
  opt_or ostride (k_default_stride K) <> 0 ->
  undone K (opt_or ostride (k_default_stride K)) (log s) = [] ->
  exists r, sched K ostride omax oblock oexec odry s = (s, Ok r) /\ sr_decision r = 0 /\ sr_job r = None /\ sr_planned r = [].
Proof.
  intros Hs Hu. unfold sched. apply N.eqb_neq in Hs. rewrite Hs.
  rewrite plan_cuts_undone, Hu. cbn [map]. rewrite firstn_nil.
  eexists. split; [reflexivity|]. cbn. auto.
Qed.

Theorem auto_second_plan K ostride omax odry s :
  valid (log s) ->
  opt_or ostride (k_default_stride K) <> 0 ->
  opt_orb odry false = false ->
  plan_cuts K (opt_or ostride (k_default_stride K))
            (clamp (k_maxnew_lo K) (k_maxnew_hi K) (opt_or omax 1)) (log s) <> [] ->
  forall maxnew2,
  plan_cuts K (opt_or ostride (k_default_stride K)) maxnew2 (log (fst (auto K ostride omax odry s)))
  = firstn (N.to_nat maxnew2)
           (map plan_of (skipn (N.to_nat (clamp (k_maxnew_lo K) (k_maxnew_hi K) (opt_or omax 1)))
                               (undone K (opt_or ostride (k_default_stride K)) (log s)))).
Proof.
  intros Hv Hs Hd Hp maxnew2.
  destruct (auto_creates_planned K ostride omax odry s Hv Hs Hd Hp) as [s' [r [Ha [_ [_ [_ [Hpl Ho]]]]]]].
  rewrite Ha. cbn [fst]. rewrite plan_cuts_undone. rewrite Hpl in Ho.
  rewrite (undone_after K _ _ s s' _ _ Hv Hs Ho). reflexivity.
Qed.

Theorem auto_idempotent K ostride omax odry s :
  valid (log s) ->
  opt_or ostride (k_default_stride K) <> 0 ->
  opt_orb odry false = false ->
  (length (undone K (opt_or ostride (k_default_stride K)) (log s))
   <= N.to_nat (clamp (k_maxnew_lo K) (k_maxnew_hi K) (opt_or omax 1)))%nat ->
  let s' := fst (auto K ostride omax odry s) in
  exists r', auto K ostride omax odry s' = (s', Ok r') /\ ar_status r' = 0 /\ ar_job r' = None /\ ar_result r' = [].
Proof.
  intros Hv Hs Hd Hlen. cbn zeta.
  destruct (plan_cuts K (opt_or ostride (k_default_stride K))
                      (clamp (k_maxnew_lo K) (k_maxnew_hi K) (opt_or omax 1)) (log s)) as [|p0 pr] eqn:Ep.
  - (* nothing planned: the first call already is the no-op *)
    assert (E : exists r, auto K ostride omax odry s = (s, Ok r) /\ ar_status r = 0 /\ ar_job r = None /\ ar_result r = []).
    { unfold auto. pose proof Hs as Hs'. apply N.eqb_neq in Hs'. rewrite Hs'. unfold auto_spawn. rewrite Ep. cbn [ar_job].
      eexists. split; [reflexivity|]. cbn. auto. }
    destruct E as [r [E Hr]]. rewrite E. cbn [fst]. exists r. split; [exact E | exact Hr].
  - assert (Hp : plan_cuts K (opt_or ostride (k_default_stride K))
                           (clamp (k_maxnew_lo K) (k_maxnew_hi K) (opt_or omax 1)) (log s) <> []) by (rewrite Ep; discriminate).
    destruct (auto_creates_planned K ostride omax odry s Hv Hs Hd Hp) as [s' [r [Ha [_ [_ [_ [Hpl Ho]]]]]]].
    rewrite Ha. cbn [fst]. rewrite Hpl in Ho.
    pose proof (undone_after K _ _ s s' _ _ Hv Hs Ho) as Hu.
    rewrite skipn_all2 in Hu by exact Hlen.
    destruct (auto_noop K ostride omax odry s' Hs Hu) as [r' [E [H1 [H2 [_ H4]]]]].
    exists r'. auto.
Qed.

(* ====================================================================================================== *)
(* ---------- manual checkpoints ---------- *)
Lemma manual_target_boundary K r l ts tm rule :
  manual_target K r l = Ok (ts, tm, rule) -> In (ts, tm) (msgs l).
Proof.
  unfold manual_target. intros H.
  destruct (mr_md r), (mr_art r); try discriminate;
  (destruct (mr_to_mid r) as [m|], (mr_to_seq r) as [q|]; try discriminate;
   destruct (msgs l) as [|x ms] eqn:Em; try discriminate; rewrite <- Em in *;
   [ destruct (find (fun p => snd p =? m) (msgs l)) as [[s0 m0]|] eqn:Ef; [|discriminate];
     apply find_some in Ef; destruct Ef as [Hin Hq]; cbn [snd] in Hq; apply N.eqb_eq in Hq; subst m0;
     injection H as <- <- _; exact Hin
   | destruct (find (fun p => fst p =? q) (msgs l)) as [[s0 m0]|] eqn:Ef; [|discriminate];
     apply find_some in Ef; destruct Ef as [Hin Hq]; cbn [fst] in Hq; apply N.eqb_eq in Hq; subst s0;
     injection H as <- <- _; exact Hin
   | destruct ((match mr_stride r with Some x0 => x0 | None => k_default_stride K end) =? 0); [discriminate|];
     destruct (nlen (msgs l) / _ * _ =? 0); [discriminate|];
     destruct (nth_error (msgs l) _) as [[s0 m0]|] eqn:En; [|discriminate];
     injection H as <- <- _; eapply nth_error_In, En ]).
Qed.

Theorem manual_boundary K r s :
  match manual K r s with
  | (s', Err _) => s' = s
  | (s', Ok (ck, a, ts, tm, rule)) =>
      In (ts, tm) (msgs (log s))
      /\ log s' = log s ++ [{| eseq := next_seq (log s); eid := ck; ebody := BCkpt rule a ts (Some tm) |}]
      /\ exists v, art_read s' a = Some v /\ su_to_seq v = ts
  end.
Proof.
  unfold manual. destruct (manual_target K r (log s)) as [[[ts tm] rule]|e] eqn:Et; [|reflexivity].
  pose proof (manual_target_boundary K r (log s) ts tm rule Et) as Hin.
  destruct (mr_art r) as [a|].
  - destruct (art_read s a) as [v|] eqn:Ea; [|reflexivity].
    destruct (su_to_seq v =? ts) eqn:Ev; [|reflexivity]. apply N.eqb_eq in Ev.
    split; [exact Hin|]. split; [rewrite last_id_append; reflexivity|]. exists v. split; [exact Ea | exact Ev].
  - cbv beta iota zeta delta [put_art]. split; [exact Hin|]. split; [rewrite last_id_append; reflexivity|].
    eexists. split.
    + unfold art_read, append. cbn [arts].
      rewrite art_get_app_fresh by (apply fresh_art_not_key). cbn [su_present]. reflexivity.
    + reflexivity.
Qed.

(* a to_seq that is not the seq of a message / a to_message_id that is not the id of a message is refused *)
Theorem manual_non_boundary_rejected K r s :
  (forall q, mr_to_seq r = Some q -> ~ In q (map fst (msgs (log s)))) ->
  (forall m, mr_to_mid r = Some m -> ~ In m (map snd (msgs (log s)))) ->
  (mr_to_seq r <> None \/ mr_to_mid r <> None) ->
  exists e, manual K r s = (s, Err e).
Proof.
  intros Hq Hm Hsel. unfold manual.
  destruct (manual_target K r (log s)) as [[[ts tm] rule]|e] eqn:Et; [|eauto].
  exfalso. pose proof (manual_target_boundary K r (log s) ts tm rule Et) as Hin.
  unfold manual_target in Et.
  destruct (mr_md r), (mr_art r); try discriminate;
  (destruct (mr_to_mid r) as [m|] eqn:Em, (mr_to_seq r) as [q|] eqn:Eq; try discriminate;
   destruct (msgs (log s)) as [|x ms] eqn:Emsg; try discriminate; rewrite <- Emsg in *;
   [ destruct (find (fun p => snd p =? m) (msgs (log s))) as [[s0 m0]|] eqn:Ef; [|discriminate];
     apply find_some in Ef; destruct Ef as [Hi Hx]; cbn [snd] in Hx; apply N.eqb_eq in Hx; subst m0;
     apply (Hm m eq_refl); apply in_map_iff; exists (s0, m); auto
   | destruct (find (fun p => fst p =? q) (msgs (log s))) as [[s0 m0]|] eqn:Ef; [|discriminate];
     apply find_some in Ef; destruct Ef as [Hi Hx]; cbn [fst] in Hx; apply N.eqb_eq in Hx; subst s0;
     apply (Hq q eq_refl); apply in_map_iff; exists (q, m0); auto
   | destruct Hsel; congruence ]).
Qed.

(* ====================================================================================================== *)
(* ---------- every operation keeps the stream valid (so `valid` holds in every reachable state) ---------- *)
Lemma run_cut_log K snap stride s p s2 c :
  run_cut K snap stride s p = Ok (s2, c) ->
  exists v, s2 = append {| log := log s; arts := arts s ++ [(fresh_art s, v)] |} (ck_frame stride (fresh_art s) p)
            /\ c = mk_created s2 (fresh_art s) p /\ covers v p.
Proof.
  unfold run_cut. destruct (select_base K (log s) snap (pl_seq p)) as [b base_to].
  assert (Hfin : forall base bootstrap note used,
    match nth_error (msg_full snap) (upper_bound (msg_full snap) (pl_seq p) - 1) with
    | None => Err 20
    | Some (ls, lid, _) =>
      if (ls =? pl_seq p) && (lid =? pl_mid p) then
        let slice := map snd (skipn (upper_bound (msg_full snap) (if (bootstrap : bool) then 0 else base_to))
                                    (firstn (upper_bound (msg_full snap) (pl_seq p)) (msg_full snap))) in
        let '(s1, a) := put_art s {| su_to_seq := pl_seq p; su_to_mid := Some (pl_mid p); su_base := base;
                                     su_note := note; su_kind := 2; su_slice := slice; su_base_used := used;
                                     su_present := true |} in
        let s2 := append s1 (BCkpt (rule_stride stride) a (pl_seq p) (Some (pl_mid p))) in
        Ok (s2, {| cr_ck := last_id s2; cr_art := a; cr_seq := pl_seq p; cr_mid := pl_mid p |})
      else Err 21
    end = Ok (s2, c) ->
    exists v, s2 = append {| log := log s; arts := arts s ++ [(fresh_art s, v)] |} (ck_frame stride (fresh_art s) p)
              /\ c = mk_created s2 (fresh_art s) p /\ covers v p).
  { intros base bootstrap note used.
    destruct (nth_error (msg_full snap) (upper_bound (msg_full snap) (pl_seq p) - 1)) as [[[ls lid] x]|]; [|discriminate].
    destruct ((ls =? pl_seq p) && (lid =? pl_mid p)); [|discriminate].
    cbv beta iota zeta delta [put_art]. intros H. injection H as <- <-.
    eexists. split; [reflexivity|]. split; [reflexivity|]. unfold covers. cbn. auto. }
  destruct (option_map ck_art b) as [a|]; [|exact (Hfin None true 0 false)].
  destruct (art_read s a) as [v|]; [|exact (Hfin (Some a) true 2 false)].
  destruct (su_kind v =? 1); [exact (Hfin (Some a) true 1 false) | exact (Hfin (Some a) false 0 true)].
Qed.

Lemma run_cuts_valid K snap stride : forall ps s acc s' made err,
  run_cuts K snap stride s ps acc = (s', made, err) -> valid (log s) -> valid (log s').
Proof.
  induction ps as [|p ps IH]; intros s acc s' made err H Hv; cbn [run_cuts] in H.
  - injection H as <- _ _. exact Hv.
  - destruct (run_cut K snap stride s p) as [[s2 c]|e] eqn:E.
    + apply run_cut_log in E. destruct E as [v [-> _]]. eapply IH; [exact H|].
      apply (valid_append {| log := log s; arts := arts s ++ [(fresh_art s, v)] |}). exact Hv.
    + injection H as <- _ _. exact Hv.
Qed.

Lemma run_job_valid K j stride planned s : valid (log s) -> valid (log (fst (fst (run_job K j stride planned s)))).
Proof.
  intros Hv. unfold run_job.
  destruct (run_cuts K (log s) stride s (plan_sort planned) []) as [[s1 made] err] eqn:E. cbn [fst].
  apply valid_append. eapply run_cuts_valid; [exact E | exact Hv].
Qed.

Lemma auto_spawn_valid K stride maxnew dry s : valid (log s) -> valid (log (fst (auto_spawn K stride maxnew dry s))).
Proof.
  intros Hv. unfold auto_spawn. destruct (plan_cuts K stride maxnew (log s)); [exact Hv|].
  destruct dry; [exact Hv|]. cbn [fst]. apply valid_append, Hv.
Qed.

Lemma auto_valid K ostride omax odry s : valid (log s) -> valid (log (fst (auto K ostride omax odry s))).
Proof.
  intros Hv. unfold auto. destruct (opt_or ostride (k_default_stride K) =? 0); [exact Hv|].
  pose proof (auto_spawn_valid K (opt_or ostride (k_default_stride K))
                (clamp (k_maxnew_lo K) (k_maxnew_hi K) (opt_or omax 1)) (opt_orb odry false) s Hv) as H1.
  destruct (auto_spawn K _ _ _ s) as [s1 r]. cbn [fst] in H1.
  destruct (ar_job r) as [j|]; [|exact H1].
  pose proof (run_job_valid K j (opt_or ostride (k_default_stride K)) (ar_planned r) s1 H1) as H2.
  destruct (run_job K j _ (ar_planned r) s1) as [[s2 made] err]. exact H2.
Qed.

Lemma sched_valid K ostride omax oblock oexec odry s :
  valid (log s) -> valid (log (fst (sched K ostride omax oblock oexec odry s))).
Proof.
  intros Hv. unfold sched. destruct (opt_or ostride (k_default_stride K) =? 0); [exact Hv|].
  destruct (plan_cuts K _ _ (log s)) as [|p0 pr] eqn:Ep; [exact Hv|]. rewrite <- Ep.
  destruct (opt_orb odry false); [exact Hv|].
  destruct (if opt_orb oblock true then find_inflight K (log s) else None).
  - cbn [fst]. apply valid_append, Hv.
  - pose proof (auto_spawn_valid K (opt_or ostride (k_default_stride K))
                  (clamp (k_maxnew_lo K) (k_maxnew_hi K) (opt_or omax 1)) false s Hv) as H1.
    destruct (auto_spawn K _ _ false s) as [s1 r]. cbn [fst] in H1.
    destruct (ar_job r) as [j|]; [|exact H1].
    assert (H2 : valid (log (append s1 (BDecided 3 (Some j) (plan_cuts K (opt_or ostride (k_default_stride K))
                   (clamp (k_maxnew_lo K) (k_maxnew_hi K) (opt_or omax 1)) (log s))
                   (opt_or ostride (k_default_stride K)) (clamp (k_maxnew_lo K) (k_maxnew_hi K) (opt_or omax 1))
                   (opt_orb oblock true) (opt_orb oexec true) (nlen (msgs (log s)))))))
      by (apply valid_append, H1).
    destruct (opt_orb oexec true); [|exact H2].
    match goal with |- context [run_job K j ?st ?pl ?s2] =>
      pose proof (run_job_valid K j st pl s2 H2) as H3; destruct (run_job K j st pl s2) as [[s3 made] err] end.
    exact H3.
Qed.

Lemma step_valid K s o : valid (log s) -> valid (log (fst (step K s o))).
Proof.
  intros Hv. destruct o; cbn [step fst]; try exact Hv; try (apply valid_append, Hv).
  - pose proof (manual_boundary K r s) as H. destruct (manual K r s) as [s' [[[[[ck a] ts] tm] rule]|e]]; cbn [fst].
    + destruct H as [_ [Hl _]]. unfold valid. rewrite Hl, map_app. cbn [map eseq].
      apply ssorted_app_one; [exact Hv | apply next_seq_bound, Hv].
    + subst s'. exact Hv.
  - pose proof (auto_valid K stride maxnew dry s Hv) as H. destruct (auto K stride maxnew dry s). exact H.
  - pose proof (sched_valid K stride maxnew block exec dry s Hv) as H. destruct (sched K stride maxnew block exec dry s). exact H.
Qed.

Theorem reachable_valid K : forall ops s acc, valid (log s) -> valid (log (fst (run_ops K s ops acc))).
Proof.
  induction ops as [|o ops IH]; intros s acc Hv; cbn [run_ops]; [exact Hv|].
  pose proof (step_valid K s o Hv) as H. destruct (step K s o) as [s' out]. apply IH, H.
Qed.

(* ---------- non-vacuity for auto / idempotence / manual ---------- *)
Definition demo7_ops : list op := [OMsg 0 1; OMsg 1 2; OOther; OMsg 0 3; OMsg 1 4; OMsg 0 5; OMsg 1 6; OMsg 0 7].
Definition demo7 : st := fst (run_ops real_consts st0 demo7_ops []).
Definition demo7_plan2 : list plan :=
  [{| pl_ord := 6; pl_seq := 7; pl_mid := 8 |}; {| pl_ord := 4; pl_seq := 5; pl_mid := 6 |}].

Lemma demo7_valid : valid (log demo7).
Proof. apply reachable_valid, valid_st0. Qed.

Lemma demo7_facts :
  plan_cuts real_consts 2 (clamp 1 32 2) (log demo7) = demo7_plan2
  /\ map plan_of (undone real_consts 2 (log demo7)) = demo7_plan2 ++ [{| pl_ord := 2; pl_seq := 2; pl_mid := 3 |}]
  /\ map (fun e => enc_body (ebody e)) (skipn 9 (log (fst (auto real_consts (Some 2) (Some 2) None demo7))))
     = [ [3; 1; 2; 2; 6; 7; 8; 4; 5; 6]; [2; 3; 1; 5; 1; 6]; [2; 3; 2; 7; 1; 8]; [4; 1; 0; 2; 11; 1; 5; 6; 12; 2; 7; 8] ]
  /\ plan_cuts real_consts 2 (clamp 1 32 2) (log (fst (auto real_consts (Some 2) (Some 2) None demo7)))
     = [{| pl_ord := 2; pl_seq := 2; pl_mid := 3 |}]
  /\ (length (undone real_consts 2 (log demo7)) <= N.to_nat (clamp 1 32 32))%nat.
Proof. repeat split; vm_compute; try reflexivity. lia. Qed.

Definition demo_manual_req : manual_req :=
  {| mr_md := Some 0; mr_art := None; mr_to_mid := None; mr_to_seq := Some 3; mr_stride := None |}.
Lemma demo_manual_non_boundary :
  (forall q, mr_to_seq demo_manual_req = Some q -> ~ In q (map fst (msgs (log demo7))))
  /\ manual real_consts demo_manual_req demo7 = (demo7, Err 5).
Proof.
  split; [|vm_compute; reflexivity]. intros q H. injection H as <-. vm_compute. intuition discriminate.
Qed.

(* ====================================================================================================== *)
(* ---------- concurrent schedule / auto calls: valid stream and job bracket under every interleaving ---------- *)
Definition ended_ids (l : list ev) : list N :=
  flat_map (fun e => match ebody e with BJobEnded j _ _ => [j] | _ => [] end) l.
Definition holds (a : astate) : list N :=
  match a with
  | ADecide _ _ _ j | ASnap _ _ j | ACut _ j _ _ _ | AWrite _ j _ _ _ _ _ | AEnd _ j _ _ _ => [j]
  | _ => []
  end.
Definition held (acts : list astate) : list N := flat_map holds acts.

(* job_ended only after the job_spawned of the same job *)
Definition ended_after_spawned (l : list ev) : Prop :=
  forall a e b j st m, l = a ++ e :: b -> ebody e = BJobEnded j st m -> In j (job_ids a).

Definition bracket_ok (l : list ev) : Prop :=
  NoDup (job_ids l) /\ NoDup (ended_ids l) /\ ended_after_spawned l.

Definition cinv (s : st) (acts : list astate) : Prop :=
  valid (log s) /\ NoDup (job_ids (log s)) /\ NoDup (held acts ++ ended_ids (log s))
  /\ incl (held acts ++ ended_ids (log s)) (job_ids (log s)) /\ ended_after_spawned (log s).

Lemma job_ids_app a b : job_ids (a ++ b) = job_ids a ++ job_ids b.
Proof. unfold job_ids. apply flat_map_app. Qed.
Lemma ended_ids_app a b : ended_ids (a ++ b) = ended_ids a ++ ended_ids b.
Proof. unfold ended_ids. apply flat_map_app. Qed.

Lemma split_last {A} (a : list A) x b l e :
  a ++ x :: b = l ++ [e] -> (b = [] /\ a = l /\ x = e) \/ exists b', b = b' ++ [e] /\ l = a ++ x :: b'.
Proof.
  intros H. destruct (exists_last (l := x :: b)) as [b0 [y Hy]]; [discriminate|].
  destruct b as [|z b].
  - left. change (a ++ [x] = l ++ [e]) in H. apply app_inj_tail in H. tauto.
  - right. destruct (exists_last (l := z :: b)) as [b' [y' Hy']]; [discriminate|].
    rewrite Hy' in H. change (a ++ x :: b' ++ [y'] = l ++ [e]) in H.
    replace (a ++ x :: b' ++ [y']) with ((a ++ x :: b') ++ [y']) in H by (rewrite <- app_assoc; reflexivity).
    apply app_inj_tail in H. destruct H as [<- <-]. exists b'. split; [exact Hy' | reflexivity].
Qed.

Lemma eas_app_one l e :
  ended_after_spawned l -> (forall j st m, ebody e = BJobEnded j st m -> In j (job_ids l)) ->
  ended_after_spawned (l ++ [e]).
Proof.
  intros H He a x b j st m Hd Hb. symmetry in Hd. apply split_last in Hd.
  destruct Hd as [[_ [-> ->]]|[b' [_ Hl]]]; [eapply He; exact Hb|]. eapply H; [exact Hl | exact Hb].
Qed.

(* what one actor step does to the stream and to the job the actor is responsible for *)
Inductive step_kind (s s' : st) (a a' : astate) : Prop :=
| sk_read : log s' = log s -> (holds a' = holds a \/ holds a' = []) -> step_kind s s' a a'
| sk_other b : log s' = log (append s b) -> (forall j p st, b <> BJobSpawned j p st) -> (forall j st m, b <> BJobEnded j st m) ->
               (holds a' = holds a \/ holds a' = []) -> step_kind s s' a a'
| sk_spawn p st : log s' = log (append s (BJobSpawned (fresh_job (log s)) p st)) -> holds a = [] ->
                  holds a' = [fresh_job (log s)] -> step_kind s s' a a'
| sk_end j stt m : log s' = log (append s (BJobEnded j stt m)) -> holds a = [j] -> holds a' = [] -> step_kind s s' a a'.

Lemma astep_gen_kind fx K s a : step_kind s (fst (astep_gen fx K s a)) a (snd (astep_gen fx K s a)).
Proof.
  destruct a; cbn [astep_gen].
  - destruct (c_sched c); [|apply sk_read; auto].
    destruct (plan_cuts K (c_stride c) (c_maxnew c) (log s)); apply sk_read; auto.
  - destruct (if c_block c then find_inflight K (log s) else None); apply sk_read; auto.
  - cbn [fst snd]. eapply sk_other; [reflexivity | discriminate | discriminate | auto].
  - destruct (plan_cuts K (c_stride c) (c_maxnew c) (log s)); apply sk_read; auto.
  - destruct (c_sched c); cbn [fst snd]; eapply sk_spawn; reflexivity.
  - destruct (c_exec c); cbn [fst snd]; (eapply sk_other; [reflexivity | discriminate | discriminate | auto]).
  - apply sk_read; auto.
  - destruct todo as [|p rest]; [apply sk_read; auto|].
    destruct (cut_read K snap s p); apply sk_read; auto.
  - cbv beta iota zeta delta [put_art]. cbn [fst snd].
    eapply sk_other; [reflexivity | discriminate | discriminate | auto].
  - cbn [fst snd]. eapply sk_end; reflexivity.
  - apply sk_read; [reflexivity|]. destruct ms; auto.
  - destruct ms as [|[ac co] rest]; [apply sk_read; auto|]. cbn [fst snd].
    eapply sk_other; [reflexivity | discriminate | discriminate |]. destruct rest; auto.
  - apply sk_read; auto.
Qed.
Lemma astep_kind K s a : step_kind s (fst (astep K s a)) a (snd (astep K s a)).
Proof. apply astep_gen_kind. Qed.

Lemma held_split pre a post : held (pre ++ a :: post) = held pre ++ holds a ++ held post.
Proof. unfold held. rewrite flat_map_app. reflexivity. Qed.

Lemma job_ids_append_other s b : (forall j p st, b <> BJobSpawned j p st) -> job_ids (log (append s b)) = job_ids (log s).
Proof.
  intros H. unfold append. cbn [log]. rewrite job_ids_app. unfold job_ids at 2. cbn [flat_map ebody].
  destruct b; try (cbn; apply app_nil_r). exfalso. eapply H. reflexivity.
Qed.
Lemma ended_ids_append_other s b : (forall j st m, b <> BJobEnded j st m) -> ended_ids (log (append s b)) = ended_ids (log s).
Proof.
  intros H. unfold append. cbn [log]. rewrite ended_ids_app. unfold ended_ids at 2. cbn [flat_map ebody].
  destruct b; try (cbn; apply app_nil_r). exfalso. eapply H. reflexivity.
Qed.

Lemma nodup_drop_mid {A} (x y z w : list A) : NoDup (x ++ y ++ z ++ w) -> NoDup (x ++ z ++ w).
Proof.
  induction y as [|a y IH]; intros H; [exact H|]. apply IH. cbn [app] in H. eapply NoDup_remove_1. exact H.
Qed.
Lemma incl_drop_mid {A} (x y z w t : list A) : incl (x ++ y ++ z ++ w) t -> incl (x ++ z ++ w) t.
Proof.
  intros H u Hu. apply H. apply in_app_or in Hu. apply in_or_app. destruct Hu as [Hu|Hu]; [left; exact Hu|].
  right. apply in_or_app. right. exact Hu.
Qed.

Lemma cinv_step K s pre a post :
  cinv s (pre ++ a :: post) -> cinv (fst (astep K s a)) (pre ++ snd (astep K s a) :: post).
Proof.
  intros [Hv [Hj [Hn [Hi He]]]]. pose proof (astep_kind K s a) as Hk.
  destruct (astep K s a) as [s' a']. cbn [fst snd] in *. rewrite held_split in *.
  assert (Hsame : forall l', valid l' -> job_ids l' = job_ids (log s) -> ended_ids l' = ended_ids (log s) ->
                             ended_after_spawned l' -> (holds a' = holds a \/ holds a' = []) ->
                             cinv {| log := l'; arts := arts s' |} (pre ++ a' :: post)).
  { intros l' Hv' Hj' He' Heas Hh. unfold cinv. cbn [log]. rewrite held_split, Hj', He'.
    split; [exact Hv'|]. split; [exact Hj|]. destruct Hh as [->| ->]; [auto|].
    rewrite <- !app_assoc in *. cbn [app].
    split; [eapply nodup_drop_mid; exact Hn|]. split; [eapply incl_drop_mid; exact Hi | exact Heas]. }
  assert (Hlog : forall l', log s' = l' -> cinv {| log := l'; arts := arts s' |} (pre ++ a' :: post) -> cinv s' (pre ++ a' :: post)).
  { intros l' <- H. exact H. }
  destruct Hk as [Hl Hh | b Hl Hns Hne Hh | p stt Hl Hh Hh' | j stt m Hl Hh Hh'].
  - apply (Hlog (log s) Hl). apply Hsame; auto.
  - apply (Hlog _ Hl). apply Hsame; auto.
    + apply valid_append, Hv.
    + apply job_ids_append_other, Hns.
    + apply ended_ids_append_other, Hne.
    + unfold append. cbn [log]. apply eas_app_one; [exact He|]. cbn [ebody]. intros j st m Hb. exfalso. eapply Hne, Hb.
  - (* job_spawned with a fresh id *)
    apply (Hlog _ Hl). unfold cinv. cbn [log]. rewrite held_split, Hh'. rewrite Hh in Hn, Hi. cbn [app] in Hn, Hi.
    set (j := fresh_job (log s)) in *.
    assert (Hfresh : ~ In j (job_ids (log s))) by apply fresh_job_not_in.
    assert (Ej : job_ids (log (append s (BJobSpawned j p stt))) = job_ids (log s) ++ [j]).
    { unfold append. cbn [log]. rewrite job_ids_app. reflexivity. }
    assert (Ee : ended_ids (log (append s (BJobSpawned j p stt))) = ended_ids (log s))
      by (apply ended_ids_append_other; discriminate).
    rewrite Ej, Ee. split; [apply valid_append, Hv|]. split; [|split; [|split]].
    + eapply Permutation_NoDup; [apply Permutation_cons_append|]. constructor; assumption.
    + rewrite <- app_assoc. cbn [app].
      eapply Permutation_NoDup; [apply Permutation_middle|]. constructor; [|rewrite <- app_assoc in Hn; exact Hn].
      intros Hin. apply Hfresh. apply Hi. rewrite <- app_assoc. exact Hin.
    + intros u Hu. specialize (Hi u). rewrite !in_app_iff in *. cbn [In] in *. intuition.
    + unfold append. cbn [log]. apply eas_app_one; [exact He|]. cbn [ebody]. discriminate.
  - (* job_ended for the job this actor holds *)
    apply (Hlog _ Hl). unfold cinv. cbn [log]. rewrite held_split, Hh'. rewrite Hh in Hn, Hi. cbn [app] in *.
    assert (Ej : job_ids (log (append s (BJobEnded j stt m))) = job_ids (log s))
      by (apply job_ids_append_other; discriminate).
    assert (Ee : ended_ids (log (append s (BJobEnded j stt m))) = ended_ids (log s) ++ [j]).
    { unfold append. cbn [log]. rewrite ended_ids_app. reflexivity. }
    assert (Hjin : In j (job_ids (log s))).
    { apply Hi. rewrite !in_app_iff. cbn [In]. tauto. }
    rewrite Ej, Ee. split; [apply valid_append, Hv|]. split; [exact Hj|]. split; [|split].
    + rewrite <- app_assoc in *. cbn [app] in *.
      eapply Permutation_NoDup; [|exact Hn].
      apply Permutation_app_head. rewrite app_assoc. apply Permutation_cons_append.
    + intros u Hu. specialize (Hi u). rewrite !in_app_iff in *. cbn [In] in *. intuition.
    + unfold append. cbn [log]. apply eas_app_one; [exact He|]. cbn [ebody].
      intros j' st' m' Hb. injection Hb as <- _ _. exact Hjin.
Qed.

(* the system: any actor may take its next atomic step at any time *)
Inductive sys_step (K : consts) : st * list astate -> st * list astate -> Prop :=
| sys_step_at s pre a post :
    sys_step K (s, pre ++ a :: post) (fst (astep K s a), pre ++ snd (astep K s a) :: post).
Inductive sys_steps (K : consts) : st * list astate -> st * list astate -> Prop :=
| sys_refl x : sys_steps K x x
| sys_cons x y z : sys_step K x y -> sys_steps K y z -> sys_steps K x z.

Lemma sys_steps_trans K x y z : sys_steps K x y -> sys_steps K y z -> sys_steps K x z.
Proof. induction 1 as [|x y' z' H1 H2 IH]; intros H; [exact H|]. econstructor; [exact H1 | apply IH, H]. Qed.

Theorem cinv_steps K x y : sys_steps K x y -> cinv (fst x) (snd x) -> cinv (fst y) (snd y).
Proof.
  induction 1 as [|x y z H1 H2 IH]; intros H; [exact H|]. apply IH. destruct H1. cbn [fst snd] in *.
  apply cinv_step, H.
Qed.

Lemma ended_in_spawned l : ended_after_spawned l -> incl (ended_ids l) (job_ids l).
Proof.
  intros H j Hj. unfold ended_ids in Hj. apply in_flat_map in Hj. destruct Hj as [e [He Hj]].
  destruct (ebody e) eqn:Eb; try contradiction. destruct Hj as [<-|[]].
  apply in_split in He. destruct He as [a [b ->]]. rewrite job_ids_app. apply in_or_app. left.
  eapply H; [reflexivity | exact Eb].
Qed.

Lemma cinv_init s acts : valid (log s) -> bracket_ok (log s) -> held acts = [] -> cinv s acts.
Proof.
  intros Hv [Hj [He Ha]] Hh. unfold cinv. rewrite Hh. cbn [app].
  repeat split; try assumption. apply ended_in_spawned, Ha.
Qed.
Lemma cinv_bracket s acts : cinv s acts -> valid (log s) /\ bracket_ok (log s).
Proof.
  intros [Hv [Hj [Hn [_ He]]]]. split; [exact Hv|]. split; [exact Hj|]. split; [|exact He].
  clear -Hn. induction (held acts) as [|x l IH]; [exact Hn|]. apply IH. cbn [app] in Hn. inversion Hn; assumption.
Qed.

Lemma held_start calls : held (map start_of calls) = [].
Proof. induction calls as [|c r IH]; [reflexivity|]. destruct c; exact IH. Qed.

(* every interleaving of the atomic steps of any number of schedule / auto calls *)
Theorem concurrent_bracket K s calls s' acts' :
  valid (log s) -> bracket_ok (log s) ->
  sys_steps K (s, map start_of calls) (s', acts') ->
  valid (log s') /\ bracket_ok (log s').
Proof.
  intros Hv Hb H. apply (cinv_bracket s' acts').
  apply (cinv_steps K _ _ H). cbn [fst snd]. apply cinv_init; [exact Hv | exact Hb | apply held_start].
Qed.

(* the executable scheduler used by the correspondence is one such interleaving *)
Lemma set_nth_split {A} (l : list A) : forall n a x, nth_error l n = Some a ->
  exists pre post, l = pre ++ a :: post /\ set_nth n x l = pre ++ x :: post.
Proof.
  induction l as [|y l IH]; intros n a x H; [destruct n; discriminate|].
  destruct n as [|n]; cbn [nth_error set_nth] in *.
  - injection H as ->. exists [], l. split; reflexivity.
  - destruct (IH n a x H) as [pre [post [-> E]]]. exists (y :: pre), post. cbn [app]. rewrite E. split; reflexivity.
Qed.

Lemma astep_steps K s pre a post :
  sys_steps K (s, pre ++ a :: post) (fst (astep K s a), pre ++ snd (astep K s a) :: post).
Proof. econstructor; [apply sys_step_at | apply sys_refl]. Qed.

Lemma reads_steps K fuel : forall s pre a post,
  sys_steps K (s, pre ++ a :: post) (fst (reads K fuel s a), pre ++ snd (reads K fuel s a) :: post).
Proof.
  induction fuel as [|f IH]; intros s pre a post; cbn [reads]; [apply sys_refl|].
  destruct (is_park a || is_done a); [apply sys_refl|].
  pose proof (astep_steps K s pre a post) as H1. destruct (astep K s a) as [s1 a1]. cbn [fst snd] in H1.
  eapply sys_steps_trans; [exact H1 | apply IH].
Qed.

Lemma quantum_steps K s pre a post :
  sys_steps K (s, pre ++ a :: post) (fst (quantum K s a), pre ++ snd (quantum K s a) :: post).
Proof.
  unfold quantum. destruct (is_park a); [|apply reads_steps].
  pose proof (astep_steps K s pre a post) as H1. destruct (astep K s a) as [s1 a1]. cbn [fst snd] in H1.
  eapply sys_steps_trans; [exact H1 | apply reads_steps].
Qed.

Lemma run_sched_steps K : forall schedule s acts,
  sys_steps K (s, acts) (run_sched K s acts schedule).
Proof.
  induction schedule as [|i rest IH]; intros s acts; cbn [run_sched]; [apply sys_refl|].
  destruct (nth_error acts (N.to_nat i)) as [a|] eqn:E; [|apply IH].
  destruct (set_nth_split acts (N.to_nat i) a (snd (quantum K s a)) E) as [pre [post [-> Es]]].
  pose proof (quantum_steps K s pre a post) as H1. destruct (quantum K s a) as [s1 a1]. cbn [fst snd] in *.
  rewrite Es. eapply sys_steps_trans; [exact H1 | apply IH].
Qed.

Theorem run_sched_bracket K s calls schedule :
  valid (log s) -> bracket_ok (log s) ->
  valid (log (fst (run_sched K s (map start_of calls) schedule)))
  /\ bracket_ok (log (fst (run_sched K s (map start_of calls) schedule))).
Proof.
  intros Hv Hb. pose proof (run_sched_steps K schedule s (map start_of calls)) as H.
  destruct (run_sched K s (map start_of calls) schedule) as [s' acts']. cbn [fst].
  eapply concurrent_bracket; eassumption.
Qed.

(* observed, not excluded: two racing schedule calls both pass the in-flight check, both spawn a job and both
   create a checkpoint for the same cut point (docs/03_contracts/compaction.md calls this replay-safe: latest wins) *)
Definition race_call : call := {| c_sched := true; c_stride := 2; c_maxnew := 1; c_block := true; c_exec := true |}.
Definition race_state : st := fst (run_ops real_consts st0 [OMsg 0 1; OMsg 1 2] []).
Definition race_end : st := fst (run_sched real_consts race_state [AStart race_call; AStart race_call] [0; 1; 0; 1; 0; 0; 0; 0; 1; 1; 1; 1]).
Lemma race_facts :
  valid (log race_state) /\ bracket_ok (log race_state)
  /\ job_ids (log race_end) = [1; 2] /\ ended_ids (log race_end) = [1; 2]
  /\ map ck_to (ckpts (log race_end)) = [2; 2]
  /\ map (fun c => (cp_seq c, cp_done c, cp_ck c)) (cut_points real_consts 2 32 (log race_end)) = [(2, true, Some 10)].
Proof.
  split; [apply reachable_valid, valid_st0|]. split.
  - split; [vm_compute; constructor|]. split; [vm_compute; constructor|].
    intros a e b j stt m Hd Hb. exfalso.
    assert (Hin : In e (log race_state)) by (rewrite Hd; apply in_or_app; right; left; reflexivity).
    vm_compute in Hin. destruct Hin as [<-|[<-|[<-|[]]]]; discriminate.
  - repeat split; vm_compute; reflexivity.
Qed.

(* ---------- "latest by stream order": on a valid stream the winning frame is the last one for that seq ---------- *)
Lemma ckpts_seq_sorted (l : list ev) :
  StronglySorted N.lt (map eseq l) ->
  StronglySorted N.lt (map ck_seq (ckpts l)) /\ Forall (fun x => In x (map eseq l)) (map ck_seq (ckpts l)).
Proof.
  induction l as [|e l IH]; intros H; [split; constructor|].
  cbn [map] in H. inversion H as [|a l' Hs Ha]; subst. destruct (IH Hs) as [IH1 IH2].
  assert (Hincl : Forall (fun x => In x (map eseq (e :: l))) (map ck_seq (ckpts l))).
  { eapply Forall_impl; [|exact IH2]. cbn. intros; auto. }
  unfold ckpts in *. cbn [flat_map]. destruct (ebody e); cbn [app map ck_seq]; try (split; assumption).
  split.
  - constructor; [exact IH1|]. rewrite Forall_forall in *. intros x Hx. apply Ha, IH2, Hx.
  - constructor; [left; reflexivity | exact Hincl].
Qed.

Lemma sorted_split_after (f : ck -> N) (x : list ck) : forall b y,
  StronglySorted N.lt (map f (x ++ b :: y)) -> Forall (fun k => f b < f k) y.
Proof.
  induction x as [|a x IH]; intros b y H; cbn [app map] in H; inversion H as [|a' l' Hs Ha]; subst.
  - rewrite Forall_forall in *. intros k Hk. apply Ha. apply in_map, Hk.
  - apply IH, Hs.
Qed.

Theorem latest_is_last l s b x y :
  valid l -> latest_for (ckpts l) s b -> ckpts l = x ++ b :: y -> Forall (fun k => ck_to k <> s) y.
Proof.
  intros Hv [Hin [Hto Hmax]] Hsplit. apply ckpts_seq_sorted in Hv. destruct Hv as [Hs _].
  rewrite Hsplit in Hs. apply sorted_split_after in Hs. rewrite Forall_forall in *.
  intros k Hk Hks. specialize (Hs k Hk). specialize (Hmax k).
  assert (Hkin : In k (ckpts l)) by (rewrite Hsplit; apply in_or_app; right; right; exact Hk).
  specialize (Hmax Hkin Hks). lia.
Qed.

(* ---------- a completed job creates precisely what its job_spawned frame announced ---------- *)
Definition spawn_plans (l : list ev) : list (N * list N) :=
  flat_map (fun e => match ebody e with BJobSpawned j p _ => [(j, map pl_seq p)] | _ => [] end) l.
Definition ended_made (l : list ev) : list (N * N * list N) :=
  flat_map (fun e => match ebody e with BJobEnded j st m => [(j, st, map cr_seq m)] | _ => [] end) l.

(* before the fix (S20): the scheduler handed its own earlier plan to the job.  A schedule call plans cut 2, an auto
   call checkpoints cut 2 meanwhile, the schedule call's spawn_job re-plans (cut 1, announced in job_spawned) but the
   job runs the stale plan: it checkpoints cut 2 again and never creates cut 1 *)
Definition mm_state : st := fst (run_ops real_consts st0 [OMsg 0 1; OMsg 1 2] []).
Definition mm_actors : list astate :=
  [AStart {| c_sched := true; c_stride := 1; c_maxnew := 1; c_block := false; c_exec := true |};
   AStart {| c_sched := false; c_stride := 1; c_maxnew := 1; c_block := false; c_exec := true |}].
Definition mm_schedule : list N := [0; 0; 1; 1; 1; 1; 1; 1; 1; 1; 0; 0; 0; 0; 0; 0; 0; 0].
Definition mm_unfixed : list ev := log (fst (run_fine (astep_unfixed real_consts) mm_state mm_actors mm_schedule)).
Definition mm_fixed : list ev := log (fst (run_fine (astep real_consts) mm_state mm_actors mm_schedule)).
Lemma mm_facts :
  spawn_plans mm_unfixed = [(1, [2]); (2, [1])] /\ ended_made mm_unfixed = [(1, 0, [2]); (2, 0, [2])]
  /\ spawn_plans mm_fixed = [(1, [2]); (2, [1])] /\ ended_made mm_fixed = [(1, 0, [2]); (2, 0, [1])].
Proof. repeat split; vm_compute; reflexivity. Qed.

(* ====================================================================================================== *)
(* ---------- concurrent calls: every job completes and creates precisely what its job_spawned announced ---------- *)
Definition pkey (p : plan) : N * N := (pl_seq p, pl_mid p).
Definition ckey (c : created) : N * N := (cr_seq c, cr_mid c).
Definition plan_ok (pl : list plan) (l : list ev) : Prop :=
  forall p, In p pl -> exists x, In (pl_seq p, pl_mid p, x) (msg_full l).
Definition spawned_with (l : list ev) (j : N) (pl : list plan) : Prop :=
  exists e stride, In e l /\ ebody e = BJobSpawned j pl stride.
Definition made_in (l : list ev) (made : list created) : Prop :=
  forall c, In c made -> exists e r, In e l /\ eid e = cr_ck c /\ ebody e = BCkpt r (cr_art c) (cr_seq c) (Some (cr_mid c)).
Definition msorted (snap : list ev) : Prop := StronglySorted N.lt (map (fun m => fst (fst m)) (msg_full snap)).

(* what a finished job looks like in the stream *)
Definition ended_ok (l : list ev) (j st : N) (made : list created) : Prop :=
  st = 0 /\ exists planned, (spawned_with l j planned /\ plan_ok planned l)
                             /\ map ckey made = map pkey (plan_sort planned) /\ made_in l made.
Definition job_consistent (l : list ev) : Prop :=
  forall e j st made, In e l -> ebody e = BJobEnded j st made -> ended_ok l j st made.

Definition actor_ok (l : list ev) (a : astate) : Prop :=
  match a with
  | ASpawn _ _ plan2 _ _ => plan_ok plan2 l
  | ADecide _ pl _ j | ASnap _ pl j => plan_ok pl l /\ spawned_with l j pl
  | ACut _ j snap todo made =>
      exists planned, (spawned_with l j planned /\ plan_ok planned l) /\ map ckey made ++ map pkey todo = map pkey (plan_sort planned)
                      /\ msorted snap /\ plan_ok todo snap /\ made_in l made
  | AWrite _ j snap p _ rest made =>
      exists planned, (spawned_with l j planned /\ plan_ok planned l) /\ map ckey made ++ map pkey (p :: rest) = map pkey (plan_sort planned)
                      /\ msorted snap /\ plan_ok (p :: rest) snap /\ made_in l made
  | AEnd _ j status made _ => ended_ok l j status made
  | _ => True
  end.

Lemma plan_ok_mono pl l fr : plan_ok pl l -> plan_ok pl (l ++ fr).
Proof. intros H p Hp. destruct (H p Hp) as [x Hx]. exists x. rewrite msg_full_app. apply in_or_app. left. exact Hx. Qed.
Lemma spawned_with_mono l fr j pl : spawned_with l j pl -> spawned_with (l ++ fr) j pl.
Proof. intros [e [st [Hi Hb]]]. exists e, st. split; [apply in_or_app; left; exact Hi | exact Hb]. Qed.
Lemma made_in_mono l fr made : made_in l made -> made_in (l ++ fr) made.
Proof.
  intros H c Hc. destruct (H c Hc) as [e [r [Hi [H1 H2]]]]. exists e, r. split; [apply in_or_app; left; exact Hi | auto].
Qed.
Lemma ended_ok_mono l fr j st made : ended_ok l j st made -> ended_ok (l ++ fr) j st made.
Proof.
  intros [H0 [pl [H1 [H2 H3]]]]. split; [exact H0|]. exists pl.
  split; [split; [apply spawned_with_mono, H1 | apply plan_ok_mono, H1]|]. split; [exact H2 | apply made_in_mono, H3].
Qed.
Lemma actor_ok_mono l fr a : actor_ok l a -> actor_ok (l ++ fr) a.
Proof.
  destruct a; cbn [actor_ok]; try exact (fun H => H).
  - apply plan_ok_mono.
  - intros [H1 H2]. split; [apply plan_ok_mono, H1 | apply spawned_with_mono, H2].
  - intros [H1 H2]. split; [apply plan_ok_mono, H1 | apply spawned_with_mono, H2].
  - intros [pl [H1 [H2 [H3 [H4 H5]]]]]. exists pl. split; [split; [apply spawned_with_mono, H1 | apply plan_ok_mono, H1]|]. split; [exact H2|].
    split; [exact H3|]. split; [exact H4 | apply made_in_mono, H5].
  - intros [pl [H1 [H2 [H3 [H4 H5]]]]]. exists pl. split; [split; [apply spawned_with_mono, H1 | apply plan_ok_mono, H1]|]. split; [exact H2|].
    split; [exact H3|]. split; [exact H4 | apply made_in_mono, H5].
  - apply ended_ok_mono.
Qed.

(* the read half of a cut succeeds whenever the planned message is in the (sorted) snapshot *)
Lemma cut_read_ok K snap s p :
  msorted snap -> (exists x, In (pl_seq p, pl_mid p, x) (msg_full snap)) -> exists v, cut_read K snap s p = Ok v.
Proof.
  intros Hs [x Hin]. apply In_nth_error in Hin. destruct Hin as [i Hn].
  pose proof (upper_bound_nth (msg_full snap) i _ Hs Hn) as Hub. cbn [fst] in Hub.
  unfold cut_read. destruct (select_base K (log s) snap (pl_seq p)) as [b base_to].
  assert (Hfin : forall base bootstrap note used,
    exists v,
      match nth_error (msg_full snap) (upper_bound (msg_full snap) (pl_seq p) - 1) with
      | None => Err 20
      | Some (ls, lid, _) =>
        if (ls =? pl_seq p) && (lid =? pl_mid p) then
          Ok {| su_to_seq := pl_seq p; su_to_mid := Some (pl_mid p); su_base := base; su_note := note; su_kind := 2;
                su_slice := map snd (skipn (upper_bound (msg_full snap) (if (bootstrap : bool) then 0 else base_to))
                                           (firstn (upper_bound (msg_full snap) (pl_seq p)) (msg_full snap)));
                su_base_used := used; su_present := true |}
        else Err 21
      end = Ok v).
  { intros base bootstrap note used. rewrite Hub. replace (S i - 1)%nat with i by lia. rewrite Hn.
    rewrite !N.eqb_refl. cbn [andb]. eexists. reflexivity. }
  destruct (option_map ck_art b) as [a|]; [|exact (Hfin None true 0 false)].
  destruct (art_read s a) as [v|]; [|exact (Hfin (Some a) true 2 false)].
  destruct (su_kind v =? 1); [exact (Hfin (Some a) true 1 false) | exact (Hfin (Some a) false 0 true)].
Qed.

Lemma plan_ok_perm pl pl' l : Permutation pl' pl -> plan_ok pl l -> plan_ok pl' l.
Proof. intros Hp H p Hin. apply H. eapply Permutation_in; [exact Hp | exact Hin]. Qed.

Lemma plan_cuts_ok K stride maxnew l : plan_ok (plan_cuts K stride maxnew l) l.
Proof. intros p Hp. eapply plan_cuts_msgs, Hp. Qed.

(* one step of one actor: the stream is extended, the actor stays well-formed, and a job_ended frame it appends is ok *)
Lemma actor_step K s a :
  valid (log s) -> actor_ok (log s) a ->
  exists fr, log (fst (astep K s a)) = log s ++ fr
    /\ actor_ok (log s ++ fr) (snd (astep K s a))
    /\ (forall e j st made, In e fr -> ebody e = BJobEnded j st made -> ended_ok (log s ++ fr) j st made).
Proof.
  intros Hv Ha.
  destruct a; unfold astep; cbn [astep_gen].
  - (* AStart *)
    exists []. rewrite app_nil_r. split; [destruct (c_sched c); [destruct (plan_cuts K (c_stride c) (c_maxnew c) (log s))|]; reflexivity|].
    split; [|intros e j st made []].
    destruct (c_sched c); [destruct (plan_cuts K (c_stride c) (c_maxnew c) (log s))|]; exact I.
  - (* ACheck *)
    exists []. rewrite app_nil_r.
    destruct (if c_block c then find_inflight K (log s) else None); (split; [reflexivity|]; split; [exact I | intros e j st made []]).
  - (* ASkip *)
    eexists. cbn [fst snd]. split; [reflexivity|]. split; [exact I|].
    intros e j st made [<-|[]] Hb. discriminate.
  - (* APlan *)
    exists []. rewrite app_nil_r.
    pose proof (plan_cuts_ok K (c_stride c) (c_maxnew c) (log s)) as Hp.
    destruct (plan_cuts K (c_stride c) (c_maxnew c) (log s)) as [|p0 pr];
      (split; [reflexivity|]; split; [| intros e j st made []]); [exact I | exact Hp].
  - (* ASpawn *)
    cbn [actor_ok] in Ha.
    exists [{| eseq := next_seq (log s); eid := fresh_id (log s); ebody := BJobSpawned (fresh_job (log s)) plan2 (c_stride c) |}].
    assert (Hsp : spawned_with (log s ++ [{| eseq := next_seq (log s); eid := fresh_id (log s);
                                             ebody := BJobSpawned (fresh_job (log s)) plan2 (c_stride c) |}])
                               (fresh_job (log s)) plan2).
    { eexists. eexists. split; [apply in_or_app; right; left; reflexivity | reflexivity]. }
    destruct (c_sched c); cbn [fst snd actor_ok]; (split; [reflexivity|]; split; [split; [apply plan_ok_mono, Ha | exact Hsp]|]);
      intros e j st made [<-|[]] Hb; discriminate.
  - (* ADecide *)
    cbn [actor_ok] in Ha. destruct Ha as [H1 H2].
    eexists. destruct (c_exec c); cbn [fst snd actor_ok]; (split; [reflexivity|]; split);
      try (intros e j0 st made [<-|[]] Hb; discriminate); try exact I.
    split; [apply plan_ok_mono, H1 | apply spawned_with_mono, H2].
  - (* ASnap *)
    cbn [actor_ok] in Ha. destruct Ha as [H1 H2].
    exists []. rewrite app_nil_r. cbn [fst snd actor_ok]. split; [reflexivity|]. split; [|intros e j0 st made []].
    exists todo. split; [split; [exact H2 | exact H1]|]. split; [reflexivity|]. split; [apply valid_msgs_sorted, Hv|].
    split; [eapply plan_ok_perm; [apply plan_sort_perm | exact H1] | intros c0 []].
  - (* ACut *)
    cbn [actor_ok] in Ha. destruct Ha as [pl [H1 [H2 [H3 [H4 H5]]]]].
    exists []. rewrite app_nil_r. destruct todo as [|p rest].
    + cbn [fst snd actor_ok]. split; [reflexivity|]. split; [|intros e j0 st made0 []].
      split; [reflexivity|]. exists pl. cbn [map] in H2. rewrite app_nil_r in H2. auto.
    + destruct (cut_read_ok K snap s p H3 (H4 p (or_introl eq_refl))) as [v Hr]. rewrite Hr.
      cbn [fst snd actor_ok]. split; [reflexivity|]. split; [|intros e j0 st made0 []].
      exists pl. auto.
  - (* AWrite *)
    cbn [actor_ok] in Ha. destruct Ha as [pl [H1 [H2 [H3 [H4 H5]]]]].
    cbv beta iota zeta delta [put_art]. cbn [fst snd].
    set (s1 := {| log := log s; arts := arts s ++ [(fresh_art s, v)] |}).
    exists [{| eseq := next_seq (log s); eid := fresh_id (log s);
               ebody := BCkpt (rule_stride (c_stride c)) (fresh_art s) (pl_seq p) (Some (pl_mid p)) |}].
    split; [reflexivity|]. split; [|intros e j0 st made0 [<-|[]] Hb; discriminate].
    cbn [actor_ok]. exists pl. split; [split; [apply spawned_with_mono, H1 | apply plan_ok_mono, H1]|]. split.
    { rewrite map_app, <- app_assoc. cbn [map app] in *. exact H2. }
    split; [exact H3|]. split; [intros q Hq; apply H4; right; exact Hq|].
    intros c0 Hc0. apply in_app_or in Hc0. destruct Hc0 as [Hc0|[<-|[]]].
    + exact (made_in_mono _ _ _ H5 c0 Hc0).
    + eexists. exists (rule_stride (c_stride c)). split; [apply in_or_app; right; left; reflexivity|].
      cbn [eid ebody cr_ck cr_art cr_seq cr_mid]. split; [|reflexivity].
      unfold s1. rewrite last_id_append. reflexivity.
  - (* AEnd *)
    cbn [actor_ok] in Ha.
    exists [{| eseq := next_seq (log s); eid := fresh_id (log s); ebody := BJobEnded j status made |}].
    cbn [fst snd actor_ok]. split; [reflexivity|]. split; [exact I|].
    intros e j0 st made0 [<-|[]] Hb. cbn [ebody] in Hb. injection Hb as <- <- <-. apply ended_ok_mono, Ha.
  - (* AMsgStart *)
    exists []. rewrite app_nil_r. cbn [fst snd]. split; [reflexivity|]. split; [destruct ms; exact I | intros e j st made []].
  - (* AMsgs *)
    destruct ms as [|[ac co] rest].
    + exists []. rewrite app_nil_r. cbn [fst snd]. split; [reflexivity|]. split; [exact I | intros e j st made []].
    + eexists. cbn [fst snd]. split; [reflexivity|]. split; [destruct rest; exact I|].
      intros e j st made [<-|[]] Hb. discriminate.
  - (* ADone *)
    exists []. rewrite app_nil_r. cbn [fst snd]. split; [reflexivity|]. split; [exact I | intros e j st made []].
Qed.

Definition sys_ok (s : st) (acts : list astate) : Prop :=
  valid (log s) /\ Forall (actor_ok (log s)) acts /\ job_consistent (log s).

Lemma astep_valid K s a : valid (log s) -> valid (log (fst (astep K s a))).
Proof.
  intros Hv. destruct (astep_kind K s a) as [Hl _ | b Hl _ _ _ | p st Hl _ _ | j stt m Hl _ _]; rewrite Hl;
    [exact Hv | apply valid_append, Hv | apply valid_append, Hv | apply valid_append, Hv].
Qed.

Lemma sys_ok_step K s pre a post :
  sys_ok s (pre ++ a :: post) -> sys_ok (fst (astep K s a)) (pre ++ snd (astep K s a) :: post).
Proof.
  intros [Hv [Hf Hj]]. apply Forall_app in Hf. destruct Hf as [Hpre Hf]. inversion Hf as [|a0 l0 Ha Hpost]; subst.
  destruct (actor_step K s a Hv Ha) as [fr [Hl [Ha' Hend]]].
  split; [apply astep_valid, Hv|]. rewrite Hl. split.
  - apply Forall_app. split; [|constructor; [exact Ha'|]].
    + eapply Forall_impl; [|exact Hpre]. intros x. apply actor_ok_mono.
    + eapply Forall_impl; [|exact Hpost]. intros x. apply actor_ok_mono.
  - intros e j st made Hin Hb. apply in_app_or in Hin. destruct Hin as [Hin|Hin].
    + apply ended_ok_mono. eapply Hj; eassumption.
    + eapply Hend; eassumption.
Qed.

Theorem sys_ok_steps K x y : sys_steps K x y -> sys_ok (fst x) (snd x) -> sys_ok (fst y) (snd y).
Proof.
  induction 1 as [|x y z H1 H2 IH]; intros H; [exact H|]. apply IH. destruct H1. cbn [fst snd] in *.
  apply sys_ok_step, H.
Qed.

Lemma actor_ok_start l calls : Forall (actor_ok l) (map start_of calls).
Proof. induction calls as [|c r IH]; [constructor|]. constructor; [destruct c; exact I | exact IH]. Qed.

(* every interleaving: each job that ends is `completed`, and its created list is, in ascending to_seq order, exactly
   the plan of the job_spawned frame of the same job, every entry naming a checkpoint frame of the stream *)
Theorem concurrent_jobs_create_announced K s calls s' acts' :
  valid (log s) -> job_consistent (log s) ->
  sys_steps K (s, map start_of calls) (s', acts') ->
  job_consistent (log s').
Proof.
  intros Hv Hj H. apply (sys_ok_steps K _ _ H). cbn [fst snd].
  split; [exact Hv|]. split; [apply actor_ok_start | exact Hj].
Qed.

(* non-vacuity: the race of mm_fixed starts from a valid, job-consistent state and ends with two ended jobs *)
Lemma mm_start_ok : valid (log mm_state) /\ job_consistent (log mm_state).
Proof.
  split; [apply reachable_valid, valid_st0|].
  intros e j st made Hin Hb. exfalso. vm_compute in Hin. destruct Hin as [<-|[<-|[<-|[]]]]; discriminate.
Qed.

Lemma run_fine_steps K : forall schedule s acts, sys_steps K (s, acts) (run_fine (astep K) s acts schedule).
Proof.
  induction schedule as [|i rest IH]; intros s acts; cbn [run_fine]; [apply sys_refl|].
  destruct (nth_error acts (N.to_nat i)) as [a|] eqn:E; [|apply IH].
  destruct (set_nth_split acts (N.to_nat i) a (snd (astep K s a)) E) as [pre [post [-> Es]]].
  pose proof (astep_steps K s pre a post) as H1. destruct (astep K s a) as [s1 a1]. cbn [fst snd] in *.
  rewrite Es. eapply sys_steps_trans; [exact H1 | apply IH].
Qed.

Lemma mm_fixed_consistent : job_consistent mm_fixed /\ length (ended_made mm_fixed) = 2%nat.
Proof.
  split; [|vm_compute; reflexivity]. unfold mm_fixed.
  pose proof (run_fine_steps real_consts mm_schedule mm_state mm_actors) as H.
  destruct (run_fine (astep real_consts) mm_state mm_actors mm_schedule) as [s' acts'] eqn:E. cbn [fst].
  destruct mm_start_ok as [Hv Hj].
  exact (concurrent_jobs_create_announced real_consts mm_state
           [SCall {| c_sched := true; c_stride := 1; c_maxnew := 1; c_block := false; c_exec := true |};
            SCall {| c_sched := false; c_stride := 1; c_maxnew := 1; c_block := false; c_exec := true |}] s' acts' Hv Hj H).
Qed.

(* ---------- concurrent calls: every checkpoint frame they append references a readable summary of matching coverage ---------- *)
Definition awrite_ok (a : astate) : Prop := match a with AWrite _ _ _ p v _ _ => covers v p | _ => True end.
Definition good_ckpts (s : st) (l : list ev) : Prop :=
  forall e r a ts tm, In e l -> ebody e = BCkpt r a ts (Some tm) ->
    exists v, art_read s a = Some v /\ su_to_seq v = ts /\ su_to_mid v = Some tm.

Lemma cut_read_covers K snap s p v : cut_read K snap s p = Ok v -> covers v p.
Proof.
  unfold cut_read. destruct (select_base K (log s) snap (pl_seq p)) as [b base_to].
  assert (Hfin : forall base bootstrap note used,
      match nth_error (msg_full snap) (upper_bound (msg_full snap) (pl_seq p) - 1) with
      | None => Err 20
      | Some (ls, lid, _) =>
        if (ls =? pl_seq p) && (lid =? pl_mid p) then
          Ok {| su_to_seq := pl_seq p; su_to_mid := Some (pl_mid p); su_base := base; su_note := note; su_kind := 2;
                su_slice := map snd (skipn (upper_bound (msg_full snap) (if (bootstrap : bool) then 0 else base_to))
                                           (firstn (upper_bound (msg_full snap) (pl_seq p)) (msg_full snap)));
                su_base_used := used; su_present := true |}
        else Err 21
      end = Ok v -> covers v p).
  { intros base bootstrap note used.
    destruct (nth_error (msg_full snap) (upper_bound (msg_full snap) (pl_seq p) - 1)) as [[[ls lid] x]|]; [|discriminate].
    destruct ((ls =? pl_seq p) && (lid =? pl_mid p)); [|discriminate].
    intros H. injection H as <-. unfold covers. cbn. auto. }
  destruct (option_map ck_art b) as [a|]; [|exact (Hfin None true 0 false)].
  destruct (art_read s a) as [w|]; [|exact (Hfin (Some a) true 2 false)].
  destruct (su_kind w =? 1); [exact (Hfin (Some a) true 1 false) | exact (Hfin (Some a) false 0 true)].
Qed.

Lemma art_get_app_some a m extra v : art_get a m = Some v -> art_get a (m ++ extra) = Some v.
Proof.
  induction m as [|[k w] m IH]; [discriminate|]. cbn [app art_get]. destruct (k =? a); [exact (fun H => H) | exact IH].
Qed.

Lemma good_ckpts_same_arts s s' l : arts s' = arts s -> good_ckpts s l -> good_ckpts s' l.
Proof.
  intros Ha H e r a ts tm Hin Hb. destruct (H e r a ts tm Hin Hb) as [v Hv]. exists v.
  unfold art_read in *. rewrite Ha. exact Hv.
Qed.
Lemma good_ckpts_app s l fr :
  good_ckpts s l -> (forall e r a ts tm, In e fr -> ebody e <> BCkpt r a ts (Some tm)) -> good_ckpts s (l ++ fr).
Proof.
  intros H Hn e r a ts tm Hin Hb. apply in_app_or in Hin. destruct Hin as [Hin|Hin]; [eapply H; eassumption|].
  exfalso. eapply Hn; eassumption.
Qed.

Lemma arts_step K s a new :
  awrite_ok a -> good_ckpts s new ->
  exists fr, log (fst (astep K s a)) = log s ++ fr /\ awrite_ok (snd (astep K s a))
             /\ good_ckpts (fst (astep K s a)) (new ++ fr).
Proof.
  intros Ha Hg.
  assert (Hread : forall a', awrite_ok a' ->
            exists fr, log (fst (s, a')) = log s ++ fr /\ awrite_ok (snd (s, a')) /\ good_ckpts (fst (s, a')) (new ++ fr)).
  { intros a' Ha'. exists []. rewrite !app_nil_r. cbn [fst snd]. auto. }
  assert (Happ : forall b a', awrite_ok a' -> (forall r x ts tm, b <> BCkpt r x ts (Some tm)) ->
            exists fr, log (fst (append s b, a')) = log s ++ fr /\ awrite_ok (snd (append s b, a'))
                       /\ good_ckpts (fst (append s b, a')) (new ++ fr)).
  { intros b a' Ha' Hb. eexists. cbn [fst snd]. split; [reflexivity|]. split; [exact Ha'|].
    apply good_ckpts_app; [eapply good_ckpts_same_arts; [|exact Hg]; reflexivity|].
    intros e r x ts tm [<-|[]]. cbn [ebody]. apply Hb. }
  destruct a; unfold astep; cbn [astep_gen].
  - destruct (c_sched c); [destruct (plan_cuts K (c_stride c) (c_maxnew c) (log s))|]; apply Hread; exact I.
  - destruct (if c_block c then find_inflight K (log s) else None); apply Hread; exact I.
  - apply Happ; [exact I | discriminate].
  - destruct (plan_cuts K (c_stride c) (c_maxnew c) (log s)); apply Hread; exact I.
  - destruct (c_sched c); (apply Happ; [exact I | discriminate]).
  - destruct (c_exec c); (apply Happ; [exact I | discriminate]).
  - apply Hread. exact I.
  - destruct todo as [|p rest]; [apply Hread; exact I|].
    destruct (cut_read K snap s p) as [v|e] eqn:E; apply Hread; [|exact I].
    cbn [awrite_ok]. eapply cut_read_covers, E.
  - (* AWrite: the artifact is stored under a fresh id and the frame references it *)
    cbn [awrite_ok] in Ha. cbv beta iota zeta delta [put_art]. cbn [fst snd].
    eexists. split; [reflexivity|]. split; [exact I|].
    intros e r x ts tm Hin Hb. apply in_app_or in Hin. destruct Hin as [Hin|[<-|[]]].
    + destruct (Hg e r x ts tm Hin Hb) as [w [Hw Hf]]. exists w. split; [|exact Hf].
      unfold art_read in *. unfold append. cbn [arts].
      destruct (art_get x (arts s)) as [w'|] eqn:Ew; [|discriminate].
      rewrite (art_get_app_some x (arts s) _ w' Ew). exact Hw.
    + cbn [ebody] in Hb. injection Hb as _ <- <- <-. exists v.
      destruct Ha as [H1 [H2 [H3 _]]]. split; [|auto].
      unfold art_read, append. cbn [arts]. rewrite art_get_app_fresh by (apply fresh_art_not_key). rewrite H3. reflexivity.
  - apply Happ; [exact I | discriminate].
  - apply Hread. destruct ms; exact I.
  - destruct ms as [|[ac co] rest]; [apply Hread; exact I|]. apply Happ; [destruct rest; exact I | discriminate].
  - apply Hread. exact I.
Qed.

Definition arts_ok (s0 s : st) (acts : list astate) : Prop :=
  Forall awrite_ok acts /\ exists new, log s = log s0 ++ new /\ good_ckpts s new.

Lemma arts_ok_step K s0 s pre a post :
  arts_ok s0 s (pre ++ a :: post) -> arts_ok s0 (fst (astep K s a)) (pre ++ snd (astep K s a) :: post).
Proof.
  intros [Hf [new [Hl Hg]]]. apply Forall_app in Hf. destruct Hf as [Hpre Hf]. inversion Hf as [|a0 l0 Ha Hpost]; subst.
  destruct (arts_step K s a new Ha Hg) as [fr [Hl' [Ha' Hg']]]. split.
  - apply Forall_app. split; [exact Hpre|]. constructor; assumption.
  - exists (new ++ fr). split; [rewrite Hl', Hl, app_assoc; reflexivity | exact Hg'].
Qed.

Theorem arts_ok_steps K s0 x y : sys_steps K x y -> arts_ok s0 (fst x) (snd x) -> arts_ok s0 (fst y) (snd y).
Proof.
  induction 1 as [|x y z H1 H2 IH]; intros H; [exact H|]. apply IH. destruct H1. cbn [fst snd] in *.
  apply arts_ok_step, H.
Qed.

Theorem concurrent_ckpts_covered K s calls s' acts' :
  sys_steps K (s, map start_of calls) (s', acts') ->
  exists new, log s' = log s ++ new /\ good_ckpts s' new.
Proof.
  intros H. apply (arts_ok_steps K s _ _ H). cbn [fst snd]. split.
  - clear H. induction calls as [|c r IH]; [constructor|]. constructor; [destruct c; exact I | exact IH].
  - exists []. rewrite app_nil_r. split; [reflexivity|]. intros e r a ts tm [].
Qed.

(* ---------- status: the next cut point is the first undone one ---------- *)
Lemma find_map_filter {A B} (f : A -> B) (p : A -> bool) (l : list A) :
  option_map f (find p l) = hd_error (map f (filter p l)).
Proof.
  induction l as [|x l IH]; [reflexivity|]. cbn [find filter]. destruct (p x); [reflexivity | exact IH].
Qed.

Theorem status_next_first_undone K ostride s r :
  status K ostride s = Ok r ->
  ss_next r = hd_error (map plan_of (undone K (opt_or ostride (k_default_stride K)) (log s)))
  /\ ss_count r = nlen (msgs (log s)) /\ ss_inflight r = find_inflight K (log s).
Proof.
  unfold status. destruct (opt_or ostride (k_default_stride K) =? 0); [discriminate|].
  intros H. injection H as <-. cbn [ss_next ss_count ss_inflight]. split; [|auto].
  rewrite find_map_filter. unfold undone. rewrite cut_points_targets, filter_map_comm, map_map. f_equal.
  erewrite map_ext by (intros t; apply to_plan_cut_of).
  f_equal. apply filter_ext. intros t. rewrite cp_done_cut_of. reflexivity.
Qed.

(* ====================================================================================================== *)
(* ---------- the scheduler, sequentially ---------- *)
Lemma sched_skipped K ostride omax oblock oexec odry s j0 :
  opt_or ostride (k_default_stride K) <> 0 ->
  opt_orb odry false = false ->
  plan_cuts K (opt_or ostride (k_default_stride K)) (clamp (k_maxnew_lo K) (k_maxnew_hi K) (opt_or omax 1)) (log s) <> [] ->
  opt_orb oblock true = true -> find_inflight K (log s) = Some j0 ->
  exists s' r e,
    sched K ostride omax oblock oexec odry s = (s', Ok r) /\ sr_decision r = 2 /\ sr_job r = None /\ sr_result r = []
    /\ log s' = log s ++ [e]
    /\ ebody e = BDecided 2 None (sr_planned r) (sr_stride r) (sr_maxnew r) true (sr_exec r) (nlen (msgs (log s)))
    /\ sr_planned r = plan_cuts K (opt_or ostride (k_default_stride K))
                                (clamp (k_maxnew_lo K) (k_maxnew_hi K) (opt_or omax 1)) (log s).
Proof.
  intros Hs Hd Hp Hb Hi. unfold sched. apply N.eqb_neq in Hs. rewrite Hs, Hd, Hb, Hi.
  destruct (plan_cuts K (opt_or ostride (k_default_stride K))
                      (clamp (k_maxnew_lo K) (k_maxnew_hi K) (opt_or omax 1)) (log s)) as [|p0 pr] eqn:Ep; [congruence|].
  eexists. eexists. eexists. split; [reflexivity|]. cbn. repeat split; reflexivity.
Qed.

Record sched_outcome (stride : N) (planned : list plan) (exec : bool) (s s' : st) (j : N) (made : list created)
                     (dec : body) : Prop := {
  so_log : exists e_sp e_dec frames tail_,
      log s' = log s ++ [e_sp; e_dec] ++ frames ++ tail_
      /\ ebody e_sp = BJobSpawned j planned stride /\ ebody e_dec = dec
      /\ (if exec then exists e_end, tail_ = [e_end] /\ ebody e_end = BJobEnded j 0 made
                                     /\ Forall2 (ck_for stride s') frames (plan_sort planned)
                                     /\ Forall2 created_for made frames
          else tail_ = [] /\ frames = [] /\ made = []);
  so_fresh : ~ In j (job_ids (log s));
  so_valid : valid (log s') }.

Theorem sched_creates_planned K ostride omax oblock oexec odry s :
  valid (log s) ->
  opt_or ostride (k_default_stride K) <> 0 ->
  opt_orb odry false = false ->
  plan_cuts K (opt_or ostride (k_default_stride K)) (clamp (k_maxnew_lo K) (k_maxnew_hi K) (opt_or omax 1)) (log s) <> [] ->
  (if opt_orb oblock true then find_inflight K (log s) else None) = None ->
  exists s' r,
    sched K ostride omax oblock oexec odry s = (s', Ok r)
    /\ sr_decision r = (if opt_orb oexec true then 4 else 3) /\ sr_err r = None /\ sr_job r = Some (fresh_job (log s))
    /\ sr_planned r = plan_cuts K (opt_or ostride (k_default_stride K))
                                (clamp (k_maxnew_lo K) (k_maxnew_hi K) (opt_or omax 1)) (log s)
    /\ sched_outcome (opt_or ostride (k_default_stride K)) (sr_planned r) (opt_orb oexec true) s s'
                     (fresh_job (log s)) (sr_result r)
                     (BDecided 3 (Some (fresh_job (log s))) (sr_planned r) (opt_or ostride (k_default_stride K))
                               (clamp (k_maxnew_lo K) (k_maxnew_hi K) (opt_or omax 1)) (opt_orb oblock true)
                               (opt_orb oexec true) (nlen (msgs (log s)))).
Proof.
  intros Hv Hs Hd Hp Hi. unfold sched.
  set (stride := opt_or ostride (k_default_stride K)) in *.
  set (maxnew := clamp (k_maxnew_lo K) (k_maxnew_hi K) (opt_or omax 1)) in *.
  pose proof Hs as Hs0. apply N.eqb_neq in Hs0. rewrite Hs0, Hd, Hi. unfold auto_spawn.
  set (planned := plan_cuts K stride maxnew (log s)) in *.
  destruct planned as [|p0 pr] eqn:Ep; [congruence|]. rewrite <- Ep. cbn [ar_job].
  set (j := fresh_job (log s)).
  set (s1 := append s (BJobSpawned j planned stride)).
  set (dec := BDecided 3 (Some j) planned stride maxnew (opt_orb oblock true) (opt_orb oexec true) (nlen (msgs (log s)))).
  set (s2 := append s1 dec).
  assert (Hv1 : valid (log s1)) by (apply valid_append, Hv).
  assert (Hv2 : valid (log s2)) by (apply valid_append, Hv1).
  destruct (opt_orb oexec true) eqn:Ex.
  - destruct (run_job_ok K j stride planned s2 Hv2) as [sn [made [Hr Hc]]].
    { intros p Hin. unfold s2, s1. rewrite !msg_full_append_nonmsg by reflexivity.
      apply (plan_cuts_msgs K stride maxnew). exact Hin. }
    rewrite Hr.
    eexists. eexists. split; [reflexivity|]. cbn [sr_decision sr_err sr_job sr_planned sr_result].
    repeat (split; [reflexivity|]).
    apply cuts_done_spec in Hc. destruct Hc as [frames [extra [Hl [Ha [Hf [Hm Hvn]]]]]].
    constructor.
    + eexists. eexists. exists frames. eexists. split.
      { cbn [log append]. rewrite Hl. unfold s2. cbn [log append]. unfold s1. cbn [log append].
        rewrite <- !app_assoc. reflexivity. }
      split; [reflexivity|]. split; [reflexivity|].
      eexists. split; [reflexivity|]. split; [reflexivity|]. split; [exact Hf | exact Hm].
    + apply fresh_job_not_in.
    + apply (valid_append sn). apply Hvn, Hv2.
  - eexists. eexists. split; [reflexivity|]. cbn [sr_decision sr_err sr_job sr_planned sr_result].
    repeat (split; [reflexivity|]).
    constructor.
    + eexists. eexists. exists []. exists []. split.
      { unfold s2, s1. cbn [log append]. rewrite <- !app_assoc. reflexivity. }
      split; [reflexivity|]. split; [reflexivity|]. auto.
    + apply fresh_job_not_in.
    + fold s1. fold dec. exact Hv2.
Qed.

(* non-vacuity for the scheduler theorems: schedule(execute=false) leaves job 1 in flight, the next schedule call is skipped *)
Definition demo_inflight : st :=
  fst (sched real_consts (Some 1) (Some 1) (Some true) (Some false) None (fst (run_ops real_consts st0 [OMsg 0 1; OMsg 1 2] []))).
Lemma demo_sched_facts :
  valid (log demo_inflight)
  /\ find_inflight real_consts (log demo_inflight) = Some 1
  /\ plan_cuts real_consts 1 (clamp 1 32 1) (log demo_inflight) = [{| pl_ord := 2; pl_seq := 2; pl_mid := 3 |}]
  /\ map (fun e => enc_body (ebody e)) (skipn 3 (log demo_inflight))
     = [[3; 1; 1; 1; 2; 2; 3]; [5; 3; 1; 1; 1; 2; 2; 3; 1; 1; 1; 0; 2]].
Proof.
  split; [unfold demo_inflight; apply sched_valid, reachable_valid, valid_st0|].
  repeat split; vm_compute; reflexivity.
Qed.

(* ====================================================================================================== *)
(* ---------- a call running alone is the sequential function (the two halves of the model agree) ---------- *)
Inductive solo_steps (K : consts) : st * astate -> st * astate -> Prop :=
| solo_refl x : solo_steps K x x
| solo_cons s a z : solo_steps K (astep K s a) z -> solo_steps K (s, a) z.

Lemma solo_trans K x y z : solo_steps K x y -> solo_steps K y z -> solo_steps K x z.
Proof. induction 1 as [|s a y' H IH]; intros H2; [exact H2|]. apply solo_cons, IH, H2. Qed.

(* run_cut = its read half followed by its write half *)
Lemma run_cut_split K snap stride s p :
  run_cut K snap stride s p =
  match cut_read K snap s p with
  | Err e => Err e
  | Ok v => let '(s1, a) := put_art s v in
            let s2 := append s1 (BCkpt (rule_stride stride) a (pl_seq p) (Some (pl_mid p))) in
            Ok (s2, {| cr_ck := last_id s2; cr_art := a; cr_seq := pl_seq p; cr_mid := pl_mid p |})
  end.
Proof.
  unfold run_cut, cut_read. destruct (select_base K (log s) snap (pl_seq p)) as [b base_to].
  assert (Hfin : forall base bootstrap note used,
    match nth_error (msg_full snap) (upper_bound (msg_full snap) (pl_seq p) - 1) with
    | None => Err 20
    | Some (ls, lid, _) =>
      if (ls =? pl_seq p) && (lid =? pl_mid p) then
        let slice := map snd (skipn (upper_bound (msg_full snap) (if (bootstrap : bool) then 0 else base_to))
                                    (firstn (upper_bound (msg_full snap) (pl_seq p)) (msg_full snap))) in
        let '(s1, a) := put_art s {| su_to_seq := pl_seq p; su_to_mid := Some (pl_mid p); su_base := base;
                                     su_note := note; su_kind := 2; su_slice := slice; su_base_used := used;
                                     su_present := true |} in
        let s2 := append s1 (BCkpt (rule_stride stride) a (pl_seq p) (Some (pl_mid p))) in
        Ok (s2, {| cr_ck := last_id s2; cr_art := a; cr_seq := pl_seq p; cr_mid := pl_mid p |})
      else Err 21
    end =
    match
      match nth_error (msg_full snap) (upper_bound (msg_full snap) (pl_seq p) - 1) with
      | None => Err 20
      | Some (ls, lid, _) =>
        if (ls =? pl_seq p) && (lid =? pl_mid p) then
          Ok {| su_to_seq := pl_seq p; su_to_mid := Some (pl_mid p); su_base := base; su_note := note; su_kind := 2;
                su_slice := map snd (skipn (upper_bound (msg_full snap) (if (bootstrap : bool) then 0 else base_to))
                                           (firstn (upper_bound (msg_full snap) (pl_seq p)) (msg_full snap)));
                su_base_used := used; su_present := true |}
        else Err 21
      end
    with
    | Err e => Err e
    | Ok v => let '(s1, a) := put_art s v in
              let s2 := append s1 (BCkpt (rule_stride stride) a (pl_seq p) (Some (pl_mid p))) in
              Ok (s2, {| cr_ck := last_id s2; cr_art := a; cr_seq := pl_seq p; cr_mid := pl_mid p |})
    end).
  { intros base bootstrap note used.
    destruct (nth_error (msg_full snap) (upper_bound (msg_full snap) (pl_seq p) - 1)) as [[[ls lid] x]|]; [|reflexivity].
    destruct ((ls =? pl_seq p) && (lid =? pl_mid p)); reflexivity. }
  destruct (option_map ck_art b) as [a|]; [|exact (Hfin None true 0 false)].
  destruct (art_read s a) as [w|]; [|exact (Hfin (Some a) true 2 false)].
  destruct (su_kind w =? 1); [exact (Hfin (Some a) true 1 false) | exact (Hfin (Some a) false 0 true)].
Qed.

(* the job loop of an actor = run_cuts followed by job_ended *)
Lemma solo_job K c j snap : forall todo s made,
  exists resp,
    solo_steps K (s, ACut c j snap todo made)
      (let '(sn, made', err) := run_cuts K snap (c_stride c) s todo made in
       (append sn (BJobEnded j (match err with None => 0 | Some _ => 1 end) made'), ADone resp)).
Proof.
  induction todo as [|p rest IH]; intros s made.
  - cbn [run_cuts]. eexists. apply solo_cons. unfold astep. cbn [astep_gen]. apply solo_cons. unfold astep. cbn [astep_gen].
    apply solo_refl.
  - cbn [run_cuts]. rewrite run_cut_split. destruct (cut_read K snap s p) as [v|e] eqn:E.
    + cbv beta iota zeta delta [put_art].
      set (s2 := append {| log := log s; arts := arts s ++ [(fresh_art s, v)] |}
                        (BCkpt (rule_stride (c_stride c)) (fresh_art s) (pl_seq p) (Some (pl_mid p)))).
      destruct (IH s2 (made ++ [{| cr_ck := last_id s2; cr_art := fresh_art s; cr_seq := pl_seq p; cr_mid := pl_mid p |}]))
        as [resp Hs].
      exists resp. apply solo_cons. unfold astep. cbn [astep_gen]. rewrite E.
      apply solo_cons. unfold astep. cbn [astep_gen]. cbv beta iota zeta delta [put_art]. exact Hs.
    + eexists. apply solo_cons. unfold astep. cbn [astep_gen]. rewrite E.
      apply solo_cons. unfold astep. cbn [astep_gen]. apply solo_refl.
Qed.

Theorem solo_auto_is_auto K c s :
  c_sched c = false -> c_stride c <> 0 -> clamp (k_maxnew_lo K) (k_maxnew_hi K) (c_maxnew c) = c_maxnew c ->
  exists resp, solo_steps K (s, AStart c)
                 (fst (auto K (Some (c_stride c)) (Some (c_maxnew c)) None s), ADone resp).
Proof.
  intros Hsch Hs Hm. unfold auto. cbn [opt_or opt_orb]. apply N.eqb_neq in Hs. rewrite Hs, Hm. unfold auto_spawn.
  destruct (plan_cuts K (c_stride c) (c_maxnew c) (log s)) as [|p0 pr] eqn:Ep.
  - cbn [ar_job fst]. eexists. apply solo_cons. unfold astep. cbn [astep_gen]. rewrite Hsch.
    apply solo_cons. unfold astep. cbn [astep_gen]. rewrite Ep. apply solo_refl.
  - rewrite <- Ep. cbn [ar_job ar_planned].
    set (planned := plan_cuts K (c_stride c) (c_maxnew c) (log s)) in *.
    set (j := fresh_job (log s)). set (s1 := append s (BJobSpawned j planned (c_stride c))).
    destruct (solo_job K c j (log s1) (plan_sort planned) s1 []) as [resp Hj].
    unfold run_job.
    destruct (run_cuts K (log s1) (c_stride c) s1 (plan_sort planned) []) as [[sn made'] err]. cbn [fst].
    exists resp.
    apply solo_cons. unfold astep. cbn [astep_gen]. rewrite Hsch.
    apply solo_cons. unfold astep. cbn [astep_gen]. fold planned. rewrite Ep. rewrite <- Ep.
    apply solo_cons. unfold astep. cbn [astep_gen]. rewrite Hsch. fold j. fold s1.
    apply solo_cons. unfold astep. cbn [astep_gen]. exact Hj.
Qed.

Theorem solo_sched_is_sched K c s :
  c_sched c = true -> c_stride c <> 0 -> clamp (k_maxnew_lo K) (k_maxnew_hi K) (c_maxnew c) = c_maxnew c ->
  exists resp, solo_steps K (s, AStart c)
                 (fst (sched K (Some (c_stride c)) (Some (c_maxnew c)) (Some (c_block c)) (Some (c_exec c)) None s), ADone resp).
Proof.
  intros Hsch Hs Hm. unfold sched. cbn [opt_or opt_orb]. apply N.eqb_neq in Hs. rewrite Hs, Hm.
  destruct (plan_cuts K (c_stride c) (c_maxnew c) (log s)) as [|p0 pr] eqn:Ep.
  - cbn [fst]. eexists. apply solo_cons. unfold astep. cbn [astep_gen]. rewrite Hsch, Ep. apply solo_refl.
  - rewrite <- Ep. set (planned := plan_cuts K (c_stride c) (c_maxnew c) (log s)) in *.
    destruct (if c_block c then find_inflight K (log s) else None) as [j0|] eqn:Ei.
    + cbn [fst]. eexists.
      apply solo_cons. unfold astep. cbn [astep_gen]. rewrite Hsch. fold planned. rewrite Ep. rewrite <- Ep.
      apply solo_cons. unfold astep. cbn [astep_gen]. rewrite Ei.
      apply solo_cons. unfold astep. cbn [astep_gen]. unfold decided_body. apply solo_refl.
    + unfold auto_spawn. fold planned. rewrite Ep. rewrite <- Ep. cbn [ar_job].
      set (j := fresh_job (log s)). set (s1 := append s (BJobSpawned j planned (c_stride c))).
      set (s2 := append s1 (BDecided 3 (Some j) planned (c_stride c) (c_maxnew c) (c_block c) (c_exec c) (nlen (msgs (log s))))).
      destruct (c_exec c) eqn:Ex.
      * destruct (solo_job K c j (log s2) (plan_sort planned) s2 []) as [resp Hj].
        unfold run_job.
        destruct (run_cuts K (log s2) (c_stride c) s2 (plan_sort planned) []) as [[sn made'] err]. cbn [fst].
        exists resp.
        apply solo_cons. unfold astep. cbn [astep_gen]. rewrite Hsch. fold planned. rewrite Ep. rewrite <- Ep.
        apply solo_cons. unfold astep. cbn [astep_gen]. rewrite Ei.
        apply solo_cons. unfold astep. cbn [astep_gen]. fold planned. rewrite Ep. rewrite <- Ep.
        apply solo_cons. unfold astep. cbn [astep_gen]. rewrite Hsch. fold j. fold s1.
        apply solo_cons. unfold astep. cbn [astep_gen]. unfold decided_body. rewrite Ex. fold s2.
        apply solo_cons. unfold astep. cbn [astep_gen]. exact Hj.
      * cbn [fst]. eexists.
        apply solo_cons. unfold astep. cbn [astep_gen]. rewrite Hsch. fold planned. rewrite Ep. rewrite <- Ep.
        apply solo_cons. unfold astep. cbn [astep_gen]. rewrite Ei.
        apply solo_cons. unfold astep. cbn [astep_gen]. fold planned. rewrite Ep. rewrite <- Ep.
        apply solo_cons. unfold astep. cbn [astep_gen]. rewrite Hsch. fold j. fold s1.
        apply solo_cons. unfold astep. cbn [astep_gen]. unfold decided_body. rewrite Ex. fold s2.
        apply solo_refl.
Qed.

Lemma solo_is_sys K x y : solo_steps K x y -> sys_steps K (fst x, [snd x]) (fst y, [snd y]).
Proof.
  induction 1 as [x|s a z H IH]; [apply sys_refl|]. cbn [fst snd] in *.
  eapply sys_cons; [exact (sys_step_at K s [] a [])|]. cbn [app]. destruct (astep K s a). exact IH.
Qed.
