(* C09 — proofs about Model/Compaction.v *)
From RipV Require Import Base.Prelude Model.Compaction.

(* ---------- small list facts ---------- *)
Lemma map_flat_map_single {A B C} (f : A -> list B) (g : B -> C) (h : A -> C) (l : list A) :
  Forall (fun x => exists c, f x = [c] /\ g c = h x) l -> map g (flat_map f l) = map h l.
Proof.
  induction 1 as [|x l [c [Hf Hg]] _ IH]; cbn [flat_map map]; [reflexivity|].
  rewrite map_app, Hf, IH. cbn [map app]. rewrite Hg. reflexivity.
Qed.

Lemma in_flat_map_single {A B} (f : A -> list B) (l : list A) (c : B) :
  In c (flat_map f l) -> exists x, In x l /\ In c (f x).
Proof. intros H. apply in_flat_map in H. exact H. Qed.

(* ---------- cut ordinals ---------- *)
(* the multipliers K, K-1, … , at most n of them, all >= 1 *)
Fixpoint ks (n : nat) (k : N) : list N :=
  match n with
  | O => []
  | S n' => if k =? 0 then [] else k :: ks n' (k - 1)
  end.

Lemma cut_ords_ks n : forall k stride, stride <> 0 ->
  cut_ords n (k * stride) stride = map (fun j => j * stride) (ks n k).
Proof.
  induction n as [|n IH]; intros k stride Hs; cbn [cut_ords ks map]; [reflexivity|].
  destruct (k =? 0) eqn:Ek.
  - apply N.eqb_eq in Ek. subst k. rewrite N.mul_0_l. cbn. reflexivity.
  - apply N.eqb_neq in Ek.
    assert (Hne : k * stride <> 0) by nia.
    apply N.eqb_neq in Hne. rewrite Hne. cbn [map]. f_equal.
    replace (k * stride - stride) with ((k - 1) * stride) by nia.
    apply IH, Hs.
Qed.

Lemma ks_range n : forall k j, In j (ks n k) -> 1 <= j /\ j <= k.
Proof.
  induction n as [|n IH]; intros k j H; cbn [ks] in H; [contradiction|].
  destruct (k =? 0) eqn:Ek; [contradiction|]. apply N.eqb_neq in Ek.
  destruct H as [<-|H]; [lia|]. apply IH in H. lia.
Qed.

Lemma ks_length n : forall k, length (ks n k) = Nat.min n (N.to_nat k).
Proof.
  induction n as [|n IH]; intros k; cbn [ks]; [reflexivity|].
  destruct (k =? 0) eqn:Ek.
  - apply N.eqb_eq in Ek. subst k. cbn. lia.
  - apply N.eqb_neq in Ek. cbn [length]. rewrite IH. lia.
Qed.

Lemma ks_nth n : forall k i, (i < Nat.min n (N.to_nat k))%nat -> nth_error (ks n k) i = Some (k - N.of_nat i).
Proof.
  induction n as [|n IH]; intros k i Hi; [lia|]. cbn [ks].
  destruct (k =? 0) eqn:Ek.
  - apply N.eqb_eq in Ek. subst k. cbn in Hi. lia.
  - apply N.eqb_neq in Ek. destruct i as [|i]; cbn [nth_error].
    + f_equal. lia.
    + rewrite IH by lia. f_equal. lia.
Qed.

(* ---------- one cut point ---------- *)
Lemma nlen_nth_some {A} (l : list A) (i : N) : i < nlen l -> exists x, nth_error l (N.to_nat i) = Some x.
Proof.
  unfold nlen. intros H. destruct (nth_error l (N.to_nat i)) as [x|] eqn:E; [eauto|].
  apply nth_error_None in E. lia.
Qed.

Lemma cut_point_at_single K l ord :
  1 <= ord -> ord <= nlen (msgs l) ->
  exists c, cut_point_at K l ord = [c] /\ cp_ord c = ord
            /\ nth_error (msgs l) (N.to_nat (ord - 1)) = Some (cp_seq c, cp_mid c).
Proof.
  intros H1 H2. unfold cut_point_at.
  destruct (ord =? 0) eqn:E0; [apply N.eqb_eq in E0; lia|].
  destruct (nlen (msgs l) <? ord) eqn:E1; [apply N.ltb_lt in E1; lia|]. cbn [orb].
  destruct (nlen_nth_some (msgs l) (ord - 1)) as [[s id] Hn]; [lia|].
  rewrite Hn. eexists. split; [reflexivity|]. cbn. auto.
Qed.

Definition limit_of (K : consts) (lim : N) : nat := N.to_nat (clamp (k_limit_lo K) (k_limit_hi K) lim).

Theorem cut_points_exact K stride lim l :
  stride <> 0 ->
  map (fun c => (cp_ord c, Some (cp_seq c, cp_mid c))) (cut_points K stride lim l)
  = map (fun k => (k * stride, nth_error (msgs l) (N.to_nat (k * stride - 1))))
        (ks (limit_of K lim) (nlen (msgs l) / stride)).
Proof.
  intros Hs. unfold cut_points. rewrite cut_ords_ks by exact Hs.
  rewrite flat_map_concat_map, map_map, <- flat_map_concat_map.
  apply map_flat_map_single. apply Forall_forall. intros k Hk.
  apply ks_range in Hk. destruct Hk as [Hk1 Hk2].
  assert (Hle : k * stride <= nlen (msgs l)).
  { pose proof (N.mul_div_le (nlen (msgs l)) stride Hs). nia. }
  destruct (cut_point_at_single K l (k * stride)) as [c [Hc [Ho Hn]]]; [nia | exact Hle |].
  exists c. split; [exact Hc|]. rewrite Ho, Hn. reflexivity.
Qed.

Lemma cut_points_in K stride lim l c :
  In c (cut_points K stride lim l) ->
  exists ord, cut_point_at K l ord = [c] \/ In c (cut_point_at K l ord).
Proof.
  unfold cut_points. intros H. apply in_flat_map in H. destruct H as [ord [_ H]]. exists ord. right. exact H.
Qed.

(* ---------- best_le ---------- *)
Definition not_better (k b : ck) : Prop := ck_to k <= ck_to b /\ (ck_to k = ck_to b -> ck_seq k <= ck_seq b).

Lemma ck_better_false k b : ck_better k b = false <-> not_better k b.
Proof.
  unfold ck_better, not_better. rewrite orb_false_iff, andb_false_iff, N.ltb_ge, N.eqb_neq, N.ltb_ge. lia.
Qed.
Lemma ck_better_true k b : ck_better k b = true -> ck_to b <= ck_to k /\ ~ not_better k b.
Proof.
  unfold ck_better, not_better. rewrite orb_true_iff, andb_true_iff, N.ltb_lt, N.eqb_eq, N.ltb_lt. lia.
Qed.

Definition best_step (m : N) (best : option ck) (c : ck) : option ck :=
  if m <? ck_to c then best
  else match best with None => Some c | Some b => if ck_better c b then Some c else best end.

Definition BestInv (m : N) (P : list ck) (acc : option ck) : Prop :=
  match acc with
  | None => forall k, In k P -> m < ck_to k
  | Some b => In b P /\ ck_to b <= m /\ forall k, In k P -> ck_to k <= m -> not_better k b
  end.

Lemma best_step_inv m P acc c : BestInv m P acc -> BestInv m (P ++ [c]) (best_step m acc c).
Proof.
  unfold best_step. intros H.
  destruct (m <? ck_to c) eqn:E.
  - apply N.ltb_lt in E. destruct acc as [b|]; cbn [BestInv] in *.
    + destruct H as [Hi [Hm Hb]]. split; [apply in_or_app; auto|]. split; [exact Hm|].
      intros k Hk Hkm. apply in_app_or in Hk. destruct Hk as [Hk|[<-|[]]]; [auto | lia].
    + intros k Hk. apply in_app_or in Hk. destruct Hk as [Hk|[<-|[]]]; auto.
  - apply N.ltb_ge in E. destruct acc as [b|]; cbn [BestInv] in *.
    + destruct H as [Hi [Hm Hb]].
      destruct (ck_better c b) eqn:Eb; cbn [BestInv].
      * apply ck_better_true in Eb. split; [apply in_or_app; right; left; reflexivity|]. split; [exact E|].
        intros k Hk Hkm. apply in_app_or in Hk. destruct Hk as [Hk|[<-|[]]].
        -- specialize (Hb k Hk Hkm). unfold not_better in *. lia.
        -- unfold not_better. lia.
      * apply ck_better_false in Eb. split; [apply in_or_app; auto|]. split; [exact Hm|].
        intros k Hk Hkm. apply in_app_or in Hk. destruct Hk as [Hk|[<-|[]]]; auto.
    + split; [apply in_or_app; right; left; reflexivity|]. split; [exact E|].
      intros k Hk Hkm. apply in_app_or in Hk. destruct Hk as [Hk|[<-|[]]]; [specialize (H k Hk); lia|].
      unfold not_better. lia.
Qed.

Lemma best_fold_inv m L : forall P acc, BestInv m P acc -> BestInv m (P ++ L) (fold_left (best_step m) L acc).
Proof.
  induction L as [|c L IH]; intros P acc H; cbn [fold_left]; [rewrite app_nil_r; exact H|].
  replace (P ++ c :: L) with ((P ++ [c]) ++ L) by (rewrite <- app_assoc; reflexivity).
  apply IH, best_step_inv, H.
Qed.

Lemma best_le_spec L m : BestInv m L (best_le L m).
Proof.
  unfold best_le. change (fold_left _ L None) with (fold_left (best_step m) L None).
  apply (best_fold_inv m L [] None). cbn. intros k [].
Qed.

(* a cut point is "done" iff a checkpoint for exactly its seq is among the scanned checkpoints *)
Lemma best_le_done L s :
  (match best_le L s with Some c => ck_to c =? s | None => false end) = true
  <-> exists k, In k L /\ ck_to k = s.
Proof.
  pose proof (best_le_spec L s) as H. destruct (best_le L s) as [b|]; cbn [BestInv] in H.
  - destruct H as [Hi [Hm Hb]]. rewrite N.eqb_eq. split.
    + intros E. exists b. auto.
    + intros [k [Hk Hs]]. specialize (Hb k Hk). unfold not_better in Hb. lia.
  - split; [discriminate|]. intros [k [Hk Hs]]. specialize (H k Hk). lia.
Qed.

(* the look-up used by every cut point: bounded backward scan when it covered the whole sidecar, truth otherwise;
   either way it is best_le over a permutation of all checkpoint frames *)
Definition cut_lookup (K : consts) (l : list ev) (s : N) : option ck :=
  match ck_lookup K (ckpts l) s with Some b => b | None => best_le (ckpts l) s end.

Lemma cut_lookup_inv K l s : BestInv s (ckpts l) (cut_lookup K l s).
Proof.
  unfold cut_lookup, ck_lookup. destruct (nlen (ckpts l) <=? k_ck_window K).
  - pose proof (best_le_spec (rev (ckpts l)) s) as H.
    destruct (best_le (rev (ckpts l)) s) as [b|]; cbn [BestInv] in *.
    + destruct H as [Hi [Hm Hb]]. split; [apply in_rev; exact Hi|]. split; [exact Hm|].
      intros k Hk. apply Hb. apply in_rev in Hk. exact Hk.
    + intros k Hk. apply H. apply in_rev in Hk. exact Hk.
  - apply best_le_spec.
Qed.

Lemma cut_point_at_shape K l ord c :
  In c (cut_point_at K l ord) ->
  exists s id, nth_error (msgs l) (N.to_nat (ord - 1)) = Some (s, id) /\ c = mk_cut ord s id (cut_lookup K l s).
Proof.
  unfold cut_point_at. destruct ((ord =? 0) || (nlen (msgs l) <? ord)); [intros []|].
  destruct (nth_error (msgs l) (N.to_nat (ord - 1))) as [[s id]|]; [|intros []].
  intros [<-|[]]. exists s, id. split; reflexivity.
Qed.

(* what "checkpointed, the latest such frame (by stream order) winning" means for one cut point *)
Definition latest_for (cks : list ck) (s : N) (b : ck) : Prop :=
  In b cks /\ ck_to b = s /\ forall k, In k cks -> ck_to k = s -> ck_seq k <= ck_seq b.

Lemma mk_cut_spec cks ord s id acc :
  BestInv s cks acc ->
  let c := mk_cut ord s id acc in
  (cp_done c = true <-> exists k, In k cks /\ ck_to k = s)
  /\ (forall i, cp_ck c = Some i <-> exists b, latest_for cks s b /\ ck_id b = i /\ acc = Some b)
  /\ (cp_done c = false -> cp_ck c = None).
Proof.
  intros H. cbn zeta. unfold mk_cut. cbn [cp_done cp_ck]. destruct acc as [b|]; cbn [BestInv option_map] in *.
  - destruct H as [Hi [Hm Hb]]. destruct (ck_to b =? s) eqn:E.
    + apply N.eqb_eq in E. split; [|split].
      * split; [intros _; exists b; auto | reflexivity].
      * intros i. split.
        -- intros Hc. injection Hc as <-. exists b. split; [|auto]. split; [exact Hi|]. split; [exact E|].
           intros k Hk Hs. specialize (Hb k Hk). unfold not_better in Hb. lia.
        -- intros [b' [_ [Hid Hacc]]]. injection Hacc as <-. rewrite Hid. reflexivity.
      * discriminate.
    + apply N.eqb_neq in E. split; [|split].
      * split; [discriminate|]. intros [k [Hk Hs]]. specialize (Hb k Hk). unfold not_better in Hb. lia.
      * intros i. split; [discriminate|]. intros [b' [[_ [Hs _]] [_ Hacc]]]. injection Hacc as <-. congruence.
      * reflexivity.
  - split; [|split].
    + split; [discriminate|]. intros [k [Hk Hs]]. specialize (H k Hk). lia.
    + intros i. split; [discriminate|]. intros [b' [_ [_ Hacc]]]. discriminate.
    + reflexivity.
Qed.

Lemma cut_point_at_done K l ord c :
  In c (cut_point_at K l ord) ->
  (cp_done c = true <-> exists k, In k (ckpts l) /\ ck_to k = cp_seq c).
Proof.
  intros H. apply cut_point_at_shape in H. destruct H as [s [id [_ ->]]].
  exact (proj1 (mk_cut_spec (ckpts l) ord s id _ (cut_lookup_inv K l s))).
Qed.

Theorem checkpointed_iff_ck K stride lim l c :
  In c (cut_points K stride lim l) ->
  (cp_done c = true <-> exists k, In k (ckpts l) /\ ck_to k = cp_seq c).
Proof.
  unfold cut_points. intros H. apply in_flat_map in H. destruct H as [ord [_ H]].
  eapply cut_point_at_done, H.
Qed.

Lemma in_ckpts l k :
  In k (ckpts l) <-> exists e, In e l /\ ebody e = BCkpt (ck_rule k) (ck_art k) (ck_to k) (ck_mid k)
                               /\ ck_seq k = eseq e /\ ck_id k = eid e.
Proof.
  unfold ckpts. rewrite in_flat_map. split.
  - intros [e [He Hk]]. exists e. split; [exact He|].
    destruct (ebody e); try contradiction. destruct Hk as [<-|[]]. cbn. auto.
  - intros [e [He [Hb [Hs Hi]]]]. exists e. split; [exact He|]. rewrite Hb. left.
    destruct k; cbn in *. subst. reflexivity.
Qed.

(* the property's wording: checkpointed exactly when a checkpoint frame for that seq exists *)
Theorem checkpointed_iff K stride lim l c :
  In c (cut_points K stride lim l) ->
  (cp_done c = true <-> exists e r a m, In e l /\ ebody e = BCkpt r a (cp_seq c) m).
Proof.
  intros Hc. rewrite (checkpointed_iff_ck K stride lim l c Hc). split.
  - intros [k [Hk Hs]]. apply in_ckpts in Hk. destruct Hk as [e [He [Hb _]]].
    exists e, (ck_rule k), (ck_art k), (ck_mid k). rewrite <- Hs. auto.
  - intros [e [r [a [m [He Hb]]]]].
    exists {| ck_to := cp_seq c; ck_seq := eseq e; ck_id := eid e; ck_art := a; ck_rule := r; ck_mid := m |}.
    split; [|reflexivity]. apply in_ckpts. exists e. cbn. auto.
Qed.

(* … the latest such frame (largest frame seq = latest in stream order) winning *)
Theorem checkpointed_latest_wins K stride lim l c :
  In c (cut_points K stride lim l) ->
  (forall i, cp_ck c = Some i <-> exists b, latest_for (ckpts l) (cp_seq c) b /\ ck_id b = i
                                          /\ cut_lookup K l (cp_seq c) = Some b)
  /\ (cp_done c = false -> cp_ck c = None).
Proof.
  unfold cut_points. intros H. apply in_flat_map in H. destruct H as [ord [_ H]].
  apply cut_point_at_shape in H. destruct H as [s [id [_ ->]]].
  exact (proj2 (mk_cut_spec (ckpts l) ord s id _ (cut_lookup_inv K l s))).
Qed.

(* the behaviour before the repair (bounded scan trusted even when it stopped at the event cap) *)
Definition unfixed_log : list ev :=
  [ {| eseq := 0; eid := 1; ebody := BOther |};
    {| eseq := 1; eid := 2; ebody := BMsg 0 0 |}; {| eseq := 2; eid := 3; ebody := BMsg 0 1 |};
    {| eseq := 3; eid := 4; ebody := BCkpt 0 1 1 (Some 2) |};
    {| eseq := 4; eid := 5; ebody := BCkpt 0 1 2 (Some 3) |}; {| eseq := 5; eid := 6; ebody := BCkpt 0 1 2 (Some 3) |} ].
Definition small_window : consts :=
  {| k_default_stride := 10000; k_limit_lo := 1; k_limit_hi := 32; k_plan_limit := 32;
     k_maxnew_lo := 1; k_maxnew_hi := 32; k_ck_window := 2; k_inflight_window := 512 |}.
Lemma unfixed_refuted :
  map (fun c => (cp_seq c, cp_done c)) (cut_points_unfixed small_window 1 2 unfixed_log) = [(2, true); (1, false)]
  /\ map (fun c => (cp_seq c, cp_done c)) (cut_points small_window 1 2 unfixed_log) = [(2, true); (1, true)]
  /\ In {| eseq := 3; eid := 4; ebody := BCkpt 0 1 1 (Some 2) |} unfixed_log.
Proof. split; [|split]; vm_compute; auto. Qed.

(* ---------- stride 0 ---------- *)
Theorem stride_zero_rejected K s :
  (forall lim, step K s (OCut (Some 0) lim) = (s, [1; 10]))
  /\ step K s (OStatus (Some 0)) = (s, [1; 10])
  /\ (forall mx d, step K s (OAuto (Some 0) mx d) = (s, [1; 10]))
  /\ (forall mx b e d, step K s (OSched (Some 0) mx b e d) = (s, [1; 10])).
Proof. repeat split; intros; reflexivity. Qed.

Theorem manual_stride_zero_rejected K s md art :
  msgs (log s) <> [] -> (md <> None \/ art <> None) ->
  manual K {| mr_md := md; mr_art := art; mr_to_mid := None; mr_to_seq := None; mr_stride := Some 0 |} s = (s, Err 6).
Proof.
  intros Hm Hs. unfold manual, manual_target. cbn [mr_md mr_art mr_to_mid mr_to_seq mr_stride].
  destruct (msgs (log s)) as [|x r] eqn:E; [congruence|].
  destruct md, art; try reflexivity. destruct Hs; congruence.
Qed.

(* ---------- non-vacuity ---------- *)
Definition demo_ops : list op :=
  [OMsg 0 1; OMsg 1 2; OOther; OMsg 0 3; OMsg 1 4; OMsg 0 5;
   OManual {| mr_md := Some 0; mr_art := None; mr_to_mid := None; mr_to_seq := Some 2; mr_stride := None |};
   OManual {| mr_md := Some 0; mr_art := None; mr_to_mid := None; mr_to_seq := Some 2; mr_stride := None |}].
Definition demo_log : list ev := log (fst (run_ops real_consts st0 demo_ops [])).

Lemma demo_cut_points :
  map (fun c => (cp_ord c, cp_seq c, cp_mid c, cp_done c, cp_ck c)) (cut_points real_consts 2 32 demo_log)
  = [(4, 5, 6, false, None); (2, 2, 3, true, Some 9)]
  /\ map eid (filter (fun e => match ebody e with BCkpt _ _ 2 _ => true | _ => false end) demo_log) = [8; 9].
Proof. split; vm_compute; reflexivity. Qed.
