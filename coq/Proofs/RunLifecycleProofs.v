(* C07 — proofs about Model/RunLifecycle.v *)
From RipV Require Import Base.Prelude Model.RunLifecycle.

(* ---------- small list facts ---------- *)
Lemma seqs_from_app q n m : seqs_from q (n + m) = seqs_from q n ++ seqs_from (q + N.of_nat n) m.
Proof.
  revert q; induction n as [|n IH]; intro q; cbn [seqs_from Nat.add app].
  - f_equal. lia.
  - rewrite IH. do 3 f_equal. lia.
Qed.

Lemma seqs_from_length q n : length (seqs_from q n) = n.
Proof. revert q; induction n as [|n IH]; intro q; cbn [seqs_from length]; auto. Qed.

Lemma repeat_plus {A} (x : A) n m : repeat x n ++ repeat x m = repeat x (n + m).
Proof. induction n as [|n IH]; cbn [repeat Nat.add app]; [reflexivity | now rewrite IH]. Qed.

Lemma flat_map_app' {A B} (f : A -> list B) a b : flat_map f (a ++ b) = flat_map f a ++ flat_map f b.
Proof. apply flat_map_app. Qed.

(* ---------- views distribute over ++ ---------- *)
Lemma sess_stream_app sid a b : sess_stream sid (a ++ b) = sess_stream sid a ++ sess_stream sid b.
Proof. apply flat_map_app. Qed.
Lemma conts_app a b : conts (a ++ b) = conts a ++ conts b.
Proof. apply flat_map_app. Qed.

Lemma sess_stream_cons_c sid k l : sess_stream sid (EC k :: l) = sess_stream sid l.
Proof. reflexivity. Qed.
Lemma sess_stream_cons_s sid q k l : sess_stream sid (ES sid q k :: l) = (q, k) :: sess_stream sid l.
Proof. unfold sess_stream; cbn [flat_map]. rewrite N.eqb_refl. reflexivity. Qed.

Lemma sess_stream_capp sid aok k : sess_stream sid (capp aok k) = [].
Proof. unfold capp. destruct (aok k); reflexivity. Qed.
Lemma conts_capp aok k : conts (capp aok k) = if aok k then [k] else [].
Proof. unfold capp. destruct (aok k); reflexivity. Qed.

Lemma sess_stream_side_effects sid link aok : sess_stream sid (side_effects sid link aok) = [].
Proof. unfold side_effects. destruct link; [apply sess_stream_capp | reflexivity]. Qed.

Lemma sess_stream_frames_at sid q ks :
  sess_stream sid (frames_at sid q ks) = combine (seqs_from q (length ks)) ks.
Proof.
  revert q; induction ks as [|k ks IH]; intro q; cbn [frames_at length seqs_from combine].
  - reflexivity.
  - rewrite sess_stream_cons_s, IH. reflexivity.
Qed.
Lemma conts_frames_at sid q ks : conts (frames_at sid q ks) = [].
Proof. revert q; induction ks as [|k ks IH]; intro q; cbn [frames_at conts flat_map app]; auto; try apply IH. Qed.

Lemma combine_fst {A B} (a : list A) (b : list B) : length a = length b -> map fst (combine a b) = a.
Proof.
  revert b; induction a as [|x a IH]; intros [|y b] H; cbn in *; try discriminate; auto.
  f_equal. apply IH. lia.
Qed.
Lemma combine_snd {A B} (a : list A) (b : list B) : length a = length b -> map snd (combine a b) = b.
Proof.
  revert b; induction a as [|x a IH]; intros [|y b] H; cbn in *; try discriminate; auto.
  f_equal. apply IH. lia.
Qed.

(* ---------- blocks: session frames numbered q, q+1, …, none of them a start or end frame ---------- *)
Definition mid_kinds (ks : list sk) : bool := forallb (fun k => negb (is_start_or_end k)) ks.

Definition Blk (sid q : N) (l : list ev) (q' : N) : Prop :=
  map fst (sess_stream sid l) = seqs_from q (length (sess_stream sid l))
  /\ q' = q + nlen (sess_stream sid l)
  /\ mid_kinds (map snd (sess_stream sid l)) = true.

Lemma Blk_nosess sid q l : sess_stream sid l = [] -> Blk sid q l q.
Proof. intros E. unfold Blk. rewrite E. cbn. repeat split; auto. unfold nlen; cbn; lia. Qed.

Lemma Blk_app sid q a q1 b q2 : Blk sid q a q1 -> Blk sid q1 b q2 -> Blk sid q (a ++ b) q2.
Proof.
  intros (Ha1 & Ha2 & Ha3) (Hb1 & Hb2 & Hb3). unfold Blk. rewrite sess_stream_app.
  rewrite !map_app, app_length, seqs_from_app, Ha1, Hb1. unfold nlen in *.
  repeat split.
  - f_equal. f_equal. lia.
  - rewrite app_length. lia.
  - unfold mid_kinds in *. rewrite forallb_app, Ha3, Hb3. reflexivity.
Qed.

Lemma Blk_frames_at sid q ks : mid_kinds ks = true -> Blk sid q (frames_at sid q ks) (q + nlen ks).
Proof.
  intros H. unfold Blk. rewrite sess_stream_frames_at.
  assert (L : length (seqs_from q (length ks)) = length ks) by apply seqs_from_length.
  rewrite combine_fst, combine_snd by exact L.
  repeat split; auto.
  - rewrite combine_length, L, Nat.min_id. reflexivity.
  - unfold nlen. rewrite combine_length, L, Nat.min_id. reflexivity.
Qed.

Lemma Blk_capp sid q aok k : Blk sid q (capp aok k) q.
Proof. apply Blk_nosess, sess_stream_capp. Qed.
Lemma Blk_side_effects sid q link aok : Blk sid q (side_effects sid link aok) q.
Proof. apply Blk_nosess, sess_stream_side_effects. Qed.

Lemma mid_repN k n : is_start_or_end k = false -> mid_kinds (repN k n) = true.
Proof.
  intros H. unfold repN, mid_kinds. induction (N.to_nat n) as [|m IH]; cbn [repeat forallb]; auto.
  rewrite H, IH. reflexivity.
Qed.

Lemma mid_tool_kinds t : mid_kinds (tool_kinds t) = true.
Proof.
  unfold tool_kinds, mid_kinds. rewrite forallb_app. apply andb_true_iff; split.
  - unfold auto_kinds. destruct (t_auto t =? 0); [reflexivity|]. destruct (t_auto t =? 1); reflexivity.
  - cbn [forallb is_start_or_end negb andb]. destruct (t_res t) as [| |o e|file mx]; try reflexivity.
    rewrite !forallb_app. fold (mid_kinds (repN SToolStdout o)). fold (mid_kinds (repN SToolStderr e)).
    rewrite !mid_repN by reflexivity. reflexivity.
Qed.

Lemma mid_prov_kinds pf : mid_kinds (prov_kinds pf) = true.
Proof.
  unfold mid_kinds, prov_kinds. induction pf as [|d pf IH]; cbn [flat_map forallb]; auto.
  rewrite forallb_app, IH. destruct d; reflexivity.
Qed.

Lemma mid_stream_kinds r : mid_kinds (fst (stream_kinds r)) = true.
Proof.
  destruct r as [| |hst hbody| | |pf|pf h c]; cbn [stream_kinds fst]; try reflexivity.
  - change ([SReqStarted; SHeaders; SFirstByte] ++ prov_kinds pf ++ [SProvider]) with
      (SReqStarted :: SHeaders :: SFirstByte :: (prov_kinds pf ++ [SProvider])).
    unfold mid_kinds. cbn [forallb is_start_or_end negb andb]. rewrite forallb_app.
    fold (mid_kinds (prov_kinds pf)). rewrite mid_prov_kinds. reflexivity.
  - unfold mid_kinds. cbn [app forallb is_start_or_end negb andb]. apply mid_prov_kinds.
Qed.

(* ---------- thread frames of a run between spawn and end ---------- *)
Definition only_se (sid : N) (cs : list ck) : Prop := exists n, cs = repeat (CSideEffects sid) n.

Lemma only_se_nil sid : only_se sid [].
Proof. exists 0%nat. reflexivity. Qed.
Lemma only_se_app sid a b : only_se sid a -> only_se sid b -> only_se sid (a ++ b).
Proof. intros [n ->] [m ->]. exists (n + m)%nat. apply repeat_plus. Qed.
Lemma only_se_side_effects sid link aok : only_se sid (conts (side_effects sid link aok)).
Proof.
  unfold side_effects. destruct link; [|apply only_se_nil]. rewrite conts_capp.
  destruct (aok _); [exists 1%nat; reflexivity | apply only_se_nil].
Qed.

(* ---------- run_calls / agent_loop ---------- *)
Ltac inv4 H := injection H as ? ? ? ?; subst.

Lemma run_calls_blk sid link aok calls : forall count seq evs seq' count' ex,
  run_calls sid link aok calls count seq = (evs, seq', count', ex) ->
  Blk sid seq evs seq' /\ only_se sid (conts evs).
Proof.
  induction calls as [|c rest IH]; intros count seq evs seq' count' ex H; cbn [run_calls] in H.
  - inv4 H. split; [apply Blk_nosess; reflexivity | apply only_se_nil].
  - destruct (MAX_TOOL_CALLS <=? count).
    + inv4 H. split; [apply Blk_nosess; reflexivity | apply only_se_nil].
    + set (ks := if c_allowed c then tool_kinds (c_tool c) else rejected_kinds) in *.
      set (se := if c_allowed c && c_lock c then side_effects sid link aok else []) in *.
      destruct (run_calls sid link aok rest (count + 1) (seq + nlen ks)) as [[[evs1 s1] c1] e1] eqn:E.
      inv4 H. destruct (IH _ _ _ _ _ _ E) as [B1 S1].
      assert (Mk : mid_kinds ks = true).
      { unfold ks. destruct (c_allowed c); [apply mid_tool_kinds | reflexivity]. }
      split.
      * eapply Blk_app; [apply Blk_frames_at, Mk|]. eapply Blk_app; [|exact B1].
        unfold se. destruct (c_allowed c && c_lock c); [apply Blk_side_effects | apply Blk_nosess; reflexivity].
      * rewrite !conts_app, conts_frames_at. cbn [app]. apply only_se_app; [|exact S1].
        unfold se. destruct (c_allowed c && c_lock c); [apply only_se_side_effects | apply only_se_nil].
Qed.

Lemma agent_loop_blk sid link aok st reqs : forall count seq prev fu evs seq' reason p,
  agent_loop sid link aok st reqs count seq prev fu = (evs, seq', reason, p) ->
  Blk sid seq evs seq' /\ only_se sid (conts evs).
Proof.
  induction reqs as [|r rest IH]; intros count seq prev fu evs seq' reason p H; cbn [agent_loop] in H.
  - destruct (MAX_TOOL_CALLS <=? count).
    { inv4 H. split; [apply Blk_nosess; reflexivity | apply only_se_nil]. }
    destruct (fu && negb st && negb prev).
    { inv4 H. split; [apply Blk_nosess; reflexivity | apply only_se_nil]. }
    inv4 H.
    split; [apply (Blk_frames_at sid seq (fst (stream_kinds (RHttpErr [] [])))); reflexivity | exists 0%nat; reflexivity].
  - destruct (MAX_TOOL_CALLS <=? count).
    { inv4 H. split; [apply Blk_nosess; reflexivity | apply only_se_nil]. }
    destruct (fu && negb st && negb prev).
    { inv4 H. split; [apply Blk_nosess; reflexivity | apply only_se_nil]. }
    remember (fst (stream_kinds r)) as ks eqn:Eks.
    assert (Mk : mid_kinds ks = true) by (subst ks; apply mid_stream_kinds). clear Eks.
    assert (B0 : Blk sid seq (frames_at sid seq ks) (seq + nlen ks)) by apply Blk_frames_at, Mk.
    assert (S0 : only_se sid (conts (frames_at sid seq ks))) by (rewrite conts_frames_at; apply only_se_nil).
    destruct r as [| |hst hbody| | |pf|pf hid calls]; try (inv4 H; split; assumption).
    destruct calls as [|c calls].
    { inv4 H. split; assumption. }
    destruct (negb (hid || prev) && negb st).
    { inv4 H. split; assumption. }
    destruct (run_calls sid link aok (c :: calls) count (seq + nlen ks)) as [[[evs1 s2] c'] ex] eqn:E1.
    destruct (run_calls_blk _ _ _ _ _ _ _ _ _ _ E1) as [B1 S1].
    destruct ex.
    { inv4 H. split; [eapply Blk_app; eassumption | rewrite conts_app; apply only_se_app; assumption]. }
    destruct (agent_loop sid link aok st rest c' s2 (hid || prev) true) as [[[evs2 s3] r2] p2] eqn:E2.
    destruct (IH _ _ _ _ _ _ _ _ E2) as [B2 S2].
    inv4 H. split.
    + eapply Blk_app; [exact B0|]. eapply Blk_app; eassumption.
    + rewrite !conts_app. apply only_se_app; [exact S0|]. apply only_se_app; assumption.
Qed.

(* ---------- run_body: pre ++ [end frame] ---------- *)
Definition SelOk (aok : ck -> bool) (sid : N) (link : option N) (sel : list ck) : Prop :=
  sel = [] \/ exists mid, link = Some mid /\ sel = conts (capp aok (CSelection sid mid) ++ capp aok (CCompiled sid)).
Definition CurOk (sid : N) (cur : list ck) : Prop := cur = [] \/ cur = [CCursor sid].

Lemma run_body_struct g sid link aok inp :
  exists pre q r,
    run_body g sid link aok inp = pre ++ [ES sid q (SEnded r)]
    /\ Blk sid 1 pre q
    /\ exists sel n cur, conts pre = sel ++ repeat (CSideEffects sid) n ++ cur
                         /\ SelOk aok sid link sel /\ CurOk sid cur.
Proof.
  destruct inp as [cok reqs | lock t | r]; unfold run_body; cbn [run_body_with].
  - (* prompt *)
    destruct (g_provider g); cbn [negb].
    2:{ exists [ES sid 1 SOutput], 2, R_COMPLETED. split; [reflexivity|]. split.
        - apply (Blk_frames_at sid 1 [SOutput]). reflexivity.
        - exists [], 0%nat, []. repeat split; [left|left]; reflexivity. }
    assert (Main : forall selevs, sess_stream sid selevs = [] -> SelOk aok sid link (conts selevs) ->
      exists pre q r,
        selevs ++ (let '(evs, seq, reason, prev) := agent_loop sid link aok (g_stateless g) reqs 0 1 false false in
                   evs ++ (if (reason =? R_COMPLETED) && prev
                           then match link with Some _ => capp aok (CCursor sid) | None => [] end else [])
                   ++ [ES sid seq (SEnded reason)]) = pre ++ [ES sid q (SEnded r)]
        /\ Blk sid 1 pre q
        /\ exists sel n cur, conts pre = sel ++ repeat (CSideEffects sid) n ++ cur
                             /\ SelOk aok sid link sel /\ CurOk sid cur).
    { intros selevs Hs Hsel.
      destruct (agent_loop sid link aok (g_stateless g) reqs 0 1 false false) as [[[evs seq] reason] prev] eqn:E.
      destruct (agent_loop_blk _ _ _ _ _ _ _ _ _ _ _ _ _ E) as [B [n Sn]].
      set (cur := if (reason =? R_COMPLETED) && prev
                  then match link with Some _ => capp aok (CCursor sid) | None => [] end else []).
      exists (selevs ++ evs ++ cur), seq, reason. split; [now rewrite <- !app_assoc|]. split.
      - eapply Blk_app; [apply Blk_nosess, Hs|]. eapply Blk_app; [exact B|].
        apply Blk_nosess. unfold cur. destruct ((reason =? R_COMPLETED) && prev); [|reflexivity].
        destruct link; [apply sess_stream_capp | reflexivity].
      - exists (conts selevs), n, (conts cur). rewrite !conts_app, Sn. split; [reflexivity|]. split; [exact Hsel|].
        unfold cur, CurOk. destruct ((reason =? R_COMPLETED) && prev); [|left; reflexivity].
        destruct link; [|left; reflexivity]. rewrite conts_capp. destruct (aok _); [right|left]; reflexivity. }
    destruct link as [mid|].
    + destruct cok.
      * apply Main.
        -- rewrite sess_stream_app, !sess_stream_capp. reflexivity.
        -- right. exists mid. split; reflexivity.
      * exists [], 1, R_COMPILE_FAILED. split; [reflexivity|]. split; [apply Blk_nosess; reflexivity|].
        exists [], 0%nat, []. repeat split; [left|left]; reflexivity.
    + assert (M := Main [] eq_refl (or_introl eq_refl)). cbn [app] in M. destruct cok; exact M.
  - (* tool envelope *)
    set (ks := tool_kinds t).
    exists (frames_at sid 1 ks ++ (if lock then side_effects sid link aok else []) ++ [ES sid (1 + nlen ks) SOutput]),
      (1 + nlen ks + 1), R_COMPLETED.
    split; [unfold runtime_tail; cbn [frames_at]; now rewrite <- !app_assoc|]. split.
    + eapply Blk_app; [apply Blk_frames_at, mid_tool_kinds|]. eapply Blk_app.
      * destruct lock; [apply Blk_side_effects | apply Blk_nosess; reflexivity].
      * apply (Blk_frames_at sid (1 + nlen ks) [SOutput]). reflexivity.
    + rewrite !conts_app, conts_frames_at. cbn [app conts flat_map]. rewrite app_nil_r.
      assert (S : only_se sid (conts (if lock then side_effects sid link aok else []))).
      { destruct lock; [apply only_se_side_effects | apply only_se_nil]. }
      destruct S as [n Sn]. exists [], n, []. rewrite Sn, app_nil_r. repeat split; [left|left]; reflexivity.
  - (* checkpoint envelope *)
    exists [ES sid 1 (ck_kind r); ES sid 2 SOutput], 3, R_COMPLETED. split; [reflexivity|]. split.
    + apply (Blk_frames_at sid 1 [ck_kind r; SOutput]). destruct r; reflexivity.
    + exists [], 0%nat, []. repeat split; [left|left]; reflexivity.
Qed.

Lemma last_reason_from_end sid pre q r acc : last_reason_from sid (pre ++ [ES sid q (SEnded r)]) acc = r.
Proof.
  revert acc; induction pre as [|e pre IH]; intro acc; cbn [app last_reason_from].
  - rewrite N.eqb_refl. reflexivity.
  - destruct e as [s q0 k|k]; [destruct k|]; apply IH.
Qed.

(* the whole run: start frame, body, end frame, then (linked) the thread's run_ended carrying the
   reason of that very end frame *)
Lemma run_session_struct g sid link aok inp :
  exists pre q r,
    run_session g sid link aok inp
    = ES sid 0 SStarted :: pre ++ ES sid q (SEnded r)
        :: match link with Some mid => capp aok (CRunEnded sid mid r) | None => [] end
    /\ Blk sid 1 pre q
    /\ exists sel n cur, conts pre = sel ++ repeat (CSideEffects sid) n ++ cur
                         /\ SelOk aok sid link sel /\ CurOk sid cur.
Proof.
  destruct (run_body_struct g sid link aok inp) as (pre & q & r & E & B & C).
  exists pre, q, r. split; [|split; assumption].
  unfold run_session. rewrite E.
  replace (last_reason sid (ES sid 0 SStarted :: pre ++ [ES sid q (SEnded r)])) with r.
  2:{ unfold last_reason. cbn [last_reason_from]. symmetry. apply last_reason_from_end. }
  cbn [app]. rewrite <- app_assoc. reflexivity.
Qed.

(* ---------- session shape of one run ---------- *)
Lemma run_session_shape g sid link aok inp : SessionShape (sess_stream sid (run_session g sid link aok inp)).
Proof.
  destruct (run_session_struct g sid link aok inp) as (pre & q & r & E & (B1 & B2 & B3) & _).
  rewrite E. rewrite sess_stream_cons_s, sess_stream_app, sess_stream_cons_s.
  assert (T : sess_stream sid (match link with Some mid => capp aok (CRunEnded sid mid r) | None => [] end) = []).
  { destruct link; [apply sess_stream_capp | reflexivity]. }
  rewrite T. exists (map snd (sess_stream sid pre)), r. repeat split.
  - cbn [map snd]. rewrite map_app. reflexivity.
  - exact B3.
  - cbn [map fst length seqs_from]. f_equal. rewrite map_app, app_length. cbn [map fst length].
    rewrite seqs_from_app, B1. cbn [seqs_from]. do 2 f_equal. unfold nlen in B2. lia.
Qed.

(* ---------- ownership ---------- *)
Definition owned (sid : N) (l : list ev) : Prop := Forall (fun e => ev_run e = Some sid) l.

Lemma owned_app sid a b : owned sid a -> owned sid b -> owned sid (a ++ b).
Proof. intros A B. apply Forall_app. split; assumption. Qed.
Lemma owned_frames_at sid q ks : owned sid (frames_at sid q ks).
Proof. revert q; induction ks as [|k ks IH]; intro q; cbn [frames_at]; constructor; auto. apply IH. Qed.
Lemma owned_side_effects sid link aok : owned sid (side_effects sid link aok).
Proof.
  unfold side_effects, capp. destruct link; [|constructor]. destruct (aok _); repeat constructor.
Qed.

Lemma run_calls_owned sid link aok calls : forall count seq evs seq' count' ex,
  run_calls sid link aok calls count seq = (evs, seq', count', ex) -> owned sid evs.
Proof.
  induction calls as [|c rest IH]; intros count seq evs seq' count' ex H; cbn [run_calls] in H.
  - inv4 H; constructor.
  - destruct (MAX_TOOL_CALLS <=? count); [inv4 H; constructor|].
    destruct (run_calls sid link aok rest _ _) as [[[evs1 s1] c1] e1] eqn:E. inv4 H.
    apply owned_app; [apply owned_frames_at|]. apply owned_app; [|eapply IH; eassumption].
    destruct (c_allowed c && c_lock c); [apply owned_side_effects | constructor].
Qed.

Lemma agent_loop_owned sid link aok st reqs : forall count seq prev fu evs seq' reason p,
  agent_loop sid link aok st reqs count seq prev fu = (evs, seq', reason, p) -> owned sid evs.
Proof.
  induction reqs as [|r rest IH]; intros count seq prev fu evs seq' reason p H; cbn [agent_loop] in H.
  - destruct (MAX_TOOL_CALLS <=? count); [inv4 H; constructor|].
    destruct (fu && negb st && negb prev); [inv4 H; constructor|].
    inv4 H. apply (owned_frames_at sid seq (fst (stream_kinds (RHttpErr [] [])))).
  - destruct (MAX_TOOL_CALLS <=? count); [inv4 H; constructor|].
    destruct (fu && negb st && negb prev); [inv4 H; constructor|].
    remember (fst (stream_kinds r)) as ks eqn:Eks. clear Eks.
    destruct r as [| |hst hbody| | |pf|pf hid calls]; try (inv4 H; apply owned_frames_at).
    destruct calls as [|c calls]; [inv4 H; apply owned_frames_at|].
    destruct (negb (hid || prev) && negb st); [inv4 H; apply owned_frames_at|].
    destruct (run_calls sid link aok (c :: calls) count _) as [[[evs1 s2] c'] ex] eqn:E1.
    pose proof (run_calls_owned _ _ _ _ _ _ _ _ _ _ E1) as O1.
    destruct ex; [inv4 H; apply owned_app; [apply owned_frames_at | exact O1]|].
    destruct (agent_loop sid link aok st rest c' s2 (hid || prev) true) as [[[evs2 s3] r2] p2] eqn:E2.
    inv4 H. apply owned_app; [apply owned_frames_at|]. apply owned_app; [exact O1|].
    eapply IH; eassumption.
Qed.

Lemma owned_capp sid aok k : ck_run k = Some sid -> owned sid (capp aok k).
Proof. intros H. unfold capp. destruct (aok k); repeat constructor. exact H. Qed.

Lemma run_session_owned g sid link aok inp : owned sid (run_session g sid link aok inp).
Proof.
  unfold run_session. apply owned_app.
  - constructor; [reflexivity|].
    destruct inp as [cok reqs | lock t | r]; unfold run_body; cbn [run_body_with].
    + destruct (g_provider g); cbn [negb]; [|apply owned_frames_at].
      assert (A : owned sid
        (let '(evs, seq, reason, prev) := agent_loop sid link aok (g_stateless g) reqs 0 1 false false in
         evs ++ (if (reason =? R_COMPLETED) && prev
                 then match link with Some _ => capp aok (CCursor sid) | None => [] end else [])
         ++ [ES sid seq (SEnded reason)])).
      { destruct (agent_loop sid link aok (g_stateless g) reqs 0 1 false false) as [[[evs seq] reason] prev] eqn:E.
        apply owned_app; [eapply agent_loop_owned; eassumption|]. apply owned_app; [|repeat constructor].
        destruct ((reason =? R_COMPLETED) && prev); [|constructor].
        destruct link; [apply owned_capp; reflexivity | constructor]. }
      destruct link as [mid|]; [destruct cok|].
      * apply owned_app; [|exact A]. apply owned_app; apply owned_capp; reflexivity.
      * repeat constructor.
      * destruct cok; cbn [app]; exact A.
    + apply owned_app; [apply owned_frames_at|]. apply owned_app; [|apply owned_frames_at].
      destruct lock; [apply owned_side_effects | constructor].
    + apply owned_app; apply owned_frames_at.
  - destruct link; [apply owned_capp; reflexivity | constructor].
Qed.

Lemma filter_owned_same sid l : owned sid l -> filter (of_run sid) l = l.
Proof.
  induction 1 as [|e l He _ IH]; cbn [filter]; auto. unfold of_run at 1. rewrite He, N.eqb_refl, IH. reflexivity.
Qed.
Lemma filter_owned_other sid s' l : owned s' l -> s' <> sid -> filter (of_run sid) l = [].
Proof.
  intros O Hne. induction O as [|e l He _ IH]; cbn [filter]; auto. unfold of_run at 1. rewrite He.
  destruct (s' =? sid) eqn:E; [apply N.eqb_eq in E; contradiction | exact IH].
Qed.

(* ---------- merging and interleaving ---------- *)
Lemma merge_filter p a b l : Merge a b l -> Merge (filter p a) (filter p b) (filter p l).
Proof.
  induction 1 as [|x a b l _ IH|x a b l _ IH]; cbn [filter]; [constructor| |]; destruct (p x); try constructor; exact IH.
Qed.
Lemma merge_nil_r a l : Merge a [] l -> l = a.
Proof.
  remember [] as b eqn:Eb. induction 1 as [|x a b l _ IH|x a b l _ IH]; auto; [f_equal; auto | discriminate].
Qed.
Lemma merge_nil_l b l : Merge [] b l -> l = b.
Proof.
  remember [] as a eqn:Ea. induction 1 as [|x a b l _ IH|x a b l _ IH]; auto; [discriminate | f_equal; auto].
Qed.

Lemma interleave_filter_none p ls l :
  Interleave ls l -> Forall (fun a => filter p a = []) ls -> filter p l = [].
Proof.
  induction 1 as [|a ls m l _ IH M]; intros F; [reflexivity|].
  inversion F as [|? ? Fa Fr]; subst. apply (merge_filter p) in M. rewrite Fa, (IH Fr) in M.
  apply merge_nil_r in M. exact M.
Qed.

(* the projection of an interleaving on a predicate that only one component satisfies *)
Lemma interleave_proj p ls l : Interleave ls l -> forall pre a post,
  ls = pre ++ a :: post ->
  Forall (fun b => filter p b = []) pre -> Forall (fun b => filter p b = []) post ->
  filter p l = filter p a.
Proof.
  induction 1 as [|a0 ls m l I IH M]; intros pre a post E Fpre Fpost.
  - destruct pre; discriminate.
  - apply (merge_filter p) in M. destruct pre as [|b pre]; cbn [app] in E; inversion E; subst.
    + rewrite (interleave_filter_none p _ _ I Fpost) in M. apply merge_nil_r in M. exact M.
    + inversion Fpre as [|? ? Fb Fr]; subst. rewrite Fb in M. apply merge_nil_l in M. rewrite M.
      eapply IH; [reflexivity | exact Fr | exact Fpost].
Qed.

Lemma sess_stream_filter sid l : sess_stream sid (filter (of_run sid) l) = sess_stream sid l.
Proof.
  induction l as [|e l IH]; [reflexivity|]. cbn [filter]. destruct e as [s q k|k].
  - unfold of_run at 1; cbn [ev_run]. unfold sess_stream at 2; cbn [flat_map]. destruct (s =? sid) eqn:E.
    + unfold sess_stream at 1; cbn [flat_map]. rewrite E. cbn [app]. f_equal. exact IH.
    + cbn [app]. exact IH.
  - rewrite sess_stream_cons_c. destruct (of_run sid (EC k)); [rewrite sess_stream_cons_c|]; exact IH.
Qed.

(* ---------- what each activity contributes to a projection ---------- *)
Lemma nodup_app_disjoint {A} (u v : list A) x : NoDup (u ++ v) -> In x u -> In x v -> False.
Proof.
  induction u as [|y u IH]; cbn [app In]; intros ND Hu Hv; [contradiction|].
  inversion ND as [|? ? Hn ND']; subst. destruct Hu as [->|Hu]; [apply Hn, in_or_app; right; exact Hv | eauto].
Qed.
Lemma nodup_app_r {A} (u v : list A) : NoDup (u ++ v) -> NoDup v.
Proof. induction u as [|y u IH]; cbn [app]; intros ND; [exact ND|]. inversion ND; auto. Qed.

Lemma nodup_flat_map_split {A} (f : A -> list N) pre a post x :
  NoDup (flat_map f (pre ++ a :: post)) -> In x (f a) ->
  Forall (fun b => ~ In x (f b)) pre /\ Forall (fun b => ~ In x (f b)) post.
Proof.
  rewrite flat_map_app. cbn [flat_map]. intros ND Hx. split; apply Forall_forall; intros b Hb Hin.
  - apply (nodup_app_disjoint _ _ x ND); [apply in_flat_map; eauto | apply in_or_app; left; exact Hx].
  - apply nodup_app_r in ND. apply (nodup_app_disjoint _ _ x ND Hx). apply in_flat_map; eauto.
Qed.

Lemma job_run_noowner aok j o : Forall (fun e => ev_run e = None) (job_run aok j o).
Proof.
  destruct o as [|n|n]; cbn [job_run]; [constructor| |]; apply Forall_app; split;
    try (unfold repN; induction (N.to_nat n); cbn [repeat]; constructor; auto);
    unfold capp; destruct (aok _); repeat constructor.
Qed.

Lemma filter_noowner sid l : Forall (fun e => ev_run e = None) l -> filter (of_run sid) l = [].
Proof. induction 1 as [|e l He _ IH]; cbn [filter]; auto. unfold of_run at 1. rewrite He. exact IH. Qed.

Lemma act_events_other_run aok a sid : ~ In sid (act_sids a) -> filter (of_run sid) (act_events aok a) = [].
Proof.
  intros Hn. destruct a as [g mid s inp | g s inp | j o]; cbn [act_events act_sids In] in *.
  - assert (Hs : s <> sid) by tauto. unfold post_message.
    destruct (aok (CMessage mid)); [|reflexivity]. cbn [filter of_run ev_run ck_run].
    destruct (aok (CRunSpawned s mid)); [|reflexivity]. cbn [filter]. unfold of_run at 1; cbn [ev_run ck_run].
    destruct (s =? sid) eqn:E; [apply N.eqb_eq in E; contradiction|].
    apply (filter_owned_other sid s); [apply run_session_owned | exact Hs].
  - assert (Hs : s <> sid) by tauto. apply (filter_owned_other sid s); [apply run_session_owned | exact Hs].
  - unfold job. destruct (aok (CJobSpawned j)); [|reflexivity]. cbn [filter of_run ev_run ck_run].
    apply filter_noowner, job_run_noowner.
Qed.

(* the log of a store, projected on one started run, is that run's own event list *)
Lemma run_projection aok acts l a sid :
  WfActs acts -> Interleave (map (act_events aok) acts) l -> In a acts -> In sid (act_sids a) ->
  filter (of_run sid) l = filter (of_run sid) (act_events aok a).
Proof.
  intros (NDs & _ & _) I Ha Hs. apply in_split in Ha as (pre & post & ->).
  destruct (nodup_flat_map_split act_sids pre a post sid NDs Hs) as [Fp Fq].
  rewrite map_app in I. cbn [map] in I.
  eapply interleave_proj; [exact I | reflexivity | |]; apply Forall_map;
    [eapply Forall_impl; [|exact Fp] | eapply Forall_impl; [|exact Fq]]; intros b Hb; apply act_events_other_run, Hb.
Qed.

(* ---------- thread frames written by a run ---------- *)
Definition pre_ck (sid : N) (k : ck) : bool :=
  match k with
  | CSelection r _ | CCompiled r | CSideEffects r | CCursor r => r =? sid
  | _ => false
  end.

Definition run_tail (sid : N) (link : option N) (aok : ck -> bool) (r : N) : list ev :=
  match link with Some mid => capp aok (CRunEnded sid mid r) | None => [] end.

Lemma conts_cons_s sid q k l : conts (ES sid q k :: l) = conts l.
Proof. reflexivity. Qed.
Lemma conts_cons_c k l : conts (EC k :: l) = k :: conts l.
Proof. reflexivity. Qed.

Lemma forallb_repeat {A} (p : A -> bool) x n : p x = true -> forallb p (repeat x n) = true.
Proof. intros H. induction n; cbn [repeat forallb]; auto. rewrite H; auto. Qed.

Lemma run_session_conts g sid link aok inp :
  exists pre q r,
    run_session g sid link aok inp = ES sid 0 SStarted :: pre ++ ES sid q (SEnded r) :: run_tail sid link aok r
    /\ forallb (pre_ck sid) (conts pre) = true.
Proof.
  destruct (run_session_struct g sid link aok inp) as (pre & q & r & E & _ & sel & n & cur & C & Hsel & Hcur).
  exists pre, q, r. split; [exact E|]. rewrite C, !forallb_app.
  rewrite (forallb_repeat (pre_ck sid)) by (cbn [pre_ck]; apply N.eqb_refl).
  assert (S : forallb (pre_ck sid) sel = true).
  { destruct Hsel as [->|(mid & _ & ->)]; [reflexivity|]. rewrite conts_app, !conts_capp.
    destruct (aok (CSelection sid mid)), (aok (CCompiled sid)); cbn [app forallb pre_ck]; rewrite ?N.eqb_refl; reflexivity. }
  assert (U : forallb (pre_ck sid) cur = true).
  { destruct Hcur as [->| ->]; cbn [forallb pre_ck]; rewrite ?N.eqb_refl; reflexivity. }
  rewrite S, U. reflexivity.
Qed.

Lemma count_conts p l : length (filter (ckp p) l) = length (filter p (conts l)).
Proof.
  induction l as [|e l IH]; [reflexivity|]. destruct e as [s q k|k]; cbn [filter ckp].
  - rewrite conts_cons_s. exact IH.
  - rewrite conts_cons_c. cbn [filter]. destruct (p k); cbn [length]; rewrite IH; reflexivity.
Qed.

Lemma filter_none {A} (p q : A -> bool) l :
  (forall x, q x = true -> p x = false) -> forallb q l = true -> filter p l = [].
Proof.
  intros H. induction l as [|x l IH]; cbn [forallb filter]; intros F; [reflexivity|].
  apply andb_true_iff in F as [F1 F2]. rewrite (H _ F1). auto.
Qed.

Lemma filter_ckp_nil p l : filter p (conts l) = [] -> filter (ckp p) l = [].
Proof. intros H. apply length_zero_iff_nil. rewrite count_conts, H. reflexivity. Qed.

(* a predicate on thread frames that no body frame of run `sid` satisfies sees only the run_ended *)
Lemma run_session_filter p g sid link aok inp :
  (forall k, pre_ck sid k = true -> p k = false) ->
  exists r, filter p (conts (run_session g sid link aok inp)) = filter p (conts (run_tail sid link aok r)).
Proof.
  intros Hp. destruct (run_session_conts g sid link aok inp) as (pre & q & r & E & F).
  exists r. rewrite E, conts_cons_s, conts_app, conts_cons_s, filter_app.
  rewrite (filter_none p (pre_ck sid) _ Hp F). reflexivity.
Qed.

(* ---------- the theorems ---------- *)
Lemma act_events_own_run aok a sid :
  In sid (act_sids a) -> act_started aok a = true ->
  exists g link inp,
    filter (of_run sid) (act_events aok a)
    = match link with Some mid => [EC (CRunSpawned sid mid)] | None => [] end ++ run_session g sid link aok inp
    /\ match a with
       | APost g' mid s inp' => g' = g /\ link = Some mid /\ s = sid /\ inp' = inp
       | AInput g' s inp' => g' = g /\ link = None /\ s = sid /\ inp' = inp
       | AJob _ _ => False
       end.
Proof.
  intros Hs St. destruct a as [g mid s inp | g s inp | j o]; cbn [act_sids In act_started] in *; try discriminate.
  - destruct Hs as [<-|[]]. apply andb_true_iff in St as [S1 S2].
    exists g, (Some mid), inp. split; [|auto]. cbn [act_events]. unfold post_message. rewrite S1, S2.
    assert (F1 : of_run s (EC (CMessage mid)) = false) by reflexivity.
    assert (F2 : of_run s (EC (CRunSpawned s mid)) = true) by (unfold of_run; cbn [ev_run ck_run]; apply N.eqb_refl).
    cbn [filter]. rewrite F1, F2. cbn [app]. f_equal.
    apply filter_owned_same, run_session_owned.
  - destruct Hs as [<-|[]]. exists g, None, inp. split; [|auto]. cbn [act_events app].
    apply filter_owned_same, run_session_owned.
Qed.

Theorem session_shape aok acts l a sid :
  WfActs acts -> Interleave (map (act_events aok) acts) l ->
  In a acts -> In sid (act_sids a) -> act_started aok a = true ->
  SessionShape (sess_stream sid l).
Proof.
  intros W I Ha Hs St. rewrite <- sess_stream_filter, (run_projection aok acts l a sid W I Ha Hs).
  destruct (act_events_own_run aok a sid Hs St) as (g & link & inp & E & _). rewrite E.
  rewrite sess_stream_app. destruct link; cbn [sess_stream flat_map app]; apply run_session_shape.
Qed.

(* the log projected on a linked run *)
Theorem thread_order aok acts l g mid sid inp :
  WfActs acts -> Interleave (map (act_events aok) acts) l -> In (APost g mid sid inp) acts ->
  (forall k, aok k = true) ->
  exists pre q r,
    filter (of_run sid) l
    = EC (CRunSpawned sid mid) :: ES sid 0 SStarted :: pre ++ [ES sid q (SEnded r); EC (CRunEnded sid mid r)]
    /\ mid_kinds (map snd (sess_stream sid pre)) = true
    /\ ThreadShape sid mid (conts (filter (of_run sid) l)) r.
Proof.
  intros W I Ha Ok.
  assert (Hs : In sid (act_sids (APost g mid sid inp))) by (left; reflexivity).
  assert (St : act_started aok (APost g mid sid inp) = true) by (cbn [act_started]; rewrite !Ok; reflexivity).
  rewrite (run_projection aok acts l _ sid W I Ha Hs).
  destruct (act_events_own_run aok _ sid Hs St) as (g' & link & inp' & E & <- & -> & _ & <-). rewrite E. clear E.
  destruct (run_session_struct g sid (Some mid) aok inp) as (pre & q & r & E & (_ & _ & B3) & sel & n & cur & C & Hsel & Hcur).
  rewrite E. unfold capp. rewrite Ok. exists pre, q, r. split; [reflexivity|]. split; [exact B3|].
  cbn [app]. rewrite conts_cons_c, conts_cons_s, conts_app. cbn [conts flat_map app]. rewrite C.
  exists sel, n, cur. split; [now rewrite <- !app_assoc|]. split; [|exact Hcur].
  destruct Hsel as [->|(m & Hm & ->)]; [left; reflexivity|]. right. inversion Hm; subst.
  unfold capp. rewrite !Ok. reflexivity.
Qed.

(* ---------- failing appends delete exactly the failed thread frames; nothing else of a run changes ---------- *)
Lemma keeps_frames_at aok sid q ks : filter (keeps aok) (frames_at sid q ks) = frames_at sid q ks.
Proof. revert q; induction ks as [|k ks IH]; intro q; cbn [frames_at filter keeps]; [reflexivity | now rewrite IH]. Qed.
Lemma keeps_capp aok k : capp aok k = filter (keeps aok) (capp all_ok k).
Proof. unfold capp, all_ok. cbn [filter keeps]. destruct (aok k); reflexivity. Qed.
Lemma keeps_side_effects aok sid link : side_effects sid link aok = filter (keeps aok) (side_effects sid link all_ok).
Proof. unfold side_effects. destruct link; [apply keeps_capp | reflexivity]. Qed.

Lemma run_calls_keeps sid link aok calls : forall count seq,
  run_calls sid link aok calls count seq
  = let '(evs, s, c, ex) := run_calls sid link all_ok calls count seq in (filter (keeps aok) evs, s, c, ex).
Proof.
  induction calls as [|c rest IH]; intros count seq; cbn [run_calls]; [reflexivity|].
  destruct (MAX_TOOL_CALLS <=? count); [reflexivity|]. rewrite IH.
  destruct (run_calls sid link all_ok rest _ _) as [[[evs1 s1] c1] e1].
  rewrite !filter_app, keeps_frames_at.
  assert (SE : (if c_allowed c && c_lock c then side_effects sid link aok else [])
               = filter (keeps aok) (if c_allowed c && c_lock c then side_effects sid link all_ok else [])).
  { destruct (c_allowed c && c_lock c); [apply keeps_side_effects | reflexivity]. }
  rewrite SE. reflexivity.
Qed.

Lemma agent_loop_keeps sid link aok st reqs : forall count seq prev fu,
  agent_loop sid link aok st reqs count seq prev fu
  = let '(evs, s, r, p) := agent_loop sid link all_ok st reqs count seq prev fu in (filter (keeps aok) evs, s, r, p).
Proof.
  induction reqs as [|r rest IH]; intros count seq prev fu; cbn [agent_loop].
  - destruct (MAX_TOOL_CALLS <=? count); [reflexivity|]. destruct (fu && negb st && negb prev); [reflexivity|].
    cbv zeta. rewrite keeps_frames_at. reflexivity.
  - destruct (MAX_TOOL_CALLS <=? count); [reflexivity|]. destruct (fu && negb st && negb prev); [reflexivity|].
    cbv zeta.
    destruct r as [| |hst hbody| | |pf|pf hid calls]; try (rewrite keeps_frames_at; reflexivity).
    destruct calls as [|c calls]; [rewrite keeps_frames_at; reflexivity|].
    destruct (negb (hid || prev) && negb st); [rewrite keeps_frames_at; reflexivity|].
    rewrite run_calls_keeps.
    destruct (run_calls sid link all_ok (c :: calls) count _) as [[[evs1 s2] c'] ex].
    destruct ex; [rewrite filter_app, keeps_frames_at; reflexivity|].
    rewrite IH. destruct (agent_loop sid link all_ok st rest c' s2 (hid || prev) true) as [[[evs2 s3] r2] p2].
    rewrite !filter_app, keeps_frames_at. reflexivity.
Qed.

Lemma last_reason_keeps aok sid l : forall acc, last_reason_from sid (filter (keeps aok) l) acc = last_reason_from sid l acc.
Proof.
  induction l as [|e l IH]; intro acc; [reflexivity|]. destruct e as [s q k|k]; cbn [filter keeps].
  - destruct k; cbn [last_reason_from]; apply IH.
  - destruct (aok k); cbn [last_reason_from]; apply IH.
Qed.

Lemma run_body_keeps g sid link aok inp :
  run_body g sid link aok inp = filter (keeps aok) (run_body g sid link all_ok inp).
Proof.
  destruct inp as [cok reqs | lock t | r]; unfold run_body; cbn [run_body_with].
  - destruct (g_provider g); cbn [negb]; [|unfold runtime_tail; now rewrite keeps_frames_at].
    assert (A : (let '(evs, seq, reason, prev) := agent_loop sid link aok (g_stateless g) reqs 0 1 false false in
                 evs ++ (if (reason =? R_COMPLETED) && prev
                         then match link with Some _ => capp aok (CCursor sid) | None => [] end else [])
                 ++ [ES sid seq (SEnded reason)])
                = filter (keeps aok)
                    (let '(evs, seq, reason, prev) := agent_loop sid link all_ok (g_stateless g) reqs 0 1 false false in
                     evs ++ (if (reason =? R_COMPLETED) && prev
                             then match link with Some _ => capp all_ok (CCursor sid) | None => [] end else [])
                     ++ [ES sid seq (SEnded reason)])).
    { rewrite agent_loop_keeps.
      destruct (agent_loop sid link all_ok (g_stateless g) reqs 0 1 false false) as [[[evs seq] reason] prev].
      rewrite !filter_app. cbn [filter keeps]. do 2 f_equal.
      destruct ((reason =? R_COMPLETED) && prev); [|reflexivity]. destruct link; [apply keeps_capp | reflexivity]. }
    destruct link as [mid|]; [destruct cok|].
    + rewrite A, !filter_app, <- !keeps_capp. reflexivity.
    + reflexivity.
    + destruct cok; cbn [app]; exact A.
  - rewrite !filter_app, keeps_frames_at. unfold runtime_tail. rewrite keeps_frames_at. do 2 f_equal.
    destruct lock; [apply keeps_side_effects | reflexivity].
  - rewrite filter_app. unfold runtime_tail. rewrite !keeps_frames_at. reflexivity.
Qed.

Theorem run_session_keeps g sid link aok inp :
  run_session g sid link aok inp = filter (keeps aok) (run_session g sid link all_ok inp).
Proof.
  unfold run_session. rewrite filter_app. cbn [filter keeps]. rewrite <- run_body_keeps. f_equal.
  destruct link as [mid|]; [|reflexivity].
  rewrite (keeps_capp aok). do 3 f_equal.
  unfold last_reason. rewrite (run_body_keeps g sid (Some mid) aok inp).
  change (ES sid 0 SStarted :: filter (keeps aok) (run_body g sid (Some mid) all_ok inp))
    with (filter (keeps aok) (ES sid 0 SStarted :: run_body g sid (Some mid) all_ok inp)).
  apply last_reason_keeps.
Qed.

(* thread order WITHOUT AppendOk: whichever appends of the run fail (the message and its run_spawned reached the thread),
   the run's projection of the log is the full, AppendOk-shaped sequence with exactly the frames whose append failed
   removed - the frames that are there keep their order, the session stream is untouched, and run_ended (when its append
   succeeds) is still the last frame, after the run's terminal session frame, with its reason *)
Theorem thread_order_faulted aok acts l g mid sid inp :
  WfActs acts -> Interleave (map (act_events aok) acts) l -> In (APost g mid sid inp) acts ->
  aok (CMessage mid) = true -> aok (CRunSpawned sid mid) = true ->
  exists pre q r,
    filter (of_run sid) l
    = filter (keeps aok)
        (EC (CRunSpawned sid mid) :: ES sid 0 SStarted :: pre ++ [ES sid q (SEnded r); EC (CRunEnded sid mid r)])
    /\ mid_kinds (map snd (sess_stream sid pre)) = true
    /\ ThreadShape sid mid
         (conts (EC (CRunSpawned sid mid) :: ES sid 0 SStarted :: pre ++ [ES sid q (SEnded r); EC (CRunEnded sid mid r)])) r.
Proof.
  intros W I Ha M1 M2.
  assert (Hs : In sid (act_sids (APost g mid sid inp))) by (left; reflexivity).
  assert (St : act_started aok (APost g mid sid inp) = true) by (cbn [act_started]; rewrite M1, M2; reflexivity).
  rewrite (run_projection aok acts l _ sid W I Ha Hs).
  destruct (act_events_own_run aok _ sid Hs St) as (g' & link & inp' & E & <- & -> & _ & <-). rewrite E. clear E.
  (* the same post on a store where every append succeeds *)
  assert (W1 : WfActs [APost g mid sid inp]).
  { repeat split; cbn; repeat constructor; intros []. }
  assert (I1 : Interleave (map (act_events all_ok) [APost g mid sid inp]) (act_events all_ok (APost g mid sid inp))).
  { cbn [map]. eapply IL_cons; [apply IL_nil|]. induction (act_events all_ok (APost g mid sid inp)); constructor; assumption. }
  destruct (thread_order all_ok _ _ g mid sid inp W1 I1 (or_introl eq_refl) (fun _ => eq_refl)) as (pre & q & r & F & Mk & Sh).
  assert (St1 : act_started all_ok (APost g mid sid inp) = true) by reflexivity.
  destruct (act_events_own_run all_ok _ sid Hs St1) as (g' & link & inp' & E1 & <- & -> & _ & <-).
  rewrite E1 in F, Sh. exists pre, q, r. split; [|split; [exact Mk | rewrite <- F; exact Sh]].
  rewrite <- F. cbn [app filter keeps]. rewrite M2, <- run_session_keeps. reflexivity.
Qed.

Lemma proj_count p aok acts l a pre post :
  Interleave (map (act_events aok) acts) l -> acts = pre ++ a :: post ->
  Forall (fun b => filter (ckp p) (act_events aok b) = []) pre ->
  Forall (fun b => filter (ckp p) (act_events aok b) = []) post ->
  count_ck p l = count_ck p (act_events aok a).
Proof.
  intros I -> Fp Fq. unfold count_ck. f_equal. rewrite map_app in I. cbn [map] in I.
  eapply interleave_proj; [exact I | reflexivity | |]; apply Forall_map; assumption.
Qed.

Lemma no_spawn_in_run mid g sid link aok inp :
  filter (ckp (is_spawn_of mid)) (run_session g sid link aok inp) = [].
Proof.
  apply filter_ckp_nil.
  destruct (run_session_filter (is_spawn_of mid) g sid link aok inp) as [r ->].
  - intros k Hk. destruct k; try discriminate; reflexivity.
  - unfold run_tail. destruct link; [|reflexivity]. rewrite conts_capp. destruct (aok _); reflexivity.
Qed.

Lemma no_spawn_in_job mid aok j o : filter (ckp (is_spawn_of mid)) (job aok j o) = [].
Proof.
  unfold job. destruct (aok (CJobSpawned j)); [|reflexivity]. cbn [filter ckp is_spawn_of].
  destruct o as [|n|n]; cbn [job_run]; [reflexivity| |]; rewrite filter_app; unfold capp, repN;
    (replace (filter (ckp (is_spawn_of mid)) (repeat (EC (CCheckpoint j)) (N.to_nat n))) with (@nil ev)
      by (induction (N.to_nat n); cbn [repeat filter ckp is_spawn_of]; auto));
    destruct (aok _); reflexivity.
Qed.

Lemma act_events_other_mid aok b mid : ~ In mid (act_mids b) -> filter (ckp (is_spawn_of mid)) (act_events aok b) = [].
Proof.
  intros Hn. destruct b as [g m s inp | g s inp | j o]; cbn [act_events act_mids In] in *.
  - assert (Hm : m <> mid) by tauto. unfold post_message. destruct (aok (CMessage m)); [|reflexivity].
    cbn [filter ckp is_spawn_of]. destruct (aok (CRunSpawned s m)); [|reflexivity]. cbn [filter ckp is_spawn_of].
    destruct (m =? mid) eqn:E; [apply N.eqb_eq in E; contradiction|]. apply no_spawn_in_run.
  - apply no_spawn_in_run.
  - apply no_spawn_in_job.
Qed.

Theorem one_spawn_per_message aok acts l g mid sid inp :
  WfActs acts -> Interleave (map (act_events aok) acts) l -> In (APost g mid sid inp) acts ->
  aok (CMessage mid) = true -> aok (CRunSpawned sid mid) = true ->
  count_ck (is_spawn_of mid) l = 1%nat.
Proof.
  intros (_ & NDm & _) I Ha O1 O2. apply in_split in Ha as (pre & post & E).
  assert (Hm : In mid (act_mids (APost g mid sid inp))) by (left; reflexivity).
  rewrite E in NDm. destruct (nodup_flat_map_split act_mids pre _ post mid NDm Hm) as [Fp Fq].
  rewrite (proj_count _ aok acts l _ pre post I E).
  - cbn [act_events]. unfold post_message, count_ck. rewrite O1, O2. cbn [filter ckp is_spawn_of].
    rewrite N.eqb_refl, no_spawn_in_run. reflexivity.
  - eapply Forall_impl; [|exact Fp]. intros b Hb. apply act_events_other_mid, Hb.
  - eapply Forall_impl; [|exact Fq]. intros b Hb. apply act_events_other_mid, Hb.
Qed.

(* ---------- a post whose client hangs up while the handler is suspended ---------- *)
Definition g_stub_cfg : cfg := {| g_provider := false; g_stateless := false |}.
Lemma no_message_in_run mid g sid link aok inp :
  filter (ckp (is_message_of mid)) (run_session g sid link aok inp) = [].
Proof.
  apply filter_ckp_nil.
  destruct (run_session_filter (is_message_of mid) g sid link aok inp) as [r ->].
  - intros k Hk. destruct k; try discriminate; reflexivity.
  - unfold run_tail. destruct link; [|reflexivity]. rewrite conts_capp. destruct (aok _); reflexivity.
Qed.

(* with no suspension point between the two appends and the spawn, a dropped request is no activity at all … *)
Lemma post_hung_safe po g aok mid sid inp dropped : post_order_safe po = true ->
  post_message_hung po g aok mid sid inp dropped = if dropped then [] else post_message g aok mid sid inp.
Proof. intros H. destruct po; [reflexivity | discriminate]. Qed.

(* … so, dropped or not, a message that reached the thread has its run_spawned frame (when that append succeeds) *)
Theorem post_hung_message_has_run po g aok mid sid inp dropped : post_order_safe po = true ->
  aok (CRunSpawned sid mid) = true ->
  count_ck (is_spawn_of mid) (post_message_hung po g aok mid sid inp dropped)
  = count_ck (is_message_of mid) (post_message_hung po g aok mid sid inp dropped).
Proof.
  intros H O2. rewrite (post_hung_safe _ _ _ _ _ _ _ H). destruct dropped; [reflexivity|].
  unfold post_message, count_ck. destruct (aok (CMessage mid)); [|reflexivity]. rewrite O2.
  cbn [filter ckp is_spawn_of is_message_of]. rewrite N.eqb_refl, no_spawn_in_run, no_message_in_run. reflexivity.
Qed.

(* REFUTED for the order before the fix: the message is logged, the request is dropped at the lock, no run *)
Lemma post_hung_unfixed_orphan :
  count_ck (is_message_of 7) (post_message_hung PoAppendFirst g_stub_cfg all_ok 7 1 (IPrompt true []) true) = 1%nat
  /\ count_ck (is_spawn_of 7) (post_message_hung PoAppendFirst g_stub_cfg all_ok 7 1 (IPrompt true []) true) = 0%nat.
Proof. split; reflexivity. Qed.

Lemma filter_weaker {A} (p q : A -> bool) l : (forall x, p x = true -> q x = true) -> filter q l = [] -> filter p l = [].
Proof.
  intros H. induction l as [|x l IH]; cbn [filter]; [auto|]. destruct (q x) eqn:Q; [discriminate|].
  destruct (p x) eqn:P; [rewrite (H _ P) in Q; discriminate | exact IH].
Qed.

Lemma end_of_is_of_run sid e : ckp (is_end_of sid) e = true -> of_run sid e = true.
Proof. destruct e as [s q k|k]; cbn [ckp]; [discriminate|]. destruct k; cbn [is_end_of]; try discriminate. auto. Qed.

Lemma count_end_of_run g sid mid aok inp :
  exists r, count_ck (is_end_of sid) (run_session g sid (Some mid) aok inp)
            = if aok (CRunEnded sid mid r) then 1%nat else 0%nat.
Proof.
  destruct (run_session_filter (is_end_of sid) g sid (Some mid) aok inp) as [r E].
  { intros k Hk. destruct k; try discriminate; reflexivity. }
  exists r. unfold count_ck. rewrite count_conts, E. unfold run_tail. rewrite conts_capp.
  destruct (aok _); cbn [filter is_end_of]; rewrite ?N.eqb_refl; reflexivity.
Qed.

(* run_ended frames of a spawned run in the whole log: one if that append succeeds, else none *)
Lemma count_end_general aok acts l g mid sid inp :
  WfActs acts -> Interleave (map (act_events aok) acts) l -> In (APost g mid sid inp) acts ->
  aok (CMessage mid) = true -> aok (CRunSpawned sid mid) = true ->
  exists r, count_ck (is_end_of sid) l = if aok (CRunEnded sid mid r) then 1%nat else 0%nat.
Proof.
  intros (NDs & _ & _) I Ha O1 O2. apply in_split in Ha as (pre & post & E).
  assert (Hs : In sid (act_sids (APost g mid sid inp))) by (left; reflexivity).
  rewrite E in NDs. destruct (nodup_flat_map_split act_sids pre _ post sid NDs Hs) as [Fp Fq].
  destruct (count_end_of_run g sid mid aok inp) as [r Er]. exists r.
  rewrite (proj_count _ aok acts l _ pre post I E).
  - cbn [act_events]. unfold post_message. rewrite O1, O2. unfold count_ck in *. cbn [filter ckp is_end_of]. exact Er.
  - eapply Forall_impl; [|exact Fp]. intros b Hb.
    apply (filter_weaker _ (of_run sid)); [apply end_of_is_of_run | apply act_events_other_run, Hb].
  - eapply Forall_impl; [|exact Fq]. intros b Hb.
    apply (filter_weaker _ (of_run sid)); [apply end_of_is_of_run | apply act_events_other_run, Hb].
Qed.

Theorem one_end_per_spawn aok acts l g mid sid inp :
  WfActs acts -> Interleave (map (act_events aok) acts) l -> In (APost g mid sid inp) acts ->
  aok (CMessage mid) = true -> aok (CRunSpawned sid mid) = true ->
  (forall r, aok (CRunEnded sid mid r) = true) ->
  count_ck (is_end_of sid) l = 1%nat.
Proof.
  intros W I Ha O1 O2 O3. destruct (count_end_general aok acts l g mid sid inp W I Ha O1 O2) as [r ->].
  rewrite O3. reflexivity.
Qed.

Theorem end_at_most_once aok acts l g mid sid inp :
  WfActs acts -> Interleave (map (act_events aok) acts) l -> In (APost g mid sid inp) acts ->
  aok (CMessage mid) = true -> aok (CRunSpawned sid mid) = true ->
  (count_ck (is_end_of sid) l <= 1)%nat.
Proof.
  intros W I Ha O1 O2. destruct (count_end_general aok acts l g mid sid inp W I Ha O1 O2) as [r ->].
  destruct (aok (CRunEnded sid mid r)); lia.
Qed.

(* ---------- jobs ---------- *)
Lemma no_job_end_in_run j g sid link aok inp :
  filter (ckp (is_job_end_of j)) (run_session g sid link aok inp) = [].
Proof.
  apply filter_ckp_nil.
  destruct (run_session_filter (is_job_end_of j) g sid link aok inp) as [r ->].
  - intros k Hk. destruct k; try discriminate; reflexivity.
  - unfold run_tail. destruct link; [|reflexivity]. rewrite conts_capp. destruct (aok _); reflexivity.
Qed.

Lemma filter_rep_ck p j n : p (CCheckpoint j) = false -> filter (ckp p) (repN (EC (CCheckpoint j)) n) = [].
Proof. intros H. unfold repN. induction (N.to_nat n); cbn [repeat filter ckp]; [reflexivity|]. rewrite H. assumption. Qed.

Lemma count_job_end aok j o : (count_ck (is_job_end_of j) (job aok j o) <= 1)%nat.
Proof.
  unfold count_ck, job. destruct (aok (CJobSpawned j)); [|cbn [filter length]; lia]. cbn [filter ckp is_job_end_of].
  destruct o as [|n|n]; cbn [job_run]; [cbn [filter length]; lia| |];
    rewrite filter_app, filter_rep_ck by reflexivity; unfold capp; destruct (aok _);
    cbn [app filter ckp is_job_end_of]; try (cbn [length]; lia); destruct (j =? j); cbn [length]; lia.
Qed.

Lemma act_events_other_job aok b j : ~ In j (act_jobs b) -> filter (ckp (is_job_end_of j)) (act_events aok b) = [].
Proof.
  intros Hn. destruct b as [g m s inp | g s inp | j' o]; cbn [act_events act_jobs In] in *.
  - unfold post_message. destruct (aok (CMessage m)); [|reflexivity]. cbn [filter ckp is_job_end_of].
    destruct (aok (CRunSpawned s m)); [|reflexivity]. cbn [filter ckp is_job_end_of]. apply no_job_end_in_run.
  - apply no_job_end_in_run.
  - assert (Hj : j' <> j) by tauto. assert (Ej : (j' =? j) = false) by (apply N.eqb_neq; exact Hj).
    unfold job. destruct (aok (CJobSpawned j')); [|reflexivity]. cbn [filter ckp is_job_end_of].
    destruct o as [|n|n]; cbn [job_run]; [reflexivity| |]; rewrite filter_app, filter_rep_ck by reflexivity;
      unfold capp; destruct (aok _); cbn [app filter ckp is_job_end_of]; rewrite ?Ej; reflexivity.
Qed.

Theorem job_ended_at_most_once aok acts l j :
  WfActs acts -> Interleave (map (act_events aok) acts) l -> (count_ck (is_job_end_of j) l <= 1)%nat.
Proof.
  intros (_ & _ & NDj) I.
  destruct (in_dec N.eq_dec j (flat_map act_jobs acts)) as [Hin|Hout].
  - apply in_flat_map in Hin as (a & Ha & Hj). apply in_split in Ha as (pre & post & E).
    rewrite E in NDj. destruct (nodup_flat_map_split act_jobs pre a post j NDj Hj) as [Fp Fq].
    rewrite (proj_count _ aok acts l a pre post I E).
    + destruct a as [g m s inp | g s inp | j' o]; cbn [act_jobs In] in Hj; try contradiction.
      destruct Hj as [<-|[]]. apply count_job_end.
    + eapply Forall_impl; [|exact Fp]. intros b Hb. apply act_events_other_job, Hb.
    + eapply Forall_impl; [|exact Fq]. intros b Hb. apply act_events_other_job, Hb.
  - unfold count_ck. rewrite (interleave_filter_none _ _ _ I); [cbn; lia|].
    apply Forall_map, Forall_forall. intros b Hb. apply act_events_other_job.
    intros Hj. apply Hout, in_flat_map. eauto.
Qed.

(* ---------- sequential execution is one of the interleavings ---------- *)
Lemma merge_nil_any m : Merge [] m m.
Proof. induction m; constructor; auto. Qed.
Lemma merge_concat a m : Merge a m (a ++ m).
Proof. induction a; cbn [app]; [apply merge_nil_any | constructor; auto]. Qed.
Lemma interleave_concat ls : Interleave ls (concat ls).
Proof. induction ls as [|a ls IH]; cbn [concat]; [constructor | econstructor; [exact IH | apply merge_concat]]. Qed.

(* a genuinely interleaved schedule: alternate between the components *)
Fixpoint zipm (a b : list ev) : list ev :=
  match a, b with
  | x :: a', y :: b' => x :: y :: zipm a' b'
  | [], _ => b
  | _, [] => a
  end.
Lemma merge_zipm a : forall b, Merge a b (zipm a b).
Proof.
  induction a as [|x a IH]; intros b; [destruct b; apply merge_nil_any|].
  destruct b as [|y b]; cbn [zipm].
  - rewrite <- (app_nil_r (x :: a)) at 2. apply merge_concat.
  - constructor. constructor. apply IH.
Qed.
Lemma interleave_zip ls : Interleave ls (fold_right zipm [] ls).
Proof. induction ls as [|a ls IH]; cbn [fold_right]; [constructor | econstructor; [exact IH | apply merge_zipm]]. Qed.

(* ---------- witnesses ---------- *)
Definition g_stub : cfg := {| g_provider := false; g_stateless := false |}.
Definition g_prov : cfg := {| g_provider := true; g_stateless := false |}.

Definition demo_write : call :=
  {| c_allowed := true; c_lock := true; c_tool := {| t_auto := 1; t_res := TDone 1 0 |} |}.
Definition demo_acts : list act :=
  [ APost g_prov 200 100 (IPrompt true [ROk [false; true] true [demo_write]; ROk [true; false] true []]);
    APost g_stub 201 101 (ITool true {| t_auto := 0; t_res := TTimeout |});
    AInput g_prov 102 (IPrompt true [RMidErr [true]]);
    AJob 300 (JDone 2) ].
Definition demo_log : list ev := fold_right zipm [] (map (act_events all_ok) demo_acts).

Lemma demo_wf : WfActs demo_acts.
Proof.
  unfold WfActs, demo_acts. cbn [flat_map act_sids act_mids act_jobs app].
  repeat split; repeat (constructor; [cbn [In]; intros H; repeat (destruct H as [H|H]; try discriminate H); exact H|]);
    constructor.
Qed.
Lemma demo_interleave : Interleave (map (act_events all_ok) demo_acts) demo_log.
Proof. apply interleave_zip. Qed.

Lemma demo_facts :
  conts (filter (of_run 100) demo_log)
  = [CRunSpawned 100 200; CSelection 100 200; CCompiled 100; CSideEffects 100; CCursor 100; CRunEnded 100 200 0]
  /\ map snd (sess_stream 101 demo_log) = [SStarted; SToolStarted; SToolFailed; SOutput; SEnded 0]
  /\ map snd (sess_stream 102 demo_log)
     = [SStarted; SReqStarted; SHeaders; SFirstByte; SProvider; SOutput; SProvider; SEnded 1]
  /\ demo_log <> concat (map (act_events all_ok) demo_acts)
  /\ count_ck (is_job_end_of 300) demo_log = 1%nat.
Proof. repeat split; try (vm_compute; reflexivity). vm_compute. discriminate. Qed.

(* S6: two inputs on one session id = two run_session tasks writing one stream *)
Definition s6_runs : list (list ev) :=
  [run_session g_stub 1 None all_ok (IPrompt true []); run_session g_stub 1 None all_ok (IPrompt true [])].
Definition s6_log : list ev := concat s6_runs.

Lemma s6_stream : sess_stream 1 s6_log
  = [(0, SStarted); (1, SOutput); (2, SEnded 0); (0, SStarted); (1, SOutput); (2, SEnded 0)].
Proof. vm_compute. reflexivity. Qed.

Lemma s6_not_shape : ~ SessionShape (sess_stream 1 s6_log).
Proof. rewrite s6_stream. intros (mid & r & _ & _ & H). vm_compute in H. discriminate H. Qed.

Lemma double_input_refuted :
  exists g sid inp1 inp2 l,
    Interleave [run_session g sid None all_ok inp1; run_session g sid None all_ok inp2] l
    /\ ~ SessionShape (sess_stream sid l).
Proof.
  exists g_stub, 1, (IPrompt true []), (IPrompt true []), s6_log.
  split; [apply (interleave_concat s6_runs) | exact s6_not_shape].
Qed.

(* AppendOk is necessary: the result of append_run_ended is dropped (`let _ =`) *)
Definition aok_no_end (k : ck) : bool := match k with CRunEnded _ _ _ => false | _ => true end.
Definition drop_acts : list act := [APost g_stub 7 1 (IPrompt true [])].
Definition drop_log : list ev := concat (map (act_events aok_no_end) drop_acts).

Lemma drop_wf : WfActs drop_acts.
Proof. unfold WfActs, drop_acts. cbn. repeat split; repeat constructor; intros []. Qed.

Lemma end_dropped_refuted :
  exists aok acts l g mid sid inp,
    WfActs acts /\ Interleave (map (act_events aok) acts) l /\ In (APost g mid sid inp) acts
    /\ count_ck (is_spawn_of mid) l = 1%nat /\ count_ck (is_end_of sid) l = 0%nat.
Proof.
  exists aok_no_end, drop_acts, drop_log, g_stub, 7, 1, (IPrompt true []).
  split; [exact drop_wf|]. split; [apply interleave_concat|]. split; [left; reflexivity|].
  split; vm_compute; reflexivity.
Qed.

(* non-vacuity / sharpness: three of the five appends of a full run fail *)
Definition aok_demo (k : ck) : bool :=
  match k with CCompiled _ | CCursor _ | CRunEnded _ _ _ => false | _ => true end.
Lemma faulted_demo :
  conts (run_session g_prov 100 (Some 200) aok_demo
           (IPrompt true [ROk [false] true [{| c_allowed := true; c_lock := true; c_tool := {| t_auto := 1; t_res := TDone 0 0 |} |}]; ROk [true] true []]))
  = [CSelection 100 200; CSideEffects 100].
Proof. vm_compute. reflexivity. Qed.

(* ---------- a finite list of provider answers is no restriction ---------- *)
(* every executed tool round consumes at least one unit of the tool-call budget … *)
Lemma run_calls_count sid link aok calls : forall count seq evs seq' count' ex,
  run_calls sid link aok calls count seq = (evs, seq', count', ex) ->
  calls <> [] -> ex = false -> count + 1 <= count'.
Proof.
  induction calls as [|c rest IH]; intros count seq evs seq' count' ex H Hne Hex; [contradiction|].
  cbn [run_calls] in H. destruct (MAX_TOOL_CALLS <=? count); [inv4 H; discriminate|].
  destruct (run_calls sid link aok rest (count + 1) _) as [[[evs1 s1] c1] e1] eqn:E. inv4 H.
  destruct rest as [|c2 rest].
  - cbn [run_calls] in E. inversion E; subst. lia.
  - assert (count + 1 + 1 <= count') by (eapply IH; [exact E | discriminate | reflexivity]). lia.
Qed.

(* … so the loop never looks beyond answer number MAX_TOOL_CALLS - count: whatever the provider would
   have answered after that is irrelevant (in particular the "HTTP error once the list is exhausted"
   convention of the model is never reached when the list is that long) *)
Lemma agent_loop_prefix sid link aok st reqs : forall extra count seq prev fu,
  (N.to_nat (MAX_TOOL_CALLS - count) < length reqs)%nat ->
  agent_loop sid link aok st (reqs ++ extra) count seq prev fu = agent_loop sid link aok st reqs count seq prev fu.
Proof.
  induction reqs as [|r rest IH]; intros extra count seq prev fu Hlen; [cbn [length] in Hlen; lia|].
  cbn [app agent_loop]. destruct (MAX_TOOL_CALLS <=? count) eqn:Hc; [reflexivity|].
  destruct (fu && negb st && negb prev); [reflexivity|].
  destruct r as [| |hst hbody| | |pf|pf hid calls]; try reflexivity.
  destruct calls as [|c calls]; [reflexivity|].
  destruct (negb (hid || prev) && negb st); [reflexivity|].
  destruct (run_calls sid link aok (c :: calls) count _) as [[[evs1 s2] c'] ex] eqn:E1.
  destruct ex; [reflexivity|].
  assert (Hc' : count + 1 <= c') by (eapply run_calls_count; [exact E1 | discriminate | reflexivity]).
  rewrite IH; [reflexivity|]. cbn [length] in Hlen. apply N.leb_gt in Hc. lia.
Qed.

Lemma run_session_prefix g sid link aok cok reqs extra :
  (N.to_nat MAX_TOOL_CALLS < length reqs)%nat ->
  run_session g sid link aok (IPrompt cok (reqs ++ extra)) = run_session g sid link aok (IPrompt cok reqs).
Proof.
  intros H. unfold run_session. unfold run_body; cbn [run_body_with]. rewrite agent_loop_prefix; [reflexivity|].
  replace (MAX_TOOL_CALLS - 0) with MAX_TOOL_CALLS by lia. exact H.
Qed.

(* ---------- the tool budget bounds the conversation: it depends on WHERE tool_call_count is incremented ---------- *)
(* at AcctEveryCall the parametrised loop is the loop of the model the correspondence runs *)
Lemma run_calls_a_every sid link aok calls : forall count seq,
  run_calls_a AcctEveryCall sid link aok calls count seq = run_calls sid link aok calls count seq.
Proof.
  induction calls as [|c rest IH]; intros count seq; cbn [run_calls_a run_calls]; [reflexivity|].
  destruct (MAX_TOOL_CALLS <=? count); [reflexivity|]. cbn [acct_counts]. rewrite IH. reflexivity.
Qed.

Lemma agent_loop_a_every sid link aok st reqs : forall count seq prev fu,
  agent_loop_a AcctEveryCall sid link aok st reqs count seq prev fu = agent_loop sid link aok st reqs count seq prev fu.
Proof.
  induction reqs as [|r rest IH]; intros count seq prev fu; cbn [agent_loop_a agent_loop]; [reflexivity|].
  destruct (MAX_TOOL_CALLS <=? count); [reflexivity|].
  destruct (fu && negb st && negb prev); [reflexivity|].
  destruct r as [| |hst hbody| | |pf|pf hid calls]; try reflexivity.
  destruct calls as [|c calls]; [reflexivity|].
  destruct (negb (hid || prev) && negb st); [reflexivity|].
  rewrite run_calls_a_every.
  destruct (run_calls sid link aok (c :: calls) count _) as [[[evs1 s2] c'] ex].
  destruct ex; [reflexivity|]. rewrite IH. reflexivity.
Qed.

Lemma run_session_a_every g sid link aok inp : run_session_a ACCT g sid link aok inp = run_session g sid link aok inp.
Proof.
  unfold run_session_a, run_session, run_body, ACCT.
  assert (E : run_body_with (agent_loop_a AcctEveryCall) g sid link aok inp = run_body_with agent_loop g sid link aok inp).
  { destruct inp as [cok reqs | lock t | r]; cbn [run_body_with]; try reflexivity.
    rewrite agent_loop_a_every. reflexivity. }
  rewrite E. reflexivity.
Qed.

(* request frames *)
Definition nreqk (ks : list sk) : nat := length (filter is_reqk ks).
Lemma nreq_app a b : nreq (a ++ b) = (nreq a + nreq b)%nat.
Proof. unfold nreq. rewrite filter_app, app_length. reflexivity. Qed.
Lemma nreqk_app a b : nreqk (a ++ b) = (nreqk a + nreqk b)%nat.
Proof. unfold nreqk. rewrite filter_app, app_length. reflexivity. Qed.
Lemma nreq_frames_at sid q ks : nreq (frames_at sid q ks) = nreqk ks.
Proof.
  revert q; induction ks as [|k ks IH]; intro q; [reflexivity|].
  cbn [frames_at]. unfold nreq, nreqk in *. cbn [filter is_req]. destruct (is_reqk k); cbn [length]; rewrite IH; reflexivity.
Qed.
Lemma nreq_capp aok k : nreq (capp aok k) = 0%nat.
Proof. unfold capp. destruct (aok k); reflexivity. Qed.
Lemma nreq_side_effects sid link aok : nreq (side_effects sid link aok) = 0%nat.
Proof. unfold side_effects. destruct link; [apply nreq_capp | reflexivity]. Qed.
Lemma nreqk_repN k n : is_reqk k = false -> nreqk (repN k n) = 0%nat.
Proof.
  intros H. unfold repN, nreqk. induction (N.to_nat n) as [|m IH]; cbn [repeat filter]; [reflexivity|]. rewrite H. exact IH.
Qed.
Lemma nreqk_tool_kinds t : nreqk (tool_kinds t) = 0%nat.
Proof.
  unfold tool_kinds. rewrite nreqk_app.
  assert (A : nreqk (auto_kinds (t_auto t)) = 0%nat).
  { unfold auto_kinds. destruct (t_auto t =? 0); [reflexivity|]. destruct (t_auto t =? 1); reflexivity. }
  rewrite A. cbn [Nat.add].
  change (nreqk (SToolStarted :: ?x)) with (nreqk x).
  destruct (t_res t) as [| |o e|file mx]; try reflexivity.
  rewrite !nreqk_app, !nreqk_repN by reflexivity. reflexivity.
Qed.
Lemma nreqk_prov_kinds pf : nreqk (prov_kinds pf) = 0%nat.
Proof.
  unfold prov_kinds. induction pf as [|d pf IH]; [reflexivity|]. cbn [flat_map]. rewrite nreqk_app, IH.
  destruct d; reflexivity.
Qed.
Lemma nreqk_stream_kinds r : (nreqk (fst (stream_kinds r)) <= 1)%nat.
Proof.
  destruct r as [| |hst hbody| | |pf|pf h c]; cbn [stream_kinds fst]; try (unfold nreqk; cbn [filter is_reqk length]; lia).
  - rewrite !nreqk_app, nreqk_prov_kinds. unfold nreqk; cbn [filter is_reqk length]; lia.
  - rewrite nreqk_app, nreqk_prov_kinds. unfold nreqk; cbn [filter is_reqk length]; lia.
Qed.

(* a tool round makes no request; when every call is paid for and the round was not cut short, a non-empty round
   moves the counter *)
Lemma run_calls_a_nreq ac sid link aok calls : forall count seq evs seq' count' ex,
  run_calls_a ac sid link aok calls count seq = (evs, seq', count', ex) ->
  nreq evs = 0%nat /\ (acct_all ac = true -> calls <> [] -> ex = false -> count + 1 <= count') /\ count <= count'.
Proof.
  induction calls as [|c rest IH]; intros count seq evs seq' count' ex H; cbn [run_calls_a] in H.
  - inv4 H. repeat split; [intros _ Hne; contradiction | lia].
  - destruct (MAX_TOOL_CALLS <=? count); [inv4 H; repeat split; [intros _ _ Hex; discriminate | lia]|].
    destruct (run_calls_a ac sid link aok rest _ _) as [[[evs1 s1] c1] e1] eqn:E. inv4 H.
    destruct (IH _ _ _ _ _ _ E) as (N1 & _ & Mono).
    repeat split.
    + rewrite !nreq_app, nreq_frames_at, N1.
      assert (K : nreqk (if c_allowed c then tool_kinds (c_tool c) else rejected_kinds) = 0%nat).
      { destruct (c_allowed c); [apply nreqk_tool_kinds | reflexivity]. }
      rewrite K. destruct (c_allowed c && c_lock c); [rewrite nreq_side_effects|]; reflexivity.
    + intros Hall _ _. destruct ac; [|discriminate]. cbn [acct_counts] in Mono. exact Mono.
    + destruct (acct_counts ac c); lia.
Qed.

(* the number of requests of the loop is bounded by the budget that is left (a request is only made with budget left,
   and its round spends some) - WHEN every drained call is paid for *)
Lemma agent_loop_a_nreq ac sid link aok st reqs : acct_all ac = true -> forall count seq prev fu evs seq' reason p,
  agent_loop_a ac sid link aok st reqs count seq prev fu = (evs, seq', reason, p) ->
  N.of_nat (nreq evs) <= MAX_TOOL_CALLS - count.
Proof.
  intros Hall. induction reqs as [|r rest IH]; intros count seq prev fu evs seq' reason p H; cbn [agent_loop_a] in H.
  - destruct (MAX_TOOL_CALLS <=? count) eqn:Hc; [inv4 H; cbn; lia|]. apply N.leb_gt in Hc.
    destruct (fu && negb st && negb prev); [inv4 H; cbn; lia|].
    inv4 H. change (N.of_nat (nreq (frames_at sid seq (fst (stream_kinds (RHttpErr [] []))))) <= MAX_TOOL_CALLS - count).
    rewrite nreq_frames_at. pose proof (nreqk_stream_kinds (RHttpErr [] [])). lia.
  - destruct (MAX_TOOL_CALLS <=? count) eqn:Hc; [inv4 H; cbn; lia|]. apply N.leb_gt in Hc.
    destruct (fu && negb st && negb prev); [inv4 H; cbn; lia|].
    pose proof (nreqk_stream_kinds r) as K0.
    remember (fst (stream_kinds r)) as ks eqn:Eks. clear Eks.
    destruct r as [| |hst hbody| | |pf|pf hid calls]; try (inv4 H; rewrite nreq_frames_at; lia).
    destruct calls as [|c calls]; [inv4 H; rewrite nreq_frames_at; lia|].
    destruct (negb (hid || prev) && negb st); [inv4 H; rewrite nreq_frames_at; lia|].
    destruct (run_calls_a ac sid link aok (c :: calls) count _) as [[[evs1 s2] c'] ex] eqn:E1.
    destruct (run_calls_a_nreq _ _ _ _ _ _ _ _ _ _ _ E1) as (N1 & Step & _).
    destruct ex; [inv4 H; rewrite nreq_app, nreq_frames_at, N1; lia|].
    assert (Hc' : count + 1 <= c') by (apply Step; [exact Hall | discriminate | reflexivity]).
    destruct (agent_loop_a ac sid link aok st rest c' s2 (hid || prev) true) as [[[evs2 s3] r2] p2] eqn:E2.
    pose proof (IH _ _ _ _ _ _ _ _ E2) as B2. inv4 H.
    rewrite !nreq_app, nreq_frames_at, N1. lia.
Qed.

Lemma nreq_last_capp link aok (f : N -> ck) : nreq (match link with Some mid => capp aok (f mid) | None => [] end) = 0%nat.
Proof. destruct link; [apply nreq_capp | reflexivity]. Qed.

(* every run, whatever the provider answers and however long it goes on answering, makes at most MAX_TOOL_CALLS
   requests - for an accounting that pays for every drained call *)
Theorem requests_bounded ac g sid link aok inp : acct_all ac = true ->
  (nreq (run_session_a ac g sid link aok inp) <= N.to_nat MAX_TOOL_CALLS)%nat.
Proof.
  intros Hall. unfold run_session_a. rewrite nreq_app.
  rewrite (nreq_last_capp link aok (fun mid => CRunEnded sid mid _)).
  change (nreq (ES sid 0 SStarted :: ?x)) with (nreq x). rewrite Nat.add_0_r.
  destruct inp as [cok reqs | lock t | r]; cbn [run_body_with].
  - destruct (g_provider g); cbn [negb]; [|cbv; lia].
    assert (A : le (nreq (let '(evs, seq, reason, prev) := agent_loop_a ac sid link aok (g_stateless g) reqs 0 1 false false in
                          evs ++ (if (reason =? R_COMPLETED) && prev
                                  then match link with Some _ => capp aok (CCursor sid) | None => [] end else [])
                          ++ [ES sid seq (SEnded reason)])) (N.to_nat MAX_TOOL_CALLS)).
    { destruct (agent_loop_a ac sid link aok (g_stateless g) reqs 0 1 false false) as [[[evs seq] reason] prev] eqn:E.
      pose proof (agent_loop_a_nreq ac _ _ _ _ _ Hall _ _ _ _ _ _ _ _ E) as B.
      rewrite !nreq_app.
      assert (C : nreq (if (reason =? R_COMPLETED) && prev
                        then match link with Some _ => capp aok (CCursor sid) | None => [] end else []) = 0%nat).
      { destruct ((reason =? R_COMPLETED) && prev); [|reflexivity]. destruct link; [apply nreq_capp | reflexivity]. }
      rewrite C. change (nreq [ES sid seq (SEnded reason)]) with 0%nat. lia. }
    destruct link as [mid|]; [destruct cok|].
    + rewrite !nreq_app, !nreq_capp. exact A.
    + cbv; lia.
    + destruct cok; cbn [app]; exact A.
  - rewrite !nreq_app, nreq_frames_at, nreqk_tool_kinds.
    assert (S0 : nreq (if lock then side_effects sid link aok else []) = 0%nat)
      by (destruct lock; [apply nreq_side_effects | reflexivity]).
    rewrite S0. unfold runtime_tail. rewrite nreq_frames_at. cbv; lia.
  - rewrite nreq_app. unfold runtime_tail. rewrite !nreq_frames_at. destruct r; cbv; lia.
Qed.

(* the restated prefix property: with that accounting the run never reads past provider answer MAX_TOOL_CALLS *)
Lemma run_session_a_prefix ac g sid link aok cok reqs extra : acct_all ac = true ->
  (N.to_nat MAX_TOOL_CALLS < length reqs)%nat ->
  run_session_a ac g sid link aok (IPrompt cok (reqs ++ extra)) = run_session_a ac g sid link aok (IPrompt cok reqs).
Proof.
  intros Hall H. destruct ac; [|discriminate]. change AcctEveryCall with ACCT.
  rewrite !run_session_a_every. apply run_session_prefix. exact H.
Qed.

(* REFUTED when a refused call is free: the stubborn provider (every answer = one refused call) is asked again after
   EVERY answer - for every n the run has consumed a script of n such answers and made request n+1; no finite prefix
   of the provider's answers determines the run, and against a provider that never stops the run never ends *)
Definition g_stateless_prov : cfg := {| g_provider := true; g_stateless := true |}.

Lemma stubborn_loop sid link aok n : forall seq prev fu evs seq' reason p,
  agent_loop_a AcctDispatchedOnly sid link aok true (repeat refused_answer n) 0 seq prev fu = (evs, seq', reason, p) ->
  nreq evs = S n /\ reason = R_PROVIDER_ERROR.
Proof.
  induction n as [|n IH]; intros seq prev fu evs seq' reason p H; cbn [repeat agent_loop_a] in H.
  - change (MAX_TOOL_CALLS <=? 0) with false in H. cbv beta iota zeta in H.
    rewrite andb_false_r in H. cbn [andb] in H. cbv zeta in H. inv4 H. split; [|reflexivity].
    reflexivity.
  - change (MAX_TOOL_CALLS <=? 0) with false in H. cbv beta iota zeta in H.
    rewrite andb_false_r in H. cbn [andb] in H.
    unfold refused_answer at 1 in H. cbn [orb negb andb run_calls_a refused_call c_allowed c_lock acct_counts] in H.
    change (MAX_TOOL_CALLS <=? 0) with false in H. cbv beta iota zeta in H.
    destruct (agent_loop_a AcctDispatchedOnly sid link aok true (repeat refused_answer n) 0 _ true true)
      as [[[evs2 s3] r2] p2] eqn:E2.
    destruct (IH _ _ _ _ _ _ _ E2) as [N2 R2]. cbv zeta in H. inv4 H. split; [|reflexivity].
    unfold nreq in N2 |- *. cbn [filter is_req is_reqk length]. rewrite N2. reflexivity.
Qed.

Lemma stubborn_nreq m :
  nreq (run_session_a AcctDispatchedOnly g_stateless_prov 1 (Some 2) all_ok (IPrompt true (repeat refused_answer m))) = S m.
Proof.
  unfold run_session_a. rewrite nreq_app. change (nreq (capp all_ok _)) with 0%nat.
  change (nreq (ES 1 0 SStarted :: ?x)) with (nreq x). rewrite Nat.add_0_r.
  cbn [run_body_with g_stateless_prov g_provider g_stateless negb].
  destruct (agent_loop_a AcctDispatchedOnly 1 (Some 2) all_ok true (repeat refused_answer m) 0 1 false false)
    as [[[evs seq] reason] prev] eqn:E0.
  destruct (stubborn_loop _ _ _ _ _ _ _ _ _ _ _ E0) as [N1 R1]. subst reason.
  rewrite !nreq_app, N1, !nreq_capp. change (R_PROVIDER_ERROR =? R_COMPLETED) with false.
  cbn [andb]. change (nreq []) with 0%nat. change (nreq [ES 1 seq (SEnded R_PROVIDER_ERROR)]) with 0%nat. lia.
Qed.

Theorem requests_unbounded_dispatched_only : forall n : nat,
  exists reqs, length reqs = n /\ forallb is_refused_answer reqs = true
    /\ nreq (run_session_a AcctDispatchedOnly g_stateless_prov 1 (Some 2) all_ok (IPrompt true reqs)) = S n.
Proof.
  intro n. exists (repeat refused_answer n). split; [apply repeat_length|]. split; [|apply stubborn_nreq].
  induction n as [|n IH]; [reflexivity | cbn [repeat forallb]; rewrite IH; reflexivity].
Qed.

(* … so the prefix property fails for every length: one more answer changes the run *)
Theorem prefix_fails_dispatched_only : forall n : nat,
  run_session_a AcctDispatchedOnly g_stateless_prov 1 (Some 2) all_ok (IPrompt true (repeat refused_answer n ++ [refused_answer]))
  <> run_session_a AcctDispatchedOnly g_stateless_prov 1 (Some 2) all_ok (IPrompt true (repeat refused_answer n)).
Proof.
  intros n E. apply (f_equal nreq) in E.
  replace (repeat refused_answer n ++ [refused_answer]) with (repeat refused_answer (S n)) in E.
  2:{ clear. induction n as [|n IH]; [reflexivity | cbn [repeat app]; f_equal; exact IH]. }
  rewrite !stubborn_nreq in E. lia.
Qed.

(* the same stubborn provider against the accounting of the code: 32 requests, max_tool_calls_exceeded *)
Definition stubborn_run : list ev :=
  run_session g_stateless_prov 1 (Some 2) all_ok (IPrompt true (repeat refused_answer 64)).
Lemma stubborn_run_ends :
  nreq stubborn_run = 32%nat
  /\ last stubborn_run (EC (CMessage 0)) = EC (CRunEnded 1 2 R_MAX_TOOL_CALLS)
  /\ forallb is_refused_answer (repeat refused_answer 64) = true.
Proof. vm_compute. repeat split. Qed.

(* ---------- S6: the one-run-per-session guard under concurrent inputs ---------- *)
Definition is_acc (p : pc) : bool := match p with PcAccepted => true | _ => false end.
Definition nacc (pcs : list pc) : nat := length (filter is_acc pcs).

Lemma upd_length {A} (l : list A) : forall i x, length (upd l i x) = length l.
Proof. induction l as [|y r IH]; intros [|j] x; cbn [upd length]; auto. Qed.

Lemma upd_Forall {A} (P : A -> Prop) (l : list A) : forall i x, Forall P l -> P x -> Forall P (upd l i x).
Proof.
  induction l as [|y r IH]; intros [|j] x F Px; cbn [upd]; auto.
  - inversion F; subst. constructor; assumption.
  - inversion F; subst. constructor; [assumption | apply IH; assumption].
Qed.

Lemma nacc_upd (l : list pc) : forall i old x, nth_error l i = Some old ->
  (nacc (upd l i x) + (if is_acc old then 1 else 0) = nacc l + (if is_acc x then 1 else 0))%nat.
Proof.
  unfold nacc. induction l as [|y r IH]; intros [|j] old x E; cbn [nth_error] in E; try discriminate.
  - injection E as ->. cbn [upd filter]. destruct (is_acc old), (is_acc x); cbn [length]; lia.
  - cbn [upd filter]. specialize (IH j old x E). destruct (is_acc y); cbn [length]; lia.
Qed.

Definition GInv (st : bool * list pc) : Prop :=
  Forall (fun p => p <> PcPassed) (snd st)
  /\ nacc (snd st) = (if fst st then 1 else 0)%nat
  /\ (fst st = false -> Forall (fun p => p = PcInit) (snd st)).

Lemma GInv_init n : GInv (false, repeat PcInit n).
Proof.
  unfold GInv; cbn [fst snd]. repeat split.
  - apply Forall_forall. intros p Hp. apply repeat_spec in Hp. subst. discriminate.
  - unfold nacc. induction n as [|m IH]; cbn [repeat filter is_acc length]; auto.
  - intros _. apply Forall_forall. intros p Hp. apply repeat_spec in Hp. exact Hp.
Qed.

Lemma GInv_step st a : GInv st -> GInv (guard_step GAtomicRmw st a).
Proof.
  destruct st as [started pcs]. intros (F & C & I). unfold guard_step; cbn [fst snd] in *.
  destruct (nth_error pcs a) as [p|] eqn:E; [|repeat split; assumption].
  destruct p; try (repeat split; assumption).
  - (* PcInit *)
    destruct started; unfold GInv; cbn [fst snd].
    + repeat split.
      * apply upd_Forall; [assumption | discriminate].
      * pose proof (nacc_upd pcs a PcInit PcRefused E) as U. cbn [is_acc] in U. lia.
      * discriminate.
    + repeat split.
      * apply upd_Forall; [assumption | discriminate].
      * pose proof (nacc_upd pcs a PcInit PcAccepted E) as U. cbn [is_acc] in U. lia.
      * discriminate.
  - (* PcPassed: unreachable under the atomic guard *)
    exfalso. apply nth_error_In in E. rewrite Forall_forall in F. exact (F _ E eq_refl).
Qed.

Lemma GInv_run sched : forall st, GInv st -> GInv (fold_left (guard_step GAtomicRmw) sched st).
Proof. induction sched as [|a r IH]; intros st H; cbn [fold_left]; [assumption | apply IH, GInv_step, H]. Qed.

Lemma guard_step_length gk st a : length (snd (guard_step gk st a)) = length (snd st).
Proof.
  unfold guard_step. destruct (nth_error (snd st) a) as [p|]; [|reflexivity].
  destruct p; try reflexivity; [destruct (fst st); [|destruct gk] |]; cbn [snd]; apply upd_length.
Qed.

Lemma guard_run_length gk sched : forall st, length (snd (fold_left (guard_step gk) sched st)) = length (snd st).
Proof.
  induction sched as [|a r IH]; intros st; cbn [fold_left]; [reflexivity|].
  rewrite IH. apply guard_step_length.
Qed.

Lemma guard_step_mono gk st a : fst st = true -> fst (guard_step gk st a) = true.
Proof.
  intros H. unfold guard_step. destruct (nth_error (snd st) a) as [p|]; [|assumption].
  destruct p; try assumption; [rewrite H; reflexivity | reflexivity].
Qed.

Lemma guard_run_mono gk sched : forall st, fst st = true -> fst (fold_left (guard_step gk) sched st) = true.
Proof. induction sched as [|a r IH]; intros st H; cbn [fold_left]; [assumption | apply IH, guard_step_mono, H]. Qed.

(* the first caller to take a step sets the flag *)
Lemma guard_first_step st a : GInv st -> (a < length (snd st))%nat -> fst (guard_step GAtomicRmw st a) = true.
Proof.
  destruct st as [started pcs]. intros (F & C & I) L. unfold guard_step; cbn [fst snd] in *.
  destruct (nth_error pcs a) as [p|] eqn:E.
  2:{ apply nth_error_None in E. lia. }
  destruct started; [destruct p; reflexivity|].
  specialize (I eq_refl). rewrite Forall_forall in I. rewrite (I p (nth_error_In _ _ E)). reflexivity.
Qed.

Lemma accepted_length {A} (pcs : list pc) : forall (inps : list A), length pcs = length inps ->
  length (accepted_inputs pcs inps) = nacc pcs.
Proof.
  unfold nacc. induction pcs as [|p ps IH]; intros [|i r] L; cbn [length] in L; try discriminate; [reflexivity|].
  cbn [accepted_inputs filter]. rewrite app_length, (IH r) by lia. destruct p; reflexivity.
Qed.

Lemma accepted_incl {A} (pcs : list pc) : forall (inps : list A) x, In x (accepted_inputs pcs inps) -> In x inps.
Proof.
  induction pcs as [|p ps IH]; intros [|i r] x H; cbn [accepted_inputs] in H; try contradiction.
  apply in_app_or in H. destruct H as [H|H]; [|right; eapply IH; exact H].
  destruct p; cbn in H; try contradiction. destruct H as [->|[]]. left; reflexivity.
Qed.

(* exactly one of any number of concurrent inputs is accepted, under every schedule in which somebody steps *)
Lemma guard_one_accepted gk n a sched : guard_atomic gk = true -> (a < n)%nat ->
  nacc (snd (run_guard gk n (a :: sched))) = 1%nat.
Proof.
  intros G L. destruct gk; [|discriminate]. unfold run_guard. cbn [fold_left].
  pose proof (GInv_init n) as I0.
  assert (T : fst (guard_step GAtomicRmw (false, repeat PcInit n) a) = true).
  { apply guard_first_step; [exact I0 | cbn [snd]; rewrite repeat_length; exact L]. }
  pose proof (GInv_run sched _ (GInv_step _ a I0)) as (_ & C & _).
  rewrite (guard_run_mono GAtomicRmw sched _ T) in C. exact C.
Qed.

Lemma interleave_single a l : Interleave [a] l -> l = a.
Proof.
  intros H. inversion H as [|a' ls m l' Hm Mg]; subst. inversion Hm; subst. apply merge_nil_r. exact Mg.
Qed.

Theorem double_input_guarded gk g sid (inps : list input) a sched l :
  guard_atomic gk = true -> (a < length inps)%nat ->
  Interleave (map (run_session g sid None all_ok)
                  (accepted_inputs (snd (run_guard gk (length inps) (a :: sched))) inps)) l ->
  SessionShape (sess_stream sid l).
Proof.
  intros G L H.
  pose proof (guard_one_accepted gk (length inps) a sched G L) as One.
  assert (Len : length (snd (run_guard gk (length inps) (a :: sched))) = length inps).
  { unfold run_guard. rewrite guard_run_length. cbn [snd]. apply repeat_length. }
  rewrite <- (accepted_length _ inps Len) in One.
  destruct (accepted_inputs (snd (run_guard gk (length inps) (a :: sched))) inps) as [|inp [|x r]]; cbn [length] in One; try discriminate.
  cbn [map] in H. apply interleave_single in H. subst l. apply run_session_shape.
Qed.

(* what the harness's forced schedule gives: one accepted input for the atomic guard, all of them for check-then-set *)
Lemma race_accepted_atomic n : 0 < n -> race_accepted GAtomicRmw n = 1.
Proof.
  intros P. unfold race_accepted, nlen.
  destruct (N.to_nat n) as [|m] eqn:E; [lia|].
  assert (S1 : stepped_sched (S m) = 0%nat :: (seq 1 m ++ seq 0 (S m))) by reflexivity.
  rewrite accepted_length.
  - rewrite S1, (guard_one_accepted GAtomicRmw (S m) 0 _ eq_refl) by lia. reflexivity.
  - unfold run_guard. rewrite guard_run_length. cbn [snd]. rewrite !repeat_length. reflexivity.
Qed.

Lemma race_accepted_check_then_set_3 : race_accepted GCheckThenSet 3 = 3.
Proof. vm_compute. reflexivity. Qed.

(* check-then-set: two callers, schedule load/load/spawn/spawn: both accepted, two runs on one session id *)
Lemma s6_cts_accepted :
  accepted_inputs (snd (run_guard GCheckThenSet 2 [0; 1; 0; 1]%nat)) [IPrompt true []; IPrompt true []]
  = [IPrompt true []; IPrompt true []].
Proof. vm_compute. reflexivity. Qed.

Lemma double_input_check_then_set_refuted :
  exists g sid (inps : list input) sched l,
    Forall (fun a => (a < length inps)%nat) sched /\ sched <> []
    /\ Interleave (map (run_session g sid None all_ok)
                       (accepted_inputs (snd (run_guard GCheckThenSet (length inps) sched)) inps)) l
    /\ ~ SessionShape (sess_stream sid l).
Proof.
  exists g_stub, 1, [IPrompt true []; IPrompt true []], [0; 1; 0; 1]%nat, s6_log.
  split; [repeat constructor|]. split; [discriminate|]. split; [|exact s6_not_shape].
  cbn [length]. rewrite s6_cts_accepted. apply (interleave_concat s6_runs).
Qed.

(* ---------- the cut ---------- *)
Lemma cut_floor_prefix n l : exists rest, l = cut_floor n l ++ rest.
Proof.
  revert n. induction l as [|b r IH]; intros n; cbn [cut_floor]; [exists []; reflexivity|].
  destruct (is_cont b).
  - destruct (IH n) as [rest E]. exists rest. cbn [app]. f_equal. exact E.
  - destruct (char_len b <=? n).
    + destruct (IH (n - char_len b)) as [rest E]. exists rest. cbn [app]. f_equal. exact E.
    + exists (b :: r). reflexivity.
Qed.

(* é (2 bytes) at offsets 1..2 of "xé…": a cut at 2 keeps "x", never half a character *)
Example cut_floor_demo : cut_floor 2 (seg_bytes [(120, 1); (233, 3)]) = [120]
  /\ cut_floor 3 (seg_bytes [(120, 1); (233, 3)]) = [120; 195; 169]
  /\ read_cut 2 (seg_bytes [(120, 1); (233, 3)]) = [120; 239; 191; 189].
Proof. vm_compute. repeat split. Qed.

(* well-formed UTF-8 by shape: characters = a lead byte followed by char_len - 1 continuation bytes *)
Inductive WfU8 : list N -> Prop :=
| WfU8_nil : WfU8 []
| WfU8_char : forall b cs rest,
    is_cont b = false -> nlen cs + 1 = char_len b -> forallb is_cont cs = true -> WfU8 rest ->
    WfU8 (b :: cs ++ rest).

Lemma cut_floor_conts n cs rest : forallb is_cont cs = true -> cut_floor n (cs ++ rest) = cs ++ cut_floor n rest.
Proof.
  induction cs as [|c cs IH]; intros F; cbn [app]; [reflexivity|].
  cbn [forallb] in F. apply andb_true_iff in F. destruct F as [Fc F].
  cbn [cut_floor]. rewrite Fc, IH by exact F. reflexivity.
Qed.

(* the cut of a well-formed text is a well-formed text of at most n bytes: never half a character *)
Theorem cut_floor_wf l : WfU8 l -> forall n, WfU8 (cut_floor n l) /\ nlen (cut_floor n l) <= n.
Proof.
  induction 1 as [|b cs rest Hb Hl Hc Hr IH]; intros n; cbn [cut_floor].
  - split; [constructor | unfold nlen; cbn [length]; lia].
  - rewrite Hb. destruct (char_len b <=? n) eqn:E.
    + apply N.leb_le in E. rewrite cut_floor_conts by exact Hc.
      destruct (IH (n - char_len b)) as [W L]. split.
      * constructor; assumption.
      * unfold nlen in *. cbn [length]. rewrite app_length. lia.
    + split; [constructor | unfold nlen; cbn [length]; lia].
Qed.

Ltac cmp_cases :=
  repeat match goal with
         | |- context [?a <? ?b] => destruct (N.ltb_spec a b)
         | |- context [?a <=? ?b] => destruct (N.leb_spec a b)
         end; cbn [andb]; try lia; auto.

Lemma cont_ok x : x < 64 -> is_cont (128 + x) = true.
Proof. intros H. unfold is_cont. cmp_cases. Qed.
Lemma lead1_ok x : x < 128 -> is_cont x = false /\ char_len x = 1.
Proof. intros H. unfold is_cont, char_len. split; cmp_cases. Qed.
Lemma lead2_ok x : x < 32 -> is_cont (192 + x) = false /\ char_len (192 + x) = 2.
Proof. intros H. unfold is_cont, char_len. split; cmp_cases. Qed.
Lemma lead3_ok x : x < 16 -> is_cont (224 + x) = false /\ char_len (224 + x) = 3.
Proof. intros H. unfold is_cont, char_len. split; cmp_cases. Qed.
Lemma lead4_ok x : is_cont (240 + x) = false /\ char_len (240 + x) = 4.
Proof. unfold is_cont, char_len. split; cmp_cases. Qed.

Lemma WfU8_app a b : WfU8 a -> WfU8 b -> WfU8 (a ++ b).
Proof.
  induction 1 as [|c cs rest Hb Hl Hc Hr IH]; intros Wb; cbn [app]; [exact Wb|].
  rewrite <- app_assoc. constructor; auto.
Qed.

Lemma WfU8_one b cs : is_cont b = false -> nlen cs + 1 = char_len b -> forallb is_cont cs = true -> WfU8 (b :: cs).
Proof. intros. rewrite <- (app_nil_r cs). constructor; auto. constructor. Qed.

(* the UTF-8 encoding of a code point is one well-formed character *)
Lemma utf8_enc_wf cp : WfU8 (utf8_enc cp).
Proof.
  unfold utf8_enc.
  destruct (N.ltb_spec cp 128) as [H1|H1].
  { destruct (lead1_ok cp H1) as [A B]. apply WfU8_one; [exact A | rewrite B; reflexivity | reflexivity]. }
  assert (M : forall y, y mod 64 < 64) by (intros y; apply N.mod_lt; lia).
  destruct (N.ltb_spec cp 2048) as [H2|H2].
  { assert (D : cp / 64 < 32) by (apply N.div_lt_upper_bound; lia).
    destruct (lead2_ok _ D) as [A B]. apply WfU8_one; [exact A | rewrite B; reflexivity |].
    cbn [forallb]. rewrite cont_ok by apply M. reflexivity. }
  destruct (N.ltb_spec cp 65536) as [H3|H3].
  { assert (D : cp / 4096 < 16) by (apply N.div_lt_upper_bound; lia).
    destruct (lead3_ok _ D) as [A B]. apply WfU8_one; [exact A | rewrite B; reflexivity |].
    cbn [forallb]. rewrite !cont_ok by apply M. reflexivity. }
  destruct (lead4_ok (cp / 262144)) as [A B]. apply WfU8_one; [exact A | rewrite B; reflexivity |].
  cbn [forallb]. rewrite !cont_ok by apply M. reflexivity.
Qed.

Lemma seg_bytes_wf sg : WfU8 (seg_bytes sg).
Proof.
  unfold seg_bytes. induction sg as [|[cp n] r IH]; cbn [flat_map]; [constructor|].
  apply WfU8_app; [|exact IH]. cbn [fst snd].
  induction (N.to_nat n) as [|m IHm]; cbn [rep_bytes]; [constructor | apply WfU8_app; [apply utf8_enc_wf | exact IHm]].
Qed.

(* whatever text the provider sends (given by code points), cutting it at ANY n gives a well-formed text of <= n bytes *)
Theorem cut_of_text_wf sg n : WfU8 (cut_floor n (seg_bytes sg)) /\ nlen (cut_floor n (seg_bytes sg)) <= n.
Proof. apply cut_floor_wf, seg_bytes_wf. Qed.

(* ---------- the single exit under failing side writes (run07d) ---------- *)
(* with nothing in the gate the failing side writes of a run change what it logs only through the outcomes they cause
   (inp_under: compile failure, failed auto checkpoint) - the run IS run_session on that input … *)
Lemma run_session_x_ungated gate f g sid link aok inp : gate_unconditional gate = true ->
  run_session_x gate f g sid link aok inp = run_session g sid link aok (inp_under f inp).
Proof. destruct gate; [reflexivity | discriminate]. Qed.

Lemma act_events_x_ungated gate swf aok a : gate_unconditional gate = true ->
  act_events_x gate swf aok a = act_events aok (act_under swf a).
Proof.
  intros G. destruct a as [g mid sid inp | g sid inp | j o]; cbn [act_events_x act_events act_under]; [| apply run_session_x_ungated, G | reflexivity].
  unfold post_message_x, post_message. rewrite (run_session_x_ungated gate (swf sid) g sid (Some mid) aok inp G). reflexivity.
Qed.

Lemma map_act_events_x_ungated gate swf aok acts : gate_unconditional gate = true ->
  map (act_events_x gate swf aok) acts = map (act_events aok) (map (act_under swf) acts).
Proof. intros G. rewrite map_map. apply map_ext. intros a. apply act_events_x_ungated, G. Qed.

(* act_under keeps every id: freshness is preserved *)
Lemma act_under_sids swf a : act_sids (act_under swf a) = act_sids a.
Proof. destruct a; reflexivity. Qed.
Lemma act_under_mids swf a : act_mids (act_under swf a) = act_mids a.
Proof. destruct a; reflexivity. Qed.
Lemma act_under_jobs swf a : act_jobs (act_under swf a) = act_jobs a.
Proof. destruct a; reflexivity. Qed.
Lemma flat_map_map_ext {A B} (f : A -> list B) (h : A -> A) l : (forall a, f (h a) = f a) -> flat_map f (map h l) = flat_map f l.
Proof. intros H. induction l as [|a l IH]; cbn [map flat_map]; [reflexivity | now rewrite H, IH]. Qed.
Lemma WfActs_under swf acts : WfActs acts -> WfActs (map (act_under swf) acts).
Proof.
  intros (A & B & C). unfold WfActs.
  rewrite (flat_map_map_ext act_sids _ acts (act_under_sids swf)), (flat_map_map_ext act_mids _ acts (act_under_mids swf)),
          (flat_map_map_ext act_jobs _ acts (act_under_jobs swf)).
  repeat split; assumption.
Qed.
Lemma In_post_under swf acts g mid sid inp : In (APost g mid sid inp) acts ->
  In (APost g mid sid (inp_under (swf sid) inp)) (map (act_under swf) acts).
Proof. intros H. apply (in_map (act_under swf)) in H. exact H. Qed.

(* … so every run announced on the thread is closed exactly once, whatever side writes fail in whichever runs … *)
Theorem one_end_per_spawn_x gate swf aok acts l g mid sid inp :
  gate_unconditional gate = true ->
  WfActs acts -> Interleave (map (act_events_x gate swf aok) acts) l -> In (APost g mid sid inp) acts ->
  aok (CMessage mid) = true -> aok (CRunSpawned sid mid) = true ->
  (forall r, aok (CRunEnded sid mid r) = true) ->
  count_ck (is_end_of sid) l = 1%nat.
Proof.
  intros G W I Ha. rewrite (map_act_events_x_ungated gate swf aok acts G) in I.
  exact (one_end_per_spawn aok _ l g mid sid _ (WfActs_under swf acts W) I (In_post_under swf acts g mid sid inp Ha)).
Qed.

(* … right after its own terminal session frame, with that frame's reason *)
Theorem thread_order_x gate swf aok acts l g mid sid inp :
  gate_unconditional gate = true ->
  WfActs acts -> Interleave (map (act_events_x gate swf aok) acts) l -> In (APost g mid sid inp) acts ->
  (forall k, aok k = true) ->
  exists pre q r,
    filter (of_run sid) l
    = EC (CRunSpawned sid mid) :: ES sid 0 SStarted :: pre ++ [ES sid q (SEnded r); EC (CRunEnded sid mid r)]
    /\ mid_kinds (map snd (sess_stream sid pre)) = true
    /\ ThreadShape sid mid (conts (filter (of_run sid) l)) r.
Proof.
  intros G W I Ha. rewrite (map_act_events_x_ungated gate swf aok acts G) in I.
  exact (thread_order aok _ l g mid sid _ (WfActs_under swf acts W) I (In_post_under swf acts g mid sid inp Ha)).
Qed.

(* the session stream keeps its shape under EVERY gate and failure pattern (the gate only concerns the thread frame) *)
Lemma sess_stream_run_session_x gate f g sid link aok inp :
  sess_stream sid (run_session_x gate f g sid link aok inp) = sess_stream sid (run_session g sid link aok (inp_under f inp)).
Proof.
  unfold run_session_x, run_session. cbn zeta. rewrite !sess_stream_app. f_equal.
  destruct link as [mid|]; [|reflexivity]. destruct (gate_open gate f); [reflexivity|].
  rewrite sess_stream_capp. reflexivity.
Qed.

(* a run whose gated side write fails: everything of run_session except the closing thread frame *)
Lemma run_session_x_closed gate f g sid mid aok inp : gate_open gate f = false ->
  run_session_x gate f g sid (Some mid) aok inp = ES sid 0 SStarted :: run_body g sid (Some mid) aok (inp_under f inp).
Proof. intros G. unfold run_session_x. cbn zeta. rewrite G, app_nil_r. reflexivity. Qed.

Lemma run_body_pre_ck g sid link aok inp : forallb (pre_ck sid) (conts (run_body g sid link aok inp)) = true.
Proof.
  destruct (run_body_struct g sid link aok inp) as (pre & q & r & E & _ & sel & n & cur & C & Hsel & Hcur).
  rewrite E, conts_app. cbn [conts flat_map app]. rewrite app_nil_r, C, !forallb_app.
  rewrite (forallb_repeat (pre_ck sid)) by (cbn [pre_ck]; apply N.eqb_refl).
  assert (S : forallb (pre_ck sid) sel = true).
  { destruct Hsel as [->|(mid & _ & ->)]; [reflexivity|]. rewrite conts_app, !conts_capp.
    destruct (aok (CSelection sid mid)), (aok (CCompiled sid)); cbn [app forallb pre_ck]; rewrite ?N.eqb_refl; reflexivity. }
  assert (U : forallb (pre_ck sid) cur = true).
  { destruct Hcur as [->| ->]; cbn [forallb pre_ck]; rewrite ?N.eqb_refl; reflexivity. }
  rewrite S, U. reflexivity.
Qed.

Lemma run_session_x_no_end gate f g sid mid aok inp : gate_open gate f = false ->
  count_ck (is_end_of sid) (run_session_x gate f g sid (Some mid) aok inp) = 0%nat.
Proof.
  intros G. rewrite (run_session_x_closed gate f g sid mid aok inp G).
  unfold count_ck. rewrite count_conts, conts_cons_s.
  rewrite (filter_none (is_end_of sid) (pre_ck sid) _ (fun k Hk => ltac:(destruct k; try discriminate; reflexivity)) (run_body_pre_ck g sid (Some mid) aok (inp_under f inp))).
  reflexivity.
Qed.

(* every non-empty gate can be closed by ONE failing side write (its first member) *)
Lemma side_write_eqb_refl w : side_write_eqb w w = true.
Proof. destruct w; reflexivity. Qed.
Lemma gate_closable gate : gate_unconditional gate = false ->
  exists w, In w gate /\ gate_open gate (side_write_eqb w) = false.
Proof.
  destruct gate as [|w rest]; [discriminate|]. intros _. exists w. split; [left; reflexivity|].
  unfold gate_open. cbn [existsb]. rewrite side_write_eqb_refl. reflexivity.
Qed.

(* REFUTATION witness for a gate holding the snapshot (the seeded change C07-9: `if let (Some(link), Ok(_)) =
   (continuity_run, snapshot)`): a `bash` envelope replaces <data>/snapshots by a regular file, so write_snapshot fails in
   that run and in every later run of the store; the next post is a plain prompt.  Both runs are announced on the thread,
   both write their terminal session frame, neither is ever closed. *)
Definition swf_snapshot_dir_damaged : N -> side_write -> bool := fun _ w => side_write_eqb w SwSnapshot.
Definition gated_acts : list act :=
  [APost g_stub 7 1 (ITool true {| t_auto := 0; t_res := TDone 0 0 |}); APost g_stub 8 2 (IPrompt true [])].
Definition gated_log : list ev := concat (map (act_events_x [SwSnapshot] swf_snapshot_dir_damaged all_ok) gated_acts).
Lemma gated_wf : WfActs gated_acts.
Proof. unfold WfActs, gated_acts. cbn. repeat split; repeat constructor; cbn; intuition discriminate. Qed.
Lemma gated_facts :
  count_ck (is_spawn_of 7) gated_log = 1%nat /\ count_ck (is_end_of 1) gated_log = 0%nat
  /\ count_ck (is_spawn_of 8) gated_log = 1%nat /\ count_ck (is_end_of 2) gated_log = 0%nat
  /\ map snd (sess_stream 1 gated_log) = [SStarted; SToolStarted; SToolEnded; SOutput; SEnded R_COMPLETED]
  /\ map snd (sess_stream 2 gated_log) = [SStarted; SOutput; SEnded R_COMPLETED].
Proof. vm_compute. repeat split; reflexivity. Qed.
Lemma end_lost_when_snapshot_gates_refuted :
  exists swf acts l g1 mid1 sid1 inp1 g2 mid2 sid2 inp2,
    WfActs acts /\ Interleave (map (act_events_x [SwSnapshot] swf all_ok) acts) l
    /\ In (APost g1 mid1 sid1 inp1) acts /\ In (APost g2 mid2 sid2 inp2) acts /\ sid1 <> sid2
    /\ count_ck (is_spawn_of mid1) l = 1%nat /\ count_ck (is_end_of sid1) l = 0%nat
    /\ count_ck (is_spawn_of mid2) l = 1%nat /\ count_ck (is_end_of sid2) l = 0%nat.
Proof.
  exists swf_snapshot_dir_damaged, gated_acts, gated_log, g_stub, 7, 1, (ITool true {| t_auto := 0; t_res := TDone 0 0 |}), g_stub, 8, 2, (IPrompt true []).
  split; [exact gated_wf|]. split; [apply interleave_concat|]. split; [left; reflexivity|]. split; [right; left; reflexivity|].
  split; [discriminate|]. destruct gated_facts as (A & B & C & D & _). repeat split; assumption.
Qed.

(* the same store under the gate the code has: both runs are closed (non-vacuity of one_end_per_spawn_x) *)
Definition ungated_log : list ev := concat (map (act_events_x EXIT_GATE swf_snapshot_dir_damaged all_ok) gated_acts).
Lemma ungated_facts :
  Interleave (map (act_events_x EXIT_GATE swf_snapshot_dir_damaged all_ok) gated_acts) ungated_log
  /\ conts ungated_log = [CMessage 7; CRunSpawned 1 7; CSideEffects 1; CRunEnded 1 7 R_COMPLETED; CMessage 8; CRunSpawned 2 8; CRunEnded 2 8 R_COMPLETED].
Proof. split; [apply interleave_concat | vm_compute; reflexivity]. Qed.

(* failing artifact / checkpoint writes BEFORE the exit: a linked provider run whose context bundle cannot be written
   ends context_compile_failed, a `write` envelope whose auto checkpoint cannot be written logs checkpoint_failed and runs
   the tool - and both are closed on the thread, with those reasons *)
Definition swf_workspace_damaged : N -> side_write -> bool :=
  fun _ w => match w with SwArtifacts | SwCheckpoints => true | _ => false end.
Definition ws_damaged_acts : list act :=
  [APost g_prov 7 1 (IPrompt true [ROk [true] true []]);
   APost g_stub 8 2 (ITool true {| t_auto := 1; t_res := TDone 1 0 |})].
Definition ws_damaged_log : list ev := concat (map (act_events_x EXIT_GATE swf_workspace_damaged all_ok) ws_damaged_acts).
Lemma ws_damaged_facts :
  map snd (sess_stream 1 ws_damaged_log) = [SStarted; SEnded R_COMPILE_FAILED]
  /\ map snd (sess_stream 2 ws_damaged_log) = [SStarted; SCkFailed; SToolStarted; SToolStdout; SToolEnded; SOutput; SEnded R_COMPLETED]
  /\ conts ws_damaged_log = [CMessage 7; CRunSpawned 1 7; CRunEnded 1 7 R_COMPILE_FAILED; CMessage 8; CRunSpawned 2 8; CSideEffects 2; CRunEnded 2 8 R_COMPLETED].
Proof. vm_compute. repeat split; reflexivity. Qed.

Lemma gated_run_never_ended gate : gate_unconditional gate = false ->
  exists w, In w gate /\
    forall (g : cfg) (sid mid : N) (aok : ck -> bool) (inp : input),
      count_ck (is_end_of sid) (run_session_x gate (side_write_eqb w) g sid (Some mid) aok inp) = 0%nat
      /\ SessionShape (sess_stream sid (run_session_x gate (side_write_eqb w) g sid (Some mid) aok inp)).
Proof.
  intros G. destruct (gate_closable gate G) as (w & Hw & C). exists w. split; [exact Hw|].
  intros g sid mid aok inp. split; [apply run_session_x_no_end, C|].
  rewrite sess_stream_run_session_x. apply run_session_shape.
Qed.

(* ---------- a closed gate, store-wide: one damaged side write leaves EVERY announced run open ---------- *)
(* with the gate closed in every run the store behaves exactly as if every run_ended append failed *)
Definition never_end (aok : ck -> bool) (k : ck) : bool :=
  match k with CRunEnded _ _ _ => false | _ => aok k end.

Lemma pre_ck_forall_in sid l : forallb (pre_ck sid) (conts l) = true ->
  forall e, In e l -> match e with EC k => pre_ck sid k = true | ES _ _ _ => True end.
Proof.
  induction l as [|x l IH]; intros F e Hin; [destruct Hin|].
  assert (Fx : match x with EC k => pre_ck sid k = true | ES _ _ _ => True end /\ forallb (pre_ck sid) (conts l) = true).
  { destruct x as [s q k|k]; [split; [exact I | exact F]|].
    rewrite conts_cons_c in F. cbn [forallb] in F. apply andb_true_iff in F. exact F. }
  destruct Fx as [Fx Fl]. destruct Hin as [<-|Hin]; [exact Fx | exact (IH Fl e Hin)].
Qed.

Lemma run_body_never_end g sid link aok inp :
  run_body g sid link (never_end aok) inp = run_body g sid link aok inp.
Proof.
  rewrite (run_body_keeps g sid link (never_end aok) inp), (run_body_keeps g sid link aok inp).
  apply filter_ext_in. intros e Hin.
  pose proof (pre_ck_forall_in sid _ (run_body_pre_ck g sid link all_ok inp) e Hin) as P.
  destruct e as [s q k|k]; [reflexivity|]. cbn [keeps]. destruct k; try reflexivity. discriminate.
Qed.

Lemma run_session_x_closed_as_never_end gate f g sid link aok inp : gate_open gate f = false ->
  run_session_x gate f g sid link aok inp = run_session g sid link (never_end aok) (inp_under f inp).
Proof.
  intros G. unfold run_session_x, run_session. cbn zeta. rewrite G, run_body_never_end.
  destruct link as [mid|]; [|reflexivity]. unfold capp. cbn [never_end]. reflexivity.
Qed.

Lemma act_events_x_closed gate f aok a :
  gate_open gate f = false ->
  act_events_x gate (fun _ => f) aok a = act_events (never_end aok) (act_under (fun _ => f) a).
Proof.
  intros G. destruct a as [g mid sid inp | g sid inp | j o]; cbn [act_events_x act_events act_under].
  - unfold post_message_x, post_message. cbn [never_end].
    rewrite (run_session_x_closed_as_never_end gate f g sid (Some mid) aok inp G). reflexivity.
  - apply run_session_x_closed_as_never_end, G.
  - unfold job, job_run. cbn [never_end]. destruct o; unfold capp; cbn [never_end]; reflexivity.
Qed.

Theorem gated_store_never_ends gate : gate_unconditional gate = false ->
  exists w, In w gate /\
    forall (aok : ck -> bool) (acts : list act) (l : list ev) (g : cfg) (mid sid : N) (inp : input),
      WfActs acts -> Interleave (map (act_events_x gate (fun _ => side_write_eqb w) aok) acts) l ->
      In (APost g mid sid inp) acts -> aok (CMessage mid) = true -> aok (CRunSpawned sid mid) = true ->
      count_ck (is_spawn_of mid) l = 1%nat /\ count_ck (is_end_of sid) l = 0%nat.
Proof.
  intros G. destruct (gate_closable gate G) as (w & Hw & C). exists w. split; [exact Hw|].
  intros aok acts l g mid sid inp W I Ha O1 O2.
  set (swf := fun _ : N => side_write_eqb w) in *.
  assert (E : map (act_events_x gate swf aok) acts = map (act_events (never_end aok)) (map (act_under swf) acts)).
  { rewrite map_map. apply map_ext. intros a. apply act_events_x_closed, C. }
  rewrite E in I. pose proof (WfActs_under swf acts W) as W'. pose proof (In_post_under swf acts g mid sid inp Ha) as Ha'.
  split.
  - apply (one_spawn_per_message (never_end aok) _ l g mid sid _ W' I Ha'); assumption.
  - destruct (count_end_general (never_end aok) _ l g mid sid _ W' I Ha' O1 O2) as [r ->]. reflexivity.
Qed.
