(* C12 — concrete instances showing that the hypotheses of the theorems in Props/C12.v are satisfiable
   by non-trivial inputs (all by computation). *)
From RipV Require Import Base.Prelude Base.Fs Model.Patch Proofs.FsProofs Proofs.PatchProofs Proofs.PatchAtomic Proofs.PatchText.
Require Import Coq.Strings.String.
Open Scope N_scope.
Open Scope list_scope.

(* a workspace with a CRLF file and a nested file; a patch that updates+moves, adds and deletes *)
Definition ex_fs : fs :=
  [([bs "a.txt"], File (bs "one" ++ [13; 10] ++ bs "two" ++ [13; 10]));
   ([bs "d"], Dir); ([bs "d"; bs "x.txt"], File (bs "x" ++ [10]))].
Definition ex_patch_ok : list N :=
  nl_join [bs "*** Begin Patch"; bs "*** Update File: a.txt"; bs "*** Move to: n/b.txt"; bs "@@"; bs "-one"; bs "+ONE";
           bs "*** Add File: a.txt"; bs "+again"; bs "*** Delete File: d/x.txt"; bs "*** End Patch"].
Definition ex_after_ok : fs :=
  [([bs "a.txt"], File (bs "again" ++ [10]));
   ([bs "n"; bs "b.txt"], File (bs "ONE" ++ [13; 10] ++ bs "two" ++ [13; 10]));
   ([bs "n"], Dir); ([bs "d"], Dir)].
Definition ex_changed : list (list N) := [bs "a.txt"; bs "d/x.txt"; bs "n/b.txt"].

Lemma ex_wf : wf_fsb ex_fs = true. Proof. vm_compute. reflexivity. Qed.
Lemma ex_ok_run : apply_patch true [] ex_fs ex_patch_ok = Applied ex_after_ok ex_changed.
Proof. vm_compute. reflexivity. Qed.

(* the same operations followed by one that cannot be performed: everything is rolled back, the
   directory n created on the way stays *)
Definition ex_patch_fail : list N :=
  nl_join [bs "*** Begin Patch"; bs "*** Update File: a.txt"; bs "*** Move to: n/b.txt"; bs "@@"; bs "-one"; bs "+ONE";
           bs "*** Add File: a.txt"; bs "+again"; bs "*** Delete File: d/x.txt";
           bs "*** Update File: n/b.txt"; bs "@@"; bs "-not there"; bs "+x"; bs "*** End Patch"].
Definition ex_after_fail : fs :=
  [([bs "a.txt"], File (bs "one" ++ [13; 10] ++ bs "two" ++ [13; 10]));
   ([bs "d"; bs "x.txt"], File (bs "x" ++ [10]));
   ([bs "n"], Dir); ([bs "d"], Dir)].
Lemma ex_fail_run : apply_patch true [] ex_fs ex_patch_fail = Failed ex_after_fail EINVALDATA.
Proof. vm_compute. reflexivity. Qed.

Definition ex_bad_patch : list N := nl_join [bs "*** Begin Patch"; bs "*** Add File: ../x"; bs "+1"; bs "*** End Patch"].
Lemma ex_malformed : parse_patch ex_bad_patch = None.
Proof. vm_compute. reflexivity. Qed.
Lemma ex_parsed : exists ops, parse_patch ex_patch_ok = Some ops /\ List.length ops = 3%nat.
Proof. eexists. split; [vm_compute; reflexivity|reflexivity]. Qed.

(* hunks *)
Definition ex_lines : list line := [bs "a"; bs "b"; bs "a"; bs "b"; bs "c"].
Definition ex_h1 : hunk := {| h_before := [bs "a"; bs "b"]; h_after := [bs "A"] |}.
Definition ex_hunks_result : list line := [bs "A"; bs "A"; bs "c"].
Lemma ex_hunks_run : apply_hunks_lines ex_lines 0 [ex_h1; ex_h1] = Some ex_hunks_result.
Proof. vm_compute. reflexivity. Qed.
Lemma ex_hunks_fail : apply_hunks_lines ex_lines 0 [ex_h1; ex_h1; ex_h1] = None.
Proof. vm_compute. reflexivity. Qed.
Definition ex_lf_in : list N := bs "a" ++ [10] ++ bs "b" ++ [10].
Definition ex_lf_hunk : hunk := {| h_before := [bs "b"]; h_after := [bs "B"; bs "C"] |}.
Definition ex_lf_out : list N := bs "a" ++ [10] ++ bs "B" ++ [10] ++ bs "C" ++ [10].
Lemma ex_text_lf : apply_hunks_to_text ex_lf_in [ex_lf_hunk] = Some ex_lf_out.
Proof. vm_compute. reflexivity. Qed.
