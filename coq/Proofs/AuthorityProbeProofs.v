(* C18 — the liveness probe as part of the decision "this authority is gone" (Model/AuthorityProbe.v).
   For EVERY classification table satisfying probe_wf (the T1 obligation on the table extracted from pid_liveness):
   only ESRCH is classified Dead; a process that exists is never classified Dead, whoever asks; the lock protocol with the
   probe inside (run_p) IS the protocol of Model/Authority.v (run), for every permission relation between the processes —
   so every theorem about `run` holds with real probes between processes of different uids.  Refuted for the table that
   classifies EPERM as Dead (seeded change C18-9): a contender that may not signal the live authority takes its lock. *)
From RipV Require Import Base.Prelude Model.Authority Model.AuthorityProbe.
From RipV Require Import Proofs.AuthorityInv Proofs.AuthorityTake.

Lemma is_alive_eq l : is_alive l = true -> l = LvAlive.
Proof. destruct l; cbn; congruence. Qed.
Lemma is_dead_eq l : is_dead l = true <-> l = LvDead.
Proof. destruct l; cbn; split; congruence. Qed.

Lemma wf_parts t : probe_wf t = true ->
  pt_signal t = 0 /\ is_alive (pt_ok t) = true /\ is_dead (pt_default t) = false
  /\ forallb (fun kv => negb (is_dead (snd kv)) || (fst kv =? ESRCH)) (pt_arms t) = true
  /\ is_dead (liveness_of t (PrErr ESRCH)) = true /\ is_alive (liveness_of t (PrErr EPERM)) = true.
Proof.
  unfold probe_wf. rewrite !andb_true_iff, negb_true_iff, N.eqb_eq. tauto.
Qed.

Lemma arm_lookup_dead arms d e :
  forallb (fun kv => negb (is_dead (snd kv)) || (fst kv =? ESRCH)) arms = true ->
  is_dead d = false -> is_dead (arm_lookup arms e d) = true -> e = ESRCH.
Proof.
  induction arms as [|[k v] r IH]; cbn [arm_lookup forallb fst snd]; intros H Hd Hl.
  - congruence.
  - apply andb_true_iff in H. destruct H as [H1 H2]. destruct (k =? e) eqn:E.
    + apply N.eqb_eq in E. subst k. apply orb_true_iff in H1. destruct H1 as [H1|H1].
      * rewrite Hl in H1. discriminate.
      * apply N.eqb_eq. exact H1.
    + apply IH; assumption.
Qed.

(* ---- only "no such process" is classified Dead *)
Theorem probe_dead_only_esrch t : probe_wf t = true ->
  forall o, liveness_of t o = LvDead -> o = PrErr ESRCH.
Proof.
  intros W o H. destruct (wf_parts t W) as [_ [Hok [Hd [Harms _]]]]. destruct o as [|e].
  - cbn [liveness_of] in H. rewrite H in Hok. discriminate.
  - cbn [liveness_of] in H. f_equal. apply (arm_lookup_dead (pt_arms t) (pt_default t) e Harms Hd).
    rewrite H. reflexivity.
Qed.

(* ---- exists => never Dead (Alive, in fact), whether or not the caller may signal it *)
Theorem probe_exists_is_alive t : probe_wf t = true ->
  forall permitted, liveness_of t (kill0 true permitted) = LvAlive.
Proof.
  intros W p. destruct (wf_parts t W) as [_ [Hok [_ [_ [_ Hp]]]]]. destruct p; cbn [kill0].
  - cbn [liveness_of]. apply is_alive_eq. exact Hok.
  - apply is_alive_eq. exact Hp.
Qed.
Theorem probe_exists_never_dead t : probe_wf t = true ->
  forall permitted, liveness_of t (kill0 true permitted) <> LvDead.
Proof. intros W p. rewrite (probe_exists_is_alive t W p). discriminate. Qed.

(* ---- a gone process is recognised (recovery does not depend on permissions either) *)
Theorem probe_gone_is_dead t : probe_wf t = true ->
  forall permitted, liveness_of t (kill0 false permitted) = LvDead.
Proof.
  intros W p. destruct (wf_parts t W) as [_ [_ [_ [_ [He _]]]]]. cbn [kill0]. apply is_dead_eq. exact He.
Qed.

(* ---- the answer the loops act on is the truth, for every caller *)
Theorem probed_is_truth t perm ps me p : probe_wf t = true -> probed t perm ps me p = pid_alive ps p.
Proof.
  intros W. unfold probed, says_alive. destruct (pid_alive ps p).
  - rewrite (probe_exists_is_alive t W). reflexivity.
  - rewrite (probe_gone_is_dead t W). reflexivity.
Qed.

(* ---- the loops enter a cleanup (stale: StExists; corrupt next to a meta.json: CoRename) only on ESRCH *)
Theorem cleanup_only_after_esrch t : probe_wf t = true ->
  forall (ag : bool) (ps : list proc) (o : N) (p : pid) (out : probe),
  (server_next ag ps o (RLive p (says_alive t out)) = StExists p -> out = PrErr ESRCH)
  /\ (client_next ag ps o (RLive p (says_alive t out)) = StExists p -> out = PrErr ESRCH)
  /\ (client_next ag ps o (RLiveM p (says_alive t out)) = LockExistsM p -> out = PrErr ESRCH).
Proof.
  intros W ag ps o p out. unfold says_alive.
  destruct (is_dead (liveness_of t out)) eqn:E.
  - apply is_dead_eq in E. pose proof (probe_dead_only_esrch t W out E) as H. repeat split; intros _; exact H.
  - cbn [negb server_next client_next]. repeat split; intros H; try discriminate;
      destruct (o_deadline o); discriminate.
Qed.

(* ---- the protocol with the probe inside is the protocol of Model/Authority.v *)
Lemma micro_p_eq t perm ag s o q : probe_wf t = true -> micro_p t perm ag s o q = micro ag s o q.
Proof.
  intros W. unfold micro_p, micro. destruct (p_pc q); try reflexivity;
    rewrite (probed_is_truth t perm (s_procs s) (p_pid q) p W); reflexivity.
Qed.
Lemma step_p_eq t perm ag s e : probe_wf t = true -> step_p t perm ag s e = step ag s e.
Proof.
  intros W. destruct e as [i o|i]; [|reflexivity]. cbn [step_p step].
  destruct (nth_error (s_procs s) i) as [q|]; [|reflexivity].
  destruct (p_alive q); [|reflexivity]. rewrite (micro_p_eq t perm ag s o q W). reflexivity.
Qed.
Theorem run_p_eq t perm ag : probe_wf t = true -> forall es s, run_p t perm ag s es = run ag s es.
Proof.
  intros W es. unfold run_p, run. induction es as [|e r IH]; intros s; [reflexivity|].
  cbn [fold_left]. rewrite (step_p_eq t perm ag s e W). apply IH.
Qed.

(* ---- hence: a live authority is never disturbed by contenders of ANY uid (may or may not signal it) *)
Theorem probed_live_authority_never_disturbed :
  forall (t : ptable) (perm : pid -> pid -> bool), probe_wf t = true ->
  forall (ag : bool) (b : pid) (m : metaf) (cs : list proc) (es : list event),
  (forall q, In q cs -> contender q) ->
  (forall e, In e es -> ev_idx e <> 0%nat) ->
  s_lock (run_p t perm ag (init (LRec b) m (serving b :: cs)) es) = LRec b
  /\ s_meta (run_p t perm ag (init (LRec b) m (serving b :: cs)) es) = m
  /\ holders (run_p t perm ag (init (LRec b) m (serving b :: cs)) es) = [b]
  /\ s_took_lock (run_p t perm ag (init (LRec b) m (serving b :: cs)) es) = false
  /\ s_took_meta (run_p t perm ag (init (LRec b) m (serving b :: cs)) es) = false.
Proof.
  intros t perm W ag b m cs es Hc He. rewrite (run_p_eq t perm ag W). apply live_authority_never_disturbed; assumption.
Qed.

Theorem probed_two_authorities_only_by_taking_a_live_lock :
  forall (t : ptable) (perm : pid -> pid -> bool), probe_wf t = true ->
  forall (ag : bool) (l : lockf) (m : metaf) (ps : list proc) (es : list event),
  init_ok l m ps ->
  s_took_lock (run_p t perm ag (init l m ps) es) = false ->
  (length (holders (run_p t perm ag (init l m ps) es)) <= 1)%nat
  /\ (forall p, In p (holders (run_p t perm ag (init l m ps) es)) ->
                lock_pid (s_lock (run_p t perm ag (init l m ps) es)) = Some p).
Proof.
  intros t perm W ag l m ps es Hi. rewrite (run_p_eq t perm ag W). apply two_authorities_only_by_taking. exact Hi.
Qed.

(* ------------------------------------------------------------------ the obligation is met by the expected table, not by C18-9's *)
Lemma full_probe_table_wf : probe_wf full_probe_table = true.
Proof. vm_compute. reflexivity. Qed.
Lemma eperm_dead_table_not_wf : probe_wf eperm_dead_table = false.
Proof. vm_compute. reflexivity. Qed.

(* hypotheses of probed_live_authority_never_disturbed are satisfiable: authority 800 (root), contender 101 (another uid:
   nobody may signal anybody else), 13 steps of the contender's server loop with the endpoint silent *)
Definition no_perm : pid -> pid -> bool := fun a b => a =? b.
Definition uid_procs : list proc := [fresh 101 DServer].
Definition uid_init : state := init (LRec 800) (MRec 800) (serving 800 :: uid_procs).
Definition uid_sched : list event := repeat (Step 1%nat 0) 13.
Lemma uid_example :
  probe_wf full_probe_table = true
  /\ (forall q, In q uid_procs -> contender q)
  /\ (forall e, In e uid_sched -> ev_idx e <> 0%nat).
Proof.
  split; [exact full_probe_table_wf|]. split.
  - intros q [H|[]]. subst q. left. reflexivity.
  - intros e H. apply repeat_spec in H. subst e. cbn. discriminate.
Qed.

(* C18-9: with EPERM classified Dead the same 13 steps take the live authority's lock and meta and make a second authority *)
Definition uid_final_eperm_dead : state := run_p eperm_dead_table no_perm true uid_init uid_sched.
Lemma eperm_dead_takes_live_lock :
  exists (perm : pid -> pid -> bool) (sched : list event),
    holders (run_p eperm_dead_table perm true uid_init sched) = [800; 101]
    /\ s_lock (run_p eperm_dead_table perm true uid_init sched) = LRec 101
    /\ s_took_lock (run_p eperm_dead_table perm true uid_init sched) = true
    /\ s_took_meta (run_p eperm_dead_table perm true uid_init sched) = true.
Proof. exists no_perm, uid_sched. vm_compute. repeat split; reflexivity. Qed.
(* ... and with the expected table they leave everything alone (an instance of the theorem, computed) *)
Lemma full_table_same_schedule :
  holders (run_p full_probe_table no_perm true uid_init uid_sched) = [800]
  /\ s_lock (run_p full_probe_table no_perm true uid_init uid_sched) = LRec 800.
Proof. vm_compute. split; reflexivity. Qed.
