(* C16 on top of C15 — proofs.  (1) The cpipe of Model/ToolLoopSse.v is C15's pipe with a ghost: erasing the second
   component gives Sse.pb_loop / run_chunks / run_pipe (any obs_flags).  (2) With both feeds (OBS_BOTH = /repo) the
   collector has observed exactly the payloads of the event frames the pipe emitted — and by C15's frames_of_whole
   those are the events of the chunking-free specification of the BODY (lossy UTF-8 decoding, field rules over all
   lines incl. an unterminated last line, cut after [DONE]).  (3) c16_emitted_call_answered restated from the body
   bytes.  (4) The pipe whose finish() does not feed the collector: refuted with a CRLF body cut between the CR and
   the LF of its final blank line. *)
From Coq Require Import Strings.String.   (* before the rest: List's names win *)
From RipV Require Import Model.ToolLoopSse Proofs.ToolLoopProofs.
From RipV Require Import Base.Utf8 Proofs.Utf8Proofs.
From RipV Require Model.Sse Model.SseJson Proofs.SseProofs.
Import ListNotations.

(* ---------------------------------------------------------------- frames <-> payloads *)
Lemma frame_data_app a b : frame_data (a ++ b) = frame_data a ++ frame_data b.
Proof. unfold frame_data. apply flat_map_app. Qed.

Lemma evs_data_app a b : evs_data (a ++ b) = evs_data a ++ evs_data b.
Proof. unfold evs_data. apply flat_map_app. Qed.

Lemma frame_data_ev_frames s e : frame_data (Sse.ev_frames s e) = ev_data e.
Proof.
  unfold Sse.ev_frames, Sse.prov_frame, ev_data, frame_data.
  destruct (Sse.pe_delta e); destruct (Sse.pe_kind e =? 2) eqn:K; cbn [flat_map frame_data1 app];
    try (destruct (Sse.pe_data e); cbn [N.eqb Pos.eqb app]; reflexivity).
  all: rewrite ?K; reflexivity.
Qed.

Lemma frame_data_frames_from E : forall s, frame_data (Sse.frames_from s E) = evs_data E.
Proof.
  induction E as [|e r IH]; intros s; [reflexivity|].
  cbn [Sse.frames_from]. rewrite frame_data_app, frame_data_ev_frames, IH. reflexivity.
Qed.

(* a frame with status "event" and data is among the frames iff its data is among the observed payloads *)
Lemma in_frame_data fs s ev raw d errs rerrs :
  In (Sse.FProv s 2 ev raw (Some d) errs rerrs) fs -> In d (frame_data fs).
Proof.
  intros H. unfold frame_data. apply in_flat_map. eexists. split; [exact H|]. cbn. left. reflexivity.
Qed.

Section Pipe.
Variable classify : option str -> str -> Sse.cls.
Variable off : N.

Definition erase (r : list N * cpipe * bool) : list N * Sse.pipe * bool :=
  (fst (fst r), fst (snd (fst r)), snd r).

(* ---------------------------------------------------------------- (1) the cpipe is C15's pipe + a ghost *)
Lemma push_c_erase ob cp t :
  (fst (fst (push_sse_str_c classify ob off cp t)), snd (push_sse_str_c classify ob off cp t))
  = Sse.push_sse_str classify Sse.FIXED off (fst cp) t.
Proof.
  unfold push_sse_str_c, Sse.push_sse_str. cbn [Sse.fx_cut Sse.FIXED].
  destruct (Sse.dec_push classify (Sse.p_dec (fst cp)) t) as [d parsed]. reflexivity.
Qed.

Lemma finish_c_erase ob cp :
  (fst (fst (pipe_finish_c classify ob off cp)), snd (pipe_finish_c classify ob off cp))
  = Sse.pipe_finish classify Sse.FIXED off (fst cp).
Proof.
  unfold pipe_finish_c, Sse.pipe_finish. cbn [Sse.fx_cut Sse.FIXED].
  destruct (Sse.dec_finish classify (Sse.p_dec (fst cp))) as [d parsed]. reflexivity.
Qed.

Lemma pb_loop_c_erase ob fuel : forall buf cp,
  erase (pb_loop_c classify ob off fuel buf cp) = Sse.pb_loop classify Sse.FIXED off fuel buf (fst cp).
Proof.
  induction fuel as [|f IH]; intros buf cp; cbn [pb_loop_c Sse.pb_loop]; [reflexivity|].
  cbn [Sse.fx_drain0 Sse.FIXED].
  destruct (from_utf8 buf) as [text|text valid rest elen].
  - pose proof (push_c_erase ob cp text) as P.
    destruct (push_sse_str_c classify ob off cp text) as [p1 d1].
    destruct (Sse.push_sse_str classify Sse.FIXED off (fst cp) text) as [q1 e1].
    cbn [fst snd] in P. inversion P; subst. reflexivity.
  - destruct valid as [|v].
    + destruct elen as [k|]; [|reflexivity].
      pose proof (push_c_erase ob cp [FFFD]) as P.
      destruct (push_sse_str_c classify ob off cp [FFFD]) as [p1 d1].
      destruct (Sse.push_sse_str classify Sse.FIXED off (fst cp) [FFFD]) as [q1 e1].
      cbn [fst snd] in P. inversion P; subst. destruct e1; [reflexivity|]. apply IH.
    + pose proof (push_c_erase ob cp text) as P.
      destruct (push_sse_str_c classify ob off cp text) as [p1 d1].
      destruct (Sse.push_sse_str classify Sse.FIXED off (fst cp) text) as [q1 e1].
      cbn [fst snd] in P. inversion P; subst. destruct e1; [reflexivity|].
      destruct elen as [k|]; [|reflexivity].
      pose proof (push_c_erase ob p1 [FFFD]) as P2.
      destruct (push_sse_str_c classify ob off p1 [FFFD]) as [p2 d2].
      destruct (Sse.push_sse_str classify Sse.FIXED off (fst p1) [FFFD]) as [q2 e2].
      cbn [fst snd] in P2. inversion P2; subst. destruct e2; [reflexivity|]. apply IH.
Qed.

Lemma run_chunks_c_sim ob cs : forall buf cp,
  erase (run_chunks_c classify ob off buf cp cs) = Sse.run_chunks classify Sse.FIXED off buf (fst cp) cs.
Proof.
  induction cs as [|c r IH]; intros buf cp; cbn [run_chunks_c Sse.run_chunks]; [reflexivity|].
  unfold push_bytes_c, Sse.push_bytes.
  pose proof (pb_loop_c_erase ob (S (length (buf ++ c))) (buf ++ c) cp) as P.
  destruct (pb_loop_c classify ob off (S (length (buf ++ c))) (buf ++ c) cp) as [[b1 p1] d1].
  destruct (Sse.pb_loop classify Sse.FIXED off (S (length (buf ++ c))) (buf ++ c) (fst cp)) as [[b2 p2] d2].
  unfold erase in P. cbn [fst snd] in P. inversion P; subst. destruct d2; [reflexivity|]. apply IH.
Qed.

(* whatever feeds the collector, the frames are C15's frames: the events finish() flushes are logged as frames *)
Theorem frames_c_is_frames_of ob cs :
  frames_c classify ob off cs = Sse.frames_of classify Sse.FIXED off cs.
Proof.
  unfold frames_c, run_pipe_c, Sse.frames_of, Sse.run_pipe.
  pose proof (run_chunks_c_sim ob cs [] (Sse.pipe_new, [])) as P.
  destruct (run_chunks_c classify ob off [] (Sse.pipe_new, []) cs) as [[b1 p1] d1].
  cbn [fst] in P.
  destruct (Sse.run_chunks classify Sse.FIXED off [] Sse.pipe_new cs) as [[b2 p2] d2].
  unfold erase in P. cbn [fst snd] in P. inversion P; subst. destruct d2; [reflexivity|].
  pose proof (finish_c_erase ob p1) as F.
  destruct (pipe_finish_c classify ob off p1) as [q1 e1].
  destruct (Sse.pipe_finish classify Sse.FIXED off (fst p1)) as [q2 e2].
  cbn [fst snd] in F. inversion F; subst. reflexivity.
Qed.

(* ---------------------------------------------------------------- (2) both feeds: observed = emitted *)
Definition CInv (cp : cpipe) (E : list Sse.pev) : Prop :=
  SseProofs.WF off (fst cp) E /\ snd cp = evs_data E.

Lemma with_dec_WF p d E : SseProofs.WF off p E -> SseProofs.WF off (Sse.with_dec p d) E.
Proof. intros [Ho Hm]. split; assumption. Qed.

Lemma push_c_inv cp t E : CInv cp E ->
  exists E', CInv (fst (push_sse_str_c classify OBS_BOTH off cp t)) E'.
Proof.
  intros [W S]. unfold push_sse_str_c.
  destruct (Sse.dec_push classify (Sse.p_dec (fst cp)) t) as [d parsed]. cbn [fst snd ob_push OBS_BOTH].
  exists (E ++ Sse.upto_done parsed). split; cbn [fst snd].
  - apply (SseProofs.emit_evs_WF off (Sse.upto_done parsed) (Sse.with_dec (fst cp) d) E). apply with_dec_WF; exact W.
  - rewrite S, evs_data_app. reflexivity.
Qed.

Lemma finish_c_inv cp E : CInv cp E ->
  exists E', CInv (fst (pipe_finish_c classify OBS_BOTH off cp)) E'.
Proof.
  intros [W S]. unfold pipe_finish_c.
  destruct (Sse.dec_finish classify (Sse.p_dec (fst cp))) as [d parsed]. cbn [fst snd ob_finish OBS_BOTH].
  exists (E ++ Sse.upto_done parsed). split; cbn [fst snd].
  - apply (SseProofs.emit_evs_WF off (Sse.upto_done parsed) (Sse.with_dec (fst cp) d) E). apply with_dec_WF; exact W.
  - rewrite S, evs_data_app. reflexivity.
Qed.

Lemma pb_loop_c_inv fuel : forall buf cp E, CInv cp E ->
  exists E', CInv (snd (fst (pb_loop_c classify OBS_BOTH off fuel buf cp))) E'.
Proof.
  induction fuel as [|f IH]; intros buf cp E H; cbn [pb_loop_c]; [exists E; exact H|].
  destruct (from_utf8 buf) as [text|text valid rest elen].
  - destruct (push_c_inv cp text E H) as [E1 H1].
    destruct (push_sse_str_c classify OBS_BOTH off cp text) as [p1 d1]. exists E1. exact H1.
  - destruct valid as [|v].
    + destruct elen as [k|]; [|exists E; exact H].
      destruct (push_c_inv cp [FFFD] E H) as [E1 H1].
      destruct (push_sse_str_c classify OBS_BOTH off cp [FFFD]) as [p1 d1]. cbn [fst] in H1.
      destruct d1; [exists E1; exact H1|]. apply (IH _ _ E1 H1).
    + destruct (push_c_inv cp text E H) as [E1 H1].
      destruct (push_sse_str_c classify OBS_BOTH off cp text) as [p1 d1]. cbn [fst] in H1.
      destruct d1; [exists E1; exact H1|].
      destruct elen as [k|]; [|exists E1; exact H1].
      destruct (push_c_inv p1 [FFFD] E1 H1) as [E2 H2].
      destruct (push_sse_str_c classify OBS_BOTH off p1 [FFFD]) as [p2 d2]. cbn [fst] in H2.
      destruct d2; [exists E2; exact H2|]. apply (IH _ _ E2 H2).
Qed.

Lemma run_chunks_c_inv cs : forall buf cp E, CInv cp E ->
  exists E', CInv (snd (fst (run_chunks_c classify OBS_BOTH off buf cp cs))) E'.
Proof.
  induction cs as [|c r IH]; intros buf cp E H; cbn [run_chunks_c]; [exists E; exact H|].
  unfold push_bytes_c.
  destruct (pb_loop_c_inv (S (length (buf ++ c))) (buf ++ c) cp E H) as [E1 H1].
  destruct (pb_loop_c classify OBS_BOTH off (S (length (buf ++ c))) (buf ++ c) cp) as [[b1 p1] d1].
  cbn [fst snd] in H1. destruct d1; [exists E1; exact H1|]. apply (IH _ _ E1 H1).
Qed.

Lemma run_pipe_c_inv cs : exists E, CInv (run_pipe_c classify OBS_BOTH off cs) E.
Proof.
  unfold run_pipe_c.
  assert (CInv (Sse.pipe_new, []) []) as H0 by (repeat split).
  destruct (run_chunks_c_inv cs [] _ [] H0) as [E1 H1].
  destruct (run_chunks_c classify OBS_BOTH off [] (Sse.pipe_new, []) cs) as [[b1 p1] d1].
  cbn [fst snd] in H1. destruct d1; [exists E1; exact H1|].
  apply (finish_c_inv p1 E1 H1).
Qed.

(* the frames and the collector see the same events *)
Theorem seen_is_frame_data cs :
  seen_of classify OBS_BOTH off cs = frame_data (Sse.frames_of classify Sse.FIXED off cs).
Proof.
  rewrite <- (frames_c_is_frames_of OBS_BOTH). unfold seen_of, frames_c.
  destruct (run_pipe_c_inv cs) as [E [[Ho _] S]]. rewrite S, Ho, frame_data_frames_from. reflexivity.
Qed.

(* ... which are the events of the body, chunking-free *)
Theorem seen_is_body_events cs :
  seen_of classify OBS_BOTH off cs
  = evs_data (Sse.upto_done (Sse.events_spec classify (lossy_text (concat cs)))).
Proof.
  rewrite seen_is_frame_data, SseProofs.frames_of_whole. unfold Sse.frames_whole.
  apply frame_data_frames_from.
Qed.

End Pipe.

Theorem seen_chunk_invariant classify off1 off2 body cs1 cs2 :
  concat cs1 = body -> concat cs2 = body ->
  seen_of classify OBS_BOTH off1 cs1 = seen_of classify OBS_BOTH off2 cs2.
Proof. intros H1 H2. rewrite !seen_is_body_events, H1, H2. reflexivity. Qed.

(* ---------------------------------------------------------------- (3) from the body bytes to the next request *)
(* a function call that appears in a provider-event FRAME of answer i (status event, data = a well-formed
   output_item.done of a function_call item) is among the calls iteration i drains — hence (answered_next_request,
   answered_by_call_id) executed at most once and answered exactly once, in order, in request i+1 *)
Theorem emitted_call_answered_body A g valid tool prompt init bodies pre it1 it2 post b off s ev raw d errs rerrs cid :
  res_iters (run_b A OBS_BOTH g valid tool prompt init bodies) = pre ++ it1 :: it2 :: post ->
  nth_error bodies (length pre) = Some b ->
  In (Sse.FProv s 2 ev raw (Some d) errs rerrs) (Sse.frames_of (SseJson.jclassify A) Sse.FIXED off (bb_chunks b)) ->
  wf_done d cid ->
  In cid (map c_id (it_calls it1)).
Proof.
  unfold run_b. intros E Hb Hin Hw.
  apply in_frame_data in Hin. rewrite <- seen_is_frame_data in Hin.
  rewrite (seen_chunk_invariant _ off 0 _ _ _ eq_refl eq_refl) in Hin.
  destruct (in_split _ _ Hin) as (e1 & e2 & Hs).
  eapply (emitted_call_answered g valid tool prompt init _ pre it1 it2 post
            (round_of (SseJson.jclassify A) OBS_BOTH 0 b) e1 d e2 cid E); [|exact Hs|exact Hw].
  rewrite nth_error_map, Hb. reflexivity.
Qed.

(* a run that ends "completed": its last request was answered by a scripted round that did not fail and from which
   nothing was drained *)
Lemma run_completed_round g valid tool prompt script s r :
  LoopRun g valid tool prompt script s r -> res_reason r = Completed ->
  exists rd, nth_error script (pred (length (res_iters r))) = Some rd /\ r_fail rd = false /\
             drain (collect (g_fixed g) (r_events rd)) = [].
Proof.
  induction 1 as [| | |script s req s1 calls xs rsn Hc Hb Hv Hl|rd rest s req s1 calls xs cnt ne prev r Hc Hb Hv Hf Hd Hne Hp Hpn Hr Hrun IH];
    cbn [res_reason res_iters mkres]; intros Hrs; try discriminate.
  - inversion Hl; subst; try discriminate. cbn [length pred nth_error]. eexists. repeat split; eassumption.
  - destruct (IH Hrs) as (rd' & Hn & Hf' & Hd').
    destruct (run_completed _ _ _ _ _ _ _ Hrun Hrs) as (pre & it & E & _).
    exists rd'. split; [|split; assumption].
    rewrite E in Hn |- *. cbn [length]. rewrite app_length in Hn |- *. cbn [length] in Hn |- *.
    replace (pred (S (length pre + 1))) with (S (pred (length pre + 1))) by lia. exact Hn.
Qed.

(* ... so no frame of its last answer carries a well-formed call *)
Theorem completed_no_call_in_last_frames A g valid tool prompt init bodies b off s ev raw d errs rerrs cid :
  res_reason (run_b A OBS_BOTH g valid tool prompt init bodies) = Completed ->
  nth_error bodies (pred (length (res_iters (run_b A OBS_BOTH g valid tool prompt init bodies)))) = Some b ->
  In (Sse.FProv s 2 ev raw (Some d) errs rerrs) (Sse.frames_of (SseJson.jclassify A) Sse.FIXED off (bb_chunks b)) ->
  wf_done d cid -> False.
Proof.
  unfold run_b. intros Hr Hb Hin Hw.
  destruct (run_completed_round _ _ _ _ _ _ _ (run_is_looprun g valid tool prompt init _) Hr) as (rd & Hn & _ & Hd).
  rewrite nth_error_map, Hb in Hn. inversion Hn; subst rd. cbn [round_of r_events] in Hd.
  apply in_frame_data in Hin. rewrite <- seen_is_frame_data in Hin.
  rewrite (seen_chunk_invariant _ off 0 _ _ _ eq_refl eq_refl) in Hin.
  destruct (in_split _ _ Hin) as (e1 & e2 & Hs).
  pose proof (emitted_call_drained (g_fixed g) e1 d e2 cid Hw) as Hdr.
  rewrite <- Hs, Hd in Hdr. exact Hdr.
Qed.

(* ---------------------------------------------------------------- (4) concrete bodies: which tails carry a call *)
(* nothing abstract is needed for these payloads: integers only, valid JSON, validators silent *)
Definition A0 : SseJson.absfns :=
  SseJson.abs_of {| SseJson.t_compat := false; SseJson.t_err := []; SseJson.t_num := []; SseJson.t_vs := []; SseJson.t_vr := [] |}.
Definition CR : N := 13.
Definition LF : N := 10.
Definition tx_created : str := lit "data: {""type"":""response.created"",""response"":{""id"":""resp_1""}}".
Definition tx_call : str :=
  lit "data: {""type"":""response.output_item.done"",""output_index"":0,""item"":{""type"":""function_call"",""id"":""fc_1"",""call_id"":""call_1"",""name"":""write"",""arguments"":""{}""}}".
Definition tx_text : str := lit "data: {""type"":""response.output_text.delta"",""delta"":""bye""}".
Definition tx_done : str := lit "data: [DONE]".
(* CRLF framing, no [DONE], the connection closes between the CR and the LF of the final blank line: the last event is
   still in the decoder when the stream ends and is handed out by finish() *)
Definition body_crlf_cut : list N := tx_created ++ [CR; LF; CR; LF] ++ tx_call ++ [CR; LF; CR].
(* LF framing, the final blank line is missing: the last event is never dispatched — the provider did not emit it *)
Definition body_lf_noblank : list N := tx_created ++ [LF; LF] ++ tx_call ++ [LF].
(* LF framing, the last line has no line end at all: finish() completes the line, still no blank line *)
Definition body_lf_noeol : list N := tx_created ++ [LF; LF] ++ tx_call.
(* a lone CR after a complete LF line is a blank line for finish() *)
Definition body_lf_cr : list N := tx_created ++ [LF; LF] ++ tx_call ++ [LF; CR].
(* [DONE] itself in the unterminated tail, the call before it properly terminated *)
Definition body_done_in_tail : list N := tx_created ++ [CR; LF; CR; LF] ++ tx_call ++ [CR; LF; CR; LF] ++ tx_done ++ [CR; LF; CR].
(* a call after [DONE] (unterminated tail): the stream ended at the marker, finish() is not reached *)
Definition body_call_after_done : list N := tx_created ++ [LF; LF] ++ tx_done ++ [LF; LF] ++ tx_call ++ [CR; LF; CR].
Definition body_end : list N := tx_text ++ [LF; LF] ++ tx_done ++ [LF; LF].

(* the payload of the call event as the frames and the collector see it (serde_json::Value: keys sorted) *)
Definition tail_call_data : json :=
  JObj [(K_item, JObj [(K_arguments, JStr (lit "{}")); (K_call_id, JStr (lit "call_1")); (K_id, JStr (lit "fc_1"));
                       (K_name, JStr (lit "write")); (K_type, JStr S_function_call)]);
        (K_output_index, JNum (lit "0")); (K_type, JStr S_item_done)].
Definition tail_call_frame : Sse.frame := Sse.FProv 1 2 None None (Some tail_call_data) [] [].

Lemma tail_call_wf : wf_done tail_call_data (lit "call_1").
Proof.
  unfold wf_done, tail_call_data. eexists _, _, (lit "write"). split; [reflexivity|].
  repeat split; try reflexivity. discriminate.
Qed.

Definition drained_ids (ob : obs_flags) (body : list N) : list str :=
  map c_id (drain (collect FIXED (seen_of (SseJson.jclassify A0) ob 0 [body]))).
Definition has_call_frame (body : list N) : bool :=
  existsb (json_eqb tail_call_data) (frame_data (Sse.frames_of (SseJson.jclassify A0) Sse.FIXED 0 [body])).

(* dispatched by finish(): in the frames AND drained *)
Lemma ex_crlf_cut : nth_error (Sse.frames_of (SseJson.jclassify A0) Sse.FIXED 0 [body_crlf_cut]) 1 = Some tail_call_frame
                    /\ drained_ids OBS_BOTH body_crlf_cut = [lit "call_1"].
Proof. vm_compute. split; reflexivity. Qed.
Lemma ex_lf_cr : has_call_frame body_lf_cr = true /\ drained_ids OBS_BOTH body_lf_cr = [lit "call_1"].
Proof. vm_compute. split; reflexivity. Qed.
Lemma ex_done_in_tail : has_call_frame body_done_in_tail = true /\ drained_ids OBS_BOTH body_done_in_tail = [lit "call_1"].
Proof. vm_compute. split; reflexivity. Qed.
(* not dispatched: no frame, no call — legitimately absent *)
Lemma ex_lf_noblank : has_call_frame body_lf_noblank = false /\ drained_ids OBS_BOTH body_lf_noblank = [].
Proof. vm_compute. split; reflexivity. Qed.
Lemma ex_lf_noeol : has_call_frame body_lf_noeol = false /\ drained_ids OBS_BOTH body_lf_noeol = [].
Proof. vm_compute. split; reflexivity. Qed.
Lemma ex_call_after_done : has_call_frame body_call_after_done = false /\ drained_ids OBS_BOTH body_call_after_done = [].
Proof. vm_compute. split; reflexivity. Qed.

(* a whole run whose first answer is the cut CRLF body *)
Definition tail_cfg : cfg := {| g_stateless := false; g_choice := JStr (lit "auto"); g_followup := None; g_fixed := FIXED |}.
Definition tail_bodies : list bround :=
  [ {| bb_fail := false; bb_chunks := [body_crlf_cut] |}; {| bb_fail := false; bb_chunks := [body_end] |} ].
Definition tail_run (ob : obs_flags) : result :=
  run_b A0 ob tail_cfg (fun _ _ => true) (fun _ _ => lit "o") (lit "p") None tail_bodies.

(* /repo: the call is executed and the second request answers it *)
Lemma ex_tail_run_answered :
  res_reason (tail_run OBS_BOTH) = Completed /\
  map (fun it => (q_kind (it_req it), out_ids (items_of (it_req it)), map c_id (it_calls it))) (res_iters (tail_run OBS_BOTH))
  = [(0, [], [lit "call_1"]); (3, [lit "call_1"], [])].
Proof. vm_compute. split; reflexivity. Qed.

(* the pipe whose finish() maps the flushed events to frames without feeding the collector: the call is in the
   frames of answer 0, nothing is drained, the run "completes" after one request *)
Lemma ex_tail_run_push_only :
  res_reason (tail_run OBS_PUSH_ONLY) = Completed /\ length (res_iters (tail_run OBS_PUSH_ONLY)) = 1%nat /\
  processed (tail_run OBS_PUSH_ONLY) = [].
Proof. vm_compute. repeat split. Qed.

Lemma finish_not_observed_refuted :
  exists A g valid tool prompt init bodies b fr d cid,
    nth_error bodies 0 = Some b /\
    In fr (frames_c (SseJson.jclassify A) OBS_PUSH_ONLY 0 (bb_chunks b)) /\
    fr = Sse.FProv 1 2 None None (Some d) [] [] /\ wf_done d cid /\
    res_reason (run_b A OBS_PUSH_ONLY g valid tool prompt init bodies) = Completed /\
    length (res_iters (run_b A OBS_PUSH_ONLY g valid tool prompt init bodies)) = 1%nat.
Proof.
  exists A0, tail_cfg, (fun _ _ => true), (fun _ _ => lit "o"), (lit "p"), None, tail_bodies,
         {| bb_fail := false; bb_chunks := [body_crlf_cut] |}, tail_call_frame, tail_call_data, (lit "call_1").
  split; [reflexivity|]. split.
  { rewrite frames_c_is_frames_of. eapply nth_error_In. exact (proj1 ex_crlf_cut). }
  split; [reflexivity|]. split; [exact tail_call_wf|].
  destruct ex_tail_run_push_only as (H1 & H2 & _). split; assumption.
Qed.

(* ---------------------------------------------------------------- (5) which tails finish() dispatches, in general *)
(* Text level (the text is the lossy UTF-8 decoding of the body; events_spec is C15's chunking-free specification).
   After a complete line: a tail of one or more CRs is a blank line (the event before it IS dispatched — the body cut
   between the CR and the LF of its final blank line); any other unterminated non-blank tail dispatches nothing (an
   LF body missing its final blank line, a last line without line end: whatever data line is pending is dropped). *)
Lemma drop_while_all f (l : str) : forallb f l = true -> Sse.drop_while f l = [].
Proof.
  induction l as [|c r IH]; cbn [forallb Sse.drop_while]; [reflexivity|].
  intros H. apply andb_true_iff in H. destruct H as [H1 H2]. rewrite H1. apply IH; exact H2.
Qed.

Lemma trim_end_cr_crs k : Sse.trim_end_cr (repeat 13 k) = [].
Proof.
  unfold Sse.trim_end_cr. rewrite drop_while_all; [reflexivity|].
  apply forallb_forall. intros x Hx. apply in_rev in Hx. apply repeat_spec in Hx. subst x. reflexivity.
Qed.

Lemma no_nl_crs k : SseProofs.no_nl (repeat 13 k).
Proof. unfold SseProofs.no_nl. apply forallb_forall. intros x Hx. apply repeat_spec in Hx. subst x. reflexivity. Qed.

Lemma split_lines_nl_tail t b : SseProofs.no_nl b ->
  Sse.split_lines [] (t ++ Sse.NL :: b)
  = (fst (Sse.split_lines [] t) ++ [snd (Sse.split_lines [] t)], b).
Proof.
  intros Hb. rewrite SseProofs.split_lines_app.
  destruct (Sse.split_lines [] t) as [l1 t1]. cbn [Sse.split_lines fst snd].
  replace (Sse.NL =? Sse.NL) with true by reflexivity.
  pose proof (SseProofs.split_lines_nonl b [] [] Hb) as E. rewrite app_nil_r in E. cbn [app Sse.split_lines] in E.
  rewrite E. reflexivity.
Qed.

Lemma all_lines_nl_tail t b : SseProofs.no_nl b ->
  Sse.all_lines (t ++ Sse.NL :: b)
  = (fst (Sse.split_lines [] t) ++ [snd (Sse.split_lines [] t)]) ++ match b with [] => [] | _ :: _ => [b] end.
Proof.
  intros Hb. unfold Sse.all_lines. rewrite (split_lines_nl_tail t b Hb).
  destruct b; [rewrite app_nil_r|]; reflexivity.
Qed.

Lemma line_step_blank classify s l : Sse.trim_end_cr l = [] -> Sse.line_step classify s l = Sse.line_step classify s [].
Proof. intros H. unfold Sse.line_step. rewrite H. reflexivity. Qed.

Lemma line_step_nonblank classify s l : Sse.trim_end_cr l <> [] -> snd (Sse.line_step classify s l) = [].
Proof.
  intros H. unfold Sse.line_step. destruct (Sse.trim_end_cr l) as [|c r] eqn:E; [contradiction|].
  destruct (Sse.strip_prefix Sse.S_EVENT (c :: r)); [reflexivity|].
  destruct (Sse.strip_prefix Sse.S_DATA (c :: r)); reflexivity.
Qed.

(* `<complete line>\n` followed by one or more CRs and the end of the stream = the same text with a blank line *)
Theorem cr_tail_is_blank_line classify t n :
  Sse.events_spec classify (t ++ Sse.NL :: repeat 13 (S n)) = Sse.events_spec classify (t ++ [Sse.NL; Sse.NL]).
Proof.
  unfold Sse.events_spec.
  rewrite (all_lines_nl_tail t (repeat 13 (S n)) (no_nl_crs (S n))).
  change (t ++ [Sse.NL; Sse.NL]) with (t ++ Sse.NL :: [Sse.NL]).
  replace (t ++ Sse.NL :: [Sse.NL]) with ((t ++ [Sse.NL]) ++ Sse.NL :: []) by (rewrite <- app_assoc; reflexivity).
  rewrite (all_lines_nl_tail (t ++ [Sse.NL]) [] eq_refl), app_nil_r.
  rewrite (split_lines_nl_tail t [] eq_refl). cbn [fst snd repeat].
  set (L := fst (Sse.split_lines [] t) ++ [snd (Sse.split_lines [] t)]).
  do 2 rewrite SseProofs.fold_lines_app.
  destruct (Sse.fold_lines classify (None, []) L) as [s1 e1].
  cbn [Sse.fold_lines]. rewrite (line_step_blank classify s1 (13 :: repeat 13 n) (trim_end_cr_crs (S n))). reflexivity.
Qed.

(* `<complete line>\n` followed by an unterminated line that is not blank: nothing more is dispatched *)
Theorem nonblank_tail_not_dispatched classify t l :
  SseProofs.no_nl l -> Sse.trim_end_cr l <> [] ->
  Sse.events_spec classify (t ++ Sse.NL :: l) = Sse.events_spec classify (t ++ [Sse.NL]).
Proof.
  intros Hn Hl. unfold Sse.events_spec.
  rewrite (all_lines_nl_tail t l Hn), (all_lines_nl_tail t [] eq_refl), app_nil_r.
  destruct l as [|c r]; [exfalso; apply Hl; reflexivity|].
  set (L := fst (Sse.split_lines [] t) ++ [snd (Sse.split_lines [] t)]).
  rewrite SseProofs.fold_lines_app.
  destruct (Sse.fold_lines classify (None, []) L) as [s1 e1].
  cbn [Sse.fold_lines snd]. pose proof (line_step_nonblank classify s1 (c :: r) Hl) as E.
  destruct (Sse.line_step classify s1 (c :: r)) as [s2 e2]. cbn [snd] in E. subst e2.
  cbn [snd]. rewrite app_nil_r. reflexivity.
Qed.

(* ---------------------------------------------------------------- (6) nothing from nothing: provenance of call ids *)
(* Every call the collector completes carries a call id that a function_call item of an output_item.added / .done
   event of the SAME answer carries (the id may come from the done item itself or from an earlier added event of the
   same item): no call is drained — executed, answered — that the provider did not announce. *)
Definition carries (ev : json) (cid : str) : Prop :=
  exists obj item, ev = JObj obj /\
    (get_str K_type obj = Some S_item_added \/ get_str K_type obj = Some S_item_done) /\
    obind (jget K_item obj) as_obj = Some item /\
    get_str K_type item = Some S_function_call /\ get_str K_call_id item = Some cid.

Definition prov (P : str -> Prop) (c : coll) : Prop :=
  (forall x, In x (k_done c) -> P (c_id x)) /\
  (forall k b cid, aget k (k_bufs c) = Some b -> b_call b = Some cid -> P cid).

Lemma prov_mono (P Q : str -> Prop) c : (forall x, P x -> Q x) -> prov P c -> prov Q c.
Proof. intros H [H1 H2]. split; [intros x Hx; apply H, H1, Hx | intros k b cid Ha Hb; apply H; eapply H2; eauto]. Qed.

Lemma in_push_done fx d y x : In x (push_done fx d y) -> In x d \/ x = y.
Proof.
  unfold push_done. destruct (fx && has_call_id (c_id y) d); [left; assumption|].
  intros H. apply in_app_or in H. destruct H as [H|[H|[]]]; [left; exact H | right; symmetry; exact H].
Qed.

Lemma aget_adel {V} k k' (l : list (str * V)) b : aget k (adel k' l) = Some b -> aget k l = Some b.
Proof.
  induction l as [|[k0 v0] r IH]; cbn [adel aget]; [discriminate|].
  destruct (str_eqb k' k0) eqn:E0.
  - intros H. specialize (IH H). destruct (str_eqb k k0) eqn:E1; [|exact IH].
    (* k = k0 = k': impossible, adel removed every k' *)
    exfalso. apply str_eqb_eq in E0. apply str_eqb_eq in E1. subst k0 k'.
    clear IH. revert H. induction r as [|[k1 v1] r IHr]; cbn [adel aget]; [discriminate|].
    destruct (str_eqb k k1) eqn:E2; [exact IHr|]. cbn [aget]. rewrite E2. exact IHr.
  - cbn [aget]. destruct (str_eqb k k0); [intros H; exact H | exact IH].
Qed.

Lemma nonempty_some o s : nonempty o = Some s -> o = Some s.
Proof. destruct o as [[|c r]|]; cbn [nonempty]; intros H; try discriminate; exact H. Qed.

Lemma orelse_some {A} (a b : option A) x : orelse a b = Some x -> a = Some x \/ b = Some x.
Proof. destruct a; cbn [orelse]; intros H; [left|right]; exact H. Qed.

Lemma prov_entry P c k cid :
  prov P c -> b_call (entry_or_default k (k_bufs c)) = Some cid -> P cid.
Proof.
  intros [_ Hb]. unfold entry_or_default. destruct (aget k (k_bufs c)) eqn:E; [|discriminate].
  intros H. eapply Hb; eauto.
Qed.

Lemma prov_obs_item fx (P : str -> Prop) c obj dn :
  prov P c ->
  (forall item cid, obind (jget K_item obj) as_obj = Some item -> get_str K_type item = Some S_function_call ->
                    get_str K_call_id item = Some cid -> P cid) ->
  prov P (obs_item fx c obj dn).
Proof.
  intros Hp Hev. unfold obs_item.
  destruct (obind (jget K_item obj) as_obj) as [item|] eqn:Ei; [|exact Hp].
  destruct (get_str K_type item) as [t|] eqn:Et; cbn [negb]; [|exact Hp].
  destruct (str_eqb t S_function_call) eqn:Ef; cbn [negb]; [|exact Hp].
  apply str_eqb_eq in Ef. subst t.
  assert (Hc : forall cid, get_str K_call_id item = Some cid -> P cid) by (intros cid H; eapply Hev; eauto).
  assert (Hcall : forall cid, nonempty (get_str K_call_id item) = Some cid -> P cid)
    by (intros cid H; apply Hc, nonempty_some, H).
  cbv zeta.
  match goal with |- context [match ?e with [] => c | _ :: _ => _ end] => destruct e as [|i0 ir] eqn:Eid end; [exact Hp|].
  set (iid := i0 :: ir) in *.
  assert (He1 : forall cid, orelse (nonempty (get_str K_call_id item)) (b_call (entry_or_default iid (k_bufs c))) = Some cid -> P cid).
  { intros cid H. apply orelse_some in H. destruct H as [H|H]; [apply Hcall, H | eapply prov_entry; eauto]. }
  destruct Hp as [Hd Hb]. destruct dn.
  - split; cbn [k_done k_bufs].
    + intros x Hx. cbn [b_call b_name b_args] in Hx.
      destruct (orelse (get_str K_call_id item) (orelse (nonempty (get_str K_call_id item)) (b_call (entry_or_default iid (k_bufs c))))) as [ci|] eqn:Ec;
        [|apply Hd, Hx].
      destruct (orelse (get_str K_name item) (orelse (get_str K_name item) (b_name (entry_or_default iid (k_bufs c))))) as [nm|];
        [|apply Hd, Hx].
      apply in_push_done in Hx. destruct Hx as [Hx|Hx]; [apply Hd, Hx|]. subst x. cbn [c_id].
      apply orelse_some in Ec. destruct Ec as [Ec|Ec]; [apply Hc, Ec | apply He1, Ec].
    + intros k b cid Ha Hbc. apply aget_adel in Ha. eapply Hb; eauto.
  - split; cbn [k_done k_bufs]; [exact Hd|].
    intros k b cid Ha Hbc. rewrite aget_aset in Ha. destruct (str_eqb k iid).
    + inversion Ha; subst b. cbn [b_call] in Hbc. apply He1, Hbc.
    + eapply Hb; eauto.
Qed.

Lemma prov_obs_args (P : str -> Prop) c obj dn : prov P c -> prov P (obs_args c obj dn).
Proof.
  intros Hp. unfold obs_args. destruct (get_str K_item_id obj) as [iid|]; [|exact Hp].
  pose proof (prov_entry P c iid) as He. destruct Hp as [Hd Hb].
  split; cbn [k_done k_bufs]; [exact Hd|].
  intros k b cid Ha Hbc. rewrite aget_aset in Ha. destruct (str_eqb k iid).
  - inversion Ha; subst b. destruct dn; cbn [b_call] in Hbc; apply He; [split; assumption | exact Hbc | split; assumption | exact Hbc].
  - eapply Hb; eauto.
Qed.

Lemma prov_observe fx (P : str -> Prop) c ev :
  prov P c -> (forall cid, carries ev cid -> P cid) -> prov P (observe fx c ev).
Proof.
  intros Hp Hev. unfold observe. destruct ev as [| | | |?|obj]; try exact Hp.
  set (c1 := match nonempty _ with Some id => _ | None => c end).
  assert (Hp1 : prov P c1).
  { subst c1. destruct (nonempty _); [|exact Hp]. destruct Hp as [Hd Hb]. split; cbn [k_done k_bufs]; assumption. }
  destruct (get_str K_type obj) as [ty|] eqn:Ety; [|exact Hp1].
  destruct (str_eqb ty S_item_added) eqn:Ea.
  { apply str_eqb_eq in Ea. subst ty. apply prov_obs_item; [exact Hp1|].
    intros item cid H1 H2 H3. apply Hev. exists obj, item. repeat split; auto. }
  destruct (str_eqb ty S_item_done) eqn:Ed.
  { apply str_eqb_eq in Ed. subst ty. apply prov_obs_item; [exact Hp1|].
    intros item cid H1 H2 H3. apply Hev. exists obj, item. repeat split; auto. }
  destruct (str_eqb ty S_args_delta); [apply prov_obs_args; exact Hp1|].
  destruct (str_eqb ty S_args_done); [apply prov_obs_args; exact Hp1|].
  exact Hp1.
Qed.

Definition announced_in (S : list json) (cid : str) : Prop := exists ev, In ev S /\ carries ev cid.

Lemma prov_fold fx evs : forall S c,
  prov (announced_in S) c -> prov (announced_in (S ++ evs)) (fold_left (observe fx) evs c).
Proof.
  induction evs as [|ev r IH]; intros S c Hp; cbn [fold_left].
  - rewrite app_nil_r. exact Hp.
  - replace (S ++ ev :: r) with ((S ++ [ev]) ++ r) by (rewrite <- app_assoc; reflexivity).
    apply IH. apply prov_observe.
    + eapply prov_mono; [|exact Hp]. intros x (e & He & Hc). exists e. split; [apply in_or_app; left; exact He | exact Hc].
    + intros cid Hc. exists ev. split; [apply in_or_app; right; left; reflexivity | exact Hc].
Qed.

Lemma collect_announced fx evs x :
  In x (k_done (collect fx evs)) -> exists ev, In ev evs /\ carries ev (c_id x).
Proof.
  intros Hx. assert (Hp : prov (announced_in []) coll0) by (split; [intros y [] | intros k b cid H; discriminate H]).
  apply (prov_fold fx evs [] coll0) in Hp. cbn [app] in Hp. destruct Hp as [Hd _]. apply Hd, Hx.
Qed.

(* every call an iteration drains was announced in the answer it belongs to *)
Lemma drained_call_was_announced g valid tool prompt init script i it c :
  nth_error (res_iters (run g valid tool prompt init script)) i = Some it -> In c (it_calls it) ->
  exists rd ev, nth_error script i = Some rd /\ In ev (r_events rd) /\ carries ev (c_id c).
Proof.
  intros Hi Hc.
  destruct (at_most_once _ _ _ _ _ _ _ _ Hi) as (_ & [H0|(rd & Hrd & _ & _ & Hperm & _)]).
  - rewrite H0 in Hc. destruct Hc.
  - destruct (collect_announced (g_fixed g) (r_events rd) c) as (ev & He & Hcar).
    { eapply Permutation.Permutation_in; [exact Hperm | exact Hc]. }
    exists rd, ev. auto.
Qed.

Lemma in_frame_data_inv fs d :
  In d (frame_data fs) -> exists s ev raw errs rerrs, In (Sse.FProv s 2 ev raw (Some d) errs rerrs) fs.
Proof.
  unfold frame_data. intros H. apply in_flat_map in H. destruct H as (f & Hf & Hd).
  destruct f as [s st ev raw data errs rerrs|s dl]; cbn [frame_data1] in Hd; [|destruct Hd].
  destruct data as [j|]; [|destruct Hd]. destruct (st =? 2) eqn:E; [|destruct Hd].
  apply N.eqb_eq in E. subst st. destruct Hd as [Hd|[]]. subst j. exists s, ev, raw, errs, rerrs. exact Hf.
Qed.

(* ... from the body: the call id is carried by a function_call item in a provider-event frame of that answer *)
Theorem drained_call_in_frames A g valid tool prompt init bodies i it c off :
  nth_error (res_iters (run_b A OBS_BOTH g valid tool prompt init bodies)) i = Some it -> In c (it_calls it) ->
  exists b s ev raw d errs rerrs,
    nth_error bodies i = Some b /\
    In (Sse.FProv s 2 ev raw (Some d) errs rerrs) (Sse.frames_of (SseJson.jclassify A) Sse.FIXED off (bb_chunks b)) /\
    carries d (c_id c).
Proof.
  unfold run_b. intros Hi Hc.
  destruct (drained_call_was_announced _ _ _ _ _ _ _ _ _ Hi Hc) as (rd & d & Hrd & Hd & Hcar).
  rewrite nth_error_map in Hrd. destruct (nth_error bodies i) as [b|] eqn:Eb; [|discriminate].
  cbn [option_map] in Hrd. inversion Hrd; subst rd. cbn [round_of r_events] in Hd.
  rewrite (seen_chunk_invariant _ 0 off _ _ _ eq_refl eq_refl), seen_is_frame_data in Hd.
  destruct (in_frame_data_inv _ _ Hd) as (s & ev & raw & errs & rerrs & Hf).
  exists b, s, ev, raw, d, errs, rerrs. auto.
Qed.
