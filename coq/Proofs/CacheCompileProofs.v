(* C04 x C08 — the compile input through damaged caches returns what the truth log determines.
   Proofs about Model/CacheCompile.v, on top of builder compile's Proofs/CompileProofs.v (all_paths_agree,
   tail_cut_agrees, cut_scan_* : imported, not re-proved). *)
From RipV Require Import Base.Prelude Model.Compile Proofs.CompileProofs Model.CacheCompile.

(* ------------------------------------------------------------------ lines *)
Lemma lastn_lines_suffix k (x : list cline) :
  exists p, x = p ++ lastn_lines k x /\ ((length x <= k)%nat -> p = []).
Proof.
  unfold lastn_lines. exists (rev (skipn k (rev x))). split.
  - rewrite <- rev_app_distr, firstn_skipn, rev_involutive. reflexivity.
  - intros H. rewrite skipn_all2; [reflexivity|]. rewrite rev_length. exact H.
Qed.

Lemma all_good_c_map fs : all_good_c (map CGood fs) = Some fs.
Proof. induction fs as [|f r IH]; [reflexivity|]. cbn [map all_good_c]. now rewrite IH. Qed.

(* a file that holds at least one line is read as found *)
Lemma seen_cons (x : cline) r : seen (Some (x :: r)) = Some (x :: r).
Proof. reflexivity. Qed.
Lemma MrFaithful_of_file l ls full : ls <> [] -> MrFileFaithful l ls -> MrFaithful l (Some ls) full.
Proof. intros Ne F. destruct ls as [|x r]; [contradiction|]. exact F. Qed.

(* what a rebuild writes is faithful *)
Lemma projection_file_faithful l : MrFileFaithful l (map CGood (filter mr_keep l)).
Proof.
  intros p sfx evs E G. apply map_eq_app in E. destruct E as (x1 & x2 & Ex & E1 & E2).
  subst sfx. rewrite all_good_c_map in G. inversion G; subst evs. exists x1. split; [exact Ex|].
  intros Pn. subst p. destruct x1; [reflexivity|discriminate].
Qed.

Lemma scan_ok l ls k evs cpl :
  MrFileFaithful l ls -> scan_lines k ls = ScTail evs cpl ->
  exists pre, filter mr_keep l = pre ++ evs /\ (cpl = true -> pre = []).
Proof.
  intros F H. unfold scan_lines in H.
  destruct (all_good_c (lastn_lines k ls)) as [e|] eqn:G; [|discriminate]. inversion H; subst e cpl. clear H.
  destruct (lastn_lines_suffix k ls) as (p & Hp & Hc).
  destruct (F p (lastn_lines k ls) evs Hp G) as (pre & Hs & Hn).
  exists pre. split; [exact Hs|]. intros C. apply Hn, Hc. apply Nat.leb_le. exact C.
Qed.

(* the file the scan meets is faithful whenever the files as found are *)
Lemma effective_faithful l mr full m :
  MrFaithful l mr full -> mr_effective mr full = Some (Some m) -> MrFileFaithful l m.
Proof.
  unfold MrFaithful, mr_effective. destruct (seen mr) as [ls|].
  - intros F E. inversion E; subst. exact F.
  - destruct full as [fl|]; [|discriminate].
    destruct (all_good_c fl) as [fs|] eqn:G; [|discriminate]. intros F E. rewrite (F fs eq_refl) in E.
    pose proof (projection_file_faithful l) as Pf.
    destruct (filter mr_keep l) as [|x r] eqn:Fm; [discriminate|]. inversion E; subst m. exact Pf.
Qed.

(* ------------------------------------------------------------------ cut point of a tail *)
Lemma first_none_last r : first_msg_seq r = None -> last_msg_seq r = None.
Proof.
  induction r as [|f r IH]; [reflexivity|]. cbn [first_msg_seq last_msg_seq].
  destruct (is_msg f) eqn:M; [discriminate|]. intros H. now rewrite (IH H).
Qed.

Lemma cut_scan_last a evs s : cut_scan a evs = Some (s, None) -> last_msg_seq evs = Some a.
Proof.
  induction evs as [|f r IH]; [discriminate|]. cbn [cut_scan last_msg_seq].
  destruct (is_msg f && (fseq f =? a)) eqn:E.
  - intros H. inversion H as [[Hs Hn]]. apply andb_true_iff in E. destruct E as [M Eq]. apply N.eqb_eq in Eq.
    rewrite (first_none_last r Hn), M, Eq. reflexivity.
  - intros H. now rewrite (IH H).
Qed.

(* the head only matters when the anchor is the newest message of the tail *)
Lemma tail_cut_head_irrelevant evs h1 h2 a :
  cut_is_head evs a = false -> tail_cut evs h1 a = tail_cut evs h2 a.
Proof.
  intros H. unfold tail_cut. destruct (cut_scan a evs) as [[s nx]|] eqn:C; [|reflexivity].
  destruct nx as [n|]; [reflexivity|]. apply cut_scan_last in C. unfold cut_is_head in H. rewrite C, N.eqb_refl in H.
  discriminate.
Qed.

Lemma no_anchor_compile_none P texts l a :
  cut_scan a (filter mr_keep l) = None -> compile P texts l a = None.
Proof.
  intros H. unfold compile, cut_point.
  rewrite cut_scan_filter in H; [|intros f M; unfold mr_keep; now rewrite M]. now rewrite H.
Qed.

(* ------------------------------------------------------------------ the head of the full sidecar *)
Lemma last_frame_inv l f : last_frame l = Some f -> exists l', l = l' ++ [f].
Proof.
  intros H. destruct (exists_last (l := l)) as (l' & g & E).
  - intros N. subst l. discriminate H.
  - subst l. rewrite last_frame_app in H. inversion H; subst g. now exists l'.
Qed.

Lemma head_seq_last l f : last_frame l = Some f -> head_seq l = fseq f.
Proof.
  intros H. destruct (last_frame_inv l f H) as (l' & E). subst l. unfold head_seq. rewrite map_app. cbn [map].
  apply last_last.
Qed.

(* a quiescent faithful store: the full sidecar's last frame, when it belongs in the mr sidecar, is the last frame
   of every non-empty tail of the projection, so head_seq_seen_by_messages_runs_v1 leaves the head alone *)
Lemma head_seen_quiescent l pre evs f :
  last_frame l = Some f -> filter mr_keep l = pre ++ evs -> evs <> [] -> head_seen true [f] evs = fseq f.
Proof.
  intros Hl Hs Ne. unfold head_seen. change (last_frame [f]) with (Some f). cbn [andb].
  destruct (mr_keep f) eqn:K; [|reflexivity]. cbn [andb].
  destruct (last_frame_inv l f Hl) as (l' & E). subst l. rewrite filter_app in Hs. cbn [filter] in Hs. rewrite K in Hs.
  destruct (exists_last Ne) as (e' & g & Eg). subst evs. rewrite app_assoc in Hs. apply app_inj_tail in Hs.
  destruct Hs as [_ Eg]. subst g. rewrite last_frame_app. now rewrite N.ltb_irrefl.
Qed.

(* ------------------------------------------------------------------ one pass, the loop, the whole loader *)
Section Loader.
Variables (r : tail_count) (P : params) (texts : N -> N) (l : log) (a : N).
Hypothesis R : tail_count_sound r = true.
Hypothesis S : incr l.
Hypothesis W : wf_refs l = true.

Definition round_ok (x : round) : Prop :=
  match x with
  | RReturn evs from => Some (compile_with P texts evs (filter is_ckpt l) from a) = compile P texts l a
  | RFail => compile P texts l a = None
  | RBreak | RNext => True
  end.

Lemma tail_round_ok k m fh :
  match m with Some ls => MrFileFaithful l ls | None => True end ->
  (forall f, fh = Some f -> last_frame l = Some f) ->
  round_ok (tail_round r (p_limit P) k m fh a).
Proof.
  intros F Hh. unfold tail_round. destruct m as [ls|]; [|exact I].
  destruct (scan_lines k ls) as [|evs cpl] eqn:Sc; [exact I|].
  destruct (scan_ok l ls k evs cpl F Sc) as (pre & Hs & Hc).
  destruct evs as [|e0 er] eqn:Ev.
  { destruct cpl; [|exact I]. cbn [round_ok]. apply no_anchor_compile_none.
    rewrite Hs, (Hc eq_refl). reflexivity. }
  rewrite <- Ev in *. assert (Ne : evs <> []) by (rewrite Ev; discriminate). clear Ev e0 er.
  set (head := match fh with Some f => head_seen true [f] evs
                             | None => match last_frame evs with Some g => fseq g | None => 0 end end).
  destruct (cut_is_head evs a && match fh with None => true | Some _ => false end) eqn:Brk; [exact I|].
  (* the cut this pass computes is the thread's cut *)
  assert (Tc : tail_cut evs head a = tail_cut evs (head_seq l) a).
  { destruct fh as [f|].
    - subst head. rewrite (head_seen_quiescent l pre evs f (Hh f eq_refl) Hs Ne).
      now rewrite (head_seq_last l f (Hh f eq_refl)).
    - rewrite andb_true_r in Brk. apply tail_cut_head_irrelevant. exact Brk. }
  rewrite Tc. destruct (tail_cut evs (head_seq l) a) as [fr|] eqn:C.
  - destruct (cpl || (p_limit P <=? tail_message_count r fr evs)%nat) eqn:Acc; [|exact I]. cbn [round_ok].
    destruct r; [|discriminate R]. cbn [tail_message_count] in Acc.
    assert (Ea : existsb (is_anchor a) evs = true).
    { unfold tail_cut in C. destruct (cut_scan a evs) eqn:Cs; [|discriminate]. eapply cut_scan_some_anchor; exact Cs. }
    assert (Cp : cut_point l a = Some fr).
    { rewrite <- (tail_cut_agrees mr_keep l pre evs a S (fun f H => H) Hs Ea). exact C. }
    apply (all_paths_agree P texts mr_keep l a fr evs S W Cp).
    split; [auto|]. exists l, pre. repeat split; [now left|exact Hs|].
    apply orb_true_iff in Acc. destruct Acc as [Cm|Ct].
    + left. apply Hc. exact Cm.
    + right. apply Nat.leb_le in Ct. exact Ct.
  - destruct cpl; [|exact I]. cbn [round_ok]. apply no_anchor_compile_none.
    rewrite Hs, (Hc eq_refl). cbn [app]. unfold tail_cut in C. destruct (cut_scan a evs); [discriminate|reflexivity].
Qed.

Lemma tail_loop_ok ks m fh :
  match m with Some ls => MrFileFaithful l ls | None => True end ->
  (forall f, fh = Some f -> last_frame l = Some f) ->
  round_ok (tail_loop r (p_limit P) ks m fh a).
Proof.
  intros F Hh. induction ks as [|k ks IH]; [exact I|]. cbn [tail_loop].
  pose proof (tail_round_ok k m fh F Hh) as T.
  destruct (tail_round r (p_limit P) k m fh a); try exact T. exact IH.
Qed.

Lemma after_loop_ok window :
  WindowSpec (p_limit P) l a window ->
  match after_loop window l a with
  | Some (evs, from) => Some (compile_with P texts evs (filter is_ckpt l) from a) = compile P texts l a
  | None => compile P texts l a = None
  end.
Proof.
  intros Ws. unfold after_loop. destruct window as [[evs from]|].
  - destruct (Ws evs from eq_refl) as (Cp & keep & Ad). exact (all_paths_agree P texts keep l a from evs S W Cp Ad).
  - destruct (cut_point l a) as [from|] eqn:Cp.
    + apply (all_paths_agree P texts keep_all l a from l S W Cp). split; [reflexivity|].
      exists l, []. repeat split; [now left| |now left].
      cbn [app]. unfold keep_all. clear. induction l as [|f t IH]; [reflexivity|]. cbn [filter]. now rewrite IH.
    + unfold compile. now rewrite Cp.
Qed.

Theorem compile_input_transparent ks mr full window :
  MrFaithful l mr full -> HeadFaithful l full -> WindowSpec (p_limit P) l a window ->
  compile_fast r P texts ks mr full window l a = compile P texts l a.
Proof.
  intros Fm Fh Ws. unfold compile_fast, input_fast.
  pose proof (after_loop_ok window Ws) as Al.
  destruct (mr_effective mr full) as [m|] eqn:Em.
  - assert (F : match m with Some ls => MrFileFaithful l ls | None => True end).
    { destruct m as [ls|]; [|exact I]. exact (effective_faithful l mr full ls Fm Em). }
    pose proof (tail_loop_ok ks m (head_of full) F (fun f H => Fh f H)) as T.
    destruct (tail_loop r (p_limit P) ks m (head_of full) a) as [evs from| | |]; cbn [round_ok] in T.
    + exact T.
    + now rewrite T.
    + destruct (after_loop window l a) as [[evs from]|]; [exact Al|now rewrite Al].
    + destruct (after_loop window l a) as [[evs from]|]; [exact Al|now rewrite Al].
  - destruct (after_loop window l a) as [[evs from]|]; [exact Al|now rewrite Al].
Qed.
End Loader.

(* with the caches lost altogether the loader is the replay *)
Lemma no_caches_is_replay r P texts ks l a :
  compile_fast r P texts ks None None None l a = compile P texts l a.
Proof.
  unfold compile_fast, input_fast, mr_effective, seen, tail_loop, after_loop, compile.
  destruct ks; cbn [tail_loop tail_round]; destruct (cut_point l a); try reflexivity;
    now rewrite checkpoint_projection_agrees.
Qed.

(* a damaged file is faithful as long as what still parses behind the last unparsable line sits where a rebuild would
   put it: any lines (garbage or not) followed by an unparsable one, then a tail of the projection *)
Lemma all_good_c_bad u v : all_good_c (u ++ CBad :: v) = None.
Proof.
  induction u as [|c u IH]; [reflexivity|]. cbn [app all_good_c]. destruct c; [now rewrite IH|reflexivity].
Qed.

Lemma damaged_file_faithful l x0 x2 fr :
  filter mr_keep l = x0 ++ x2 -> MrFileFaithful l ((fr ++ [CBad]) ++ map CGood x2).
Proof.
  intros E p sfx evs Es G. apply app_eq_app in Es. destruct Es as (w & [[Eu Ev]|[Ep Ev]]).
  - (* the suffix starts inside the damaged front: it holds the unparsable line unless it is exactly the good tail *)
    destruct w as [|c0 w0] eqn:Ew.
    + cbn [app] in Ev. subst sfx. rewrite all_good_c_map in G. inversion G; subst evs.
      exists x0. split; [exact E|]. intros Pn. subst p. rewrite app_nil_r in Eu. destruct fr; discriminate Eu.
    + rewrite <- Ew in *. assert (Nw : w <> []) by (rewrite Ew; discriminate).
      destruct (exists_last Nw) as (w' & c & Ec). rewrite Ec, app_assoc in Eu. apply app_inj_tail in Eu.
      destruct Eu as [_ Ecb]. subst c. rewrite Ev, Ec, <- app_assoc in G. cbn [app] in G.
      rewrite all_good_c_bad in G. discriminate.
  - (* the suffix lies inside the good tail *)
    apply map_eq_app in Ev. destruct Ev as (y1 & y2 & Ex & _ & E2). subst sfx.
    rewrite all_good_c_map in G. inversion G; subst evs. exists (x0 ++ y1). split.
    + now rewrite E, Ex, app_assoc.
    + intros Pn. rewrite Pn in Ep. destruct fr; discriminate Ep.
Qed.
(* ------------------------------------------------------------------ witnesses *)
(* a thread of 40 messages (compile's count_all_log); its intact caches, the same with garbage lines in the middle of
   the mr sidecar, with a torn last line, without the mr sidecar, and with the mr sidecar re-created by the append of
   the last message after its loss (K2m, S4) *)
Definition cc_log : log := count_all_log.
Definition cc_proj : log := filter mr_keep cc_log.
Definition cc_mr : list cline := map CGood cc_proj.
Definition cc_full : cfile := Some (map CGood cc_log).
Definition cc_mr_damaged : list cline := ((firstn 10%nat cc_mr ++ [CBad]) ++ [CBad]) ++ map CGood (skipn 12%nat cc_proj).
Definition cc_mr_torn : list cline := (firstn 39%nat cc_mr ++ [CBad]) ++ map CGood [].
Definition cc_mr_recreated : list cline := map CGood (skipn 39%nat cc_proj).
Definition cc_ks : list nat := [20%nat; 40%nat; 80%nat].

Lemma head_of_projection l f : head_of (Some (map CGood l)) = Some f -> last_frame l = Some f.
Proof.
  destruct l as [|x t]; [discriminate|]. destruct (@exists_last _ (x :: t)) as (l' & g & E); [discriminate|].
  rewrite E. unfold head_of. rewrite map_app. cbn [map]. rewrite last_last. intros H. inversion H; subst g.
  apply last_frame_app.
Qed.

Lemma cc_mr_faithful : MrFaithful cc_log (Some cc_mr) cc_full.
Proof. apply MrFaithful_of_file; [vm_compute; discriminate|]. exact (projection_file_faithful cc_log). Qed.

Lemma cc_absent_faithful : MrFaithful cc_log None cc_full.
Proof. intros fs G. rewrite all_good_c_map in G. now inversion G. Qed.

Lemma cc_head_faithful : HeadFaithful cc_log cc_full.
Proof. intros f H. exact (head_of_projection cc_log f H). Qed.

Lemma cc_damaged_faithful : MrFaithful cc_log (Some cc_mr_damaged) cc_full.
Proof.
  apply MrFaithful_of_file; [vm_compute; discriminate|].
  unfold cc_mr_damaged. apply (damaged_file_faithful cc_log (firstn 12%nat cc_proj)).
  unfold cc_proj. symmetry. apply firstn_skipn.
Qed.

Lemma cc_torn_faithful : MrFaithful cc_log (Some cc_mr_torn) cc_full.
Proof.
  apply MrFaithful_of_file; [vm_compute; discriminate|].
  unfold cc_mr_torn. apply (damaged_file_faithful cc_log cc_proj).
  unfold cc_proj. symmetry. apply app_nil_r.
Qed.

Lemma cc_no_window : forall a, WindowSpec 16 cc_log a None.
Proof. intros a evs from H. discriminate H. Qed.

(* intact: the first budget (20 lines) holds the anchor with 5 messages before it and is refused, the second (40) is
   accepted; garbage in the middle: the first scan does not reach it, the later ones fail and the replay answers; torn
   last line: every scan fails; no mr sidecar: built from the full sidecar.  All equal the replay's answer. *)
Lemma cc_examples :
  valid_log cc_log = true /\ wf_refs cc_log = true
  /\ users (compile_fast CountUpToCut code16 no_texts cc_ks (Some cc_mr) cc_full None cc_log 25) = map N.of_nat (seq 10 16)
  /\ users (compile_fast CountUpToCut code16 no_texts cc_ks (Some cc_mr_damaged) cc_full None cc_log 25) = map N.of_nat (seq 10 16)
  /\ users (compile_fast CountUpToCut code16 no_texts cc_ks (Some cc_mr_torn) cc_full None cc_log 25) = map N.of_nat (seq 10 16)
  /\ users (compile_fast CountUpToCut code16 no_texts cc_ks None cc_full None cc_log 25) = map N.of_nat (seq 10 16)
  /\ users (compile code16 no_texts cc_log 25) = map N.of_nat (seq 10 16)
  /\ option_map snd (input_fast CountUpToCut 16 cc_ks (Some cc_mr_damaged) cc_full None cc_log 38) = Some 38
  /\ option_map (fun x => length (fst x)) (input_fast CountUpToCut 16 cc_ks (Some cc_mr_damaged) cc_full None cc_log 38) = Some 20%nat.
Proof. conjs; vm_compute; reflexivity. Qed.

(* K2m is not vacuous (S4): the mr sidecar re-created by the append of the 40th message after its loss is a complete,
   well-formed file; the compiled context holds that one message where the log determines sixteen *)
Lemma K2m_changes_answer :
  ~ MrFaithful cc_log (Some cc_mr_recreated) cc_full
  /\ HeadFaithful cc_log cc_full
  /\ users (compile_fast CountUpToCut code16 no_texts cc_ks (Some cc_mr_recreated) cc_full None cc_log 40) = [40]
  /\ users (compile code16 no_texts cc_log 40) = map N.of_nat (seq 25 16).
Proof.
  conjs; try (vm_compute; reflexivity); [|exact cc_head_faithful].
  intros F. unfold MrFaithful, cc_mr_recreated in F.
  destruct (F [] _ (skipn 39%nat cc_proj) eq_refl (all_good_c_map _)) as (pre & E & Hn).
  rewrite (Hn eq_refl) in E. vm_compute in E. discriminate E.
Qed.

(* the acceptance test must count the messages at or before the cut (seed C04-6 / C08-2): counting every message of the
   scanned tail accepts the first budget, and the compiled context depends on whether the caches are there *)
Lemma compile_count_all_changes_answer :
  MrFaithful cc_log (Some cc_mr) cc_full /\ HeadFaithful cc_log cc_full
  /\ users (compile_fast CountAll code16 no_texts cc_ks (Some cc_mr) cc_full None cc_log 25) = [21; 22; 23; 24; 25]
  /\ users (compile_fast CountAll code16 no_texts cc_ks None None None cc_log 25) = map N.of_nat (seq 10 16)
  /\ users (compile code16 no_texts cc_log 25) = map N.of_nat (seq 10 16).
Proof. conjs; try (vm_compute; reflexivity); [exact cc_mr_faithful|exact cc_head_faithful]. Qed.

Lemma compile_transparent_example :
  Compile.valid_log cc_log = true /\ wf_refs cc_log = true
  /\ MrFaithful cc_log (Some cc_mr) cc_full /\ MrFaithful cc_log (Some cc_mr_damaged) cc_full
  /\ MrFaithful cc_log (Some cc_mr_torn) cc_full /\ MrFaithful cc_log None cc_full
  /\ HeadFaithful cc_log cc_full /\ (forall a, WindowSpec 16 cc_log a None)
  /\ users (compile_fast CountUpToCut code16 no_texts cc_ks (Some cc_mr_damaged) cc_full None cc_log 25) = map N.of_nat (seq 10 16)
  /\ users (compile code16 no_texts cc_log 25) = map N.of_nat (seq 10 16).
Proof.
  split; [vm_compute; reflexivity|]. split; [vm_compute; reflexivity|].
  split; [exact cc_mr_faithful|]. split; [exact cc_damaged_faithful|]. split; [exact cc_torn_faithful|].
  split; [exact cc_absent_faithful|]. split; [exact cc_head_faithful|]. split; [exact cc_no_window|].
  split; vm_compute; reflexivity.
Qed.

(* the statement of Props/C04.v (quantifiers first) *)
Theorem compile_input_transparent_stmt (r : tail_count) (P : params) (texts : N -> N) (l : log) (a : N) (ks : list nat)
        (mr full : cfile) (window : option (log * N)) :
  tail_count_sound r = true -> incr l -> wf_refs l = true ->
  MrFaithful l mr full -> HeadFaithful l full -> WindowSpec (p_limit P) l a window ->
  compile_fast r P texts ks mr full window l a = compile P texts l a.
Proof. intros R S W Fm Fh Ws. exact (compile_input_transparent r P texts l a R S W ks mr full window Fm Fh Ws). Qed.

(* the healthy seek window (builder compile's mr_window over the projection, at the thread's cut) meets WindowSpec: the
   admissibility argument of c08_window_path_agrees, stated for the loader's parameter *)
Definition healthy_window (limit : nat) (l : log) (a : N) : option (log * N) :=
  option_map (fun from => (mr_window limit l from, from)) (cut_point l a).

Lemma healthy_window_spec limit l a : WindowSpec limit l a (healthy_window limit l a).
Proof.
  intros evs from H. unfold healthy_window in H. destruct (cut_point l a) as [fr|] eqn:C; [|discriminate].
  cbn [option_map] in H. inversion H; subst evs from. clear H. split; [reflexivity|]. exists mr_keep.
  split; [auto|]. unfold mr_window.
  destruct (window_rev_spec fr limit (rev (filter mr_keep l)) 0 []) as (tk & rs & E & Wn & Ct).
  rewrite Wn, app_nil_r. exists (upto fr l), (rev rs). repeat split; [now right| |].
  - assert (Ef : filter mr_keep (upto fr l) = rev (filter (fun f => fseq f <=? fr) (rev (filter mr_keep l)))).
    { rewrite filter_rev', rev_involutive. unfold upto.
      clear. induction l as [|f r IH]; [reflexivity|]. cbn [filter].
      destruct (fseq f <=? fr) eqn:A, (mr_keep f) eqn:B; cbn [filter]; rewrite ?A, ?B; rewrite ?IH; reflexivity. }
    rewrite Ef, E, rev_app_distr. reflexivity.
  - destruct Ct as [->|Ct]; [now left|right].
    rewrite count_msgs_upto_all.
    + rewrite filter_is_msg_rev. cbn in Ct. exact Ct.
    + intros f F. apply in_rev in F.
      assert (In f (filter (fun g => fseq g <=? fr) (rev (filter mr_keep l)))) by (rewrite E; apply in_or_app; now left).
      apply filter_In in H. tauto.
Qed.

Theorem compile_input_transparent_healthy_window (r : tail_count) (P : params) (texts : N -> N) (l : log) (a : N)
        (ks : list nat) (mr full : cfile) :
  tail_count_sound r = true -> incr l -> wf_refs l = true ->
  MrFaithful l mr full -> HeadFaithful l full ->
  compile_fast r P texts ks mr full (healthy_window (p_limit P) l a) l a = compile P texts l a.
Proof.
  intros R S W Fm Fh.
  exact (compile_input_transparent r P texts l a R S W ks mr full _ Fm Fh (healthy_window_spec (p_limit P) l a)).
Qed.

(* ================================================================== the compiler's checkpoint look-ups through the caches *)
Lemma compile_with_core P texts evs cks from a :
  compile_with P texts evs cks from a =
  compile_core P texts evs (hierarchy (p_fixed P) from (p_max_refs P) cks) (latest_any (p_fixed P) from cks) from a.
Proof. reflexivity. Qed.

Lemma hierarchy_projection fixed from n l : hierarchy fixed from n (filter is_ckpt l) = hierarchy fixed from n l.
Proof.
  unfold hierarchy, unique_of. rewrite fold_left_filter; [reflexivity|].
  intros u f K. unfold unique_step. now rewrite (ckpt_of_non f K).
Qed.
Lemma latest_any_projection fixed from l : latest_any fixed from (filter is_ckpt l) = latest_any fixed from l.
Proof.
  unfold latest_any. rewrite fold_left_filter; [reflexivity|].
  intros u f K. unfold latest_step. now rewrite (ckpt_of_non f K).
Qed.

Lemma ckpt_of_seq f c : ckpt_of f = Some c -> ck_seq c = fseq f.
Proof. unfold ckpt_of. destruct (fb f); try discriminate. intros H. inversion H. reflexivity. Qed.

(* the reader's fold (latest first, explicit seq tie-break) and the truth loop (stream order, later frame wins a tie)
   agree on a stream with increasing seqs *)
Lemma better_true c b : better c b = true <-> ck_to b < ck_to c \/ (ck_to b = ck_to c /\ ck_seq b < ck_seq c).
Proof.
  unfold better. rewrite orb_true_iff, andb_true_iff, !N.ltb_lt, N.eqb_eq. tauto.
Qed.
Lemma better_false c b : better c b = false <-> ~ (ck_to b < ck_to c \/ (ck_to b = ck_to c /\ ck_seq b < ck_seq c)).
Proof. rewrite <- better_true. destruct (better c b); split; intros H; try reflexivity; try discriminate. exfalso. now apply H. Qed.

Lemma step_cache_comm fixed from b x y : fseq x <> fseq y ->
  latest_step_cache fixed from (latest_step_cache fixed from b x) y =
  latest_step_cache fixed from (latest_step_cache fixed from b y) x.
Proof.
  intros D. unfold latest_step_cache.
  destruct (ckpt_of x) as [cx|] eqn:Cx; destruct (ckpt_of y) as [cy|] eqn:Cy; try reflexivity.
  pose proof (ckpt_of_seq x cx Cx) as Sx. pose proof (ckpt_of_seq y cy Cy) as Sy.
  destruct (eligible fixed from cx), (eligible fixed from cy); try reflexivity.
  destruct b as [b|].
  - destruct (better cx b) eqn:B1; destruct (better cy b) eqn:B2;
      try rewrite B1; try rewrite B2;
      destruct (better cy cx) eqn:B3; destruct (better cx cy) eqn:B4; try reflexivity;
      rewrite ?better_true, ?better_false in *; exfalso; lia.
  - destruct (better cy cx) eqn:B3; destruct (better cx cy) eqn:B4; try reflexivity;
      rewrite ?better_true, ?better_false in *; exfalso; lia.
Qed.

Lemma fold_step_cache_comm fixed from x : forall r b, (forall y, In y r -> fseq y <> fseq x) ->
  fold_left (latest_step_cache fixed from) r (latest_step_cache fixed from b x) =
  latest_step_cache fixed from (fold_left (latest_step_cache fixed from) r b) x.
Proof.
  induction r as [|y r IH]; intros b D; [reflexivity|]. cbn [fold_left].
  rewrite (step_cache_comm fixed from b x y) by (intros E; apply (D y); [now left|now symmetry]).
  apply IH. intros z Z. apply D. now right.
Qed.

Lemma incr_distinct x r : incr (x :: r) -> forall y, In y r -> fseq y <> fseq x.
Proof. cbn [incr]. intros [F _] y Y. rewrite Forall_forall in F. specialize (F y Y). lia. Qed.
Lemma incr_tail x r : incr (x :: r) -> incr r.
Proof. cbn [incr]. tauto. Qed.

Lemma cache_fold_rev fixed from evs : incr evs ->
  fold_left (latest_step_cache fixed from) (rev evs) None = fold_left (latest_step_cache fixed from) evs None.
Proof.
  induction evs as [|x r IH]; intros S; [reflexivity|]. cbn [rev]. rewrite fold_left_app. cbn [fold_left].
  rewrite (IH (incr_tail x r S)). symmetry. apply fold_step_cache_comm. exact (incr_distinct x r S).
Qed.

Lemma cache_fold_stream fixed from : forall evs best, incr evs ->
  (forall b, best = Some b -> forall f, In f evs -> ck_seq b < fseq f) ->
  fold_left (latest_step_cache fixed from) evs best = fold_left (latest_step fixed from) evs best.
Proof.
  induction evs as [|x r IH]; intros best S Hb; [reflexivity|]. cbn [fold_left].
  assert (Lt : forall g, In g r -> fseq x < fseq g).
  { cbn [incr] in S. destruct S as [F _]. rewrite Forall_forall in F. exact F. }
  assert (E : latest_step_cache fixed from best x = latest_step fixed from best x).
  { unfold latest_step_cache, latest_step. destruct (ckpt_of x) as [c|] eqn:Cx; [|reflexivity].
    destruct (eligible fixed from c); [|reflexivity]. destruct best as [b|]; [|reflexivity].
    pose proof (ckpt_of_seq x c Cx) as Sx. pose proof (Hb b eq_refl x (or_introl eq_refl)) as Lb.
    destruct (better c b) eqn:B; destruct (ck_to b <=? ck_to c) eqn:L; try reflexivity;
      rewrite ?better_true, ?better_false in B; rewrite ?N.leb_le, ?N.leb_gt in L; exfalso; lia. }
  rewrite E. apply IH; [exact (incr_tail x r S)|].
  intros b Eb f F. unfold latest_step in Eb. destruct (ckpt_of x) as [c|] eqn:Cx.
  - pose proof (ckpt_of_seq x c Cx) as Sx.
    destruct (eligible fixed from c).
    + destruct best as [b0|].
      * destruct (ck_to b0 <=? ck_to c); inversion Eb; subst b.
        -- rewrite Sx. now apply Lt.
        -- apply (Hb b0 eq_refl f). now right.
      * inversion Eb; subst b. rewrite Sx. now apply Lt.
    + apply (Hb b Eb f). now right.
  - apply (Hb b Eb f). now right.
Qed.

Lemma cache_fold_is_latest_any fixed from evs : incr evs ->
  fold_left (latest_step_cache fixed from) (rev evs) None = latest_any fixed from evs.
Proof.
  intros S. rewrite (cache_fold_rev fixed from evs S). unfold latest_any. apply cache_fold_stream; [exact S|]. intros b H. discriminate H.
Qed.

(* a complete scan has read the whole file, and every line of it parses *)
Lemma scan_complete_all k ls evs : scan_lines k ls = ScTail evs true -> all_good_c ls = Some evs.
Proof.
  unfold scan_lines. intros H. destruct (all_good_c (lastn_lines k ls)) as [e|] eqn:G; [|discriminate].
  inversion H as [[He Hc]]. subst e. destruct (lastn_lines_suffix k ls) as (p & Hp & Hn).
  apply Nat.leb_le in Hc. rewrite (Hn Hc) in Hp. cbn [app] in Hp. rewrite Hp. exact G.
Qed.

(* whatever file the checkpoint readers end up scanning: if it parses as a whole it is the projection *)
Lemma effective_comp_faithful l comp full cl fs :
  CompFaithfulC l comp full -> comp_effective comp full = Some (Some cl) -> all_good_c cl = Some fs -> fs = filter is_ckpt l.
Proof.
  unfold CompFaithfulC, comp_effective. destruct (seen comp) as [ls|].
  - intros F E G. inversion E; subst cl. exact (F fs G).
  - destruct full as [fl|]; [|discriminate]. destruct (all_good_c fl) as [f0|] eqn:G0; [|discriminate].
    intros F E G. rewrite (F f0 eq_refl) in E.
    destruct (filter is_ckpt l) as [|x r] eqn:Fc; [discriminate|]. inversion E; subst cl.
    change (CGood x :: map CGood r) with (map CGood (x :: r)) in G. rewrite all_good_c_map in G. now inversion G.
Qed.

Lemma latest_cache_ok fixed me comp full from l c :
  incr l -> CompFaithfulC l comp full -> latest_cache fixed me comp full from = LSome c -> latest_any fixed from l = Some c.
Proof.
  intros S F H. unfold latest_cache in H.
  destruct (comp_effective comp full) as [[cl|]|] eqn:E; try discriminate.
  destruct (scan_lines me cl) as [|evs cpl] eqn:Sc; [discriminate|]. destruct cpl; [|discriminate].
  pose proof (effective_comp_faithful l comp full cl evs F E (scan_complete_all me cl evs Sc)) as Ev. subst evs.
  rewrite (cache_fold_is_latest_any fixed from _ (incr_filter is_ckpt l S)), latest_any_projection in H.
  destruct (latest_any fixed from l); inversion H. reflexivity.
Qed.

Lemma idx_load_map x fs : idx_load (map CGood x) = Some fs -> fs = x.
Proof.
  unfold idx_load. rewrite all_good_c_map. destruct x as [|f r]; [discriminate|].
  destruct (mono_from 0 (f :: r)); [|discriminate]. intros H. now inversion H.
Qed.

Lemma idx_rebuild_cases l comp full cl idx0 :
  CompFaithfulC l comp full -> comp_effective comp full = Some (Some cl) ->
  idx_rebuild cl idx0 = idx0
  \/ (filter is_ckpt l <> [] /\ idx_rebuild cl idx0 = Some (map CGood (filter is_ckpt l)))
  \/ (filter is_ckpt l = [] /\ idx_rebuild cl idx0 = None).
Proof.
  intros F E. unfold idx_rebuild. destruct (all_good_c cl) as [fs|] eqn:G; [|now left].
  pose proof (effective_comp_faithful l comp full cl fs F E G) as Ef. subst fs.
  destruct (forallb is_ckpt (filter is_ckpt l)); [|now left].
  destruct (filter is_ckpt l) as [|x r] eqn:Fc; [right; right; now split|].
  right; left. split; [discriminate|reflexivity].
Qed.

Lemma hier_cache_ok comp full idx l es :
  CompFaithfulC l comp full -> IdxFaithful l idx -> hier_cache comp full idx = HSome es -> es = filter is_ckpt l.
Proof.
  intros F Fi H. unfold hier_cache in H.
  (* the second stage, shared by both branches: the index file `e0` does not load *)
  assert (Stage2 : forall e0, idx_load e0 = None ->
            match comp_effective comp full with
            | None => HErr
            | Some None => HNone
            | Some (Some cl) =>
              match idx_rebuild cl (Some e0) with
              | Some es' => match idx_load es' with Some fs => HSome fs | None => HErr end
              | None => HSome []
              end
            end = HSome es -> es = filter is_ckpt l).
  { intros e0 L0 H2. destruct (comp_effective comp full) as [[cl|]|] eqn:E; try discriminate.
    destruct (idx_rebuild_cases l comp full cl (Some e0) F E) as [R|[[Ne R]|[Em R]]]; rewrite R in H2.
    - rewrite L0 in H2. discriminate.
    - destruct (idx_load (map CGood (filter is_ckpt l))) as [fs|] eqn:L1; [|discriminate].
      inversion H2; subst es. exact (idx_load_map _ _ L1).
    - inversion H2. now rewrite Em. }
  destruct idx as [e0|].
  - destruct (idx_load e0) as [fs|] eqn:L0.
    + inversion H; subst es. exact (Fi fs L0).
    + exact (Stage2 e0 L0 H).
  - destruct (comp_effective comp full) as [[cl|]|] eqn:E; try discriminate.
    destruct (idx_rebuild_cases l comp full cl None F E) as [R|[[Ne R]|[Em R]]]; rewrite R in H; try discriminate.
    destruct (idx_load (map CGood (filter is_ckpt l))) as [fs|] eqn:L1.
    + inversion H; subst es. exact (idx_load_map _ _ L1).
    + exact (Stage2 _ L1 H).
Qed.

Lemma latest_for_compile_ok fixed me full comp idx l from :
  incr l -> CompFaithfulC l comp full ->
  latest_for_compile fixed me full comp idx l from = latest_any fixed from l.
Proof.
  intros S F. unfold latest_for_compile. destruct (caches_behind_head full comp idx); [reflexivity|].
  destruct (latest_cache fixed me comp full from) as [| |c] eqn:L; try reflexivity.
  symmetry. exact (latest_cache_ok fixed me comp full from l c S F L).
Qed.

Lemma hier_for_compile_ok fixed levels full comp idx l from :
  CompFaithfulC l comp full -> IdxFaithful l idx ->
  hier_for_compile fixed levels full comp idx l from = hierarchy fixed from levels l.
Proof.
  intros F Fi. unfold hier_for_compile. destruct (caches_behind_head full comp idx); [reflexivity|].
  destruct (hier_cache comp full idx) as [| |es] eqn:H; try reflexivity.
  rewrite (hier_cache_ok comp full idx l es F Fi H). apply hierarchy_projection.
Qed.

(* the whole read side of a run's context through the caches as found *)
Theorem compile_cached_transparent (r : tail_count) (P : params) (texts : N -> N) (l : log) (a : N) (ks : list nat) (me : nat)
        (mr full comp idx : cfile) (window : option (log * N)) :
  tail_count_sound r = true -> incr l -> wf_refs l = true ->
  MrFaithful l mr full -> HeadFaithful l full -> WindowSpec (p_limit P) l a window ->
  CompFaithfulC l comp full -> IdxFaithful l idx ->
  compile_cached r P texts ks me mr full comp idx window l a = compile P texts l a.
Proof.
  intros R S W Fm Fh Ws Fc Fi.
  rewrite <- (compile_input_transparent r P texts l a R S W ks mr full window Fm Fh Ws).
  unfold compile_cached, compile_fast. destruct (input_fast r (p_limit P) ks mr full window l a) as [[evs from]|]; [|reflexivity].
  f_equal. rewrite compile_with_core, hierarchy_projection, latest_any_projection.
  rewrite (hier_for_compile_ok (p_fixed P) (p_max_refs P) full comp idx l from Fc Fi).
  rewrite (latest_for_compile_ok (p_fixed P) me full comp idx l from S Fc). reflexivity.
Qed.

(* witnesses: 8 messages, cumulative checkpoints (frames 9, 10) up to messages 4 and 8, one more message *)
Definition ck_log : log :=
  mkf 0 BOther :: plain_msgs 8 1 ++ [mkf 9 (BCkpt true 4 1); mkf 10 (BCkpt true 8 2); mkf 11 BMsg].
Definition ck_full : cfile := Some (map CGood ck_log).
Definition ck_mr : cfile := Some (map CGood (filter mr_keep ck_log)).
Definition ck_comp : list cline := map CGood (filter is_ckpt ck_log).
Definition ck_comp_recreated : list cline := [CGood (mkf 9 (BCkpt true 4 1))].   (* K2: only one checkpoint left in a well-formed file *)
Definition ck_comp_damaged : list cline := [CBad; CGood (mkf 10 (BCkpt true 8 2))].
Definition ck_idx_garbage : list cline := [CBad].

Lemma CompFaithfulC_of_file l ls full :
  ls <> [] -> (forall fs, all_good_c ls = Some fs -> fs = filter is_ckpt l) -> CompFaithfulC l (Some ls) full.
Proof. intros Ne F. destruct ls as [|x r]; [contradiction|]. exact F. Qed.
Lemma comp_projection_faithful l full :
  filter is_ckpt l <> [] -> CompFaithfulC l (Some (map CGood (filter is_ckpt l))) full.
Proof.
  intros Ne. apply CompFaithfulC_of_file.
  - destruct (filter is_ckpt l); [contradiction|discriminate].
  - intros fs G. rewrite all_good_c_map in G. now inversion G.
Qed.
Lemma comp_with_bad_line_faithful l full u v : CompFaithfulC l (Some (u ++ CBad :: v)) full.
Proof.
  apply CompFaithfulC_of_file.
  - destruct u; discriminate.
  - intros fs G. rewrite all_good_c_bad in G. discriminate.
Qed.
Lemma idx_projection_faithful l : IdxFaithful l (Some (map CGood (filter is_ckpt l))).
Proof. intros fs L. exact (idx_load_map _ _ L). Qed.
Lemma idx_unloadable_faithful l es : idx_load es = None -> IdxFaithful l (Some es).
Proof. intros N fs L. rewrite N in L. discriminate. Qed.

Definition summaries (o : option (decision * bundle)) : list N :=
  match o with
  | Some (_, b) => flat_map (fun i => match i with ISummary _ t => [t] | _ => [] end) (b_items b)
  | None => []
  end.

Lemma ck_examples :
  valid_log ck_log = true /\ wf_refs ck_log = true
  /\ MrFaithful ck_log ck_mr ck_full /\ HeadFaithful ck_log ck_full
  /\ CompFaithfulC ck_log (Some ck_comp) ck_full /\ CompFaithfulC ck_log (Some ck_comp_damaged) ck_full /\ CompFaithfulC ck_log None ck_full
  /\ IdxFaithful ck_log (Some ck_comp) /\ IdxFaithful ck_log (Some ck_idx_garbage) /\ IdxFaithful ck_log None
  (* intact; checkpoint sidecar with an unparsable line and an index that does not load; neither file: two summary refs
     (to_seq 4 and 8) and the message after them, as the replay says *)
  /\ summaries (compile_cached CountUpToCut code16 no_texts [20%nat] 100%nat ck_mr ck_full (Some ck_comp) (Some ck_comp) None ck_log 11) = [4; 8]
  /\ summaries (compile_cached CountUpToCut code16 no_texts [20%nat] 100%nat ck_mr ck_full (Some ck_comp_damaged) (Some ck_idx_garbage) None ck_log 11) = [4; 8]
  /\ summaries (compile_cached CountUpToCut code16 no_texts [20%nat] 100%nat ck_mr ck_full None None None ck_log 11) = [4; 8]
  /\ summaries (compile code16 no_texts ck_log 11) = [4; 8]
  /\ users (compile code16 no_texts ck_log 11) = [11].
Proof.
  split; [vm_compute; reflexivity|]. split; [vm_compute; reflexivity|].
  split; [exact (projection_file_faithful ck_log)|].
  split; [intros f H; exact (head_of_projection ck_log f H)|].
  split; [apply (comp_projection_faithful ck_log ck_full); vm_compute; discriminate|].
  split; [exact (comp_with_bad_line_faithful ck_log ck_full [] [CGood (mkf 10 (BCkpt true 8 2))])|].
  split; [intros fs G; rewrite all_good_c_map in G; now inversion G|].
  split; [exact (idx_projection_faithful ck_log)|].
  split; [apply idx_unloadable_faithful; reflexivity|].
  split; [exact I|].
  repeat split; vm_compute; reflexivity.
Qed.

(* K2 is not vacuous for the compiled context (S4): the checkpoint sidecar re-created by one append, the index built from it *)
Lemma K2_changes_compiled_context :
  ~ CompFaithfulC ck_log (Some ck_comp_recreated) ck_full
  /\ summaries (compile_cached CountUpToCut code16 no_texts [20%nat] 100%nat ck_mr ck_full (Some ck_comp_recreated) None None ck_log 11) = [4]
  /\ users (compile_cached CountUpToCut code16 no_texts [20%nat] 100%nat ck_mr ck_full (Some ck_comp_recreated) None None ck_log 11) = [5; 6; 7; 8; 11]
  /\ summaries (compile code16 no_texts ck_log 11) = [4; 8]
  /\ users (compile code16 no_texts ck_log 11) = [11].
Proof.
  split; [|repeat split; vm_compute; reflexivity].
  intros F. specialize (F [mkf 9 (BCkpt true 4 1)] eq_refl). vm_compute in F. discriminate F.
Qed.
