(* C05 — any number of crash / restart rounds (a crash may hit the recovery work of the previous restart): all the
   invariants are every-instruction invariants re-established by `recover`, so they compose over rounds. *)
From RipV Require Import Base.Prelude Model.Crash Proofs.CrashProofs Proofs.CrashCacheProofs Proofs.CrashIndexProofs
  Proofs.CrashArtifactProofs.

Fixpoint env_rounds (v : ver) (s : st) (i : N) (rs : list (list op * nat)) : bool :=
  match rs with
  | [] => true
  | (ops, k) :: r => env_runb v s i ops && env_rounds v (recover (run_k v k s i ops)) (i + nlen ops) r
  end.

Lemma rounds_J_SOK rs : forall s i fs, J (4 * i) s fs -> SOK s -> env_rounds fixed s i rs = true ->
  exists fs', J (4 * snd (run_rounds fixed s i rs)) (fst (run_rounds fixed s i rs)) fs'
              /\ SOK (fst (run_rounds fixed s i rs)).
Proof.
  induction rs as [|[ops k] rs IH]; intros s i fs HJ HS He; [exists fs; split; [exact HJ | exact HS]|].
  cbn [env_rounds] in He. apply andb_true_iff in He. destruct He as [He1 He2]. cbn [run_rounds].
  pose proof (run_k_D ops k s i fs HJ He1) as HD. destruct (D_recover _ _ HD) as [fs1 HJ1].
  apply (IH _ _ fs1 HJ1); [|exact He2]. apply SOK_recover. exact (run_k_SOK ops k s i fs HJ He1 HS).
Qed.

(* the log and the full sidecars after ANY number of crash / restart rounds and ANY further operations *)
Theorem rounds_recover_valid rs more :
  env_rounds fixed init 0 rs = true ->
  env_runb fixed (fst (run_rounds fixed init 0 rs)) (snd (run_rounds fixed init 0 rs)) more = true ->
  let fin := run_ops fixed (fst (run_rounds fixed init 0 rs)) (snd (run_rounds fixed init 0 rs)) more in
  exists fs, replay_validated fin = Some fs /\ Numbered fs /\ truth fin = enc fs
             /\ (forall fid, In fid (acks fin) -> cfid fid fs = 1)
             /\ (forall c evs, try_replay fin c = Some evs -> exists rest, stream (2 * c) fs = evs ++ rest).
Proof.
  intros Hr Hm fin. destruct (rounds_J_SOK rs init 0 [] J_init SOK_init Hr) as (fs0 & HJ0 & HS0).
  destruct (run_ops_J more _ _ fs0 HJ0 Hm) as [fs HJ].
  pose proof (run_ops_SOK more _ _ fs0 HJ0 Hm HS0) as HS. fold fin in HJ, HS.
  exists fs. split; [exact (J_replay _ _ _ HJ)|]. destruct HJ as (Ht & Hw & Hv & Hn & Hb & Ha).
  split; [exact (validate_numbered fs Hv)|]. split; [exact Ht|]. split; [exact Ha|].
  intros c evs Htr. destruct (try_replay_accept _ _ _ Htr) as (ch & Hi & P & Q).
  pose proof (HS c ch Hi) as G. rewrite Ht, frames_of_enc in G. exact (GB_accept ch _ evs G P Q).
Qed.

(* acknowledgements survive every round (they are never withdrawn) *)
Lemma acks_run_k v ops : forall k s i, incl (acks s) (acks (run_k v k s i ops)).
Proof.
  induction ops as [|o ops IH]; intros k s i; [apply incl_refl|]. cbn [run_k].
  destruct (Nat.leb k (length (compile v s i o))); [apply acks_run|].
  eapply incl_tran; [apply acks_run | apply IH].
Qed.
Lemma acks_rounds v rs : forall s i, incl (acks s) (acks (fst (run_rounds v s i rs))).
Proof.
  induction rs as [|[ops k] rs IH]; intros s i; [apply incl_refl|]. cbn [run_rounds].
  eapply incl_tran; [|apply IH]. cbn [recover acks]. apply acks_run_k.
Qed.

(* the thread index and the artifact store over rounds: every version, every history, no hypothesis *)
Lemma run_k_index v ops k s i : K s -> idx_ext (idx s) (idx (run_k v k s i ops)).
Proof.
  intros HK. destruct (atomic_views v ops k s i) as [E|E]; rewrite E; apply run_ops_boundary; exact HK.
Qed.
Theorem rounds_index v rs : forall s i, K s ->
  K (fst (run_rounds v s i rs)) /\ idx_ext (idx s) (idx (fst (run_rounds v s i rs))).
Proof.
  induction rs as [|[ops k] rs IH]; intros s i HK; [split; [exact HK | apply idx_ext_refl]|].
  cbn [run_rounds]. destruct (IH (recover (run_k v k s i ops)) (i + nlen ops) (K_recover _)) as [HK' He].
  split; [exact HK'|]. eapply idx_ext_trans; [|exact He]. cbn [recover idx]. apply run_k_index. exact HK.
Qed.
Theorem rounds_artifacts v rs : forall s i, AR s -> AR (fst (run_rounds v s i rs)).
Proof.
  induction rs as [|[ops k] rs IH]; intros s i H; [exact H|]. cbn [run_rounds]. apply IH, AR_recover, run_k_AR. exact H.
Qed.

(* what a completed operation of ANY round left in index.json is still there after all later rounds and any further
   operations; every artifact a frame names is complete *)
Theorem rounds_index_never_loses v rs rs' more :
  let s1 := run_rounds v init 0 rs in
  let s2 := run_rounds v (fst s1) (snd s1) rs' in
  idx_ext (idx (fst s1)) (idx (run_ops v (fst s2) (snd s2) more)).
Proof.
  cbn zeta. destruct (rounds_index v rs init 0 K_init) as [HK1 _].
  destruct (rounds_index v rs' _ (snd (run_rounds v init 0 rs)) HK1) as [HK2 He].
  eapply idx_ext_trans; [exact He|]. apply run_ops_boundary. exact HK2.
Qed.
Theorem rounds_artifact_before_frame v rs more f a :
  let s1 := run_rounds v init 0 rs in
  In f (frames_of (truth (run_ops v (fst s1) (snd s1) more))) -> f_art f = Some a ->
  In a (arts (run_ops v (fst s1) (snd s1) more)).
Proof.
  cbn zeta. intros Hf Ha.
  assert (H : AR (run_ops v (fst (run_rounds v init 0 rs)) (snd (run_rounds v init 0 rs)) more))
    by (apply run_ops_AR, rounds_artifacts, AR_init).
  apply (H f a); [|exact Ha]. rewrite frames_of_app. apply in_or_app. left. exact Hf.
Qed.

(* three rounds: a crash inside the message append (truth line flushed, sidecar stale), a crash inside the recovery
   work of the next append (the sidecar rebuild), a crash inside a branch's index save; then more operations *)
Definition rd_rounds : list (list op * nat) :=
  [([OEnsure 0 300; OAppend 0 10], 43%nat); ([OAppend 0 10], 6%nat); ([OBranch 0 1 300 300], 24%nat)].
Definition rd_more : list op := [OAppend 0 10; OEnsure 9 300; OAppend 1 10].
Lemma rd_example :
  env_rounds fixed init 0 rd_rounds = true
  /\ env_runb fixed (fst (run_rounds fixed init 0 rd_rounds)) (snd (run_rounds fixed init 0 rd_rounds)) rd_more = true
  /\ snd (run_rounds fixed init 0 rd_rounds) = 4
  /\ option_map (map (fun f => (f_sid f, f_seq f)))
       (replay_validated (run_ops fixed (fst (run_rounds fixed init 0 rd_rounds)) 4 rd_more))
     = Some [(0, 0); (0, 1); (2, 0); (0, 2); (2, 1)].
Proof. vm_compute. repeat split. Qed.
