(* C12 — several sections of one patch on the same path.  Every section works on what the sections
   before it have left in the workspace, never on something the path held earlier in the same patch:
   a path that was moved away (or deleted) and re-created by a later `Add File` / `Move to` is, for
   the sections after that, the NEW file.  Corollaries of the in-order semantics (success_effects)
   and of atomicity. *)
From RipV Require Import Base.Prelude Base.Fs Model.Patch Proofs.FsProofs Proofs.PatchProofs Proofs.PatchAtomic Proofs.PatchEffects.
Require Import Coq.Strings.String.
Open Scope N_scope.
Open Scope list_scope.

Lemma effects_app : forall a b m m', effects m (a ++ b) m' -> exists m1, effects m a m1 /\ effects m1 b m'.
Proof.
  induction a as [|o a IH]; intros b m m' H; cbn [app effects] in *.
  - exists m. split; [intros q; reflexivity|exact H].
  - destruct H as [m0 [E0 H]]. destruct (IH _ _ _ H) as [m1 [Ea Eb]].
    exists m1. split; [exists m0; split; assumption|exact Eb].
Qed.

Lemma upd_other (m : fmap) k v q : k <> q -> upd m k v q = m q.
Proof. intros NE. unfold upd. apply path_eqb_false in NE. rewrite NE. reflexivity. Qed.
Lemma upd_same (m : fmap) k v : upd m k v k = v.
Proof. unfold upd. rewrite path_eqb_refl. reflexivity. Qed.

(* an operation leaves every path it does not name as it was *)
Lemma op_effect_frame m m1 o k : op_effect m m1 o -> ~ In k (map comps (op_paths o)) -> m1 k = m k.
Proof.
  destruct o as [p c|p|p [t|] hs]; cbn [op_effect op_paths map In]; intros H NI.
  - destruct H as [_ H]. rewrite H. apply upd_other. intros E. apply NI. left. exact E.
  - destruct H as [_ H]. rewrite H. apply upd_other. intros E. apply NI. left. exact E.
  - destruct H as [b [b' [_ [_ [_ [_ [_ H]]]]]]]. rewrite H.
    rewrite upd_other by (intros E; apply NI; right; left; exact E).
    apply upd_other. intros E. apply NI. left. exact E.
  - destruct H as [b [b' [_ [_ [_ H]]]]]. rewrite H. apply upd_other. intros E. apply NI. left. exact E.
Qed.

Lemma effects_frame : forall ops m m' k, effects m ops m' -> ~ In k (map comps (affected_paths ops)) -> m' k = m k.
Proof.
  induction ops as [|o ops IH]; intros m m' k H NI; cbn [effects] in H.
  - apply H.
  - destruct H as [m1 [E H]]. unfold affected_paths in NI. cbn [flat_map] in NI. rewrite map_app in NI.
    rewrite (IH _ _ _ H) by (intros I; apply NI; apply in_or_app; right; exact I).
    apply (op_effect_frame _ _ _ _ E). intros I. apply NI. apply in_or_app. left. exact I.
Qed.

(* what the update of p works on, read off its effect *)
Lemma op_effect_upd_reads m m1 p mv hs :
  op_effect m m1 (Upd p mv hs) -> exists b b', m (comps p) = Some b /\ utf8_ok b = true /\ apply_hunks_to_text b hs = Some b'
    /\ (mv = None -> m1 (comps p) = Some b').
Proof.
  destruct mv as [t|]; cbn [op_effect]; intros [b [b' H]]; exists b, b'.
  - destruct H as [M [U [A _]]]. repeat split; try assumption. discriminate.
  - destruct H as [M [U [A H]]]. repeat split; try assumption. intros _. rewrite H. apply upd_same.
Qed.

(* ---- every update section works on the text the sections before it have left at its path *)
Theorem section_sees_earlier_sections f pre p mv hs post f' ch :
  fs_wf f -> apply_ops true [] f (pre ++ Upd p mv hs :: post) = Applied f' ch ->
  exists m b b', effects (file_at f) pre m /\ m (comps p) = Some b /\ utf8_ok b = true /\ apply_hunks_to_text b hs = Some b'.
Proof.
  intros W H. apply success_effects in H; [|exact W]. destruct H as [E _].
  apply effects_app in E. destruct E as [m [Ea Eb]]. cbn [effects] in Eb. destruct Eb as [m1 [Eo _]].
  apply op_effect_upd_reads in Eo. destruct Eo as [b [b' [M [U [A _]]]]].
  exists m, b, b'. repeat split; assumption.
Qed.

(* ---- a path re-created by `Add File` (after having been moved away, deleted, or never there): a later
   update of it — nothing in between names the path — works on the ADDED content, whatever the path
   held before; without a move and with no later section on the path, the path ends up holding the
   added content with the hunks applied *)
Theorem update_after_recreation f pre p1 c mid p mv hs post f' ch :
  fs_wf f -> apply_ops true [] f (pre ++ Add p1 c :: mid ++ Upd p mv hs :: post) = Applied f' ch ->
  comps p1 = comps p -> ~ In (comps p) (map comps (affected_paths mid)) ->
  exists b', apply_hunks_to_text c hs = Some b' /\
    (mv = None -> ~ In (comps p) (map comps (affected_paths post)) -> file_at f' (comps p) = Some b').
Proof.
  intros W H EQ NI. apply success_effects in H; [|exact W]. destruct H as [E _].
  apply effects_app in E. destruct E as [m0 [_ E]]. cbn [effects] in E. destruct E as [m1 [EA E]].
  apply effects_app in E. destruct E as [m2 [EM E]]. cbn [effects] in E. destruct E as [m3 [EU EP]].
  cbn [op_effect] in EA. destruct EA as [_ EA].
  assert (M2 : m2 (comps p) = Some c).
  { rewrite (effects_frame _ _ _ _ EM NI). rewrite EA. rewrite EQ. apply upd_same. }
  apply op_effect_upd_reads in EU. destruct EU as [b [b' [M [_ [A F]]]]].
  rewrite M2 in M. inversion M; subst b. exists b'. split; [exact A|].
  intros MV NP. rewrite (effects_frame _ _ _ _ EP NP). apply F. exact MV.
Qed.

(* ---- the same for a path re-created by another section's `Move to`: the later update works on the
   moved-in file's text (the text of r with r's hunks applied) *)
Theorem update_after_move_in f pre r t hs0 mid p mv hs post f' ch :
  fs_wf f -> apply_ops true [] f (pre ++ Upd r (Some t) hs0 :: mid ++ Upd p mv hs :: post) = Applied f' ch ->
  comps t = comps p -> ~ In (comps p) (map comps (affected_paths mid)) ->
  exists m b0 b1 b', effects (file_at f) pre m /\ m (comps r) = Some b0 /\
    apply_hunks_to_text b0 hs0 = Some b1 /\ apply_hunks_to_text b1 hs = Some b'.
Proof.
  intros W H EQ NI. apply success_effects in H; [|exact W]. destruct H as [E _].
  apply effects_app in E. destruct E as [m0 [E0 E]]. cbn [effects] in E. destruct E as [m1 [EA E]].
  apply effects_app in E. destruct E as [m2 [EM E]]. cbn [effects] in E. destruct E as [m3 [EU _]].
  cbn [op_effect] in EA. destruct EA as [b0 [b1 [M0 [_ [A0 [_ [_ EA]]]]]]].
  assert (M2 : m2 (comps p) = Some b1).
  { rewrite (effects_frame _ _ _ _ EM NI). rewrite EA. rewrite EQ. apply upd_same. }
  apply op_effect_upd_reads in EU. destruct EU as [b [b' [M [_ [A _]]]]].
  rewrite M2 in M. inversion M; subst b. exists m0, b0, b1, b'. repeat split; assumption.
Qed.

(* ---- and a patch whose hunks only fit what the path held EARLIER is refused as a whole: when the hunks
   do not apply to the added content the apply fails, and every file keeps its bytes *)
Theorem stale_context_is_refused f pre p1 c mid p mv hs post :
  fs_wf f -> comps p1 = comps p -> ~ In (comps p) (map comps (affected_paths mid)) ->
  apply_hunks_to_text c hs = None ->
  exists g e, apply_ops true [] f (pre ++ Add p1 c :: mid ++ Upd p mv hs :: post) = Failed g e /\
    forall q, file_at g q = file_at f q.
Proof.
  intros W EQ NI NA.
  destruct (apply_ops true [] f (pre ++ Add p1 c :: mid ++ Upd p mv hs :: post)) as [f' ch|g e] eqn:H.
  - destruct (update_after_recreation _ _ _ _ _ _ _ _ _ _ _ W H EQ NI) as [b' [A _]]. congruence.
  - exists g, e. split; [reflexivity|]. eapply apply_ops_atomic; eassumption.
Qed.

(* ---- concrete instances (the shapes of the same-path family of the harness) *)
Definition sec_fs : fs := [([bs "a.txt"], File (bs "alpha" ++ [10] ++ bs "beta" ++ [10]))].
(* update + move away; re-create; update: the last section sees the re-created file *)
Definition sec_ops_ok : list op :=
  [Upd (bs "a.txt") (Some (bs "b.txt")) [{| h_before := [bs "alpha"]; h_after := [bs "ALPHA"] |}];
   Add (bs "./a.txt") (bs "beta" ++ [10] ++ bs "gamma" ++ [10]);
   Upd (bs "a.txt") None [{| h_before := [bs "gamma"]; h_after := [bs "GAMMA"] |}]].
Definition sec_after_ok : fs :=
  [([bs "a.txt"], File (bs "beta" ++ [10] ++ bs "GAMMA" ++ [10]));
   ([bs "b.txt"], File (bs "ALPHA" ++ [10] ++ bs "beta" ++ [10]))].
Definition sec_changed_ok : list (list N) := [bs "./a.txt"; bs "a.txt"; bs "b.txt"].
Lemma sec_ok_run : apply_ops true [] sec_fs sec_ops_ok = Applied sec_after_ok sec_changed_ok.
Proof. vm_compute. reflexivity. Qed.
(* the last section's context (`alpha`) is only in the text that was moved away: refused, nothing changed *)
Definition sec_ops_stale : list op :=
  [Upd (bs "a.txt") (Some (bs "b.txt")) [{| h_before := [bs "alpha"]; h_after := [bs "ALPHA"] |}];
   Add (bs "a.txt") (bs "beta" ++ [10] ++ bs "gamma" ++ [10]);
   Upd (bs "a.txt") None [{| h_before := [bs "ALPHA"]; h_after := [bs "x"] |}]].
Lemma sec_stale_run : apply_ops true [] sec_fs sec_ops_stale = Failed sec_fs EINVALDATA.
Proof. vm_compute. reflexivity. Qed.
(* chain a -> b -> a, then an update of a: it works on the text that came back *)
Definition sec_ops_chain : list op :=
  [Upd (bs "a.txt") (Some (bs "b.txt")) [{| h_before := [bs "alpha"]; h_after := [bs "ALPHA"] |}];
   Upd (bs "b.txt") (Some (bs "a.txt")) [{| h_before := [bs "beta"]; h_after := [bs "BETA"] |}];
   Upd (bs "a.txt") None [{| h_before := [bs "ALPHA"; bs "BETA"]; h_after := [bs "both"] |}]].
Definition sec_after_chain : fs := [([bs "a.txt"], File (bs "both" ++ [10]))].
Definition sec_changed_chain : list (list N) := [bs "a.txt"; bs "b.txt"].
Lemma sec_chain_run : apply_ops true [] sec_fs sec_ops_chain = Applied sec_after_chain sec_changed_chain.
Proof. vm_compute. reflexivity. Qed.
Lemma sec_wf : fs_wf sec_fs.
Proof. apply wf_fsb_sound. vm_compute. reflexivity. Qed.
